#!/usr/bin/env python3
"""Regenerates MANIFEST.json from checks/*.json (one file per claimed property)."""
import json, os, glob
ROOT = os.path.dirname(os.path.dirname(os.path.abspath(__file__)))
ids = [json.loads(l)["id"] for l in open(os.path.join(ROOT, "properties.jsonl"))]
checks, claimed = [], set()
allow = set(open(os.path.join(ROOT, "checks", "claimed.txt")).read().split())
for p in sorted(glob.glob(os.path.join(ROOT, "checks", "C*.json"))):
    pid = os.path.basename(p)[:-5]
    if pid not in allow:
        continue  # a check is claimed only after it was validated on the unchanged tree (checks/claimed.txt)
    c = json.load(open(p))
    claimed.add(pid)
    checks.append({
        "property_id": pid,
        "quick_cmd": "./check %s quick" % pid,
        "thorough_cmd": "./check %s thorough" % pid,
        "evidence_file": "evidence/%s.json" % pid,
        "replay_cmd_template": "./check %s --replay {path}" % pid,
        "engine": "lean-model+" + c["harness"],
        "level_claimed": {"category": "proof", "text": c["level_text"], "design_ref": c.get("design_ref", "DESIGN.md §5 " + pid)},
        "level_note": c["level_note"],
        "technique": c["technique"],
    })
na_path = os.path.join(ROOT, "checks", "not_applicable.json")
na_reasons = json.load(open(na_path)) if os.path.exists(na_path) else {}
na = [{"property_id": i, "reason": na_reasons.get(i, "not claimed yet: the model and check for this property are not built in this revision")} for i in ids if i not in claimed]
m = {
    "version": 1,
    "setup_cmd": "./check --setup",
    "hooks": {
        "guard": "verif",
        "enable": "go build -tags verif (harness module replaces github.com/d5/tengo/v2 => /repo)",
        "baseline_off_cmd": "cd /repo && go test -vet=off -count=1 ./...",
        "source_commits": [l.split()[0] for l in os.popen("git -C /repo log --format='%h %s' | grep -i 'verif hook'").read().strip().split("\n") if l],
        "add_only": True,
    },
    "engines": [
        {"name": "lean-model", "path": "lean/", "serves_properties": sorted(claimed), "kind_free_text": "Lean 4 model (Tengo/Model), property theorems (Tengo/Props), regenerated facts (Tengo/Gen), line-protocol driver (Main.lean)"},
        {"name": "extract", "path": "harness/cmd/extract", "serves_properties": sorted(claimed), "kind_free_text": "go/ast + go/types fact extractor regenerating lean/Tengo/Gen/*.lean from /repo on every run"},
        {"name": "harness", "path": "harness/cmd/cNN", "serves_properties": sorted(claimed), "kind_free_text": "per-property Go commands (built from /repo with -tags verif): generators, differential correspondence against the Lean driver, property oracles on the real code"},
    ],
    "checks": checks,
    "not_applicable": na,
    "notes": "Every check: regenerate Gen facts from /repo, lake build the property's theorem module, audit axioms, run the correspondence and the searchers, decide (DESIGN.md §1.3/§1.4).",
}
json.dump(m, open(os.path.join(ROOT, "MANIFEST.json"), "w"), indent=1)
# known_findings.json = union of known/*.json (the committed known-findings file)
kf = []
for p in sorted(glob.glob(os.path.join(ROOT, "known", "*.json"))):
    kf += json.load(open(p)).get("findings", [])
json.dump({"findings": kf, "fixed_log": ["fixed: property=%s %s %s" % (k["property"], k.get("commit", "?"), k["what_fails"]) for k in kf if k.get("status") == "fixed"]},
          open(os.path.join(ROOT, "known_findings.json"), "w"), indent=1)
print("claimed:", sorted(claimed), "not claimed:", len(na))

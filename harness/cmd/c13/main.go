// Command c13: correspondence and searchers for C13 (modules are isolated, immutable to importers,
// and acyclic).
//
// Streams
//
//	graph      ALL import graphs on <= 4 modules with <= 2 imports each (thorough: <= 5); from 4 modules on only the
//	           canonical representative of each class under renaming/removal of unreachable modules:
//	           model `compileGraph` vs the real compiler (error class, order of module compilations read from the
//	           file set, order of Importable.Import calls) + oracles computed here on the syntactic graph
//	random     random graphs up to 12 modules: builtin modules, unknown/empty names, parse errors, names used
//	           across the module boundary, path-like names, imports in functions and dead code
//	file       file import enabled over a temporary directory tree mixed with map modules (model vs code)
//	isolation  (searcher) importer/module/sibling names must be unresolved across the module boundary
//	immutable  (searcher) import values reject assignment; two imports share no mutable state
//	derived    (searcher) writes into values derived from an import value (slice, append, +, copy, loop variables,
//	           splice, delete) leave the export unchanged (seen via the value, the module's accessor, a fresh import)
//	embed      (searcher, embed.go) what a module sees does not depend on the embedder's set-up: symbol-table histories of
//	           the Compiler API (host variables before/after/between the builtins, reused table, REPL, Script.Add), host and
//	           importer variables named like builtin functions, chains/diamonds, seven use sites; values via a host sink
//	rerun      (searcher) every evaluation of an import expression runs the body again (host-side counter)
//	emit, run  bytecode of import/export sites and import values vs the micro model
//	nofs       (searcher) with file import disabled no path derived from an import name reaches the kernel
//	           (child process under strace -f -e trace=file; fallback: results independent of files present)
package main

import (
	"context"
	"encoding/json"
	"fmt"
	"os"
	"os/exec"
	"path/filepath"
	"sort"
	"strconv"
	"strings"
	"time"

	"github.com/d5/tengo/v2"
	"github.com/d5/tengo/v2/parser"
	"verifharness/lib"
)

var (
	res      *lib.Result
	drv      *lib.Driver
	thorough bool
	builtins []string
)

// ---- case description ----

type item struct {
	K     string `json:"k"` // "i" import, "r" use of a name, "d" definition
	Name  string `json:"n"`
	Style int    `json:"s,omitempty"` // how an import is written (top level, in a function, dead code …)
}

type mod struct {
	Name     string `json:"name"`
	Builtin  bool   `json:"builtin,omitempty"`
	ParseErr bool   `json:"parse_err,omitempty"`
	Items    []item `json:"items"`
	Ending   int    `json:"ending,omitempty"` // 0 nothing, 1 export value, 2 export function, 3 export first then items
}

type fmod struct {
	Path     string `json:"path"` // relative to the temporary root
	ParseErr bool   `json:"parse_err,omitempty"`
	Items    []item `json:"items"`
}

type gcase struct {
	Stream    string   `json:"stream"`
	Mods      []mod    `json:"mods"`
	Main      []item   `json:"main"`
	HostVars  []string `json:"host_vars,omitempty"`
	AllowFile bool     `json:"allow_file,omitempty"`
	Files     []fmod   `json:"files,omitempty"`
	MainSrc   string   `json:"main_src,omitempty"`
}

const parseErrBody = "x := := 1\n"

func render(items []item, ending int) string {
	var sb strings.Builder
	if ending == 3 {
		sb.WriteString("export {v: 1}\n")
	}
	for i, it := range items {
		q := strconv.Quote(it.Name)
		switch it.K {
		case "d":
			fmt.Fprintf(&sb, "%s := %d\n", it.Name, i)
		case "r":
			fmt.Fprintf(&sb, "u%d := %s\n", i, it.Name)
		case "i":
			switch it.Style % 6 {
			case 0:
				fmt.Fprintf(&sb, "v%d := import(%s)\n", i, q)
			case 1:
				fmt.Fprintf(&sb, "f%d := func() { return import(%s) }\n", i, q)
			case 2:
				fmt.Fprintf(&sb, "g%d := func() { return %d; w := import(%s) }\n", i, i, q)
			case 3:
				fmt.Fprintf(&sb, "if false { w%d := import(%s) }\n", i, q)
			case 4:
				fmt.Fprintf(&sb, "a%d := [import(%s)]\n", i, q)
			case 5:
				fmt.Fprintf(&sb, "h%d := func(p) { return func() { return p ? import(%s) : 0 } }\n", i, q)
			}
		}
	}
	switch ending {
	case 1:
		sb.WriteString("export {v: 1, a: [1, 2]}\n")
	case 2:
		sb.WriteString("export func(x) { return x + 1 }\n")
	}
	return sb.String()
}

func (m *mod) source() string {
	if m.ParseErr {
		return parseErrBody
	}
	return render(m.Items, m.Ending)
}

// ---- the real compiler, instrumented from outside ----

type abortCompile struct{ why string }

type countingGetter struct {
	inner  tengo.ModuleGetter
	log    *[]string
	budget int
}

type countingImportable struct {
	g     *countingGetter
	inner tengo.Importable
}

func (g *countingGetter) Get(name string) tengo.Importable {
	m := g.inner.Get(name)
	if m == nil {
		return nil
	}
	return &countingImportable{g, m}
}

func (c *countingImportable) Import(name string) (interface{}, error) {
	*c.g.log = append(*c.g.log, name)
	if c.g.budget > 0 && len(*c.g.log) > c.g.budget {
		panic(abortCompile{"fetch budget exceeded"})
	}
	return c.inner.Import(name)
}

type realOut struct {
	Class    string // ok | cyclic | notfound | unresolved | parse | empty | filepath | fileread | other | abort | panic | timeout
	Arg      string
	Err      string
	Compiled []string
	Fetched  []string
	BC       *tengo.Bytecode
}

func classify(err error, compiled []string) (string, string) {
	if err == nil {
		return "ok", ""
	}
	s := err.Error()
	between := func(a, b string) string {
		i := strings.Index(s, a)
		if i < 0 {
			return ""
		}
		t := s[i+len(a):]
		if j := strings.Index(t, b); j >= 0 {
			return t[:j]
		}
		return t
	}
	switch {
	case strings.Contains(s, "cyclic module import: "):
		return "cyclic", between("cyclic module import: ", "\n")
	case strings.Contains(s, "module file path error: "):
		return "filepath", between("module file path error: module '", "' not found at")
	case strings.Contains(s, "module file read error: "):
		a := between("module file read error: ", "\n")
		a = strings.TrimPrefix(a, "open ")
		a = strings.TrimPrefix(a, "read ")
		if i := strings.Index(a, ": "); i >= 0 {
			a = a[:i]
		}
		return "fileread", a
	case strings.Contains(s, "Compile Error: module '"):
		return "notfound", between("Compile Error: module '", "' not found")
	case strings.Contains(s, "empty module name"):
		return "empty", ""
	case strings.Contains(s, "unresolved reference '"):
		return "unresolved", between("unresolved reference '", "'")
	case strings.HasPrefix(s, "Parse Error:"):
		if len(compiled) > 0 {
			return "parse", compiled[len(compiled)-1]
		}
		return "parse", ""
	}
	return "other", s
}

func (c *gcase) moduleMap() *tengo.ModuleMap {
	mm := tengo.NewModuleMap()
	for i := range c.Mods {
		m := &c.Mods[i]
		if m.Builtin {
			mm.AddBuiltinModule(m.Name, map[string]tengo.Object{"k": &tengo.Int{Value: 1}})
		} else {
			mm.AddSourceModule(m.Name, []byte(m.source()))
		}
	}
	return mm
}

func (c *gcase) mainSource() string {
	if c.MainSrc != "" {
		return c.MainSrc
	}
	return render(c.Main, 0)
}

func (c *gcase) budget() int {
	n := len(c.Main)
	for _, m := range c.Mods {
		n += len(m.Items)
	}
	for _, f := range c.Files {
		n += len(f.Items)
	}
	return 2*n + 16
}

// compileDirect drives the real compiler the way Script.Compile does, keeping the file set (one
// AddFile per module body that is parsed and compiled) and the log of Importable.Import calls.
func compileDirect(c *gcase, importDir string) (out realOut) {
	var fetched []string
	fs := parser.NewFileSet()
	g := lib.Guard(20*time.Second, func() {
		defer func() {
			if p := recover(); p != nil {
				if a, ok := p.(abortCompile); ok {
					out.Class, out.Err = "abort", a.why
					return
				}
				out.Class, out.Err = "panic", fmt.Sprint(p)
			}
		}()
		src := []byte(c.mainSource())
		sf := fs.AddFile("(main)", -1, len(src))
		p := parser.NewParser(sf, src, nil)
		file, err := p.ParseFile()
		if err != nil {
			out.Class, out.Err = "mainparse", err.Error()
			return
		}
		st := tengo.NewSymbolTable()
		for idx, fn := range tengo.GetAllBuiltinFunctions() {
			st.DefineBuiltin(idx, fn.Name)
		}
		hv := append([]string{}, c.HostVars...)
		sort.Strings(hv)
		for _, n := range hv {
			st.Define(n)
		}
		comp := tengo.NewCompiler(sf, st, nil, &countingGetter{c.moduleMap(), &fetched, c.budget()}, nil)
		comp.EnableFileImport(c.AllowFile)
		comp.SetImportDir(importDir)
		err = comp.Compile(file)
		var compiled []string
		for _, f := range fs.Files[1:] {
			compiled = append(compiled, f.Name)
		}
		out.Class, out.Arg = classify(err, compiled)
		if err != nil {
			out.Err = err.Error()
		} else {
			out.BC = comp.Bytecode()
		}
	})
	if g.TimedOut {
		out = realOut{Class: "timeout"}
	}
	for i, f := range fs.Files {
		if i > 0 {
			out.Compiled = append(out.Compiled, f.Name)
		}
	}
	out.Fetched = fetched
	return out
}

// compileScript is the public path: tengo.NewScript + SetImports (+ Add for host variables).
func compileScript(c *gcase, importDir string) (cls, arg, text string, fetched []string) {
	g := lib.Guard(20*time.Second, func() {
		defer func() {
			if p := recover(); p != nil {
				if a, ok := p.(abortCompile); ok {
					cls, text = "abort", a.why
					return
				}
				cls, text = "panic", fmt.Sprint(p)
			}
		}()
		s := tengo.NewScript([]byte(c.mainSource()))
		for _, n := range c.HostVars {
			_ = s.Add(n, 1)
		}
		s.SetImports(&countingGetter{c.moduleMap(), &fetched, c.budget()})
		s.EnableFileImport(c.AllowFile)
		if importDir != "" {
			_ = s.SetImportDir(importDir)
		}
		_, err := s.Compile()
		cls, arg = classify(err, nil)
		if err != nil {
			text = err.Error()
		}
	})
	if g.TimedOut {
		cls = "timeout"
	}
	return
}

// ---- oracle on the syntactic graph (computed here, independent of the Lean model) ----

type analysis struct {
	cycle    bool // an import cycle among source modules is reachable from the main script
	otherErr bool // some other error source is reachable (unknown/empty name, parse error, unresolved name)
}

func isBuiltinName(n string) bool {
	for _, b := range builtins {
		if b == n {
			return true
		}
	}
	return false
}

func (c *gcase) analyse() analysis {
	var a analysis
	byName := map[string]*mod{}
	for i := range c.Mods {
		byName[c.Mods[i].Name] = &c.Mods[i]
	}
	color := map[string]int{}
	var scan func(items []item, defined map[string]bool) []string
	scan = func(items []item, defined map[string]bool) []string {
		var succ []string
		for _, it := range items {
			switch it.K {
			case "d":
				defined[it.Name] = true
			case "r":
				if !defined[it.Name] && !isBuiltinName(it.Name) {
					a.otherErr = true
				}
			case "i":
				m, ok := byName[it.Name]
				switch {
				case it.Name == "":
					a.otherErr = true
				case !ok:
					a.otherErr = true // unknown name (file import is off in the streams that use this oracle)
				case m.Builtin:
				default:
					succ = append(succ, it.Name)
				}
			}
		}
		return succ
	}
	var dfs func(n string)
	dfs = func(n string) {
		color[n] = 1
		m := byName[n]
		if m.ParseErr {
			a.otherErr = true
			color[n] = 2
			return
		}
		for _, s := range scan(m.Items, map[string]bool{}) {
			switch color[s] {
			case 0:
				dfs(s)
			case 1:
				a.cycle = true
			}
		}
		color[n] = 2
	}
	def := map[string]bool{}
	for _, h := range c.HostVars {
		def[h] = true
	}
	for _, s := range scan(c.Main, def) {
		if color[s] == 0 {
			dfs(s)
		}
	}
	return a
}

// ---- model line ----

func itemsSexp(items []item) string {
	parts := make([]string, len(items))
	for i, it := range items {
		parts[i] = lib.L(it.K, lib.HexS(it.Name))
	}
	return "(" + strings.Join(parts, " ") + ")"
}

func namesSexp(ns []string) string {
	parts := make([]string, len(ns))
	for i, n := range ns {
		parts[i] = lib.HexS(n)
	}
	return "(" + strings.Join(parts, " ") + ")"
}

func (c *gcase) modelLine(root string) string {
	var env []string
	for _, m := range c.Mods {
		if m.Builtin {
			env = append(env, lib.L(lib.HexS(m.Name), "b"))
		} else {
			its := m.Items
			if m.ParseErr {
				its = nil
			}
			env = append(env, lib.L(lib.HexS(m.Name), "s", lib.B(m.ParseErr), itemsSexp(its)))
		}
	}
	files := []string{"files"}
	resolve := []string{"resolve"}
	if c.AllowFile {
		dirs := map[string]bool{root: true}
		for _, f := range c.Files {
			p := filepath.Join(root, f.Path)
			its := f.Items
			if f.ParseErr {
				its = nil
			}
			files = append(files, lib.L(lib.HexS(p), lib.HexS(filepath.Dir(p)), lib.B(f.ParseErr), itemsSexp(its)))
			dirs[filepath.Dir(p)] = true
		}
		names := map[string]bool{}
		add := func(items []item) {
			for _, it := range items {
				if it.K == "i" {
					names[it.Name] = true
				}
			}
		}
		add(c.Main)
		for _, m := range c.Mods {
			add(m.Items)
		}
		for _, f := range c.Files {
			add(f.Items)
		}
		var ds, ns []string
		for d := range dirs {
			ds = append(ds, d)
		}
		for n := range names {
			ns = append(ns, n)
		}
		sort.Strings(ds)
		sort.Strings(ns)
		for _, d := range ds {
			for _, n := range ns {
				nf := n
				if !strings.HasSuffix(nf, ".tengo") {
					nf += ".tengo"
				}
				p, err := filepath.Abs(filepath.Join(d, nf))
				if err != nil {
					continue
				}
				if _, err := os.Stat(p); err == nil {
					resolve = append(resolve, lib.L(lib.HexS(d), lib.HexS(n), lib.HexS(p)))
				}
			}
		}
	}
	hv := append([]string{}, c.HostVars...)
	sort.Strings(hv)
	cfg := lib.L(lib.B(c.AllowFile), lib.HexS(root), namesSexp(builtins), namesSexp(hv))
	return lib.L("modgraph", cfg, "("+strings.Join(env, " ")+")", lib.L(lib.L(files...), lib.L(resolve...)), itemsSexp(c.Main))
}

func implLine(o realOut) string {
	head := o.Class
	if o.Class != "ok" {
		head += " " + lib.HexS(o.Arg)
	}
	return head + " (compiled" + joinHex(o.Compiled) + ") (fetched" + joinHex(o.Fetched) + ")"
}

func joinHex(xs []string) string {
	var sb strings.Builder
	for _, x := range xs {
		sb.WriteString(" " + lib.HexS(x))
	}
	return sb.String()
}

func modelPrefix(ans string) string {
	if i := strings.Index(ans, " (cache"); i >= 0 {
		return ans[:i]
	}
	return ans
}

// ---- one graph case through every check ----

func checkCase(c *gcase, root string, useOracle bool) {
	o := compileDirect(c, root)
	key := c.Stream + "|" + c.mainSource()
	for _, m := range c.Mods {
		key += "|" + m.Name + "=" + m.source()
	}
	a := c.analyse()
	res.Count(c.Stream, key, len(o.Compiled) >= 2 || o.Class != "ok")
	res.Dist(c.Stream + ":" + o.Class)
	viol := func(sig, obs, exp, oracle string) {
		res.Violate(lib.Violation{Signature: sig, Stream: c.Stream, Input: c, Observed: obs, Expected: exp, Oracle: oracle})
	}
	switch o.Class {
	case "timeout":
		viol("import-graph-compile-does-not-terminate", "no result after 20 s", "compile terminates", "watchdog")
		return
	case "abort":
		viol("import-graph-compile-exceeds-fetch-budget", fmt.Sprintf("%d Importable.Import calls for %d import expressions (aborted)", len(o.Fetched), c.budget()/2-8),
			"every module body is compiled at most once, so Import is called at most once per import expression", "fetch budget in the ModuleGetter wrapper")
		return
	case "panic":
		viol("compile-panics-on-import-graph", o.Err, "error value or success", "recover around Compiler.Compile")
		return
	}
	// compiled once
	seen := map[string]int{}
	for _, n := range o.Compiled {
		seen[n]++
		if seen[n] == 2 {
			viol("module-compiled-more-than-once", fmt.Sprintf("module %q added to the file set %d+ times: %v", n, 2, o.Compiled),
				"one parse+compile per module path and Compile", "names in the compiler's SourceFileSet")
		}
	}
	if useOracle {
		switch {
		case o.Class == "ok" && a.cycle:
			viol("compile-succeeds-on-cyclic-import-graph", "compile ok", "cyclic module import error", "DFS back edge reachable from main in the syntactic graph")
		case o.Class == "cyclic" && !a.cycle:
			viol("cyclic-import-error-on-acyclic-graph", o.Err, "no cyclic import error", "no back edge reachable from main")
		case o.Class != "ok" && !a.cycle && !a.otherErr:
			viol("compile-fails-on-acyclic-import-graph", o.Err, "compile ok", "acyclic graph without any other error source")
		}
	}
	// the public path agrees with the direct one (every case of the small streams, one in eight exhaustive graphs)
	scriptTurn++
	if c.Stream == "graph" && scriptTurn%8 != 0 {
	} else if cls, arg, text, f2 := compileScript(c, root); cls != o.Class || (cls != "parse" && arg != o.Arg) || strings.Join(f2, "\x00") != strings.Join(o.Fetched, "\x00") {
		res.Disagree(lib.Disagreement{Stream: c.Stream, Input: c, Model: "direct compiler: " + implLine(o), Impl: "Script.Compile: " + cls + " " + arg + " " + text})
	}
	if drv != nil {
		pending = append(pending, pendingCase{c, c.modelLine(root), implLine(o), o.Err})
		if len(pending) >= 1024 || c.AllowFile {
			flushPending()
		}
	}
	res.Sample(map[string]interface{}{"stream": c.Stream, "case": c, "outcome": implLine(o)}, 4)
}

type pendingCase struct {
	c    *gcase
	line string
	impl string
	err  string
}

var pending []pendingCase
var scriptTurn int

// flushPending sends the queued model lines in one pipelined batch and compares the answers.
func flushPending() {
	if len(pending) == 0 {
		return
	}
	lines := make([]string, len(pending))
	for i, p := range pending {
		lines[i] = p.line
	}
	ans, err := drv.Batch(lines)
	if err != nil {
		fatal(err)
	}
	for i, p := range pending {
		res.ModelLines++
		if modelPrefix(ans[i]) != p.impl {
			res.Disagree(lib.Disagreement{Stream: p.c.Stream, Input: p.c, Model: ans[i], Impl: p.impl + "  [" + p.err + "]"})
		}
	}
	pending = pending[:0]
}

// ---- exhaustive graphs ----

func importLists(n, maxImports int) [][]int {
	out := [][]int{{}}
	var rec func(cur []int)
	rec = func(cur []int) {
		if len(cur) == maxImports {
			return
		}
		for t := 0; t < n; t++ {
			nx := append(append([]int{}, cur...), t)
			out = append(out, nx)
			rec(nx)
		}
	}
	rec(nil)
	return out
}

// canonical: every module is reachable from m0 and modules are numbered in order of first discovery
// (depth first, imports in order). Other graphs are renamings of a canonical one or have dead modules.
func canonical(g [][]int) bool {
	next := 1
	seen := make([]bool, len(g))
	seen[0] = true
	ok := true
	var dfs func(i int)
	dfs = func(i int) {
		for _, t := range g[i] {
			if !seen[t] {
				if t != next {
					ok = false
					return
				}
				seen[t] = true
				next++
				dfs(t)
				if !ok {
					return
				}
			}
		}
	}
	dfs(0)
	return ok && next == len(g)
}

func exhaustive(maxN int, canonFrom int) int {
	count := 0
	for n := 1; n <= maxN; n++ {
		lists := importLists(n, 2)
		g := make([][]int, n)
		idx := 0
		var rec func(i int)
		rec = func(i int) {
			if i == n {
				if n >= canonFrom && !canonical(g) {
					return
				}
				idx++
				count++
				c := &gcase{Stream: "graph", Main: []item{{K: "i", Name: "m0", Style: idx}}}
				for k := 0; k < n; k++ {
					m := mod{Name: "m" + strconv.Itoa(k), Ending: (idx + k) % 4}
					for j, t := range g[k] {
						m.Items = append(m.Items, item{K: "i", Name: "m" + strconv.Itoa(t), Style: idx/7 + 3*k + j})
					}
					c.Mods = append(c.Mods, m)
				}
				checkCase(c, "", true)
				return
			}
			for _, l := range lists {
				g[i] = l
				rec(i + 1)
			}
		}
		rec(0)
	}
	return count
}

// ---- random graphs ----

var pathLike = []string{"./x", "../x", "/etc/passwd", "x.tengo", "a/b", "../../up.tengo", "./", "..", "/", "~/m", "C:\\m", "m 1", "m.tengo.tengo", "./x.tengo", "/tmp/zz", "x/../y", "名"}

func randomCase(r *lib.RNG) *gcase {
	c := &gcase{Stream: "random"}
	n := 1 + r.Intn(12)
	if r.Chance(1, 2) {
		n = 1 + r.Intn(6)
	}
	names := make([]string, n)
	used := map[string]bool{}
	for i := range names {
		nm := "m" + strconv.Itoa(i)
		if r.Chance(1, 4) {
			p := lib.Pick(r, pathLike)
			if !used[p] {
				nm = p
			}
		}
		used[nm] = true
		names[i] = nm
	}
	clean := r.Chance(1, 2) // no error sources other than cycles
	backEdges := 0
	if r.Chance(1, 2) {
		backEdges = 1 + r.Intn(2)
	}
	c.Mods = make([]mod, n)
	for i := range c.Mods {
		m := &c.Mods[i]
		m.Name = names[i]
		m.Ending = r.Intn(4)
		if !clean && r.Chance(1, 10) {
			m.Builtin = true
			continue
		}
		if !clean && r.Chance(1, 30) {
			m.ParseErr = true
		}
		k := r.Intn(5)
		for j := 0; j < k; j++ {
			switch {
			case i+1 < n && r.Chance(5, 6):
				m.Items = append(m.Items, item{K: "i", Name: names[i+1+r.Intn(n-i-1)], Style: r.Intn(6)})
			case !clean && r.Chance(1, 3):
				bad := lib.Pick(r, []string{"nosuch", "", "m0.tengo", "./m0", "secret", "/etc/passwd"})
				m.Items = append(m.Items, item{K: "i", Name: bad, Style: r.Intn(6)})
			case r.Chance(1, 2):
				m.Items = append(m.Items, item{K: "d", Name: "own" + strconv.Itoa(j)})
				m.Items = append(m.Items, item{K: "r", Name: "own" + strconv.Itoa(j)})
			case !clean && r.Chance(1, 2):
				m.Items = append(m.Items, item{K: "r", Name: lib.Pick(r, []string{"secret", "host", "own0", "zz"})})
			default:
				m.Items = append(m.Items, item{K: "r", Name: lib.Pick(r, []string{"len", "copy", "is_undefined"})})
			}
		}
	}
	for b := 0; b < backEdges; b++ {
		from := r.Intn(n)
		to := r.Intn(from + 1) // to <= from: self loop or longer cycle when `to` reaches `from`
		m := &c.Mods[from]
		if m.Builtin || m.ParseErr {
			continue
		}
		pos := r.Intn(len(m.Items) + 1)
		it := item{K: "i", Name: names[to], Style: r.Intn(6)}
		m.Items = append(m.Items[:pos], append([]item{it}, m.Items[pos:]...)...)
	}
	c.HostVars = []string{"host"}
	c.Main = append(c.Main, item{K: "d", Name: "secret"})
	k := 1 + r.Intn(3)
	for j := 0; j < k; j++ {
		c.Main = append(c.Main, item{K: "i", Name: names[r.Intn(1+r.Intn(n))], Style: r.Intn(6)})
	}
	if r.Chance(1, 3) {
		c.Main = append(c.Main, item{K: "r", Name: lib.Pick(r, []string{"host", "secret", "len"})})
	}
	if !clean && r.Chance(1, 12) {
		c.Main = append(c.Main, item{K: "r", Name: "own0"}) // a module's name used by the importer
	}
	return c
}

// ---- file import enabled ----

func fileCase(r *lib.RNG, root string) *gcase {
	c := &gcase{Stream: "file", AllowFile: true}
	paths := []string{"a.tengo", "b.tengo", "c.tengo", "sub/a.tengo", "sub/d.tengo", "sub/deep/e.tengo"}
	nf := 1 + r.Intn(len(paths))
	perm := make([]int, len(paths))
	for i := range perm {
		perm[i] = i
	}
	for i := len(perm) - 1; i > 0; i-- {
		j := r.Intn(i + 1)
		perm[i], perm[j] = perm[j], perm[i]
	}
	var chosen []string
	for _, i := range perm[:nf] {
		chosen = append(chosen, paths[i])
	}
	sort.Strings(chosen)
	noise := []string{"nosuch", "mm", "mm2", "mm", "a.tengo", "../a", "./a", "sub/a", "d"}
	// items of a body that lives in directory `dir` (relative to the root): mostly names that resolve from there
	mk := func(dir string) []item {
		var its []item
		for k := r.Intn(4); k > 0; k-- {
			name := lib.Pick(r, noise)
			if r.Chance(3, 4) {
				target := strings.TrimSuffix(lib.Pick(r, chosen), ".tengo")
				rel, err := filepath.Rel(filepath.Join("/", dir), filepath.Join("/", target))
				if err == nil {
					name = rel
					if r.Chance(1, 4) {
						name = "./" + rel
					}
				}
			}
			its = append(its, item{K: "i", Name: name, Style: r.Intn(6)})
		}
		return its
	}
	for _, p := range chosen {
		c.Files = append(c.Files, fmod{Path: p, Items: mk(filepath.Dir(p)), ParseErr: r.Chance(1, 30)})
	}
	c.Mods = []mod{{Name: "mm", Items: mk(lib.Pick(r, []string{".", "sub"})), Ending: 1}, {Name: "mm2", Items: mk(".")}}
	c.Main = append(mk("."), item{K: "i", Name: strings.TrimSuffix(lib.Pick(r, chosen), ".tengo"), Style: 0})
	return c
}

func runFileCase(c *gcase, root string) {
	_ = os.RemoveAll(root)
	for _, f := range c.Files {
		p := filepath.Join(root, f.Path)
		_ = os.MkdirAll(filepath.Dir(p), 0o755)
		src := render(f.Items, 1)
		if f.ParseErr {
			src = parseErrBody
		}
		if err := os.WriteFile(p, []byte(src), 0o644); err != nil {
			fatal(err)
		}
	}
	_ = os.MkdirAll(root, 0o755)
	checkCase(c, root, false)
}

// ---- script-level searchers ----

type scriptCase struct {
	Stream  string            `json:"stream"`
	Main    string            `json:"main"`
	Modules map[string]string `json:"modules"`
	Host    []string          `json:"host_vars,omitempty"`
	// ObjMods: modules provided by the embedder as objects (name ↦ "<kind>:<n>", see objModule)
	ObjMods map[string]string `json:"object_modules,omitempty"`
}

// objImportable: a module the embedder provides as a ready-made object.
type objImportable struct{ obj tengo.Object }

func (o objImportable) Import(string) (interface{}, error) { return o.obj, nil }

// objModule builds the object a descriptor names: an immutable map / map / array / int carrying the number n
// (the immutable map has no __module_name__ unless the kind is imapnamed).
func objModule(desc string) tengo.Object {
	kind, num := desc, int64(0)
	if i := strings.Index(desc, ":"); i >= 0 {
		kind = desc[:i]
		fmt.Sscan(desc[i+1:], &num)
	}
	v := &tengo.Int{Value: num}
	switch kind {
	case "imap":
		return &tengo.ImmutableMap{Value: map[string]tengo.Object{"v": v}}
	case "imapnamed":
		return &tengo.ImmutableMap{Value: map[string]tengo.Object{"v": v, "__module_name__": &tengo.String{Value: fmt.Sprint("named", num)}}}
	case "map":
		return &tengo.Map{Value: map[string]tengo.Object{"v": v}}
	case "arr":
		return &tengo.Array{Value: []tengo.Object{v}}
	case "iarr":
		return &tengo.ImmutableArray{Value: []tengo.Object{v}}
	case "str":
		return &tengo.String{Value: fmt.Sprint("s", num)}
	}
	return v
}

type scriptOut struct {
	compileErr string
	runErr     string
	panicked   string
	globals    map[string]string
	ticks      int
}

func runScriptCase(sc *scriptCase) (o scriptOut) {
	defer func() {
		if p := recover(); p != nil {
			o.panicked = fmt.Sprint(p)
		}
	}()
	mm := tengo.NewModuleMap()
	names := make([]string, 0, len(sc.Modules))
	for n := range sc.Modules {
		names = append(names, n)
	}
	sort.Strings(names)
	for _, n := range names {
		mm.AddSourceModule(n, []byte(sc.Modules[n]))
	}
	for n, d := range sc.ObjMods {
		mm.Add(n, objImportable{objModule(d)})
	}
	mm.AddBuiltinModule("cnt", map[string]tengo.Object{"tick": &tengo.UserFunction{Name: "tick", Value: func(args ...tengo.Object) (tengo.Object, error) {
		o.ticks++
		return tengo.UndefinedValue, nil
	}}})
	s := tengo.NewScript([]byte(sc.Main))
	for _, h := range sc.Host {
		_ = s.Add(h, 7)
	}
	s.SetImports(mm)
	c, err := s.Compile()
	if err != nil {
		o.compileErr = err.Error()
		return
	}
	ctx, cancel := context.WithTimeout(context.Background(), 5*time.Second)
	defer cancel()
	if err := c.RunContext(ctx); err != nil {
		o.runErr = err.Error()
		return
	}
	o.globals = map[string]string{}
	for _, v := range c.GetAll() {
		o.globals[v.Name()] = lib.Canon(v.Object())
	}
	return
}

func sviol(sc *scriptCase, sig, obs, exp, oracle string) {
	res.Violate(lib.Violation{Signature: sig, Stream: sc.Stream, Input: sc, Observed: obs, Expected: exp, Oracle: oracle})
}

func (o scriptOut) String() string {
	switch {
	case o.panicked != "":
		return "panic: " + o.panicked
	case o.compileErr != "":
		return "compile error: " + o.compileErr
	case o.runErr != "":
		return "run error: " + o.runErr
	}
	keys := make([]string, 0, len(o.globals))
	for k := range o.globals {
		keys = append(keys, k)
	}
	sort.Strings(keys)
	s := "ok"
	for _, k := range keys {
		s += " " + k + "=" + o.globals[k]
	}
	return s
}

func expectUnresolved(sc *scriptCase, name string) {
	o := runScriptCase(sc)
	res.Count(sc.Stream, sc.Main+fmt.Sprint(sc.Modules), true)
	if !strings.Contains(o.compileErr, "unresolved reference '"+name+"'") {
		sviol(sc, "name-visible-across-module-boundary", o.String(), "Compile Error: unresolved reference '"+name+"'",
			"a module body sees only its own variables and the builtin functions (and the importer none of the module's)")
	}
}

func isolation(r *lib.RNG, n int) {
	for i := 0; i < n; i++ {
		nm := lib.Pick(r, []string{"secret", "x", "cfg", "a1", "total"}) + strconv.Itoa(r.Intn(3))
		use := lib.Pick(r, []string{"y := %s\n", "uf := func() { return %s }\n", "export %s\n", "export func() { return %s + 1 }\n", "if false { z := %s }\n", "%s = 5\n", "for i := 0; i < %s; i++ {}\n"})
		useSrc := fmt.Sprintf(use, nm)
		imp := lib.Pick(r, []string{"m := import(\"m\")\n", "f := func() { return import(\"m\") }\n", "f := func() { %N := 2; return import(\"m\") }\nr := f()\n", "m := [import(\"m\")]\n"})
		imp = strings.ReplaceAll(imp, "%N", nm)
		sc := &scriptCase{Stream: "isolation", Modules: map[string]string{}}
		switch r.Intn(6) {
		case 0: // importer global
			sc.Main = nm + " := 42\n" + imp
			sc.Modules["m"] = useSrc
		case 1: // host variable
			sc.Host = []string{nm}
			sc.Main = imp
			sc.Modules["m"] = useSrc
		case 2: // grandparent / parent module
			sc.Main = nm + " := 1\nt := import(\"a\")\n"
			sc.Modules["a"] = nm + " := 2\n" + imp + "export 1\n"
			sc.Modules["m"] = useSrc
		case 3: // sibling compiled earlier
			sc.Main = "a := import(\"a\")\n" + imp
			sc.Modules["a"] = nm + " := 2\nexport " + nm + "\n"
			sc.Modules["m"] = useSrc
		case 4: // the importer cannot see the module's names
			if strings.HasPrefix(useSrc, "export") {
				useSrc = "y := " + nm + "\n"
			}
			sc.Main = imp + useSrc
			sc.Modules["m"] = nm + " := 2\nexport " + nm + "\n"
		case 5: // importer's function-local and free variables
			sc.Main = "o := func() { " + nm + " := 3; return func() { q := " + nm + "; return import(\"m\") } }\nr := o()()\n"
			sc.Modules["m"] = useSrc
		}
		expectUnresolved(sc, nm)
	}
	// positive controls: same name on both sides does not clash; builtins are visible
	sc := &scriptCase{Stream: "isolation", Main: "x := 1\nm := import(\"m\")\nl := import(\"l\")\n", Modules: map[string]string{"m": "x := 2\nexport x\n", "l": "export len([1, 2, 3])\n"}}
	o := runScriptCase(sc)
	res.Count(sc.Stream, "positive", true)
	if o.globals["x"] != "(i 1)" || o.globals["m"] != "(i 2)" || o.globals["l"] != "(i 3)" {
		sviol(sc, "module-and-importer-variables-interfere", o.String(), "x=1 m=2 l=3", "module variables are the module's own; builtins are visible")
	}
}

func immutable(r *lib.RNG, n int) {
	type exp struct{ src, kind string }
	exports := []exp{{"export {k: 1, a: [1, 2]}\n", "map"}, {"export [1, 2, 3]\n", "array"}, {"t := {k: 1}\nexport t\n", "map"},
		{"a := [1, 2]\nexport a\n", "array"}, {"f := func() { return {k: 2} }\nexport f()\n", "map"}, {"export [1, [2]]\n", "array"}}
	for i := 0; i < n; i++ {
		e := lib.Pick(r, exports)
		var mut string
		if e.kind == "map" {
			mut = lib.Pick(r, []string{"m.k = 9\n", "m[\"k\"] = 9\n", "m.z = 1\n", "m.k += 1\n", "f := func() { m.k = 3 }\nf()\n"})
		} else {
			mut = lib.Pick(r, []string{"m[0] = 9\n", "m[0] += 1\n", "f := func() { m[0] = 3 }\nf()\n", "g := func(q) { q[0] = 1 }\ng(m)\n"})
		}
		imp := lib.Pick(r, []string{"m := import(\"x\")\n", "h := func() { return import(\"x\") }\nm := h()\n", "w := [import(\"x\")]\nm := w[0]\n"})
		sc := &scriptCase{Stream: "immutable", Main: imp + mut, Modules: map[string]string{"x": e.src}}
		o := runScriptCase(sc)
		res.Count(sc.Stream, sc.Main+e.src, true)
		if o.compileErr != "" || o.panicked != "" || !strings.Contains(o.runErr, "not index-assignable") {
			sviol(sc, "import-value-is-mutable", o.String(), "Runtime Error: not index-assignable", "the value of an import expression is immutable")
		}
	}
	// no shared mutable state between two evaluations
	alias := []scriptCase{
		{Main: "a := import(\"x\")\nb := import(\"x\")\na.arr[0] = 99\nout := b.arr[0]\n", Modules: map[string]string{"x": "export {arr: [1, 2]}\n"}},
		{Main: "a := import(\"x\")\nb := import(\"x\")\na.inc()\nout := b.get()\n", Modules: map[string]string{"x": "state := [1]\nexport {get: func() { return state[0] }, inc: func() { state[0] = state[0] + 98 }}\n"}},
		{Main: "f := func() { return import(\"x\") }\na := f()\nb := f()\na.arr[0] = 99\nout := b.arr[0]\n", Modules: map[string]string{"x": "arr := [1, 2]\nexport {arr: arr}\n"}},
		{Main: "a := import(\"y\")\nb := import(\"x\")\nout := b.arr[0]\n", Modules: map[string]string{"x": "export {arr: [1, 2]}\n", "y": "t := import(\"x\")\nt.arr[0] = 99\nexport 0\n"}},
	}
	for i := range alias {
		sc := &alias[i]
		sc.Stream = "immutable"
		o := runScriptCase(sc)
		res.Count(sc.Stream, sc.Main, true)
		if o.compileErr != "" || o.panicked != "" || (o.runErr == "" && o.globals["out"] != "(i 1)") {
			sviol(sc, "imports-share-mutable-state", o.String(), "out = 1 (or a runtime error on the nested write)", "two evaluations of import(\"x\") run the body afresh and share no mutable state")
		}
	}
	// undefined without export
	for _, body := range []string{"a := 1\n", "", "f := func() { return 5 }\nf()\n", "if false { export 1 }\n"} {
		sc := &scriptCase{Stream: "immutable", Main: "m := import(\"x\")\nout := is_undefined(m)\n", Modules: map[string]string{"x": body}}
		o := runScriptCase(sc)
		res.Count(sc.Stream, sc.Main+body, true)
		if body == "if false { export 1 }\n" {
			continue // export inside a block: compile outcome is not part of this check
		}
		if o.globals["out"] != "(b 1)" {
			sviol(sc, "import-without-export-not-undefined", o.String(), "undefined", "the value of an import is undefined without an export")
		}
	}
}

// objectModules: modules the embedder provides as objects (custom Importable returning an Object). Every import
// expression must yield the object of the module it names, whatever other modules are present and however often
// and in whatever order they are imported (the constants are de-duplicated by Script.Compile).
func objectModules(r *lib.RNG, n int) {
	kinds := []string{"imap", "imap", "imap", "map", "arr", "iarr", "int", "str", "imapnamed"}
	read := func(kind, v string) string {
		switch kind {
		case "imap", "map", "imapnamed":
			return v + ".v"
		case "arr", "iarr":
			return v + "[0]"
		}
		return v
	}
	for i := 0; i < n; i++ {
		k := 2 + r.Intn(3)
		sc := &scriptCase{Stream: "objmods", Modules: map[string]string{}, ObjMods: map[string]string{}}
		type m struct {
			name, kind string
			num        int
		}
		var ms []m
		for j := 0; j < k; j++ {
			x := m{fmt.Sprintf("om%d", j), lib.Pick(r, kinds), 10 + j}
			ms = append(ms, x)
			sc.ObjMods[x.name] = fmt.Sprintf("%s:%d", x.kind, x.num)
		}
		var sb strings.Builder
		want := map[string]string{}
		nImp := k + r.Intn(4)
		for j := 0; j < nImp; j++ {
			x := ms[j%k]
			if j >= k {
				x = lib.Pick(r, ms)
			}
			fmt.Fprintf(&sb, "i%d := import(%q)\nr%d := %s\n", j, x.name, j, read(x.kind, fmt.Sprintf("i%d", j)))
			if x.kind == "str" {
				want[fmt.Sprintf("r%d", j)] = lib.Canon(&tengo.String{Value: fmt.Sprint("s", x.num)})
			} else {
				want[fmt.Sprintf("r%d", j)] = fmt.Sprintf("(i %d)", x.num)
			}
		}
		sc.Main = sb.String()
		o := runScriptCase(sc)
		res.Count(sc.Stream, sc.Main+fmt.Sprint(sc.ObjMods), true)
		if o.compileErr != "" || o.panicked != "" || o.runErr != "" {
			sviol(sc, "object-module-import-fails", o.String(), "every import yields its module's object", "embedder-provided object modules")
			continue
		}
		for name, w := range want {
			if o.globals[name] != w {
				sviol(sc, "import-yields-another-modules-object", fmt.Sprintf("%s = %s", name, o.globals[name]), name+" = "+w,
					"the value an import expression yields is what the named module provides")
				break
			}
		}
	}
}

// derived: the exported container must stay unchanged when the importer writes into values DERIVED from
// the import value (slice, append, +, copy, loop variables, splice/delete). Observed three ways: through the
// import value itself, through an accessor function of the module (the module's own variable), through a
// fresh import expression. A runtime error (operation rejected) is acceptable.
func derived(r *lib.RNG, n int) {
	type form struct{ mod, x, fx, view, obs, fobs, want string }
	forms := []form{
		{"data := [1, 2, 3, undefined]\ndata[3] = func() { return [data[0], data[1], data[2], len(data)] }\nexport data\n",
			"m", "fresh", "m[3]()", "[x[0], x[1], x[2], len(x)]", "[fx[0], fx[1], fx[2], len(fx)]", "(a (i 1) (i 2) (i 3) (i 4))"},
		{"data := immutable([1, 2, 3])\nexport {list: data, view: func() { return [data[0], data[1], data[2], len(data)] }}\n",
			"m.list", "fresh.list", "m.view()", "[x[0], x[1], x[2], len(x)]", "[fx[0], fx[1], fx[2], len(fx)]", "(a (i 1) (i 2) (i 3) (i 3))"},
		{"data := [1, 2, 3]\nexport {list: immutable(data), view: func() { return [data[0], data[1], data[2], len(data)] }}\n",
			"m.list", "fresh.list", "m.view()", "[x[0], x[1], x[2], len(x)]", "[fx[0], fx[1], fx[2], len(fx)]", "(a (i 1) (i 2) (i 3) (i 3))"},
	}
	arrOps := []string{
		"s := x[0:2]\ns[0] = 99\n", "s := x[:]\ns[1] = 99\n", "s := x[1:]\ns[0] = 99\ns[1] = 98\n", "s := x[0:1]\ns = append(s, 77)\n",
		"s := append(x[0:1], 77, 78)\n", "s := append(x, 7)\ns[0] = 99\n", "s := append(x)\ns[2] = 99\n", "s := x + [7]\ns[0] = 99\n",
		"s := [7] + x\ns[1] = 99\n", "s := x[0:2] + x[2:3]\ns[0] = 99\ns[2] = 98\n", "s := copy(x)\ns[0] = 99\n", "for i, v in x { v = 99; i = 5 }\n",
		"for v in x { v = 99 }\n", "s := splice(x, 0, 1)\n", "s := splice(x[0:3], 0, 2, 55)\n", "s := splice(copy(x), 1, 1, 9)\n", "delete(x, 0)\n",
		"s := x[0:2]\nt := s[0:1]\nt[0] = 99\n", "s := x[0:2]\nf := func(q) { q[1] = 99 }\nf(s)\n", "s := [x[0:3]]\ns[0][0] = 99\n",
		"s := x[0:0]\ns = append(s, 91, 92, 93)\n", "s := x[3:]\ns = append(s, 91)\n", "s := x[0:2]\ns[0] += 5\n",
	}
	mapForm := form{"tbl := {a: 1, b: 2}\ntbl.view = func() { return [tbl.a, tbl.b, len(tbl)] }\nexport tbl\n",
		"m", "fresh", "m.view()", "[x.a, x.b, len(x)]", "[fx.a, fx.b, len(fx)]", "(a (i 1) (i 2) (i 3))"}
	mapOps := []string{"c := copy(x)\nc.a = 99\n", "for k, v in x { v = 99; k = \"z\" }\n", "delete(x, \"a\")\n", "c := copy(x)\ndelete(c, \"a\")\nc.z = 1\n",
		"f := func(q) { q.a = 99 }\nf(copy(x))\n", "c := {a: x.a, b: x.b}\nc.a = 99\n"}
	for i := 0; i < n; i++ {
		fm, op := lib.Pick(r, forms), lib.Pick(r, arrOps)
		if r.Chance(1, 5) {
			fm, op = mapForm, lib.Pick(r, mapOps)
		}
		main := "m := import(\"mod\")\nx := " + fm.x + "\n" + op + "after := " + fm.obs + "\nview := " + fm.view +
			"\nfresh := import(\"mod\")\nfx := " + fm.fx + "\nfr := " + fm.fobs + "\nview2 := " + strings.Replace(fm.view, "m", "fresh", 1) + "\n"
		sc := &scriptCase{Stream: "derived", Main: main, Modules: map[string]string{"mod": fm.mod}}
		o := runScriptCase(sc)
		res.Count(sc.Stream, main+fm.mod, true)
		switch {
		case o.panicked != "":
			sviol(sc, "import-value-changed-through-derived-value", o.String(), "no panic", "derived-value writes")
		case o.compileErr != "":
			res.Dist("derived:compile-error") // generator slip; never expected
			res.Disagree(lib.Disagreement{Stream: "derived", Input: sc, Model: "script compiles", Impl: o.compileErr})
		case o.runErr != "":
			res.Dist("derived:rejected-at-run-time")
		default:
			res.Dist("derived:ran")
			for _, g := range []string{"after", "view", "fr", "view2"} {
				if o.globals[g] != fm.want {
					sviol(sc, "import-value-changed-through-derived-value", g+" = "+o.globals[g], g+" = "+fm.want,
						"writing into a value derived from an import value (slice/append/+/copy/loop variable/splice/delete) must not change what the module exported: checked through the import value, the module's accessor and a fresh import")
					break
				}
			}
		}
	}
}

func rerun(r *lib.RNG, n int) {
	for i := 0; i < n; i++ {
		times := 1 + r.Intn(5)
		ticks := 1 + r.Intn(3)
		body := "c := import(\"cnt\")\n" + strings.Repeat("c.tick()\n", ticks) + lib.Pick(r, []string{"export 1\n", "", "export {k: 1}\n"})
		var main string
		want := times * ticks
		switch r.Intn(4) {
		case 0:
			for k := 0; k < times; k++ {
				main += fmt.Sprintf("m%d := import(\"x\")\n", k)
			}
		case 1:
			main = fmt.Sprintf("for i := 0; i < %d; i++ { m := import(\"x\") }\n", times)
		case 2:
			main = fmt.Sprintf("f := func() { return import(\"x\") }\nfor i := 0; i < %d; i++ { f() }\n", times)
		case 3: // through a second module that imports x once per evaluation
			main = fmt.Sprintf("for i := 0; i < %d; i++ { m := import(\"y\") }\n", times)
		}
		sc := &scriptCase{Stream: "rerun", Main: main, Modules: map[string]string{"x": body, "y": "export import(\"x\")\n"}}
		o := runScriptCase(sc)
		res.Count(sc.Stream, main+body, true)
		if o.compileErr != "" || o.runErr != "" || o.panicked != "" || o.ticks != want {
			sviol(sc, "import-evaluation-does-not-rerun-module-body", fmt.Sprintf("%s; %d host-side ticks", o.String(), o.ticks), fmt.Sprintf("%d ticks", want),
				"each evaluation of an import expression runs the module body afresh (counter incremented by a host function)")
		}
	}
}

// ---- emit / run correspondence with the micro model ----

func emitAndRun(r *lib.RNG, n int) {
	if drv == nil {
		return
	}
	ask := func(line string) string {
		a, err := drv.Ask(line)
		if err != nil {
			fatal(err)
		}
		res.ModelLines++
		return a
	}
	for i := 0; i < n; i++ {
		isSrc := r.Chance(2, 3)
		c := &gcase{Stream: "emit", Main: []item{{K: "i", Name: "x", Style: 0}}, Mods: []mod{{Name: "x", Builtin: !isSrc, Ending: 1 + r.Intn(2)}}}
		for k := r.Intn(3); k > 0; k-- {
			c.Main = append([]item{{K: "d", Name: "p" + strconv.Itoa(k)}}, c.Main...)
		}
		o := compileDirect(c, "")
		res.Count("emit", c.mainSource()+fmt.Sprint(isSrc), true)
		if o.BC == nil {
			res.Disagree(lib.Disagreement{Stream: "emit", Input: c, Model: "compiles", Impl: o.Err})
			continue
		}
		ins, _ := lib.Decode(o.BC.MainFunction.Instructions)
		got := ""
		for j, in := range ins {
			if in.Op == parser.OpConstant {
				if _, isInt := o.BC.Constants[in.Args[0]].(*tengo.Int); isInt {
					continue
				}
				got = fmt.Sprintf("ok (const %d)", in.Args[0])
				if j+1 < len(ins) && ins[j+1].Op == parser.OpCall {
					got += fmt.Sprintf(" (call %d %d)", ins[j+1].Args[0], ins[j+1].Args[1])
				}
				_, isFn := o.BC.Constants[in.Args[0]].(*tengo.CompiledFunction)
				if isFn != isSrc {
					got += " wrong-constant-kind"
				}
				if want := ask(lib.L("modemit", lib.B(isSrc), lib.N(in.Args[0]))); want != got {
					res.Disagree(lib.Disagreement{Stream: "emit", Input: c, Model: want, Impl: got})
				}
				break
			}
		}
		if isSrc {
			for _, k := range o.BC.Constants {
				if f, ok := k.(*tengo.CompiledFunction); ok && f.NumParameters == 0 {
					fi, _ := lib.Decode(f.Instructions)
					if len(fi) > 0 && fi[len(fi)-1].Op == parser.OpSuspend {
						fi = fi[:len(fi)-1] // Bytecode() terminates the module's main function with SUSPEND
					}
					tail := "ok"
					if len(fi) >= 2 {
						a, b := fi[len(fi)-2], fi[len(fi)-1]
						if a.Op == parser.OpImmutable {
							tail += " (immutable)"
						}
						if b.Op == parser.OpReturn {
							tail += fmt.Sprintf(" (ret %d)", b.Args[0])
						}
					}
					if want := ask("(modexport)"); want != tail {
						res.Disagree(lib.Disagreement{Stream: "emit", Input: c, Model: want, Impl: tail})
					}
					break
				}
			}
		}
	}
	for i := 0; i < n; i++ {
		ticks, times, v := r.Intn(4), 1+r.Intn(4), 1+r.Intn(50)
		kind := r.Intn(3)
		body := "c := import(\"cnt\")\n" + strings.Repeat("c.tick()\n", ticks)
		var ending string
		switch kind {
		case 0:
			body += fmt.Sprintf("export [%d]\n", v)
			ending = fmt.Sprintf("(export %d)", v)
		case 1:
			ending = "(none)"
		case 2:
			body += fmt.Sprintf("return [%d]\n", v) // O25: accepted by the compiler; the model has it too
			ending = fmt.Sprintf("(topreturn %d)", v)
		}
		main := ""
		for k := 0; k < times; k++ {
			main += fmt.Sprintf("r%d := import(\"x\")\n", k)
		}
		sc := &scriptCase{Stream: "run", Main: main, Modules: map[string]string{"x": body}}
		o := runScriptCase(sc)
		res.Count("run", main+body, true)
		var vals []string
		for k := 0; k < times; k++ {
			g := o.globals[fmt.Sprintf("r%d", k)]
			switch {
			case g == "u":
				vals = append(vals, "undefined")
			case strings.HasPrefix(g, "(ia (i "):
				vals = append(vals, "(imm "+strings.TrimSuffix(strings.TrimPrefix(g, "(ia (i "), "))")+")")
			case strings.HasPrefix(g, "(a (i "):
				vals = append(vals, "(mut "+strings.TrimSuffix(strings.TrimPrefix(g, "(a (i "), "))")+")")
			default:
				vals = append(vals, "?"+g)
			}
		}
		got := "ok (" + strings.Join(vals, " ") + ") " + strconv.Itoa(o.ticks)
		if o.compileErr != "" || o.runErr != "" {
			got = o.String()
		}
		if want := ask(lib.L("modrun", lib.N(ticks), ending, lib.N(times))); want != got {
			res.Disagree(lib.Disagreement{Stream: "run", Input: sc, Model: want, Impl: got})
		}
	}
}

// ---- O25 probe (known finding) ----

func probeO25(knownPath string) {
	sc := &scriptCase{Stream: "finding-probe", Main: "m := import(\"x\")\nm[0] = 9\nout := m[0]\n", Modules: map[string]string{"x": "x := 1\nreturn [1, 2]\n"}}
	o := runScriptCase(sc)
	res.Count("finding-probe", "O25", true)
	fails := o.compileErr == "" && o.runErr == "" && o.globals["out"] == "(i 9)"
	if !fails {
		return
	}
	known := false
	paths := []string{knownPath}
	if root := os.Getenv("VERIF_ROOT"); root != "" {
		paths = append(paths, filepath.Join(root, "known", "C13.json"))
	}
	for _, p := range paths {
		for _, k := range lib.LoadKnown(p) {
			if k.Property == "C13" && k.ID == "O25" && k.Status == "known" {
				known = true
			}
		}
	}
	if known {
		res.KnownHits = append(res.KnownHits, "O25")
		return
	}
	sviol(sc, "module-toplevel-return-yields-mutable-value", o.String(), "compile error (return outside function) or an immutable/undefined import value",
		"the import yields what the module exported, made immutable; undefined without an export")
}

// ---- no file-system access when file import is disabled ----

type fsJob struct {
	Main    string            `json:"main"`
	Modules map[string]string `json:"modules"`
	Dir     string            `json:"dir"`
	Enable  bool              `json:"enable"`
}

const sentinel = "zq13"

func childMain() {
	b, err := os.ReadFile(os.Getenv("C13_JOBS"))
	if err != nil {
		os.Exit(4)
	}
	var jobs []fsJob
	if json.Unmarshal(b, &jobs) != nil {
		os.Exit(4)
	}
	var out []string
	for _, j := range jobs {
		mm := tengo.NewModuleMap()
		for n, s := range j.Modules {
			mm.AddSourceModule(n, []byte(s))
		}
		s := tengo.NewScript([]byte(j.Main))
		s.SetImports(mm)
		s.EnableFileImport(j.Enable)
		_ = s.SetImportDir(j.Dir)
		_, err := s.Compile()
		cls, arg := classify(err, nil)
		out = append(out, cls+" "+arg)
	}
	ob, _ := json.Marshal(out)
	os.Stdout.Write(ob)
}

func fsNames(r *lib.RNG, dir string, n int) []string {
	base := filepath.Base(dir)
	names := []string{sentinel + "a", "./" + sentinel + "a", "../" + base + "/" + sentinel + "a", dir + "/" + sentinel + "a", sentinel + "a.tengo",
		"sub/" + sentinel + "b", "/etc/passwd", "/etc/" + sentinel + "passwd", "x.tengo", "../" + sentinel + "up", sentinel + "dir", "./x", "../x"}
	for i := 0; i < n; i++ {
		names = append(names, lib.Pick(r, []string{"", "./", "../", "sub/", dir + "/", "/"})+sentinel+strconv.Itoa(r.Intn(1000))+lib.Pick(r, []string{"", ".tengo", "/m"}))
	}
	return names
}

func runChild(jobs []fsJob, work string, tag string, withStrace bool) (results []string, trace string, err error) {
	jb, _ := json.Marshal(jobs)
	jobPath := filepath.Join(work, "jobs-"+tag+".json")
	if err := os.WriteFile(jobPath, jb, 0o644); err != nil {
		return nil, "", err
	}
	self, err := os.Executable()
	if err != nil {
		return nil, "", err
	}
	tracePath := filepath.Join(work, "trace-"+tag+".txt")
	var cmd *exec.Cmd
	if withStrace {
		cmd = exec.Command("strace", "-f", "-e", "trace=file", "-s", "4096", "-o", tracePath, self)
	} else {
		cmd = exec.Command(self)
	}
	cmd.Env = append(os.Environ(), "C13_CHILD=1", "C13_JOBS="+jobPath)
	cmd.Dir = filepath.Join(work, "cwd")
	ob, err := cmd.Output()
	if err != nil {
		return nil, "", err
	}
	if err := json.Unmarshal(ob, &results); err != nil {
		return nil, "", err
	}
	if withStrace {
		tb, err := os.ReadFile(tracePath)
		if err != nil {
			return nil, "", err
		}
		trace = string(tb)
	}
	return results, trace, nil
}

func nofs(r *lib.RNG, n int) {
	work, err := os.MkdirTemp("", "c13fs")
	if err != nil {
		fatal(err)
	}
	defer os.RemoveAll(work)
	dir := filepath.Join(work, "cwd")
	_ = os.MkdirAll(filepath.Join(dir, "sub"), 0o755)
	_ = os.MkdirAll(filepath.Join(dir, sentinel+"dir"), 0o755)
	for _, f := range []string{sentinel + "a.tengo", "sub/" + sentinel + "b.tengo", "x.tengo", "../" + sentinel + "up.tengo"} {
		_ = os.WriteFile(filepath.Join(dir, f), []byte("export 1\n"), 0o644)
	}
	names := fsNames(r, dir, n)
	mkJobs := func(enable bool, inMap func(i int) bool) []fsJob {
		var jobs []fsJob
		for i, nm := range names {
			j := fsJob{Dir: dir, Enable: enable, Modules: map[string]string{"other": "export 2\n"}}
			q := strconv.Quote(nm)
			j.Main = lib.Pick(r, []string{"m := import(" + q + ")\n", "f := func() { return import(" + q + ") }\n", "o := import(\"other\")\nm := import(" + q + ")\n"})
			if inMap(i) {
				j.Modules[nm] = "export 3\n"
			}
			jobs = append(jobs, j)
		}
		// a module of the map that itself imports a path-like name
		jobs = append(jobs, fsJob{Dir: dir, Enable: enable, Main: "m := import(\"outer\")\n", Modules: map[string]string{"outer": "export import(\"./" + sentinel + "a\")\n"}})
		return jobs
	}
	jobs := mkJobs(false, func(i int) bool { return i%3 == 2 })
	mode := "strace"
	results, trace, err := runChild(jobs, work, "off", true)
	if err == nil {
		// sensitivity control: with file import ENABLED the same child must show the sentinel in its trace
		_, ctl, cerr := runChild(mkJobs(true, func(int) bool { return false })[:3], work, "ctl", true)
		if cerr != nil || !strings.Contains(ctl, sentinel+"a") {
			err = fmt.Errorf("strace control run shows no file access (%v)", cerr)
		}
	}
	if err != nil {
		mode = "presence-fallback (" + err.Error() + ")"
		// fallback: outcomes must not depend on whether files named like the imports exist
		r1, _, e1 := runChild(jobs, work, "with", false)
		for _, f := range []string{sentinel + "a.tengo", "sub/" + sentinel + "b.tengo", "x.tengo", "../" + sentinel + "up.tengo"} {
			_ = os.Remove(filepath.Join(dir, f))
		}
		r2, _, e2 := runChild(jobs, work, "without", false)
		if e1 != nil || e2 != nil {
			fatal(fmt.Errorf("nofs child: %v %v", e1, e2))
		}
		for i := range r1 {
			res.Count("nofs", jobs[i].Main+fmt.Sprint(len(jobs[i].Modules)), true)
			if r1[i] != r2[i] {
				res.Violate(lib.Violation{Signature: "file-system-consulted-with-file-import-disabled", Stream: "nofs", Input: jobs[i],
					Observed: r1[i] + " with the file present, " + r2[i] + " without", Expected: "same outcome", Oracle: "presence/absence of files named like the import"})
			}
		}
		results = r1
	} else {
		baseline, btrace, _ := runChild(nil, work, "base", true)
		_ = baseline
		for i := range jobs {
			res.Count("nofs", jobs[i].Main+fmt.Sprint(len(jobs[i].Modules)), true)
		}
		for _, line := range strings.Split(trace, "\n") {
			hit := strings.Contains(line, sentinel)
			if !hit && strings.Contains(line, "\"/etc/passwd\"") && !strings.Contains(btrace, "\"/etc/passwd\"") {
				hit = true
			}
			if hit && !strings.Contains(line, "execve(") {
				res.Violate(lib.Violation{Signature: "file-system-consulted-with-file-import-disabled", Stream: "nofs", Input: map[string]interface{}{"import_names": names, "dir": dir},
					Observed: strings.TrimSpace(line), Expected: "no system call on a path derived from an import name", Oracle: "strace -f -e trace=file of a child process compiling with file import disabled"})
			}
		}
	}
	// outcomes: names in the map resolve, all others are "not found"
	for i, rs := range results {
		if i >= len(names) {
			break
		}
		want := "notfound " + names[i]
		if _, ok := jobs[i].Modules[names[i]]; ok {
			want = "ok "
		}
		if names[i] == "" {
			want = "empty "
		}
		if rs != want {
			res.Violate(lib.Violation{Signature: "import-name-not-resolved-from-module-map-only", Stream: "nofs", Input: jobs[i], Observed: rs, Expected: want,
				Oracle: "with file import disabled a name resolves iff the embedder's module map has it"})
		}
	}
	if res.Extra == nil {
		res.Extra = map[string]interface{}{}
	}
	res.Extra["fs_check"] = mode
	res.Extra["fs_import_names"] = len(names)
}

// ---- driver ----

func fatal(err error) {
	fmt.Fprintln(os.Stderr, "c13:", err)
	os.Exit(3)
}

func main() {
	if os.Getenv("C13_CHILD") == "1" {
		childMain()
		return
	}
	f := lib.ParseFlags()
	res = lib.NewResult("C13", f)
	thorough = f.Thorough()
	for _, fn := range tengo.GetAllBuiltinFunctions() {
		builtins = append(builtins, fn.Name)
	}
	var err error
	drv, err = lib.StartDriver(f.Driver)
	if err != nil {
		fatal(err)
	}
	defer drv.Close()
	res.DriverUsed = drv != nil
	res.Rule = "import graphs over a module map (exhaustive small graphs, random graphs with error sources and path-like names, file-import trees) and scripts probing the module boundary; " +
		"a graph case is non-trivial when at least two module bodies were compiled or the compile ended in an error; distinct by the rendered sources; script cases are distinct by their sources"

	if f.Replay != "" {
		replay(f.Replay)
		res.Write(f.Out)
		return
	}
	if os.Getenv("C13_ONLY") == "embed" { // development aid: the embed stream alone
		embedStream(lib.NewRNG(f.Seed).Fork(), f.Scale(4000, 40000))
		res.Write(f.Out)
		return
	}
	for _, c := range corpus() {
		checkCase(c, "", c.Stream == "graph")
	}
	n := exhaustive(f.Scale(4, 5), f.Scale(4, 5))
	res.Exhaustive = true
	rng := lib.NewRNG(f.Seed)
	for i, k := 0, f.Scale(8000, 80000); i < k; i++ {
		c := randomCase(rng.Fork())
		checkCase(c, "", true)
	}
	froot, err := os.MkdirTemp("", "c13files")
	if err != nil {
		fatal(err)
	}
	if r, err := filepath.EvalSymlinks(froot); err == nil {
		froot = r
	}
	for i, k := 0, f.Scale(600, 6000); i < k; i++ {
		r := rng.Fork()
		runFileCase(fileCase(r, froot), froot)
	}
	_ = os.RemoveAll(froot)
	flushPending()
	isolation(rng.Fork(), f.Scale(300, 5000))
	immutable(rng.Fork(), f.Scale(200, 3000))
	derived(rng.Fork(), f.Scale(600, 6000))
	objectModules(rng.Fork(), f.Scale(150, 3000))
	embedStream(rng.Fork(), f.Scale(4000, 40000))
	rerun(rng.Fork(), f.Scale(100, 2000))
	emitAndRun(rng.Fork(), f.Scale(100, 2000))
	nofs(rng.Fork(), f.Scale(150, 1500))
	probeO25(f.Known)
	lib.RunProbes(res, "C13", f.Known)
	if res.Extra == nil {
		res.Extra = map[string]interface{}{}
	}
	res.Extra["exhaustive_graphs"] = n
	res.Extra["exhaustive_max_modules"] = f.Scale(4, 5)
	res.Write(f.Out)
}

func corpus() []*gcase {
	i := func(n string, s int) item { return item{K: "i", Name: n, Style: s} }
	return []*gcase{
		// cycle reachable only after a cached module was reused
		{Stream: "graph", Main: []item{i("a", 0), i("b", 0)}, Mods: []mod{{Name: "a", Items: []item{i("c", 0)}}, {Name: "b", Items: []item{i("c", 1), i("d", 0)}}, {Name: "c"}, {Name: "d", Items: []item{i("c", 0), i("b", 2)}}}},
		// diamond below a chain, repeated imports
		{Stream: "graph", Main: []item{i("a", 0), i("a", 1)}, Mods: []mod{{Name: "a", Items: []item{i("b", 0), i("c", 0), i("b", 3)}}, {Name: "b", Items: []item{i("d", 0)}}, {Name: "c", Items: []item{i("d", 0)}}, {Name: "d", Ending: 1}}},
		// cycle of length 5
		{Stream: "graph", Main: []item{i("m0", 0)}, Mods: []mod{{Name: "m0", Items: []item{i("m1", 0)}}, {Name: "m1", Items: []item{i("m2", 1)}}, {Name: "m2", Items: []item{i("m3", 2)}}, {Name: "m3", Items: []item{i("m4", 3)}}, {Name: "m4", Items: []item{i("m0", 4)}}}},
		// self loop in dead code
		{Stream: "graph", Main: []item{i("s", 0)}, Mods: []mod{{Name: "s", Items: []item{i("s", 2)}}}},
		// module named like the main file
		{Stream: "random", Main: []item{i("(main)", 0)}, Mods: []mod{{Name: "(main)", Items: []item{i("x.tengo", 0)}}, {Name: "x.tengo"}}},
	}
}

func replay(path string) {
	b, err := os.ReadFile(path)
	if err != nil {
		fatal(err)
	}
	var rp struct {
		Violations []struct {
			Stream string          `json:"stream"`
			Input  json.RawMessage `json:"input"`
		} `json:"violations"`
		Obligations []struct {
			Detail string `json:"detail"`
		} `json:"theorem_or_stream"`
	}
	if err := json.Unmarshal(b, &rp); err != nil {
		fatal(err)
	}
	inputs := []json.RawMessage{}
	for _, v := range rp.Violations {
		inputs = append(inputs, v.Input)
	}
	for _, o := range rp.Obligations {
		var d struct {
			Input json.RawMessage `json:"input"`
		}
		if json.Unmarshal([]byte(o.Detail), &d) == nil && len(d.Input) > 0 {
			inputs = append(inputs, d.Input)
		}
	}
	rng := lib.NewRNG(1)
	for _, in := range inputs {
		if replayEmbed(in) {
			continue
		}
		var g gcase
		if json.Unmarshal(in, &g) == nil && (len(g.Mods) > 0 || len(g.Main) > 0) {
			if g.AllowFile {
				froot, _ := os.MkdirTemp("", "c13files")
				if r, err := filepath.EvalSymlinks(froot); err == nil {
					froot = r
				}
				runFileCase(&g, froot)
				_ = os.RemoveAll(froot)
			} else {
				checkCase(&g, "", g.Stream == "graph" || g.Stream == "random")
			}
			flushPending()
			continue
		}
		var sc scriptCase
		if json.Unmarshal(in, &sc) == nil && sc.Main != "" {
			switch sc.Stream {
			case "isolation":
				o := runScriptCase(&sc)
				if !strings.Contains(o.compileErr, "unresolved reference") {
					sviol(&sc, "name-visible-across-module-boundary", o.String(), "unresolved reference", "replay")
				}
			case "derived":
				derived(rng.Fork(), 600)
			case "immutable":
				o := runScriptCase(&sc)
				if o.runErr == "" && o.compileErr == "" {
					sviol(&sc, "import-value-is-mutable", o.String(), "runtime error or unchanged state", "replay")
				}
			default:
				immutable(rng.Fork(), 50)
				rerun(rng.Fork(), 50)
			}
			continue
		}
		nofs(rng.Fork(), 50)
	}
	probeO25("")
}

package main

// Stream `embed` (searcher): what a module body sees does not depend on how the embedder set the compiler up.
//
// The first clause of C13 quantifies over ALL importers: "a module body sees only its own variables and the builtin
// functions, never the importer's". The other streams drive the compiler with one single set-up history (every builtin
// defined first, then host variables whose names are never builtin names, or tengo.Script which does the same). This
// stream varies the whole family the clause ranges over:
//
//   - API history of the symbol table handed to NewCompiler: fresh table, host variables defined BEFORE the builtins
//     (the documented way with the Compiler API), builtins first, builtins partly defined by the embedder, the table
//     reused by an earlier compiler (REPL), globals created by an earlier script on the same table, tengo.Script.Add;
//   - names of the embedder's variables: builtin function names (every one of them), other names;
//   - definitions of the same names by the importing script itself (global, function local, parameter) and by
//     intermediate modules (module-own variable named like a builtin);
//   - import graphs: direct, chains up to 3 deep, diamonds, imports written inside functions;
//   - use sites inside the module: top level, variable, function body, exported function called by the importer,
//     closure, block, the builtin as a value.
//
// Oracle (no model, no reference run): every use is a call of a builtin function on literals whose result is written
// down here from the builtin's documented meaning (len([10,20,30]) = 3, …), or the bare name, which must be the
// builtin function of that name. The values reach the harness through a host function (sink), not through the symbol
// table. Any dependence on the embedder's variables is a violation; a module that names a NON-builtin variable of the
// embedder/importer must fail with "unresolved reference".

import (
	"context"
	"encoding/json"
	"fmt"
	"sort"
	"strconv"
	"strings"
	"time"

	"github.com/d5/tengo/v2"
	"github.com/d5/tengo/v2/parser"
	"verifharness/lib"
)

type hostVar struct {
	Name  string `json:"name"`
	Value int64  `json:"value"`
}

type embedCase struct {
	Stream  string            `json:"stream"` // "embed"
	Setup   string            `json:"setup"`
	Host    []hostVar         `json:"host"`
	Prelude string            `json:"prelude,omitempty"` // setup "repl": script compiled and run first on the same table/globals
	Main    string            `json:"main"`
	Modules map[string]string `json:"modules"`
	// Want: sink key ↦ canonical value; WantUnresolved: the compile must fail with this unresolved name instead
	Want           map[string]string `json:"want,omitempty"`
	WantUnresolved string            `json:"want_unresolved,omitempty"`
	// Plain: the same program for an embedder without variables (no host variables, no importer definitions)
	PlainMain string `json:"plain_main,omitempty"`
}

var embedSetups = []string{"host-first", "host-first", "host-first-reused", "builtins-half", "builtins-first", "fresh-table", "nil-table", "script-add", "repl"}

// builtinUse: an expression calling the builtin on literals and its value (from the documented meaning of the builtin).
type builtinUse struct{ expr, want string }

func builtinUses() map[string][]builtinUse {
	cs := func(s string) string { return lib.Canon(&tengo.String{Value: s}) }
	t, f := "(b 1)", "(b 0)"
	return map[string][]builtinUse{
		"len":                {{"len([10, 20, 30])", "(i 3)"}, {"len(\"ab\")", "(i 2)"}, {"len({a: 1})", "(i 1)"}},
		"copy":               {{"copy([4, 5])[1]", "(i 5)"}, {"copy({k: 8}).k", "(i 8)"}},
		"append":             {{"append([1], 2)[1]", "(i 2)"}, {"append([1], 2, 3)[2]", "(i 3)"}},
		"delete":             {{"(func() { t := {a: 1, b: 2}; delete(t, \"a\"); return t.b + (t.a == undefined ? 10 : 0) })()", "(i 12)"}},
		"splice":             {{"splice([7, 8, 9], 0, 1)[0]", "(i 7)"}},
		"string":             {{"string(12345)", cs("12345")}, {"string(true)", cs("true")}},
		"int":                {{"int(\"42\")", "(i 42)"}, {"int(3.9)", "(i 3)"}},
		"bool":               {{"bool(1)", t}, {"bool(\"\")", f}},
		"float":              {{"float(2)", lib.Canon(&tengo.Float{Value: 2})}},
		"char":               {{"char(65)", "(c 65)"}},
		"bytes":              {{"bytes(\"ab\")", lib.Canon(&tengo.Bytes{Value: []byte("ab")})}},
		"time":               {{"time(0)", lib.Canon(&tengo.Time{Value: time.Unix(0, 0)})}},
		"is_int":             {{"is_int(1)", t}, {"is_int(\"\")", f}},
		"is_float":           {{"is_float(1.5)", t}},
		"is_string":          {{"is_string(\"a\")", t}, {"is_string(1)", f}},
		"is_bool":            {{"is_bool(true)", t}},
		"is_char":            {{"is_char('a')", t}},
		"is_bytes":           {{"is_bytes(1)", f}},
		"is_array":           {{"is_array([1])", t}},
		"is_immutable_array": {{"is_immutable_array([1])", f}},
		"is_map":             {{"is_map({})", t}},
		"is_immutable_map":   {{"is_immutable_map({})", f}},
		"is_iterable":        {{"is_iterable([1])", t}},
		"is_time":            {{"is_time(1)", f}},
		"is_error":           {{"is_error(error(1))", t}},
		"is_undefined":       {{"is_undefined(undefined)", t}, {"is_undefined(0)", f}},
		"is_function":        {{"is_function(func() {})", t}},
		"is_callable":        {{"is_callable(func() {})", t}},
		"type_name":          {{"type_name(1)", cs("int")}, {"type_name(\"\")", cs("string")}},
		"format":             {{"format(\"%d-%s\", 5, \"x\")", cs("5-x")}},
		"range":              {{"range(0, 3)[2]", "(i 2)"}},
	}
}

type embedOut struct {
	compileErr, runErr, panicked string
	got                          map[string]string
}

func (o embedOut) String() string {
	switch {
	case o.panicked != "":
		return "panic: " + o.panicked
	case o.compileErr != "":
		return "compile error: " + o.compileErr
	case o.runErr != "":
		return "run error: " + o.runErr
	}
	keys := make([]string, 0, len(o.got))
	for k := range o.got {
		keys = append(keys, k)
	}
	sort.Strings(keys)
	s := "ok"
	for _, k := range keys {
		s += " " + k + "=" + o.got[k]
	}
	return s
}

// runEmbed compiles and runs the case through the API history its Setup names.
func runEmbed(ec *embedCase, main string, host []hostVar) (o embedOut) {
	o.got = map[string]string{}
	defer func() {
		if p := recover(); p != nil {
			o.panicked = fmt.Sprint(p)
		}
	}()
	mm := tengo.NewModuleMap()
	names := make([]string, 0, len(ec.Modules))
	for n := range ec.Modules {
		names = append(names, n)
	}
	sort.Strings(names)
	for _, n := range names {
		mm.AddSourceModule(n, []byte(ec.Modules[n]))
	}
	mm.AddBuiltinModule("zsink", map[string]tengo.Object{"put": &tengo.UserFunction{Name: "put", Value: func(args ...tengo.Object) (tengo.Object, error) {
		if len(args) == 2 {
			if k, ok := args[0].(*tengo.String); ok {
				o.got[k.Value] = lib.Canon(args[1])
			}
		}
		return tengo.UndefinedValue, nil
	}}})

	if ec.Setup == "script-add" {
		s := tengo.NewScript([]byte(main))
		for _, h := range host {
			_ = s.Add(h.Name, h.Value)
		}
		s.SetImports(mm)
		c, err := s.Compile()
		if err != nil {
			o.compileErr = err.Error()
			return
		}
		ctx, cancel := context.WithTimeout(context.Background(), 5*time.Second)
		defer cancel()
		if err := c.RunContext(ctx); err != nil {
			o.runErr = err.Error()
		}
		return
	}

	globals := make([]tengo.Object, tengo.GlobalsSize)
	st := tengo.NewSymbolTable()
	define := func() {
		for _, h := range host {
			globals[st.Define(h.Name).Index] = &tengo.Int{Value: h.Value}
		}
	}
	all := tengo.GetAllBuiltinFunctions()
	fs := parser.NewFileSet()
	run := func(name, src string, table *tengo.SymbolTable) bool {
		sf := fs.AddFile(name, -1, len(src))
		file, err := parser.NewParser(sf, []byte(src), nil).ParseFile()
		if err != nil {
			o.compileErr = "parse: " + err.Error()
			return false
		}
		comp := tengo.NewCompiler(sf, table, nil, mm, nil)
		if err := comp.Compile(file); err != nil {
			o.compileErr = err.Error()
			return false
		}
		vm := tengo.NewVM(comp.Bytecode(), globals, -1)
		var rerr error
		g := lib.Guard(5*time.Second, func() { rerr = vm.Run() })
		switch {
		case g.TimedOut:
			vm.Abort()
			o.runErr = "timeout"
		case g.Panicked:
			o.panicked = g.PanicVal
		case rerr != nil:
			o.runErr = rerr.Error()
		}
		return o.runErr == "" && o.panicked == ""
	}
	switch ec.Setup {
	case "nil-table": // no variables possible: NewCompiler makes the table
		st = nil
	case "fresh-table":
		define()
	case "host-first": // tengo.NewSymbolTable + Define, then NewCompiler adds the builtins
		define()
	case "host-first-reused": // an earlier compiler was created on the same table (REPL style)
		define()
		_ = tengo.NewCompiler(fs.AddFile("(earlier)", -1, 0), st, nil, mm, nil)
	case "builtins-half": // the embedder defined part of the builtins itself
		for idx, fn := range all {
			if idx%2 == 0 {
				st.DefineBuiltin(idx, fn.Name)
			}
		}
		define()
	case "builtins-first": // what tengo.Script does
		for idx, fn := range all {
			st.DefineBuiltin(idx, fn.Name)
		}
		define()
	case "repl": // the variables are globals an earlier script made on the same table
		if !run("(prelude)", ec.Prelude, st) {
			o.compileErr, o.runErr = "prelude: "+o.compileErr, ""
			return
		}
	}
	run("(main)", main, st)
	return
}

// ---- generator ----

type embedUse struct {
	name  string // builtin name
	style int
	u     builtinUse
	key   string
}

// moduleBody renders one module: optional own variables (named like builtins the module does not use itself),
// the uses, an optional import of the next module and the exported map. reads ↦ expression suffix the importer applies.
func embedModule(own []string, uses []embedUse, subs []string, subStyle int) (src string, reads map[string]string) {
	var sb strings.Builder
	reads = map[string]string{}
	for i, n := range own {
		fmt.Fprintf(&sb, "%s := %d\n", n, 70+i)
	}
	var fields []string
	for i, u := range uses {
		e := u.u.expr
		k := "r" + strconv.Itoa(i)
		switch u.style % 7 {
		case 0:
			fields = append(fields, k+": "+e)
		case 1:
			fmt.Fprintf(&sb, "v%d := %s\n", i, e)
			fields = append(fields, fmt.Sprintf("%s: v%d", k, i))
		case 2:
			fmt.Fprintf(&sb, "f%d := func() { return %s }\n", i, e)
			fields = append(fields, fmt.Sprintf("%s: f%d()", k, i))
		case 3:
			fields = append(fields, k+": func() { return "+e+" }")
			reads[u.key] = "." + k + "()"
			continue
		case 4:
			fmt.Fprintf(&sb, "f%d := func(p) { return func() { return p ? %s : 0 } }\n", i, e)
			fields = append(fields, fmt.Sprintf("%s: f%d(true)()", k, i))
		case 5:
			fmt.Fprintf(&sb, "v%d := undefined\nif true { v%d = %s }\n", i, i, e)
			fields = append(fields, fmt.Sprintf("%s: v%d", k, i))
		case 6:
			fmt.Fprintf(&sb, "for q%d := 0; q%d < 1; q%d++ { v%d := %s; x%d := [v%d] }\nw%d := [%s]\n", i, i, i, i, e, i, i, i, e)
			fields = append(fields, fmt.Sprintf("%s: w%d[0]", k, i))
		}
		reads[u.key] = "." + k
	}
	for j, s := range subs {
		q := strconv.Quote(s)
		switch (subStyle + j) % 3 {
		case 0:
			fmt.Fprintf(&sb, "s%d := import(%s)\n", j, q)
		case 1:
			fmt.Fprintf(&sb, "g%d := func() { return import(%s) }\ns%d := g%d()\n", j, q, j, j)
		case 2:
			fmt.Fprintf(&sb, "s%d := [import(%s)][0]\n", j, q)
		}
		fields = append(fields, fmt.Sprintf("sub%d: s%d", j, j))
	}
	sb.WriteString("export {" + strings.Join(fields, ", ") + "}\n")
	return sb.String(), reads
}

func embedGen(r *lib.RNG, table map[string][]builtinUse, all []string) *embedCase {
	ec := &embedCase{Stream: "embed", Modules: map[string]string{}, Want: map[string]string{}}
	ec.Setup = lib.Pick(r, embedSetups)
	// graph: chain m0 → m1 → … (depth 1..3), optionally a second branch mb importing the leaf (diamond)
	depth := 1 + r.Intn(3)
	diamond := r.Chance(1, 4)
	pickUse := func(mod string, i int) embedUse {
		n := lib.Pick(r, all)
		u := embedUse{name: n, style: r.Intn(7), key: fmt.Sprintf("%s.%d.%s", mod, i, n)}
		if us, ok := table[n]; ok && !r.Chance(1, 6) {
			u.u = lib.Pick(r, us)
		} else {
			u.u = builtinUse{n, "(bf " + lib.HexS(n) + ")"} // the bare name is the builtin function of that name
		}
		return u
	}
	type modSpec struct {
		name string
		uses []embedUse
		own  []string
		subs []string
		path string // how main reaches the module's export
	}
	var mods []*modSpec
	usedNames := map[string]bool{}
	for d := 0; d < depth; d++ {
		m := &modSpec{name: "m" + strconv.Itoa(d)}
		k := 1 + r.Intn(3)
		if d < depth-1 && r.Chance(1, 3) {
			k = 0 // a pure relay module
		}
		for i := 0; i < k; i++ {
			u := pickUse(m.name, i)
			m.uses = append(m.uses, u)
			usedNames[u.name] = true
		}
		if d+1 < depth {
			m.subs = []string{"m" + strconv.Itoa(d+1)}
		}
		m.path = "x" + strings.Repeat(".sub0", d)
		mods = append(mods, m)
	}
	if diamond {
		m := &modSpec{name: "mb", subs: []string{mods[depth-1].name}, path: "y"}
		if r.Chance(1, 2) {
			u := pickUse("mb", 0)
			m.uses = append(m.uses, u)
			usedNames[u.name] = true
		}
		mods = append(mods, m)
	}
	var used []string
	for n := range usedNames {
		used = append(used, n)
	}
	sort.Strings(used)
	// module-own variables named like a builtin used DEEPER in the chain
	for d := 0; d+1 < depth; d++ {
		if r.Chance(1, 4) {
			mine := map[string]bool{}
			for _, u := range mods[d].uses {
				mine[u.name] = true
				for _, b := range all { // names the expression itself mentions (delete's helper, is_error(error(..)))
					if strings.Contains(u.u.expr, b) {
						mine[b] = true
					}
				}
			}
			for _, u := range mods[d+1].uses {
				if !mine[u.name] {
					mods[d].own = append(mods[d].own, u.name)
					mine[u.name] = true
				}
			}
		}
	}
	// the embedder's variables
	hostSet := map[string]bool{}
	addHost := func(n string) {
		if !hostSet[n] {
			hostSet[n] = true
			ec.Host = append(ec.Host, hostVar{n, int64(1000 + len(ec.Host))})
		}
	}
	if ec.Setup != "nil-table" {
		if r.Chance(5, 6) {
			addHost(lib.Pick(r, used))
		}
		for k := r.Intn(3); k > 0; k-- {
			switch r.Intn(3) {
			case 0:
				addHost(lib.Pick(r, used))
			case 1:
				addHost(lib.Pick(r, all))
			case 2:
				addHost(lib.Pick(r, []string{"cfg", "total1", "secret0", "acc"}))
			}
		}
		if r.Chance(1, 12) { // every builtin name at once
			for _, b := range all {
				addHost(b)
			}
		}
		if r.Chance(1, 10) {
			ec.Host = nil
			hostSet = map[string]bool{}
		}
	}
	// a module that names a non-builtin variable of the embedder / importer: must be unresolved
	var foreign string
	if r.Chance(1, 8) {
		foreign = lib.Pick(r, []string{"cfg", "total1", "secret0"})
		if ec.Setup != "nil-table" && r.Chance(2, 3) {
			addHost(foreign)
		}
		ec.WantUnresolved = foreign
	}
	if ec.Setup == "repl" {
		for _, h := range ec.Host {
			ec.Prelude += fmt.Sprintf("%s := %d\n", h.Name, h.Value)
		}
	}
	// module sources
	reads := map[string]string{} // key ↦ expression in main
	foreignAt := r.Intn(len(mods))
	for i, m := range mods {
		src, rd := embedModule(m.own, m.uses, m.subs, r.Intn(3))
		if foreign != "" && i == foreignAt {
			src = lib.Pick(r, []string{"t := " + foreign + "\n", "tf := func() { return " + foreign + " }\n", "if false { t := " + foreign + " }\n"}) + src
		}
		ec.Modules[m.name] = src
		for k, suffix := range rd {
			reads[k] = m.path + suffix
		}
		for _, u := range m.uses {
			ec.Want[u.key] = u.u.want
		}
	}
	// main: the importer's own definitions of builtin names, the imports, the reads through the sink
	mainStyle := r.Intn(5)
	mainDefs := []int{r.Intn(3), r.Intn(3), r.Intn(3)}
	render := func(withDefs bool) string {
		var sb strings.Builder
		imp := func(v, name string, style int) {
			q := strconv.Quote(name)
			shadow := "cfg9"
			if withDefs && len(used) > 0 {
				shadow = used[style%len(used)]
			}
			switch style % 5 {
			case 0, 1:
				fmt.Fprintf(&sb, "%s := import(%s)\n", v, q)
			case 2:
				fmt.Fprintf(&sb, "h%s := func() { return import(%s) }\n%s := h%s()\n", v, q, v, v)
			case 3: // function-local variable of the importer named like a builtin around the import
				fmt.Fprintf(&sb, "h%s := func() { %s := 2; return import(%s) }\n%s := h%s()\n", v, shadow, q, v, v)
			case 4: // parameter named like a builtin
				fmt.Fprintf(&sb, "h%s := func(%s) { return import(%s) }\n%s := h%s(1)\n", v, shadow, q, v, v)
			}
		}
		{
			if withDefs {
				for i, n := range used {
					if hostSet[n] && ec.Setup != "nil-table" {
						if mainDefs[i%len(mainDefs)] == 2 {
							fmt.Fprintf(&sb, "%s = %d\n", n, 500+i) // the importer assigns the embedder's variable
						}
						continue
					}
					if mainDefs[i%len(mainDefs)] == 1 {
						fmt.Fprintf(&sb, "%s := %d\n", n, 500+i) // global of the importing script named like a builtin
					}
				}
			}
			imp("x", "m0", mainStyle)
			if diamond {
				imp("y", "mb", mainStyle+1)
			}
			sb.WriteString("zs := import(\"zsink\")\n")
			keys := make([]string, 0, len(reads))
			for k := range reads {
				keys = append(keys, k)
			}
			sort.Strings(keys)
			for _, k := range keys {
				fmt.Fprintf(&sb, "zs.put(%q, %s)\n", k, reads[k])
			}
			if diamond { // the leaf reached through the second branch yields the same values
				leaf := mods[depth-1]
				for _, k := range keys {
					if strings.HasPrefix(k, leaf.name+".") {
						fmt.Fprintf(&sb, "zs.put(%q, %s)\n", "via-mb."+k, "y.sub0"+strings.TrimPrefix(reads[k], leaf.path))
					}
				}
			}
		}
		return sb.String()
	}
	ec.Main = render(true)
	ec.PlainMain = render(false)
	if diamond {
		leaf := mods[depth-1]
		for _, u := range leaf.uses {
			ec.Want["via-mb."+u.key] = u.u.want
		}
	}
	if ec.WantUnresolved != "" {
		ec.Want = nil
	}
	return ec
}

// checkEmbed runs one case and applies the oracle.
func checkEmbed(ec *embedCase) {
	o := runEmbed(ec, ec.Main, ec.Host)
	res.Count("embed", ec.Setup+"|"+ec.Main+fmt.Sprint(ec.Modules)+fmt.Sprint(ec.Host), len(ec.Host) > 0)
	res.Dist("embed:" + ec.Setup)
	viol := func(sig, obs, exp, oracle string) {
		res.Violate(lib.Violation{Signature: sig, Stream: "embed", Input: ec, Observed: obs, Expected: exp, Oracle: oracle})
	}
	want := "every builtin call inside the modules yields the builtin's value: " + fmt.Sprint(len(ec.Want)) + " values as listed in `want`"
	// unresolved builtin name inside a module file
	for _, b := range builtins {
		if strings.Contains(o.compileErr, "unresolved reference '"+b+"'") && !strings.Contains(o.compileErr, "(main)") {
			viol("builtin-function-not-visible-in-module", o.String(), "the modules compile (or fail on a non-builtin name only)",
				"a module body sees its own variables and the builtin functions; the program is acyclic and its modules name builtin functions (and their own variables) only")
			return
		}
	}
	if ec.WantUnresolved != "" {
		res.Dist("embed:foreign-name")
		if !strings.Contains(o.compileErr, "unresolved reference '"+ec.WantUnresolved+"'") {
			viol("name-visible-across-module-boundary", o.String(), "Compile Error: unresolved reference '"+ec.WantUnresolved+"'",
				"a module body sees only its own variables and the builtin functions, whatever variables the embedder or the importer defines")
		}
		return
	}
	bad := ""
	switch {
	case o.panicked != "" || o.compileErr != "" || o.runErr != "":
		bad = o.String()
	default:
		keys := make([]string, 0, len(ec.Want))
		for k := range ec.Want {
			keys = append(keys, k)
		}
		sort.Strings(keys)
		for _, k := range keys {
			if o.got[k] != ec.Want[k] {
				bad = fmt.Sprintf("%s = %s (expected %s)", k, o.got[k], ec.Want[k])
				break
			}
		}
	}
	if bad == "" {
		res.Dist("embed:ok")
		if len(ec.Host) > 0 && len(ec.Modules) > 1 {
			res.Sample(map[string]interface{}{"stream": "embed", "case": ec, "outcome": o.String()}, 8)
		}
		return
	}
	// the same modules for an embedder without variables (and an importer without definitions of its own)
	plain := runEmbed(&embedCase{Setup: "fresh-table", Modules: ec.Modules}, ec.PlainMain, nil)
	plainOK := plain.panicked == "" && plain.compileErr == "" && plain.runErr == ""
	for k, w := range ec.Want {
		if plain.got[k] != w {
			plainOK = false
		}
	}
	if plainOK {
		viol("import-value-depends-on-importer-variables", bad, want,
			"what a module computes from builtin functions and its own variables does not depend on the variables of the embedder or the importer (the same modules give the listed values for an embedder without variables)")
		return
	}
	viol("builtin-call-in-module-yields-wrong-value", bad+"; without any embedder variable: "+plain.String(), want,
		"a module body sees the builtin functions: calls on literals yield the documented values")
}

func embedStream(r *lib.RNG, n int) {
	table := builtinUses()
	all := append([]string{}, builtins...)
	for i := 0; i < n; i++ {
		checkEmbed(embedGen(r.Fork(), table, all))
	}
	// fixed corners: every builtin name defined by the embedder at once, each setup, one module using every builtin
	var fields []string
	want := map[string]string{}
	reads := ""
	for i, b := range all {
		e, w := b, "(bf "+lib.HexS(b)+")"
		if us, ok := table[b]; ok {
			e, w = us[0].expr, us[0].want
		}
		fields = append(fields, fmt.Sprintf("r%d: func() { return %s }", i, e))
		want["m0."+b] = w
		reads += fmt.Sprintf("zs.put(%q, x.r%d())\n", "m0."+b, i)
	}
	mod := "export {" + strings.Join(fields, ", ") + "}\n"
	main := "x := import(\"outer\")\nx = x.inner\nzs := import(\"zsink\")\n" + reads
	for _, setup := range embedSetups[1:] {
		ec := &embedCase{Stream: "embed", Setup: setup, Main: main, PlainMain: main, Want: want,
			Modules: map[string]string{"m0": mod, "outer": "export {inner: import(\"m0\")}\n"}}
		if setup != "nil-table" {
			for i, b := range all {
				ec.Host = append(ec.Host, hostVar{b, int64(1000 + i)})
				ec.Prelude += fmt.Sprintf("%s := %d\n", b, 1000+i)
			}
		}
		checkEmbed(ec)
	}
}

func replayEmbed(in json.RawMessage) bool {
	var ec embedCase
	if json.Unmarshal(in, &ec) != nil || ec.Stream != "embed" || ec.Main == "" {
		return false
	}
	checkEmbed(&ec)
	return true
}

// Stream "copyheap": heap-level copy correspondence for C10 "a copy shares no mutable state".
//
// Every value of the universe is rebuilt in the heap model of C09 (lean/Tengo/Model/Heap9.lean) by model
// operations (`lit arr map err immut`, line protocol of lean/Tengo/Drivers/C09.lean), copied there by
// Model/HeapCopy.copyVal — the definition the theorems of Props/C10Heap are about — and the model's report
// `(copyheap x op…)` is compared with the real objects:
//
//	snapshot of the model's copy       == lib.Canon(o.Copy())   (immutable containers become mutable ones, …)
//	snapshot of the model's original   == lib.Canon(o)          (before and after the real Copy)
//	data flag                          == o holds no function value
//	fresh/sep flags are 1 for data values, and the real copy and the real original share no container object,
//	backing array, Go map, error object or byte slice (pointer sets disjoint: a deterministic yes/no, no address
//	is ever printed or ordered)
//
// Any difference is a disagreement (model ≠ code), never a violation: the property oracles on the real objects are
// the copy searchers of runSingles.
package main

import (
	"reflect"
	"strings"

	"github.com/d5/tengo/v2"
	"verifharness/lib"
)

type heapBuilder struct {
	ops []string
	n   int
}

func (b *heapBuilder) push(op string) int {
	b.ops = append(b.ops, op)
	b.n++
	return b.n - 1
}

// build emits the operations that construct o and returns its handle; ok=false: outside the model
// (too deep or an object type the heap model has no constructor for).
func (b *heapBuilder) build(o tengo.Object, depth int) (int, bool) {
	if depth > 60 {
		return 0, false
	}
	elems := func(xs []tengo.Object) (string, bool) {
		var sb strings.Builder
		for _, x := range xs {
			h, ok := b.build(x, depth+1)
			if !ok {
				return "", false
			}
			sb.WriteString(" " + lib.N(h))
		}
		return sb.String(), true
	}
	entries := func(m map[string]tengo.Object) (string, bool) {
		var sb strings.Builder
		for _, k := range sortedKeys(m) {
			h, ok := b.build(m[k], depth+1)
			if !ok {
				return "", false
			}
			sb.WriteString(" (" + lib.HexS(k) + " " + lib.N(h) + ")")
		}
		return sb.String(), true
	}
	switch v := o.(type) {
	case *tengo.Undefined:
		return b.push("(lit u)"), true
	case *tengo.Int:
		return b.push("(lit (i " + lib.I(v.Value) + "))"), true
	case *tengo.String:
		return b.push("(lit (s " + lib.HexS(v.Value) + "))"), true
	case *tengo.Bool, *tengo.Float, *tengo.Char, *tengo.Bytes, *tengo.Time,
		*tengo.CompiledFunction, *tengo.BuiltinFunction, *tengo.UserFunction:
		return b.push("(lit (o " + lib.HexS(lib.Canon(o)) + "))"), true
	case *tengo.Array:
		es, ok := elems(v.Value)
		if !ok {
			return 0, false
		}
		return b.push("(arr " + lib.N(len(v.Value)) + es + ")"), true
	case *tengo.ImmutableArray:
		es, ok := elems(v.Value)
		if !ok {
			return 0, false
		}
		t := b.push("(arr " + lib.N(len(v.Value)) + es + ")")
		return b.push("(immut 1 " + lib.N(t) + ")"), true
	case *tengo.Map:
		es, ok := entries(v.Value)
		if !ok {
			return 0, false
		}
		return b.push("(map" + es + ")"), true
	case *tengo.ImmutableMap:
		es, ok := entries(v.Value)
		if !ok {
			return 0, false
		}
		t := b.push("(map" + es + ")")
		return b.push("(immut 1 " + lib.N(t) + ")"), true
	case *tengo.Error:
		p, ok := b.build(v.Value, depth+1)
		if !ok {
			return 0, false
		}
		return b.push("(err " + lib.N(p) + ")"), true
	}
	return 0, false
}

func holdsFunction(o tengo.Object, depth int) bool {
	if depth > 100 {
		return false
	}
	switch v := o.(type) {
	case *tengo.CompiledFunction, *tengo.BuiltinFunction, *tengo.UserFunction:
		return true
	case *tengo.Array:
		for _, x := range v.Value {
			if holdsFunction(x, depth+1) {
				return true
			}
		}
	case *tengo.ImmutableArray:
		for _, x := range v.Value {
			if holdsFunction(x, depth+1) {
				return true
			}
		}
	case *tengo.Map:
		for _, x := range v.Value {
			if holdsFunction(x, depth+1) {
				return true
			}
		}
	case *tengo.ImmutableMap:
		for _, x := range v.Value {
			if holdsFunction(x, depth+1) {
				return true
			}
		}
	case *tengo.Error:
		return holdsFunction(v.Value, depth+1)
	}
	return false
}

// cellsOf collects the identities of everything of o that is state: container and error objects, backing
// arrays, Go maps, byte slices (membership only; the numbers are never reported or compared for order).
func cellsOf(o tengo.Object, set map[uintptr]bool, depth int) {
	if depth > 100 || o == nil {
		return
	}
	add := func(p uintptr) {
		if p != 0 {
			set[p] = true
		}
	}
	slicePtr := func(s interface{}) {
		rv := reflect.ValueOf(s)
		if rv.Cap() > 0 {
			add(rv.Pointer())
		}
	}
	switch v := o.(type) {
	case *tengo.Array:
		add(reflect.ValueOf(v).Pointer())
		slicePtr(v.Value)
		for _, x := range v.Value {
			cellsOf(x, set, depth+1)
		}
	case *tengo.ImmutableArray:
		add(reflect.ValueOf(v).Pointer())
		slicePtr(v.Value)
		for _, x := range v.Value {
			cellsOf(x, set, depth+1)
		}
	case *tengo.Map:
		add(reflect.ValueOf(v).Pointer())
		add(reflect.ValueOf(v.Value).Pointer())
		for _, x := range v.Value {
			cellsOf(x, set, depth+1)
		}
	case *tengo.ImmutableMap:
		add(reflect.ValueOf(v).Pointer())
		add(reflect.ValueOf(v.Value).Pointer())
		for _, x := range v.Value {
			cellsOf(x, set, depth+1)
		}
	case *tengo.Error:
		add(reflect.ValueOf(v).Pointer())
		cellsOf(v.Value, set, depth+1)
	case *tengo.Bytes:
		add(reflect.ValueOf(v).Pointer())
		slicePtr(v.Value)
	}
}

type copyHeapIn struct {
	Value string `json:"value"`
	Line  string `json:"line,omitempty"`
}

func runCopyHeap(u []val) {
	if drv == nil {
		return
	}
	type q struct {
		line, want string
		sx         string
		data       bool
	}
	var qs []q
	for _, v := range u {
		b := &heapBuilder{}
		h, ok := b.build(v.o, 0)
		if !ok {
			res.Skipped++
			res.Dist("copyheap-outside-model")
			continue
		}
		before := lib.Canon(v.o)
		c := v.o.Copy()
		after := lib.Canon(v.o)
		data := !holdsFunction(v.o, 0)
		shares := false
		if data {
			so, sc := map[uintptr]bool{}, map[uintptr]bool{}
			cellsOf(v.o, so, 0)
			cellsOf(c, sc, 0)
			for p := range sc {
				if so[p] {
					shares = true
				}
			}
		}
		line := "(copyheap " + lib.N(h) + " " + strings.Join(b.ops, " ") + ")"
		want := "ok " + lib.Canon(c) + " ; " + after + " ; data" + lib.B(data)
		if data {
			want += " ; fresh1 ; sep" + lib.B(!shares)
		}
		if before != after {
			res.Disagree(lib.Disagreement{Stream: "copyheap", Input: copyHeapIn{Value: v.sx}, Model: before, Impl: after})
		}
		nontrivial := false
		switch v.o.(type) {
		case *tengo.Array, *tengo.ImmutableArray, *tengo.Map, *tengo.ImmutableMap, *tengo.Error:
			nontrivial = true
		}
		res.Count("copyheap", v.sx, nontrivial)
		qs = append(qs, q{line, want, v.sx, data})
	}
	lines := make([]string, len(qs))
	for i, x := range qs {
		lines[i] = x.line
	}
	ans, err := drv.Batch(lines)
	if err != nil {
		fatal(err)
	}
	for i, a := range ans {
		res.ModelLines++
		got := a
		if !qs[i].data {
			// function values are opaque scalars in the heap model: its fresh/sep flags say nothing about
			// captured cells (known finding C10-K2); only the shapes and the data flag are compared
			if k := strings.Index(got, " ; fresh"); k >= 0 {
				got = got[:k]
			}
			// BuiltinFunction.Copy drops the name (observed by the single-copy stream, see expectedCopyCanon)
			got = noBfName(got)
		}
		if got != noBfNameIf(!qs[i].data, qs[i].want) {
			res.Disagree(lib.Disagreement{Stream: "copyheap", Input: copyHeapIn{Value: qs[i].sx, Line: clip(qs[i].line, 400)},
				Model: clip(got, 400), Impl: clip(qs[i].want, 400)})
		}
	}
}

func noBfNameIf(c bool, s string) string {
	if c {
		return noBfName(s)
	}
	return s
}

// Command c10: correspondence and searchers for C10 (value equality, ordering, truthiness, copy and
// conversion obey their laws).
//
// A universe of real tengo objects (boundary scalars, containers, immutable variants, errors,
// functions, random nested values from the seed) is enumerated exhaustively:
//
//	pair    all ordered pairs x {== != < <= > >=}, evaluated by the object methods AND by one-statement
//	        scripts; both compared with the Lean model (`(pair a b)`)
//	single  all values x {!, copy, string/int/float/bool/char/bytes/time with and without default},
//	        methods/builtins and scripts, compared with the model
//	laws    (searcher, no model) symmetry, != is negation, duality incl. error<->error, trichotomy
//	        and <= = (< or ==) where the property claims them, int/char by code point, NaN, the Go
//	        comparison of the underlying values as independent oracle
//	table   (searcher) truthiness and conversion tables of docs/runtime-types.md, hard-coded here
//	copy    (searcher) copy == original (values without error/function/NaN), copy is mutable, copy
//	        then mutate original leaves the copy unchanged and vice versa
//	copyheap  all values rebuilt and copied in the heap model of C09 (`(copyheap x op…)`, copyheap.go): shapes,
//	        freshness and separation of the model's copy vs the real Copy and its pointer sets
package main

import (
	"encoding/json"
	"fmt"
	"math"
	"math/big"
	"os"
	"regexp"
	"sort"
	"strconv"
	"strings"
	"time"

	"github.com/d5/tengo/v2"
	"github.com/d5/tengo/v2/token"
	"verifharness/lib"
)

var (
	res    *lib.Result
	drv    *lib.Driver
	errIDs = map[*tengo.Error]int{}
)

// ---------- canonical S-expressions (Appendix A; errors carry an identity, time is exact) ----------

func timeNanos(t time.Time) string {
	internal := t.Unix() + 62135596800 // wraps back to the internal second count
	n := new(big.Int).Sub(big.NewInt(internal), big.NewInt(62135596800))
	n.Mul(n, big.NewInt(1000000000))
	n.Add(n, big.NewInt(int64(t.Nanosecond())))
	return n.String()
}

func cx(o tengo.Object) string { return cxd(o, 0) }

func cxd(o tengo.Object, depth int) string {
	if depth > 100 {
		return "(deep)"
	}
	switch v := o.(type) {
	case nil:
		return "nil"
	case *tengo.Time:
		return "(t " + timeNanos(v.Value) + ")"
	case *tengo.Error:
		return "(e " + lib.N(errIDs[v]) + " " + cxd(v.Value, depth+1) + ")"
	case *tengo.Array:
		return "(a" + cxList(v.Value, depth) + ")"
	case *tengo.ImmutableArray:
		return "(ia" + cxList(v.Value, depth) + ")"
	case *tengo.Map:
		return "(m" + cxMap(v.Value, depth) + ")"
	case *tengo.ImmutableMap:
		return "(im" + cxMap(v.Value, depth) + ")"
	}
	return lib.Canon(o)
}

func cxList(xs []tengo.Object, depth int) string {
	var sb strings.Builder
	for _, x := range xs {
		sb.WriteByte(' ')
		sb.WriteString(cxd(x, depth+1))
	}
	return sb.String()
}

func cxMap(m map[string]tengo.Object, depth int) string {
	keys := make([]string, 0, len(m))
	for k := range m {
		keys = append(keys, k)
	}
	sort.Strings(keys)
	var sb strings.Builder
	for _, k := range keys {
		sb.WriteString(" (" + lib.HexS(k) + " " + cxd(m[k], depth+1) + ")")
	}
	return sb.String()
}

// ---------- the universe ----------

type val struct {
	o    tengo.Object
	sx   string
	name string
}

func I(n int64) tengo.Object     { return &tengo.Int{Value: n} }
func F(f float64) tengo.Object   { return &tengo.Float{Value: f} }
func FB(b uint64) tengo.Object   { return &tengo.Float{Value: math.Float64frombits(b)} }
func C(r rune) tengo.Object      { return &tengo.Char{Value: r} }
func S(s string) tengo.Object    { return &tengo.String{Value: s} }
func Y(b ...byte) tengo.Object   { return &tengo.Bytes{Value: append([]byte{}, b...)} }
func T(t time.Time) tengo.Object { return &tengo.Time{Value: t} }
func A(xs ...tengo.Object) tengo.Object {
	return &tengo.Array{Value: append([]tengo.Object{}, xs...)}
}
func IA(xs ...tengo.Object) tengo.Object {
	return &tengo.ImmutableArray{Value: append([]tengo.Object{}, xs...)}
}
func M(kv ...interface{}) tengo.Object {
	m := map[string]tengo.Object{}
	for i := 0; i+1 < len(kv); i += 2 {
		m[kv[i].(string)] = kv[i+1].(tengo.Object)
	}
	return &tengo.Map{Value: m}
}
func IM(kv ...interface{}) tengo.Object {
	return &tengo.ImmutableMap{Value: M(kv...).(*tengo.Map).Value}
}
func E(v tengo.Object) tengo.Object { return &tengo.Error{Value: v} }

func scriptGlobals(src string, names ...string) []tengo.Object {
	c, err := tengo.NewScript([]byte(src)).Compile()
	if err != nil {
		fatal(err)
	}
	if err := c.Run(); err != nil {
		fatal(err)
	}
	var out []tengo.Object
	for _, n := range names {
		out = append(out, c.Get(n).Object())
	}
	return out
}

func builtinByName(name string) *tengo.BuiltinFunction {
	for _, b := range tengo.GetAllBuiltinFunctions() {
		if b.Name == name {
			return b
		}
	}
	fatal(fmt.Errorf("builtin %s not found", name))
	return nil
}

func fixedUniverse() []tengo.Object {
	U := tengo.UndefinedValue
	var u []tengo.Object
	u = append(u, U, tengo.TrueValue, tengo.FalseValue)
	for _, n := range []int64{0, 1, -1, 2, 3, 97, 98, 127, 128, 255, 65536, 55296, 1114112, 1 << 31, -(1 << 31) - 1, 1 << 32,
		math.MinInt64, math.MinInt64 + 1, math.MaxInt64, math.MaxInt64 - 1, 1 << 53, 1<<53 + 1, 1<<53 - 1, -(1<<53 + 1),
		1<<62 + 1, math.MaxInt64 - 512, -62135596800, 9223372036} {
		u = append(u, I(n))
	}
	u = append(u, I(1)) // a second object with an equal value
	for _, b := range []uint64{0, 1 << 63, 0x3FF0000000000000, 0xBFF0000000000000, 0x3FE0000000000000, 0x3FF8000000000000,
		0x4008000000000000, 0x4058400000000000, // 3, 97
		0x7FF8000000000001, 0xFFF8000000000000, 0x7FF0000000000001, // NaNs
		0x7FF0000000000000, 0xFFF0000000000000, // +-Inf
		1, 0x000FFFFFFFFFFFFF, 0x0010000000000000, 0x8000000000000001, // subnormals, min normal
		0x7FEFFFFFFFFFFFFF, 0xFFEFFFFFFFFFFFFF, // +-MaxFloat64
		0x4340000000000000, 0x4340000000000001, 0x433FFFFFFFFFFFFF, 0xC340000000000000, // 2^53, 2^53+2, 2^53-1, -2^53
		0x43E0000000000000, 0xC3E0000000000000, 0x43DFFFFFFFFFFFFF, 0xC3E0000000000001, 0x43F0000000000000, // 2^63, -2^63, below, beyond, 2^64
		0x41E0000000000000, 0x3FB999999999999A, 0x4000000000000000, 0xC1E0000000200000} { // 2^31, 0.1, 2, -(2^31+1)
		u = append(u, FB(b))
	}
	for _, r := range []rune{0, 1, 97, 98, 0x7F, 0x80, 0xD800, 0x10FFFF, 0x110000, -1, 0x20AC, math.MinInt32, math.MaxInt32, 65536} {
		u = append(u, C(r))
	}
	for _, s := range []string{"", "a", "b", "ab", "a\x00", "A", "é", "é", "日本", "\xff", "\xc3", "a\xffb", "0", "1", "123", "-1",
		"-9223372036854775808", "9223372036854775807", "9223372036854775808", "+5", "1_000", " 1", "0x10", "1.5", "1e3", "NaN", "true", "-", "007"} {
		u = append(u, S(s))
	}
	u = append(u, S("a"))
	u = append(u, Y(), Y('a'), Y(0), Y(0xff), Y('a', 'b'), Y('1', '2', '3'), Y('a'))
	z := time.Time{}
	t2020 := time.Date(2020, 2, 29, 12, 0, 0, 5, time.UTC)
	for _, t := range []time.Time{z, time.Unix(0, 0), time.Unix(0, 1), time.Unix(1, 0), time.Unix(-1, 999999999), t2020,
		t2020.In(time.FixedZone("x", 3600*9)), t2020.Add(-1), time.Unix(math.MaxInt64, 0), time.Unix(math.MinInt64, 0),
		time.Date(9999, 12, 31, 23, 59, 59, 999999999, time.UTC), time.Unix(-62135596800, 0), time.Unix(-62135596800, 1), time.Unix(1<<40, 5), time.Unix(97, 0)} {
		u = append(u, T(t))
	}
	e1 := E(I(1))
	shared := A(I(1))
	u = append(u, E(U), e1, E(I(1)), E(S("x")), E(A(I(1))), E(e1), E(F(math.NaN())))
	fs := scriptGlobals("f := func(a) { return a }\nmk := func() { c := 0; return func() { c += 1; return c } }\ng := mk()\nh := func(a) { return a }\n", "f", "g", "h")
	u = append(u, fs...)
	u = append(u, builtinByName("len"), builtinByName("copy"),
		&tengo.UserFunction{Name: "uf", Value: func(args ...tengo.Object) (tengo.Object, error) { return tengo.UndefinedValue, nil }})
	// containers
	u = append(u, A(), A(I(1)), A(I(1), I(2)), A(I(2), I(1)), A(F(1)), A(I(1), S("a")), A(A(I(1))), A(A(I(1)), A(I(2))), A(U), A(tengo.TrueValue),
		A(F(math.NaN())), A(e1), A(fs[0]), A(shared, shared), A(IA(I(1)), A(I(1))), A(A(A(A(A(I(1)))))), A(C(97)), A(I(97)), A(I(1), I(2), I(3)),
		A(Y('a')), A(S("")), A(T(z)), A(M()), A(M("a", I(1))),
		IA(), IA(I(1)), IA(I(1), I(2)), IA(F(1)), IA(A(I(1))), IA(IA(I(1))), IA(U), IA(A(A(A(A(I(1)))))), IA(e1), IA(M("a", I(1))),
		M(), M("a", I(1)), M("a", F(1)), M("b", I(1)), M("a", I(1), "b", I(2)), M("a", I(2), "b", I(1)), M("a", U), M("b", U), M("", I(1)),
		M("a", A(I(1))), M("a", M("b", I(1))), M("a", IM("b", I(1))), M("\xff", I(1)), M("a", I(1), "a\x00", I(2), "b", I(3)), M("a", e1), M("a", F(math.NaN())),
		M("a", U, "b", U), M("a", U, "c", U), M("k", shared, "l", shared),
		IM(), IM("a", I(1)), IM("a", F(1)), IM("b", I(1)), IM("a", I(1), "b", I(2)), IM("a", U), IM("a", IA(I(1))), IM("a", M("b", I(1))), IM("a", e1))
	return u
}

// random nested values; leaves are drawn mostly from a small pool so that equal pairs occur
func randomValue(r *lib.RNG, depth int) tengo.Object {
	leaf := func() tengo.Object {
		switch r.Intn(12) {
		case 0:
			return I(int64(r.Intn(4)))
		case 1:
			return F(float64(r.Intn(4)))
		case 2:
			return C(rune(r.Intn(3)))
		case 3:
			return S(lib.Pick(r, []string{"", "a", "b", "\xff"}))
		case 4:
			return Y([]byte(lib.Pick(r, []string{"", "a", "b"}))...)
		case 5:
			return lib.Pick(r, []tengo.Object{tengo.TrueValue, tengo.FalseValue, tengo.UndefinedValue})
		case 6:
			return T(time.Unix(int64(r.Intn(3)), 0))
		case 7:
			return I(int64(r.U64()))
		case 8:
			return FB(r.U64())
		case 9:
			return E(I(int64(r.Intn(2))))
		case 10:
			return F(float64(int64(r.U64() >> uint(r.Intn(64)))))
		}
		return I(int64(r.U64() >> uint(r.Intn(64))))
	}
	if depth <= 0 || r.Chance(2, 5) {
		return leaf()
	}
	n := r.Intn(4)
	switch r.Intn(4) {
	case 0, 1:
		xs := make([]tengo.Object, n)
		for i := range xs {
			xs[i] = randomValue(r, depth-1)
		}
		if r.Chance(1, 3) {
			return IA(xs...)
		}
		return A(xs...)
	default:
		var kv []interface{}
		for i := 0; i < n; i++ {
			kv = append(kv, lib.Pick(r, []string{"a", "b", "c", "", "\xff"}), randomValue(r, depth-1))
		}
		if r.Chance(1, 3) {
			return IM(kv...)
		}
		return M(kv...)
	}
}

// twin rebuilds a value with array/immutable-array, map/immutable-map and int/float (when exact)
// flipped at random places: a structurally different value that the laws say is still equal.
func twin(r *lib.RNG, o tengo.Object) tengo.Object {
	switch v := o.(type) {
	case *tengo.Int:
		if r.Bool() && v.Value > -(1<<53) && v.Value < 1<<53 {
			return F(float64(v.Value))
		}
		return I(v.Value)
	case *tengo.Float:
		if r.Bool() && v.Value == math.Trunc(v.Value) && math.Abs(v.Value) < 1<<53 {
			return I(int64(v.Value))
		}
		return F(v.Value)
	case *tengo.Array, *tengo.ImmutableArray:
		var src []tengo.Object
		if a, ok := v.(*tengo.Array); ok {
			src = a.Value
		} else {
			src = v.(*tengo.ImmutableArray).Value
		}
		xs := make([]tengo.Object, len(src))
		for i, x := range src {
			xs[i] = twin(r, x)
		}
		if r.Bool() {
			return IA(xs...)
		}
		return A(xs...)
	case *tengo.Map, *tengo.ImmutableMap:
		var src map[string]tengo.Object
		if a, ok := v.(*tengo.Map); ok {
			src = a.Value
		} else {
			src = v.(*tengo.ImmutableMap).Value
		}
		m := map[string]tengo.Object{}
		for k, x := range src {
			m[k] = twin(r, x)
		}
		if r.Bool() {
			return &tengo.ImmutableMap{Value: m}
		}
		return &tengo.Map{Value: m}
	case *tengo.String:
		return S(v.Value)
	case *tengo.Bytes:
		return Y(v.Value...)
	case *tengo.Char:
		return C(v.Value)
	case *tengo.Time:
		return T(v.Value)
	}
	return o
}

func registerErrors(o tengo.Object, depth int) {
	if depth > 100 {
		return
	}
	switch v := o.(type) {
	case *tengo.Error:
		if _, ok := errIDs[v]; !ok {
			errIDs[v] = len(errIDs) + 1
		}
		registerErrors(v.Value, depth+1)
	case *tengo.Array:
		for _, x := range v.Value {
			registerErrors(x, depth+1)
		}
	case *tengo.ImmutableArray:
		for _, x := range v.Value {
			registerErrors(x, depth+1)
		}
	case *tengo.Map:
		for _, k := range sortedKeys(v.Value) {
			registerErrors(v.Value[k], depth+1)
		}
	case *tengo.ImmutableMap:
		for _, k := range sortedKeys(v.Value) {
			registerErrors(v.Value[k], depth+1)
		}
	}
}

func sortedKeys(m map[string]tengo.Object) []string {
	keys := make([]string, 0, len(m))
	for k := range m {
		keys = append(keys, k)
	}
	sort.Strings(keys)
	return keys
}

func buildUniverse(f *lib.Flags) []val {
	objs := fixedUniverse()
	rng := lib.NewRNG(f.Seed)
	nRandom := f.Scale(30, 320)
	for i := 0; i < nRandom; i++ {
		r := rng.Fork()
		v := randomValue(r, 1+r.Intn(3))
		objs = append(objs, v)
		if i%2 == 0 {
			objs = append(objs, twin(r, v))
		}
	}
	// twins of some fixed containers too
	r := rng.Fork()
	for _, o := range fixedUniverse() {
		switch o.(type) {
		case *tengo.Array, *tengo.ImmutableArray, *tengo.Map, *tengo.ImmutableMap:
			if r.Chance(1, f.Scale(6, 2)) {
				objs = append(objs, twin(r, o))
			}
		}
	}
	var u []val
	for _, o := range objs {
		registerErrors(o, 0)
	}
	for i, o := range objs {
		u = append(u, val{o: o, sx: cx(o), name: fmt.Sprintf("v%d:%s", i, o.TypeName())})
	}
	return u
}

// ---------- evaluating on the real code ----------

const (
	rFalse   = 0
	rTrue    = 1
	rInvalid = 2 // invalid operator
	rOther   = 3 // anything else (recorded with text)
)

var cmpToks = []token.Token{token.Less, token.LessEq, token.Greater, token.GreaterEq}
var opNames = []string{"==", "!=", "<", "<=", ">", ">="}

func boolRes(o tengo.Object) int {
	if o == tengo.TrueValue {
		return rTrue
	}
	if o == tengo.FalseValue {
		return rFalse
	}
	return rOther
}

// methodPair: [==, !=(unused: the method level has no !=), <, <=, >, >=]
func methodPair(a, b tengo.Object) (out [6]int, note string) {
	func() {
		defer func() {
			if p := recover(); p != nil {
				out = [6]int{rOther, rOther, rOther, rOther, rOther, rOther}
				note = fmt.Sprint("panic: ", p)
			}
		}()
		if a.Equals(b) {
			out[0], out[1] = rTrue, rFalse
		} else {
			out[0], out[1] = rFalse, rTrue
		}
		for i, t := range cmpToks {
			r, err := a.BinaryOp(t, b)
			switch {
			case err == tengo.ErrInvalidOperator:
				out[2+i] = rInvalid
			case err != nil:
				out[2+i] = rOther
				note = err.Error()
			default:
				out[2+i] = boolRes(r)
			}
		}
	}()
	return
}

type scripts struct {
	bin    [6]*tengo.Compiled
	not    *tengo.Compiled
	cpy    *tengo.Compiled
	cpyEq  *tengo.Compiled
	conv1  map[string]*tengo.Compiled
	conv2  map[string]*tengo.Compiled
	closur *tengo.Compiled
}

func compile1(src string, vars ...string) *tengo.Compiled {
	s := tengo.NewScript([]byte(src))
	for _, v := range vars {
		_ = s.Add(v, tengo.UndefinedValue)
	}
	c, err := s.Compile()
	if err != nil {
		fatal(fmt.Errorf("%s: %v", src, err))
	}
	return c
}

var convNames = []string{"string", "int", "float", "bool", "char", "bytes", "time"}

func newScripts() *scripts {
	s := &scripts{conv1: map[string]*tengo.Compiled{}, conv2: map[string]*tengo.Compiled{}}
	for i, op := range opNames {
		s.bin[i] = compile1("out := a "+op+" b\n", "a", "b")
	}
	s.not = compile1("out := !a\n", "a")
	s.cpy = compile1("out := copy(a)\n", "a")
	s.cpyEq = compile1("c := copy(a)\nout := c == a\nout2 := a == c\n", "a")
	for _, k := range convNames {
		s.conv1[k] = compile1("out := "+k+"(a)\n", "a")
		s.conv2[k] = compile1("out := "+k+"(a, d)\n", "a", "d")
	}
	return s
}

// runScript sets the inputs, runs, and returns the `out` global or a classified error.
func runScript(c *tengo.Compiled, in map[string]tengo.Object) (out tengo.Object, errKind string) {
	defer func() {
		if p := recover(); p != nil {
			out, errKind = nil, "panic "+panicKind(fmt.Sprint(p))
		}
	}()
	for k, v := range in {
		if err := c.Set(k, v); err != nil {
			return nil, "set: " + err.Error()
		}
	}
	if err := c.Run(); err != nil {
		return nil, "err " + errClass(err.Error())
	}
	return c.Get("out").Object(), ""
}

func panicKind(s string) string {
	if strings.Contains(s, "makeslice") {
		return "makeslice"
	}
	return strings.ReplaceAll(s, " ", "-")
}

func errClass(s string) string {
	switch {
	case strings.Contains(s, "invalid operation"), strings.Contains(s, "invalid operator"):
		return "invalidOp"
	case strings.Contains(s, "wrong number of arguments"):
		return "wrongNumArgs"
	case strings.Contains(s, "exceeding bytes size limit"), strings.Contains(s, "bytes size limit"):
		return "bytesLimit"
	case strings.Contains(s, "exceeding string size limit"):
		return "stringLimit"
	}
	return "other:" + strings.ReplaceAll(s, " ", "-")
}

func scriptPair(sc *scripts, a, b tengo.Object) (out [6]int, note string) {
	for i := range opNames {
		o, ek := runScript(sc.bin[i], map[string]tengo.Object{"a": a, "b": b})
		switch {
		case ek == "err invalidOp":
			out[i] = rInvalid
		case ek != "":
			out[i] = rOther
			note = ek
		default:
			out[i] = boolRes(o)
		}
	}
	return
}

func resStr(r [6]int) string {
	s := make([]string, 6)
	for i, x := range r {
		s[i] = []string{"0", "1", "x", "?"}[x]
	}
	return strings.Join(s, " ")
}

// ---------- classification used by the oracles (Go types only, no model) ----------

func isNaNFloat(o tengo.Object) bool {
	f, ok := o.(*tengo.Float)
	return ok && math.IsNaN(f.Value)
}

// family: 0 none, else a tag for "same ordered type" / int-float / int-char
func claimedOrdered(a, b tengo.Object) (ordered bool, kind string) {
	switch x := a.(type) {
	case *tengo.Int:
		switch y := b.(type) {
		case *tengo.Int:
			return true, "int"
		case *tengo.Float:
			return !math.IsNaN(y.Value), "int/float"
		}
	case *tengo.Float:
		switch y := b.(type) {
		case *tengo.Float:
			return !math.IsNaN(x.Value) && !math.IsNaN(y.Value), "float"
		case *tengo.Int:
			return !math.IsNaN(x.Value), "int/float"
		}
	case *tengo.Char:
		if _, ok := b.(*tengo.Char); ok {
			return true, "char"
		}
	case *tengo.String:
		if _, ok := b.(*tengo.String); ok {
			return true, "string"
		}
	case *tengo.Time:
		if _, ok := b.(*tengo.Time); ok {
			return true, "time"
		}
	}
	return false, ""
}

// goOrder: the comparison of the underlying Go values, -1/0/1, ok=false when not applicable
func goOrder(a, b tengo.Object) (c int, ok bool) {
	sign := func(lt, gt bool) int {
		if lt {
			return -1
		}
		if gt {
			return 1
		}
		return 0
	}
	switch x := a.(type) {
	case *tengo.Int:
		switch y := b.(type) {
		case *tengo.Int:
			return sign(x.Value < y.Value, x.Value > y.Value), true
		case *tengo.Float:
			if math.IsNaN(y.Value) {
				return 0, false
			}
			return sign(float64(x.Value) < y.Value, float64(x.Value) > y.Value), true
		case *tengo.Char:
			return sign(x.Value < int64(y.Value), x.Value > int64(y.Value)), true
		}
	case *tengo.Float:
		if math.IsNaN(x.Value) {
			return 0, false
		}
		switch y := b.(type) {
		case *tengo.Float:
			if math.IsNaN(y.Value) {
				return 0, false
			}
			return sign(x.Value < y.Value, x.Value > y.Value), true
		case *tengo.Int:
			return sign(x.Value < float64(y.Value), x.Value > float64(y.Value)), true
		}
	case *tengo.Char:
		switch y := b.(type) {
		case *tengo.Char:
			return sign(x.Value < y.Value, x.Value > y.Value), true
		case *tengo.Int:
			return sign(int64(x.Value) < y.Value, int64(x.Value) > y.Value), true
		}
	case *tengo.String:
		if y, ok := b.(*tengo.String); ok {
			return strings.Compare(x.Value, y.Value), true
		}
	case *tengo.Time:
		if y, ok := b.(*tengo.Time); ok {
			return sign(x.Value.Before(y.Value), x.Value.After(y.Value)), true
		}
	}
	return 0, false
}

type pairIn struct {
	A    string `json:"a"`
	B    string `json:"b"`
	How  string `json:"evaluated_by"`
	Note string `json:"note,omitempty"`
}

func b2i(b bool) int {
	if b {
		return rTrue
	}
	return rFalse
}

// ---------- pair enumeration ----------

func runPairs(u []val, sc *scripts) {
	n := len(u)
	meth := make([][6]int, n*n)
	scr := make([][6]int, n*n)
	var lines []string
	for i := 0; i < n; i++ {
		for j := 0; j < n; j++ {
			var note string
			meth[i*n+j], note = methodPair(u[i].o, u[j].o)
			if note != "" {
				res.Dist("pair-method-note:" + clip(note, 40))
			}
			scr[i*n+j], note = scriptPair(sc, u[i].o, u[j].o)
			if note != "" {
				res.Dist("pair-script-note:" + clip(note, 40))
			}
			if drv != nil {
				lines = append(lines, "(pair "+u[i].sx+" "+u[j].sx+")")
			}
		}
	}
	// correspondence with the model
	if drv != nil {
		ans, err := drv.Batch(lines)
		if err != nil {
			fatal(err)
		}
		for k, a := range ans {
			i, j := k/n, k%n
			res.ModelLines++
			if strings.HasPrefix(a, "unsupported") {
				res.Skipped++
				continue
			}
			for _, how := range []string{"methods", "scripts"} {
				r := meth[k]
				if how == "scripts" {
					r = scr[k]
				}
				if impl := "ok " + resStr(r); impl != a {
					res.Disagree(lib.Disagreement{Stream: "pair", Input: pairIn{A: u[i].sx, B: u[j].sx, How: how}, Model: a, Impl: impl + "  (== != < <= > >=)"})
				}
			}
		}
	}
	// the laws on the real results
	viol := func(sig string, i, j int, how, obs, exp, oracle string) {
		res.Violate(lib.Violation{Signature: sig, Stream: "laws", Input: pairIn{A: u[i].sx, B: u[j].sx, How: how, Note: u[i].name + " , " + u[j].name},
			Observed: obs, Expected: exp, Oracle: oracle})
	}
	for _, how := range []string{"methods", "scripts"} {
		tab := meth
		if how == "scripts" {
			tab = scr
		}
		for i := 0; i < n; i++ {
			for j := 0; j < n; j++ {
				r, q := tab[i*n+j], tab[j*n+i]
				a, b := u[i].o, u[j].o
				ordered, kind := claimedOrdered(a, b)
				_, related := goOrder(a, b)
				nontrivial := related || r[0] == rTrue || a.TypeName() == b.TypeName()
				res.Count("pair-"+how, u[i].sx+" "+u[j].sx, nontrivial)
				if how == "methods" {
					switch {
					case r[0] == rTrue:
						res.Dist("pairs:equal")
					case r[2] != rInvalid:
						res.Dist("pairs:ordered-unequal")
					default:
						res.Dist("pairs:unequal-no-order")
					}
					if kind != "" {
						res.Dist("pairs-claimed:" + kind)
					}
				}
				for x := 0; x < 6; x++ {
					if r[x] == rOther {
						viol("operator-result-not-bool-or-invalid-operator", i, j, how, opNames[x]+" -> "+resStr(r), "true, false or invalid operation", "every comparison yields a bool or the invalid-operation error")
					}
				}
				if r[0] != q[0] {
					viol("equality-not-symmetric", i, j, how, fmt.Sprintf("a==b is %d, b==a is %d", r[0], q[0]), "same", "== is symmetric")
				}
				if r[1] != 1-r[0] && r[0] <= 1 {
					viol("not-equal-is-not-negation-of-equal", i, j, how, fmt.Sprintf("a==b %d, a!=b %d", r[0], r[1]), "negation", "!= is the negation of ==")
				}
				if r[2] != q[4] {
					viol("less-greater-not-dual", i, j, how, fmt.Sprintf("a<b %s, b>a %s", rs(r[2]), rs(q[4])), "same", "a < b holds exactly when b > a (error on both sides alike)")
				}
				if r[3] != q[5] {
					viol("lesseq-greatereq-not-dual", i, j, how, fmt.Sprintf("a<=b %s, b>=a %s", rs(r[3]), rs(q[5])), "same", "a <= b holds exactly when b >= a (error on both sides alike)")
				}
				if ordered {
					cnt := 0
					for _, x := range []int{r[2], r[0], r[4]} {
						if x == rTrue {
							cnt++
						}
					}
					if cnt != 1 || r[2] > 1 || r[4] > 1 {
						viol("trichotomy-fails-"+strings.ReplaceAll(kind, "/", "-"), i, j, how, "< == > : "+rs(r[2])+" "+rs(r[0])+" "+rs(r[4]), "exactly one true", "exactly one of <, ==, > holds ("+kind+")")
					}
					if r[3] != b2i(r[2] == rTrue || r[0] == rTrue) {
						viol("lesseq-is-not-less-or-equal-"+strings.ReplaceAll(kind, "/", "-"), i, j, how, "<= "+rs(r[3])+" with < "+rs(r[2])+" == "+rs(r[0]), "<= = (< or ==)", "<= means < or == ("+kind+")")
					}
					if r[5] != b2i(r[4] == rTrue || r[0] == rTrue) {
						viol("greatereq-is-not-greater-or-equal-"+strings.ReplaceAll(kind, "/", "-"), i, j, how, ">= "+rs(r[5])+" with > "+rs(r[4])+" == "+rs(r[0]), ">= = (> or ==)", ">= means > or == ("+kind+")")
					}
				}
				if c, ok := goOrder(a, b); ok {
					_, ic1 := a.(*tengo.Char)
					_, ic2 := b.(*tengo.Char)
					_, ii1 := a.(*tengo.Int)
					_, ii2 := b.(*tengo.Int)
					intChar := (ic1 && ii2) || (ii1 && ic2)
					want := [6]int{b2i(c == 0), b2i(c != 0), b2i(c < 0), b2i(c <= 0), b2i(c > 0), b2i(c >= 0)}
					sig := "ordering-differs-from-underlying-values"
					if intChar {
						want[0], want[1] = rFalse, rTrue
						sig = "int-char-not-ordered-by-code-point-or-equal"
					}
					if r != want {
						viol(sig, i, j, how, resStr(r), resStr(want)+"  (== != < <= > >=)", "the operators agree with Go's comparison of the underlying values (int taken as float64 / char as its code point)")
					}
				}
				if isNaNFloat(a) || isNaNFloat(b) {
					_, n1 := a.(*tengo.Int)
					_, n2 := b.(*tengo.Int)
					_, f1 := a.(*tengo.Float)
					_, f2 := b.(*tengo.Float)
					if (n1 || f1) && (n2 || f2) {
						if r != [6]int{0, 1, 0, 0, 0, 0} {
							viol("nan-compares", i, j, how, resStr(r), "0 1 0 0 0 0", "NaN is unordered and unequal to everything")
						}
					}
				}
			}
		}
	}
	res.Exhaustive = true
}

func rs(x int) string { return []string{"false", "true", "invalid-operation", "other"}[x] }

// ---------- singletons ----------

func falsyDoc(o tengo.Object) (falsy bool, listed bool) {
	switch v := o.(type) {
	case *tengo.Int:
		return v.Value == 0, true
	case *tengo.String:
		return len(v.Value) == 0, true
	case *tengo.Float:
		return math.IsNaN(v.Value), true
	case *tengo.Bool:
		return v != tengo.TrueValue, true
	case *tengo.Char:
		return v.Value == 0, true
	case *tengo.Bytes:
		return len(v.Value) == 0, true
	case *tengo.Array:
		return len(v.Value) == 0, true
	case *tengo.ImmutableArray:
		return len(v.Value) == 0, true
	case *tengo.Map:
		return len(v.Value) == 0, true
	case *tengo.ImmutableMap:
		return len(v.Value) == 0, true
	case *tengo.Time:
		return v.Value.IsZero(), true
	case *tengo.Error:
		return true, true
	case *tengo.Undefined:
		return true, true
	}
	return false, false
}

// eqComparable: no error, function or NaN anywhere inside
func eqComparable(o tengo.Object) bool {
	switch v := o.(type) {
	case *tengo.Float:
		return !math.IsNaN(v.Value)
	case *tengo.Error, *tengo.CompiledFunction, *tengo.BuiltinFunction, *tengo.UserFunction:
		return false
	case *tengo.Array:
		for _, x := range v.Value {
			if !eqComparable(x) {
				return false
			}
		}
	case *tengo.ImmutableArray:
		for _, x := range v.Value {
			if !eqComparable(x) {
				return false
			}
		}
	case *tengo.Map:
		for _, x := range v.Value {
			if !eqComparable(x) {
				return false
			}
		}
	case *tengo.ImmutableMap:
		for _, x := range v.Value {
			if !eqComparable(x) {
				return false
			}
		}
	}
	return true
}

// expectedCopyCanon: the snapshot a deep copy must have (immutable containers become mutable, error
// objects are new ones), computed from the original by the harness.
func expectedCopyCanon(o tengo.Object) string {
	switch v := o.(type) {
	case *tengo.Error:
		return "(e 0 " + expectedCopyCanon(v.Value) + ")"
	case *tengo.Array:
		return "(a" + ecList(v.Value) + ")"
	case *tengo.ImmutableArray:
		return "(a" + ecList(v.Value) + ")"
	case *tengo.Map:
		return "(m" + ecMap(v.Value) + ")"
	case *tengo.ImmutableMap:
		return "(m" + ecMap(v.Value) + ")"
	}
	return cx(o)
}
func ecList(xs []tengo.Object) string {
	var sb strings.Builder
	for _, x := range xs {
		sb.WriteString(" " + expectedCopyCanon(x))
	}
	return sb.String()
}
func ecMap(m map[string]tengo.Object) string {
	var sb strings.Builder
	for _, k := range sortedKeys(m) {
		sb.WriteString(" (" + lib.HexS(k) + " " + expectedCopyCanon(m[k]) + ")")
	}
	return sb.String()
}

var bfName = regexp.MustCompile(`\(bf #[0-9a-f]*\)`)

// noBfName: BuiltinFunction.Copy does not keep the Name field (functions are never equal anyway);
// the replica oracle does not look at it.
func noBfName(s string) string { return bfName.ReplaceAllString(s, "(bf)") }

// rebuild: a harness-side deep clone (types kept, sharing kept) so that mutation tests never touch
// the universe.
func rebuild(o tengo.Object, memo map[tengo.Object]tengo.Object) tengo.Object {
	if c, ok := memo[o]; ok {
		return c
	}
	var c tengo.Object
	switch v := o.(type) {
	case *tengo.Array:
		n := &tengo.Array{Value: make([]tengo.Object, len(v.Value))}
		memo[o] = n
		for i, x := range v.Value {
			n.Value[i] = rebuild(x, memo)
		}
		return n
	case *tengo.ImmutableArray:
		n := &tengo.ImmutableArray{Value: make([]tengo.Object, len(v.Value))}
		memo[o] = n
		for i, x := range v.Value {
			n.Value[i] = rebuild(x, memo)
		}
		return n
	case *tengo.Map:
		n := &tengo.Map{Value: map[string]tengo.Object{}}
		memo[o] = n
		for k, x := range v.Value {
			n.Value[k] = rebuild(x, memo)
		}
		return n
	case *tengo.ImmutableMap:
		n := &tengo.ImmutableMap{Value: map[string]tengo.Object{}}
		memo[o] = n
		for k, x := range v.Value {
			n.Value[k] = rebuild(x, memo)
		}
		return n
	case *tengo.Bytes:
		c = &tengo.Bytes{Value: append([]byte{}, v.Value...)}
	case *tengo.Error:
		n := &tengo.Error{}
		memo[o] = n
		n.Value = rebuild(v.Value, memo)
		return n
	default:
		return o
	}
	memo[o] = c
	return c
}

// mutate changes every piece of mutable state reachable from o (Go-level writes; element slots of
// immutable containers are left alone, what they hold is visited).
func mutate(o tengo.Object, seen map[tengo.Object]bool) int {
	if seen[o] {
		return 0
	}
	seen[o] = true
	n := 0
	switch v := o.(type) {
	case *tengo.Array:
		for _, x := range v.Value {
			n += mutate(x, seen)
		}
		for i := range v.Value {
			v.Value[i] = &tengo.String{Value: "MUTATED"}
			n++
		}
		v.Value = append(v.Value, &tengo.String{Value: "APPENDED"})
		n++
	case *tengo.ImmutableArray:
		for _, x := range v.Value {
			n += mutate(x, seen)
		}
	case *tengo.Map:
		for _, x := range v.Value {
			n += mutate(x, seen)
		}
		for k := range v.Value {
			v.Value[k] = &tengo.String{Value: "MUTATED"}
		}
		v.Value["__added__"] = tengo.TrueValue
		n++
	case *tengo.ImmutableMap:
		for _, x := range v.Value {
			n += mutate(x, seen)
		}
	case *tengo.Bytes:
		for i := range v.Value {
			v.Value[i] ^= 0x55
			n++
		}
	case *tengo.Error:
		n += mutate(v.Value, seen)
	}
	return n
}

func hasImmutable(o tengo.Object) bool {
	switch v := o.(type) {
	case *tengo.ImmutableArray, *tengo.ImmutableMap:
		return true
	case *tengo.Array:
		for _, x := range v.Value {
			if hasImmutable(x) {
				return true
			}
		}
	case *tengo.Map:
		for _, x := range v.Value {
			if hasImmutable(x) {
				return true
			}
		}
	case *tengo.Error:
		return hasImmutable(v.Value)
	}
	return false
}

type singleIn struct {
	Op      string `json:"op"`
	A       string `json:"a"`
	Default string `json:"default,omitempty"`
	How     string `json:"evaluated_by"`
}

// documented conversion table (docs/runtime-types.md): rows = source type, cols = builtin
const (
	cX    = 'X'
	cSame = '-'
	cConv = 'c'
)

var convDoc = map[string]string{ //      string int float bool char bytes time
	"int":       "c-cccXc",
	"string":    "-cccXcX",
	"float":     "cc-cXXX",
	"bool":      "ccX-XXX",
	"char":      "ccXc-XX",
	"bytes":     "cXXcX-X",
	"array":     "cXXcXXX",
	"map":       "cXXcXXX",
	"time":      "cXXcXX-",
	"error":     "cXXcXXX",
	"undefined": "XXXcXXX",
}

var convType = map[string]string{"string": "string", "int": "int", "float": "float", "bool": "bool", "char": "char", "bytes": "bytes", "time": "time"}

func runSingles(u []val, sc *scripts) {
	dflt := &tengo.String{Value: "<the-default>"}
	dsx := cx(dflt)
	type q struct {
		line, impl, how string
		in              singleIn
	}
	var qs []q
	ask := func(line, impl, how string, in singleIn) { qs = append(qs, q{line, impl, how, in}) }
	viol := func(sig string, in singleIn, obs, exp, oracle string) {
		res.Violate(lib.Violation{Signature: sig, Stream: "table", Input: in, Observed: obs, Expected: exp, Oracle: oracle})
	}
	for _, v := range u {
		o := v.o
		// ---- truthiness
		fm := o.IsFalsy()
		so, ek := runScript(sc.not, map[string]tengo.Object{"a": o})
		res.Count("single-falsy", v.sx, true)
		ask("(falsy "+v.sx+")", "ok "+lib.B(fm), "methods", singleIn{Op: "!", A: v.sx})
		simpl := ek
		if ek == "" {
			simpl = "ok " + lib.B(so == tengo.TrueValue)
			if boolRes(so) == rOther {
				simpl = "ok " + cx(so)
			}
		}
		ask("(falsy "+v.sx+")", simpl, "scripts", singleIn{Op: "!", A: v.sx})
		if want, listed := falsyDoc(o); listed {
			res.Dist("falsy-table:" + o.TypeName())
			if fm != want {
				viol("truthiness-differs-from-documented-table", singleIn{Op: "IsFalsy", A: v.sx, How: "methods"}, lib.B(fm), lib.B(want), "docs/runtime-types.md Object.IsFalsy() table for "+o.TypeName())
			}
			if simpl != "ok "+lib.B(want) {
				viol("truthiness-differs-from-documented-table", singleIn{Op: "!", A: v.sx, How: "scripts"}, simpl, "ok "+lib.B(want), "docs/runtime-types.md Object.IsFalsy() table for "+o.TypeName())
			}
		}
		// ---- copy
		res.Count("single-copy", v.sx, true)
		cm := o.Copy()
		ask("(copy "+v.sx+")", "ok "+cx(cm), "methods", singleIn{Op: "copy", A: v.sx})
		cs, ek := runScript(sc.cpy, map[string]tengo.Object{"a": o})
		if ek != "" {
			ask("(copy "+v.sx+")", ek, "scripts", singleIn{Op: "copy", A: v.sx})
		} else {
			ask("(copy "+v.sx+")", "ok "+cx(cs), "scripts", singleIn{Op: "copy", A: v.sx})
		}
		for hi, c := range []tengo.Object{cm, cs} {
			how := []string{"methods", "scripts"}[hi]
			if c == nil {
				viol("copy-fails", singleIn{Op: "copy", A: v.sx, How: how}, "no value: "+ek, "a copy", "copy yields a value")
				continue
			}
			in := singleIn{Op: "copy", A: v.sx, How: how}
			if got, want := noBfName(cx(c)), noBfName(expectedCopyCanon(o)); got != want {
				viol("copy-is-not-a-deep-mutable-replica", in, got, want, "copy has the same contents, immutable containers become mutable ones, error objects are new")
			}
			if hasImmutable(c) {
				viol("copy-holds-an-immutable-container", in, cx(c), "only mutable containers", "copy of an immutable container is a mutable container")
			}
			if eqComparable(o) {
				res.Dist("copy-eq-checked")
				if !c.Equals(o) || !o.Equals(c) {
					viol("copy-not-equal-to-original", in, fmt.Sprintf("copy==orig %v, orig==copy %v", c.Equals(o), o.Equals(c)), "both true", "copy yields an equal value (no error/function/NaN inside)")
				}
			}
		}
		if eqComparable(o) {
			if _, ek := runScript(sc.cpyEq, map[string]tengo.Object{"a": o}); ek == "" {
				o1, o2 := sc.cpyEq.Get("out").Object(), sc.cpyEq.Get("out2").Object()
				if o1 != tengo.TrueValue || o2 != tengo.TrueValue {
					viol("copy-not-equal-to-original", singleIn{Op: "c := copy(a); c == a; a == c", A: v.sx, How: "scripts"}, cx(o1)+" "+cx(o2), "(b 1) (b 1)", "copy yields an equal value (no error/function/NaN inside)")
				}
			}
		}
		// separation: mutate the original, the copy keeps its snapshot; and the other way round
		for _, dir := range []string{"mutate-original", "mutate-copy"} {
			orig := rebuild(o, map[tengo.Object]tengo.Object{})
			cp := orig.Copy()
			if cp == nil {
				continue
			}
			victim, witness := orig, cp
			if dir == "mutate-copy" {
				victim, witness = cp, orig
			}
			before := lib.Canon(witness)
			if k := mutate(victim, map[tengo.Object]bool{}); k > 0 {
				res.Dist("copy-separation-checked")
				res.Count("single-copy-separation", dir+v.sx, true)
				if after := lib.Canon(witness); after != before {
					viol("copy-shares-mutable-state-with-original", singleIn{Op: "copy then " + dir, A: v.sx, How: "methods"}, after, before, "copy shares no mutable state with the original")
				}
			}
		}
		// ---- conversions
		row, listed := convDoc[o.TypeName()]
		for ci, k := range convNames {
			bf := builtinByName(k)
			for _, withD := range []bool{false, true} {
				if k == "bytes" {
					if n, ok := o.(*tengo.Int); ok && n.Value > 65536 && n.Value <= int64(tengo.MaxBytesLen) {
						res.Skipped++ // would allocate up to 2 GB
						continue
					}
				}
				args := []tengo.Object{o}
				in := map[string]tengo.Object{"a": o}
				line := "(conv " + k + " " + v.sx
				sin := singleIn{Op: k, A: v.sx}
				c := sc.conv1[k]
				if withD {
					args = append(args, dflt)
					in["d"] = dflt
					line += " " + dsx
					sin.Default = dsx
					c = sc.conv2[k]
				}
				line += ")"
				res.Count("single-conv", line, listed && row[ci] != cX)
				var mo tengo.Object
				var mimpl string
				func() {
					defer func() {
						if p := recover(); p != nil {
							mimpl = "panic " + panicKind(fmt.Sprint(p))
						}
					}()
					r, err := bf.Value(args...)
					if err != nil {
						mimpl = "err " + errClass(err.Error())
						return
					}
					mo, mimpl = r, "ok "+cx(r)
				}()
				so, ek := runScript(c, in)
				simpl := ek
				if ek == "" {
					simpl = "ok " + cx(so)
				}
				ask(line, mimpl, "methods", sin)
				ask(line, simpl, "scripts", sin)
				if !listed {
					continue
				}
				res.Dist("conv-cell:" + string(row[ci]))
				for hi, r := range []tengo.Object{mo, so} {
					how := []string{"methods", "scripts"}[hi]
					impl := mimpl
					if how == "scripts" {
						impl = simpl
					}
					sin.How = how
					checkConvCell(k, row[ci], o, r, impl, withD, dflt, sin, viol)
				}
			}
		}
	}
	if drv == nil {
		return
	}
	lines := make([]string, len(qs))
	for i, x := range qs {
		lines[i] = x.line
	}
	ans, err := drv.Batch(lines)
	if err != nil {
		fatal(err)
	}
	for i, a := range ans {
		res.ModelLines++
		if strings.HasPrefix(a, "unsupported") {
			res.Skipped++
			res.Dist("model-unsupported:" + strings.TrimPrefix(a, "unsupported "))
			continue
		}
		if a != qs[i].impl {
			in := qs[i].in
			in.How = qs[i].how
			res.Disagree(lib.Disagreement{Stream: "single", Input: in, Model: a, Impl: qs[i].impl})
		}
	}
}

// checkConvCell: the documented table as oracle, with Go's own functions for the cell values.
func checkConvCell(k string, cell byte, o, r tengo.Object, impl string, withD bool, dflt tengo.Object, in singleIn,
	viol func(sig string, in singleIn, obs, exp, oracle string)) {
	if k == "bool" && withD {
		if impl != "err wrongNumArgs" {
			viol("bool-accepts-a-default", in, impl, "err wrongNumArgs", "bool(x) takes one argument")
		}
		return
	}
	fallback := tengo.Object(tengo.UndefinedValue)
	if withD {
		fallback = dflt
	}
	isFallback := r == fallback
	switch cell {
	case cX:
		if _, isInt := o.(*tengo.Int); isInt && k == "bytes" {
			n := o.(*tengo.Int).Value // documented special case bytes(N)
			switch {
			case n > int64(tengo.MaxBytesLen):
				if impl != "err bytesLimit" {
					viol("bytes-N-above-limit-not-rejected", in, impl, "err bytesLimit", "bytes(N) honours MaxBytesLen")
				}
			case n >= 0:
				if y, ok := r.(*tengo.Bytes); !ok || int64(len(y.Value)) != n || strings.Trim(string(y.Value), "\x00") != "" {
					viol("bytes-N-is-not-N-zero-bytes", in, impl, fmt.Sprintf("%d zero bytes", n), "docs: bytes(N) creates a Bytes of size N")
				}
			}
			return // negative N: Go panic (O19, a C05 matter), recorded by the correspondence only
		}
		if !isFallback {
			exp := "undefined"
			if withD {
				exp = "the supplied default"
			}
			viol("conversion-table-X-cell-returns-something-else", in, impl, exp, "docs/runtime-types.md: no conversion "+o.TypeName()+" -> "+k+"; the builtin returns undefined or the supplied default")
		}
	case cSame:
		if r == nil || r.TypeName() != o.TypeName() || cx(r) != cx(o) {
			viol("conversion-of-same-type-changes-the-value", in, impl, "ok "+cx(o), "docs/runtime-types.md: '-' cell (same type: the value is kept)")
		}
	case cConv:
		want, fallbackOK := expectedConv(k, o)
		if fallbackOK {
			// the documented Go function rejects this text: the builtin returns undefined or the supplied default
			if !isFallback {
				exp := "undefined"
				if withD {
					exp = "the supplied default"
				}
				viol("conversion-of-unconvertible-text-returns-a-value", in, impl, exp, "docs/runtime-types.md cell "+o.TypeName()+" -> "+k+": strconv.ParseInt(s, 10, 64) / ParseFloat(s, 64) fails on this text")
			}
			return
		}
		if r == nil || r.TypeName() != convType[k] {
			viol("conversion-table-cell-yields-wrong-type", in, impl, "a "+k+" value", "docs/runtime-types.md: conversion "+o.TypeName()+" -> "+k+" exists")
			return
		}
		if want != "" && "ok "+want != impl {
			viol("conversion-value-differs-from-documented-function", in, impl, "ok "+want, "docs/runtime-types.md cell "+o.TypeName()+" -> "+k+" computed with Go's own function")
		}
	}
}

// expectedConv: the documented cell value via Go's own functions ("" = only the type is checked);
// fallbackOK: a string that does not parse may fall back.
func expectedConv(k string, o tengo.Object) (want string, fallbackOK bool) {
	switch k {
	case "bool":
		f, _ := falsyDoc(o)
		return "(b " + lib.B(!f) + ")", false
	case "int":
		switch v := o.(type) {
		case *tengo.Bool:
			return "(i " + lib.B(v == tengo.TrueValue) + ")", false
		case *tengo.Char:
			return cx(I(int64(v.Value))), false
		case *tengo.Float:
			return cx(I(int64(v.Value))), false // Go's conversion on this platform
		case *tengo.String:
			n, err := strconv.ParseInt(v.Value, 10, 64)
			if err != nil {
				return "", true
			}
			return cx(I(n)), false
		}
	case "float":
		switch v := o.(type) {
		case *tengo.Int:
			return cx(F(float64(v.Value))), false
		case *tengo.String:
			f, err := strconv.ParseFloat(v.Value, 64)
			if err != nil {
				return "", true
			}
			return cx(F(f)), false
		}
	case "char":
		if v, ok := o.(*tengo.Int); ok {
			return cx(C(rune(v.Value))), false
		}
	case "bytes":
		if v, ok := o.(*tengo.String); ok {
			return cx(Y([]byte(v.Value)...)), false
		}
	case "time":
		if v, ok := o.(*tengo.Int); ok {
			return cx(T(time.Unix(v.Value, 0))), false
		}
	case "string":
		switch v := o.(type) {
		case *tengo.Int:
			return cx(S(strconv.FormatInt(v.Value, 10))), false
		case *tengo.Float:
			return cx(S(strconv.FormatFloat(v.Value, 'f', -1, 64))), false
		case *tengo.Bool:
			return cx(S(strconv.FormatBool(v == tengo.TrueValue))), false
		case *tengo.Char:
			return cx(S(string(v.Value))), false
		case *tengo.Bytes:
			return cx(S(string(v.Value))), false
		case *tengo.Time:
			return cx(S(v.Value.String())), false
		}
	}
	return "", false
}

// ---------- known findings of the unchanged tree (probes) ----------

func probes() {
	// C10-K1: "copy yields an equal value" fails for error values (identity equality), functions
	// (never equal) and NaN.
	g, e, p := lib.RunScript("e := error(1)\nc1 := copy(e) == e\nf := func() {}\nc2 := copy(f) == f\nn := 0.0/0.0\nc3 := copy(n) == n\ns := e == e\n", 5*time.Second)
	res.Count("finding-probe", "C10-K1", true)
	if p == "" && e == "" && (g["c1"] != "(b 1)" || g["c2"] != "(b 1)" || g["c3"] != "(b 1)") {
		res.KnownHits = append(res.KnownHits, "C10-K1")
		res.Extra["C10-K1"] = fmt.Sprintf("copy(error(1))==e: %s, copy(f)==f: %s, copy(NaN)==NaN: %s, e==e: %s", g["c1"], g["c2"], g["c3"], g["s"])
	}
	// C10-K2: the copy of a closure shares the captured variables with the original.
	g, e, p = lib.RunScript("mk := func() { c := 0; return func() { c += 1; return c } }\nf := mk()\ng := copy(f)\ng()\ng()\nout := f()\n", 5*time.Second)
	res.Count("finding-probe", "C10-K2", true)
	if p == "" && e == "" && g["out"] != "(i 1)" {
		res.KnownHits = append(res.KnownHits, "C10-K2")
		res.Extra["C10-K2"] = "f() after two calls of copy(f): " + g["out"] + " (1 if nothing were shared)"
	}
}

func clip(s string, n int) string {
	if len(s) > n {
		return s[:n]
	}
	return s
}

func fatal(err error) {
	fmt.Fprintln(os.Stderr, "c10:", err)
	os.Exit(3)
}

func main() {
	f := lib.ParseFlags()
	if f.Replay != "" { // the universe is a function of (tier, seed): a replay re-runs that enumeration
		if b, err := os.ReadFile(f.Replay); err == nil {
			var rp struct {
				Seed uint64 `json:"seed"`
				Tier string `json:"tier"`
			}
			if json.Unmarshal(b, &rp) == nil && rp.Tier != "" {
				f.Seed, f.Tier = rp.Seed, rp.Tier
			}
		}
	}
	res = lib.NewResult("C10", f)
	res.Extra = map[string]interface{}{}
	var err error
	drv, err = lib.StartDriver(f.Driver)
	if err != nil {
		fatal(err)
	}
	defer drv.Close()
	res.DriverUsed = drv != nil
	res.Rule = "fixed universe of boundary values of every runtime type plus seed-derived random nested values and their array/immutable, int/float twins; " +
		"ALL ordered pairs x {== != < <= > >=} and all singletons x {!, copy, 7 conversion builtins with/without default}, each through the object methods and through one-statement scripts; " +
		"a pair is non-trivial when the operands are of the same type, of comparable types, or equal; distinct by canonical S-expression"
	u := buildUniverse(f)
	res.Extra["universe_size"] = len(u)
	for _, v := range u {
		res.Dist("universe:" + v.o.TypeName())
	}
	res.Sample(map[string]interface{}{"universe_head": []string{u[3].sx, u[40].sx, u[len(u)-1].sx}}, 3)
	sc := newScripts()
	runPairs(u, sc)
	runSingles(u, sc)
	runCopyHeap(u)
	probes()
	lib.RunProbes(res, "C10", f.Known)
	res.Write(f.Out)
}

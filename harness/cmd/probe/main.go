// Command probe runs the regression probes of known/fixed findings by id and prints what each observes.
//   go run -tags verif ./cmd/probe O46 O47        (no argument: all probes)
package main

import (
	"fmt"
	"os"

	"verifharness/lib"
)

func main() {
	want := map[string]bool{}
	for _, a := range os.Args[1:] {
		want[a] = true
	}
	for _, p := range lib.Probes {
		if len(want) > 0 && !want[p.ID] {
			continue
		}
		fails, obs := p.Run()
		fmt.Printf("%s %v fails=%v %s\n", p.ID, p.Props, fails, obs)
	}
}

// Command c16: searchers and correspondence for C16 (self tail calls run in constant frame space at
// any depth).
//
// Generated self-recursive functions (0-4 parameters, variadic, locals, closures capturing parameters
// per iteration, int/string/array accumulators; defined at top level or inside a function) in every
// syntactic context of the self call, each paired with a mechanically derived loop (same prelude,
// base test and update expressions, no call) that computes the expected value.
//
// Streams
//
//	tail      SEARCHER: tail forms complete at every depth, equal the loop's value, keep framesIndex at
//	          its entry value and sp bounded (probe); closures captured in iteration i return iteration
//	          i's values afterwards
//	nontail   SEARCHER: non-tail forms give the reference value at small depths, push exactly one frame
//	          per level (never reused as a tail call) and fail beyond the frame/stack capacity
//	context   CORRESPONDENCE: opcodes the compiler emits after every self CALL per context and the frame
//	          behaviour the VM shows there vs the model's context table and layout test
//	model     CORRESPONDENCE: whole runs of programs inside the model's fragment on the Lean frame model
//	          (callStep/retStep): outcome class, max framesIndex, max sp, dispatched instructions, result
//	closures-tail / closures-nontail   SEARCHER (closures.go): local closures made in every iteration
//	          (self-recursive, mutual, nested, stateful ...), kept and called after the recursion; expected
//	          values computed in Go from the definition
//	retained-tail / retained-nontail   SEARCHER (retained.go): the objects an iteration received or made (the
//	          rolled-up variadic array, array arguments, spread arrays, locals) kept by plain reference beyond
//	          the reuse of the frame; expected values computed in Go from the definition of a call
package main

import (
	"encoding/json"
	"fmt"
	"os"
	"reflect"
	"sort"
	"strconv"
	"strings"
	"time"
	"unsafe"

	"github.com/d5/tengo/v2"
	"github.com/d5/tengo/v2/parser"
	"verifharness/lib"
)

var (
	res *lib.Result
	drv *lib.Driver
)

func fatal(err error) {
	fmt.Fprintln(os.Stderr, "c16:", err)
	os.Exit(3)
}

// ---------------------------------------------------------------- specs

type Param struct {
	Name string `json:"name"`
	Kind string `json:"kind"` // int | str | arr
	Init string `json:"init"`
	Upd  string `json:"upd"`
}

type Local struct {
	Name string `json:"name"`
	Expr string `json:"expr"`
}

// Spec describes one self-recursive function and, by the same fields, its loop.
type Spec struct {
	Form     string   `json:"form"`
	Params   []Param  `json:"params"`             // Params[0] is the counter n; empty = global counter
	Variadic bool     `json:"variadic,omitempty"` // an extra trailing `...r` parameter
	VarInit  []string `json:"var_init,omitempty"`
	VarCall  string   `json:"var_call,omitempty"` // list | spread | none
	VarElems []string `json:"var_elems,omitempty"`
	Locals   []Local  `json:"locals,omitempty"`
	Base     string   `json:"base"`
	Capture  bool     `json:"capture,omitempty"`
	CapExpr  string   `json:"cap_expr,omitempty"`
	Mutate   string   `json:"mutate,omitempty"` // statement run after the capture in the same iteration
	CapForm  string   `json:"cap_form,omitempty"` // shape of the capturing closure: "" plain | selfrec | selfrec-if | mutual | nested (round 8)
	Wrap     bool     `json:"wrap,omitempty"`   // f is a local of an enclosing function (calls itself through a free variable)
	Helper   bool     `json:"helper,omitempty"` // a local is computed through a helper call
	Dead     string   `json:"dead,omitempty"`   // a no-op prefix of the body that leaves dead code for optimizeFunc to remove
	Retain   string   `json:"retain,omitempty"` // every iteration appends this (the variadic array, array parameters) to the global kp (round 10)
}

var tailForms = []string{"return", "and", "or", "and-merged", "or-merged", "ternary-false", "if-else", "paren", "in-loop", "forin", "spread", "stmt", "stmt-in-if"}
var nonTailForms = []string{"plus", "assign", "arg", "ternary-true", "stmt-then-more", "other-fn"}

// forms in which the self call is NOT in tail position in the sense of the property (its result is
// used further or statements follow); "ternary-true" is a tail position the VM merely does not optimise.
// forms whose base case stores its value in the global `res`
var formsWithRes = map[string]bool{"return": true, "and": true, "or": true, "if-else": true, "paren": true, "in-loop": true, "forin": true,
	"spread": true, "stmt": true, "stmt-in-if": true, "plus": true, "assign": true, "arg": true, "stmt-then-more": true}

var semanticallyNonTail = map[string]bool{"plus": true, "assign": true, "arg": true, "stmt-then-more": true}

func isTailForm(f string) bool {
	for _, t := range tailForms {
		if t == f {
			return true
		}
	}
	return false
}

func (s *Spec) counter() string {
	if len(s.Params) == 0 {
		return "cnt"
	}
	return s.Params[0].Name
}

func (s *Spec) names(kind string) []string {
	var out []string
	for _, p := range s.Params {
		if p.Kind == kind {
			out = append(out, p.Name)
		}
	}
	return out
}

func genSpec(r *lib.RNG, form string) *Spec {
	s := &Spec{Form: form}
	np := r.Intn(5) // 0..4 parameters
	if form == "and-merged" || form == "or-merged" || form == "ternary-false" || form == "ternary-true" ||
		form == "if-else" || form == "stmt-in-if" || form == "other-fn" || form == "spread" || form == "forin" {
		if np == 0 {
			np = 1 + r.Intn(4)
		}
	}
	kinds := []string{"int", "int", "int", "str", "arr"}
	names := []string{"n", "a", "b", "c"}
	for i := 0; i < np; i++ {
		p := Param{Name: names[i], Kind: "int"}
		if i > 0 {
			p.Kind = lib.Pick(r, kinds)
		}
		s.Params = append(s.Params, p)
	}
	if np > 0 && form != "other-fn" && r.Chance(1, 4) {
		s.Variadic = true
		s.VarCall = lib.Pick(r, []string{"list", "spread", "none"})
		if form == "spread" && s.VarCall == "spread" {
			s.VarCall = "list"
		}
		for i, k := 0, r.Intn(3); i < k; i++ {
			s.VarInit = append(s.VarInit, strconv.Itoa(r.Intn(9)))
		}
	}
	n := s.counter()
	ints := s.names("int")
	// locals
	for i, k := 0, r.Intn(3); i < k; i++ {
		l := Local{Name: fmt.Sprintf("l%d", i)}
		switch r.Intn(4) {
		case 0:
			l.Expr = n + " * 2 + 1"
		case 1:
			l.Expr = lib.Pick(r, ints2(ints, n)) + " % 5"
		case 2:
			l.Expr = "[" + n + "]"
		default:
			l.Expr = lib.Pick(r, ints2(ints, n)) + " + " + n
		}
		if np > 0 && r.Chance(1, 6) && l.Expr[0] != '[' {
			l.Expr = "id(" + l.Expr + ")"
			s.Helper = true
		}
		s.Locals = append(s.Locals, l)
	}
	intLocals := []string{}
	for _, l := range s.Locals {
		if l.Expr[0] != '[' {
			intLocals = append(intLocals, l.Name)
		}
	}
	// updates
	for i := range s.Params {
		p := &s.Params[i]
		if i == 0 {
			p.Init = "D"
			p.Upd = n + " - 1"
			continue
		}
		switch p.Kind {
		case "int":
			p.Init = strconv.Itoa(r.Intn(20))
			opts := []string{p.Name + " + " + n, p.Name + " + 1", "(" + p.Name + " * 31 + " + n + ") % 1000003", p.Name + " - " + n, n + " % 7 + " + p.Name + " % 1000"}
			if len(intLocals) > 0 {
				opts = append(opts, p.Name+" + "+lib.Pick(r, intLocals))
			}
			if len(ints) > 2 {
				opts = append(opts, lib.Pick(r, ints[1:])) // permute accumulators between positions
			}
			p.Upd = lib.Pick(r, opts)
		case "str":
			p.Init = lib.Pick(r, []string{`""`, `"s"`})
			p.Upd = lib.Pick(r, []string{n + ` % 3 == 0 ? "" : ` + p.Name + ` + "x"`, p.Name + ` == "" ? "k" : ""`, "string(" + n + " % 10)"})
		case "arr":
			p.Init = lib.Pick(r, []string{"[]", "[1]"})
			p.Upd = lib.Pick(r, []string{"[" + n + "]", "len(" + p.Name + ") < 3 ? " + p.Name + " + [" + n + "] : [" + n + "]", p.Name, "[" + n + ", len(" + p.Name + ")]"})
		}
	}
	if s.Variadic && s.VarCall == "list" {
		for i, k := 0, r.Intn(3); i < k; i++ {
			s.VarElems = append(s.VarElems, lib.Pick(r, append(ints2(ints, n), "7")))
		}
	}
	// base expression
	all := []string{}
	for _, p := range s.Params {
		all = append(all, p.Name)
	}
	if len(s.Params) == 0 {
		all = append(all, "acc")
	}
	for _, l := range s.Locals {
		all = append(all, l.Name)
	}
	if s.Variadic {
		all = append(all, "r")
	}
	switch {
	case form == "plus":
		if len(ints) > 1 {
			s.Base = ints[1]
		} else if len(s.Params) == 0 {
			s.Base = "acc"
		} else {
			s.Base = "7"
		}
	case form == "and-merged":
		s.Base = n + " != 0"
	case form == "or-merged":
		s.Base = n + " == 0"
	case r.Chance(1, 3):
		s.Base = lib.Pick(r, all)
	default:
		s.Base = "[" + strings.Join(all, ", ") + "]"
	}
	// closures capturing parameters
	if len(s.Params) > 0 && r.Chance(1, 3) {
		s.Capture = true
		s.CapExpr = "[" + strings.Join(all, ", ") + "]"
		if len(ints) > 1 && r.Bool() {
			s.Mutate = ints[1] + " = " + ints[1] + " + 1000"
		}
	}
	if form != "other-fn" && r.Chance(1, 5) {
		s.Wrap = true
	}
	// dead code before the self call: optimizeFunc removes it and must re-target every later jump
	if r.Chance(1, 2) {
		s.Dead = lib.Pick(r, []string{
			"if N < 0 { return \"neg\" } else { dz := 1 }",
			"if N < 0 { return \"neg\"; dz := 2 }",
			"for N < 0 { return \"neg\"; N = N + 1 }",
			"for { if N >= 0 { break }; return \"neg\"; dz := 3 }",
			"if N < 0 { if N < -1 { return 1 } else { return 2 }; dz := 4 }",
		})
		s.Dead = strings.ReplaceAll(s.Dead, "N", n)
	}
	// shape of the capturing closure (drawn last: the rest of the spec is what earlier rounds generated).
	// A local function that refers to itself is the one local a closure captures BEFORE it is assigned; the
	// frame a self tail call reuses still holds the previous iteration's cell for it.
	if s.Capture && r.Chance(2, 3) {
		s.CapForm = lib.Pick(r, capForms)
	}
	// the objects an iteration received (the rolled-up variadic array, array arguments) kept beyond the frame's
	// reuse by plain reference - no closure, no cell (drawn last as well)
	if keep := s.names("arr"); form != "other-fn" && (s.Variadic || len(keep) > 0) && r.Chance(1, 2) {
		if s.Variadic {
			keep = append(keep, "r")
		}
		s.Retain = "[" + strings.Join(keep, ", ") + "]"
	}
	return s
}

var capForms = []string{"selfrec", "selfrec-if", "mutual", "nested"}

// captureStmts: the statements that make this iteration's closure and keep it in the global cl. Called
// later (capCall) it returns CapExpr as seen by this iteration, after going through its own name.
func (s *Spec) captureStmts() []string {
	e := s.CapExpr
	switch s.CapForm {
	case "selfrec":
		return []string{"hh := func(k) { return k == 0 ? " + e + " : hh(k-1) }", "cl = append(cl, hh)"}
	case "selfrec-if":
		return []string{"hh := func(k) { if k == 0 { return " + e + " }; return hh(k-1) }", "cl = append(cl, hh)"}
	case "mutual":
		return []string{"hb := undefined", "ha := func(k) { return k == 0 ? " + e + " : hb(k-1) }", "hb = func(k) { return ha(k) }", "cl = append(cl, ha)"}
	case "nested":
		return []string{"hm := func() { return func(k) { return k == 0 ? " + e + " : hm()(k-1) } }", "cl = append(cl, hm())"}
	}
	return []string{"cl = append(cl, func() { return " + e + " })"}
}

func (s *Spec) capCall() string {
	if s.CapForm == "" {
		return "c()"
	}
	return "c(2)"
}

func ints2(ints []string, n string) []string {
	if len(ints) == 0 {
		return []string{n}
	}
	return ints
}

// ---------------------------------------------------------------- rendering

func (s *Spec) paramList(plain bool) string {
	var ps []string
	for _, p := range s.Params {
		ps = append(ps, p.Name)
	}
	if s.Variadic {
		if plain {
			ps = append(ps, "r")
		} else {
			ps = append(ps, "...r")
		}
	}
	return strings.Join(ps, ", ")
}

func (s *Spec) argList() []string {
	var as []string
	for _, p := range s.Params {
		as = append(as, p.Upd)
	}
	return as
}

func (s *Spec) callArgs() string {
	as := s.argList()
	if s.Variadic {
		switch s.VarCall {
		case "list":
			as = append(as, s.VarElems...)
		case "spread":
			as = append(as, "r...")
		}
	}
	return strings.Join(as, ", ")
}

func (s *Spec) selfCall() string {
	if s.Form == "spread" {
		as := s.argList()
		if s.Variadic && s.VarCall == "list" {
			as = append(as, s.VarElems...)
		}
		return "f([" + strings.Join(as, ", ") + "]...)"
	}
	return "f(" + s.callArgs() + ")"
}

func (s *Spec) baseCond() string {
	switch s.Form {
	case "and-merged":
		return "!(" + s.counter() + " != 0)"
	}
	return s.counter() + " == 0"
}

func (s *Spec) pre() string { // statements before the call of a parameterless function
	if len(s.Params) == 0 {
		return "acc = acc + cnt * 3 + 1; cnt = cnt - 1; "
	}
	return ""
}

func (s *Spec) prelude(loop bool) string {
	var b strings.Builder
	for _, l := range s.Locals {
		fmt.Fprintf(&b, "\t%s := %s\n", l.Name, l.Expr)
	}
	if s.Retain != "" {
		fmt.Fprintf(&b, "\tkp = append(kp, %s)\n", s.Retain)
	}
	if s.Capture {
		if loop {
			if s.Mutate != "" {
				fmt.Fprintf(&b, "\t%s\n", s.Mutate)
			}
			fmt.Fprintf(&b, "\trec = append(rec, %s)\n", s.CapExpr)
		} else {
			for _, st := range s.captureStmts() {
				fmt.Fprintf(&b, "\t%s\n", st)
			}
			if s.Mutate != "" {
				fmt.Fprintf(&b, "\t%s\n", s.Mutate)
			}
		}
	}
	return b.String()
}

func (s *Spec) inits(depth int, plain bool) string {
	var as []string
	for _, p := range s.Params {
		if p.Init == "D" {
			as = append(as, strconv.Itoa(depth))
		} else {
			as = append(as, p.Init)
		}
	}
	if s.Variadic {
		if plain {
			as = append(as, "["+strings.Join(s.VarInit, ", ")+"]")
		} else {
			as = append(as, s.VarInit...)
		}
	}
	return strings.Join(as, ", ")
}

func (s *Spec) globalsDecl(depth int, b *strings.Builder) {
	if len(s.Params) == 0 {
		fmt.Fprintf(b, "cnt := %d\nacc := 0\n", depth)
	}
	if s.Helper || s.Form == "arg" {
		b.WriteString("id := func(x) { return x }\n")
	}
}

// recSource is the recursive program; its observable globals are out, res, after, vals.
func (s *Spec) recSource(depth int) string {
	var b strings.Builder
	b.WriteString("res := undefined\n")
	if s.Form == "stmt-then-more" {
		b.WriteString("after := 0\n")
	}
	if s.Capture {
		b.WriteString("cl := []\n")
	}
	if s.Retain != "" {
		b.WriteString("kp := []\n")
	}
	s.globalsDecl(depth, &b)
	if s.Form == "other-fn" {
		var ns []string
		for _, p := range s.Params {
			ns = append(ns, p.Name)
		}
		fmt.Fprintf(&b, "g := func(%s) { return [%s, 99] }\n", strings.Join(ns, ", "), strings.Join(ns, ", "))
	}
	ind := ""
	if s.Wrap {
		b.WriteString("out := func() {\n")
		ind = "\t"
	}
	fmt.Fprintf(&b, "%sf := func(%s) {\n", ind, s.paramList(false))
	bc, be, call, pre := s.baseCond(), s.Base, s.selfCall(), s.pre()
	base := fmt.Sprintf("\tif %s { res = %s; return %s }\n", bc, be, be)
	body := ""
	if s.Dead != "" {
		body = "\t" + s.Dead + "\n"
	}
	body += s.prelude(false)
	switch s.Form {
	case "return":
		body += base + "\t" + pre + "return " + call + "\n"
	case "and":
		body += base + "\t" + pre + "return true && " + call + "\n"
	case "or":
		body += base + "\t" + pre + "return false || " + call + "\n"
	case "and-merged":
		body += "\treturn " + s.counter() + " != 0 && " + call + "\n"
	case "or-merged":
		body += "\treturn " + s.counter() + " == 0 || " + call + "\n"
	case "ternary-false":
		body += "\treturn " + bc + " ? " + be + " : " + call + "\n"
	case "ternary-true":
		body += "\treturn !(" + bc + ") ? " + call + " : " + be + "\n"
	case "if-else":
		body += "\tif !(" + bc + ") { return " + call + " } else { res = " + be + "; return " + be + " }\n"
	case "paren":
		body += base + "\t" + pre + "return (" + call + ")\n"
	case "in-loop":
		body += "\tfor {\n\t" + base + "\t\t" + pre + "return " + call + "\n\t}\n"
	case "forin":
		body += "\tfor x in [1] {\n\t" + base + "\t\treturn " + call + "\n\t}\n\treturn 0\n"
	case "spread":
		body += base + "\t" + pre + "return " + call + "\n"
	case "stmt":
		body += base + "\t" + pre + call + "\n"
	case "stmt-in-if":
		body += "\tif " + bc + " { res = " + be + " }\n\tif !(" + bc + ") { " + call + " }\n"
	case "plus":
		body += base + "\t" + pre + "return 1 + " + call + "\n"
	case "assign":
		body += base + "\t" + pre + "x := " + call + "\n\treturn x\n"
	case "arg":
		body += base + "\t" + pre + "return id(" + call + ")\n"
	case "stmt-then-more":
		body += base + "\t" + pre + call + "\n\tafter = after + 1\n\treturn 7\n"
	case "other-fn":
		body += base + "\treturn g(" + s.callArgs() + ")\n"
	}
	for _, ln := range strings.SplitAfter(body, "\n") {
		if ln != "" {
			b.WriteString(ind + ln)
		}
	}
	b.WriteString(ind + "}\n")
	if s.Wrap {
		fmt.Fprintf(&b, "\treturn f(%s)\n}()\n", s.inits(depth, false))
	} else {
		fmt.Fprintf(&b, "out := f(%s)\n", s.inits(depth, false))
	}
	if s.Capture {
		b.WriteString("vals := []\nfor c in cl { vals = append(vals, " + s.capCall() + ") }\n")
	}
	return b.String()
}

// loopSource is the mechanically derived loop: same prelude, base test and update expressions, all
// parameters updated simultaneously, no call. Its globals are exp, res2, rec.
func (s *Spec) loopSource(depth int) string {
	var b strings.Builder
	b.WriteString("res2 := undefined\nrec := []\n")
	if s.Retain != "" {
		b.WriteString("kp := []\n")
	}
	s.globalsDecl(depth, &b)
	fmt.Fprintf(&b, "loop := func(%s) {\n\tfor {\n", s.paramList(true))
	for _, ln := range strings.SplitAfter(s.prelude(true), "\n") {
		if ln != "" {
			b.WriteString("\t" + ln)
		}
	}
	fmt.Fprintf(&b, "\t\tif %s { res2 = %s; return %s }\n", s.baseCond(), s.Base, s.Base)
	if p := s.pre(); p != "" {
		b.WriteString("\t\t" + p + "\n")
	}
	for i, p := range s.Params {
		fmt.Fprintf(&b, "\t\tt%d := %s\n", i, p.Upd)
	}
	if s.Variadic {
		switch s.VarCall {
		case "list":
			fmt.Fprintf(&b, "\t\ttr := [%s]\n", strings.Join(s.VarElems, ", "))
		case "spread":
			b.WriteString("\t\ttr := r\n")
		default:
			b.WriteString("\t\ttr := []\n")
		}
	}
	for i, p := range s.Params {
		fmt.Fprintf(&b, "\t\t%s = t%d\n", p.Name, i)
	}
	if s.Variadic {
		b.WriteString("\t\tr = tr\n")
	}
	fmt.Fprintf(&b, "\t}\n}\nexp := loop(%s)\n", s.inits(depth, true))
	return b.String()
}

// otherFnExpected evaluates the first iteration's call of g at top level (no function involved).
func (s *Spec) otherFnSource(depth int) string {
	var b strings.Builder
	s.globalsDecl(depth, &b)
	var ns []string
	for _, p := range s.Params {
		ns = append(ns, p.Name)
	}
	fmt.Fprintf(&b, "g := func(%s) { return [%s, 99] }\n", strings.Join(ns, ", "), strings.Join(ns, ", "))
	for _, p := range s.Params {
		init := p.Init
		if init == "D" {
			init = strconv.Itoa(depth)
		}
		fmt.Fprintf(&b, "%s := %s\n", p.Name, init)
	}
	for _, l := range s.Locals {
		fmt.Fprintf(&b, "%s := %s\n", l.Name, l.Expr)
	}
	if s.Capture && s.Mutate != "" {
		b.WriteString(s.Mutate + "\n")
	}
	fmt.Fprintf(&b, "exp := g(%s)\n", s.callArgs())
	return b.String()
}

// ---------------------------------------------------------------- running

func vmStack(v *tengo.VM) *[tengo.StackSize]tengo.Object {
	f := reflect.ValueOf(v).Elem().FieldByName("stack")
	return (*[tengo.StackSize]tengo.Object)(unsafe.Pointer(f.UnsafeAddr()))
}

type site struct {
	Fn      *tengo.CompiledFunction
	IP      int
	Next    []int // the two opcode bytes after the CALL (second = -1 unless the first is POP)
	Reused  int   // times the VM reused the frame here
	Pushed  int   // times it pushed a frame
	Insts   []byte
	NumArgs int
}

type run struct {
	Out    lib.RunOutcome
	MaxFi  int
	MaxSp  int
	Sites  []*site
	CErr   string
	Comp   *lib.Compiled
	FiGrew bool
	// first activation at frame index e (e = 2: f defined at top level, e = 3: f inside a wrapper): the
	// function that ran there first, and the max framesIndex until the frame index dropped below e again
	FIns     [4]*byte
	RecMaxFi [4]int
	recEnded [4]bool
}

// timeouts: number of runs that hit the watchdog; after a few the remaining random cases are skipped
var timeouts int

func runSource(src string, watchSelf bool) *run { return runSourceT(src, watchSelf, 120*time.Second) }

func runSourceT(src string, watchSelf bool, timeout time.Duration) *run {
	r := &run{}
	if timeouts >= 6 {
		r.CErr = "not run: the watchdog fired repeatedly before"
		return r
	}
	c, err := lib.CompileSource([]byte(src), lib.CompileOpts{})
	if err != nil {
		r.CErr = err.Error()
		return r
	}
	r.Comp = c
	sites := map[string]*site{}
	var pending *site
	pendFi := 0
	var stack *[tengo.StackSize]tengo.Object
	r.Out = lib.RunBytecode(c, lib.RunOpts{Timeout: timeout, Probe: func(v *tengo.VM, fn *tengo.CompiledFunction, ip, sp, bp, fi int, a int64) {
		if fi > r.MaxFi {
			r.MaxFi = fi
		}
		if sp > r.MaxSp {
			r.MaxSp = sp
		}
		for e := 2; e <= 3; e++ {
			if r.FIns[e] == nil && fi == e && len(fn.Instructions) > 0 {
				r.FIns[e] = &fn.Instructions[0]
			}
			if r.FIns[e] != nil && !r.recEnded[e] {
				if fi < e {
					r.recEnded[e] = true
				} else if fi > r.RecMaxFi[e] {
					r.RecMaxFi[e] = fi
				}
			}
		}
		if !watchSelf {
			return
		}
		if pending != nil {
			if fi == pendFi && ip == 0 && fn == pending.Fn {
				pending.Reused++
			} else if fi == pendFi+1 {
				pending.Pushed++
			}
			pending = nil
		}
		ins := fn.Instructions
		if ip < len(ins) && ins[ip] == parser.OpCall && ip+2 < len(ins) {
			if stack == nil {
				stack = vmStack(v)
			}
			na := int(ins[ip+1])
			if k := sp - 1 - na; k >= 0 && k < tengo.StackSize {
				if cf, ok := stack[k].(*tengo.CompiledFunction); ok && cf == fn {
					key := fmt.Sprintf("%p:%d", &ins[0], ip)
					st := sites[key]
					if st == nil {
						st = &site{Fn: fn, IP: ip, Insts: ins, NumArgs: na, Next: []int{-1, -1}}
						if ip+3 < len(ins) {
							st.Next[0] = int(ins[ip+3])
							if ins[ip+3] == parser.OpPop && ip+4 < len(ins) {
								st.Next[1] = int(ins[ip+4])
							}
						}
						sites[key] = st
						r.Sites = append(r.Sites, st)
					}
					pending, pendFi = st, fi
				}
			}
		}
	}})
	return r
}

func (r *run) class() string {
	switch {
	case r.CErr != "":
		return "compile-error"
	case r.Out.TimedOut:
		return "timeout"
	case r.Out.Panic != "":
		if strings.Contains(r.Out.Panic, "index out of range") {
			return "panic-index"
		}
		return "panic"
	case r.Out.Err != "":
		if strings.Contains(r.Out.Err, "stack overflow") {
			return "stack-overflow"
		}
		return "error"
	}
	return "ok"
}

func (r *run) detail() string {
	s := r.class()
	switch s {
	case "compile-error":
		return s + ": " + r.CErr
	case "panic", "panic-index":
		return s + ": " + r.Out.Panic
	case "error", "stack-overflow":
		return s + ": " + firstLine(r.Out.Err)
	}
	return s
}

func firstLine(s string) string {
	if i := strings.Index(s, "\n"); i >= 0 {
		return s[:i]
	}
	return s
}

func clip(s string, n int) string {
	if len(s) > n {
		return s[:n] + "…"
	}
	return s
}

type caseInput struct {
	Spec   *Spec  `json:"spec"`
	Depth  int    `json:"depth"`
	Source string `json:"source"`
	Loop   string `json:"loop,omitempty"`
	Clos   *closCase `json:"clos,omitempty"` // a program of the closure family (closures.go)
	Ret    *retCase  `json:"ret,omitempty"`  // a program of the retained-values family (retained.go)
}

func mnemonic(op int) string {
	if op < 0 {
		return "-"
	}
	if op < len(parser.OpcodeNames) {
		return parser.OpcodeNames[op]
	}
	return strconv.Itoa(op)
}

// ---------------------------------------------------------------- the checks

var ctxCache = map[string]string{}

func modelCtx(form string) string {
	if drv == nil {
		return ""
	}
	if v, ok := ctxCache[form]; ok {
		return v
	}
	ans, err := drv.Ask(lib.L("c16ctx", form))
	if err != nil {
		fatal(err)
	}
	res.ModelLines++
	ctxCache[form] = ans
	return ans
}

// expected value of `out` from the loop's value
func expectedOut(s *Spec, depth int, exp string) (string, bool) {
	switch s.Form {
	case "stmt":
		if depth >= 1 {
			return "u", true
		}
		return exp, true
	case "stmt-in-if":
		return "u", true
	case "stmt-then-more":
		if depth >= 1 {
			return "(i 7)", true
		}
		return exp, true
	case "plus":
		if strings.HasPrefix(exp, "(i ") {
			k, err := strconv.ParseInt(strings.TrimSuffix(strings.TrimPrefix(exp, "(i "), ")"), 10, 64)
			if err == nil {
				return "(i " + strconv.FormatInt(k+int64(depth), 10) + ")", true
			}
		}
		return "", false
	}
	return exp, true
}

func checkSpec(s *Spec, depths []int, deep int) {
	tail := isTailForm(s.Form)
	stream := "nontail"
	if tail {
		stream = "tail"
	}
	entry := 2 // main + f
	if s.Wrap {
		entry = 3
	}
	bound := entry
	if s.Helper {
		bound++ // id(...) inside the prelude
	}
	if s.CapForm == "nested" && !s.Helper {
		bound++ // hm() inside the prelude
	}
	var sp2 int
	maxfi0 := -1
	for _, d := range depths {
		if (s.Capture || s.Retain != "") && d > 100000 {
			continue
		}
		src := s.recSource(d)
		in := caseInput{Spec: s, Depth: d, Source: src}
		// the oracle: the derived loop (or, for other-fn, the first call evaluated at top level)
		lsrc := s.loopSource(d)
		if s.Form == "other-fn" && d >= 1 {
			lsrc = s.otherFnSource(d)
		}
		in.Loop = lsrc
		lr := runSource(lsrc, false)
		if lr.class() != "ok" {
			// the generator produced something the loop itself cannot run: not a statement about tail calls
			res.Skipped++
			res.Dist("skip:loop-" + lr.class())
			if os.Getenv("C16_DEBUG") != "" {
				fmt.Fprintln(os.Stderr, "LOOP FAILED", lr.detail(), "\n"+lsrc)
			}
			return
		}
		to := 120 * time.Second
		if d <= 1000 {
			to = 20 * time.Second
		}
		rr := runSourceT(src, true, to)
		key := src
		if d <= 2000 {
			// the whole-VM model (Tengo.Model.VM; theorems Tengo.Props.VM.self_tail_call_reuses_frame, push_only_when_not_tail):
			// lock step, every dispatched instruction including the frame index
			if vc, cerr := lib.CompileSource([]byte(src), lib.CompileOpts{}); cerr == nil {
				if err := lib.VMStream(res, drv, vc, src, nil, []int64{-1}, func(int64) interface{} { return in }); err != nil {
					fatal(err)
				}
				// hypothesis of Tengo.Props.VM.tail_call_constant_space: the whole-program verifier accepts the code
				if drv != nil {
					ans, aerr := drv.Ask(lib.VMVerifyProgLine(vc.BC, tengo.GlobalsSize))
					if aerr != nil {
						fatal(aerr)
					}
					res.ModelLines++
					res.Dist("verifyprog:" + strings.Fields(ans + " -")[0])
					if fs := strings.Fields(ans); len(fs) != 3 || fs[0] != "ok" || fs[2] != "1" {
						res.Disagree(lib.Disagreement{Stream: "verifyprog", Input: in, Model: ans, Impl: "code emitted by the real compiler for a generated recursive function"})
					}
				}
			}
		}
		res.Count(stream, key, d >= 2 && len(s.Params)+len(s.Locals) >= 1)
		res.Dist("form:" + s.Form)
		res.Dist(fmt.Sprintf("depth:%d", d))
		res.Dist(fmt.Sprintf("params:%d", len(s.Params)))
		if s.Variadic {
			res.Dist("variadic:" + s.VarCall)
		}
		if s.Capture {
			res.Dist("capture")
		}
		if s.Wrap {
			res.Dist("wrapped")
		}
		res.Sample(map[string]interface{}{"form": s.Form, "depth": d, "source": src, "class": rr.class(), "max_fi": rr.MaxFi, "max_sp": rr.MaxSp}, 4)
		if rr.class() == "timeout" {
			timeouts++
			if d <= 1000 {
				// the loop finished; the recursion of the same depth did not within 20 s (it takes milliseconds)
				res.Violate(lib.Violation{Signature: "recursion-does-not-terminate:" + s.Form, Stream: stream, Input: in,
					Observed: fmt.Sprintf("still running after %v at depth %d (max framesIndex %d, max sp %d)", to, d, rr.MaxFi, rr.MaxSp),
					Expected: "terminates like the derived loop", Oracle: "derived loop terminated; watchdog"})
			} else {
				res.Skipped++
			}
			return
		}
		if rr.class() == "compile-error" {
			res.Skipped++
			res.Dist("skip:compile-error")
			if os.Getenv("C16_DEBUG") != "" {
				fmt.Fprintln(os.Stderr, "COMPILE ERROR", rr.CErr, "\n"+src)
			}
			return
		}
		exp := lr.Out.Globals["exp"]
		// ---- context: what follows the self call, what the VM did there
		if s.Form != "other-fn" {
			checkContext(s, rr, in)
		}
		if tail {
			// complete at every depth with the loop's value, constant frames, bounded sp
			if rr.class() != "ok" {
				res.Violate(lib.Violation{Signature: "tail-form-fails:" + s.Form + ":" + rr.class(), Stream: stream, Input: in,
					Observed: rr.detail() + fmt.Sprintf(" (max framesIndex %d, max sp %d)", rr.MaxFi, rr.MaxSp),
					Expected: "completes without error for every depth", Oracle: "property statement: a self call in tail position completes for every recursion depth"})
				continue
			}
			want, _ := expectedOut(s, d, exp)
			if got := rr.Out.Globals["out"]; got != want {
				res.Violate(lib.Violation{Signature: "tail-form-value-differs-from-loop:" + s.Form, Stream: stream, Input: in,
					Observed: "out = " + clip(got, 300), Expected: "out = " + clip(want, 300), Oracle: "mechanically derived loop run on the same VM (no calls)"})
			}
			if got, want := rr.Out.Globals["res"], lr.Out.Globals["res2"]; formsWithRes[s.Form] && got != want {
				res.Violate(lib.Violation{Signature: "tail-form-base-case-state-differs-from-loop:" + s.Form, Stream: stream, Input: in,
					Observed: "res = " + clip(got, 300), Expected: "res = " + clip(want, 300), Oracle: "mechanically derived loop"})
			}
			maxFi := rr.MaxFi
			if s.CapForm != "" {
				// the kept closures are called after the recursion and push frames of their own there:
				// framesIndex is bounded for as long as the first activation of f lasts
				maxFi = rr.RecMaxFi[entry]
			}
			if maxFi > bound {
				res.Violate(lib.Violation{Signature: "tail-form-grows-frames:" + s.Form, Stream: stream, Input: in,
					Observed: fmt.Sprintf("max framesIndex %d at depth %d", maxFi, d), Expected: fmt.Sprintf("<= %d at every depth", bound), Oracle: "VM probe (framesIndex at every dispatched instruction)"})
			}
			if d == 2 {
				sp2 = rr.MaxSp
			}
			if d > 2 && sp2 > 0 && (rr.MaxSp > sp2+8 || rr.MaxSp > 100) {
				res.Violate(lib.Violation{Signature: "tail-form-grows-stack:" + s.Form, Stream: stream, Input: in,
					Observed: fmt.Sprintf("max sp %d at depth %d (depth 2: %d)", rr.MaxSp, d, sp2), Expected: "sp bounded independently of the depth", Oracle: "VM probe (sp at every dispatched instruction)"})
			}
		} else {
			if rr.class() != "ok" {
				// small depths must work: they are far below both capacities
				res.Violate(lib.Violation{Signature: "nontail-form-fails-at-small-depth:" + s.Form + ":" + rr.class(), Stream: stream, Input: in,
					Observed: rr.detail(), Expected: "completes (depth far below MaxFrames and StackSize)", Oracle: "reference semantics"})
				continue
			}
			if want, ok := expectedOut(s, d, exp); ok {
				if got := rr.Out.Globals["out"]; got != want {
					res.Violate(lib.Violation{Signature: "nontail-form-value-differs-from-reference:" + s.Form, Stream: stream, Input: in,
						Observed: "out = " + clip(got, 300), Expected: "out = " + clip(want, 300), Oracle: "mechanically derived loop / direct evaluation (reference semantics of a call that is not in tail position)"})
				}
			}
			if s.Form == "stmt-then-more" {
				if got, want := rr.Out.Globals["after"], fmt.Sprintf("(i %d)", d); got != want {
					res.Violate(lib.Violation{Signature: "statements-after-self-call-skipped", Stream: stream, Input: in,
						Observed: "after = " + got, Expected: "after = " + want + " (the statement after each of the " + strconv.Itoa(d) + " calls runs)", Oracle: "reference semantics"})
				}
			}
			if formsWithRes[s.Form] {
				if got, want := rr.Out.Globals["res"], lr.Out.Globals["res2"]; got != want {
					res.Violate(lib.Violation{Signature: "nontail-form-base-case-state-differs-from-loop:" + s.Form, Stream: stream, Input: in,
						Observed: "res = " + clip(got, 300), Expected: "res = " + clip(want, 300), Oracle: "mechanically derived loop"})
				}
			}
			// one frame per level
			if s.Form == "other-fn" {
				if d >= 1 && rr.MaxFi < entry+1 {
					res.Violate(lib.Violation{Signature: "call-of-another-function-reused-the-frame", Stream: stream, Input: in,
						Observed: fmt.Sprintf("max framesIndex %d", rr.MaxFi), Expected: fmt.Sprintf(">= %d (f calls g)", entry+1), Oracle: "VM probe"})
				}
			} else {
				maxFi := rr.MaxFi
				if s.CapForm != "" {
					maxFi = rr.RecMaxFi[entry] // without the frames of the kept closures called afterwards
				}
				if d == 0 {
					maxfi0 = maxFi
				} else if maxfi0 >= 0 && semanticallyNonTail[s.Form] && maxFi != maxfi0+d {
					res.Violate(lib.Violation{Signature: "nontail-self-call-does-not-push-one-frame-per-level:" + s.Form, Stream: stream, Input: in,
						Observed: fmt.Sprintf("max framesIndex %d at depth %d (depth 0: %d)", maxFi, d, maxfi0), Expected: fmt.Sprintf("%d", maxfi0+d), Oracle: "VM probe: a self call that is not in tail position is never treated as one"})
				}
			}
		}
		// closures captured in iteration i
		if s.Capture && rr.class() == "ok" && s.Form != "other-fn" {
			if got, want := rr.Out.Globals["vals"], lr.Out.Globals["rec"]; got != want {
				res.Violate(lib.Violation{Signature: "closure-of-earlier-iteration-sees-other-values:" + s.Form, Stream: stream, Input: in,
					Observed: "vals = " + clip(got, 400), Expected: "vals = " + clip(want, 400), Oracle: "values recorded by the derived loop in each iteration"})
			}
			res.Count("capture", key, d >= 2)
		}
		// what every iteration kept of its variadic array / array parameters
		if s.Retain != "" && rr.class() == "ok" {
			if got, want := rr.Out.Globals["kp"], lr.Out.Globals["kp"]; got != want {
				res.Violate(lib.Violation{Signature: "value-kept-by-earlier-iteration-changed:" + s.Form, Stream: stream, Input: in,
					Observed: "kp = " + clip(got, 400), Expected: "kp = " + clip(want, 400), Oracle: "the derived loop keeps the same expression in each iteration (its variadic array is a new array literal per iteration)"})
			}
			res.Count("retain", key, d >= 2)
			res.Dist("retain")
		}
		// the frame model on the same bytecode
		if d <= 1000 {
			checkModel(rr, in, "model")
		}
	}
	// beyond the capacities
	if !tail && deep > 0 && semanticallyNonTail[s.Form] {
		src := s.recSource(deep)
		in := caseInput{Spec: s, Depth: deep, Source: src}
		rr := runSource(src, true)
		res.Count(stream, src, true)
		res.Dist("deep-nontail:" + rr.class())
		if rr.class() == "ok" {
			res.Violate(lib.Violation{Signature: "nontail-form-completes-beyond-capacity:" + s.Form, Stream: stream, Input: in,
				Observed: fmt.Sprintf("completed at depth %d with max framesIndex %d", deep, rr.MaxFi), Expected: "stack overflow (MaxFrames/StackSize cannot hold that many frames unless they are reused)", Oracle: "capacity argument: a self call that is not in tail position is never treated as one"})
		}
		checkContext(s, rr, in)
	}
}

func opsStr(xs []int) string {
	var out []string
	for _, x := range xs {
		if x >= 0 {
			out = append(out, strconv.Itoa(x))
		}
	}
	return "(" + strings.Join(out, " ") + ")"
}

func checkContext(s *Spec, rr *run, in caseInput) {
	entry := 2
	if s.Wrap {
		entry = 3
	}
	for _, st := range rr.Sites {
		if s.CapForm != "" && rr.FIns[entry] != nil && len(st.Insts) > 0 && &st.Insts[0] != rr.FIns[entry] {
			continue // the self call of a self-recursive capturing closure, not one of f
		}
		next := append([]int{}, st.Next...)
		res.Dist("after-call:" + s.Form + ":" + mnemonic(next[0]) + ";" + mnemonic(next[1]))
		res.Count("context", fmt.Sprintf("%s|%d|%d|%v", s.Form, next[0], next[1], st.Reused > 0), true)
		// model-independent: a call that is semantically not a tail call must never reuse the frame
		if semanticallyNonTail[s.Form] && st.Reused > 0 {
			res.Violate(lib.Violation{Signature: "nontail-self-call-reused-frame:" + s.Form, Stream: "context", Input: in,
				Observed: fmt.Sprintf("self CALL at %d followed by %s %s restarted the running frame %d time(s)", st.IP, mnemonic(next[0]), mnemonic(next[1]), st.Reused),
				Expected: "a new frame", Oracle: "VM probe: a self call that is not in tail position is never treated as one"})
		}
		if drv == nil {
			continue
		}
		// the model's layout test on the real bytes
		ans, err := drv.Ask(lib.L("c16pattern", lib.Hex(st.Insts), lib.N(st.IP+2)))
		if err != nil {
			fatal(err)
		}
		res.ModelLines++
		impl := ""
		switch {
		case st.Reused > 0 && st.Pushed == 0:
			impl = "tail"
		case st.Pushed > 0 && st.Reused == 0:
			impl = "nontail"
		case st.Pushed == 0 && st.Reused == 0:
			impl = "" // the call failed (stack overflow): nothing observed
		default:
			impl = "mixed"
		}
		if impl != "" && strings.Fields(ans)[0] != impl {
			res.Disagree(lib.Disagreement{Stream: "context", Input: in, Model: "layout test: " + ans, Impl: fmt.Sprintf("%s (reused %d, pushed %d) at CALL %d followed by %s %s", impl, st.Reused, st.Pushed, st.IP, mnemonic(next[0]), mnemonic(next[1]))})
		}
		// the model's context table
		want := modelCtx(s.Form)
		gotOps := opsStr(next)
		if want != "" && want != "unknown" {
			f := strings.SplitN(want, ") ", 2)
			wantOps := f[0] + ")"
			if s.Form == "stmt-then-more" || s.Form == "assign" {
				// only the first opcode is fixed by the context (DEFL or SETL; POP then any statement)
				if !(len(next) > 0 && strings.HasPrefix(wantOps, "("+strconv.Itoa(next[0]))) && !(s.Form == "assign" && next[0] == int(parser.OpSetLocal)) {
					res.Disagree(lib.Disagreement{Stream: "context", Input: in, Model: "after the CALL: " + want, Impl: gotOps})
				}
			} else if wantOps != gotOps {
				res.Disagree(lib.Disagreement{Stream: "context", Input: in, Model: "after the CALL: " + want, Impl: gotOps})
			}
			if impl != "" && len(f) == 2 && ((f[1] == "1") != (impl == "tail")) {
				res.Disagree(lib.Disagreement{Stream: "context", Input: in, Model: "context table: " + want, Impl: impl})
			}
		}
	}
}

// checkModel runs the compiled program on the Lean frame model and compares with the real run.
func checkModel(rr *run, in caseInput, stream string) {
	if drv == nil || rr.Comp == nil {
		return
	}
	bc := rr.Comp.BC
	fns := lib.Functions(bc)
	idx := map[*tengo.CompiledFunction]int{}
	for i, f := range fns {
		idx[f] = i
	}
	var cs, fs []string
	for _, k := range bc.Constants {
		switch v := k.(type) {
		case *tengo.Int:
			cs = append(cs, "(i "+lib.I(v.Value)+")")
		case *tengo.CompiledFunction:
			cs = append(cs, "(fn "+lib.N(idx[v])+")")
		default:
			cs = append(cs, "(x)")
		}
	}
	for _, f := range fns {
		fs = append(fs, lib.L(lib.N(f.NumParameters), lib.N(f.NumLocals), lib.B(f.VarArgs), lib.Hex(f.Instructions)))
	}
	names := rr.Comp.Symbols.Names()
	gidx := map[string]int{}
	ng := 0
	for _, n := range names {
		if sym, _, ok := rr.Comp.Symbols.Resolve(n, false); ok && sym.Scope == tengo.ScopeGlobal {
			gidx[n] = sym.Index
			if sym.Index+1 > ng {
				ng = sym.Index + 1
			}
		}
	}
	fuel := rr.Out.Steps + 10
	ans, err := drv.Ask(lib.L("c16run", lib.N(tengo.MaxFrames), lib.N(tengo.StackSize), lib.N(ng), lib.N(fuel),
		"("+strings.Join(cs, " ")+")", "("+strings.Join(fs, " ")+")"))
	if err != nil {
		fatal(err)
	}
	res.ModelLines++
	w := strings.Fields(ans)
	if len(w) == 0 || w[0] == "unsupported" || w[0] == "model-timeout" {
		res.Skipped++
		res.Dist("model:unsupported")
		return
	}
	var impl string
	tailS := fmt.Sprintf(" %d %d %d", rr.MaxFi, rr.MaxSp, rr.Out.Steps)
	switch rr.class() {
	case "ok":
		gs := make([]string, ng)
		for i := range gs {
			gs[i] = "u"
		}
		for n, i := range gidx {
			if v, ok := rr.Out.Globals[n]; ok {
				gs[i] = v
			}
		}
		impl = "ok" + tailS + " (" + strings.Join(gs, " ") + ")"
	case "stack-overflow":
		impl = "err stack-overflow" + tailS
	case "panic-index":
		impl = "panic" + tailS
	default:
		res.Skipped++
		return
	}
	res.Count(stream, in.Source, true)
	res.Dist("model:" + w[0])
	if ans != impl {
		res.Disagree(lib.Disagreement{Stream: stream, Input: in, Model: clip(ans, 400), Impl: clip(impl, 400)})
	}
}

// ---------------------------------------------------------------- fixed cases

// closedForms: recursive programs whose value is known in closed form (oracle independent of Tengo).
func closedForms(depths []int) {
	for _, d := range depths {
		D := int64(d)
		type cf = struct {
			name, src, want string
			frames        int // bound on framesIndex (0 = not checked)
		}
		cases := []cf{
			{"sum", fmt.Sprintf("f := func(n, a) { if n == 0 { return a }; return f(n-1, a+n) }\nout := f(%d, 0)\n", d), fmt.Sprintf("(i %d)", D*(D+1)/2), 2},
			{"count-or", fmt.Sprintf("c := 0\nf := func(n) { c = c + 1; return n == 0 || f(n-1) }\nout := [f(%d), c]\n", d), fmt.Sprintf("(a (b 1) (i %d))", D+1), 2},
			{"count-and", fmt.Sprintf("c := 0\nf := func(n) { c = c + 1; return n != 0 && f(n-1) }\nout := [f(%d), c]\n", d), fmt.Sprintf("(a (b 0) (i %d))", D+1), 2},
			{"swap", fmt.Sprintf("f := func(n, a, b) { if n == 0 { return [a, b] }; return f(n-1, b, a) }\nout := f(%d, 1, 2)\n", d), map[bool]string{true: "(a (i 1) (i 2))", false: "(a (i 2) (i 1))"}[d%2 == 0], 2},
			{"shift3", fmt.Sprintf("f := func(n, a, b, c) { if n == 0 { return [a, b, c] }; return f(n-1, b, c, a) }\nout := f(%d, 1, 2, 3)\n", d), [3]string{"(a (i 1) (i 2) (i 3))", "(a (i 2) (i 3) (i 1))", "(a (i 3) (i 1) (i 2))"}[d%3], 2},
			{"variadic-count", fmt.Sprintf("f := func(n, ...r) { if n == 0 { return len(r) }; return f(n-1, n, n) }\nout := f(%d)\n", d), map[bool]string{true: "(i 0)", false: "(i 2)"}[d == 0], 2},
			{"or-after-dead-code", fmt.Sprintf("f := func(n, k) { if n < 0 { return \"neg\" } else { k += 1 }; return n == 0 || f(n-1, k) }\nout := f(%d, 0)\n", d), "(b 1)", 2},
			{"and-after-dead-code", fmt.Sprintf("f := func(n, k) { if n < 0 { return \"neg\"; k = 2 }; return n != 0 && f(n-1, k) }\nout := f(%d, 0)\n", d), "(b 0)", 2},
			{"or-truthy-left-after-dead-code", fmt.Sprintf("f := func(n, k) { for n < 0 { return 0; n = 1 }; if n == 0 { return k }; return (n %% 2 == 0 && k) || f(n-1, k) }\nout := [f(%d, 7), f(%d, 0)]\n", d, d),
				map[bool]string{true: "(a (i 7) (i 0))", false: fmt.Sprintf("(a (i 7) (i 0))")}[d < 2], 2},
			{"o17-stmt", fmt.Sprintf("f := func(n) { if n == 0 { return 5 }; f(n-1) }\nout := f(%d)\n", d), map[bool]string{true: "(i 5)", false: "u"}[d == 0], 2},
			{"o17-alternating", fmt.Sprintf("f := func(n, k) { if n == 0 { return 5 }; if k { return f(n-1, false) }; f(n-1, true) }\nout := [f(%d, true), f(%d, false)]\n", d, d),
				[3]string{"(a (i 5) (i 5))", "(a (i 5) u)", "(a u u)"}[min(d, 2)], 2},
			{"discard-then-return", fmt.Sprintf("f := func(n, k) { if n == 0 { return 5 }; if k == 0 { return f(n-1, 1) }; f(n-1, 0) }\nout := f(%d, 1)\n", d), map[bool]string{true: "(i 5)", false: "u"}[d == 0], 2},
		}
		// the discard mark belongs to the FRAME: a nested compiled call made by the reused frame (in the last
		// iteration, before it returns a value) must not clear it (C16-m9: the mark kept in one VM field)
		cases = append(cases,
			cf{"discard-survives-nested-call", fmt.Sprintf("seven := func() { return 7 }\nf := func(n) { if n == 0 { return seven() }; f(n-1) }\nout := f(%d)\n", d), map[bool]string{true: "(i 7)", false: "u"}[d == 0], 3},
			cf{"discard-survives-nested-call-value", fmt.Sprintf("id := func(x) { return x }\nf := func(n) { if n == 0 { v := id(9); return v }; f(n-1) }\nout := f(%d)\n", d), map[bool]string{true: "(i 9)", false: "u"}[d == 0], 3},
			cf{"discard-survives-nested-closure-call", fmt.Sprintf("f := func(n) { g := func() { return n + 100 }; if n == 0 { return g() }; f(n-1) }\nout := f(%d)\n", d), map[bool]string{true: "(i 100)", false: "u"}[d == 0], 3},
			cf{"discard-survives-nontail-self-call", fmt.Sprintf("f := func(n, k) { if n == 0 { if k { return 1 + f(0, false) }; return 4 }; f(n-1, k) }\nout := f(%d, true)\n", d), map[bool]string{true: "(i 5)", false: "u"}[d == 0], 3})
		if d == 1 {
			// the discard mark belongs to one activation: a later, independent activation returns its value
			cases = append(cases, cf{"discard-mark-not-sticky",
				"f := func(n, k) { if n == 0 { return 5 }; if k { f(n-1, k) }; if !k { return f(n-1, k) } }\na := f(3, true)\nb := f(3, false)\nc := f(2, true)\nout := [a, b, c]\n", "(a u (i 5) u)", 0})
		}
		for _, c := range cases {
			to := 120 * time.Second
			if d <= 1000 {
				to = 20 * time.Second
			}
			rr := runSourceT(c.src, true, to)
			res.Count("tail", c.src, true)
			res.Dist("closed-form:" + c.name)
			in := caseInput{Depth: d, Source: c.src}
			if rr.class() == "timeout" {
				timeouts++
				if d <= 1000 {
					res.Violate(lib.Violation{Signature: "recursion-does-not-terminate:closed-form-" + c.name, Stream: "tail", Input: in,
						Observed: fmt.Sprintf("still running after %v", to), Expected: "out = " + c.want, Oracle: "closed form; watchdog"})
				} else {
					res.Skipped++
				}
				continue
			}
			if rr.class() != "ok" {
				res.Violate(lib.Violation{Signature: "tail-form-fails:closed-form-" + c.name + ":" + rr.class(), Stream: "tail", Input: in,
					Observed: rr.detail(), Expected: "out = " + c.want, Oracle: "closed form"})
				continue
			}
			if got := rr.Out.Globals["out"]; got != c.want {
				res.Violate(lib.Violation{Signature: "tail-form-value-differs-from-closed-form:" + c.name, Stream: "tail", Input: in,
					Observed: "out = " + clip(got, 200), Expected: "out = " + c.want, Oracle: "closed form computed in Go"})
			}
			if c.frames > 0 && rr.MaxFi > c.frames {
				res.Violate(lib.Violation{Signature: "tail-form-grows-frames:closed-form-" + c.name, Stream: "tail", Input: in,
					Observed: fmt.Sprintf("max framesIndex %d", rr.MaxFi), Expected: fmt.Sprintf("<= %d", c.frames), Oracle: "VM probe"})
			}
			if d <= 1000 {
				checkModel(rr, in, "model")
			}
		}
	}
}

// frameBoundary: a non-tail recursion that needs one stack slot per frame reaches MaxFrames before
// StackSize; the model predicts the exact depth at which `stack overflow` is reported.
func frameBoundary() {
	for _, d := range []int{tengo.MaxFrames - 3, tengo.MaxFrames - 2, tengo.MaxFrames - 1, tengo.MaxFrames, tengo.MaxFrames + 50} {
		src := fmt.Sprintf("cnt := %d\nf := func() { cnt = cnt - 1; return cnt > 0 ? f() : 5 }\nout := f()\n", d)
		rr := runSource(src, true)
		in := caseInput{Depth: d, Source: src}
		res.Count("nontail", src, true)
		res.Dist("frame-boundary:" + rr.class())
		if rr.class() == "ok" && rr.MaxFi != d+1 {
			res.Violate(lib.Violation{Signature: "nontail-self-call-does-not-push-one-frame-per-level:boundary", Stream: "nontail", Input: in,
				Observed: fmt.Sprintf("max framesIndex %d", rr.MaxFi), Expected: strconv.Itoa(d + 1), Oracle: "VM probe"})
		}
		if rr.class() == "ok" && d+1 > tengo.MaxFrames {
			res.Violate(lib.Violation{Signature: "more-frames-than-MaxFrames", Stream: "nontail", Input: in,
				Observed: fmt.Sprintf("completed with max framesIndex %d", rr.MaxFi), Expected: "stack overflow", Oracle: "MaxFrames"})
		}
		checkModel(rr, in, "model")
	}
}

// lastFrame: a tail-recursive function entered when (almost) all MaxFrames frames are in use. A self tail
// call needs no new frame, so whenever a closed-form leaf (one call, one frame) fits at that nesting depth
// the tail-recursive leaf must complete too, at any recursion depth, with the loop's value.
func lastFrame(leafDepths []int) {
	const tmpl = "d := %d\nleaf := func(n, acc) {\n\t%s\n}\nnest := func() {\n\tif d == 0 { return leaf(%d, 0) }\n\td--\n\treturn nest() + 1\n}\nout := nest()\n"
	leaves := []struct{ name, body string }{
		{"return", "if n == 0 { return acc }\n\treturn leaf(n-1, acc+n)"},
		{"or", "if n == 0 { return acc }\n\treturn false || leaf(n-1, acc+n)"},
		{"ternary", "return n == 0 ? acc : leaf(n-1, acc+n)"},
	}
	for depth := tengo.MaxFrames - 6; depth <= tengo.MaxFrames+1; depth++ {
		for li, n := range leafDepths {
			closed := runSourceT(fmt.Sprintf(tmpl, depth, "return n*(n+1)/2 + acc", n), false, 60*time.Second)
			lf := leaves[(depth+li)%len(leaves)]
			src := fmt.Sprintf(tmpl, depth, lf.body, n)
			rr := runSourceT(src, true, 60*time.Second)
			in := caseInput{Depth: depth, Source: src}
			res.Count("tail", src, true)
			res.Dist("last-frame:" + closed.class() + "/" + rr.class())
			if closed.class() == "timeout" || rr.class() == "timeout" {
				res.Skipped++
				continue
			}
			if closed.class() == "ok" {
				want := closed.Out.Globals["out"]
				if rr.class() != "ok" {
					res.Violate(lib.Violation{Signature: "tail-recursion-fails-in-last-frames:" + rr.class(), Stream: "tail", Input: in,
						Observed: rr.detail() + fmt.Sprintf(" (nesting %d, max framesIndex %d, max sp %d)", depth, rr.MaxFi, rr.MaxSp),
						Expected: "out = " + want + " (a leaf that needs one frame fits at this nesting depth; a self tail call needs no further frame)",
						Oracle: "the same nesting with a closed-form leaf (one call, one frame) succeeds"})
				} else if got := rr.Out.Globals["out"]; got != want {
					res.Violate(lib.Violation{Signature: "tail-recursion-in-last-frames-value-differs", Stream: "tail", Input: in,
						Observed: "out = " + got, Expected: "out = " + want, Oracle: "closed-form leaf at the same nesting depth"})
				} else if rr.MaxFi != closed.MaxFi {
					res.Violate(lib.Violation{Signature: "tail-form-grows-frames:last-frames", Stream: "tail", Input: in,
						Observed: fmt.Sprintf("max framesIndex %d", rr.MaxFi), Expected: strconv.Itoa(closed.MaxFi), Oracle: "VM probe, closed-form leaf twin"})
				}
			} else if rr.class() == "ok" {
				res.Violate(lib.Violation{Signature: "more-frames-than-MaxFrames", Stream: "tail", Input: in,
					Observed: fmt.Sprintf("completed with max framesIndex %d", rr.MaxFi), Expected: closed.detail(), Oracle: "closed-form leaf at the same nesting depth fails"})
			}
			if n <= 1000 {
				checkModel(rr, in, "model")
			}
		}
	}
}

// ---------------------------------------------------------------- main

func main() {
	f := lib.ParseFlags()
	res = lib.NewResult("C16", f)
	var err error
	drv, err = lib.StartDriver(f.Driver)
	if err != nil {
		fatal(err)
	}
	if drv != nil {
		drv.Timeout = 120 * time.Second
	}
	defer drv.Close()
	res.DriverUsed = drv != nil
	res.Rule = "self-recursive functions from a generator over (context of the self call: 13 tail layouts, 6 non-tail ones) × (0-4 parameters, variadic list/spread/none, locals, helper calls, int/string/array accumulators, closures capturing parameters with and without later assignment, definition at top level or inside a function) × depths; " +
		"each paired with a mechanically derived loop; non-trivial = depth >= 2 and at least one parameter or local; distinct by program text; " +
		"closure family (closures.go): 17 call forms × 23 kinds of local closures made in every iteration (plain, self-recursive, mutually recursive, nested, stateful, in an inner loop/block, map field) × 5 ways of keeping them × depths 3-5 / 1000-1100 / 10^5, queried after the recursion, expected values computed in Go from the definition; " +
		"retained-values family (retained.go): 19 call forms × 12 ways of giving the variadic part of the next call × 6 subjects (variadic array, array parameter, previous variadic array passed on, spread local, local array, int) × 7 wrappers × 5 ways of keeping them × in-place assignment × depths 3-7 / 1000-2500 / 10^5, every kept value + a checksum over all of them computed in Go"
	if f.Replay != "" {
		replay(f.Replay)
		res.Write(f.Out)
		return
	}
	lib.RunProbes(res, "C16", f.Known)

	small := []int{0, 1, 2, 5, 30}
	tailDepths := []int{1, 2, 1000, 100000}
	deepNonTail := 100000
	closedDepths := []int{0, 1, 2, 3, 1000, 100000}
	if f.Thorough() {
		closedDepths = append(closedDepths, 1000000)
	}
	if os.Getenv("C16_ONLY") == "closures" { // debugging aid: only the closure family
		closureFamilies(f.Seed, f.Thorough())
		res.Write(f.Out)
		return
	}
	if os.Getenv("C16_ONLY") == "retained" { // debugging aid: only the retained-values family
		retainedFamilies(f.Seed, f.Thorough())
		res.Write(f.Out)
		return
	}
	if os.Getenv("C16_ONLY") != "random" { // debugging aid: only the generator
		closedForms(closedDepths)
		frameBoundary()
		lastFrame([]int{3, 1000, 50000})
		closureFamilies(f.Seed, f.Thorough())
		retainedFamilies(f.Seed, f.Thorough())
	}

	rng := lib.NewRNG(f.Seed)
	n := f.Scale(150, 1500)
	for i := 0; i < n; i++ {
		r := rng.Fork()
		var form string
		if i%3 == 2 {
			form = nonTailForms[(i/3)%len(nonTailForms)]
		} else {
			form = tailForms[(i-i/3)%len(tailForms)]
		}
		s := genSpec(r, form)
		if timeouts >= 4 {
			res.Skipped++
			res.Dist("skip:after-timeouts")
			continue
		}
		if isTailForm(form) {
			ds := tailDepths
			if f.Thorough() && i%40 == 0 {
				ds = append(append([]int{}, tailDepths...), 1000000)
			}
			if !f.Thorough() && i%4 != 0 {
				ds = []int{1, 2, 1000, 20000}
			}
			checkSpec(s, ds, 0)
		} else {
			checkSpec(s, small, deepNonTail)
		}
	}
	keys := make([]string, 0, len(ctxCache))
	for k := range ctxCache {
		keys = append(keys, k)
	}
	sort.Strings(keys)
	res.Extra = map[string]interface{}{"model_context_table": ctxCache, "contexts": keys}
	res.Write(f.Out)
}

func replay(path string) {
	b, err := os.ReadFile(path)
	if err != nil {
		fatal(err)
	}
	var rp struct {
		Violations []struct {
			Input caseInput `json:"input"`
		} `json:"violations"`
		Disagreements []struct {
			Input caseInput `json:"input"`
		} `json:"disagreements"`
	}
	if err := json.Unmarshal(b, &rp); err != nil {
		fatal(err)
	}
	seen := map[string]bool{}
	one := func(in caseInput) {
		if seen[in.Source] {
			return
		}
		seen[in.Source] = true
		if in.Clos != nil {
			runClosCase(*in.Clos)
			return
		}
		if in.Ret != nil {
			runRetCase(*in.Ret)
			return
		}
		if in.Spec != nil {
			ds := []int{0, 1, 2, in.Depth}
			if isTailForm(in.Spec.Form) {
				checkSpec(in.Spec, ds, 0)
			} else if in.Depth > 1000 {
				checkSpec(in.Spec, []int{0, 1, 2}, in.Depth)
			} else {
				checkSpec(in.Spec, ds, 0)
			}
			return
		}
		closedForms([]int{in.Depth})
		frameBoundary()
		lastFrame([]int{3, 1000})
	}
	for _, v := range rp.Violations {
		one(v.Input)
	}
	for _, v := range rp.Disagreements {
		one(v.Input)
	}
	lib.RunProbes(res, "C16", "")
}

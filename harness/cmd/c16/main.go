package main

import (
	"fmt"
	"github.com/d5/tengo/v2"
	"github.com/d5/tengo/v2/parser"
	"verifharness/lib"
)

func main() {
	srcs := []string{
		"f := func(n) { if n == 0 { return 5 }; return f(n-1) }\nout := f(D)\n",
		"f := func(n) { return n == 0 || f(n-1) }\nout := f(D)\n",
		"f := func(n) { return n != 0 && f(n-1) }\nout := f(D)\n",
		"f := func(n) { if n == 0 { return 5 }; f(n-1) }\nout := f(D)\n",
		"f := func(n) { if n == 0 { return 5 }; return 1 + f(n-1) }\nout := f(D)\n",
		"f := func(n) { if n == 0 { return 5 }; x := f(n-1); return x }\nout := f(D)\n",
		"f := func(n) { return n == 0 ? 5 : f(n-1) }\nout := f(D)\n",
		"f := func(n) { return n != 0 ? f(n-1) : 5 }\nout := f(D)\n",
		"g := func(x) { return x }\nf := func(n) { if n == 0 { return 5 }; return g(f(n-1)) }\nout := f(D)\n",
		"f := func(n) { if n == 0 { return 5 }; return (f(n-1)) }\nout := f(D)\n",
		"f := func(n) { if n != 0 { f(n-1) } }\nout := f(D)\n",
		"f := func(n) { if n != 0 { return f(n-1) } else { return 5 } }\nout := f(D)\n",
		"f := func(n) { for { if n == 0 { return 5 }; return f(n-1) } }\nout := f(D)\n",
	}
	for _, s := range srcs {
		for _, d := range []string{"3", "700", "1022", "1023", "100000"} {
			src := ""
			for i := 0; i < len(s); i++ {
				if s[i] == 'D' {
					src += d
				} else {
					src += string(s[i])
				}
			}
			c, err := lib.CompileSource([]byte(src), lib.CompileOpts{})
			if err != nil {
				fmt.Println("ERR", err)
				continue
			}
			if d == "3" {
				fmt.Println(s)
				for _, f := range lib.Functions(c.BC)[1:] {
					for _, l := range tengo.FormatInstructions(f.Instructions, 0) {
						fmt.Println("   ", l)
					}
				}
				_ = parser.OpCall
			}
			maxfi, maxsp := 0, 0
			out := lib.RunBytecode(c, lib.RunOpts{Probe: func(v *tengo.VM, fn *tengo.CompiledFunction, ip, sp, bp, fi int, a int64) {
				if fi > maxfi {
					maxfi = fi
				}
				if sp > maxsp {
					maxsp = sp
				}
			}})
			o := out.String()
			if len(o) > 100 {
				o = o[:100]
			}
			fmt.Printf("  D=%s maxfi=%d maxsp=%d steps=%d %q\n", d, maxfi, maxsp, out.Steps, o)
		}
	}
}

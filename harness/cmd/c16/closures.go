// Closures made inside the iterations of a self-recursive function (round 8).
//
// "parameters captured by closures in an earlier iteration keep the values of that iteration": a frame
// that a self tail call reuses in place keeps, in every local slot that is not a parameter, whatever the
// previous iteration left there - including the boxed cell (*ObjectPtr) of a local that a closure of the
// previous iteration captured. Whether the next iteration gets a cell of its own depends on the compiler
// (DEFL replaces the slot, SETL writes through the cell, the NULL;DEFL reset in front of a self-recursive
// local function literal) and on the VM (GETLP boxing); none of that is visible through plain parameter
// capture. The family below makes every iteration define local closures - plain, self-recursive (through
// ?:, if/return, ||, &&, non-tail), mutually recursive, nested, stateful (counter, setter/getter pair),
// defined inside an inner loop, stored in a map field - that capture the parameters and locals of THAT
// iteration, keeps them (accumulator argument, assigned accumulator, global array, map parameter, global
// map) and calls them after the recursion has finished, also with arguments that make them go through
// their own name.
//
// Oracle: the expected value of every query is computed here in Go from the definition (the closure of
// iteration i sees n_i, a_i, l_i of iteration i and the state of its own cells only). No loop is run on
// the VM for it: a loop body that is executed repeatedly in one frame recycles cells in exactly the same
// way, so a loop on the same VM would agree with a broken recursion.
//
// Every tail form has non-tail twins (fresh frame per level) that must give the same values.
package main

import (
	"fmt"
	"strconv"
	"strings"
	"time"

	"github.com/d5/tengo/v2"
	"verifharness/lib"
)

// closCase identifies one program of the family (enough to regenerate it on replay).
type closCase struct {
	Form    string `json:"form"`
	Kind    string `json:"kind"`
	Storage string `json:"storage"` // acc-arg | acc-assign | garr | mparam | gmap
	Depth   int    `json:"depth"`
	Wrap    bool   `json:"wrap,omitempty"`
	Upd     int    `json:"upd"` // update rule of the int accumulator a
}

type closForm struct {
	name   string
	tail   bool
	gOnly  bool               // the function's value is not the container: needs global storage
	body   string             // $P prelude, $B base value, $C self call
	after  bool               // counts the statements after the call in the global `after`
	pushes bool               // non-tail: one frame per level is asserted
	ret    func(d int) string // value of f(D, ...) with global storage
}

func retDone(int) string { return "(s " + lib.HexS("done") + ")" }

var closForms = []closForm{
	{name: "return", tail: true, body: "$P\nif n == 0 { return $B }\nreturn $C", ret: retDone},
	{name: "base-first", tail: true, body: "if n == 0 { return $B }\n$P\nreturn $C", ret: retDone},
	{name: "or", tail: true, body: "$P\nreturn (n == 0 && $B) || $C", ret: retDone},
	{name: "and", tail: true, body: "$P\nif n == 0 { return $B }\nreturn true && $C", ret: retDone},
	{name: "ternary", tail: true, body: "$P\nreturn n == 0 ? $B : $C", ret: retDone},
	{name: "if-else-block", tail: true, body: "if n != 0 {\n$P\nreturn $C\n} else {\nreturn $B\n}", ret: retDone},
	{name: "in-loop", tail: true, body: "for {\n$P\nif n == 0 { return $B }\nreturn $C\n}", ret: retDone},
	{name: "paren", tail: true, body: "$P\nif n == 0 { return $B }\nreturn ($C)", ret: retDone},
	{name: "spread", tail: true, body: "$P\nif n == 0 { return $B }\nreturn $C", ret: retDone},
	{name: "and-merged", tail: true, gOnly: true, body: "$P\nreturn n != 0 && $C", ret: func(int) string { return "(b 0)" }},
	{name: "or-merged", tail: true, gOnly: true, body: "$P\nreturn n == 0 || $C", ret: func(int) string { return "(b 1)" }},
	{name: "stmt", tail: true, gOnly: true, body: "$P\nif n == 0 { return $B }\n$C", ret: func(d int) string {
		if d == 0 {
			return retDone(0)
		}
		return "u"
	}},
	{name: "stmt-in-if", tail: true, gOnly: true, body: "$P\nif n != 0 { $C }", ret: func(int) string { return "u" }},
	// controls: the self call is not in tail position (or, ternary-true, is one the VM does not optimise)
	{name: "assign", body: "$P\nif n == 0 { return $B }\nrr := $C\nreturn rr", pushes: true, ret: retDone},
	{name: "arg", body: "$P\nif n == 0 { return $B }\nreturn id($C)", pushes: true, ret: retDone},
	{name: "ternary-true", body: "$P\nreturn n != 0 ? $C : $B", ret: retDone},
	{name: "stmt-then-more", gOnly: true, after: true, pushes: true, body: "$P\nif n == 0 { return $B }\n$C\nafter += 1\nreturn 7", ret: func(d int) string {
		if d == 0 {
			return retDone(0)
		}
		return "(i 7)"
	}},
}

// iteration i of the recursion: the values its closures must see
type closIter struct {
	n, a, l int64 // a: after the kind's mutation (closures share the cell with the variable)
}

type closQuery struct {
	expr string // $F = the object stored by the iteration, $J = position of the iteration among the queried ones
	want func(it closIter, j int) string
}

type closKind struct {
	name   string
	def    string      // statements of one iteration; may use n, a, l
	x      string      // the expression that is stored
	mut    int64       // `a = a + mut` after the definitions (0: none)
	q1, q2 []closQuery // q2 runs after q1 has run for every queried iteration (stateful closures)
}

func ci(x int64) string { return "(i " + strconv.FormatInt(x, 10) + ")" }
func ca(xs ...string) string {
	if len(xs) == 0 {
		return "(a)"
	}
	return "(a " + strings.Join(xs, " ") + ")"
}
func cs(s string) string { return "(s " + lib.HexS(s) + ")" }

func qs(want func(it closIter, j int) string, exprs ...string) []closQuery {
	var out []closQuery
	for _, e := range exprs {
		out = append(out, closQuery{e, want})
	}
	return out
}

var closKinds = []closKind{
	{name: "plain", def: "g := func() { return [n, a, l] }", x: "g",
		q1: qs(func(it closIter, _ int) string { return ca(ci(it.n), ci(it.a), ci(it.l)) }, "$F()")},
	{name: "selfrec-ternary", def: "nth := func(k) { return k == 0 ? [n, a] : nth(k-1) }", x: "nth",
		q1: qs(func(it closIter, _ int) string { return ca(ci(it.n), ci(it.a)) }, "$F(0)", "$F(1)", "$F(2)", "$F(7)")},
	{name: "selfrec-if-deep", def: "nth := func(k) { if k == 0 { return n + l }; return nth(k-1) }", x: "nth",
		q1: qs(func(it closIter, _ int) string { return ci(it.n + it.l) }, "$F(0)", "$F(3)", "$F(2500)")},
	{name: "selfrec-nontail", def: "sum := func(k) { if k == 0 { return n }; return 1 + sum(k-1) }", x: "sum",
		q1: []closQuery{
			{"$F(0)", func(it closIter, _ int) string { return ci(it.n) }},
			{"$F(1)", func(it closIter, _ int) string { return ci(it.n + 1) }},
			{"$F(25)", func(it closIter, _ int) string { return ci(it.n + 25) }}}},
	{name: "selfrec-or", def: "w := func(k) { return (k == 0 && [n, l]) || w(k-1) }", x: "w",
		q1: qs(func(it closIter, _ int) string { return ca(ci(it.n), ci(it.l)) }, "$F(0)", "$F(4)")},
	{name: "selfrec-and", def: "w := func(k) { if k == 0 { return [a] }; return true && w(k-1) }", x: "w",
		q1: qs(func(it closIter, _ int) string { return ca(ci(it.a)) }, "$F(0)", "$F(1)", "$F(6)")},
	{name: "selfrec-stmt", def: "box := [0]\nwalk := func(k) { if k == 0 { box[0] = n * 3 + 1; return }; walk(k-1) }\nrd := func(k) { walk(k); return box[0] }", x: "rd",
		q1: qs(func(it closIter, _ int) string { return ci(it.n*3 + 1) }, "$F(0)", "$F(3)")},
	{name: "selfrec-str-arr-locals", def: "t := \"k\" + string(n)\nv := [n, a]\nnth := func(k) { return k == 0 ? [t, v] : nth(k-1) }", x: "nth",
		q1: qs(func(it closIter, _ int) string {
			return ca(cs("k"+strconv.FormatInt(it.n, 10)), ca(ci(it.n), ci(it.a)))
		}, "$F(0)", "$F(2)")},
	{name: "predeclared-selfrec", def: "nth := 0\nnth = func(k) { return k == 0 ? n : nth(k-1) }", x: "nth",
		q1: qs(func(it closIter, _ int) string { return ci(it.n) }, "$F(0)", "$F(3)")},
	{name: "selfrec-via-helper", def: "base := func() { return [n, l] }\nnth := func(k) { return k == 0 ? base() : nth(k-1) }", x: "nth",
		q1: qs(func(it closIter, _ int) string { return ca(ci(it.n), ci(it.l)) }, "$F(0)", "$F(2)")},
	{name: "mutual", def: "od := undefined\nev := func(k) { return k == 0 ? n : od(k-1) }\nod = func(k) { return k == 0 ? -a-1 : ev(k-1) }", x: "ev",
		q1: []closQuery{
			{"$F(0)", func(it closIter, _ int) string { return ci(it.n) }},
			{"$F(1)", func(it closIter, _ int) string { return ci(-it.a - 1) }},
			{"$F(2)", func(it closIter, _ int) string { return ci(it.n) }},
			{"$F(5)", func(it closIter, _ int) string { return ci(-it.a - 1) }}}},
	{name: "mutual-both", def: "od := undefined\nev := func(k) { return k == 0 ? n : od(k-1) }\nod = func(k) { return k == 0 ? -a-1 : ev(k-1) }", x: "[ev, od]",
		q1: []closQuery{
			{"$F[0](3)", func(it closIter, _ int) string { return ci(-it.a - 1) }},
			{"$F[1](3)", func(it closIter, _ int) string { return ci(it.n) }},
			{"$F[1](0)", func(it closIter, _ int) string { return ci(-it.a - 1) }},
			{"$F[1](4)", func(it closIter, _ int) string { return ci(-it.a - 1) }}}},
	{name: "mutual-selfrec-pair", def: "up := func(k) { return k == 0 ? n : dn(k-1) }", x: "up"}, // placeholder replaced below (needs a predeclared dn)
	{name: "counter", def: "c := 0\ninc := func() { c += 1; return c * 1000000 + n }", x: "inc",
		q1: []closQuery{{"$F()", func(it closIter, _ int) string { return ci(1000000 + it.n) }}},
		q2: []closQuery{
			{"$F()", func(it closIter, _ int) string { return ci(2000000 + it.n) }},
			{"$F()", func(it closIter, _ int) string { return ci(3000000 + it.n) }}}},
	{name: "set-get", def: "c := n\nset := func(v) { c = v }\nget := func() { return [c, n] }", x: "{set: set, get: get}",
		q1: []closQuery{
			{"$F.get()", func(it closIter, _ int) string { return ca(ci(it.n), ci(it.n)) }},
			{"$F.set(7000000 + $J)", func(closIter, int) string { return "u" }}},
		q2: []closQuery{{"$F.get()", func(it closIter, j int) string { return ca(ci(7000000+int64(j)), ci(it.n)) }}}},
	{name: "selfrec-counter", def: "c := 0\nstep := func(k) { c += 1; return k == 0 ? c * 1000000 + n : step(k-1) }", x: "step",
		q1: []closQuery{{"$F(2)", func(it closIter, _ int) string { return ci(3000000 + it.n) }}},
		q2: []closQuery{{"$F(0)", func(it closIter, _ int) string { return ci(4000000 + it.n) }}}},
	{name: "nested-selfrec", def: "mk := func(d) { return func(k) { return k == 0 ? n + d : mk(d+1)(k-1) } }", x: "mk(0)",
		q1: []closQuery{
			{"$F(0)", func(it closIter, _ int) string { return ci(it.n) }},
			{"$F(3)", func(it closIter, _ int) string { return ci(it.n + 3) }}}},
	{name: "nested-selfrec-maker", def: "mk := func(d) { return func(k) { return k == 0 ? [n, d] : mk(d+1)(k-1) } }", x: "mk",
		q1: []closQuery{
			{"$F(1)(0)", func(it closIter, _ int) string { return ca(ci(it.n), ci(1)) }},
			{"$F(1)(2)", func(it closIter, _ int) string { return ca(ci(it.n), ci(3)) }}}},
	{name: "mutated-param", def: "g := func(k) { return k == 0 ? [n, a] : g(k-1) }", x: "g", mut: 1000,
		q1: qs(func(it closIter, _ int) string { return ca(ci(it.n), ci(it.a)) }, "$F(0)", "$F(2)")},
	{name: "loop-in-iteration", def: "hs := []\nfor j in [1, 2] {\nh := func(k) { return k == 0 ? n * 10 + j : h(k-1) }\nhs = append(hs, h)\n}", x: "hs",
		q1: []closQuery{
			{"$F[0](0)", func(it closIter, _ int) string { return ci(it.n*10 + 1) }},
			{"$F[0](2)", func(it closIter, _ int) string { return ci(it.n*10 + 1) }},
			{"$F[1](2)", func(it closIter, _ int) string { return ci(it.n*10 + 2) }},
			{"$F[1](0)", func(it closIter, _ int) string { return ci(it.n*10 + 2) }}}},
	{name: "block-scoped-selfrec", def: "keep := undefined\nif n % 2 == 0 {\nh := func(k) { return k == 0 ? [n, 0] : h(k-1) }\nkeep = h\n} else {\nh2 := func(k) { return k == 0 ? [n, 1] : h2(k-1) }\nkeep = h2\n}", x: "keep",
		q1: qs(func(it closIter, _ int) string { return ca(ci(it.n), ci(it.n%2)) }, "$F(0)", "$F(3)")},
	{name: "map-method-selfrec", def: "o := {}\no.get = func(k) { return k == 0 ? [n, l] : o.get(k-1) }", x: "o",
		q1: qs(func(it closIter, _ int) string { return ca(ci(it.n), ci(it.l)) }, "$F.get(0)", "$F.get(2)")},
	{name: "selfrec-two-in-one", def: "p := func(k) { return k == 0 ? n : p(k-1) }\nq := func(k) { return k == 0 ? a : q(k-1) }", x: "[p, q]",
		q1: []closQuery{
			{"$F[0](2)", func(it closIter, _ int) string { return ci(it.n) }},
			{"$F[1](2)", func(it closIter, _ int) string { return ci(it.a) }},
			{"$F[1](0)", func(it closIter, _ int) string { return ci(it.a) }}}},
}

func init() {
	for i := range closKinds {
		if closKinds[i].name == "mutual-selfrec-pair" {
			// both members go through their own name as well as through the other's
			closKinds[i] = closKind{name: "mutual-selfrec-pair",
				def: "dn := undefined\nup := func(k) { return k == 0 ? n : (k % 2 == 0 ? up(k-1) : dn(k-1)) }\ndn = func(k) { return k == 0 ? l : (k % 3 == 0 ? dn(k-1) : up(k-1)) }",
				x:   "[up, dn]",
				q1: []closQuery{
					{"$F[0](0)", func(it closIter, _ int) string { return ci(it.n) }},
					{"$F[1](0)", func(it closIter, _ int) string { return ci(it.l) }},
					// up(4) -> up(3) -> dn(2) -> up(1) -> dn(0) = l
					{"$F[0](4)", func(it closIter, _ int) string { return ci(it.l) }},
					// dn(3) -> dn(2) -> up(1) -> dn(0) = l ; dn(1) -> up(0) = n
					{"$F[1](3)", func(it closIter, _ int) string { return ci(it.l) }},
					{"$F[1](1)", func(it closIter, _ int) string { return ci(it.n) }}}}
		}
	}
}

var closStorages = []string{"acc-arg", "acc-assign", "garr", "mparam", "gmap"}
var closUpds = []string{"a + n", "(a * 31 + n) % 1000003", "a + 1"}

func closUpd(rule int, a, n int64) int64 {
	switch rule {
	case 0:
		return a + n
	case 1:
		return (a*31 + n) % 1000003
	}
	return a + 1
}

func findClosForm(n string) *closForm {
	for i := range closForms {
		if closForms[i].name == n {
			return &closForms[i]
		}
	}
	return nil
}

func findClosKind(n string) *closKind {
	for i := range closKinds {
		if closKinds[i].name == n {
			return &closKinds[i]
		}
	}
	return nil
}

func (c closCase) global() bool { return c.Storage == "garr" || c.Storage == "gmap" }
func (c closCase) isMap() bool  { return c.Storage == "mparam" || c.Storage == "gmap" }

// count of stored objects and the iteration (0-based) each belongs to
func (c closCase) stored(f *closForm) int {
	if c.Storage == "acc-arg" || f.name == "base-first" || f.name == "if-else-block" {
		return c.Depth // the base iteration stores nothing
	}
	return c.Depth + 1
}

const closA0 = 5

func (c closCase) source(f *closForm, k *closKind, idx []int) string {
	var b strings.Builder
	switch c.Storage {
	case "garr":
		b.WriteString("G := []\n")
	case "gmap":
		b.WriteString("G := {}\n")
	}
	if f.after {
		b.WriteString("after := 0\n")
	}
	if f.name == "arg" {
		b.WriteString("id := func(x) { return x }\n")
	}
	params, base, accArg, init := "n, a", `"done"`, "", ""
	pre := "l := n * 2 + 1\n" + k.def + "\n"
	if k.mut != 0 {
		pre += fmt.Sprintf("a = a + %d\n", k.mut)
	}
	switch c.Storage {
	case "acc-arg":
		params, base, accArg, init = "n, a, acc", "acc", "append(acc, "+k.x+")", ", []"
	case "acc-assign":
		params, base, accArg, init = "n, a, acc", "acc", "acc", ", []"
		pre += "acc = append(acc, " + k.x + ")\n"
	case "garr":
		pre += "G = append(G, " + k.x + ")\n"
	case "mparam":
		params, base, accArg, init = "n, a, m", "m", "m", ", {}"
		pre += "m[string(n)] = " + k.x + "\n"
	case "gmap":
		pre += "G[string(n)] = " + k.x + "\n"
	}
	args := []string{"n - 1", closUpds[c.Upd]}
	if accArg != "" {
		args = append(args, accArg)
	}
	call := "f(" + strings.Join(args, ", ") + ")"
	if f.name == "spread" {
		call = "f([" + strings.Join(args, ", ") + "]...)"
	}
	body := strings.NewReplacer("$P", strings.TrimSuffix(pre, "\n"), "$B", base, "$C", call).Replace(f.body)
	ind := "\t"
	if c.Wrap {
		b.WriteString("run := func() {\n")
		ind = "\t\t"
		b.WriteString("\tf := func(" + params + ") {\n")
	} else {
		b.WriteString("f := func(" + params + ") {\n")
	}
	for _, ln := range strings.Split(body, "\n") {
		b.WriteString(ind + ln + "\n")
	}
	if c.Wrap {
		fmt.Fprintf(&b, "\t}\n\treturn f(%d, %d%s)\n}\nr := run()\n", c.Depth, closA0, init)
	} else {
		fmt.Fprintf(&b, "}\nr := f(%d, %d%s)\n", c.Depth, closA0, init)
	}
	if c.global() {
		b.WriteString("fs := G\nrv := r\n")
	} else {
		b.WriteString("fs := r\nrv := \"container\"\n")
	}
	b.WriteString("cnt := len(fs)\n")
	for ph, qs := range [][]closQuery{k.q1, k.q2} {
		var es []string
		for j, i := range idx {
			n := c.Depth - i
			el := fmt.Sprintf("fs[%d]", i)
			if c.isMap() {
				el = fmt.Sprintf("fs[\"%d\"]", n)
			}
			for _, q := range qs {
				es = append(es, strings.NewReplacer("$F", el, "$J", strconv.Itoa(j)).Replace(q.expr))
			}
		}
		fmt.Fprintf(&b, "q%d := [%s]\n", ph+1, strings.Join(es, ", "))
	}
	b.WriteString("out := [rv, cnt, q1, q2]\nfs = undefined\nr = undefined\n")
	if c.global() {
		b.WriteString("G = undefined\n")
	}
	return b.String()
}

// queried iterations: the first ones, the middle, the last ones
func closIndices(stored int) []int {
	cand := []int{0, 1, 2, stored / 2, stored - 2, stored - 1}
	var out []int
	seen := map[int]bool{}
	for _, i := range cand {
		if i >= 0 && i < stored && !seen[i] {
			seen[i] = true
			out = append(out, i)
		}
	}
	return out
}

// runClosCase runs one program of the family and compares every query with its value by definition.
func runClosCase(c closCase) {
	f, k := findClosForm(c.Form), findClosKind(c.Kind)
	if f == nil || k == nil {
		return
	}
	if f.gOnly && !c.global() {
		c.Storage = "garr"
	}
	stored := c.stored(f)
	idx := closIndices(stored)
	src := c.source(f, k, idx)
	in := caseInput{Depth: c.Depth, Source: src, Clos: &c}
	stream := "closures-nontail"
	if f.tail {
		stream = "closures-tail"
	}
	// expected values from the definition
	its := make([]closIter, c.Depth+1)
	a := int64(closA0)
	for i := 0; i <= c.Depth; i++ {
		n := int64(c.Depth - i)
		am := a + k.mut
		its[i] = closIter{n: n, a: am, l: n*2 + 1}
		a = closUpd(c.Upd, am, n)
	}
	var w1, w2, labels []string
	for ph, qs := range [][]closQuery{k.q1, k.q2} {
		for j, i := range idx {
			for _, q := range qs {
				w := q.want(its[i], j)
				if ph == 0 {
					w1 = append(w1, w)
				} else {
					w2 = append(w2, w)
				}
				labels = append(labels, fmt.Sprintf("%s of the closure made in iteration %d (n = %d)", strings.NewReplacer("$F", "F", "$J", strconv.Itoa(j)).Replace(q.expr), i, its[i].n))
			}
		}
	}
	rv := cs("container")
	if c.global() {
		rv = f.ret(c.Depth)
	}
	want := ca(rv, ci(int64(stored)), ca(w1...), ca(w2...))

	entry := 2
	if c.Wrap {
		entry = 3
	}
	to := 120 * time.Second
	if c.Depth <= 2000 {
		to = 20 * time.Second
	}
	rr := runClosSource(src, entry, to)
	res.Count(stream, src, true)
	res.Dist("closures-form:" + f.name)
	res.Dist("closures-kind:" + k.name)
	res.Dist("closures-storage:" + c.Storage)
	res.Dist(fmt.Sprintf("closures-depth:%d", c.Depth))
	tag := "closures-" + f.name
	switch rr.class() {
	case "compile-error":
		// the family is fixed text: a compile error is a harness bug or a compiler regression; never silent
		res.Violate(lib.Violation{Signature: "closures-program-does-not-compile:" + k.name, Stream: stream, Input: in,
			Observed: rr.detail(), Expected: "compiles", Oracle: "fixed program family"})
		return
	case "timeout":
		timeouts++
		if c.Depth <= 2000 {
			res.Violate(lib.Violation{Signature: "recursion-does-not-terminate:" + tag, Stream: stream, Input: in,
				Observed: fmt.Sprintf("still running after %v", to), Expected: "out = " + clip(want, 300), Oracle: "values by definition; watchdog"})
		} else {
			res.Skipped++
		}
		return
	case "ok":
	default:
		sig := "nontail-form-fails-at-small-depth:" + tag + ":" + rr.class()
		exp := "completes (depth far below MaxFrames and StackSize)"
		if f.tail {
			sig = "tail-form-fails:" + tag + ":" + rr.class()
			exp = "completes without error for every depth"
		}
		res.Violate(lib.Violation{Signature: sig, Stream: stream, Input: in,
			Observed: rr.detail() + fmt.Sprintf(" (max framesIndex while in f %d)", rr.MaxFiF), Expected: exp, Oracle: "property statement"})
		return
	}
	got := rr.Out.Globals["out"]
	if got != want {
		// locate the first query that differs
		sig, obs, exp := "", "out = "+clip(got, 400), "out = "+clip(want, 400)
		gp, ok := splitCanonArray(got)
		if ok && len(gp) == 4 {
			g1, ok1 := splitCanonArray(gp[2])
			g2, ok2 := splitCanonArray(gp[3])
			switch {
			case gp[0] != rv:
				sig = "value-differs-from-closed-form:" + tag
				obs, exp = "f(...) = "+clip(gp[0], 200), "f(...) = "+rv
			case gp[1] != ci(int64(stored)):
				sig = "number-of-iterations-differs:" + tag
				obs, exp = "stored objects: "+gp[1], "stored objects: "+ci(int64(stored))
			case ok1 && ok2 && len(g1) == len(w1) && len(g2) == len(w2):
				all, wall := append(g1, g2...), append(append([]string{}, w1...), w2...)
				for i := range all {
					if all[i] != wall[i] {
						obs = labels[i] + " = " + clip(all[i], 200) + "   (whole: " + clip(got, 300) + ")"
						exp = labels[i] + " = " + wall[i]
						break
					}
				}
			}
		}
		if sig == "" {
			sig = "closure-of-earlier-iteration-sees-other-values:" + k.name
		}
		if f.tail {
			sig = "tail-" + sig
		} else {
			sig = "nontail-" + sig
		}
		res.Violate(lib.Violation{Signature: sig, Stream: stream, Input: in, Observed: obs, Expected: exp,
			Oracle: "values by definition, computed in Go: the closure made in iteration i sees n, a, l (and its own cells) of iteration i"})
	}
	if f.after {
		if g, w := rr.Out.Globals["after"], ci(int64(c.Depth)); g != w {
			res.Violate(lib.Violation{Signature: "statements-after-self-call-skipped:" + tag, Stream: stream, Input: in,
				Observed: "after = " + g, Expected: "after = " + w, Oracle: "reference semantics"})
		}
	}
	// frames: every instruction of f runs at the entry frame index (tail) / one more per level (non-tail)
	if f.tail {
		if rr.MaxFiF != entry {
			res.Violate(lib.Violation{Signature: "tail-form-grows-frames:" + tag, Stream: stream, Input: in,
				Observed: fmt.Sprintf("max framesIndex while running f: %d at depth %d", rr.MaxFiF, c.Depth), Expected: strconv.Itoa(entry), Oracle: "VM probe (framesIndex at every dispatched instruction of f)"})
		}
	} else if f.pushes && rr.MaxFiF != entry+c.Depth {
		res.Violate(lib.Violation{Signature: "nontail-self-call-does-not-push-one-frame-per-level:" + tag, Stream: stream, Input: in,
			Observed: fmt.Sprintf("max framesIndex while running f: %d at depth %d", rr.MaxFiF, c.Depth), Expected: strconv.Itoa(entry + c.Depth), Oracle: "VM probe: a self call that is not in tail position is never treated as one"})
	}
}

type closRun struct {
	run
	MaxFiF int // max framesIndex over the dispatched instructions of f
}

// runClosSource: f is the function that first runs at frame index `entry`.
func runClosSource(src string, entry int, timeout time.Duration) *closRun {
	r := &closRun{}
	if timeouts >= 6 {
		r.CErr = "not run: the watchdog fired repeatedly before"
		return r
	}
	c, err := lib.CompileSource([]byte(src), lib.CompileOpts{})
	if err != nil {
		r.CErr = err.Error()
		return r
	}
	r.Comp = c
	var fIns *byte
	r.Out = lib.RunBytecode(c, lib.RunOpts{Timeout: timeout, Probe: func(v *tengo.VM, fn *tengo.CompiledFunction, ip, sp, bp, fi int, a int64) {
		if fi > r.MaxFi {
			r.MaxFi = fi
		}
		if sp > r.MaxSp {
			r.MaxSp = sp
		}
		if len(fn.Instructions) == 0 {
			return
		}
		p := &fn.Instructions[0]
		if fIns == nil && fi == entry {
			fIns = p
		}
		if p == fIns && fi > r.MaxFiF {
			r.MaxFiF = fi
		}
	}})
	return r
}

// splitCanonArray splits "(a x y z)" into its top-level elements.
func splitCanonArray(s string) ([]string, bool) {
	if s == "(a)" {
		return nil, true
	}
	if !strings.HasPrefix(s, "(a ") || !strings.HasSuffix(s, ")") {
		return nil, false
	}
	s = s[3 : len(s)-1]
	var out []string
	depth, start := 0, 0
	for i := 0; i < len(s); i++ {
		switch s[i] {
		case '(':
			depth++
		case ')':
			depth--
		case ' ':
			if depth == 0 {
				out = append(out, s[start:i])
				start = i + 1
			}
		}
	}
	out = append(out, s[start:])
	return out, true
}

// closureFamilies: every kind in every form at a small depth (storage, update rule, wrapping and the
// small depth rotate with the seed), a third of them around the frame capacity, a few at 10^5.
func closureFamilies(seed uint64, thorough bool) {
	sd := int(seed % 1000003)
	smallDepths := []int{3, 4, 5}
	nearFrames := []int{1000, tengo.MaxFrames - 2, tengo.MaxFrames - 1, tengo.MaxFrames, tengo.MaxFrames + 1, 1100}
	nonTailDepths := []int{3, 30, 100}
	// 10^5: quick = 4 programs per seed (spread over tail forms and kinds by the seed), thorough = a quarter of all
	nTail := 0
	for fi := range closForms {
		if closForms[fi].tail {
			nTail++
		}
	}
	hugeAt := map[int]bool{}
	for j := 0; j < 4; j++ {
		hugeAt[(sd*53+j*79+11)%(nTail*len(closKinds))] = true
	}
	for fi := range closForms {
		f := &closForms[fi]
		for ki := range closKinds {
			k := &closKinds[ki]
			x := fi*31 + ki*7 + sd
			mk := func(depth, rot int) closCase {
				c := closCase{Form: f.name, Kind: k.name, Depth: depth, Upd: (x + rot) % len(closUpds), Wrap: (x/3+rot)%3 == 0}
				c.Storage = closStorages[(x+rot)%len(closStorages)]
				if f.gOnly {
					c.Storage = []string{"garr", "gmap"}[(x+rot)%2]
				}
				return c
			}
			if timeouts >= 4 {
				res.Skipped++
				continue
			}
			if !f.tail {
				runClosCase(mk(nonTailDepths[x%len(nonTailDepths)], 0))
				if thorough {
					runClosCase(mk(nonTailDepths[(x+1)%len(nonTailDepths)], 1))
				}
				continue
			}
			runClosCase(mk(smallDepths[x%len(smallDepths)], 0))
			if thorough || x%3 == 0 {
				runClosCase(mk(nearFrames[(x/3)%len(nearFrames)], 1))
			}
			if (thorough && (fi+ki)%4 == 0) || hugeAt[fi*len(closKinds)+ki] {
				runClosCase(mk(100000, 2))
			}
		}
	}
}

// Values of an earlier iteration that stay referenced after the frame has been reused (round 10).
//
// A self tail call overwrites the parameter slots of the running frame; the OBJECTS that were in those
// slots (the variadic array the VM rolled up for this iteration, an array argument, an int) are not the
// frame's to recycle: the iteration may have put them anywhere - appended to an accumulator that travels
// through the call, stored in a global array or map, in a map parameter, handed on as an ordinary argument
// of the next iteration, wrapped in another array / map / slice / immutable copy, aliased by a local that
// a closure captures. Everything the VM builds for the NEXT iteration (the rolled-up variadic array, the
// unpacked spread, the copied arguments) must be fresh storage. Earlier rounds kept the values of an
// iteration only through closures that capture the parameter itself (the slot then holds a cell) and
// looked at the variadic parameter only in the last iteration.
//
// The family: a self-recursive function (tail: 14 call forms, non-tail controls: 5) with a variadic
// parameter (or none) whose every iteration keeps one SUBJECT (the variadic array xs, an array parameter
// p, the previous iteration's xs passed on as the ordinary parameter prev, the local array ys that is
// spread into the next call, a local array l, the int parameter a) in one WRAPPER (as it is, [n, S],
// {k: n, v: S}, S[0:], immutable(S), a closure over an alias local, a closure over the variable itself)
// by one ROUTE (accumulator in the call argument, assigned accumulator, global array, global map, map
// parameter), with the variadic part of the next call given in 12 ways (0-3 explicit arguments, spread of
// a literal / a local / xs itself / a conditional of two lengths, explicit + spread, shrinking slices, two
// call sites with different counts, spread of the whole argument list), optional in-place assignment to
// xs[0] / p[0] at the start of the iteration, 0-2 further fixed parameters in front of the variadic one.
// The non-tail controls also read the subject again AFTER the self call has returned.
//
// Oracle: every kept value, the value of f, the number of kept values and a checksum over ALL kept
// values are computed here in Go from the definition of a call (the variadic parameter of a call is a new
// array of the surplus argument values; arguments are passed by reference; nothing else writes to them).
// No loop is run on the VM for it.
package main

import (
	"fmt"
	"strconv"
	"strings"
	"time"

	"github.com/d5/tengo/v2"
	"verifharness/lib"
)

// retCase identifies one program of the family (enough to regenerate it on replay).
type retCase struct {
	Form    string `json:"form"`
	Subject string `json:"subject"` // xs | p | prev | ys | l | a
	Wrapper string `json:"wrapper"` // raw | pair | map | slice | immutable | alias-closure | direct-closure
	Route   string `json:"route"`   // acc-arg | acc-assign | garr | gmap | mparam
	Call    string `json:"call"`    // retCalls
	Init    int    `json:"init"`    // number of variadic arguments of the first call (0..3)
	Fixed   int    `json:"fixed"`   // further fixed int parameters (0..2) in front of the variadic one
	Mut     bool   `json:"mut,omitempty"`
	Depth   int    `json:"depth"`
	Wrap    bool   `json:"wrap,omitempty"`
	Upd     int    `json:"upd"`
}

type retForm struct {
	name     string
	tail     bool
	gOnly    bool   // the function's value is not the base value: needs global storage
	body     string // $P prelude, $B base value, $C self call, $S the subject (read after the call)
	pushes   bool   // non-tail: one frame per level is asserted
	useAfter bool   // non-tail: records the subject in the global U after the self call has returned
	ret      string // value of f with global storage at depth >= 1 ("" = the base value)
}

var retForms = []retForm{
	{name: "return", tail: true, body: "$P\nif n == 0 { return $B }\nreturn $C"},
	{name: "base-first", tail: true, body: "if n == 0 { return $B }\n$P\nreturn $C"},
	{name: "or", tail: true, body: "$P\nreturn (n == 0 && $B) || $C"},
	{name: "and", tail: true, body: "$P\nif n == 0 { return $B }\nreturn true && $C"},
	{name: "ternary", tail: true, body: "$P\nreturn n == 0 ? $B : $C"},
	{name: "if-else-block", tail: true, body: "if n != 0 {\n$P\nreturn $C\n} else {\nreturn $B\n}"},
	{name: "in-loop", tail: true, body: "for {\n$P\nif n == 0 { return $B }\nreturn $C\n}"},
	{name: "forin", tail: true, body: "for q in [1] {\n$P\nif n == 0 { return $B }\nreturn $C\n}\nreturn 0"},
	{name: "paren", tail: true, body: "$P\nif n == 0 { return $B }\nreturn ($C)"},
	{name: "spread-call", tail: true, body: "$P\nif n == 0 { return $B }\nreturn $C"},
	{name: "and-merged", tail: true, gOnly: true, body: "$P\nreturn n != 0 && $C", ret: "(b 0)"},
	{name: "or-merged", tail: true, gOnly: true, body: "$P\nreturn n == 0 || $C", ret: "(b 1)"},
	{name: "stmt", tail: true, gOnly: true, body: "$P\nif n == 0 { return $B }\n$C", ret: "u"},
	{name: "stmt-in-if", tail: true, gOnly: true, body: "$P\nif n != 0 { $C }", ret: "u"},
	// controls: the self call is not in tail position (ternary-true: one the VM does not optimise)
	{name: "assign-use-after", body: "$P\nif n == 0 { return $B }\nrr := $C\nU = append(U, $S)\nreturn rr", pushes: true, useAfter: true},
	{name: "pick-use-after", body: "$P\nif n == 0 { return $B }\nreturn pick($C, $S)", pushes: true, useAfter: true},
	{name: "arg", body: "$P\nif n == 0 { return $B }\nreturn id($C)", pushes: true},
	{name: "ternary-true", body: "$P\nreturn n != 0 ? $C : $B"},
	{name: "stmt-then-more", gOnly: true, body: "$P\nif n == 0 { return $B }\n$C\nU = append(U, $S)\nreturn 7", pushes: true, useAfter: true, ret: "(i 7)"},
}

// how the variadic part of the next call is written ("none": the function is not variadic)
var retCalls = []string{"list0", "list1", "list2", "list3", "spread-lit", "spread-local", "spread-self", "spread-alt", "cons", "shrink", "alt", "none"}
var retSubjects = []string{"xs", "p", "prev", "ys", "l", "a"}
var retWrappers = []string{"raw", "pair", "map", "slice", "immutable", "alias-closure", "direct-closure"}
var retRoutes = []string{"acc-arg", "acc-assign", "garr", "gmap", "mparam"}

func findRetForm(n string) *retForm {
	for i := range retForms {
		if retForms[i].name == n {
			return &retForms[i]
		}
	}
	return nil
}

// tv: an int or an array of values (all the family ever keeps)
type tv struct {
	leaf bool
	n    int64
	kids []tv
}

func tvInt(n int64) tv { return tv{leaf: true, n: n} }
func tvInts(xs []int64) tv {
	v := tv{kids: []tv{}}
	for _, x := range xs {
		v.kids = append(v.kids, tvInt(x))
	}
	return v
}
func tvArr(xs ...tv) tv { return tv{kids: append([]tv{}, xs...)} }

func (v tv) canon() string {
	if v.leaf {
		return ci(v.n)
	}
	var b strings.Builder
	b.WriteString("(a")
	for _, k := range v.kids {
		b.WriteString(" " + k.canon())
	}
	b.WriteString(")")
	return b.String()
}

// the script's hash(v), mirrored
func (v tv) hash() int64 {
	if v.leaf {
		return v.n % 1000003
	}
	h := int64(len(v.kids)) + 7
	for _, k := range v.kids {
		h = (h*17 + k.hash()) % 1000003
	}
	return h
}

const retHashSrc = "hash := func(v) {\n\tif is_int(v) { return v % 1000003 }\n\thh := len(v) + 7\n\tfor x in v { hh = (hh * 17 + hash(x)) % 1000003 }\n\treturn hh\n}\n"

// normalise: remap combinations that do not exist (a subject that needs a variadic function, ...)
func (c *retCase) normalise(f *retForm) {
	if f.gOnly && (c.Route != "garr" && c.Route != "gmap") {
		c.Route = []string{"garr", "gmap"}[(c.Init+c.Fixed+len(c.Wrapper))%2]
	}
	if f.name == "spread-call" {
		// the whole argument list is one spread array literal: the variadic part is explicit
		switch c.Call {
		case "list0", "list1", "list2", "list3", "none":
		default:
			c.Call = []string{"list1", "list2", "list3"}[(c.Init+c.Fixed)%3]
		}
	}
	if c.Call == "alt" && !f.tail {
		c.Call = "spread-alt" // the second call site is a plain `return f(...)`: a tail call
	}
	if c.Call == "none" {
		switch c.Subject {
		case "xs", "prev", "ys":
			c.Subject = "p"
		}
		c.Init = 0
	}
	if c.Subject == "ys" && c.Call != "spread-local" {
		c.Subject = "xs"
	}
	if c.Subject == "a" {
		switch c.Wrapper {
		case "slice", "immutable":
			c.Wrapper = "pair"
		}
	}
	if c.Depth > 2000 && c.Call == "spread-self" && c.Init == 0 {
		c.Init = 2
	}
}

func (c retCase) variadic() bool { return c.Call != "none" }
func (c retCase) global() bool   { return c.Route == "garr" || c.Route == "gmap" }
func (c retCase) isMap() bool    { return c.Route == "mparam" || c.Route == "gmap" }
func (c retCase) hasP() bool     { return c.Subject == "p" || (c.Init+c.Fixed)%2 == 1 }

func (c retCase) stored(f *retForm) int {
	if c.Route == "acc-arg" || f.name == "base-first" || f.name == "if-else-block" {
		return c.Depth // the base iteration keeps nothing
	}
	return c.Depth + 1
}

// retIter: the values iteration i works with (xs, p after the in-place assignment of that iteration)
type retIter struct {
	n, a        int64
	xs, p, prev []int64
	ys, l       []int64
}

func (it retIter) subject(s string) tv {
	switch s {
	case "xs":
		return tvInts(it.xs)
	case "p":
		return tvInts(it.p)
	case "prev":
		return tvInts(it.prev)
	case "ys":
		return tvInts(it.ys)
	case "l":
		return tvInts(it.l)
	}
	return tvInt(it.a)
}

func (c retCase) kept(it retIter) tv {
	s := it.subject(c.Subject)
	switch c.Wrapper {
	case "pair", "map":
		return tvArr(tvInt(it.n), s)
	}
	return s
}

var retInit = []int64{11, 12, 13}

// iterations by definition
func (c retCase) iterations(preInBase bool) []retIter {
	its := make([]retIter, c.Depth+1)
	a := int64(closA0)
	xs := append([]int64{}, retInit[:c.Init]...)
	p := []int64{7}
	prev := []int64{9}
	for i := 0; i <= c.Depth; i++ {
		n := int64(c.Depth - i)
		if c.Mut && (preInBase || i < c.Depth) {
			if c.variadic() && len(xs) > 0 {
				xs = append([]int64{}, xs...)
				xs[0] += 1000
			}
			if c.hasP() {
				p = append([]int64{}, p...)
				p[0] += 1000
			}
		}
		it := retIter{n: n, a: a, xs: xs, p: p, prev: prev, ys: []int64{n, 2 * n}, l: []int64{n, a}}
		its[i] = it
		// the arguments of the next call
		var nx []int64
		switch c.Call {
		case "list0":
			nx = []int64{}
		case "list1":
			nx = []int64{n}
		case "list2", "spread-lit", "spread-local":
			nx = []int64{n, 2 * n}
		case "list3":
			nx = []int64{n, 2 * n, a}
		case "spread-self":
			nx = append([]int64{}, xs...)
		case "spread-alt", "alt":
			if n%2 == 0 {
				nx = []int64{n}
			} else {
				nx = []int64{n, n + 1, n + 2}
			}
		case "cons":
			k := len(xs)
			if k > 2 {
				k = 2
			}
			nx = append([]int64{n}, xs[:k]...)
		case "shrink":
			if len(xs) > 0 {
				nx = append([]int64{}, xs[1:]...)
			} else {
				nx = []int64{n, n + 1, n + 2}
			}
		}
		prev = xs
		p = []int64{n * 3, a}
		xs = nx
		a = closUpd(c.Upd, a, n)
	}
	return its
}

func (c retCase) source(f *retForm, idx []int) string {
	var b strings.Builder
	switch c.Route {
	case "garr":
		b.WriteString("G := []\n")
	case "gmap":
		b.WriteString("G := {}\n")
	}
	if f.useAfter {
		b.WriteString("U := []\n")
	}
	switch f.name {
	case "arg":
		b.WriteString("id := func(x) { return x }\n")
	case "pick-use-after":
		b.WriteString("pick := func(x, y) { U = append(U, y); return x }\n")
	}
	// parameters, first-call arguments, next-call arguments
	params := []string{"n", "a"}
	first := []string{strconv.Itoa(c.Depth), strconv.Itoa(closA0)}
	args := []string{"n - 1", closUpds[c.Upd]}
	for i := 1; i <= c.Fixed; i++ {
		nm := "c" + strconv.Itoa(i)
		params, first, args = append(params, nm), append(first, strconv.Itoa(i)), append(args, nm+" + 1")
	}
	// the subject and what is kept of it
	S := c.Subject
	pre := ""
	if c.Mut {
		if c.variadic() {
			pre += "if len(xs) > 0 { xs[0] = xs[0] + 1000 }\n"
		}
		if c.hasP() {
			pre += "p[0] = p[0] + 1000\n"
		}
	}
	if c.Subject == "l" {
		pre += "l := [n, a]\n"
	}
	if c.Call == "spread-local" {
		pre += "ys := [n, 2 * n]\n"
	}
	X := S
	switch c.Wrapper {
	case "pair":
		X = "[n, " + S + "]"
	case "map":
		X = "{k: n, v: " + S + "}"
	case "slice":
		X = S + "[0:]"
	case "immutable":
		X = "immutable(" + S + ")"
	case "alias-closure":
		pre += "z := " + S + "\n"
		X = "func() { return z }"
	case "direct-closure":
		X = "func() { return " + S + " }"
	}
	base := "0"
	switch c.Route {
	case "acc-arg":
		params, first, args, base = append(params, "acc"), append(first, "[]"), append(args, "append(acc, "+X+")"), "acc"
	case "acc-assign":
		params, first, args, base = append(params, "acc"), append(first, "[]"), append(args, "acc"), "acc"
		pre += "acc = append(acc, " + X + ")\n"
	case "garr":
		pre += "G = append(G, " + X + ")\n"
	case "mparam":
		params, first, args, base = append(params, "m"), append(first, "{}"), append(args, "m"), "m"
		pre += "m[string(n)] = " + X + "\n"
	case "gmap":
		pre += "G[string(n)] = " + X + "\n"
	}
	fin := []string{"a"}
	if c.hasP() {
		params, first, args, fin = append(params, "p"), append(first, "[7]"), append(args, "[n * 3, a]"), append(fin, "p")
	}
	if c.Subject == "prev" {
		params, first, args, fin = append(params, "prev"), append(first, "[9]"), append(args, "xs"), append(fin, "prev")
	}
	call := ""
	if c.variadic() {
		params, fin = append(params, "...xs"), append(fin, "xs")
		for _, x := range retInit[:c.Init] {
			first = append(first, strconv.FormatInt(x, 10))
		}
		full := func(v ...string) string {
			return "f(" + strings.Join(append(append([]string{}, args...), v...), ", ") + ")"
		}
		switch c.Call {
		case "list0":
			call = full()
		case "list1":
			call = full("n")
		case "list2":
			call = full("n", "2 * n")
		case "list3":
			call = full("n", "2 * n", "a")
		case "spread-lit":
			call = full("[n, 2 * n]...")
		case "spread-local":
			call = full("ys...")
		case "spread-self":
			call = full("xs...")
		case "spread-alt":
			call = full("(n % 2 == 0 ? [n] : [n, n + 1, n + 2])...")
		case "cons":
			call = full("n", "(len(xs) > 2 ? xs[:2] : xs)...")
		case "shrink":
			call = full("(len(xs) > 0 ? xs[1:] : [n, n + 1, n + 2])...")
		case "alt":
			// a second call site (odd n, never the base iteration) with three variadic arguments
			pre += "if n % 2 == 1 { return " + full("n", "n + 1", "n + 2") + " }\n"
			call = full("n")
		}
		if f.name == "spread-call" {
			call = "f([" + strings.TrimSuffix(strings.TrimPrefix(call, "f("), ")") + "]...)"
		}
	} else {
		call = "f(" + strings.Join(args, ", ") + ")"
		if f.name == "spread-call" {
			call = "f([" + strings.Join(args, ", ") + "]...)"
		}
	}
	baseV := "[" + base + ", [" + strings.Join(fin, ", ") + "]]"
	body := strings.NewReplacer("$P", strings.TrimSuffix(pre, "\n"), "$B", baseV, "$C", call, "$S", S).Replace(f.body)
	ind := "\t"
	if c.Wrap {
		b.WriteString("run := func() {\n\tf := func(" + strings.Join(params, ", ") + ") {\n")
		ind = "\t\t"
	} else {
		b.WriteString("f := func(" + strings.Join(params, ", ") + ") {\n")
	}
	for _, ln := range strings.Split(body, "\n") {
		if ln != "" {
			b.WriteString(ind + ln + "\n")
		}
	}
	if c.Wrap {
		fmt.Fprintf(&b, "\t}\n\treturn f(%s)\n}\nr := run()\n", strings.Join(first, ", "))
	} else {
		fmt.Fprintf(&b, "}\nr := f(%s)\n", strings.Join(first, ", "))
	}
	if c.global() {
		b.WriteString("fs := G\nrv := r\n")
	} else {
		b.WriteString("fs := r[0]\nrv := r[1]\n")
	}
	// reading the kept objects back
	ex := "e"
	switch c.Wrapper {
	case "map":
		ex = "[e.k, e.v]"
	case "immutable":
		ex = "e[0:]"
	case "alias-closure", "direct-closure":
		ex = "e()"
	}
	b.WriteString(retHashSrc)
	b.WriteString("ex := func(e) { return " + ex + " }\ncnt := len(fs)\n")
	key := func(i int) string {
		if c.isMap() {
			return fmt.Sprintf("fs[\"%d\"]", c.Depth-i)
		}
		return fmt.Sprintf("fs[%d]", i)
	}
	var es []string
	for _, i := range idx {
		es = append(es, "ex("+key(i)+")")
	}
	fmt.Fprintf(&b, "vals := [%s]\n", strings.Join(es, ", "))
	k := "fs[i]"
	if c.isMap() {
		k = fmt.Sprintf("fs[string(%d - i)]", c.Depth)
	}
	fmt.Fprintf(&b, "h := 0\nfor i := 0; i < cnt; i++ { h = (h * 31 + hash(ex(%s))) %% 1000003 }\n", k)
	if f.useAfter {
		b.WriteString("out := [rv, cnt, vals, h, U]\nU = undefined\n")
	} else {
		b.WriteString("out := [rv, cnt, vals, h]\n")
	}
	b.WriteString("fs = undefined\nr = undefined\nrv = undefined\nvals = undefined\n")
	if c.global() {
		b.WriteString("G = undefined\n")
	}
	return b.String()
}

// queried iterations: all of them at small depths, else the first ones, the middle, the last ones
func retIndices(stored int) []int {
	if stored <= 40 {
		out := make([]int, stored)
		for i := range out {
			out[i] = i
		}
		return out
	}
	return closIndices(stored)
}

// runRetCase runs one program of the family and compares it with its values by definition.
// retViolate also counts the violation per form (Result keeps at most a few per signature).
func retViolate(f *retForm, v lib.Violation) {
	res.Dist("retained-violations:" + f.name)
	res.Violate(v)
}

func runRetCase(c retCase) {
	f := findRetForm(c.Form)
	if f == nil {
		return
	}
	c.normalise(f)
	stored := c.stored(f)
	idx := retIndices(stored)
	src := c.source(f, idx)
	in := caseInput{Depth: c.Depth, Source: src, Ret: &c}
	stream := "retained-nontail"
	if f.tail {
		stream = "retained-tail"
	}
	its := c.iterations(!(f.name == "base-first" || f.name == "if-else-block")) // these two run the prelude after the base test
	var wv []string
	h := int64(0)
	for i := 0; i < stored; i++ {
		h = (h*31 + c.kept(its[i]).hash()) % 1000003
	}
	for _, i := range idx {
		wv = append(wv, c.kept(its[i]).canon())
	}
	last := its[c.Depth]
	fin := []tv{tvInt(last.a)}
	if c.hasP() {
		fin = append(fin, tvInts(last.p))
	}
	if c.Subject == "prev" {
		fin = append(fin, tvInts(last.prev))
	}
	if c.variadic() {
		fin = append(fin, tvInts(last.xs))
	}
	rv := tvArr(fin...).canon()
	if c.global() {
		rv = ca(ci(0), rv)
		if f.ret != "" && c.Depth >= 1 {
			rv = f.ret
		}
	}
	parts := []string{rv, ci(int64(stored)), ca(wv...), ci(h)}
	var wu []string
	if f.useAfter {
		for i := c.Depth - 1; i >= 0; i-- {
			wu = append(wu, its[i].subject(c.Subject).canon())
		}
		parts = append(parts, ca(wu...))
	}
	want := ca(parts...)

	entry := 2
	if c.Wrap {
		entry = 3
	}
	to := 120 * time.Second
	if c.Depth <= 2000 {
		to = 20 * time.Second
	}
	rr := runClosSource(src, entry, to)
	res.Count(stream, src, true)
	res.Dist("retained-form:" + f.name)
	res.Dist("retained-subject:" + c.Subject)
	res.Dist("retained-wrapper:" + c.Wrapper)
	res.Dist("retained-route:" + c.Route)
	res.Dist("retained-call:" + c.Call)
	res.Dist(fmt.Sprintf("retained-depth:%d", c.Depth))
	tag := "retained-" + f.name
	pre := "nontail-"
	if f.tail {
		pre = "tail-"
	}
	switch rr.class() {
	case "compile-error":
		// the family is fixed text: a compile error is a harness bug or a compiler regression; never silent
		retViolate(f, lib.Violation{Signature: "retained-program-does-not-compile:" + f.name + ":" + c.Call, Stream: stream, Input: in,
			Observed: rr.detail(), Expected: "compiles", Oracle: "fixed program family"})
		return
	case "timeout":
		timeouts++
		if c.Depth <= 2000 {
			retViolate(f, lib.Violation{Signature: "recursion-does-not-terminate:" + tag, Stream: stream, Input: in,
				Observed: fmt.Sprintf("still running after %v", to), Expected: "out = " + clip(want, 300), Oracle: "values by definition; watchdog"})
		} else {
			res.Skipped++
		}
		return
	case "ok":
	default:
		sig := "nontail-form-fails-at-small-depth:" + tag + ":" + rr.class()
		exp := "completes (depth far below MaxFrames and StackSize)"
		if f.tail {
			sig = "tail-form-fails:" + tag + ":" + rr.class()
			exp = "completes without error for every depth"
		}
		retViolate(f, lib.Violation{Signature: sig, Stream: stream, Input: in,
			Observed: rr.detail() + fmt.Sprintf(" (max framesIndex while in f %d)", rr.MaxFiF), Expected: exp, Oracle: "property statement"})
		return
	}
	got := rr.Out.Globals["out"]
	if got != want {
		sig, obs, exp := pre+"retained-program-value-differs:"+c.Subject+":"+c.Call, "out = "+clip(got, 400), "out = "+clip(want, 400)
		if gp, ok := splitCanonArray(got); ok && len(gp) == len(parts) {
			gv, okv := splitCanonArray(gp[2])
			switch {
			case gp[1] != parts[1]:
				sig = pre + "number-of-iterations-differs:" + tag
				obs, exp = "kept objects: "+gp[1], "kept objects: "+parts[1]
			case okv && len(gv) == len(wv) && gp[2] != parts[2]:
				sig = pre + "value-kept-by-earlier-iteration-changed:" + c.Subject + ":" + c.Call
				for j := range gv {
					if gv[j] != wv[j] {
						lbl := fmt.Sprintf("what iteration %d (n = %d) kept of %s (%s, %s)", idx[j], its[idx[j]].n, c.Subject, c.Wrapper, c.Route)
						obs = lbl + " = " + clip(gv[j], 200) + " after the recursion   (all queried: " + clip(gp[2], 300) + ")"
						exp = lbl + " = " + wv[j]
						break
					}
				}
			case gp[3] != parts[3]:
				sig = pre + "value-kept-by-earlier-iteration-changed:" + c.Subject + ":" + c.Call
				obs, exp = "checksum over all kept values "+gp[3]+" (the queried iterations are right)", "checksum "+parts[3]
			case gp[0] != parts[0]:
				sig = pre + "value-differs-from-closed-form:" + tag
				obs, exp = "f(...) = "+clip(gp[0], 200), "f(...) = "+parts[0]
			case f.useAfter && gp[4] != parts[4]:
				sig = "nontail-value-read-after-self-call-changed:" + c.Subject + ":" + c.Call
				obs, exp = "read after the call, deepest level first: "+clip(gp[4], 300), clip(parts[4], 300)
			}
		}
		retViolate(f, lib.Violation{Signature: sig, Stream: stream, Input: in, Observed: obs, Expected: exp,
			Oracle: "values by definition, computed in Go: the variadic parameter of a call is a new array of the surplus arguments, an argument is the object the caller passed; what iteration i kept holds the values of iteration i"})
	}
	if f.tail {
		if rr.MaxFiF != entry {
			retViolate(f, lib.Violation{Signature: "tail-form-grows-frames:" + tag, Stream: stream, Input: in,
				Observed: fmt.Sprintf("max framesIndex while running f: %d at depth %d", rr.MaxFiF, c.Depth), Expected: strconv.Itoa(entry), Oracle: "VM probe (framesIndex at every dispatched instruction of f)"})
		}
	} else if f.pushes && rr.MaxFiF != entry+c.Depth {
		retViolate(f, lib.Violation{Signature: "nontail-self-call-does-not-push-one-frame-per-level:" + tag, Stream: stream, Input: in,
			Observed: fmt.Sprintf("max framesIndex while running f: %d at depth %d", rr.MaxFiF, c.Depth), Expected: strconv.Itoa(entry + c.Depth), Oracle: "VM probe: a self call that is not in tail position is never treated as one"})
	}
}

// retainedFamilies: every form × every way of giving the variadic part × every subject at a small depth
// (wrapper, route, in-place assignment, first-call arguments, fixed parameters, wrapping rotate with the
// position and the seed); a sixth of the tail programs again around the frame capacity; a few at 10^5.
func retainedFamilies(seed uint64, thorough bool) {
	sd := int(seed % 1000003)
	smallDepths := []int{3, 4, 5, 7}
	nearFrames := []int{1000, tengo.MaxFrames - 1, tengo.MaxFrames, tengo.MaxFrames + 1, 1100, 2500}
	nonTailDepths := []int{3, 30, 60}
	nTail := 0
	for fi := range retForms {
		if retForms[fi].tail {
			nTail++
		}
	}
	per := len(retCalls) * len(retSubjects)
	hugeAt := map[int]bool{}
	for j := 0; j < 5; j++ {
		hugeAt[(sd*53+j*131+17)%(nTail*per)] = true
	}
	for fi := range retForms {
		f := &retForms[fi]
		for ci := range retCalls {
			for si := range retSubjects {
				x := fi*37 + ci*11 + si*5 + sd
				mk := func(depth, rot int) retCase {
					y := x + rot
					return retCase{Form: f.name, Subject: retSubjects[si], Call: retCalls[ci], Depth: depth,
						Wrapper: retWrappers[(y+si)%len(retWrappers)], Route: retRoutes[(y/2+ci)%len(retRoutes)],
						Init: (y / 3) % 4, Fixed: (y / 5) % 3, Mut: (y/7)%3 == 0, Wrap: (y/4)%4 == 0, Upd: y % len(closUpds)}
				}
				if timeouts >= 4 {
					res.Skipped++
					continue
				}
				if !f.tail {
					runRetCase(mk(nonTailDepths[x%len(nonTailDepths)], 0))
					if thorough {
						runRetCase(mk(nonTailDepths[(x+1)%len(nonTailDepths)], 1))
					}
					continue
				}
				runRetCase(mk(smallDepths[x%len(smallDepths)], 0))
				if thorough || x%6 == 0 {
					runRetCase(mk(nearFrames[(x/6)%len(nearFrames)], 1))
				}
				if (thorough && (fi+ci+si)%16 == 0) || hugeAt[fi*per+ci*len(retSubjects)+si] {
					runRetCase(mk(100000, 2))
				}
			}
		}
	}
}

package main

// deep.go — state that a clone must own although it is reached through values whose Copy has to be deep
// (error payloads, bytes, containers nested below several layers), values put in place by Compiled.Set instead of
// Script.Add, and clones taken from clones. (Re-created: the first version of this file was never committed.)

import (
	"fmt"
	"sort"
	"strconv"

	tengo "github.com/d5/tengo/v2"

	"verifharness/lib"
)

// taggedVal: {"__err": v} is error(v), {"__bytes": "…"} a Bytes value, {"__box": n} the mutable one-element holder
// [{"v": n}] wrapped in an error inside an immutable array: immutable([error([{v: n}])]).
func taggedVal(x map[string]interface{}) (interface{}, bool) {
	if len(x) != 1 {
		return nil, false
	}
	if v, ok := x["__err"]; ok {
		o, err := tengo.FromInterface(normVal(v))
		if err != nil {
			return nil, false
		}
		return &tengo.Error{Value: o}, true
	}
	if v, ok := x["__bytes"]; ok {
		s, ok := v.(string)
		if !ok {
			return nil, false
		}
		return &tengo.Bytes{Value: []byte(s)}, true
	}
	if v, ok := x["__box"]; ok {
		o, err := tengo.FromInterface(normVal(map[string]interface{}{"v": v}))
		if err != nil {
			return nil, false
		}
		return &tengo.ImmutableArray{Value: []tengo.Object{&tengo.Error{Value: &tengo.Array{Value: []tengo.Object{o}}}}}, true
	}
	return nil, false
}

func errV(v interface{}) map[string]interface{} { return map[string]interface{}{"__err": v} }
func boxV(n int) map[string]interface{}         { return map[string]interface{}{"__box": n} }

// deepScenarios: every program updates, in place and as a function of its clone's id, a container that the clone
// reaches only through an error payload / several immutable layers / a value given by Set, then reads it back.
func deepScenarios(seed uint64) []Scenario {
	arr := func(xs ...interface{}) []interface{} { return xs }
	obj := func(kv ...interface{}) map[string]interface{} {
		m := map[string]interface{}{}
		for i := 0; i+1 < len(kv); i += 2 {
			m[kv[i].(string)] = kv[i+1]
		}
		return m
	}
	loop := func(read string) string {
		return "acc := 0\nfor i := 0; i < 40; i++ { acc += " + read + " }\n"
	}
	scs := []Scenario{
		{Name: "deep-error-payload", IDVar: "id", Vars: obj("e", errV(arr(0, arr(0), obj("k", 0)))),
			Src: "e.value[0] = id\ne.value[1][0] = id + 1\ne.value[2].k = id + 2\n" + loop("e.value[0] + e.value[1][0] + e.value[2].k") + "out := [e.value, acc]\n"},
		{Name: "deep-error-in-containers", IDVar: "id", Vars: obj("m", obj("errs", arr(errV(arr(0)), errV(obj("n", arr(0)))))),
			Src: "m.errs[0].value[0] = id\nm.errs[1].value.n[0] = id * 3\n" + loop("m.errs[0].value[0] + m.errs[1].value.n[0]") + "out := [m.errs[0].value, m.errs[1].value, acc]\n"},
		{Name: "deep-error-in-immutable", IDVar: "id", Vars: obj("cfg", imm(arr(errV(arr(0, 0)), imm(obj("e", errV(obj("x", 0))))))),
			Src: "cfg[0].value[1] = id\ncfg[1].e.value.x = id + 4\n" + loop("cfg[0].value[1] + cfg[1].e.value.x") + "out := [cfg[0].value, cfg[1].e.value, acc]\n"},
		{Name: "deep-box", IDVar: "id", Vars: obj("b", boxV(0)),
			Src: "b[0].value[0].v = id\n" + loop("b[0].value[0].v") + "out := [b[0].value[0].v, acc]\n"},
		{Name: "deep-error-after-run", IDVar: "id", AfterRun: true,
			Src: "e := error([0, {k: [0]}])\ne.value[0] += id\ne.value[1].k[0] += id + 1\nim := immutable([error([0])])\nim[0].value[0] += id\n" + loop("e.value[0] + e.value[1].k[0] + im[0].value[0]") + "out := [e.value, im[0].value, acc]\n"},
		{Name: "deep-four-layers", IDVar: "id", Vars: obj("t", imm(obj("a", imm(arr(imm(obj("b", imm(arr(arr(0, 0)))))))))),
			Src: "t.a[0].b[0][1] = id\n" + loop("t.a[0].b[0][1] + t.a[0].b[0][0]") + "out := [t.a[0].b[0], acc]\n"},
		{Name: "deep-bytes-input", IDVar: "id", Vars: obj("bs", map[string]interface{}{"__bytes": "abcdef"}, "h", obj("b", map[string]interface{}{"__bytes": "xyz"})),
			Src: "n := 0\nfor i := 0; i < 40; i++ { n += bs[i % 6] + h.b[i % 3] + id }\ns := string(bs) + string(h.b)\nout := [n, s, bs, h.b]\n"},
		// values given by Compiled.Set on the original (not by Script.Add): the clones own them all the same
		{Name: "set-containers", IDVar: "id", SetVars: obj("arr", arr(0, arr(0, 0), obj("z", 0)), "m", obj("l", arr(0), "e", errV(arr(0)))),
			Src: "arr[0] = id\narr[1][1] = id + 1\narr[2].z = id + 2\nm.l[0] = id + 3\nm.e.value[0] = id + 4\n" + loop("arr[0] + arr[1][1] + arr[2].z + m.l[0] + m.e.value[0]") + "out := [arr, m.l, m.e.value, acc]\n"},
		{Name: "set-scalars", IDVar: "id", SetVars: obj("limit", 10, "rate", 2.5, "name", "n", "flag", true),
			Src: "acc := 0\nfor i := 0; i < limit; i++ { acc += i + id }\nr := rate * 2.0\ns := name + string(id)\nf := flag ? id : -id\nout := [limit, rate, name, flag, acc, r, s, f]\n"},
		{Name: "set-immutable", IDVar: "id", SetVars: obj("cfg", imm(obj("hits", arr(0, 0), "opts", obj("n", 0)))),
			Src: "cfg.hits[0] = id\ncfg.opts.n = id + 1\n" + loop("cfg.hits[0] + cfg.opts.n") + "out := [cfg.hits, cfg.opts, acc]\n"},
		// literals the script assigns: a global holds the constant object itself after a run
		{Name: "literal-globals-after-run", IDVar: "id", AfterRun: true, Runs: 2,
			Src: "limit := 10\nrate := 1.5\nname := \"lit\"\nch := 'c'\nacc := 0\nfor i := 0; i < limit; i++ { acc += i + id }\nout := [limit, rate, name, ch, acc]\n"},
		// Compiled.Set over a global that holds a literal of the script after a run (round 10, seeded change C08-m13: Set
		// wrote the new number INTO the existing object, i.e. into the constant every clone shares): the id variable
		// itself is what the script assigned from a literal; every clone sets it, runs, and must read its own value
		{Name: "set-over-literal-global", IDVar: "lim", AfterRun: true, Runs: 2,
			Src: "seen := lim\nacc := 0\nfor i := 0; i < 50; i++ { acc += seen + i }\nlim = 10\nrate := 2.5\nout := [seen, acc, lim, rate]\n"},
		{Name: "set-over-literal-global-chain", IDVar: "lim", AfterRun: true, Chain: true,
			Src: "seen := lim\nlim = 7\nk := 7\nout := [seen, lim, k, 7]\n"},
		// clone of a clone of a clone …
		{Name: "chain-mutate-inputs", IDVar: "id", Chain: true, Vars: obj("arr", arr(0, arr(0, 0), obj("z", 0)), "e", errV(arr(0))),
			Src: "arr[0] = id\narr[1][0] = id * 2\narr[2].z = id + 5\ne.value[0] = id + 6\n" + loop("arr[0] + arr[1][0] + arr[2].z + e.value[0]") + "out := [arr, e.value, acc]\n"},
		{Name: "chain-after-run", IDVar: "id", Chain: true, AfterRun: true,
			Src: "st := {n: [0], im: immutable({l: [0]})}\nst.n[0] += id\nst.im.l[0] += id + 1\n" + loop("st.n[0] + st.im.l[0]") + "out := [st.n, st.im.l, acc]\n"},
	}
	// seed-dependent shapes: a mutable leaf below a random stack of error / immutable / array / map layers
	r := lib.NewRNG(seed*7919 + 17)
	for n := 0; n < 6; n++ {
		depth := 2 + r.Intn(4)
		var v interface{} = arr(0, 0)
		path := "[1]"
		for d := 0; d < depth; d++ {
			switch r.Intn(5) {
			case 0:
				v, path = errV(v), ".value"+path
			case 1:
				v, path = imm(arr(7, v)), "[1]"+path
			case 2:
				v, path = imm(obj("k", v)), ".k"+path
			case 3:
				v, path = arr(v, 3), "[0]"+path
			default:
				v, path = obj("q", v), ".q"+path
			}
		}
		name := "deep-random-" + strconv.Itoa(n)
		sc := Scenario{Name: name, IDVar: "id",
			Src: "x" + path + " = id + " + strconv.Itoa(n) + "\n" + loop("x"+path) + "out := [x" + path + ", acc]\n"}
		switch r.Intn(3) {
		case 0:
			sc.Vars = obj("x", v)
		case 1:
			sc.SetVars = obj("x", v)
		default:
			sc.Vars, sc.Chain = obj("x", v), true
		}
		scs = append(scs, sc)
	}
	return scs
}

// aliasSearch: two globals of the original refer to the SAME container; after Clone each clone updates it through
// one name and reads it through both. Whatever a clone does to its own aliasing, no clone may see another clone's
// (or the original's) update: the result of a clone among K equals its result alone. Random shapes and paths.
func aliasSearch(r *lib.RNG, n int) {
	kinds := []string{"arr", "map", "err", "imm"}
	seen := map[string]bool{}
	var list []Scenario
	for i := 0; i < n && len(list) < 24; i++ {
		k := lib.Pick(r, kinds)
		after := r.Intn(2) == 0
		two := r.Intn(2) == 0
		var mk, wr, rd string
		switch k {
		case "arr":
			mk, wr, rd = "[0, [0]]", "a[1][0] = id + %d", "a[1][0] + b[1][0]"
		case "map":
			mk, wr, rd = "{k: [0], n: 0}", "a.k[0] = id + %d", "a.k[0] + b.k[0]"
		case "err":
			mk, wr, rd = "error([0])", "a.value[0] = id + %d", "a.value[0] + b.value[0]"
		default:
			mk, wr, rd = "immutable([[0]])", "a[0][0] = id + %d", "a[0][0] + b[0][0]"
		}
		off := r.Intn(9)
		src := "a := " + mk + "\nb := a\n"
		if two {
			src += "c := [a, b]\n"
		}
		src += fmt.Sprintf(wr, off) + "\nacc := 0\nfor i := 0; i < 30; i++ { acc += " + rd + " }\nout := acc\n"
		if seen[src+strconv.FormatBool(after)] {
			continue
		}
		seen[src+strconv.FormatBool(after)] = true
		list = append(list, Scenario{Name: "alias-" + k + "-" + strconv.Itoa(len(list)), IDVar: "id", AfterRun: after, Src: src})
	}
	sort.Slice(list, func(i, j int) bool { return list[i].Name < list[j].Name })
	for _, sc := range list {
		runScenario(sc, r.Fork(), 1, []int{2, 4})
		res.Dist("alias:" + sc.Name[:9])
	}
}

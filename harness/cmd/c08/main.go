// Command c08: searchers and correspondence for C08 (clones of a compiled script run concurrently
// without interference).
//
// Streams (every concurrent trial runs in a WORKER process: this binary re-executed with the environment
// variable VERIF_C08_CHILD=<json childSpec>, see worker.go — a Go runtime fatal error such as "concurrent
// map writes" cannot be recovered, so the parent only supervises: a worker that dies is turned into a
// violation whose input is the trial that was in flight, and a new worker continues with the next
// scenario. The same loop runs again inside a `-race` build of this command that the command builds
// itself; that worker attributes every race report to the trial that produced it)
//
//	clones    K ∈ {2,4,8} clones of one compiled program run on K goroutines (random GOMAXPROCS, Gosched
//	          injected through tengo.VerifProbe, Run/RunContext mixed) — per-clone error text + GetAll must
//	          equal the clone's solo result; the original must be unchanged. One repetition runs the clones
//	          one after another in random order (pure isolation, no timing involved).
//	api       concurrent Get/GetAll/IsDefined/Size/Clone/Set/Run/RunContext on ONE Compiled: no panic, clones
//	          taken meanwhile behave like solo clones, the final state equals the solo state; under -race:
//	          no report.
//	          Programs with Cancel (long loops): RunContext calls whose context is cancelled at the k-th dispatched
//	          instruction / times out mid-run, overlapped by the other calls; the probe reports a VM of the object that
//	          still dispatches after its Run/RunContext call returned (cancel.go).
//	          Programs with Pre: clones of a second script fail inside format (string limit) right before the
//	          concurrent part; the format-heavy clones must still yield their solo results.
//	shape     (model) which nodes of Clone()'s globals are new objects vs shared with the original, compared
//	          with `copy` of Tengo/Model/Clone.lean (driver line `cloneshape`).
//	probes    dedicated inputs of the known findings O14 O15 O16 C08-K1 C08-K2 (KnownHits while they still fail).
//
// Oracles never use timing: only final states are compared.
package main

import (
	"context"
	"flag"
	"fmt"
	"os"
	"os/exec"
	"path/filepath"
	"reflect"
	"runtime"
	"sort"
	"strconv"
	"strings"
	"sync"
	"sync/atomic"
	"time"

	"github.com/d5/tengo/v2"
	"github.com/d5/tengo/v2/stdlib"
	"verifharness/lib"
)

// Scenario is one program with its host-side configuration (JSON: it is the replay input).
type Scenario struct {
	Name     string                 `json:"name"`
	Src      string                 `json:"src"`
	Vars     map[string]interface{} `json:"vars,omitempty"`     // Script.Add before Compile
	IDVar    string                 `json:"id_var,omitempty"`   // clone i gets Set(IDVar, 100+7i)
	SrcMods  map[string]string      `json:"src_mods,omitempty"` // source modules
	Stdlib   []string               `json:"stdlib,omitempty"`
	Builtin  bool                   `json:"builtin,omitempty"`   // builtin module "mod" {id: 7}; clone i replaces it by {id: 1000+i}
	AfterRun bool                   `json:"after_run,omitempty"` // the original is run once before it is cloned
	Runs     int                    `json:"runs,omitempty"`      // runs per clone (default 1)
	Pre      string                 `json:"pre,omitempty"`       // a script whose clones run alone, one after another, right before the clones / goroutines start (it is expected to fail with the string-limit error inside format)
	PreRuns  int                    `json:"pre_runs,omitempty"`  // … this many times
	Cancel   bool                   `json:"cancel,omitempty"`    // long-running program: api trials only, with RunContext calls cancelled / timing out mid-run (cancel.go)
	API      bool                   `json:"api,omitempty"`       // the program re-initialises everything it accumulates in its inputs: the api stream applies although Vars are given
	SetVars  map[string]interface{} `json:"set_vars,omitempty"`  // round 8: Compiled.Set on the ORIGINAL after Compile, before anything is cloned (declared by Add(name, nil) first)
	Chain    bool                   `json:"chain,omitempty"`     // round 8: clone i (i > 0) is taken from clone i-1, not from the original (clone of a clone of …)
}

// Trial: one concurrent execution of a scenario.
type Trial struct {
	Scenario Scenario `json:"scenario"`
	K        int      `json:"k"`
	Procs    int      `json:"gomaxprocs"` // 0: clones run one after another in Order
	YieldMod int      `json:"yield_mod"`
	YieldPh  int      `json:"yield_phase"`
	Ctx      []bool   `json:"run_context"` // clone i uses RunContext
	Order    []int    `json:"order,omitempty"`
	Mode     string   `json:"mode"` // "clones" | "api"
	Seed     uint64   `json:"seed"`
	Race     bool     `json:"race_build"`
	Plans    [][]Op   `json:"plans,omitempty"` // api: the calls of goroutine i (filled in by apiTrial; a replay re-runs exactly these)
}

// Op is one API call of an api trial. Kind: 0 Get, 1 GetAll, 2 IsDefined, 3 Size, 4 Set(id), 5 Clone+Set+Run,
// 6 Run, 7 RunContext; scenarios with Cancel only: 8 RunContext cancelled at the Val-th dispatched instruction of
// the run (At = "write": at the first global write from there on), 9 RunContext with a deadline of Val µs.
type Op struct {
	Kind int    `json:"kind"`
	Name string `json:"name,omitempty"`
	Val  int64  `json:"val"`
	At   string `json:"at,omitempty"`
}

var (
	res     *lib.Result
	rlog    *raceLog
	flags   *lib.Flags
	isChild bool
	noRace  bool

	// read by the probe on every VM goroutine; written only between trials (atomics: a VM goroutine that
	// outlives its trial must not turn into a race report about the harness)
	yieldMod, yieldPh atomic.Int64
)

func init() {
	// generated programs may double a string in nested loops: under the default limit (2 GiB) one such run
	// allocates gigabytes per clone. Solo and concurrent runs see the same limit (set once, before any VM runs).
	tengo.MaxStringLen, tengo.MaxBytesLen = 1<<20, 1<<20
	tengo.VerifProbe = func(v *tengo.VM, fn *tengo.CompiledFunction, ip, sp, bp, fi int, allocs int64) {
		if m := int(yieldMod.Load()); m > 0 && (ip*31+sp*7+fi)%m == int(yieldPh.Load()) {
			runtime.Gosched()
		}
		if w := watch.Load(); w != nil {
			w.dispatch(v, fn, ip)
		}
	}
}

// ---- building and running ----

func normVal(v interface{}) interface{} {
	switch x := v.(type) {
	case float64:
		if x == float64(int64(x)) {
			return int64(x)
		}
	case []interface{}:
		out := make([]interface{}, len(x))
		for i := range x {
			out[i] = normVal(x[i])
		}
		return out
	case map[string]interface{}:
		if imm, ok := x["__imm"]; ok && len(x) == 1 { // {"__imm": [...]} / {"__imm": {...}}: an immutable array / map
			switch y := normVal(imm).(type) {
			case []interface{}:
				if o, err := tengo.FromInterface(y); err == nil {
					return &tengo.ImmutableArray{Value: o.(*tengo.Array).Value}
				}
			case map[string]interface{}:
				if o, err := tengo.FromInterface(y); err == nil {
					return &tengo.ImmutableMap{Value: o.(*tengo.Map).Value}
				}
			}
			return nil
		}
		if o, ok := taggedVal(x); ok { // round 8 (deep.go): {"__err": v}, {"__bytes": "…"}, {"__box": n}
			return o
		}
		out := map[string]interface{}{}
		for k, e := range x {
			out[k] = normVal(e)
		}
		return out
	case int:
		return int64(x)
	}
	return v
}

func prepare(sc Scenario) (*tengo.Compiled, error) {
	s := tengo.NewScript([]byte(sc.Src))
	names := make([]string, 0, len(sc.Vars))
	for n := range sc.Vars {
		names = append(names, n)
	}
	sort.Strings(names)
	for _, n := range names {
		if err := s.Add(n, normVal(sc.Vars[n])); err != nil {
			return nil, err
		}
	}
	if sc.IDVar != "" {
		_ = s.Add(sc.IDVar, int64(0))
	}
	setNames := make([]string, 0, len(sc.SetVars))
	for n := range sc.SetVars {
		setNames = append(setNames, n)
		if _, ok := sc.Vars[n]; !ok {
			_ = s.Add(n, nil)
		}
	}
	sort.Strings(setNames)
	mm := stdlib.GetModuleMap(sc.Stdlib...)
	for n, src := range sc.SrcMods {
		mm.AddSourceModule(n, []byte(src))
	}
	if sc.Builtin {
		mm.AddBuiltinModule("mod", map[string]tengo.Object{"id": &tengo.Int{Value: 7}, "tag": &tengo.Int{Value: 1}})
	}
	s.SetImports(mm)
	c, err := s.Compile()
	if err != nil {
		return nil, err
	}
	for _, n := range setNames {
		if err := c.Set(n, normVal(sc.SetVars[n])); err != nil {
			return nil, err
		}
	}
	return c, nil
}

func idOf(i int) int64 { return int64(100 + 7*i) }

func configure(c *tengo.Compiled, sc Scenario, i int) {
	if sc.IDVar != "" {
		_ = c.Set(sc.IDVar, idOf(i))
	}
	if sc.Builtin {
		c.ReplaceBuiltinModule("mod", map[string]tengo.Object{"id": &tengo.Int{Value: int64(1000 + i)}, "tag": &tengo.Int{Value: 1}})
	}
}

func runOne(c *tengo.Compiled, useCtx bool) (out string) {
	defer func() {
		if p := recover(); p != nil {
			out = "panic: " + fmt.Sprint(p)
		}
	}()
	var err error
	if useCtx {
		ctx, cancel := context.WithTimeout(context.Background(), 60*time.Second)
		defer cancel()
		err = c.RunContext(ctx)
	} else {
		err = c.Run()
	}
	if err != nil {
		return "err: " + err.Error()
	}
	return "ok"
}

func snapshot(c *tengo.Compiled) string {
	vs := c.GetAll()
	parts := make([]string, 0, len(vs))
	for _, v := range vs {
		parts = append(parts, v.Name()+"="+lib.Canon(v.Object()))
	}
	sort.Strings(parts)
	return strings.Join(parts, " ")
}

func runs(sc Scenario) int {
	if sc.Runs > 1 {
		return sc.Runs
	}
	return 1
}

func runClone(c *tengo.Compiled, sc Scenario, useCtx bool) string {
	r := ""
	for j := 0; j < runs(sc); j++ {
		r += runOne(c, useCtx) + " ; "
	}
	return r
}

// provoke runs clones of the scenario's Pre script alone, one after another (each on a goroutine of its own that
// is joined before the next one starts): an execution that fails — with the string-limit error inside format —
// must not change what any later execution yields. Called from the main goroutine only.
func provoke(sc Scenario) string {
	if sc.Pre == "" {
		return ""
	}
	s := tengo.NewScript([]byte(sc.Pre))
	s.SetImports(stdlib.GetModuleMap(sc.Stdlib...))
	pc, err := s.Compile()
	if err != nil {
		return "pre: " + err.Error()
	}
	n, out := sc.PreRuns, ""
	if n < 1 {
		n = 1
	}
	for j := 0; j < n; j++ {
		done := make(chan string)
		go func(ctx bool) { done <- runOne(pc.Clone(), ctx) }(j%2 == 1)
		o := <-done
		if !strings.Contains(o, tengo.ErrStringLimit.Error()) {
			res.Dist("pre-run-without-string-limit-error")
		}
		out += o + " ; "
	}
	return out
}

// clip shortens the two sides of a failed comparison of long results to the region of the first difference.
func clip(got, want string) (string, string) {
	const max, ctx = 1500, 300
	if len(got) <= max && len(want) <= max {
		return got, want
	}
	i := 0
	for i < len(got) && i < len(want) && got[i] == want[i] {
		i++
	}
	cut := func(s string) string {
		lo, hi := i-ctx, i+ctx
		if lo < 0 {
			lo = 0
		}
		if hi > len(s) {
			hi = len(s)
		}
		if lo > hi {
			lo = hi
		}
		return fmt.Sprintf("(%d bytes; first difference at byte %d) …%s…", len(s), i, s[lo:hi])
	}
	return cut(got), cut(want)
}

// rune caches of String objects reachable from the constants of c (read through reflection only)
func runeCacheFilled(c *tengo.Compiled) bool {
	bc := reflect.ValueOf(c).Elem().FieldByName("bytecode")
	if !bc.IsValid() || bc.IsNil() {
		return false
	}
	ks := bc.Elem().FieldByName("Constants")
	if !ks.IsValid() {
		return false
	}
	for i := 0; i < ks.Len(); i++ {
		if objCacheFilled(ks.Index(i), 0) {
			return true
		}
	}
	return false
}

func objCacheFilled(v reflect.Value, depth int) bool {
	for v.IsValid() && (v.Kind() == reflect.Interface || v.Kind() == reflect.Ptr) {
		if v.IsNil() {
			return false
		}
		v = v.Elem()
	}
	if !v.IsValid() || v.Kind() != reflect.Struct || depth > 6 {
		return false
	}
	switch v.Type().Name() {
	case "String":
		f := v.FieldByName("runeStr")
		return f.IsValid() && !f.IsNil()
	case "Array", "ImmutableArray":
		s := v.FieldByName("Value")
		for i := 0; i < s.Len(); i++ {
			if objCacheFilled(s.Index(i), depth+1) {
				return true
			}
		}
	case "Map", "ImmutableMap":
		it := v.FieldByName("Value").MapRange()
		for it.Next() {
			if objCacheFilled(it.Value(), depth+1) {
				return true
			}
		}
	}
	return false
}

// solo: clone i of a FRESH compile, configured and run alone. Returns per-clone results, the
// original's snapshot at clone time, and whether a solo run filled a rune cache of a constant.
type soloRes struct {
	clone    []string
	orig     string
	touches  bool
	unstable bool
	err      error
}

func solo(sc Scenario, k int) soloRes {
	var r soloRes
	mark("solo", Trial{Scenario: sc, K: k})
	for i := 0; i < k; i++ {
		if i > 0 && sc.IDVar == "" && !sc.Builtin {
			r.clone = append(r.clone, r.clone[0]) // all clones are configured alike: same program, same inputs
			continue
		}
		var first string
		for rep := 0; rep < 2; rep++ { // twice: a program whose result is not a function of its inputs is skipped
			if rep == 1 && raceEnabled && i > 0 {
				break // the -race child re-runs programs the parent already screened; one stability check suffices
			}
			base, err := prepare(sc)
			if err != nil {
				r.err = err
				return r
			}
			if sc.AfterRun {
				runOne(base, false)
			}
			if i == 0 && rep == 0 {
				r.orig = snapshot(base)
			}
			cl := base.Clone()
			configure(cl, sc, i)
			provoke(sc)
			out := runClone(cl, sc, rep == 1) + "| " + snapshot(cl)
			if rep == 0 {
				first = out
			} else if out != first {
				r.unstable = true
			}
			if runeCacheFilled(base) {
				r.touches = true
			}
		}
		r.clone = append(r.clone, first)
	}
	return r
}

func setSched(t Trial) int {
	old := runtime.GOMAXPROCS(0)
	if t.Procs > 0 {
		runtime.GOMAXPROCS(t.Procs)
	}
	yieldMod.Store(int64(t.YieldMod))
	yieldPh.Store(int64(t.YieldPh))
	return old
}

func resetSched(old int) {
	runtime.GOMAXPROCS(old)
	yieldMod.Store(0)
	yieldPh.Store(0)
}

// handleRaces attributes the race reports written since the last call to trial t.
func handleRaces(t Trial, stream string) {
	for _, r := range rlog.next() {
		res.Dist("race-report")
		if id := r.classify(); id != "" {
			res.Dist("race-report-known-" + id)
			addKnown(id)
			continue
		}
		if !r.Tengo {
			res.Disagree(lib.Disagreement{Stream: stream, Input: t, Model: "no data race inside the harness", Impl: r.Text})
			continue
		}
		violate(lib.Violation{Signature: r.signature(), Stream: stream + "-race", Input: t, Observed: r.Text,
			Expected: "no data race report with tengo frames", Oracle: "Go race detector (-race build of this harness) during this trial"})
	}
}

// violate records a violation and flushes the result file at once: a later Go-fatal error of the code
// under test (concurrent map writes cannot be recovered) must not lose it.
func violate(v lib.Violation) {
	res.Violate(v)
	nViol++
	if flags.Out != "" {
		res.Write(flags.Out)
	}
}

var nViol int

var knownSeen = map[string]bool{}

func addKnown(id string) {
	if !knownSeen[id] {
		knownSeen[id] = true
		res.KnownHits = append(res.KnownHits, id)
	}
}

// cloneTrial runs one trial of stream `clones`.
func cloneTrial(t Trial, so soloRes) {
	sc := t.Scenario
	orig, err := prepare(sc)
	if err != nil {
		return
	}
	if sc.AfterRun {
		runOne(orig, false)
	}
	if so.touches { // stay away from O15: fill the rune caches of the constants before anything runs concurrently
		w := orig.Clone()
		configure(w, sc, 0)
		runClone(w, sc, false)
	}
	before := snapshot(orig)
	mark("trial", t)
	cl := make([]*tengo.Compiled, t.K)
	for i := range cl {
		from := orig
		if sc.Chain && i > 0 {
			from = cl[i-1] // clone of a clone: taken before anything ran
		}
		cl[i] = from.Clone()
		configure(cl[i], sc, i)
	}
	outs := make([]string, t.K)
	old := setSched(t)
	provoke(sc) // after GOMAXPROCS is set: per-P caches of the runtime (sync.Pool) are re-made when it changes
	if t.Procs == 0 {
		for _, i := range t.Order {
			outs[i] = runClone(cl[i], sc, t.Ctx[i])
		}
	} else {
		var wg sync.WaitGroup
		start := make(chan struct{})
		for i := range cl {
			wg.Add(1)
			go func(i int) {
				defer wg.Done()
				<-start
				outs[i] = runClone(cl[i], sc, t.Ctx[i])
			}(i)
		}
		close(start)
		wg.Wait()
	}
	resetSched(old)
	handleRaces(t, "clones")
	if before != so.orig {
		violate(lib.Violation{Signature: "original-differs-from-solo-original", Stream: "clones", Input: t,
			Observed: before, Expected: so.orig, Oracle: "state of the original at clone time is a function of program and inputs"})
		return
	}
	if after := snapshot(orig); after != before {
		violate(lib.Violation{Signature: "clone-run-changes-original", Stream: "clones", Input: t,
			Observed: after, Expected: before, Oracle: "GetAll of the original before vs after its clones were configured and run"})
	}
	for i := range cl {
		got := outs[i] + "| " + snapshot(cl[i])
		if got != so.clone[i] {
			g, w := clip(got, so.clone[i])
			violate(lib.Violation{Signature: "clone-differs-from-solo", Stream: "clones", Input: t,
				Observed: fmt.Sprintf("clone %d: %s", i, g), Expected: fmt.Sprintf("clone %d alone: %s", i, w),
				Oracle: "error text and GetAll of clone i after the trial vs the same clone of a fresh compile run alone"})
			return
		}
	}
}

// apiTrial: concurrent API calls on ONE Compiled.
func apiTrial(t Trial, r *lib.RNG) {
	sc := t.Scenario
	c, err := prepare(sc)
	if err != nil {
		return
	}
	names := []string{}
	for _, v := range c.GetAll() {
		names = append(names, v.Name())
	}
	sort.Strings(names)
	if len(names) == 0 {
		return
	}
	// what a clone taken at any time and run with id k must yield
	var cacheMu sync.Mutex
	cache := map[int64]string{}
	soloClone := func(k int64) (out string) {
		cacheMu.Lock()
		defer cacheMu.Unlock()
		if s, ok := cache[k]; ok {
			return s
		}
		defer func() { cache[k] = out }()
		b, _ := prepare(sc)
		x := b.Clone()
		if sc.IDVar != "" {
			_ = x.Set(sc.IDVar, k)
		}
		return runOne(x, false) + " | " + snapshot(x)
	}
	warm := func() { // O15 avoidance as in cloneTrial
		b, _ := prepare(sc)
		runOne(b, false)
		if runeCacheFilled(b) {
			runOne(c, false)
		}
	}
	warm()
	g := t.K
	if len(t.Plans) != g { // a replayed trial brings its plans; otherwise they are drawn here
		t.Plans = make([][]Op, g)
		for i := range t.Plans {
			n, vals := 6+r.Intn(10), 50
			if raceEnabled {
				n, vals = 4+r.Intn(5), 3
			}
			for j := 0; j < n; j++ {
				if !sc.Cancel {
					t.Plans[i] = append(t.Plans[i], Op{Kind: r.Weighted([]int{4, 3, 3, 2, 3, 3, 2, 1}), Name: lib.Pick(r, names), Val: int64(r.Intn(vals))})
					continue
				}
				o := Op{Kind: r.Weighted([]int{4, 3, 1, 1, 3, 2, 1, 1, 6, 4}), Name: lib.Pick(r, names), Val: int64(r.Intn(vals))}
				switch o.Kind {
				case 8:
					o.Val, o.At = int64(1+r.Intn(3000)), lib.Pick(r, []string{"any", "write", "write"})
				case 9:
					o.Val = int64(200 + r.Intn(2300))
				}
				t.Plans[i] = append(t.Plans[i], o)
			}
		}
	}
	plans := t.Plans
	mark("trial", t)
	bad := make([]string, g)
	old := setSched(t)
	provoke(sc)
	var w *runWatch
	if sc.Cancel {
		if w = newRunWatch(c); w == nil {
			res.Dist("cancel-oracle-unavailable-vm-layout-changed")
		}
		watch.Store(w)
	}
	var wg sync.WaitGroup
	start := make(chan struct{})
	for i := 0; i < g; i++ {
		wg.Add(1)
		go func(i int) {
			defer wg.Done()
			defer func() {
				if p := recover(); p != nil {
					bad[i] = "panic: " + fmt.Sprint(p)
				}
			}()
			<-start
			for _, o := range plans[i] {
				switch o.Kind {
				case 0:
					if v := c.Get(o.Name); v == nil || v.Name() != o.Name {
						bad[i] = "Get(" + o.Name + ") returned a variable with another name"
					}
				case 1:
					if vs := c.GetAll(); len(vs) != len(names) {
						bad[i] = fmt.Sprintf("GetAll returned %d variables, want %d", len(vs), len(names))
					}
				case 2:
					c.IsDefined(o.Name)
				case 3:
					if c.Size() <= 0 {
						bad[i] = "Size() <= 0"
					}
				case 4:
					if sc.IDVar != "" {
						if err := c.Set(sc.IDVar, o.Val); err != nil {
							bad[i] = "Set: " + err.Error()
						}
					}
				case 5:
					x := c.Clone()
					if sc.IDVar != "" {
						_ = x.Set(sc.IDVar, o.Val)
					}
					got := runOne(x, false) + " | " + snapshot(x)
					// a failing run leaves globals of the state at clone time: only successful runs are a function of id
					if want := soloClone(o.Val); strings.HasPrefix(want, "ok") && got != want {
						bad[i] = "clone taken during concurrent use: " + got + " ; alone: " + want
					}
				case 6, 7, 8, 9:
					if w != nil {
						if b := w.runWatched(c, o); b != "" {
							bad[i] = b
						}
					} else if o.Kind <= 7 {
						runOne(c, o.Kind == 7)
					}
				}
			}
		}(i)
	}
	close(start)
	wg.Wait()
	watch.Store(nil)
	resetSched(old)
	handleRaces(t, "api")
	if w != nil {
		w.mu.Lock()
		sig, obs, holds := w.sig, w.viol, w.holds
		w.mu.Unlock()
		res.Distribution["api-cancel-triggered-mid-run"] += holds
		if obs != "" {
			violate(lib.Violation{Signature: sig, Stream: "api", Input: t, Observed: obs,
				Expected: "when Run/RunContext returns, the execution it started is over: no instruction of that run is dispatched afterwards",
				Oracle:   "tengo.VerifProbe on the VM that works on this object's globals; run-type calls on the object are serialised by the harness, each marked as returned right after the call; schedule-independent (see cancel.go)"})
			return
		}
	}
	for i, b := range bad {
		if b != "" {
			violate(lib.Violation{Signature: "api-concurrent-misbehaves", Stream: "api", Input: t,
				Observed: fmt.Sprintf("goroutine %d: %s", i, b), Expected: "every call behaves as if calls were serialised",
				Oracle: "concurrent Get/GetAll/IsDefined/Size/Clone/Set/Run/RunContext on one Compiled"})
			return
		}
	}
	// final state: a function of the last Set and the program
	if sc.IDVar != "" {
		_ = c.Set(sc.IDVar, int64(77))
	}
	got := runOne(c, false) + " | " + snapshot(c)
	b, _ := prepare(sc)
	if sc.IDVar != "" {
		_ = b.Set(sc.IDVar, int64(77))
	}
	want := runOne(b, false) + " | " + snapshot(b)
	if (sc.IDVar == "" || strings.HasPrefix(want, "ok")) && got != want {
		violate(lib.Violation{Signature: "api-final-state-differs", Stream: "api", Input: t, Observed: got, Expected: want,
			Oracle: "after all goroutines joined: Set(id,77); Run; GetAll vs a fresh compile"})
	}
}

// ---- scenarios ----

var libModule = "export {\n  sum: func(a) { s := 0; for x in a { s += x }; return s },\n  upto: func(n) { r := []; for i := 0; i < n; i++ { r = append(r, i) }; return r },\n  box: func(v) { c := v; return {get: func() { return c }, add: func(d) { c += d; return c }} }\n}\n"

func targeted() []Scenario {
	nested := map[string]interface{}{
		"arr": []interface{}{0, 0, []interface{}{0, 0}, map[string]interface{}{"z": 0}},
		"m":   map[string]interface{}{"a": 0, "n": map[string]interface{}{"x": 0}, "l": []interface{}{0, 1}},
	}
	return []Scenario{
		{Name: "mutate-inputs", IDVar: "id", Vars: nested,
			Src: "arr[0] = id\narr[2][1] = id * 2\narr[3].z = id + 5\nm.a = id\nm.n.x = id + 1\nm.l[0] = id - 1\nacc := 0\nfor i := 0; i < 60; i++ { arr[1] = arr[0] + i; acc += arr[1] + m.a + arr[2][1] + m.n.x + m.l[0] + arr[3].z }\nout := [arr, m, acc]\n"},
		{Name: "mutate-inputs-after-run", IDVar: "id", Vars: nested, AfterRun: true, Runs: 2,
			Src: "arr[0] += id\narr[2][0] += 1\nm.n.x += id\nm.l = append(m.l, id)\nout := [arr, m]\n"},
		{Name: "closures-in-globals", IDVar: "id",
			Src: "mk := func(start) { c := start; return {inc: func(d) { c += d; return c }, get: func() { return c }} }\nk := mk(id)\nfor i := 0; i < 40; i++ { k.inc(i) }\nout := k.get()\nf := func(x) { return x + id }\ng := f(1)\n"},
		{Name: "closures-after-run", IDVar: "id", AfterRun: true,
			Src: "n := 0\ninc := func() { n += id; return n }\nfor i := 0; i < 25; i++ { inc() }\nout := n\n"},
		{Name: "modules", IDVar: "id", Stdlib: []string{"math", "text", "times", "json"}, SrcMods: map[string]string{"lib": libModule},
			Src: "lib := import(\"lib\")\nmath := import(\"math\")\ntext := import(\"text\")\njson := import(\"json\")\nb := lib.box(id)\nfor i in lib.upto(id % 7 + 3) { b.add(i) }\nout := lib.sum(lib.upto(id % 9 + 2)) + math.abs(-id) + b.get()\ns := text.repeat(\"ab\", id % 5 + 1) + string(id)\nt := text.to_upper(s)\nj := string(json.encode({a: [id, s]}))\n"},
		{Name: "builtin-module-replaced", Builtin: true,
			Src: "mod := import(\"mod\")\nout := mod.id\nacc := 0\nfor i := 0; i < 40; i++ { acc += mod.id + mod.tag }\n"},
		{Name: "runtime-error", IDVar: "id",
			Src: "f := func(a) { return a + \"s\" }\nn := 0\nfor i := 0; i < id % 5 + 2; i++ { n += i }\nr := (id % 2 == 0) ? f(n) : n\nlate := [1, 2, 3][id % 3] + undefined\n"},
		{Name: "runtime-error-in-loop", IDVar: "id", Vars: map[string]interface{}{"arr": []interface{}{1, 2, 3}},
			Src: "acc := 0\nfor i := 0; i < 100; i++ {\n  arr[i % 3] += id\n  if i == id % 50 + 10 { acc = acc + [] }\n  acc += arr[i % 3]\n}\n"},
		{Name: "built-strings", IDVar: "id",
			Src: "s := \"ab\" + string(id) + \"é\"\nc := s[1]\nn := 0\nfor ch in s { n += 1 }\nu := s[1:3]\nb := bytes(s)\nb2 := b[0]\n"},
		{Name: "thawed-immutable-inputs", IDVar: "id", // Clone turns an immutable input into a mutable copy
			Vars: map[string]interface{}{"cfg": map[string]interface{}{"__imm": map[string]interface{}{"a": 0, "l": []interface{}{0, 1}, "im": map[string]interface{}{"__imm": []interface{}{1, []interface{}{2}}}}}},
			Src:  "cfg.a = id\ncfg.l[0] = id + 1\ncfg.im[1][0] = id + 2\nacc := 0\nfor i := 0; i < 40; i++ { acc += cfg.a + cfg.l[0] + cfg.im[1][0] }\nout := cfg\n"},
		{Name: "immutable-inputs", IDVar: "id", Vars: map[string]interface{}{"cfg": map[string]interface{}{"k": []interface{}{1, 2}}},
			Src: "im := immutable(cfg)\ncfg.k[0] = id\ncp := copy(cfg)\ncp.k[1] = id + 1\nout := [im, cfg, cp]\ne := error(cfg)\n"},
	}
}

// targetedLate: scenarios added after the first evaluation of seeded changes. They run AFTER the generated
// programs, so the program sequence of a seed (scenario i draws from the i-th fork) is the one it always was.
func targetedLate() []Scenario {
	late := []Scenario{
		// an execution whose format output exceeds tengo.MaxStringLen fails; the clones that call format afterwards
		// (at the same time) must still get what they get alone
		{Name: "format-after-limit-error", IDVar: "id", Pre: "x := format(\"%2000000d\", 1)\n", PreRuns: 8,
			Src: "out := []\nfor i := 0; i < 120; i++ {\n  out = append(out, format(\"%d|%5d|%-6s|%q|%v|%x|%08.3f|%c|%t|%o\", id + i, i, \"ab\", \"q\" + string(i), [i, \"s\", id], id * i + 255, float(i) / 8, 'a' + i % 26, i % 2 == 0, i))\n}\nn := len(out)\n"},
		{Name: "format-containers-after-limit-error", IDVar: "id", Stdlib: []string{"fmt"}, Pre: "x := format(\"%-1048577s|\", \"a\")\n", PreRuns: 5,
			Src: "fmt := import(\"fmt\")\nres := {}\nfor i := 0; i < 100; i++ {\n  a := format(\"%v %v\", [i, [id, \"x\"], {k: i}], {only: [i, id]})\n  b := fmt.sprintf(\"%10.3s|%-8v|%+d|%T\", \"abcdef\" + string(i), error(i), id - i, i)\n  c := format(\"%s=%v;%5.1f;%b\", \"k\" + string(i), immutable([i]), float(id) / 3, i)\n  res[string(i)] = [a, b, c]\n}\n"},
		// the failing format call happens inside every second clone (first of its two runs), while the others format
		{Name: "format-limit-error-inside-clones", IDVar: "id", Vars: map[string]interface{}{"n": 0}, Runs: 2,
			Src: "n += 1\nif n == 1 && id % 2 == 0 { boom := format(\"%3000000d\", id) }\nout := []\nfor i := 0; i < 120; i++ { out = append(out, format(\"%d:%s:%v:%6.2f:%x\", i + id, \"v\" + string(i), [id, i], float(i) / 7, i * id)) }\n"},
		// long-running programs for cancelled / timed-out RunContext calls on one object (api stream, cancel.go)
		{Name: "cancel-long-loop", IDVar: "id", Cancel: true,
			Src: "a := 0\nm := {k: 0}\narr := [0, 0, 0]\nfor i := 0; i < 800; i++ { a = a + 1; m.k = a + id; arr[i % 3] = a }\nout := a + id\n"},
		{Name: "cancel-calls-and-map-writes", IDVar: "id", Cancel: true,
			Src: "f := func(x) { return x * 2 + 1 }\ntot := 0\nm := {}\nfor i := 0; i < 600; i++ { tot = f(tot) % 1000003 + id; m[string(i % 7)] = tot }\ns := \"\"\nfor i := 0; i < 50; i++ { s = s + string(i % 10) }\n"},
	}
	return append(late, nestedInImmutable()...)
}

func imm(v interface{}) map[string]interface{} { return map[string]interface{}{"__imm": v} }

// nestedInImmutable (round 3, seeded change C08-m6): only the OUTER container of an immutable array / map is
// immutable; an array or map inside it is updated in place by `cfg.hits[0] = …` / `cfg.opts.n = …` (the immutable
// container is only read on the way). Each clone must own such nested values as it owns every other part of its
// globals. The immutable global exists at Clone() time: added by the host before Compile, or made by a first Run
// of the original (`immutable(…)`, the export of a source module). Updates go through index and selector
// assignment only (an `append` makes a new array: no update in place); the immutable container itself is never
// assigned to, so the programs run the same whether a clone holds it immutable or thawed.
func nestedInImmutable() []Scenario {
	arr := func(xs ...interface{}) []interface{} { return xs }
	obj := func(kv ...interface{}) map[string]interface{} {
		m := map[string]interface{}{}
		for i := 0; i+1 < len(kv); i += 2 {
			m[kv[i].(string)] = kv[i+1]
		}
		return m
	}
	return []Scenario{
		// immutable map holding an array and a map (the demonstration's shape: hit counter in a configuration)
		{Name: "immutable-map-input-holds-array-and-map", IDVar: "id",
			Vars: map[string]interface{}{"cfg": imm(obj("name", "svc", "hits", arr(0, 0), "opts", obj("n", 0, "tags", obj("a", 0))))},
			Src:  "cfg.hits[0] = cfg.hits[0] + id\nout := cfg.hits[0]\ncfg.opts.n = cfg.opts.n + id * 2\ncfg.opts.tags.a += 1\ncfg.opts[\"seen\"] = id\nfor i := 0; i < 50; i++ { cfg.hits[1] += id + i; cfg.opts.n += cfg.hits[1] % 5 }\nout2 := [cfg.hits, cfg.opts.n, cfg.opts.tags.a, cfg.name]\n"},
		// immutable array holding a map and an array
		{Name: "immutable-array-input-holds-map-and-array", IDVar: "id",
			Vars: map[string]interface{}{"tbl": imm(arr(obj("n", 0, "l", arr(0)), arr(0, 0, 0), 5))},
			Src:  "tbl[0].n += id\ntbl[0].l[0] = tbl[0].l[0] + id + 1\ntbl[1][1] = tbl[1][1] + id\nout := [tbl[0].n, tbl[1][1], tbl[2]]\nfor i := 0; i < 50; i++ { tbl[1][i % 3] += id; tbl[0].n = tbl[0].n + tbl[1][0] % 3 }\nout2 := [tbl[0], tbl[1]]\n"},
		// two levels: immutable inside immutable, then the mutable value; and a mutable one inside a mutable one
		{Name: "immutable-input-two-levels", IDVar: "id", Runs: 2,
			Vars: map[string]interface{}{
				"deep": imm(obj("lvl", imm(obj("leaf", arr(0), "m", obj("k", 0))), "row", imm(arr(imm(arr(arr(0, 0))))))),
				"mix":  imm(arr(obj("box", obj("cnt", arr(0))))),
			},
			Src: "deep.lvl.leaf[0] += id\ndeep.lvl.m.k = deep.lvl.m.k + id\ndeep.row[0][0][1] += id + 3\nmix[0].box.cnt[0] += id\nmix[0].box.last = id\nout := [deep.lvl.leaf[0], deep.lvl.m.k, deep.row[0][0][1], mix[0].box.cnt[0]]\nfor i := 0; i < 40; i++ { deep.lvl.leaf[0] += 1; mix[0].box.cnt[0] += deep.lvl.leaf[0] % 4 }\nout2 := [deep, mix]\n"},
		// the immutable value is made by the first Run of the original, before Clone
		{Name: "immutable-made-by-first-run", IDVar: "id", AfterRun: true, Vars: map[string]interface{}{"cfg": nil, "tbl": nil},
			Src: "if is_undefined(cfg) {\n  cfg = immutable({hits: [0], sub: {n: 0}})\n  tbl = immutable([[0, 0], {v: 0}, immutable({box: [0]})])\n}\ncfg.hits[0] = cfg.hits[0] + id\ncfg.sub.n += id\ntbl[0][1] += id\ntbl[1].v = tbl[1].v + id\ntbl[2].box[0] += id\nout := [cfg.hits[0], cfg.sub.n, tbl[0][1], tbl[1].v, tbl[2].box[0]]\nfor i := 0; i < 40; i++ { cfg.hits[0] += 1; tbl[0][0] += cfg.hits[0] % 3 }\nout2 := [cfg, tbl]\n"},
		{Name: "immutable-made-by-first-run-two-runs", IDVar: "id", AfterRun: true, Runs: 2, Vars: map[string]interface{}{"st": nil},
			Src: "if is_undefined(st) { st = immutable([{total: 0, log: [0, 0, 0]}]) }\nst[0].total += id\nst[0].log[st[0].total % 3] = id\nfor i := 0; i < 30; i++ { st[0].total += i % 2; st[0].log[i % 3] += 1 }\nout := [st[0].total, st[0].log]\n"},
		// what a source module exports is an immutable map; kept in a global across runs
		{Name: "module-export-kept-across-runs", IDVar: "id", AfterRun: true, Vars: map[string]interface{}{"st": nil},
			SrcMods: map[string]string{"state": "export {hits: [0, 0], sub: {n: 0}, name: \"state\"}\n"},
			Src:     "if is_undefined(st) { st = import(\"state\") }\nst.hits[0] += id\nst.sub.n = st.sub.n + id\nfor i := 0; i < 40; i++ { st.hits[1] += id + i; st.sub.n += st.hits[1] % 5 }\nout := [st.hits, st.sub.n, st.name]\n"},
		// everything accumulated is re-initialised by the program: also an api scenario (Clone and Run/RunContext on
		// the object at the same time; a clone taken at any time must behave like a clone of a fresh compile)
		{Name: "immutable-input-nested-reinitialised", IDVar: "id", API: true,
			Vars: map[string]interface{}{"cfg": imm(obj("hits", arr(0), "sub", obj("n", 0))), "tbl": imm(arr(obj("v", 0)))},
			Src:  "cfg.hits[0] = 0\ncfg.sub.n = id\ntbl[0].v = 0\nfor i := 0; i < 80; i++ { cfg.hits[0] += id + i; cfg.sub.n = cfg.sub.n + cfg.hits[0] % 7; tbl[0].v = tbl[0].v + cfg.hits[0] }\nout := [cfg.hits[0], cfg.sub.n, tbl[0].v]\n"},
	}
}

func genScenario(r *lib.RNG, i int) Scenario {
	p := lib.DefaultProfile()
	p.MaxStmts = 8 + r.Intn(10)
	p.Chaos = 10
	g := lib.NewGen(r, p)
	sc := Scenario{Name: "gen-" + strconv.Itoa(i), Src: g.Program()}
	sc.AfterRun = r.Chance(1, 4)
	if r.Chance(1, 5) {
		sc.Runs = 2
	}
	for k, v := range g.Feat {
		res.Distribution["feat:"+k] += v
	}
	return sc
}

func mkTrial(sc Scenario, k int, r *lib.RNG, mode string, sequential bool) Trial {
	t := Trial{Scenario: sc, K: k, Mode: mode, Race: raceEnabled}
	t.Procs = lib.Pick(r, []int{1, 2, 2, 3, 4, 8, 16})
	t.YieldMod = lib.Pick(r, []int{0, 2, 3, 5, 11, 37})
	if t.YieldMod > 0 {
		t.YieldPh = r.Intn(t.YieldMod)
	}
	for i := 0; i < k; i++ {
		t.Ctx = append(t.Ctx, r.Chance(1, 3))
	}
	if sequential {
		t.Procs = 0
		for i := 0; i < k; i++ {
			t.Order = append(t.Order, i)
		}
		for i := k - 1; i > 0; i-- {
			j := r.Intn(i + 1)
			t.Order[i], t.Order[j] = t.Order[j], t.Order[i]
		}
	}
	return t
}

var tSolo, tClone, tApi time.Duration

func runScenario(sc Scenario, r *lib.RNG, reps int, ks []int) {
	if sc.Cancel { // api stream only
		for rep := 0; rep < reps; rep++ {
			t := mkTrial(sc, lib.Pick(r, []int{2, 4, 8}), r, "api", false)
			t.Seed = flags.Seed
			t2 := time.Now()
			before := nViol
			apiTrial(t, r)
			tApi += time.Since(t2)
			res.Count("api", sc.Src+"\x00"+strconv.Itoa(rep), true)
			if nViol > before {
				return
			}
		}
		return
	}
	for _, k := range ks {
		t0 := time.Now()
		so := solo(sc, k)
		tSolo += time.Since(t0)
		if so.err != nil {
			res.Count("clones", sc.Src, false)
			res.Dist("compile-error")
			return
		}
		if so.unstable {
			res.Skipped++
			res.Dist("skipped-result-not-a-function-of-inputs")
			return
		}
		if so.touches {
			res.Dist("rune-cache-of-a-constant-prewarmed")
		}
		for rep := 0; rep < reps; rep++ {
			t := mkTrial(sc, k, r, "clones", rep == 0 && !raceEnabled)
			t.Seed = flags.Seed
			t1 := time.Now()
			before := nViol
			cloneTrial(t, so)
			tClone += time.Since(t1)
			if nViol > before {
				return // state is shared in this scenario: further concurrent trials could kill the process
			}
			res.Count("clones", sc.Src+"\x00"+strconv.Itoa(k), sc.IDVar != "" || strings.Contains(so.clone[0], "="))
		}
		if strings.Contains(so.clone[0], "err: ") {
			res.Dist("clone-run-fails")
		}
	}
	if (len(sc.Vars) > 0 || len(sc.SetVars) > 0) && !sc.API {
		return // api stream: programs whose state is a function of the last Set only (no accumulating inputs)
	}
	for rep := 0; rep < (reps+1)/2; rep++ {
		t := mkTrial(sc, lib.Pick(r, []int{2, 4, 8}), r, "api", false)
		t.Seed = flags.Seed
		t2 := time.Now()
		apiTrial(t, r)
		tApi += time.Since(t2)
		res.Count("api", sc.Src+"\x00"+strconv.Itoa(rep), true)
	}
}

// ---- probes of the known findings ----

func probeO14() (bool, string) {
	sc := Scenario{Src: "if is_undefined(f) { f = func() { c := 0; return func() { c += 1; return c } }() }\nout := f()\n", Vars: map[string]interface{}{"f": nil}}
	c, err := prepare(sc)
	if err != nil {
		return false, ""
	}
	runOne(c, false) // out = 1, f holds a closure over the cell c
	cl := c.Clone()
	runOne(cl, false) // the clone calls ITS copy of f
	runOne(c, false)  // alone this yields 2
	got := lib.Canon(c.Get("out").Object())
	return got != "(i 2)", "original: out = " + got + " after Run, Clone, clone.Run, Run (alone: (i 2))"
}

func probeO15() (bool, string) {
	sc := Scenario{Src: "s := \"héllo wörld\"\nc := s[1]\n"}
	c, err := prepare(sc)
	if err != nil {
		return false, ""
	}
	a, b := c.Clone(), c.Clone()
	runOne(a, false)
	sa := a.Get("s").Object()
	runOne(b, false)
	sb := b.Get("s").Object()
	if sa == sb && objCacheFilled(reflect.ValueOf(sa), 0) {
		return true, "clones a and b hold the SAME *String (the constant) in global s, and its runeStr cache was written by a run (no lock is common to two clones)"
	}
	return false, ""
}

func probeO16() (bool, string) {
	mm := tengo.NewModuleMap()
	mm.AddSourceModule("m", []byte("export {f: func(a) { return a + \"s\" }}\n"))
	c, err := lib.CompileSource([]byte("m := import(\"m\")\nx := m.f(1)\n"), lib.CompileOpts{Modules: mm})
	if err != nil || c.BC == nil {
		return false, ""
	}
	before := c.BC.FileSet.LastFile
	vm := tengo.NewVM(c.BC, make([]tengo.Object, tengo.GlobalsSize), -1) // what Compiled.Run does with the shared bytecode
	_ = vm.Run()
	if after := c.BC.FileSet.LastFile; after != before {
		return true, fmt.Sprintf("a failing run changed SourceFileSet.LastFile of the shared bytecode (%s -> %s)", before.Name, after.Name)
	}
	return false, ""
}

func probeK1() (bool, string) {
	sc := Scenario{Builtin: true, Src: "mod := import(\"mod\")\nout := mod.id\n"}
	c, err := prepare(sc)
	if err != nil {
		return false, ""
	}
	cl := c.Clone()
	c.ReplaceBuiltinModule("mod", map[string]tengo.Object{"id": &tengo.Int{Value: 99}})
	runOne(cl, false)
	got := lib.Canon(cl.Get("out").Object())
	return got != "(i 7)", "clone taken BEFORE original.ReplaceBuiltinModule sees out = " + got + " (alone: (i 7))"
}

// C08-K2: a builtin module attribute that is a mutable container is copied once at compile time
// (AsImmutableMap) and then lives in the constant table all clones share
func probeK2() (bool, string) {
	mk := func() *tengo.Compiled {
		mm := tengo.NewModuleMap()
		mm.AddBuiltinModule("cfg", map[string]tengo.Object{"list": &tengo.Array{Value: []tengo.Object{
			&tengo.Int{Value: 1}, &tengo.Int{Value: 2}, &tengo.Int{Value: 3}}}})
		s := tengo.NewScript([]byte("cfg := import(\"cfg\")\nout := cfg.list[0]\nif id != 0 { cfg.list[0] = id }\n"))
		s.SetImports(mm)
		_ = s.Add("id", 0)
		c, err := s.Compile()
		if err != nil {
			return nil
		}
		return c
	}
	c, solo := mk(), mk()
	if c == nil || solo == nil {
		return false, ""
	}
	a, b, alone := c.Clone(), c.Clone(), solo.Clone()
	_ = a.Set("id", 77)
	runOne(a, false)
	runOne(b, false)
	runOne(alone, false)
	got, want := lib.Canon(b.Get("out").Object()), lib.Canon(alone.Get("out").Object())
	return got != want, "clone b (id = 0) run after clone a (id = 77) sees out = " + got + " (alone: " + want + ")"
}

type c08probe struct {
	id, sig, input string
	run            func() (bool, string)
}

var c08probes = []c08probe{
	{"O14", "clone-shares-closure-free-cells", "f (input) = closure over counter c; Run; Clone; clone.Run; Run", probeO14},
	{"O15", "race-string-constant-runeStr", "s := \"héllo wörld\"; c := s[1] in two clones", probeO15},
	{"O16", "race-sourcefileset-lastfile", "run-time error inside a source module called from (main)", probeO16},
	{"C08-K1", "replace-builtin-module-on-cloned-original", "cl := c.Clone(); c.ReplaceBuiltinModule(\"mod\", {id: 99}); cl.Run()", probeK1},
	{"C08-K2", "builtin-module-container-attribute-shared-by-clones", "builtin module cfg {list: [1,2,3]}; clone a: cfg.list[0] = 77; clone b: out := cfg.list[0]", probeK2},
}

func runC08Probes() {
	status := map[string]string{}
	for _, k := range lib.LoadKnown(flags.Known) {
		if k.Property == "C08" {
			status[k.ID] = k.Status
		}
	}
	for _, p := range c08probes {
		fails, obs := p.run()
		res.Count("finding-probe", p.id, true)
		if !fails {
			continue
		}
		if status[p.id] == "known" || flags.Known == "" {
			addKnown(p.id)
			continue
		}
		violate(lib.Violation{Signature: p.sig, Stream: "finding-probe", Input: p.input, Observed: obs,
			Expected: "property holds on this input", Oracle: "dedicated probe of finding " + p.id})
	}
}

// race scenarios of the known regions (child only): their reports must classify as known
func raceRegionTrials(r *lib.RNG) {
	regs := []Scenario{
		{Name: "region-O15", IDVar: "id", Src: "s := \"héllo wörld\"\nc := s[id % 5]\nn := 0\nfor ch in s { n += 1 }\n"},
		{Name: "region-O16", IDVar: "id", SrcMods: map[string]string{"m": "export {f: func(a) { return a + \"s\" }}\n"},
			Src: "m := import(\"m\")\nx := m.f(id)\n"},
	}
	for _, sc := range regs {
		so := solo(sc, 4)
		so.touches = false // do NOT pre-warm: this is the region itself
		t := mkTrial(sc, 4, r, "clones", false)
		t.Procs = 4
		cloneTrial(t, so)
		res.Count("race-region", sc.Name, true)
	}
}

// ---- model correspondence: shape of a clone ----

type hostObj struct{ tengo.ObjectImpl }

func (h *hostObj) TypeName() string   { return "host" }
func (h *hostObj) String() string     { return "host" }
func (h *hostObj) Copy() tengo.Object { return h } // the model's worst case

func genValue(r *lib.RNG, depth int) tengo.Object {
	w := []int{5, 2, 2, 3, 3, 2, 2, 2, 2, 2, 1, 1}
	if depth <= 0 {
		w = []int{5, 2, 2, 0, 0, 0, 0, 0, 1, 1, 1, 1}
	}
	kids := func() []tengo.Object {
		var xs []tengo.Object
		for i, n := 0, r.Intn(4); i < n; i++ {
			xs = append(xs, genValue(r, depth-1))
		}
		return xs
	}
	kmap := func() map[string]tengo.Object {
		m := map[string]tengo.Object{}
		for i, x := range kids() {
			m["k"+strconv.Itoa(i)] = x
		}
		return m
	}
	switch r.Weighted(w) {
	case 0:
		return lib.Pick(r, []tengo.Object{&tengo.Int{Value: 3}, &tengo.Float{Value: 1.5}, &tengo.Char{Value: 'x'}, &tengo.String{Value: "str"},
			&tengo.Bytes{Value: []byte("by")}, &tengo.Time{}, tengo.GetAllBuiltinFunctions()[0]})
	case 1:
		return lib.Pick(r, []tengo.Object{tengo.TrueValue, tengo.FalseValue, tengo.UndefinedValue})
	case 2:
		return &tengo.UserFunction{Name: "u", Value: func(...tengo.Object) (tengo.Object, error) { return tengo.UndefinedValue, nil }}
	case 3:
		return &tengo.Array{Value: kids()}
	case 4:
		return &tengo.Map{Value: kmap()}
	case 5:
		return &tengo.ImmutableArray{Value: kids()}
	case 6:
		return &tengo.ImmutableMap{Value: kmap()}
	case 7:
		return &tengo.Error{Value: genValue(r, depth-1)}
	case 8:
		f := &tengo.CompiledFunction{Instructions: []byte{0}}
		for i, n := 0, r.Intn(3); i < n; i++ {
			o := genValue(r, depth-1)
			f.Free = append(f.Free, &tengo.ObjectPtr{Value: &o})
		}
		return f
	case 9:
		return &tengo.CompiledFunction{Instructions: []byte{0}}
	case 10:
		o := genValue(r, depth-1)
		return &tengo.ObjectPtr{Value: &o}
	}
	return &hostObj{}
}

func sortedKeys(m map[string]tengo.Object) []string {
	ks := make([]string, 0, len(m))
	for k := range m {
		ks = append(ks, k)
	}
	sort.Strings(ks)
	return ks
}

func valSexp(o tengo.Object) string {
	list := func(xs []tengo.Object) string {
		var sb strings.Builder
		for _, x := range xs {
			sb.WriteString(" " + valSexp(x))
		}
		return sb.String()
	}
	mlist := func(m map[string]tengo.Object) string {
		var sb strings.Builder
		for _, k := range sortedKeys(m) {
			sb.WriteString(" " + valSexp(m[k]))
		}
		return sb.String()
	}
	switch v := o.(type) {
	case *tengo.Bool, *tengo.Undefined:
		return "(s)"
	case *tengo.UserFunction:
		return "(h)"
	case *tengo.Array:
		return "(b arr" + list(v.Value) + ")"
	case *tengo.ImmutableArray:
		return "(b iarr" + list(v.Value) + ")"
	case *tengo.Map:
		return "(b map" + mlist(v.Value) + ")"
	case *tengo.ImmutableMap:
		return "(b imap" + mlist(v.Value) + ")"
	case *tengo.Error:
		return "(b err " + valSexp(v.Value) + ")"
	case *tengo.CompiledFunction:
		var sb strings.Builder
		for _, p := range v.Free {
			sb.WriteString(" " + valSexp(p))
		}
		return "(c" + sb.String() + ")"
	case *tengo.ObjectPtr:
		return "(p " + valSexp(*v.Value) + ")"
	case *hostObj:
		return "(o)"
	}
	return "(a)"
}

// realShape: preorder flags comparing the original o with its copy c.
func realShape(o, c tengo.Object, out *[]string) {
	if o == c {
		sharedShape(o, out)
		return
	}
	pairs := func(a, b []tengo.Object) {
		for i := range a {
			if i < len(b) {
				realShape(a[i], b[i], out)
			} else {
				*out = append(*out, "missing")
			}
		}
	}
	mpairs := func(a, b map[string]tengo.Object) {
		for _, k := range sortedKeys(a) {
			if x, ok := b[k]; ok {
				realShape(a[k], x, out)
			} else {
				*out = append(*out, "missing")
			}
		}
	}
	elems := func(x tengo.Object) ([]tengo.Object, map[string]tengo.Object) {
		switch v := x.(type) {
		case *tengo.Array:
			return v.Value, nil
		case *tengo.ImmutableArray:
			return v.Value, nil
		case *tengo.Map:
			return nil, v.Value
		case *tengo.ImmutableMap:
			return nil, v.Value
		}
		return nil, nil
	}
	switch cv := c.(type) {
	case *tengo.Array:
		*out = append(*out, "Fa")
		a, _ := elems(o)
		pairs(a, cv.Value)
	case *tengo.Map:
		*out = append(*out, "Fm")
		_, m := elems(o)
		mpairs(m, cv.Value)
	case *tengo.Error:
		*out = append(*out, "Fe")
		if ov, ok := o.(*tengo.Error); ok {
			realShape(ov.Value, cv.Value, out)
		}
	case *tengo.CompiledFunction:
		*out = append(*out, "Fc")
		if ov, ok := o.(*tengo.CompiledFunction); ok {
			for i, p := range ov.Free {
				if i < len(cv.Free) {
					realShape(p, cv.Free[i], out)
				}
			}
		}
	case *tengo.ObjectPtr:
		*out = append(*out, "F")
		if ov, ok := o.(*tengo.ObjectPtr); ok {
			realShape(*ov.Value, *cv.Value, out)
		}
	default:
		if c == nil {
			*out = append(*out, "nil")
			return
		}
		*out = append(*out, "F")
	}
}

func sharedShape(o tengo.Object, out *[]string) {
	*out = append(*out, "S")
	switch v := o.(type) {
	case *tengo.Array:
		for _, x := range v.Value {
			sharedShape(x, out)
		}
	case *tengo.ImmutableArray:
		for _, x := range v.Value {
			sharedShape(x, out)
		}
	case *tengo.Map:
		for _, k := range sortedKeys(v.Value) {
			sharedShape(v.Value[k], out)
		}
	case *tengo.ImmutableMap:
		for _, k := range sortedKeys(v.Value) {
			sharedShape(v.Value[k], out)
		}
	case *tengo.Error:
		sharedShape(v.Value, out)
	case *tengo.CompiledFunction:
		for _, p := range v.Free {
			sharedShape(p, out)
		}
	case *tengo.ObjectPtr:
		sharedShape(*v.Value, out)
	}
}

func shapeStream(drv *lib.Driver, r *lib.RNG, n int) {
	if drv == nil {
		return
	}
	for i := 0; i < n; i++ {
		val := genValue(r.Fork(), 1+r.Intn(4))
		s := tengo.NewScript([]byte("x := 1\n"))
		if err := s.Add("g", val); err != nil {
			continue
		}
		c, err := s.Compile()
		if err != nil {
			continue
		}
		cl := c.Clone()
		var flagsReal []string
		realShape(c.Get("g").Object(), cl.Get("g").Object(), &flagsReal)
		line := "(cloneshape " + valSexp(val) + ")"
		ans, err := drv.Ask(line)
		if err != nil {
			res.Disagree(lib.Disagreement{Stream: "shape", Input: line, Model: "driver error: " + err.Error(), Impl: strings.Join(flagsReal, " ")})
			return
		}
		res.ModelLines++
		impl := "ok " + strings.Join(flagsReal, " ")
		res.Count("shape", line, len(flagsReal) > 1)
		if ans != impl {
			res.Disagree(lib.Disagreement{Stream: "shape", Input: line, Model: ans, Impl: impl})
		}
	}
}

// ---- the -race child ----

func harnessRoot() string {
	if r := os.Getenv("VERIF_ROOT"); r != "" {
		return r
	}
	wd, _ := os.Getwd()
	for d := wd; d != "/" && d != "."; d = filepath.Dir(d) {
		if _, err := os.Stat(filepath.Join(d, "harness", "go.mod")); err == nil {
			return d
		}
	}
	return "/verif"
}

// buildRace builds this command with -race; returns the binary path and a cleanup.
func buildRace(work string) (string, error) {
	root := harnessRoot()
	harn := filepath.Join(root, "harness")
	repo := os.Getenv("VERIF_REPO")
	args := []string{"build", "-race", "-tags", "verif"}
	out := filepath.Join(harn, "bin", "c08-race")
	if repo != "" && repo != "/repo" { // a mutant worktree: private modfile and binary
		mod, err := os.ReadFile(filepath.Join(harn, "go.mod"))
		if err != nil {
			return "", err
		}
		mf := filepath.Join(work, "go.mod")
		if err := os.WriteFile(mf, []byte(strings.Replace(string(mod), "=> /repo", "=> "+repo, 1)), 0o644); err != nil {
			return "", err
		}
		if sum, err := os.ReadFile(filepath.Join(harn, "go.sum")); err == nil {
			_ = os.WriteFile(filepath.Join(work, "go.sum"), sum, 0o644)
		}
		args = append(args, "-modfile="+mf)
		out = filepath.Join(work, "c08-race")
	}
	tmp := out + ".tmp" + strconv.Itoa(os.Getpid())
	args = append(args, "-o", tmp, "./cmd/c08")
	cmd := exec.Command("go", args...)
	cmd.Dir = harn
	cmd.Env = append(os.Environ(), "CGO_ENABLED=1", "GOFLAGS=-mod=mod", "GOPROXY=off", "GOSUMDB=off", "GOTOOLCHAIN=local")
	if b, err := cmd.CombinedOutput(); err != nil {
		os.Remove(tmp)
		return "", fmt.Errorf("go build -race: %v: %s", err, lastLines(string(b), 6))
	}
	if err := os.Rename(tmp, out); err != nil {
		return "", err
	}
	return out, nil
}

func lastLines(s string, n int) string {
	ls := strings.Split(strings.TrimSpace(s), "\n")
	if len(ls) > n {
		ls = ls[len(ls)-n:]
	}
	return strings.Join(ls, " / ")
}

// ---- main ----

// mainLoop walks the scenario sequence of this seed. Scenario number idx draws everything from the idx-th
// fork of rng, so a worker that starts at `start` only advances rng over the scenarios it leaves out.
func mainLoop(rng *lib.RNG, start int) {
	nGen, reps := flags.Scale(150, 1000), flags.Scale(6, 10)
	if raceEnabled {
		nGen, reps = flags.Scale(18, 70), flags.Scale(2, 3)
	}
	treps := reps * 2
	if raceEnabled {
		treps = reps
	}
	idx := 0
	for _, sc := range targeted() {
		r := rng.Fork()
		if idx >= start {
			curIndex = idx
			ks := []int{2, 4, 8}
			if raceEnabled && !flags.Thorough() {
				ks = []int{2, 8}
			}
			runScenario(sc, r, treps, ks)
			res.Dist("targeted:" + sc.Name)
			flushWorker()
		}
		idx++
	}
	for i := 0; i < nGen; i++ {
		r := rng.Fork()
		if idx >= start {
			curIndex = idx
			sc := genScenario(r, i)
			ks := []int{2, 4, 8}
			if raceEnabled && !flags.Thorough() {
				ks = []int{ks[i%3]}
			}
			runScenario(sc, r, reps, ks)
			flushWorker()
		}
		idx++
	}
	if raceEnabled {
		r := rng.Fork()
		if idx >= start {
			curIndex = idx
			raceRegionTrials(r)
		}
		idx++
	}
	for _, sc := range targetedLate() {
		r := rng.Fork()
		if idx >= start {
			curIndex = idx
			ks := []int{2, 4, 8}
			if raceEnabled && !flags.Thorough() {
				ks = []int{2, 8}
			}
			t0 := time.Now()
			n := reps // format scenarios: every trial re-provokes, a few repetitions per K suffice
			if sc.Cancel {
				n = 2 * treps // api trials; cheap (the run is cut short most of the time)
			}
			runScenario(sc, r, n, ks)
			res.Dist("targeted:" + sc.Name)
			res.Extra["t_"+sc.Name+"_s"] = time.Since(t0).Seconds()
			flushWorker()
		}
		idx++
	}
	// round 8 (deep.go): state reached through values whose Copy must be deep. After everything else: the scenario
	// sequence of a seed up to here is the one it always was.
	t8 := time.Now()
	for _, sc := range deepScenarios(flags.Seed) {
		r := rng.Fork()
		if idx >= start {
			curIndex = idx
			ks, n := []int{2, 4, 8}, reps
			if raceEnabled && !flags.Thorough() {
				ks, n = []int{2}, 1 // two clones suffice for a report; a run costs ~40 ms under -race
			}
			runScenario(sc, r, n, ks)
			res.Dist("targeted:" + sc.Name)
			flushWorker()
		}
		idx++
	}
	{
		r := rng.Fork()
		if idx >= start && !raceEnabled {
			curIndex = idx
			aliasSearch(r, flags.Scale(300, 3000))
			flushWorker()
		}
		idx++
	}
	res.Extra["t_deep_copy_s"] = time.Since(t8).Seconds()
	res.Extra["t_solo_s"], res.Extra["t_clones_s"], res.Extra["t_api_s"] = tSolo.Seconds(), tClone.Seconds(), tApi.Seconds()
}

func main() {
	flag.BoolVar(&isChild, "c08child", false, "internal: this is a worker process (see VERIF_C08_CHILD)")
	flag.BoolVar(&noRace, "c08norace", false, "do not build/run the -race worker")
	show := flag.Bool("c08show", false, "print the solo results of the targeted scenarios and exit")
	flags = lib.ParseFlags()
	if *show {
		res = lib.NewResult("C08", flags)
		for _, sc := range append(append(targeted(), targetedLate()...), deepScenarios(flags.Seed)...) {
			so := solo(sc, 2)
			fmt.Printf("%s: err=%v unstable=%v touches=%v\n  orig: %s\n  c0: %s\n  c1: %s\n", sc.Name, so.err, so.unstable, so.touches, so.orig, so.clone[0], so.clone[1])
		}
		return
	}
	res = lib.NewResult("C08", flags)
	res.Extra = map[string]interface{}{}
	res.Rule = "programs: type-directed generator (closures, containers, strings, run-time errors) plus targeted ones (mutated array/map inputs, closures in globals, source/builtin modules, ReplaceBuiltinModule per clone, run-time failures, strings built at run time); " +
		"a clones case is non-trivial when the program defines at least one global; distinct by (source, K)"
	if raceEnabled {
		if lp := os.Getenv("GORACE"); strings.Contains(lp, "log_path=") {
			p := lp[strings.Index(lp, "log_path=")+len("log_path="):]
			if i := strings.IndexByte(p, ' '); i >= 0 {
				p = p[:i]
			}
			rlog = &raceLog{path: p + "." + strconv.Itoa(os.Getpid())}
		}
	}
	rng := lib.NewRNG(flags.Seed) // the -race worker walks a prefix of the same program sequence

	if env := os.Getenv(childEnv); env != "" || isChild {
		workerMain(env, rng)
		return
	}

	// the parent: runs nothing concurrent itself
	work := filepath.Join(harnessRoot(), ".work", "c08-"+strconv.Itoa(os.Getpid()))
	if err := os.MkdirAll(work, 0o755); err != nil {
		fmt.Fprintln(os.Stderr, "c08: no work dir:", err)
		os.Exit(3)
	}
	defer os.RemoveAll(work)
	self, err := os.Executable()
	if err != nil {
		fmt.Fprintln(os.Stderr, "c08: cannot find my own binary:", err)
		os.Exit(3)
	}

	if flags.Replay != "" {
		replayParent(flags.Replay, self, work)
		res.Write(flags.Out)
		return
	}

	supervise(self, false, work)
	for i, n := 0, len(targeted())+flags.Scale(150, 1000); i < n; i++ {
		rng.U64() // the forks the workers' scenarios took: the shape stream keeps its place in the sequence
	}
	drv, err := lib.StartDriver(flags.Driver)
	if err != nil {
		fmt.Fprintln(os.Stderr, "c08:", err)
		os.Exit(3)
	}
	res.DriverUsed = drv != nil
	shapeStream(drv, rng.Fork(), flags.Scale(400, 5000))
	if drv != nil {
		drv.Close()
	}
	runC08Probes()
	lib.RunProbes(res, "C08", flags.Known)
	if !noRace {
		if bin := raceBinary(work); bin != "" {
			supervise(bin, true, work)
		}
	}
	res.Write(flags.Out)
}

package main

import (
	"fmt"
	"sync"

	"github.com/d5/tengo/v2"
)

func get(c *tengo.Compiled, n string) interface{} { return c.Get(n).Value() }

func main() {
	// O14
	s := tengo.NewScript([]byte("if is_undefined(f) { f = func() { c := 0; return func() { c += 1; return c } }() }\nout := f()\n"))
	_ = s.Add("f", nil)
	c, err := s.Compile()
	if err != nil {
		panic(err)
	}
	fmt.Println(c.Run(), get(c, "out"))
	cl := c.Clone()
	fmt.Println(cl.Run(), get(cl, "out"))
	fmt.Println(cl.Run(), get(cl, "out"))
	fmt.Println(c.Run(), "orig out (solo: 2):", get(c, "out"))

	// replace on original
	s2 := tengo.NewScript([]byte("m := import(\"mod\")\nout := m.id\nfor i := 0; i < 2000; i++ { out = m.id }\n"))
	mm := tengo.NewModuleMap()
	mm.AddBuiltinModule("mod", map[string]tengo.Object{"id": &tengo.Int{Value: 7}})
	s2.SetImports(mm)
	c2, err := s2.Compile()
	if err != nil {
		panic(err)
	}
	cl2 := c2.Clone()
	var wg sync.WaitGroup
	wg.Add(1)
	go func() { defer wg.Done(); cl2.Run() }()
	c2.ReplaceBuiltinModule("mod", map[string]tengo.Object{"id": &tengo.Int{Value: 99}})
	wg.Wait()
	fmt.Println(cl2.Run(), "clone sees (want 7):", get(cl2, "out"))
}

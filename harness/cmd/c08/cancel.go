package main

// Cancelled / timed-out RunContext calls on ONE Compiled (api stream, scenarios with Cancel = true).
//
// Oracle "run-continues-after-runcontext-returned": RunContext holds the object's write lock for the whole
// execution only if the VM goroutine it started is over when it returns. The probe hook (tengo.VerifProbe,
// called by the VM before every dispatched instruction) knows which VM works on the globals of the object
// under test (the slice the VM was created with is compared with the object's own, read once through
// reflection) and which run-type call that VM belongs to: in these trials Run/RunContext calls on the object
// are serialised by the harness (runMu), so the call in flight when a VM dispatches for the first time is the
// call that created it. A dispatch of that VM seen after the harness marked its call as returned means the
// execution outlived the call — whatever the timing was. On an unchanged tree `<-ch` after Abort (and the
// plain channel receive on normal completion) order the end of VM.Run before the return, so the oracle
// cannot fire.
//
// Schedules: kind 8 cancels the context FROM THE PROBE at the k-th dispatched instruction of the run (or the
// first global write after it) and keeps the VM goroutine inside that dispatch until the caller has reacted
// (VM.aborting set; read through its field offset) plus a short grace period — no timing is compared, the
// wait is bounded and only perturbs the schedule the way the injected Gosched calls do. Kind 9 uses a
// deadline of Val microseconds and lets the VM yield at every instruction.

import (
	"context"
	"fmt"
	"reflect"
	"runtime"
	"sync"
	"sync/atomic"
	"time"
	"unsafe"

	"github.com/d5/tengo/v2"
	"github.com/d5/tengo/v2/parser"
)

// callInfo: one Run/RunContext call on the object under test.
type callInfo struct {
	desc     string
	k        int64  // > 0: cancel at the k-th dispatch (kind 8)
	at       string // "any" | "write": which instruction may trigger
	yield    bool   // the VM yields at every instruction (kind 9)
	cancel   context.CancelFunc
	returned atomic.Bool
}

// vmRec: what the probe knows about one VM of the object under test (touched by that VM's goroutine only).
type vmRec struct {
	call  *callInfo
	seen  int64
	fired bool
}

type runWatch struct {
	gptr  uintptr  // data pointer of the object's globals slice
	vms   sync.Map // *tengo.VM -> *vmRec (keeps the VMs alive: an address is never reused during the trial)
	cur   atomic.Pointer[callInfo]
	runMu sync.Mutex // serialises the run-type calls on the object (Get/Set/Clone/… are not serialised)

	mu    sync.Mutex
	viol  string // first observation of an execution outliving its call
	sig   string
	holds int // kind-8 triggers that fired
}

var (
	watch atomic.Pointer[runWatch]

	vmGlobalsOff, vmAbortingOff uintptr
	vmLayoutOK                  bool
)

func init() {
	t := reflect.TypeOf(tengo.VM{})
	g, ok1 := t.FieldByName("globals")
	a, ok2 := t.FieldByName("aborting")
	if ok1 && ok2 && g.Type == reflect.TypeOf([]tengo.Object(nil)) && a.Type.Kind() == reflect.Int64 && a.Offset%8 == 0 {
		vmGlobalsOff, vmAbortingOff, vmLayoutOK = g.Offset, a.Offset, true
	}
}

func vmGlobalsPtr(v *tengo.VM) uintptr {
	s := *(*[]tengo.Object)(unsafe.Add(unsafe.Pointer(v), vmGlobalsOff)) // written by NewVM only, before the VM runs
	if len(s) == 0 {
		return 0
	}
	return uintptr(unsafe.Pointer(&s[0]))
}

func vmAborting(v *tengo.VM) bool {
	return atomic.LoadInt64((*int64)(unsafe.Add(unsafe.Pointer(v), vmAbortingOff))) != 0
}

// newRunWatch: nil when the layout of tengo.VM / tengo.Compiled is not the expected one (oracle unavailable).
func newRunWatch(c *tengo.Compiled) *runWatch {
	if !vmLayoutOK {
		return nil
	}
	f := reflect.ValueOf(c).Elem().FieldByName("globals")
	if !f.IsValid() || f.Kind() != reflect.Slice || f.Len() == 0 {
		return nil
	}
	return &runWatch{gptr: f.Pointer()}
}

func (w *runWatch) report(sig, msg string) {
	w.mu.Lock()
	if w.viol == "" {
		w.sig, w.viol = sig, msg
	}
	w.mu.Unlock()
}

// dispatch is called from the probe (on the VM's goroutine) before every instruction.
func (w *runWatch) dispatch(v *tengo.VM, fn *tengo.CompiledFunction, ip int) {
	if vmGlobalsPtr(v) != w.gptr {
		return // a VM of a clone
	}
	var rec *vmRec
	if x, ok := w.vms.Load(v); ok {
		rec = x.(*vmRec)
	} else {
		rec = &vmRec{call: w.cur.Load()}
		w.vms.Store(v, rec)
	}
	call := rec.call
	if call == nil { // first seen while no run-type call was in flight
		w.report("execution-on-compiled-without-run-call", fmt.Sprintf("a VM working on the object's globals dispatched the instruction at ip=%d although no Run/RunContext call on the object was in progress", ip))
		return
	}
	rec.seen++
	if call.yield {
		runtime.Gosched()
	}
	if call.k > 0 && !rec.fired && rec.seen >= call.k {
		op := byte(0)
		if fn != nil && ip >= 0 && ip < len(fn.Instructions) {
			op = fn.Instructions[ip]
		}
		if call.at != "write" || op == parser.OpSetGlobal || op == parser.OpSetSelGlobal || rec.seen >= call.k+400 {
			rec.fired = true
			w.mu.Lock()
			w.holds++
			w.mu.Unlock()
			call.cancel()
			// stay inside this dispatch until the caller has seen the cancellation (it calls VM.Abort) …
			for t0 := time.Now(); !vmAborting(v) && !call.returned.Load() && time.Since(t0) < 100*time.Millisecond; {
				runtime.Gosched()
			}
			// … and a little longer: a caller that does not wait for this goroutine returns now
			for t0 := time.Now(); !call.returned.Load() && time.Since(t0) < 300*time.Microsecond; {
				runtime.Gosched()
			}
		}
	}
	if call.returned.Load() {
		op := ""
		if fn != nil && ip >= 0 && ip < len(fn.Instructions) {
			op = parser.OpcodeNames[fn.Instructions[ip]]
		}
		w.report("run-continues-after-runcontext-returned", fmt.Sprintf("%s had RETURNED to its caller (the object's lock is released) while the VM goroutine of that run was still in its dispatch loop: "+
			"it went on to execute instruction #%d of the run (ip=%d %s) after the return; no other Run/RunContext call on the object had created this VM", call.desc, rec.seen, ip, op))
	}
}

// runWatched performs one run-type call of an api trial on the object under test (kinds 6–9) followed by the
// reads a caller does after a run. Returns a description of a misbehaviour ("" = none).
func (w *runWatch) runWatched(c *tengo.Compiled, o Op) (bad string) {
	w.runMu.Lock()
	defer w.runMu.Unlock()
	call := &callInfo{at: o.At}
	ctx, cancel := context.Background(), context.CancelFunc(func() {})
	switch o.Kind {
	case 6:
		call.desc = "Run()"
	case 7:
		call.desc = "RunContext(60 s deadline)"
		ctx, cancel = context.WithTimeout(ctx, 60*time.Second)
	case 8:
		call.desc = fmt.Sprintf("RunContext(ctx cancelled at dispatch %d of the run, at=%s)", o.Val, o.At)
		call.k = o.Val
		ctx, cancel = context.WithCancel(ctx)
	case 9:
		call.desc = fmt.Sprintf("RunContext(deadline %d µs)", o.Val)
		call.yield = true
		ctx, cancel = context.WithTimeout(ctx, time.Duration(o.Val)*time.Microsecond)
	}
	call.cancel = cancel
	defer cancel()
	w.cur.Store(call)
	var err error
	func() {
		defer func() {
			if p := recover(); p != nil {
				bad = "panic: " + fmt.Sprint(p)
			}
		}()
		if o.Kind == 6 {
			err = c.Run()
		} else {
			err = c.RunContext(ctx)
		}
	}()
	call.returned.Store(true)
	w.cur.Store(nil)
	if bad != "" {
		return bad
	}
	if err != nil && err != context.Canceled && err != context.DeadlineExceeded {
		return call.desc + " failed with " + err.Error()
	}
	// what a caller does next (run-type calls are serialised here, so on a correct tree nothing executes on
	// the object now and its values may be read; Set from other goroutines only replaces a slot under the lock)
	if v := c.Get(o.Name); v != nil {
		_ = v.Name()
	}
	if o.Val%2 == 0 {
		_ = c.Clone()
	} else {
		_ = len(c.GetAll())
	}
	return ""
}

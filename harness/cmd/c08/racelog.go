package main

import (
	"os"
	"sort"
	"strings"
)

// raceReport is one "WARNING: DATA RACE" block of the Go race detector.
type raceReport struct {
	Text   string
	Tops   []string // innermost function of each of the two conflicting accesses
	Funcs  []string // every function named in the report
	Tengo  bool     // some frame lies in github.com/d5/tengo/v2
	Access []string // the header lines of the two accesses
}

const tengoPkg = "github.com/d5/tengo/v2"

func parseRaceReports(text string) []raceReport {
	var out []raceReport
	for _, blk := range strings.Split(text, "==================") {
		if !strings.Contains(blk, "WARNING: DATA RACE") {
			continue
		}
		r := raceReport{Text: strings.TrimSpace(blk)}
		inAccess, wantTop := false, false
		for _, ln := range strings.Split(blk, "\n") {
			switch {
			case ln == "" || strings.HasPrefix(ln, "WARNING"):
				continue
			case !strings.HasPrefix(ln, " "): // section header
				inAccess = strings.Contains(ln, " at 0x") && !strings.HasPrefix(ln, "Goroutine")
				wantTop = inAccess
				if inAccess {
					r.Access = append(r.Access, ln)
				}
			case strings.HasPrefix(ln, "      "): // file:line
			case strings.HasPrefix(ln, "  "):
				fn := strings.TrimSpace(ln)
				r.Funcs = append(r.Funcs, fn)
				if strings.Contains(fn, tengoPkg) {
					r.Tengo = true
				}
				if wantTop {
					r.Tops = append(r.Tops, fn)
					wantTop = false
				}
			}
		}
		out = append(out, r)
	}
	return out
}

// classify maps a report to a known finding id ("" = not a known region).
func (r raceReport) classify() string {
	if len(r.Tops) == 0 {
		return ""
	}
	all := func(ok func(string) bool) bool {
		for _, t := range r.Tops {
			if !ok(t) {
				return false
			}
		}
		return true
	}
	if all(func(t string) bool {
		return t == tengoPkg+".(*String).IndexGet()" || t == tengoPkg+".(*String).Iterate()"
	}) {
		return "O15"
	}
	if all(func(t string) bool { return t == tengoPkg+"/parser.(*SourceFileSet).file()" }) {
		return "O16"
	}
	return ""
}

// signature of an unknown race: the two innermost functions, order-independent.
func (r raceReport) signature() string {
	t := append([]string{}, r.Tops...)
	for i := range t {
		t[i] = strings.TrimSuffix(strings.TrimPrefix(t[i], tengoPkg), "()")
	}
	sort.Strings(t)
	return "race:" + strings.Join(t, "|")
}

// raceLog follows the log file the race runtime of THIS process appends to.
type raceLog struct {
	path string
	off  int64
}

// next returns the reports written since the previous call.
func (l *raceLog) next() []raceReport {
	if l == nil || l.path == "" {
		return nil
	}
	b, err := os.ReadFile(l.path)
	if err != nil || int64(len(b)) <= l.off {
		return nil
	}
	s := string(b[l.off:])
	// keep an unfinished trailing block for the next call
	if i := strings.LastIndex(s, "=================="); i >= 0 {
		s = s[:i+len("==================")]
	} else {
		return nil
	}
	l.off += int64(len(s))
	return parseRaceReports(s)
}

package main

// Worker processes. A Go runtime fatal error ("concurrent map writes", "concurrent map iteration and map
// write", "all goroutines are asleep", stack overflow, …) ends the process; recover() does not see it. Every
// trial that lets several goroutines loose on tengo objects therefore runs in a child: this binary (or its
// -race build) re-executed with VERIF_C08_CHILD=<json childSpec>. The worker writes the trial in flight to a
// marker file before it starts the goroutines and flushes its result file after every scenario. When it dies,
// the parent turns the death into a violation whose Input is the marker's trial (so `-replay` re-runs exactly
// that trial, plans included) and starts a new worker at the next scenario.

import (
	"context"
	"encoding/json"
	"fmt"
	"os"
	"os/exec"
	"path/filepath"
	"regexp"
	"strconv"
	"strings"
	"syscall"
	"time"

	"verifharness/lib"
)

const childEnv = "VERIF_C08_CHILD"

// childSpec says what a worker does.
type childSpec struct {
	Start   int    `json:"start"`              // main loop: index of the first scenario to run
	Marker  string `json:"marker,omitempty"`   // file that receives the trial in flight
	Trial   *Trial `json:"trial,omitempty"`    // run only this trial (replay, confirmation of a hang)
	Reps    int    `json:"reps,omitempty"`     // … at most this many times (stops at the first violation)
	BudgetS int    `json:"budget_s,omitempty"` // … and for at most this long
}

// marker is what the worker leaves behind about the work in flight.
type marker struct {
	Index int    `json:"index"` // scenario number in the main loop
	Phase string `json:"phase"` // "solo" (one goroutine at a time) | "trial" (concurrent)
	Trial Trial  `json:"trial"`
}

var (
	markerPath string
	curIndex   int
)

func mark(phase string, t Trial) {
	if markerPath == "" {
		return
	}
	if b, err := json.Marshal(marker{Index: curIndex, Phase: phase, Trial: t}); err == nil {
		_ = os.WriteFile(markerPath, b, 0o644)
	}
}

// flushWorker: a worker saves what it has after every scenario (a later death loses one scenario at most).
func flushWorker() {
	if isChild && flags.Out != "" {
		res.Extra["t_solo_s"], res.Extra["t_clones_s"], res.Extra["t_api_s"] = tSolo.Seconds(), tClone.Seconds(), tApi.Seconds()
		res.Write(flags.Out)
	}
}

func workerMain(env string, rng *lib.RNG) {
	isChild = true
	var spec childSpec
	if env != "" {
		if err := json.Unmarshal([]byte(env), &spec); err != nil {
			fmt.Fprintln(os.Stderr, "c08 worker: bad", childEnv, err)
			os.Exit(3)
		}
	}
	markerPath = spec.Marker
	if spec.Trial != nil {
		runTrialRepeatedly(*spec.Trial, spec.Reps, spec.BudgetS, rng)
	} else {
		mainLoop(rng, spec.Start)
	}
	res.Extra["worker_done"] = true
	res.Write(flags.Out)
}

// runTrialRepeatedly re-runs one recorded trial until it shows a violation (or kills this process).
func runTrialRepeatedly(t Trial, reps, budgetS int, r *lib.RNG) {
	if reps < 1 {
		reps = 1
	}
	deadline := time.Now().Add(time.Duration(budgetS) * time.Second)
	var so soloRes
	if t.Mode != "api" {
		so = solo(t.Scenario, t.K)
		if so.err != nil || so.unstable {
			res.Dist("replay-scenario-not-runnable")
			return
		}
	}
	for i := 0; i < reps && nViol == 0; i++ {
		if i > 0 && budgetS > 0 && time.Now().After(deadline) {
			break
		}
		if t.Mode == "api" {
			apiTrial(t, r)
		} else {
			cloneTrial(t, so)
		}
		res.Dist("replay-run")
	}
}

// ---- the parent side ----

type workerExit struct {
	result   *lib.Result
	done     bool // the worker reached its end and said so
	err      error
	timedOut bool
	stderr   string
	mark     *marker
}

func workerTimeout() time.Duration {
	if s, err := strconv.Atoi(os.Getenv("VERIF_C08_WORKER_TIMEOUT_S")); err == nil && s > 0 {
		return time.Duration(s) * time.Second // test knob for the hang path
	}
	if flags.Thorough() {
		return 40 * time.Minute
	}
	return 4 * time.Minute
}

// runWorker starts bin as a worker and waits for it (SIGQUIT after the timeout: the goroutine dump lands in
// the captured stderr; killed 10 s later).
func runWorker(bin string, spec childSpec, race bool, work string, timeout time.Duration) workerExit {
	spec.Marker = filepath.Join(work, "marker.json")
	outp := filepath.Join(work, "worker.json")
	errp := filepath.Join(work, "worker.stderr")
	os.Remove(spec.Marker)
	os.Remove(outp)
	sj, _ := json.Marshal(spec)
	args := []string{"-c08child", "-tier", flags.Tier, "-seed", strconv.FormatUint(flags.Seed, 10), "-out", outp, "-known", flags.Known}
	ctx, cancel := context.WithTimeout(context.Background(), timeout)
	defer cancel()
	cmd := exec.CommandContext(ctx, bin, args...)
	cmd.Cancel = func() error { return cmd.Process.Signal(syscall.SIGQUIT) }
	cmd.WaitDelay = 10 * time.Second
	cmd.Env = append(os.Environ(), childEnv+"="+string(sj))
	if race {
		cmd.Env = append(cmd.Env, "GORACE=halt_on_error=0 exitcode=0 history_size=3 log_path="+filepath.Join(work, "race"))
	}
	var w workerExit
	ef, err := os.Create(errp)
	if err != nil {
		w.err = err
		return w
	}
	cmd.Stderr, cmd.Stdout = ef, ef
	w.err = cmd.Run()
	ef.Close()
	w.timedOut = ctx.Err() == context.DeadlineExceeded
	if b, err := os.ReadFile(errp); err == nil {
		if len(b) > 1<<20 {
			b = b[:1<<20]
		}
		w.stderr = string(b)
	}
	if b, err := os.ReadFile(outp); err == nil {
		var r lib.Result
		if json.Unmarshal(b, &r) == nil {
			w.result = &r
			if d, ok := r.Extra["worker_done"].(bool); ok && d && w.err == nil {
				w.done = true
			}
		}
	}
	if b, err := os.ReadFile(spec.Marker); err == nil {
		var m marker
		if json.Unmarshal(b, &m) == nil {
			w.mark = &m
		}
	}
	return w
}

func merge(child *lib.Result, race bool) {
	if child == nil {
		return
	}
	pre := ""
	if race {
		pre = "race:"
	}
	for _, v := range child.Violations {
		res.Violate(v)
	}
	for _, d := range child.Disagreements {
		res.Disagree(d)
	}
	for _, id := range child.KnownHits {
		addKnown(id)
	}
	for k, n := range child.Streams {
		res.Streams[pre+k] += n
	}
	for k, n := range child.Distribution {
		res.Distribution[pre+k] += n
	}
	res.Evaluations += child.Evaluations
	res.Distinct += child.Distinct
	res.Skipped += child.Skipped
	addF := func(key string, v interface{}) {
		f, _ := v.(float64)
		old, _ := res.Extra[key].(float64)
		res.Extra[key] = old + f
	}
	if race {
		addF("race_child_wall_s", child.WallS)
	} else {
		addF("worker_wall_s", child.WallS)
		for _, k := range []string{"t_solo_s", "t_clones_s", "t_api_s"} {
			if v, ok := child.Extra[k]; ok {
				addF(k, v)
			}
		}
	}
	for k, v := range child.Extra { // time spent in each late targeted scenario
		if strings.HasPrefix(k, "t_") && !strings.HasPrefix(k, "t_solo") && !strings.HasPrefix(k, "t_clones") && !strings.HasPrefix(k, "t_api") {
			addF(pre+k, v)
		}
	}
}

const maxDeaths = 6

// supervise runs the main loop in workers of bin until the scenario sequence is finished.
func supervise(bin string, race bool, work string) {
	name := "worker"
	if race {
		name = "race-worker"
	}
	start, deaths := 0, 0
	for {
		w := runWorker(bin, childSpec{Start: start}, race, work, workerTimeout())
		merge(w.result, race)
		if w.done {
			break
		}
		deaths++
		res.Dist(name + "-died")
		recordDeath(w, bin, race, work, name)
		if w.mark == nil {
			break // nothing says where to go on
		}
		if deaths >= maxDeaths {
			res.Dist(name + "-abandoned-after-deaths")
			res.Extra[name+"_abandoned_at_scenario"] = w.mark.Index
			break
		}
		start = w.mark.Index + 1 // the rest of that scenario is left out: its objects may be damaged in the same way
	}
	if deaths > 0 {
		res.Extra[name+"_deaths"] = deaths
	}
}

var (
	reRunning = regexp.MustCompile(`(?m)^goroutine \d+ \[running[^\]]*\]:`)
	reNoise   = regexp.MustCompile(`0x[0-9a-fA-F]+|\d+`)
	reNonWord = regexp.MustCompile(`[^a-z]+`)
)

func normSig(s string) string {
	s = reNoise.ReplaceAllString(s, "")
	s = strings.Trim(reNonWord.ReplaceAllString(strings.ToLower(s), "-"), "-")
	if len(s) > 70 {
		s = s[:70]
	}
	return s
}

// faultingBlock: the stack of the goroutine the runtime blames (the first "[running]" one); the whole text
// when there is none (deadlock, SIGQUIT dump).
func faultingBlock(stderr string) string {
	loc := reRunning.FindStringIndex(stderr)
	if loc == nil {
		return stderr
	}
	rest := stderr[loc[0]:]
	if k := strings.Index(rest, "\n\n"); k >= 0 {
		rest = rest[:k]
	}
	return rest
}

// deathSignature: a stable name of the way the worker ended, from its stderr.
func deathSignature(w workerExit) string {
	if w.timedOut {
		return "hang:trial-does-not-finish"
	}
	for _, ln := range strings.Split(w.stderr, "\n") {
		if rest, ok := strings.CutPrefix(ln, "fatal error: "); ok {
			return "fatal:" + normSig(rest)
		}
		if rest, ok := strings.CutPrefix(ln, "panic: "); ok {
			return "panic:" + normSig(strings.TrimSuffix(rest, " [recovered]"))
		}
	}
	return "worker-exit:" + normSig(fmt.Sprint(w.err))
}

func headLines(s string, n, maxBytes int) string {
	ls := strings.Split(strings.TrimSpace(s), "\n")
	if len(ls) > n {
		ls = append(ls[:n], fmt.Sprintf("… (%d more lines)", len(ls)-n))
	}
	out := strings.Join(ls, "\n")
	if len(out) > maxBytes {
		out = out[:maxBytes] + " …"
	}
	return out
}

// recordDeath: the worker ended without finishing. During a concurrent trial, blamed on a goroutine inside
// tengo: the property fails on that trial. Otherwise (single-goroutine phase, no tengo frame, no marker): the
// harness could not do its work, a broken obligation.
func recordDeath(w workerExit, bin string, race bool, work, name string) {
	sig := deathSignature(w)
	obs := headLines(w.stderr, 40, 4000)
	if obs == "" {
		obs = fmt.Sprintf("worker ended with %v and wrote nothing to stderr", w.err)
	}
	fmt.Fprintf(os.Stderr, "c08: %s died (%s)%s\n", name, sig, func() string {
		if w.mark != nil {
			return fmt.Sprintf(" in scenario %d %q, phase %s", w.mark.Index, w.mark.Trial.Scenario.Name, w.mark.Phase)
		}
		return ""
	}())
	if w.mark == nil {
		res.Disagree(lib.Disagreement{Stream: name, Input: sig, Model: "the worker process finishes and writes its result", Impl: obs})
		return
	}
	t := w.mark.Trial
	if w.mark.Phase != "trial" {
		res.Disagree(lib.Disagreement{Stream: name, Input: w.mark, Model: "a solo run (one goroutine at a time) of the scenario ends normally", Impl: sig + "\n" + obs})
		return
	}
	stream := t.Mode
	if race {
		stream += "-race"
	}
	if w.timedOut {
		// a slow machine is not a hang: only a trial that does not finish on its own either is reported
		again := runWorker(bin, childSpec{Trial: &t, Reps: 1}, race, work, 2*time.Minute)
		if !again.timedOut {
			res.Disagree(lib.Disagreement{Stream: name, Input: w.mark, Model: fmt.Sprintf("the worker finishes within %v", workerTimeout()),
				Impl: "killed after the timeout; the trial in flight finishes when it runs alone\n" + obs})
			return
		}
		obs = headLines(again.stderr, 40, 4000)
	} else if !strings.Contains(faultingBlock(w.stderr), tengoPkg) {
		res.Disagree(lib.Disagreement{Stream: name, Input: w.mark, Model: "no fatal error inside the harness itself", Impl: sig + "\n" + obs})
		return
	}
	what := "K goroutines call the API of one Compiled"
	if t.Mode != "api" {
		what = "K clones of one Compiled run on K goroutines"
	}
	violate(lib.Violation{Signature: sig, Stream: stream, Input: t, Observed: obs,
		Expected: "the process survives the trial (" + what + "): no Go runtime fatal error, no unrecovered panic, no hang",
		Oracle:   "the trial ran in a child process (" + childEnv + "); the child ended abnormally while this trial was in flight and the goroutine the Go runtime blames has tengo frames"})
}

// raceBinary builds the -race variant of this command ("" when there is no race detector here).
func raceBinary(work string) string {
	t0 := time.Now()
	bin, err := buildRace(work)
	if err != nil {
		// no race detector in this environment: the functional streams stand alone; say so
		res.Extra["race_build"] = "unavailable: " + err.Error()
		res.Dist("race-build-unavailable")
		return ""
	}
	res.Extra["race_build_s"] = time.Since(t0).Seconds()
	return bin
}

// replayParent re-runs every recorded trial of a replay file, each in its own worker.
func replayParent(path, self, work string) {
	b, err := os.ReadFile(path)
	if err != nil {
		fmt.Fprintln(os.Stderr, "c08:", err)
		os.Exit(3)
	}
	var rp struct {
		Violations []struct {
			Input json.RawMessage `json:"input"`
		} `json:"violations"`
	}
	_ = json.Unmarshal(b, &rp)
	raceBin, raceTried := "", false
	for _, v := range rp.Violations {
		var t Trial
		if json.Unmarshal(v.Input, &t) != nil || t.Scenario.Src == "" {
			continue
		}
		bin := self
		if t.Race {
			if !raceTried {
				raceBin, raceTried = raceBinary(work), true
			}
			if raceBin == "" {
				res.Skipped++
				continue
			}
			bin = raceBin
		}
		reps, budget := 400, 20 // a fatal error needs the right interleaving: many attempts, stops at the first violation
		if t.Race {
			reps = 20
		}
		if t.Mode != "api" && reps > 50 {
			reps = 50
		}
		w := runWorker(bin, childSpec{Trial: &t, Reps: reps, BudgetS: budget}, t.Race, work, 5*time.Minute)
		merge(w.result, t.Race)
		if !w.done {
			if w.mark == nil { // died before the first trial: still name the trial
				w.mark = &marker{Phase: "start", Trial: t}
			}
			recordDeath(w, bin, t.Race, work, "replay-worker")
		}
		res.Count("replay", string(v.Input), true)
	}
}

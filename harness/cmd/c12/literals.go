package main

// Round 8: constants whose exact bit pattern / spelling matters.
//
// Streams
//
//	lit        (inputs for refs/dups/gob/run3/dedup/renum) closed-form and seeded programs built from literal
//	           spellings that collide under a too-coarse notion of "equal constant": ±0 written in every way the
//	           grammar allows, NaN/Inf-producing expressions, largest/smallest/denormal floats, one value written in
//	           different ways (1e3 / 1000.0), neighbours one ulp apart, float32 collisions, ints that collide modulo
//	           2^32 / in float64, chars that collide modulo 2^16 or with ints, strings that collide by length / case /
//	           prefix / NUL / raw-vs-interpreted spelling, and foldable constant expressions next to the literal they
//	           would fold to. Every literal is put in several positions (global, function body, closure, argument,
//	           container, ternary, branch not taken, loop, source module) and is observed through the program itself
//	           (1.0/x, string(x), format, ==) as well as through the bit-exact canonical globals.
//	constwalk  (searcher) independent of what the compiler emits today and of which paths a run takes: a loader
//	           `CONST i; SETGLOBAL i` for EVERY entry of the actual constant table is run on the real VM as compiled,
//	           after RemoveDuplicates, after Encode/Decode and after both; every loaded value must be observably the
//	           constant the compiler put at index i (type, bit pattern, String(), 1.0/x for floats).

import (
	"fmt"
	"math"
	"strings"

	"github.com/d5/tengo/v2"
	"github.com/d5/tengo/v2/parser"
	"github.com/d5/tengo/v2/token"
	"verifharness/lib"
)

// ---- spellings ----

// zero-like floats: every one of these is +0.0 or -0.0 at run time
var floatZeros = []string{
	"0.0", "0.", ".0", "0e0", "0.0e-5", "0E+7", "00.00",
	"-0.0", "-0.", "-.0", "-0e0", "- 0.0", "-(0.0)", "-(-0.0)", "- -0.0", "-(-(-0.0))",
	"0.0 * -1", "0.0 * -1.0", "-1 * 0.0", "-1.0 * 0.0", "0.0 / -1.0", "0 / -1.0", "-0.0 + -0.0", "-0.0 - 0.0", "-0.0 + 0.0",
	"0.0 - 0.0", "-0.0 * 5.0", "-0.0 / 5.0", "-5e-324 / 2.0", "5e-324 / -2.0", "-5e-324 * 0.5", "1.0 / (-1.0 / 0.0)", "-1.0 / (1.0 / 0.0)",
	"-1e-400", "1e-400", "float(\"-0\")", "float(0) * -1.0",
}

// the sub-list whose ordered pairs are all enumerated
var floatZeroCore = []string{"0.0", "0e0", "-0.0", "-.0", "-(0.0)", "- -0.0", "0.0 * -1", "-5e-324 / 2.0"}

var floatSpecials = []string{
	// NaN
	"0.0 / 0.0", "-0.0 / 0.0", "-(0.0 / 0.0)", "(1.0 / 0.0) - (1.0 / 0.0)", "(1.0 / 0.0) * 0.0", "(1.0 / 0.0) * -0.0",
	// Inf
	"1.0 / 0.0", "-1.0 / 0.0", "1.0 / -0.0", "-1.0 / -0.0", "1e308 * 10.0", "-1e308 * 10.0", "-(1.0 / 0.0)",
	// largest / smallest / denormal
	"1.7976931348623157e308", "-1.7976931348623157e308", "1.7976931348623155e308", "1e308", "-1e308",
	"5e-324", "-5e-324", "4.9e-324", "1e-323", "-1e-323", "2.2250738585072014e-308", "2.225073858507201e-308", "-2.2250738585072014e-308",
	"1e-320", "1e-310",
}

// groups of float spellings: members of one group are equal, or differ only far behind the point
var floatGroups = [][]string{
	{"1e3", "1000.0", "1000.", "1.0e3", "1E3", "1e+3", "10e2", "0.1e4", "100.0 * 10.0", "-1e3", "-1000.0", "1000.0000000000001"},
	{"1.0", "1.", "1e0", "1.0000000000000002", "0.9999999999999999", "-1.0", "-(1.0)", "1.0 * -1", "1.00000001", "1.0000001"},
	{"0.1", "1e-1", ".1", "0.10000000000000002", "0.10000000149011612", "0.1 + 0.0", "-0.1", "-.1"},
	{"0.3", "0.30000000000000004", "0.1 + 0.2", "0.29999999999999993", "-0.3"},
	{"16777216.0", "16777217.0", "16777218.0", "-16777217.0", "1.6777217e7"},
	{"9007199254740992.0", "9007199254740993.0", "9007199254740994.0", "9.007199254740992e15"},
	{"0.5", "-0.5", "5e-1", "-5e-1", "-(0.5)", "0.5 * -1", "1.0 / 2.0", "-1.0 / 2.0", "0.25 + 0.25"},
	{"1.5", "-1.5", "2.5e10", "-2.5e10", "-1e9", "1e9", "1e-9", "-1e-9", "3.25", "-3.25"},
	{"97.0", "-97.0", "9.7e1", "970e-1", "97.00000000000001"},
	{"3.4028234663852886e38", "3.4028235e38", "3.4028236e38", "-3.4028234663852886e38", "1e39"},
	{"1.401298464324817e-45", "1e-45", "7e-46", "-1.401298464324817e-45", "1e-46"},
}

var intGroups = [][]string{
	{"0", "-0", "00", "0x0", "1", "-1", "- 1", "-(1)", "- -1", "1 * -1", "0 - 1"},
	{"1", "4294967297", "4294967296", "-4294967295", "2147483648", "-2147483648", "2147483647", "-2147483649"},
	{"9007199254740992", "9007199254740993", "9007199254740994", "-9007199254740993"},
	{"9223372036854775807", "9223372036854775806", "-9223372036854775807", "-9223372036854775807 - 1", "9223372036854775807 + 1", "4611686018427387904", "-4611686018427387904"},
	{"16", "0x10", "020", "0X10", "1 << 4", "2 * 8", "-16", "-0x10"},
	{"255", "256", "257", "65535", "65536", "65537", "-255", "-256", "-65536", "0xff", "0xFFFF"},
	{"97", "'a'", "97.0", "\"97\"", "\"a\"", "-97", "-97.0", "'\\x61'", "0x61", "9.7e1"},
	{"0", "0.0", "'\\x00'", "\"\"", "\"0\"", "-0", "-0.0", "\"\\x00\"", "\"-0\"", "\"0.0\""},
	{"1", "1.0", "'\\x01'", "\"1\"", "'1'", "-1", "-1.0", "true", "!false"},
}

var charGroups = [][]string{
	{"'a'", "'A'", "'\\x61'", "'\\u0061'", "'\\U00000061'", "'\\141'", "'a' + 0", "'b' - 1", "'A' + 32"},
	{"'A'", "'\\U00010041'", "'\\U00100041'", "'\\u0141'", "'\\x41'", "65"},
	{"'\\x00'", "'\\U00010000'", "'\\U0010FFFF'", "'\\uffff'", "'\\u0100'", "'\\xff'", "'ÿ'", "0"},
	{"'é'", "'\\xe9'", "'\\u00e9'", "'e'", "'É'", "233"},
	{"'\\n'", "'\\\\'", "'\\''", "'\"'", "'\\t'", "' '", "'0'", "'日'", "'\\u65e5'"},
}

var strGroups = [][]string{
	{`""`, "``", `"a"`, "`a`", `"\x61"`, `"\u0061"`, `"A"`, `"a "`, `" a"`, `"a\x00"`, `"a\x00b"`, `"\x00a"`, `"aa"`, `"a" + ""`, `"" + ""`},
	{`"ab"`, `"ba"`, `"Ab"`, `"aB"`, `"a" + "b"`, "`ab`", `"ab\n"`, "`ab\\n`", `"ab\\n"`, `"abc"`, `"cd"`, `"ab" + "cd"`, `"abcd"`},
	{`"é"`, `"\xc3\xa9"`, `"\u00e9"`, `"e\u0301"`, `"\xe9"`, `"\xff"`, `"\xff\xfe"`, `"\ufffd"`, `"É"`, `"e"`},
	{`"0"`, `"0.0"`, `"-0"`, `"-0.0"`, `"+0"`, `"00"`, `"0 "`, `"1e3"`, `"1000"`, `"true"`, `"undefined"`, `"NaN"`},
	{`"日本"`, `"日"`, `"本日"`, `"\u65e5\u672c"`, `"日本" + ""`, `"日" + "本"`},
}

// foldable constant expressions, each next to the literal it would fold to (when there is one)
var foldPairs = [][2]string{
	{"-1", "1"}, {"-0", "0"}, {"- -1", "1"}, {"-(1)", "1"}, {"+1", "1"}, {"+1.5", "1.5"}, {"-1.5", "1.5"}, {"-(1.5)", "1.5"}, {"^0", "0"}, {"^-1", "0"}, {"^1", "1"},
	{"-9223372036854775807 - 1", "9223372036854775807"}, {"9223372036854775807 + 1", "1"}, {"-9223372036854775807", "9223372036854775807"},
	{"1 + 2", "3"}, {"2 * 3", "6"}, {"7 / 2", "3"}, {"-7 / 2", "3"}, {"-7 % 3", "1"}, {"7 % -3", "1"}, {"1 << 62", "4611686018427387904"}, {"1 << 63", "63"}, {"1 << 64", "0"},
	{"-1 >> 1", "1"}, {"-8 >> 1", "4"}, {"6 & 3", "2"}, {"6 | 3", "7"}, {"6 ^ 3", "5"}, {"6 &^ 3", "4"},
	{"!true", "false"}, {"!false", "true"}, {"!0", "true"}, {"!0.0", "true"}, {"!\"\"", "true"}, {"!undefined", "true"},
	{"'a' + 1", "'b'"}, {"'b' - 1", "'a'"}, {"'a' - 'b'", "1"}, {"'a' + 'b'", "195"}, {"1 + 'a'", "98"}, {"'a' - 97", "'\\x00'"},
	{`"ab" + "cd"`, `"abcd"`}, {`"ab" + 1`, `"ab1"`}, {`"a" + 'b'`, `"ab"`}, {`"" + ""`, `""`}, {`"a" + 1.5`, `"a1.5"`}, {`"x" + -0.0`, `"x-0"`}, {`"x" + 0.0`, `"x0"`},
	{"1.0 + 2", "3.0"}, {"1 + 2.0", "3.0"}, {"2 * 0.5", "1.0"}, {"1 / 2.0", "0.5"}, {"1.0 - 1.0", "0.0"}, {"1.0 - 1", "0.0"}, {"-1.0 + 1.0", "0.0"}, {"0.0 * -2.0", "0.0"},
	{"2.0 * -0.0", "0.0"}, {"-2 * 0.0", "0.0"}, {"0.0 / -2", "0.0"}, {"1.0 * 0.0", "-0.0"}, {"-1.0 * -0.0", "-0.0"},
	{"1 == 1", "true"}, {"1 == 1.0", "true"}, {"0.0 == -0.0", "true"}, {"1 < 2", "true"}, {"\"a\" < \"b\"", "true"}, {"0.0 / 0.0 == 0.0 / 0.0", "false"},
	{"[1, 2][0]", "1"}, {"\"ab\"[1]", "'b'"}, {"{a: 1}.a", "1"}, {"len(\"ab\")", "2"}, {"int(1.5)", "1"}, {"float(1)", "1.0"}, {"char(97)", "'a'"}, {"string(97)", "\"97\""},
	{"true ? -0.0 : 0.0", "0.0"}, {"false ? 0.0 : -0.0", "0.0"}, {"true && false", "false"}, {"0.0 || -0.0", "0.0"}, {"-0.0 || 0.0", "0.0"}, {"1.0 && -0.0", "0.0"},
}

// obs: an expression that observes x (and its relation to y) by means of the language itself. It is total: no
// division of ints, no index out of range.
func obs(x, y string) string {
	return "[" + x + ", is_float(" + x + ") ? 1.0 / " + x + " : string(" + x + "), string(" + x + "), format(\"%v|%v\", " + x + ", " + y + "), " +
		x + " == " + y + ", is_float(" + x + ") && is_float(" + y + ") ? [" + x + " < " + y + ", " + x + " * " + y + ", " + x + " - " + y + ", 1.0 / (" + x + " + " + y + ")] : type_name(" + x + ")]"
}

const litTemplates = 9

// litProgram puts the two spellings a and b into a program of shape t.
func litProgram(a, b string, t int) replayInput {
	// bare where any expression may stand (the compiler sees the literal / unary expression itself), in
	// parentheses where precedence would otherwise re-associate a compound spelling
	A, B := "("+a+")", "("+b+")"
	var sb strings.Builder
	in := replayInput{}
	switch t % litTemplates {
	case 0: // globals
		fmt.Fprintf(&sb, "a := %s\nb := %s\nra := %s\nrb := %s\n", a, b, obs("a", "b"), obs("b", "a"))
	case 1: // function bodies and closures
		fmt.Fprintf(&sb, "f := func() { return [%s, %s] }\ng := func(x) { return func() { y := %s; return [x, y, %s] } }\nr := f()\ns := g(%s)()\n", a, b, b, obs("x", "y"), a)
		fmt.Fprintf(&sb, "ra := %s\nrb := %s\n", obs("r[0]", "r[1]"), obs("s[1]", "s[0]"))
	case 2: // a source module holds one of them
		in.Modules = map[string]string{"lm": fmt.Sprintf("k := %s\nexport {a: k, f: func() { return %s }, g: func(x) { return %s }, b: %s}\n", a, a, obs("x", A), b)}
		fmt.Fprintf(&sb, "m := import(\"lm\")\nb := %s\nn := import(\"lm\")\nra := %s\nrb := m.g(b)\nrc := n.g(n.f())\nrd := %s\n", b, obs("m.a", "b"), obs("n.b", "m.f()"))
	case 3: // containers, ternary, arguments, immutable
		fmt.Fprintf(&sb, "o := {k: %s, l: [%s, %s], i: immutable([%s])}\nt := o.k == o.l[0] ? %s : %s\nq := func(x, y, ...z) { return [%s, %s, z] }(%s, %s, %s, %s)\n",
			a, b, a, b, A, B, obs("x", "y"), obs("y", "x"), a, b, b, a)
		fmt.Fprintf(&sb, "ra := %s\nrb := %s\n", obs("o.k", "o.l[0]"), obs("o.i[0]", "t"))
	case 4: // branches: one of them sits in code that is never run
		fmt.Fprintf(&sb, "x := undefined\nif %s == %s { x = %s } else { x = %s }\ndead := func() { return [%s, %s, %s] }\nif false { x = [%s, %s] }\n", A, B, a, b, b, a, obs(A, B), b, a)
		fmt.Fprintf(&sb, "y := %s\nra := %s\nw := func() { if is_undefined(x) { return %s }; return %s }()\nrb := %s\n", b, obs("x", "y"), a, b, obs("w", "x"))
	case 5: // loops: the constant is loaded many times
		fmt.Fprintf(&sb, "s := %s\nacc := []\nfor i := 0; i < 3; i++ {\n  s = i == 1 ? %s : %s\n  acc = append(acc, %s)\n}\nfor k, v in [%s, %s] { acc = append(acc, %s) }\nrb := %s\n",
			a, B, A, obs("s", B), a, b, obs("v", "s"), obs("s", "acc[0][0]"))
	case 6: // b first: the other one is the "earlier" constant
		fmt.Fprintf(&sb, "b := %s\nh := func(v) { return [v, %s] }\na := %s\nra := %s\nrb := %s\nrc := h(a)\nrd := h(b)\n", b, a, a, obs("a", "b"), obs("b", "a"))
	case 7: // a run-time error after the observations: error text and position must survive too
		fmt.Fprintf(&sb, "a := %s\nb := %s\nra := %s\nf := func(x) {\n  return [1, 2][x]\n}\nrb := f(0)\nrc := f(a)\nrd := f(b)\n", a, b, obs("a", "b"))
	case 8: // map keys, string building, compound assignment (may fail for mixed kinds: last)
		fmt.Fprintf(&sb, "a := %s\nb := %s\nra := %s\nm := {}\nm[string(%s)] = %s\nm[string(%s)] = %s\ns := \"\" + %s + \"|\" + %s\nc := a\nc += %s\nd := %s\nd *= a\nrb := %s\n",
			a, b, obs("a", B), a, a, b, b, A, B, b, b, obs("c", "d"))
	}
	in.Source = sb.String()
	return in
}

func orderedPairs(xs []string) [][2]string {
	var out [][2]string
	for i, x := range xs {
		for j, y := range xs {
			if i != j {
				out = append(out, [2]string{x, y})
			}
		}
	}
	return out
}

// litCorpus: the closed-form families (the same for every seed).
func litCorpus() []replayInput {
	var out []replayInput
	t := 0
	add := func(a, b string) {
		out = append(out, litProgram(a, b, t))
		t++
	}
	// the seeded form in every position: (0.0, -0.0), (-0.0, 0.0), -0.0 alone, -0.0 next to another float
	for k := 0; k < litTemplates; k++ {
		out = append(out, litProgram("0.0", "-0.0", k), litProgram("-0.0", "0.0", k), litProgram("-0.0", "-0.0", k), litProgram("-0.0", "1.0", k))
	}
	// every zero-like spelling next to the plain zero and next to the negated literal, every special next to one
	// of them (orders alternate)
	for i, s := range floatZeros {
		if i%2 == 0 {
			add(s, "0.0")
			add("-0.0", s)
		} else {
			add("0.0", s)
			add(s, "-0.0")
		}
	}
	for i, s := range floatSpecials {
		switch i % 4 {
		case 0:
			add(s, "0.0")
		case 1:
			add("-0.0", s)
		case 2:
			add("0.0", s)
		default:
			add(s, "-0.0")
		}
	}
	for _, p := range orderedPairs(floatZeroCore) {
		add(p[0], p[1])
	}
	adjacent := func(groups [][]string) {
		for _, g := range groups {
			for i := range g {
				if i%2 == 0 {
					add(g[i], g[(i+1)%len(g)])
				} else {
					add(g[(i+1)%len(g)], g[i])
				}
			}
		}
	}
	adjacent(floatGroups)
	adjacent(intGroups)
	adjacent(charGroups)
	adjacent(strGroups)
	for _, g := range [][]string{floatGroups[0][:5], intGroups[6][:4], strGroups[0][:5]} {
		for _, p := range orderedPairs(g) {
			add(p[0], p[1])
		}
	}
	for i, p := range foldPairs {
		add(p[i%2], p[1-i%2])
	}
	// long strings that differ in the last byte only / in length only
	long := strings.Repeat("x", 300)
	add(`"`+long+`a"`, `"`+long+`b"`)
	add(`"`+long+`"`, `"`+long+`x"`)
	return out
}

func allSpellings() []string {
	out := append(append([]string{}, floatZeros...), floatSpecials...)
	for _, gs := range [][][]string{floatGroups, intGroups, charGroups, strGroups} {
		for _, g := range gs {
			out = append(out, g...)
		}
	}
	for _, p := range foldPairs {
		out = append(out, p[0], p[1])
	}
	return out
}

// litRandom: a seeded mix: 2..4 shapes over spellings of any kind in one program (the variable names of the
// shapes are made distinct by a suffix), so that constants of different kinds and shapes share one pool.
func litRandom(r *lib.RNG, all []string) replayInput {
	in := replayInput{}
	var sb strings.Builder
	n := 2 + r.Intn(3)
	for i := 0; i < n; i++ {
		a := lib.Pick(r, all)
		b := lib.Pick(r, all)
		if r.Chance(1, 3) {
			a = lib.Pick(r, floatZeros)
		}
		if r.Chance(1, 4) {
			b = lib.Pick(r, floatZeros)
		}
		t := r.Intn(litTemplates)
		if t == 2 && in.Modules != nil || t == 7 && i != n-1 {
			t = 0
		}
		p := litProgram(a, b, t)
		if p.Modules != nil {
			in.Modules = p.Modules
		}
		sb.WriteString(suffixIdents(p.Source, fmt.Sprint("_", i)))
	}
	in.Source = sb.String()
	return in
}

// suffixIdents renames the variables of a litProgram (single letters and the few short names it uses) so that
// several shapes fit in one program. Only whole identifiers outside string/char literals are touched.
func suffixIdents(src, suf string) string {
	names := map[string]bool{"a": true, "b": true, "c": true, "d": true, "f": true, "g": true, "h": true, "k": true, "m": true, "n": true, "o": true, "q": true, "r": true, "s": true, "t": true,
		"v": true, "w": true, "x": true, "y": true, "z": true, "i": true, "ra": true, "rb": true, "rc": true, "rd": true, "acc": true, "dead": true}
	var sb strings.Builder
	i := 0
	isId := func(c byte) bool {
		return c == '_' || c >= 'a' && c <= 'z' || c >= 'A' && c <= 'Z' || c >= '0' && c <= '9'
	}
	for i < len(src) {
		c := src[i]
		switch {
		case c == '"' || c == '\'':
			j := i + 1
			for j < len(src) && src[j] != c {
				if src[j] == '\\' {
					j++
				}
				j++
			}
			if j >= len(src) {
				j = len(src) - 1
			}
			sb.WriteString(src[i : j+1])
			i = j + 1
		case c == '`':
			j := i + 1
			for j < len(src) && src[j] != '`' {
				j++
			}
			if j >= len(src) {
				j = len(src) - 1
			}
			sb.WriteString(src[i : j+1])
			i = j + 1
		case c >= '0' && c <= '9' || c == '.' && i+1 < len(src) && src[i+1] >= '0' && src[i+1] <= '9':
			// a number (0x10, 1e+3, .5, 1.5e-3, 0.): copy it whole, it is not an identifier
			hex := i+1 < len(src) && (src[i+1] == 'x' || src[i+1] == 'X')
			j := i + 1
			for j < len(src) && (isId(src[j]) || src[j] == '.' || (src[j] == '+' || src[j] == '-') && !hex && (src[j-1] == 'e' || src[j-1] == 'E')) {
				j++
			}
			sb.WriteString(src[i:j])
			i = j
		case isId(c):
			j := i
			for j < len(src) && isId(src[j]) {
				j++
			}
			w := src[i:j]
			sb.WriteString(w)
			// not a selector (x.a), not a map-literal key ({a: 1})
			sel := i > 0 && src[i-1] == '.' && !(i > 1 && src[i-2] == '.') // x.a, but not ...z
			key := j < len(src) && src[j] == ':' && !(j+1 < len(src) && src[j+1] == '=')
			if names[w] && !sel && !key {
				sb.WriteString(suf)
			}
			i = j
		default:
			sb.WriteByte(c)
			i++
		}
	}
	return sb.String()
}

// ---- constwalk ----

const constWalkMax = 1000 // one global per constant; GlobalsSize is 1024

// walkEvery: set while the literal families run
var walkEvery bool

// observeConst: what a program can learn from a loaded constant.
func observeConst(o tengo.Object) string {
	switch v := o.(type) {
	case nil:
		return "nil"
	case *tengo.CompiledFunction:
		return fmt.Sprintf("(fn %d bytes, %d locals, %d params, varargs=%v)", len(v.Instructions), v.NumLocals, v.NumParameters, fnVarArgs(v))
	case *tengo.Float:
		inv := ""
		if q, err := (&tengo.Float{Value: 1}).BinaryOp(token.Quo, v); err == nil {
			inv = lib.Canon(q)
		}
		return v.TypeName() + " " + lib.Canon(v) + " String=" + v.String() + " 1/x=" + inv + fmt.Sprintf(" signbit=%v", math.Signbit(v.Value))
	case *tengo.Int, *tengo.Char, *tengo.String, *tengo.Bool, *tengo.Undefined, *tengo.Bytes:
		return o.TypeName() + " " + lib.Canon(o) + " String=" + o.String()
	}
	return o.TypeName() + " " + lib.Canon(o)
}

// constWalk: see the header. `orig` is never modified; the loader runs on a further compile of the same input.
func constWalk(in replayInput, orig *lib.Compiled) {
	n := len(orig.BC.Constants)
	if n == 0 || n > constWalkMax {
		res.Dist("constwalk-skipped-size")
		return
	}
	want := make([]string, n)
	sensitive := false
	for i, c := range orig.BC.Constants {
		want[i] = observeConst(c)
		cl := constClass(c)
		res.Dist("const-class:" + cl)
		switch cl {
		case "int", "string", "char", "function", "float", "float-zero", "immutable-map":
		default:
			sensitive = true
		}
	}
	// every program of the literal families, every program whose pool holds a constant of an unusual class
	// (negative, -0, NaN, Inf, denormal, other types), and one in eight of the rest (the static oracles refs/gob
	// cover those as well)
	if !walkEvery && !sensitive && len(in.Source)%8 != 0 {
		return
	}
	fresh, err := compile(in)
	if err != nil || len(fresh.BC.Constants) != n {
		res.Dist("constwalk-skipped-compiles-differ")
		return
	}
	// two compiles of one input must agree on the table: otherwise nothing is claimed
	for i, c := range fresh.BC.Constants {
		if observeConst(c) != want[i] {
			res.Dist("constwalk-skipped-compiles-differ")
			return
		}
	}
	var code []byte
	for i := 0; i < n; i++ {
		code = append(code, tengo.MakeInstruction(parser.OpConstant, i)...)
		code = append(code, tengo.MakeInstruction(parser.OpSetGlobal, i)...)
	}
	code = append(code, tengo.MakeInstruction(parser.OpSuspend)...)
	bc := &tengo.Bytecode{FileSet: fresh.BC.FileSet, MainFunction: &tengo.CompiledFunction{Instructions: code, SourceMap: map[int]parser.Pos{}},
		Constants: fresh.BC.Constants}
	mm := moduleMap(in)
	// load runs the loader; "" = every constant loads as compiled, otherwise the first difference
	load := func(name string, b *tengo.Bytecode) (diff string, failed bool) {
		globals := make([]tengo.Object, tengo.GlobalsSize)
		var rerr error
		if pv := safeCall(func() { rerr = tengo.NewVM(b, globals, -1).Run() }); pv != "" || rerr != nil {
			return fmt.Sprintf("loader fails: panic=%q err=%v", pv, rerr), true
		}
		for i := 0; i < n; i++ {
			if got := observeConst(globals[i]); got != want[i] {
				return fmt.Sprintf("constant %d of the compiled program loads as %s (as compiled: %s)", i, clip(got, 300), clip(want[i], 300)), false
			}
		}
		return "", false
	}
	report := func(name string, b *tengo.Bytecode) {
		diff, failed := load(name, b)
		if diff == "" {
			return
		}
		sig := name + "-changes-loaded-constant"
		if failed {
			sig = name + "-constant-loader-fails"
		}
		res.Violate(lib.Violation{Signature: sig, Stream: "constwalk", Input: in, Observed: diff,
			Expected: "every entry of the constant table loads as the value the compiler put there (type, bit pattern, String(), 1.0/x)",
			Oracle:   "CONST i; SETGLOBAL i for every entry of the compiler's constant table, run on the real VM before and after the transformation"})
	}
	if dec, err := gobRoundTrip(bc, mm); err == nil {
		report("gob", dec)
	} else {
		res.Violate(lib.Violation{Signature: "gob-roundtrip-fails", Stream: "constwalk", Input: in, Observed: err.Error(),
			Expected: "compiled constants encode and decode", Oracle: "Bytecode.Encode / Bytecode.Decode"})
	}
	if pv := safeCall(func() { bc.RemoveDuplicates() }); pv != "" {
		res.Violate(lib.Violation{Signature: "dedup-panics-on-compiler-output", Stream: "constwalk", Input: in, Observed: pv,
			Expected: "no panic", Oracle: "RemoveDuplicates on the compiler's constant table with a loader as main function"})
		return
	}
	report("dedup", bc)
	if dec, err := gobRoundTrip(bc, mm); err == nil {
		report("dedup+gob", dec)
	}
	res.Count("constwalk", in.Source, sensitive || len(bc.Constants) < n)
}

// constClass: coarse class of a constant for the evidence distribution (shows which kinds the compiler emits).
func constClass(c tengo.Object) string {
	switch v := c.(type) {
	case *tengo.Float:
		switch {
		case v.Value != v.Value:
			return "float-nan"
		case math.IsInf(v.Value, 0):
			return "float-inf"
		case v.Value == 0 && math.Signbit(v.Value):
			return "float-negative-zero"
		case v.Value == 0:
			return "float-zero"
		case v.Value < 0:
			return "float-negative"
		case math.Abs(v.Value) < 2.2250738585072014e-308:
			return "float-denormal"
		}
		return "float"
	case *tengo.Int:
		if v.Value < 0 {
			return "int-negative"
		}
		return "int"
	case *tengo.String:
		return "string"
	case *tengo.Char:
		return "char"
	case *tengo.CompiledFunction:
		return "function"
	case *tengo.ImmutableMap:
		return "immutable-map"
	}
	return "other:" + c.TypeName()
}

// litStream runs the closed-form families and the seeded mix.
func litStream(rng *lib.RNG, nRandom int) {
	walkEvery = true
	defer func() { walkEvery = false }()
	check := func(in replayInput) {
		if _, err := compile(in); err != nil {
			res.Dist("lit-compile-error") // a spelling the grammar rejects: visible in the evidence, not silently dropped
			res.Sample(map[string]interface{}{"stream": "lit", "compile_error": err.Error(), "source": clip(in.Source, 200)}, 6)
			return
		}
		res.Dist("lit-programs")
		checkProgram(in)
	}
	for _, in := range litCorpus() {
		check(in)
	}
	all := allSpellings()
	for i := 0; i < nRandom; i++ {
		check(litRandom(rng.Fork(), all))
	}
}

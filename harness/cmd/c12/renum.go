package main

import (
	"math"
	"strings"

	"github.com/d5/tengo/v2"
	"verifharness/lib"
)

// Stream
//
//	renum    translation validation on the whole-VM model: the real RemoveDuplicates output is the original
//	         program with its constant pool renumbered (Tengo.Model.VM.checkRenum passes, value constants equal
//	         as written, initial function objects correspond) — then, by Tengo.Props.C12VM (renumbered_run,
//	         renum_same_result / _error / _kind / _cost), the two programs run alike on the VM model for EVERY
//	         input, allocation budget and fuel: same dispatch count, same stack, globals and heap, same error in
//	         the same function at the same ip.                                                   (Disagree)

// renumIndexMap recomputes old index ↦ new index by first-occurrence search (untrusted by the model): a constant
// that survived is found by identity; a dropped duplicate maps to the first survivor of the same type and value.
// scalar=false: a dropped constant of a kind the VM model cannot hold anyway (a builtin module).
func renumIndexMap(before, after []tengo.Object) (cm []int, ok, scalar bool) {
	pos := map[tengo.Object]int{}
	for j, c := range after {
		if _, dup := pos[c]; !dup {
			pos[c] = j
		}
	}
	cm = make([]int, len(before))
	for i, c := range before {
		if j, ok := pos[c]; ok {
			cm[i] = j
			continue
		}
		found := -1
		for j, d := range after {
			same := false
			switch c := c.(type) {
			case *tengo.Int:
				d, ok := d.(*tengo.Int)
				same = ok && d.Value == c.Value
			case *tengo.Float:
				d, ok := d.(*tengo.Float)
				same = ok && math.Float64bits(d.Value) == math.Float64bits(c.Value)
			case *tengo.String:
				d, ok := d.(*tengo.String)
				same = ok && d.Value == c.Value
			case *tengo.Char:
				d, ok := d.(*tengo.Char)
				same = ok && d.Value == c.Value
			case *tengo.CompiledFunction:
				same = sameFnObject(c, d) // the output holds the rewritten copy of the function (repair O46)
			}
			if same {
				found = j
				break
			}
		}
		if found < 0 {
			switch c.(type) {
			case *tengo.Int, *tengo.Float, *tengo.String, *tengo.Char, *tengo.CompiledFunction:
				return nil, false, true
			}
			return nil, false, false
		}
		cm[i] = found
	}
	return cm, true, true
}

// renumStream: `orig` is an untouched compile of the program, `before` the constants of the second compile
// before RemoveDuplicates ran on it (same order as orig's), `ded` that second compile after RemoveDuplicates.
func renumStream(in replayInput, orig *tengo.Bytecode, before []tengo.Object, ded *tengo.Bytecode, removed int) {
	if len(before) != len(orig.Constants) {
		res.Dist("renum-skipped-compiles-differ")
		return
	}
	if len(before) > maxModelConsts { // the index search and the list-based check are quadratic
		res.Dist("renum-skipped-constant-or-size")
		return
	}
	cm, ok, scalar := renumIndexMap(before, ded.Constants)
	if !ok && !scalar {
		res.Dist("renum-skipped-constant-or-size")
		return
	}
	if !ok {
		res.Count("renum", in.Source, true)
		res.Disagree(lib.Disagreement{Stream: "renum", Input: in, Model: "no index map",
			Impl: "a constant of the original pool has no counterpart in the de-duplicated pool"})
		return
	}
	line, ok := lib.RenumLine(orig, ded, cm, 24000, maxModelConsts)
	if !ok {
		res.Dist("renum-skipped-constant-or-size")
		return
	}
	ans, err := drv.Ask(line)
	if err != nil {
		fatal(err)
	}
	res.ModelLines++
	res.Count("renum", line, removed > 0)
	if strings.HasPrefix(ans, "ok ") {
		if removed > 0 {
			res.Dist("renum-checked-with-removed-constants")
		}
		moved := false
		for i, j := range cm {
			if _, isFn := before[i].(*tengo.CompiledFunction); isFn && i != j {
				moved = true
			}
		}
		if moved {
			res.Dist("renum-checked-with-moved-function-constant")
		}
		// ok <#fn> <#starts> <checkDedupPre> <floatsDistinctB> <outputIsModel>: is this very pair one the universal
		// theorem speaks about (Tengo.Props.C12Univ.covered_renum / covered_program)?
		f := strings.Fields(ans)
		if len(f) >= 6 {
			switch {
			case f[3] == "1" && f[5] == "1" && f[4] == "1":
				res.Dist("renum-covered-by-universal-theorem")
			case f[3] == "1" && f[5] == "1":
				res.Dist("renum-covered-by-universal-theorem-expand-form(duplicated-floats)")
			default:
				res.Disagree(lib.Disagreement{Stream: "renum-universal", Input: in, Model: ans,
					Impl: "the program must satisfy the universal theorem's hypotheses (checkDedupPre) and the real RemoveDuplicates output must be the model's (outputIsModel)"})
			}
		}
		return
	}
	res.Disagree(lib.Disagreement{Stream: "renum", Input: in, Model: ans,
		Impl: "checkRenum(original, RemoveDuplicates output, index map) must pass: the real output is not the original with its constant pool renumbered"})
}

// Command c12: correspondence and searchers for C12 (bytecode post-processing and
// serialization preserve behaviour).
//
// Streams
//
//	dedup    model `RemoveDuplicates` vs the real one, byte for byte (main, every constant, kept origins), on the
//	         bytecode of generated and hand-written programs                                    (Disagree)
//	pool     the same on hand-assembled constant pools incl. NaN, ±0, shared function pointers, unnamed and
//	         equally named immutable maps, other constant types                                 (Disagree + refs/dups)
//	refs     (searcher) after the real RemoveDuplicates every CONST/CLOSURE operand of every function is in
//	         range and names a constant equal to the one it named before; nothing else changed
//	dups     (searcher) no two de-duplicable constants of the real output are equal
//	run3     (searcher) original vs de-duplicated vs de-duplicated+Encode/Decode (the cmd/tengo path) vs
//	         Encode/Decode alone on the real VM: same globals, same error text incl. positions, per input
//	lit, constwalk   see literals.go (round 8)
//	gob      (searcher) Decode(Encode(bc)) preserves Instructions/NumLocals/NumParameters/VarArgs/SourceMap of
//	         every function, the non-function constants, and every FileSet position
package main

import (
	"bytes"
	"encoding/json"
	"fmt"
	"math"
	"os"
	"reflect"
	"sort"
	"strings"

	"github.com/d5/tengo/v2"
	"github.com/d5/tengo/v2/parser"
	"github.com/d5/tengo/v2/stdlib"
	"verifharness/lib"
)

type replayInput struct {
	Source   string            `json:"source,omitempty"`
	Modules  map[string]string `json:"modules,omitempty"`
	Builtins []string          `json:"builtins,omitempty"`
	Custom   bool              `json:"custom,omitempty"`
	Inputs   []string          `json:"inputs,omitempty"` // names of pre-declared globals
	Assign   string            `json:"assign,omitempty"`
	Pool     string            `json:"pool,omitempty"`
}

var (
	res      *lib.Result
	drv      *lib.Driver
	thorough bool
)

// ---- custom importables (constants of other types, unnamed immutable maps) ----

type arrImportable struct{}

func (arrImportable) Import(string) (interface{}, error) {
	return &tengo.Array{Value: []tengo.Object{&tengo.Int{Value: 1}, tengo.TrueValue, tengo.UndefinedValue,
		&tengo.Map{Value: map[string]tengo.Object{"t": tengo.FalseValue}}}}, nil
}

type imapImportable struct{}

func (imapImportable) Import(string) (interface{}, error) {
	return &tengo.ImmutableMap{Value: map[string]tengo.Object{"a": &tengo.Int{Value: 7}, "b": tengo.TrueValue,
		"l": &tengo.ImmutableArray{Value: []tengo.Object{tengo.UndefinedValue, tengo.FalseValue}}}}, nil
}

func moduleMap(in replayInput) *tengo.ModuleMap {
	mm := stdlib.GetModuleMap(in.Builtins...)
	names := make([]string, 0, len(in.Modules))
	for n := range in.Modules {
		names = append(names, n)
	}
	sort.Strings(names)
	for _, n := range names {
		mm.AddSourceModule(n, []byte(in.Modules[n]))
	}
	if in.Custom {
		mm.Add("carr", arrImportable{})
		mm.Add("cimap", imapImportable{})
	}
	return mm
}

// ---- serialisation of real bytecode for the model ----

func modName(m *tengo.ImmutableMap) string {
	if s, ok := m.Value["__module_name__"].(*tengo.String); ok {
		return s.Value
	}
	return ""
}

// fnVarArgs reads CompiledFunction.VarArgs by name, so that the harness still builds (and finds a failing
// run) when a field the VM needs is renamed out of gob's sight.
func fnVarArgs(f *tengo.CompiledFunction) bool {
	v := reflect.ValueOf(f).Elem()
	for _, n := range []string{"VarArgs", "varArgs"} {
		if fv := v.FieldByName(n); fv.IsValid() && fv.Kind() == reflect.Bool {
			return fv.Bool()
		}
	}
	return false
}

type ptrIDs map[*tengo.CompiledFunction]int

// fnAlias: RemoveDuplicates rewrites the function constants in COPIES (repair O46): the output's function objects are
// not the input's. aliasFns records, for every function object of an output pool that is not an input object, the
// input function it is the rewritten copy of (same frame layout, same length, same source map, same order); every
// identity-based oracle below goes through origFn. A function of the output without such an origin stays unknown.
var fnAlias = map[*tengo.CompiledFunction]*tengo.CompiledFunction{}

func origFn(f *tengo.CompiledFunction) *tengo.CompiledFunction {
	for i := 0; i < 8; i++ {
		o, ok := fnAlias[f]
		if !ok {
			break
		}
		f = o
	}
	return f
}

func srcMapPtr(f *tengo.CompiledFunction) uintptr {
	if f.SourceMap == nil {
		return 0
	}
	return reflect.ValueOf(f.SourceMap).Pointer()
}

func aliasFns(before snapshot, after *tengo.Bytecode) {
	isInput := map[*tengo.CompiledFunction]bool{}
	for _, f := range before.fns {
		isInput[f.fn] = true
	}
	used := map[*tengo.CompiledFunction]bool{}
	for _, g := range lib.Functions(after) {
		if isInput[g] {
			used[g] = true
		}
	}
	for _, g := range lib.Functions(after) {
		if isInput[g] {
			continue
		}
		if _, ok := fnAlias[g]; ok {
			continue
		}
		for _, f := range before.fns {
			if used[f.fn] || f.fn.NumLocals != g.NumLocals || f.fn.NumParameters != g.NumParameters || fnVarArgs(f.fn) != fnVarArgs(g) ||
				len(f.insts) != len(g.Instructions) || srcMapPtr(f.fn) != srcMapPtr(g) {
				continue
			}
			used[f.fn] = true
			fnAlias[g] = f.fn
			break
		}
	}
}

// resetAliases starts a new, independent case (the table only has to live as long as one program / pool is examined).
func resetAliases() { fnAlias = map[*tengo.CompiledFunction]*tengo.CompiledFunction{} }

func (p ptrIDs) id(f *tengo.CompiledFunction) int {
	f = origFn(f)
	if v, ok := p[f]; ok {
		return v
	}
	p[f] = len(p) + 1
	return p[f]
}

func constSexp(c tengo.Object, ids ptrIDs) string {
	switch c := c.(type) {
	case *tengo.CompiledFunction:
		return lib.L("fn", lib.Hex(c.Instructions), lib.N(c.NumLocals), lib.N(c.NumParameters), lib.B(fnVarArgs(c)),
			lib.SrcMapSexp(c.SourceMap), lib.N(ids.id(c)))
	case *tengo.Int:
		return lib.L("i", lib.I(c.Value))
	case *tengo.Float:
		return lib.L("f", lib.U(math.Float64bits(c.Value)))
	case *tengo.Char:
		return lib.L("c", lib.I(int64(c.Value)))
	case *tengo.String:
		return lib.L("s", lib.HexS(c.Value))
	case *tengo.ImmutableMap:
		return lib.L("mod", lib.HexS(modName(c)))
	}
	return "(o)"
}

func bcSexp(bc *tengo.Bytecode, ids ptrIDs) string {
	parts := []string{"consts"}
	for _, c := range bc.Constants {
		parts = append(parts, constSexp(c, ids))
	}
	return lib.L("bc", lib.L("main", lib.Hex(bc.MainFunction.Instructions), lib.SrcMapSexp(bc.MainFunction.SourceMap)), lib.L(parts...))
}

// ---- snapshot of the references before de-duplication ----

type fnSnap struct {
	fn    *tengo.CompiledFunction
	insts []byte
}

type snapshot struct {
	consts []tengo.Object
	fns    []fnSnap // main first, then every distinct function constant
}

func snap(bc *tengo.Bytecode) snapshot {
	s := snapshot{consts: append([]tengo.Object{}, bc.Constants...)}
	seen := map[*tengo.CompiledFunction]bool{}
	for _, f := range lib.Functions(bc) {
		if !seen[f] {
			seen[f] = true
			s.fns = append(s.fns, fnSnap{f, append([]byte{}, f.Instructions...)})
		}
	}
	return s
}

// sameConst: does b stand for the same constant as a? strict: floats by bit pattern (programs);
// otherwise by Go == (pools with ±0).
func sameConst(a, b tengo.Object, strict bool) bool {
	if a == b || sameFnObject(a, b) {
		return true
	}
	switch a := a.(type) {
	case *tengo.Int:
		b, ok := b.(*tengo.Int)
		return ok && a.Value == b.Value
	case *tengo.String:
		b, ok := b.(*tengo.String)
		return ok && a.Value == b.Value
	case *tengo.Char:
		b, ok := b.(*tengo.Char)
		return ok && a.Value == b.Value
	case *tengo.Float:
		b, ok := b.(*tengo.Float)
		if !ok {
			return false
		}
		return math.Float64bits(a.Value) == math.Float64bits(b.Value) || (!strict && a.Value == b.Value)
	case *tengo.ImmutableMap:
		b, ok := b.(*tengo.ImmutableMap)
		if !ok || modName(a) == "" || modName(a) != modName(b) {
			return false
		}
		return !strict || lib.Canon(a) == lib.Canon(b)
	}
	return false
}

// dupKey: the key under which a constant is de-duplicable ("" = not de-duplicable).
func dupKey(c tengo.Object, ids ptrIDs) string {
	switch c := c.(type) {
	case *tengo.CompiledFunction:
		return fmt.Sprintf("fn:%d", ids.id(c))
	case *tengo.Int:
		return fmt.Sprintf("i:%d", c.Value)
	case *tengo.String:
		return "s:" + c.Value
	case *tengo.Char:
		return fmt.Sprintf("c:%d", c.Value)
	case *tengo.Float:
		if c.Value != c.Value {
			return ""
		}
		if c.Value == 0 {
			return "f:0"
		}
		return fmt.Sprintf("f:%d", math.Float64bits(c.Value))
	case *tengo.ImmutableMap:
		if n := modName(c); n != "" {
			return "m:" + n
		}
	}
	return ""
}

// checkRefs is the model-independent validity oracle of RemoveDuplicates.
func checkRefs(in replayInput, before snapshot, after *tengo.Bytecode, strict bool, stream string) bool {
	ok := true
	bad := func(sig, obs, exp string) {
		ok = false
		res.Violate(lib.Violation{Signature: sig, Stream: stream, Input: in, Observed: obs, Expected: exp,
			Oracle: "decoded operands of the real RemoveDuplicates output against a snapshot of the input"})
	}
	// every function constant of the output is one of the input's functions
	aliasFns(before, after)
	known := map[*tengo.CompiledFunction]bool{}
	for _, f := range before.fns {
		known[f.fn] = true
	}
	now := map[*tengo.CompiledFunction]*tengo.CompiledFunction{} // input function -> the object that stands for it in the output
	for _, f := range lib.Functions(after) {
		if !known[origFn(f)] {
			bad("dedup-unknown-function-in-output", "function constant not present in the input (and not the rewritten copy of one)", "subset of the input's functions")
			continue
		}
		if _, dup := now[origFn(f)]; !dup {
			now[origFn(f)] = f
		}
	}
	live := map[*tengo.CompiledFunction]bool{origFn(after.MainFunction): true}
	for _, c := range after.Constants {
		if f, isFn := c.(*tengo.CompiledFunction); isFn {
			live[origFn(f)] = true
		}
	}
	for fi, f := range before.fns {
		if !live[f.fn] {
			bad("dedup-function-dropped", fmt.Sprintf("function #%d no longer in the pool", fi), "every function kept")
			continue
		}
		old, e1 := lib.Decode(f.insts)
		cur, e2 := lib.Decode(now[f.fn].Instructions)
		if e1 != nil || e2 != nil || len(old) != len(cur) {
			bad("dedup-instruction-stream-changed", fmt.Sprintf("function #%d: %v %v %d/%d instructions", fi, e1, e2, len(old), len(cur)), "same instruction boundaries")
			continue
		}
		for k := range old {
			o, n := old[k], cur[k]
			if o.Op != n.Op || o.Pos != n.Pos || len(o.Args) != len(n.Args) {
				bad("dedup-instruction-stream-changed", fmt.Sprintf("function #%d offset %d", fi, o.Pos), "same opcode and offset")
				break
			}
			if o.Op != parser.OpConstant && o.Op != parser.OpClosure {
				if fmt.Sprint(o.Args) != fmt.Sprint(n.Args) {
					bad("dedup-unrelated-operand-changed", fmt.Sprintf("function #%d offset %d: %v -> %v", fi, o.Pos, o.Args, n.Args), "unchanged")
				}
				continue
			}
			if o.Op == parser.OpClosure && o.Args[1] != n.Args[1] {
				bad("dedup-closure-numfree-changed", fmt.Sprintf("function #%d offset %d: %d -> %d", fi, o.Pos, o.Args[1], n.Args[1]), "unchanged")
			}
			if o.Args[0] >= len(before.consts) {
				continue // ill-formed input reference: outside the property
			}
			if n.Args[0] >= len(after.Constants) {
				bad("dedup-constant-reference-out-of-range", fmt.Sprintf("function #%d offset %d: operand %d, pool size %d", fi, o.Pos, n.Args[0], len(after.Constants)), "operand < len(Constants)")
				continue
			}
			if !sameConst(before.consts[o.Args[0]], after.Constants[n.Args[0]], strict) {
				bad("dedup-constant-reference-changed-meaning", fmt.Sprintf("function #%d offset %d: %s -> %s", fi, o.Pos,
					clip(lib.Canon(before.consts[o.Args[0]]), 80), clip(lib.Canon(after.Constants[n.Args[0]]), 80)), "an equal constant")
			}
		}
	}
	return ok
}

func checkNoDups(in replayInput, after *tengo.Bytecode, ids ptrIDs, stream string) {
	seen := map[string]int{}
	for i, c := range after.Constants {
		k := dupKey(c, ids)
		if k == "" {
			continue
		}
		if j, dup := seen[k]; dup {
			res.Violate(lib.Violation{Signature: "dedup-equal-constants-remain", Stream: stream, Input: in,
				Observed: fmt.Sprintf("constants %d and %d are equal (%s)", j, i, clip(k, 60)), Expected: "no two de-duplicable constants equal",
				Oracle: "pairwise comparison of the real output pool"})
			return
		}
		seen[k] = i
	}
}

func sameFnObject(a, b tengo.Object) bool {
	fa, ok1 := a.(*tengo.CompiledFunction)
	fb, ok2 := b.(*tengo.CompiledFunction)
	return ok1 && ok2 && origFn(fa) == origFn(fb)
}

// keptOrigins: for every output constant the input index it was taken from (same object).
func keptOrigins(before []tengo.Object, after []tengo.Object) string {
	parts := []string{"kept"}
	last := -1 // the output is a subsequence of the input: origins increase
	for _, c := range after {
		idx := len(before)
		for i := last + 1; i < len(before); i++ {
			if before[i] == c || sameFnObject(before[i], c) {
				idx = i
				break
			}
		}
		last = idx
		parts = append(parts, lib.N(idx))
	}
	return lib.L(parts...)
}

// correspond asks the model to de-duplicate `line` (serialised input) and compares with the real output.
func correspond(in replayInput, stream, line string, before []tengo.Object, after *tengo.Bytecode, ids ptrIDs, panicked string) {
	if drv == nil {
		return
	}
	ans, err := drv.Ask(lib.L("dedup", line))
	if err != nil {
		fatal(err)
	}
	res.ModelLines++
	var want string
	if panicked != "" {
		want = "panic"
		if i := strings.Index(ans, " "); i > 0 && strings.HasPrefix(ans, "panic") {
			ans = ans[:i]
		}
	} else {
		want = "ok " + bcSexp(after, ids) + " " + keptOrigins(before, after.Constants)
		if i := strings.Index(ans, " (map"); i > 0 {
			ans = ans[:i]
		}
	}
	if ans != want {
		res.Disagree(lib.Disagreement{Stream: stream, Input: in, Model: clip(ans, 1500), Impl: clip(want, 1500)})
	}
}

// ---- probes of the candidate findings of this property (custom Importables only; see notes/C12.md) ----

type errImportable struct{}

func (errImportable) Import(string) (interface{}, error) {
	return &tengo.Error{Value: tengo.TrueValue}, nil
}

type namedMapImportable struct{ v int64 }

func (m namedMapImportable) Import(string) (interface{}, error) {
	return &tengo.ImmutableMap{Value: map[string]tengo.Object{"__module_name__": &tengo.String{Value: "same"}, "v": &tengo.Int{Value: m.v}}}, nil
}

type negZeroImportable struct{}

func (negZeroImportable) Import(string) (interface{}, error) {
	return &tengo.Float{Value: math.Copysign(0, -1)}, nil
}

// ownProbes re-runs the two inputs. A failing probe is reported as a known-finding hit unless the known
// file lists it as fixed (then it is a regression and a violation).
func ownProbes(knownPath string) {
	status := map[string]string{}
	for _, k := range lib.LoadKnown(knownPath) {
		if k.Property == "C12" {
			status[k.ID] = k.Status
		}
	}
	report := func(id, sig, input, observed, what string) {
		res.Count("finding-probe", id, true)
		if observed == "" {
			return
		}
		if status[id] == "fixed" {
			res.Violate(lib.Violation{Signature: sig, Stream: "finding-probe", Input: input, Observed: observed,
				Expected: "transformed bytecode runs like the original", Oracle: what})
			return
		}
		res.KnownHits = append(res.KnownHits, id)
	}
	mm := tengo.NewModuleMap()
	mm.Add("e", errImportable{})
	mm.Add("a", namedMapImportable{1})
	mm.Add("b", namedMapImportable{2})
	mm.Add("nz", negZeroImportable{})
	run := func(src string, transform func(*tengo.Bytecode) *tengo.Bytecode) (string, string) {
		c, err := lib.CompileSource([]byte(src), lib.CompileOpts{Modules: mm})
		if err != nil {
			return "", ""
		}
		want := lib.RunBytecode(c, lib.RunOpts{}).String()
		c2, _ := lib.CompileSource([]byte(src), lib.CompileOpts{Modules: mm})
		bc := transform(c2.BC)
		if bc == nil {
			return want, "transformation failed"
		}
		return want, lib.RunBytecode(&lib.Compiled{BC: bc, Symbols: c.Symbols}, lib.RunOpts{}).String()
	}
	src1 := "r := import(\"e\").value == true\n"
	want, got := run(src1, func(bc *tengo.Bytecode) *tengo.Bytecode {
		out, err := gobRoundTrip(bc, mm)
		if err != nil {
			return nil
		}
		return out
	})
	obs := ""
	if want != got {
		obs = got + " (original: " + want + ")"
	}
	report("C12-F1", "gob-fix-skips-singletons-inside-error-values", "custom Importable returning &Error{Value: TrueValue}; "+src1, obs,
		"fixDecodedObject has no *Error arm: a Bool/Undefined inside an error constant is not the shared value after Decode")
	src2 := "x := import(\"a\").v\ny := import(\"b\").v\n"
	want, got = run(src2, func(bc *tengo.Bytecode) *tengo.Bytecode { bc.RemoveDuplicates(); return bc })
	obs = ""
	if want != got {
		obs = got + " (original: " + want + ")"
	}
	src3 := "z := 0.0\nnz := import(\"nz\")\nb := 1.0 / nz\n"
	want3, got3 := run(src3, func(bc *tengo.Bytecode) *tengo.Bytecode { bc.RemoveDuplicates(); return bc })
	obs3 := ""
	if want3 != got3 {
		obs3 = got3 + " (original: " + want3 + ")"
	}
	report("C12-F3", "dedup-merges-negative-zero-with-zero", "custom Importable returning &Float{-0.0}; "+src3, obs3,
		"RemoveDuplicates keys float constants by the Go map key float64: -0.0 and 0.0 are one key, the constant -0.0 is replaced by 0.0")
	src4 := "nz := import(\"nz\")\nb := 1.0 / nz\ns := string(nz)\n"
	want4, got4 := run(src4, func(bc *tengo.Bytecode) *tengo.Bytecode {
		out, err := gobRoundTrip(bc, mm)
		if err != nil {
			return nil
		}
		return out
	})
	obs4 := ""
	if want4 != got4 {
		obs4 = got4 + " (original: " + want4 + ")"
	}
	report("C12-F4", "gob-reads-negative-zero-constant-back-as-zero", "custom Importable returning &Float{-0.0}; "+src4, obs4,
		"encoding/gob omits a float field that compares equal to zero: the constant -0.0 is read back as +0.0 by Decode")
	report("C12-F2", "dedup-merges-distinct-maps-with-equal-module-name", "two custom Importables returning different immutable maps with the same __module_name__; "+src2, obs,
		"RemoveDuplicates keys *ImmutableMap constants by __module_name__ only")
}

// ---- programs ----

func compile(in replayInput) (*lib.Compiled, error) {
	return lib.CompileSource([]byte(in.Source), lib.CompileOpts{Modules: moduleMap(in), Inputs: in.Inputs})
}

func gobRoundTrip(bc *tengo.Bytecode, mm *tengo.ModuleMap) (*tengo.Bytecode, error) {
	var buf bytes.Buffer
	if err := bc.Encode(&buf); err != nil {
		return nil, fmt.Errorf("encode: %v", err)
	}
	out := &tengo.Bytecode{}
	if err := out.Decode(bytes.NewReader(buf.Bytes()), mm); err != nil {
		return nil, fmt.Errorf("decode: %v", err)
	}
	return out, nil
}

func checkGobStructure(in replayInput, a, b *tengo.Bytecode) {
	bad := func(sig, obs string) {
		res.Violate(lib.Violation{Signature: sig, Stream: "gob", Input: in, Observed: obs, Expected: "Decode(Encode(bc)) equals bc field by field",
			Oracle: "field-by-field comparison of the decoded bytecode"})
	}
	fa, fb := lib.Functions(a), lib.Functions(b)
	if len(a.Constants) != len(b.Constants) || len(fa) != len(fb) {
		bad("gob-constant-count-differs", fmt.Sprintf("%d/%d constants, %d/%d functions", len(a.Constants), len(b.Constants), len(fa), len(fb)))
		return
	}
	for i := range fa {
		x, y := fa[i], fb[i]
		switch {
		case !bytes.Equal(x.Instructions, y.Instructions):
			bad("gob-instructions-differ", fmt.Sprintf("function #%d", i))
		case x.NumLocals != y.NumLocals:
			bad("gob-numlocals-differ", fmt.Sprintf("function #%d: %d -> %d", i, x.NumLocals, y.NumLocals))
		case x.NumParameters != y.NumParameters:
			bad("gob-numparameters-differ", fmt.Sprintf("function #%d: %d -> %d", i, x.NumParameters, y.NumParameters))
		case fnVarArgs(x) != fnVarArgs(y):
			bad("gob-varargs-differ", fmt.Sprintf("function #%d: %v -> %v", i, fnVarArgs(x), fnVarArgs(y)))
		case lib.SrcMapSexp(x.SourceMap) != lib.SrcMapSexp(y.SourceMap):
			bad("gob-sourcemap-differs", fmt.Sprintf("function #%d", i))
		case len(y.Free) != 0:
			bad("gob-free-variables-appear", fmt.Sprintf("function #%d", i))
		}
	}
	for i := range a.Constants {
		if _, isFn := a.Constants[i].(*tengo.CompiledFunction); isFn {
			if _, isFn2 := b.Constants[i].(*tengo.CompiledFunction); !isFn2 {
				bad("gob-constant-differs", fmt.Sprintf("constant %d is no longer a function", i))
			}
			continue
		}
		if x, y := lib.Canon(a.Constants[i]), lib.Canon(b.Constants[i]); x != y {
			bad("gob-constant-differs", fmt.Sprintf("constant %d: %s -> %s", i, clip(x, 100), clip(y, 100)))
		}
		if !singletonsOK(b.Constants[i], 0) {
			bad("gob-singleton-not-restored", fmt.Sprintf("constant %d holds a bool/undefined that is not the shared value", i))
		}
	}
	// positions
	limit := a.FileSet.Base + 1
	if b.FileSet == nil || b.FileSet.Base != a.FileSet.Base || len(b.FileSet.Files) != len(a.FileSet.Files) {
		bad("gob-fileset-differs", "base or number of files")
		return
	}
	for p := 0; p <= limit; p++ {
		if x, y := a.FileSet.Position(parser.Pos(p)).String(), b.FileSet.Position(parser.Pos(p)).String(); x != y {
			bad("gob-position-differs", fmt.Sprintf("pos %d: %s -> %s", p, x, y))
			break
		}
	}
}

// singletonsOK: every Bool/Undefined reachable through the containers fixDecodedObject walks is the shared value.
func singletonsOK(o tengo.Object, depth int) bool {
	if depth > 50 {
		return true
	}
	switch v := o.(type) {
	case *tengo.Bool:
		return v == tengo.TrueValue || v == tengo.FalseValue
	case *tengo.Undefined:
		return v == tengo.UndefinedValue
	case *tengo.Array:
		for _, x := range v.Value {
			if !singletonsOK(x, depth+1) {
				return false
			}
		}
	case *tengo.ImmutableArray:
		for _, x := range v.Value {
			if !singletonsOK(x, depth+1) {
				return false
			}
		}
	case *tengo.Map:
		for _, x := range v.Value {
			if !singletonsOK(x, depth+1) {
				return false
			}
		}
	case *tengo.ImmutableMap:
		for _, x := range v.Value {
			if !singletonsOK(x, depth+1) {
				return false
			}
		}
	}
	return true
}

type assignment struct {
	name string
	vals map[string]tengo.Object
}

func assignments(in replayInput) []assignment {
	if len(in.Inputs) == 0 {
		return []assignment{{"none", nil}}
	}
	mk := func(name string, vs ...tengo.Object) assignment {
		m := map[string]tengo.Object{}
		for i, n := range in.Inputs {
			m[n] = vs[i%len(vs)]
		}
		return assignment{name, m}
	}
	all := []assignment{
		mk("ints", &tengo.Int{Value: 3}, &tengo.Int{Value: 2}),
		mk("zero", &tengo.Int{Value: 5}, &tengo.Int{Value: 0}),
		mk("string", &tengo.String{Value: "ab"}, &tengo.Int{Value: 1}),
		mk("float", &tengo.Float{Value: 1.5}, &tengo.Float{Value: -2}),
		mk("undefined", tengo.UndefinedValue, &tengo.Int{Value: 4}),
		mk("array", &tengo.Array{Value: []tengo.Object{&tengo.Int{Value: 1}}}, &tengo.Int{Value: 7}),
	}
	if in.Assign != "" {
		for _, a := range all {
			if a.name == in.Assign {
				return []assignment{a}
			}
		}
	}
	return all
}

func checkProgram(in replayInput) {
	resetAliases()
	orig, err := compile(in)
	if err != nil {
		res.Count("run3", in.Source, false)
		res.Dist("compile-error")
		return
	}
	nBefore := len(orig.BC.Constants)
	// --- de-duplicate a second compile of the same source (RemoveDuplicates mutates in place)
	ded, err := compile(in)
	if err != nil {
		fatal(fmt.Errorf("second compile failed: %v", err))
	}
	ids := ptrIDs{}
	line := bcSexp(ded.BC, ids)
	before := snap(ded.BC)
	g := lib.Guard(10e9, func() { ded.BC.RemoveDuplicates() })
	if g.TimedOut { // machine overloaded: not a statement about the code
		res.Skipped++
		res.Dist("dedup-watchdog-skipped")
		return
	}
	if g.Panicked {
		res.Violate(lib.Violation{Signature: "dedup-panics-on-compiler-output", Stream: "refs", Input: in, Observed: g.PanicVal,
			Expected: "no panic", Oracle: "RemoveDuplicates on the output of the real compiler"})
		return
	}
	aliasFns(before, ded.BC)
	removed := nBefore - len(ded.BC.Constants)
	res.Count("dedup", line, removed > 0)
	renumStream(in, orig.BC, before.consts, ded.BC, removed)
	if nBefore <= maxModelConsts {
		correspond(in, "dedup", line, before.consts, ded.BC, ids, "")
	} else {
		res.Dist("model-line-skipped-large-pool")
	}
	if nBefore >= 256 {
		res.Dist("programs-with-256+-constants")
	}
	okRefs := checkRefs(in, before, ded.BC, true, "refs")
	res.Count("refs", line, removed > 0)
	checkNoDups(in, ded.BC, ids, "dups")
	res.Count("dups", line, removed > 0)
	if removed > 0 {
		res.Dist("programs-with-removed-constants")
	}
	res.Dist(fmt.Sprintf("removed-constants:%s", bucket(removed)))
	// idempotence on the real code: a second pass changes nothing
	again := bcSexp(ded.BC, ids)
	before2 := snap(ded.BC)
	if pv := safeCall(func() { ded.BC.RemoveDuplicates(); aliasFns(before2, ded.BC) }); pv != "" {
		res.Violate(lib.Violation{Signature: "dedup-panics", Stream: "dups", Input: in, Observed: "second RemoveDuplicates: panic: " + pv,
			Expected: "RemoveDuplicates returns", Oracle: "recover around the call"})
		return
	}
	if bcSexp(ded.BC, ids) != again {
		res.Violate(lib.Violation{Signature: "dedup-not-idempotent", Stream: "dups", Input: in, Observed: "second RemoveDuplicates changed the bytecode",
			Expected: "fixed point", Oracle: "RemoveDuplicates twice"})
	}
	// --- gob round trips (as cmd/tengo: compile → RemoveDuplicates → Encode → Decode with the module map)
	mm := moduleMap(in)
	dec, err := gobRoundTrip(ded.BC, mm)
	var decOrig *tengo.Bytecode
	if err == nil {
		decOrig, err = gobRoundTrip(orig.BC, mm)
	}
	if err != nil {
		res.Violate(lib.Violation{Signature: "gob-roundtrip-fails", Stream: "gob", Input: in, Observed: err.Error(),
			Expected: "compiled bytecode encodes and decodes", Oracle: "Bytecode.Encode / Bytecode.Decode with the compile-time module map"})
		return
	}
	checkGobStructure(in, ded.BC, dec)
	checkGobStructure(in, orig.BC, decOrig)
	res.Count("gob", line, true)
	_ = okRefs
	constWalk(in, orig)
	// --- runs
	variants := []struct {
		name string
		bc   *tengo.Bytecode
	}{{"dedup", ded.BC}, {"dedup+gob", dec}, {"gob", decOrig}}
	for ai, a := range assignments(in) {
		ro := lib.RunBytecode(orig, lib.RunOpts{Inputs: a.vals})
		if ro.TimedOut {
			res.Dist("timeout")
			return
		}
		if outcomeSize(ro) > 4<<20 { // a generated program that grows a giant value: four more canonical copies cost GBs
			res.Skipped++
			res.Dist("huge-outcome-skipped")
			return
		}
		if ai == 0 {
			if r2 := lib.RunBytecode(orig, lib.RunOpts{Inputs: a.vals}); r2.String() != ro.String() {
				res.Skipped++
				res.Dist("map-order-dependent-skipped")
				return
			}
		}
		if ro.TimedOut {
			res.Dist("timeout")
			return
		}
		if ro.Err != "" {
			res.Dist("runtime-error-runs")
			res.Dist("assign:" + a.name + ":error")
		} else {
			res.Dist("assign:" + a.name + ":ok")
		}
		res.Count("run3", in.Source+"\x00"+a.name, removed > 0)
		for _, v := range variants {
			rv := lib.RunBytecode(&lib.Compiled{BC: v.bc, Symbols: orig.Symbols}, lib.RunOpts{Inputs: a.vals})
			if rv.TimedOut {
				res.Dist("timeout")
				continue
			}
			if rv.String() != ro.String() {
				in2 := in
				in2.Assign = a.name
				res.Violate(lib.Violation{Signature: "run-differs-" + v.name, Stream: "run3", Input: in2,
					Observed: clip(rv.String(), 600), Expected: clip(ro.String(), 600),
					Oracle: "run of the transformed bytecode == run of the original (globals, error text with positions)"})
			}
		}
		if ai == 0 {
			res.Sample(map[string]interface{}{"stream": "run3", "source": clip(in.Source, 400), "removed": removed, "outcome": clip(ro.String(), 160)}, 3)
		}
	}
}

func outcomeSize(o lib.RunOutcome) int {
	n := len(o.Err) + len(o.Panic)
	for _, v := range o.Globals {
		n += len(v)
	}
	return n
}

func bucket(n int) string {
	switch {
	case n == 0:
		return "0"
	case n <= 3:
		return "1-3"
	case n <= 10:
		return "4-10"
	}
	return ">10"
}

func clip(s string, n int) string {
	if len(s) > n {
		return s[:n] + "…"
	}
	return s
}

// ---- generated programs with modules ----

var srcModules = map[string]string{
	"m1": `math := import("math")
k := 10
f := func(x) { return x + k + 1 }
g := func(x) { return func(y) { return x * y + 1 + 10 } }
export { f: f, g: g, div: func(a, b) { return a / b }, name: "abc", pi: math.pi,
  idx: func(a, i) { return a[i] }, mk: func() { c := 0; return func() { c += 1; return c + 10 } } }
`,
	"m2": `m1 := import("m1")
text := import("text")
again := import("m1")
export { h: func(x) { return m1.f(x) + 1 }, up: func(s) { return text.to_upper(s) },
  bad: func(x) { return again.div(10, x) }, c: 'a', fl: 3.5, name: "abc",
  deep: func(n) { return func(a) { return func(b) { return a + b + n + 1 + 10 } } } }
`,
	"m3": `export func(n) {
  s := 0
  for i := 0; i < n; i++ { s += i + 1 }
  return s + 10
}
`,
	"m4": `export 42
`,
}

var builtinPool = []string{"math", "text", "json", "base64", "hex", "enum", "fmt"}

// useLines: statements over the imported modules; %i = an input name.
var useLines = []string{
	`A := import("m1")`, `B := import("m1")`, `C := import("m2")`, `D := import("m3")`, `E := import("m4")`, `F := import("m2")`,
	`M := import("math")`, `M2 := import("math")`, `T := import("text")`, `T2 := import("text")`, `J := import("json")`,
	`EN := import("enum")`, `EN2 := import("enum")`, `H := import("hex")`, `B64 := import("base64")`, `FM := import("fmt")`,
	`r# := import("m1").f(%i)`, `r# := import("m1").g(%i)(3)`, `r# := import("m2").bad(%i)`, `r# := import("m2").h(%i)`,
	`r# := import("m2").up("abc") + import("m1").name`, `r# := import("m3")(%i)`, `r# := import("m4") + 42`,
	`r# := import("m2").deep(1)(%i)(10)`, `r# := import("math").abs(%i) + import("math").pi`,
	`r# := import("text").repeat("abc", 2) + "abc"`, `r# := import("m1").idx([1, 10, 42], %i)`,
	`r# := import("math").pow(2.0, 3.5) + 3.5 + 2.0`, `r# := import("text").contains("hello world", "abc")`,
	`r# := import("json").decode(import("json").encode({a: 1, b: [10, 3.5, "abc"]}))`,
	`r# := import("enum").map([1, 2, 10], func(k, v) { return v + 10 + %i })`,
	`r# := import("hex").encode(bytes("abc"))`, `r# := import("base64").encode(bytes("abc"))`,
	`r# := import("fmt").sprintf("%d-%s-%v", 10, "abc", 3.5)`,
	`c# := import("m1").mk(); r# := [c#(), c#(), 10, 'a', 'a', 3.5, "abc"]`,
	`r# := func(a) { return func(b) { return a + b + 10 + 1 + %i } }(1)(10)`,
	`r# := [0, 0, 0.0, 0.0, "", "", 'a', 'a', 1, 1.0, '1', "1", 10, 10.0, "10"]`,
	`r# := %i / 1 + %i % 10`, `r# := [1, 10][%i]`, `r# := import("m1").div(%i, %i)`,
}

var customLines = []string{
	`X := import("carr")`, `Y := import("carr")`, `Z := import("cimap")`, `W := import("cimap")`,
	`r# := import("carr")[1] == true`, `r# := import("cimap").b ? import("cimap").a : 10`,
	`r# := [is_undefined(import("carr")[2]), import("carr")[3].t == false, import("cimap").l[1] == false]`,
}

func modProgram(r *lib.RNG, withGen bool) replayInput {
	in := replayInput{Modules: srcModules, Builtins: builtinPool, Inputs: []string{"in1", "in2"}}
	in.Custom = r.Chance(1, 4)
	var sb strings.Builder
	if withGen {
		p := lib.DefaultProfile()
		p.MaxStmts = 4 + r.Intn(8)
		p.Chaos = 10
		g := lib.NewGen(r, p)
		sb.WriteString(g.Program())
	}
	pool := useLines
	if in.Custom {
		pool = append(append([]string{}, useLines...), customLines...)
	}
	n := 3 + r.Intn(10)
	for i := 0; i < n; i++ {
		l := lib.Pick(r, pool)
		l = strings.ReplaceAll(l, "#", fmt.Sprint(i))
		for strings.Contains(l, "%i") {
			l = strings.Replace(l, "%i", lib.Pick(r, in.Inputs), 1)
		}
		if r.Chance(1, 5) {
			l = "f" + fmt.Sprint(i) + " := func() {\n  " + strings.ReplaceAll(l, "; ", "\n  ") + "\n}\nf" + fmt.Sprint(i) + "()"
		}
		sb.WriteString(l + "\n")
	}
	in.Source = sb.String()
	return in
}

func genProfile(r *lib.RNG) lib.Profile {
	p := lib.DefaultProfile()
	p.MaxStmts = 10 + r.Intn(14)
	p.MaxDepth = 3 + r.Intn(2)
	p.Chaos = 15
	return p
}

// ---- hand-assembled pools ----

// maxModelConsts: pools above this size are checked on the real code only (the list-based model is quadratic).
const maxModelConsts = 3000

// poolCase builds one pool: bigN == 0 a small random one; otherwise bigN constants, mostly distinct ints with
// some repeats, so that old and new indexes cross the one-byte boundaries (255/256/257, 511/512/513, 65535).
func poolCase(r *lib.RNG, bigN int) {
	nan2 := math.Float64frombits(0x7ff8000000000123)
	sharedFns := []*tengo.CompiledFunction{{NumLocals: 1}, {NumParameters: 2, NumLocals: 2}, {}}
	n := 1 + r.Intn(12)
	if bigN > 0 {
		n = bigN
	}
	uniq := int64(1000)
	repeatEvery := 2 + r.Intn(40)
	mkConst := func() tengo.Object {
		if bigN > 0 {
			switch k := r.Intn(repeatEvery * 4); {
			case k == 0:
				return &tengo.Int{Value: 1000 + int64(r.Intn(int(uniq-999)))} // repeat of an earlier value (or a new one)
			case k == 1:
				return &tengo.CompiledFunction{NumLocals: r.Intn(3)}
			case k == 2:
				return &tengo.String{Value: fmt.Sprint("s", uniq%97)}
			case k > 3:
				uniq++
				return &tengo.Int{Value: uniq}
			}
		}
		switch r.Intn(8) {
		case 0:
			return &tengo.Int{Value: lib.Pick(r, []int64{0, 1, -1, 97, 1 << 40})}
		case 1:
			return &tengo.Float{Value: lib.Pick(r, []float64{0, math.Copysign(0, -1), 1.5, math.NaN(), nan2, math.Inf(1), 97})}
		case 2:
			return &tengo.Char{Value: lib.Pick(r, []rune{0, 'a', 97, '1', 0x10FFFF})}
		case 3:
			return &tengo.String{Value: lib.Pick(r, []string{"", "a", "ab", "xy", "97"})}
		case 4:
			return lib.Pick(r, sharedFns)
		case 5:
			return &tengo.CompiledFunction{NumLocals: r.Intn(3)}
		case 6:
			nm := lib.Pick(r, []string{"", "", "math", "text"})
			m := &tengo.ImmutableMap{Value: map[string]tengo.Object{"v": &tengo.Int{Value: int64(r.Intn(3))}}}
			if nm != "" || r.Bool() {
				m.Value["__module_name__"] = &tengo.String{Value: nm}
			}
			if r.Chance(1, 8) {
				m.Value["__module_name__"] = &tengo.Int{Value: 3} // not a string: no name
			}
			return m
		}
		return lib.Pick(r, []tengo.Object{&tengo.Array{}, &tengo.Map{Value: map[string]tengo.Object{}}, tengo.TrueValue, tengo.UndefinedValue, &tengo.Bytes{Value: []byte("a")}, &tengo.Error{Value: tengo.TrueValue}})
	}
	consts := make([]tengo.Object, n)
	for i := range consts {
		consts[i] = mkConst()
	}
	pickIdx := func() int {
		if bigN > 0 && r.Chance(2, 3) {
			c := lib.Pick(r, []int{n - 1, n - 2, n / 2, 254, 255, 256, 257, 258, 511, 512, 513, 767, 768, 4095, 4096, 65534, 65535})
			if c >= 0 && c < n {
				return c
			}
		}
		return r.Intn(n)
	}
	code := func() []byte {
		var b []byte
		k := r.Intn(8)
		if bigN > 0 {
			k = 4 + r.Intn(24)
		}
		for i := 0; i < k; i++ {
			switch r.Intn(6) {
			case 0, 1:
				b = append(b, tengo.MakeInstruction(parser.OpConstant, pickIdx())...)
			case 2:
				b = append(b, tengo.MakeInstruction(parser.OpClosure, pickIdx(), r.Intn(3))...)
			case 3:
				b = append(b, tengo.MakeInstruction(parser.OpSetGlobal, r.Intn(300))...)
			case 4:
				b = append(b, tengo.MakeInstruction(parser.OpJump, r.Intn(70000))...)
			default:
				op := lib.Pick(r, []parser.Opcode{parser.OpPop, parser.OpNull, parser.OpBinaryOp, parser.OpGetLocal, parser.OpCall})
				args := make([]int, len(parser.OpcodeOperands[op]))
				for j := range args {
					args[j] = r.Intn(4)
				}
				b = append(b, tengo.MakeInstruction(op, args...)...)
			}
		}
		return b
	}
	done := map[*tengo.CompiledFunction]bool{}
	for _, c := range consts {
		if f, ok := c.(*tengo.CompiledFunction); ok && !done[f] {
			done[f] = true
			f.Instructions = code()
		}
	}
	bc := &tengo.Bytecode{FileSet: parser.NewFileSet(), MainFunction: &tengo.CompiledFunction{Instructions: code()}, Constants: consts}
	resetAliases()
	ids := ptrIDs{}
	line := bcSexp(bc, ids)
	in := replayInput{Pool: clip(line, 6000)}
	before := snap(bc)
	g := lib.Guard(10e9, func() { bc.RemoveDuplicates() })
	if g.TimedOut {
		res.Skipped++
		return
	}
	if bigN > 0 {
		res.Dist("big-pool")
	}
	res.Count("pool", line, len(bc.Constants) < n)
	if g.Panicked {
		res.Violate(lib.Violation{Signature: "dedup-panics-on-wellformed-pool", Stream: "pool", Input: in, Observed: g.PanicVal,
			Expected: "no panic: every operand is a valid index", Oracle: "RemoveDuplicates"})
		return
	}
	aliasFns(before, bc)
	if n <= maxModelConsts {
		correspond(in, "pool", line, before.consts, bc, ids, "")
	} else {
		res.Dist("model-line-skipped-large-pool")
	}
	checkRefs(in, before, bc, false, "pool")
	checkNoDups(in, bc, ids, "pool")
}

// r0: 0 for the first repetition (exact sizes), a small random offset afterwards.
func r0(r *lib.RNG, rep int) int {
	if rep == 0 {
		return 0
	}
	return r.Intn(40)
}

func fatal(err error) {
	fmt.Fprintln(os.Stderr, "c12:", err)
	os.Exit(3)
}

// safeCall runs f and returns the recovered panic value ("" = none).
func safeCall(f func()) (pv string) {
	defer func() {
		if p := recover(); p != nil {
			pv = fmt.Sprint(p)
		}
	}()
	f()
	return ""
}

func main() {
	f := lib.ParseFlags()
	res = lib.NewResult("C12", f)
	thorough = f.Thorough()
	var err error
	drv, err = lib.StartDriver(f.Driver)
	if err != nil {
		fatal(err)
	}
	defer drv.Close()
	res.DriverUsed = drv != nil
	res.Rule = "programs from the type-directed generator (small literal pools: many repeated literals; nested functions, closures, recursion) " +
		"and module programs (source modules m1..m4 imported several times and from each other, builtin modules math/text/json/base64/hex/enum/fmt, " +
		"custom importables yielding other constant types) under six input assignments; hand-assembled pools with NaN, ±0, shared function pointers, " +
		"(un)named immutable maps. A case is non-trivial when RemoveDuplicates removed at least one constant; distinct by hash of the serialised input bytecode " +
		"(dedup, refs, dups, gob, pool) or of source+assignment (run3)"

	if f.Replay != "" {
		replay(f.Replay)
		res.Write(f.Out)
		return
	}
	lib.RunProbes(res, "C12", f.Known)
	ownProbes(f.Known)
	for _, in := range corpus() {
		checkProgram(in)
	}
	for _, in := range bigCorpus() {
		checkProgram(in)
	}
	// round 8: literal families (own PRNG stream: the programs of the older streams stay what they were per seed)
	litStream(lib.NewRNG(f.Seed^0x6c69746572616c73), f.Scale(100, 3000))
	rng := lib.NewRNG(f.Seed)
	n := f.Scale(1500, 15000)
	for i := 0; i < n; i++ {
		r := rng.Fork()
		g := lib.NewGen(r, genProfile(r))
		checkProgram(replayInput{Source: g.Program()})
		if i < 50 || i%50 == 0 {
			for k, v := range g.Feat {
				res.Distribution["feat:"+k] += v
			}
		}
	}
	n = f.Scale(1200, 8000)
	for i := 0; i < n; i++ {
		r := rng.Fork()
		checkProgram(modProgram(r, i%3 == 0))
	}
	n = f.Scale(6000, 60000)
	for i := 0; i < n; i++ {
		poolCase(rng.Fork(), 0)
	}
	// boundary pools: indexes around the byte boundaries of the two-byte operand
	for rep := 0; rep < f.Scale(3, 30); rep++ {
		for _, size := range []int{255, 256, 257, 258, 300, 513, 600, 770, 1030} {
			poolCase(rng.Fork(), size+r0(rng, rep))
		}
	}
	for _, size := range []int{4100, 65535, 65536} {
		poolCase(rng.Fork(), size)
	}
	res.Write(f.Out)
}

func replay(path string) {
	b, err := os.ReadFile(path)
	if err != nil {
		fatal(err)
	}
	var rp struct {
		Violations []struct {
			Input replayInput `json:"input"`
		} `json:"violations"`
		Obligations []struct {
			Detail string `json:"detail"`
		} `json:"theorem_or_stream"`
	}
	if err := json.Unmarshal(b, &rp); err != nil {
		fatal(err)
	}
	for _, v := range rp.Violations {
		if v.Input.Source != "" {
			checkProgram(v.Input)
		}
	}
	for _, o := range rp.Obligations {
		var d struct {
			Input replayInput `json:"input"`
		}
		if json.Unmarshal([]byte(o.Detail), &d) == nil && d.Input.Source != "" {
			checkProgram(d.Input)
		}
	}
}

// bigSource: n constant-bearing assignments (distinct ints and strings, every `dupEvery`-th a repeat of an earlier
// literal), then closures, so that the function constants CLOSURE names and the constants CONST names sit at
// indexes around and above 256 before and/or after de-duplication.
func bigSource(n, dupEvery int) string {
	var sb strings.Builder
	sb.WriteString("x := 0\ns := \"\"\n")
	for i := 0; i < n; i++ {
		v := i
		if dupEvery > 0 && i%dupEvery == dupEvery-1 {
			v = i / 2
		}
		if i%5 == 4 {
			fmt.Fprintf(&sb, "s = \"k%d\"\n", v)
		} else {
			fmt.Fprintf(&sb, "x = %d\n", 1000+v)
		}
	}
	sb.WriteString("mk := func(a) { return func(b) { return a + b + x + 1000 } }\nout := mk(5)(6)\n")
	sb.WriteString("mk2 := func(a) { return func(b) { return func(c) { return [a, b, c, s, \"k0\", 77001, 77002] } } }\nout2 := mk2(1)(2)(3)\n")
	sb.WriteString("out3 := [77001, 77003, mk(1)(1), mk2(7)(7)(7)]\n")
	return sb.String()
}

func bigCorpus() []replayInput {
	var out []replayInput
	for n := 244; n <= 262; n++ {
		out = append(out, replayInput{Source: bigSource(n, 0)}, replayInput{Source: bigSource(n+9, 30)})
	}
	for _, n := range []int{300, 505, 510, 515, 700, 1100} {
		out = append(out, replayInput{Source: bigSource(n, 0)}, replayInput{Source: bigSource(n, 7)})
	}
	// as many constants as the two-byte operand can name: adjust n so that the pool has exactly 65536 / 65535 entries
	for _, target := range []int{65536, 65535} {
		n := 65000
		if c, err := compile(replayInput{Source: bigSource(n, 0)}); err == nil {
			n += target - len(c.BC.Constants)
			out = append(out, replayInput{Source: bigSource(n, 0)})
		}
	}
	out = append(out, replayInput{Source: bigSource(65300, 9)})
	return out
}

// hand-written boundary programs; run first
func corpus() []replayInput {
	withMods := func(src string) replayInput {
		return replayInput{Source: src, Modules: srcModules, Builtins: builtinPool, Inputs: []string{"in1", "in2"}, Custom: true}
	}
	return []replayInput{
		{Source: "a := 1\nb := 1\nc := \"x\"\nd := \"x\"\ne := 'x'\nf := 'x'\ng := 1.0\nh := 1.0\n"},
		{Source: "a := [0, 0.0, \"\", '\\x00', 0, 0.0, \"\", '\\x00']\n"},
		{Source: "a := 97\nb := 'a'\nc := 97.0\nd := \"97\"\ne := [97, 'a', 97.0, \"97\"]\n"},
		{Source: "f := func(x) { return func(y) { return func(z) { return x + y + z + 1 + 1 } } }\na := f(1)(1)(1)\n"},
		{Source: "f := func() { return 5 }\ng := func() { return 5 }\na := f() + g() + 5\n"},
		{Source: "a := \"ab\"\nb := \"cd\"\nc := \"ab\"\nd := a + b + c + \"cd\"\n"},
		{Source: "f := func(n) { if n == 0 { return 0 }; return n + f(n - 1) }\na := f(10)\nb := 10\n"},
		{Source: "a := 5\nb := a / (a - 5)\n"},
		{Source: "f := func(a, ...b) { return [a, b, 1, 1] }\nx := f(1, 2, 3)\ny := f(1)\ng := func(...c) { return len(c) + 1 }\nz := g(1, 1, 1)\n"},
		{Source: "f := func(a) {\n  return a[0] + 1\n}\nx := f([1]) + 1\ny := f(1)\n"},
		withMods("a := import(\"m1\")\nb := import(\"m1\")\nc := import(\"m2\")\nr1 := a.f(in1)\nr2 := b.g(in1)(3)\nr3 := c.bad(in2)\nr4 := c.up(\"abc\")\n"),
		withMods("m := import(\"math\")\nn := import(\"math\")\nt := import(\"text\")\nr1 := m.abs(in1) + n.pi\nr2 := t.to_upper(\"abc\") + \"abc\"\n"),
		withMods("x := import(\"carr\")\ny := import(\"carr\")\nz := import(\"cimap\")\nw := import(\"cimap\")\nr1 := x[1] == true\nr2 := is_undefined(y[2])\nr3 := z.b == true && w.l[1] == false\nr4 := x[3].t == false\n"),
		withMods("e := import(\"enum\")\ne2 := import(\"enum\")\nr1 := e.all([1, 2, 3], func(k, v) { return v > 0 })\nr2 := e2.map([1, 2], func(k, v) { return v + in1 })\n"),
		withMods("f := func() { return import(\"m3\")(in1) + import(\"m3\")(in2) + import(\"m4\") }\nr := f()\n"),
		withMods("d := import(\"m2\").deep(1)(in1)(10)\nq := import(\"m1\").div(in1, in2)\n"),
	}
}

package main

// Stream `runabort`: the abortable whole-VM loop of the Lean model (Tengo.Model.VMAbort.runAbort, driver line
// `runabort`) against the REAL VM, on the bytecode the real compiler emits.
//
// One case = (program, allocation budget, k). The real VM is run with tengo.VerifProbe installed; when the probe
// has seen k dispatches it calls v.Abort() (k = 0: Abort() before Run()). vm.go's loop is
//
//	for atomic.LoadInt64(&v.aborting) == 0 { verifProbe(v); v.ip++; switch … }
//
// so the instruction whose probe call requested the abort is already past the guard and is dispatched (that is the
// ONE further dispatch the loop condition allows: it is dispatch k-1, the k-th), and the next guard must stop the
// loop: no probe call may follow the request.
//
// SEARCHER (Violate, independent of the Lean model): a probe call after the abort was requested = the real VM
// dispatched more than one instruction after Abort ("abort not honoured at the next instruction boundary"); the run
// is then stopped by a panic from the probe so that a VM that ignores the flag cannot hang the harness.
// CORRESPONDENCE (Disagree): the model's answer for `runAbort (some k)` differs from the real VM in the outcome
// class (aborted / halted / run-time error / Go panic), the number of dispatches, the number of counted allocations,
// the checksum over every dispatch (function, ip, sp, frame index, allocation counter), the first dispatches listed,
// sp / frame index / allocation counter of the configuration left behind, or any global slot.

import (
	"encoding/json"
	"fmt"
	"os"
	"strings"
	"time"

	"github.com/d5/tengo/v2"
	"github.com/d5/tengo/v2/parser"
	"verifharness/lib"
)

const raStream = "runabort"

type raInput struct {
	Program   string `json:"program"`
	Source    string `json:"source"`
	MaxAllocs int64  `json:"max_allocs"`
	K         int    `json:"k"`
}

type raSentinel struct{}

type raReal struct {
	text     string // rendered like the model's answer
	steps    int    // probe calls = dispatches
	extra    int    // probe calls after the abort was requested
	hung     bool
	aborted  bool
	goPanic  bool
	stoppedK bool // the sentinel stopped a VM that ignored the flag
}

// mirrors Tengo.Model.VM.mix (lib.vmMix is not exported)
func raMix(h uint64, fn, ip, sp, depth int, allocs int64) uint64 {
	a := allocs % 1000000007
	if a < 0 {
		a += 1000000007
	}
	return (h*1000003 + uint64(fn)*7919 + uint64(ip)*104729 + uint64(sp)*31 + uint64(depth)*131 + uint64(a)) % 2147483647
}

// raRunReal runs compiled code on a fresh real VM and requests the abort when the probe has seen k dispatches.
func raRunReal(c *lib.Compiled, maxAllocs int64, nglobals, keep, k int) raReal {
	fnIdx := map[*byte]int{}
	if len(c.BC.MainFunction.Instructions) > 0 {
		fnIdx[&c.BC.MainFunction.Instructions[0]] = 0
	}
	for i, kk := range c.BC.Constants {
		if f, isFn := kk.(*tengo.CompiledFunction); isFn && len(f.Instructions) > 0 {
			if _, dup := fnIdx[&f.Instructions[0]]; !dup {
				fnIdx[&f.Instructions[0]] = i + 1
			}
		}
	}
	globals := make([]tengo.Object, tengo.GlobalsSize)
	vm := tengo.NewVM(c.BC, globals, maxAllocs)
	var r raReal
	var first []string
	var sum uint64
	counted := 0
	var lastAllocs int64
	lastOp := -1
	requested := false
	if k == 0 {
		requested = true
		vm.Abort()
	}
	tengo.VerifProbe = func(v *tengo.VM, fn *tengo.CompiledFunction, ip, sp, bp, fi int, allocs int64) {
		if v != vm {
			return
		}
		if requested {
			r.extra++
			if r.extra > 2 {
				panic(raSentinel{})
			}
		}
		idx := -1
		if len(fn.Instructions) > 0 {
			if i, ok := fnIdx[&fn.Instructions[0]]; ok {
				idx = i
			}
		}
		if r.steps > 0 && allocs != lastAllocs {
			counted++
		}
		lastAllocs = allocs
		if r.steps < keep {
			first = append(first, fmt.Sprintf("%d:%d:%d:%d:%d:%d", idx, ip, sp, bp, fi, allocs))
		}
		sum = raMix(sum, idx, ip, sp, fi, allocs)
		lastOp = -1
		if ip >= 0 && ip < len(fn.Instructions) {
			lastOp = int(fn.Instructions[ip])
		}
		r.steps++
		if !requested && r.steps == k {
			requested = true
			v.Abort()
		}
	}
	defer func() { tengo.VerifProbe = nil }()
	var runErr error
	var panicked interface{}
	done := make(chan struct{})
	go func() {
		defer close(done)
		defer func() {
			if p := recover(); p != nil {
				panicked = p
			}
		}()
		runErr = vm.Run()
	}()
	select {
	case <-done:
	case <-time.After(hardWatchdog):
		// a single native call that does not come back; the flag is set for whenever it does
		vm.Abort()
		r.hung = true
		return r
	}
	if _, isSentinel := panicked.(raSentinel); isSentinel {
		r.stoppedK = true
		return r
	}
	sp, depth, allocs := vm.VerifState()
	trace := "(" + strings.Join(first, " ") + ")"
	switch {
	case panicked != nil:
		r.goPanic = true
		r.text = "panic " + lib.HexS(fmt.Sprint(panicked)) + " " + fmt.Sprintf("%d %d %d", r.steps, counted, sum) + " " + trace
		return r
	case runErr != nil:
		msg := strings.TrimPrefix(runErr.Error(), "Runtime Error: ")
		if i := strings.Index(msg, "\n"); i >= 0 {
			msg = msg[:i]
		}
		r.text = "rerr " + lib.HexS(msg) + " " + fmt.Sprintf("%d %d %d", r.steps, counted, sum) + " " + trace
		return r
	}
	// values too large to render: not an outcome to compare
	slots := make([]string, nglobals)
	for i := range slots {
		slots[i] = "u"
		if i < len(globals) && globals[i] != nil {
			slots[i] = lib.Canon(globals[i])
		}
	}
	gs := "(" + strings.Join(slots, " ") + ")"
	if r.steps > 0 && lastOp == int(parser.OpSuspend) {
		// the run ended by itself at SUSPEND (which allocates nothing: the last delta is not visible to the probe)
		r.text = "ok " + fmt.Sprintf("%d %d %d", r.steps, counted, sum) + " " + lib.N(sp) + " " + trace + " " + gs
		return r
	}
	// the loop guard ended the run: the allocation of the last dispatch is visible in the registers left behind
	r.aborted = true
	if r.steps > 0 && allocs != lastAllocs {
		counted++
	}
	r.text = "aborted " + fmt.Sprintf("%d %d %d", r.steps, counted, sum) + " " + lib.N(sp) + " " + lib.N(depth) + " " + lib.I(allocs) + " " + trace + " " + gs
	return r
}

// raCheck runs one (program, budget, k) case. Returns false when the program is outside the model (stop asking).
func raCheck(p program, c *lib.Compiled, vmLine string, ng int, maxAllocs int64, k int) bool {
	const keep = 48
	in := raInput{Program: p.Name, Source: p.Src, MaxAllocs: maxAllocs, K: k}
	real := raRunReal(c, maxAllocs, ng, keep, k)
	if real.hung {
		res.Skipped++
		res.Dist("runabort:real-hung-in-native-call")
		return false
	}
	// --- searcher: nothing is dispatched after the instruction that was in flight when Abort was called
	if real.extra > 0 {
		what := fmt.Sprintf("%d further probe call(s) after v.Abort() was called from the probe of dispatch %d", real.extra, k)
		if real.stoppedK {
			what = fmt.Sprintf("the VM went on dispatching after v.Abort() was called from the probe of dispatch %d (stopped by the harness after 3 further dispatches)", k)
		}
		exp := "the instruction in flight completes, then the loop guard ends the run: no further dispatch"
		if k == 0 {
			exp = "Abort() before Run(): the loop guard ends the run before the first dispatch"
		}
		res.Violate(lib.Violation{Signature: "abort-not-honoured-at-next-instruction-boundary", Stream: raStream, Input: in,
			Observed: what, Expected: exp, Oracle: "tengo.VerifProbe call count after the Abort() request"})
		return false
	}
	if k > 0 && real.aborted && real.steps != k {
		// aborted without a request cannot happen (nobody else sets the flag); kept as a correspondence failure
		res.Disagree(lib.Disagreement{Stream: raStream, Input: in, Model: fmt.Sprintf("abort requested after %d dispatches", k),
			Impl: fmt.Sprintf("run ended without SUSPEND or error after %d dispatches", real.steps)})
		return false
	}
	line := "(runabort " + lib.N(k) + " " + lib.N(k+8) + " " + lib.N(keep) + " " + vmLine
	model, err := drv.Ask(line)
	if err != nil {
		fatal(err)
	}
	res.ModelLines++
	if os.Getenv("C07_DEBUG") == "runabort" {
		fmt.Fprintf(os.Stderr, "LINE  %s\nMODEL %s\nREAL  %s\n", line, model, real.text)
	}
	mf := strings.Fields(model)
	if len(mf) == 0 {
		fatal(fmt.Errorf("runabort: empty model answer"))
	}
	switch mf[0] {
	case "unsupported", "excluded", "model-timeout":
		why := mf[0]
		if len(mf) > 1 {
			w := mf[1]
			if len(w) > 40 {
				w = w[:40]
			}
			why += ":" + w
		}
		res.Dist("runabort:skip:" + why)
		return false
	case "bad-op":
		fatal(fmt.Errorf("runabort: model answered %q", model))
	}
	agree := model == real.text
	if !agree && mf[0] == "panic" && real.goPanic {
		// the text of a Go run-time panic is not modelled; everything after it is compared
		rf := strings.Fields(real.text)
		agree = len(mf) > 2 && len(rf) > 2 && strings.Join(mf[2:], " ") == strings.Join(rf[2:], " ")
	}
	cls := strings.Fields(real.text + " -")[0]
	res.Dist("runabort:real:" + cls)
	if !agree {
		res.Dist("runabort:differ")
		res.Disagree(lib.Disagreement{Stream: raStream, Input: in, Model: lib.VMDiff(model, real.text), Impl: lib.VMDiff(real.text, model)})
		return true
	}
	res.Count(raStream, fmt.Sprintf("%s|%d|%d", p.Src, maxAllocs, k), cls == "aborted")
	return true
}

// raProgram: every k for runs up to the exhaustive bound, k = 0..48 and sampled k for longer / never-ending runs.
func raProgram(p program, rng *lib.RNG, budgets []int64, maxEx, maxK, samples int) {
	if drv == nil || tainted {
		return
	}
	c, err := lib.CompileSource([]byte(p.Src), lib.CompileOpts{})
	if err != nil || c.BC == nil {
		res.Dist("runabort:compile-error")
		return
	}
	for _, b := range budgets {
		vmLine, ng, ok := lib.VMModelLine(c, nil, b, 0, 0)
		if !ok {
			res.Dist("runabort:skip:constant-outside-model")
			return
		}
		// "(vm <fuel> <keep> <rest…>": keep the rest
		rest := strings.SplitN(vmLine, " ", 4)
		if len(rest) != 4 {
			fatal(fmt.Errorf("runabort: unexpected vm line"))
		}
		tail := rest[3]
		// how long is the run (up to maxK)?
		probe := raRunReal(c, b, ng, 0, maxK)
		if probe.hung {
			res.Skipped++
			return
		}
		n := probe.steps
		var ks []int
		if n <= maxEx {
			for k := 0; k <= n+1; k++ {
				ks = append(ks, k)
			}
			res.Dist("runabort:programs-exhaustive-k")
		} else {
			seen := map[int]bool{}
			add := func(k int) {
				if k >= 0 && k <= n+1 && !seen[k] {
					seen[k] = true
					ks = append(ks, k)
				}
			}
			for k := 0; k <= 48; k++ {
				add(k)
			}
			for _, k := range []int{n - 2, n - 1, n, n + 1} {
				add(k)
			}
			for i := 0; i < samples; i++ {
				if rng.Intn(2) == 0 {
					add(rng.Intn(400))
				} else {
					add(rng.Intn(n + 1))
				}
			}
			res.Dist("runabort:programs-sampled-k")
		}
		if probe.aborted {
			res.Dist("runabort:programs-still-running-at-max-k")
		}
		for _, k := range ks {
			if !raCheck(p, c, tail, ng, b, k) {
				break
			}
		}
	}
}

// ---- generated never-ending and long-running shapes ----

func raGenerated(rng *lib.RNG, i int) program {
	c1, c2, c3 := 1+rng.Intn(9), 2+rng.Intn(30), 1+rng.Intn(5)
	arr := []string{"[1, 2, 3]", "[\"a\", 2.5, 'c', true]", "[[1], [2, 3]]", "\"héllo\"", "bytes(\"xyz\")", "{k: 7}", "[]", "immutable([4, 5])"}[rng.Intn(8)]
	var name, src string
	switch rng.Intn(12) {
	case 0:
		name = "gen-loop-counter"
		src = fmt.Sprintf("s := 0\nn := 0\nfor { s += %d; if s > %d { s = 0; n++ } }\n", c1, c2)
	case 1:
		name = "gen-loop-nested"
		src = fmt.Sprintf("t := 0\nfor { for i := 0; i < %d; i++ { if i %% 2 == 0 { continue }; t += i }; if t > %d { t = 0 } }\n", c3+1, c2*10)
	case 2:
		name = "gen-loop-alloc"
		src = fmt.Sprintf("a := []\nm := {}\nfor true { a = append(a, len(a)); if len(a) > %d { a = [] }; m = {n: a, s: string(len(a))} }\n", c2)
	case 3:
		name = "gen-self-tail"
		src = fmt.Sprintf("acc := 0\nf := func(n, x) { acc = x %% %d; if n < 0 { return n }; return f(n + %d, x + n) }\nr := f(0, 1)\n", c2+1, c1)
	case 4:
		name = "gen-self-tail-stmt"
		src = fmt.Sprintf("g := 0\nf := func(n) { g = n * %d; f(n + 1) }\nf(%d)\n", c1, c3)
	case 5:
		name = "gen-self-tail-closure"
		src = fmt.Sprintf("out := 0\nmk := func(step) { h := func(n) { out = n; return h(n + step) }; return h }\nk := mk(%d)\nk(%d)\n", c1, c3)
	case 6:
		name = "gen-self-tail-varargs"
		src = fmt.Sprintf("last := undefined\nf := func(a, ...rest) { last = rest; return f(a + 1, a, %d) }\nf(0)\n", c1)
	case 7:
		name = "gen-mutual-recursion"
		src = fmt.Sprintf("depth := 0\nb := undefined\na := func(n) { depth = n; return b(n + %d) }\nb = func(n) { return a(n + 1) }\nx := a(0)\n", c1)
	case 8:
		name = "gen-mutual-recursion-loop"
		src = fmt.Sprintf("odd := undefined\neven := func(n) { if n == 0 { return true }; return odd(n - 1) }\nodd = func(n) { if n == 0 { return false }; return even(n - 1) }\nc := 0\nfor { c += even(%d) ? 1 : 2 }\n", c2)
	case 9:
		name = "gen-for-in"
		src = fmt.Sprintf("a := %s\nn := 0\nlast := undefined\nfor { for i, v in a { n += 1; last = [i, v] } }\n", arr)
	case 10:
		name = "gen-for-in-func"
		src = fmt.Sprintf("a := %s\nseen := 0\nwalk := func(xs) { for v in xs { seen++ }; return walk(xs) }\nwalk(a)\n", arr)
	default:
		name = "gen-loop-error"
		src = fmt.Sprintf("i := 0\nd := %d\nfor { i++; if i > %d { d = d / (i - i) } }\n", c1, c2)
	}
	return program{Name: fmt.Sprintf("%s-%d", name, i), Src: src, Infinite: true}
}

func raBudgets(rng *lib.RNG, i int) []int64 {
	if i%3 == 0 {
		return []int64{-1, int64(1 + rng.Intn(60))}
	}
	return []int64{-1}
}

// runAbortStream is called from main.
func runAbortStream(f *lib.Flags, rng *lib.RNG) {
	if drv == nil {
		return
	}
	maxEx := f.Scale(160, 600)
	maxK := f.Scale(4000, 12000)
	samples := f.Scale(8, 24)
	i := 0
	for _, p := range smallPrograms {
		r := rng.Fork()
		raProgram(p, r, raBudgets(r, i), maxEx, maxK, samples)
		i++
	}
	for _, p := range largePrograms {
		r := rng.Fork()
		raProgram(p, r, raBudgets(r, i), maxEx, maxK, samples)
		i++
	}
	n := f.Scale(30, 160)
	for j := 0; j < n && !tainted; j++ {
		r := rng.Fork()
		raProgram(raGenerated(r, j), r, raBudgets(r, j), maxEx, maxK, samples)
	}
	n = f.Scale(16, 120)
	for j := 0; j < n && !tainted; j++ {
		r := rng.Fork()
		g := lib.NewGen(r, genProfile(r))
		src := g.Program()
		p := program{Name: fmt.Sprintf("ra-gen-%d", j), Src: src}
		if j%4 == 3 {
			p = program{Name: fmt.Sprintf("ra-gen-forever-%d", j), Src: "for {\n" + src + "\n}\n", Infinite: true}
		}
		raProgram(p, r, raBudgets(r, j), maxEx, maxK, samples)
	}
}

// raReplayBudgets: the allocation budgets a replay file names for this source (runabort entries), plus unlimited.
func raReplayBudgets(b []byte, src string) []int64 {
	var rp struct {
		Violations []struct {
			Input raInput `json:"input"`
		} `json:"violations"`
		Disagreements []struct {
			Input raInput `json:"input"`
		} `json:"disagreements"`
		Obligations []struct {
			Detail string `json:"detail"`
		} `json:"theorem_or_stream"`
	}
	out := []int64{-1}
	seen := map[int64]bool{-1: true}
	add := func(in raInput) {
		if in.Source == src && in.MaxAllocs != 0 && !seen[in.MaxAllocs] {
			seen[in.MaxAllocs] = true
			out = append(out, in.MaxAllocs)
		}
	}
	if json.Unmarshal(b, &rp) != nil {
		return out
	}
	for _, v := range rp.Violations {
		add(v.Input)
	}
	for _, v := range rp.Disagreements {
		add(v.Input)
	}
	for _, o := range rp.Obligations {
		var d struct {
			Input raInput `json:"input"`
		}
		if json.Unmarshal([]byte(o.Detail), &d) == nil {
			add(d.Input)
		}
	}
	return out
}

// Stream `ctx-observation` (ctxobs.go): cancellation instants that are NOT aligned to a dispatched
// instruction.
//
// The cancel-at-k stream cancels from tengo.VerifProbe, i.e. only while the dispatch loop is already
// running. Everything RunContext does around the loop — take the lock, build the VM, start the goroutine,
// look at the context, enter VM.Run, hand the result back — is reached by that stream only through "already
// cancelled before the call" and "a 3 ms timer". This stream makes the cancellation instant a function of what
// the LIBRARY does with its context: the context handed to RunContext is an own implementation of
// context.Context (own Done/Err/Deadline/Value) that becomes done at the n-th observation the library makes of
// it — the n-th call of Done(), of Err(), of Deadline(), of Value(), or of any of them — in one of three ways:
//
//	before : the context is cancelled, then the answer is computed (the observer sees the new state)
//	after  : the answer is computed, then the context is cancelled (the observer carries a stale answer:
//	         "it looked, and the cancellation arrived right behind its back")
//	async  : the observation wakes another goroutine which cancels (a real race with the observer)
//
// each optionally followed by a stall of the observing goroutine (0 / 2 ms / 15 ms: "it was descheduled right
// there"). The sweep is driven by a profile of the tree under test: a few runs with a recording-only context
// tell how many observations of each kind the library makes before the context ends; every one of them (and
// one beyond) becomes a cancellation instant. Further instants that need no wall clock: cancel from the probe
// hook at the first dispatched instructions (synchronously, and through the waiting goroutine), a context that
// is already done, and repeated `async` races without stall. A context with a deadline ends by itself 5 ms
// after its creation (DeadlineExceeded); one without is cancelled by a backstop timer (Canceled) when the
// program cannot end by itself, so every case has a done context and a definite expected error.
//
// Programs: non-terminating (for {}, self tail recursion as expression and as statement, a loop through a
// function, loops governed by a host variable `limit` = 0), terminating (straight line, long loop, long tail
// recursion, `limit` > 0, run-time error, generated programs).
//
// ORACLE (the property, nothing of the implementation): RunContext returns; within the bound after the context
// became done (stalls of the calling goroutine excepted); with exactly the context's own error when the program
// cannot end by itself; otherwise with that error or with the result of the FINISHED run (dispatch count and
// error text of an uncancelled reference run); never a context error while the context is not done; goroutines
// back to baseline; the lock free; and the same Compiled runs again: a cancelled re-run of a non-terminating
// program returns the context's error, a `limit` program re-run with limit = L under context.Background()
// ends with n == L, a terminating program re-run uncancelled equals the reference (error, globals, steps).
//
// A call that does not return is not waited for 20 s: 4 s after the context became done, with the VM still
// dispatching (>= 100000 instructions after the instant), the case is repeated on a fresh Compiled; both
// attempts hanging is the violation. The stuck VM (its address is known from the probe) is then aborted by
// the harness itself, so the rest of the run is not disturbed; only if that fails the run is `tainted`.
package main

import (
	"context"
	"encoding/json"
	"fmt"
	"os"
	"runtime"
	"strings"
	"sync"
	"sync/atomic"
	"time"

	"github.com/d5/tengo/v2"
	"verifharness/lib"
)

const obsStream = "ctx-observation"

const (
	mDone = iota
	mErr
	mDeadline
	mValue
	mAny
	nObsMethods
)

var obsMethodNames = [...]string{"Done", "Err", "Deadline", "Value", "any"}

var (
	obsHangAfter    = 4 * time.Second // after the context became done
	obsHangs        int               // confirmed hangs so far (the stream stops after 2)
	obsRescueFailed bool
)

// obsTrigger says when and how the context becomes done.
type obsTrigger struct {
	At         string `json:"becomes_done_at"` // Done | Err | Deadline | Value | any | probe | pre | none
	N          int    `json:"n"`               // n-th call (1-based); probe: dispatch index (0-based)
	Mode       string `json:"mode"`            // before | after | async
	StallUS    int64  `json:"observer_stall_us"`
	Deadline   bool   `json:"has_deadline"`
	BackstopMS int64  `json:"ends_by_itself_after_ms"` // 0: never
}

func (t obsTrigger) key() string {
	return fmt.Sprintf("%s#%d/%s/stall=%dus/deadline=%v/backstop=%dms", t.At, t.N, t.Mode, t.StallUS, t.Deadline, t.BackstopMS)
}

func (t obsTrigger) describe() string {
	var sb strings.Builder
	sb.WriteString("own context.Context implementation; ")
	switch t.At {
	case "none":
		sb.WriteString("never cancelled by an observation")
	case "pre":
		sb.WriteString("already done (Canceled) when RunContext is called")
	case "runstart":
		sb.WriteString("cancelled (Canceled) from the hook at the start of VM.Run, on the VM goroutine, before the dispatch loop begins")
		if t.Mode == "async" {
			sb.WriteString(", by another goroutine woken from the hook")
		}
	case "probe":
		fmt.Fprintf(&sb, "cancelled (Canceled) from the probe hook when instruction %d is about to be dispatched", t.N)
		if t.Mode == "async" {
			sb.WriteString(", by another goroutine woken from the hook")
		}
	default:
		what := t.At + "()"
		if t.At == "any" {
			what = "any of Done/Err/Deadline/Value"
		}
		switch t.Mode {
		case "before":
			fmt.Fprintf(&sb, "call number %d of %s cancels the context (Canceled) and then computes its answer", t.N, what)
		case "after":
			fmt.Fprintf(&sb, "call number %d of %s computes its answer, then the context is cancelled (Canceled) before the caller of the method gets that answer", t.N, what)
		default:
			fmt.Fprintf(&sb, "call number %d of %s wakes another goroutine which cancels the context (Canceled)", t.N, what)
		}
	}
	if t.StallUS > 0 {
		fmt.Fprintf(&sb, "; the observing goroutine is then held for %d us", t.StallUS)
	}
	if t.Deadline {
		fmt.Fprintf(&sb, "; Deadline() = creation + %d ms, at which the context ends with DeadlineExceeded if it is not done yet", t.BackstopMS)
	} else if t.BackstopMS > 0 {
		fmt.Fprintf(&sb, "; no deadline; cancelled (Canceled) by a timer %d ms after creation if it is not done yet", t.BackstopMS)
	}
	return sb.String()
}

type obsProgram struct {
	Name     string           `json:"program"`
	Src      string           `json:"script"`
	Vars     map[string]int64 `json:"host_variables,omitempty"`
	Infinite bool             `json:"non_terminating,omitempty"`
	// re-run with results: Set(RerunVar, RerunVal), run under context.Background(), expect RerunOut == RerunVal
	RerunVar string `json:"-"`
	RerunVal int64  `json:"-"`
	RerunOut string `json:"-"`
}

type obsInput struct {
	obsProgram
	Context string     `json:"context"`
	Trigger obsTrigger `json:"trigger"`
}

// ---- the context ----

type obsCtx struct {
	trig     obsTrigger
	mu       sync.Mutex
	done     chan struct{}
	err      error
	fired    bool
	counts   [nObsMethods]int // all observations
	atDone   [nObsMethods]int // observations made before the context became done
	log      []string
	callerG  int64
	deadline time.Time
	doneAt   atomic.Int64
	stallNS  atomic.Int64 // stalls served to the goroutine that called RunContext
	dispNow  *atomic.Int64
	dispDone atomic.Int64
	wake     chan struct{}
	quit     chan struct{}
	helper   sync.WaitGroup
	timer    *time.Timer
}

// obsNow: monotonic nanoseconds (never 0) since the process started.
var obsEpoch = time.Now()

func obsNow() int64 { return int64(time.Since(obsEpoch)) + 1 }

func goid() int64 {
	var buf [64]byte
	n := runtime.Stack(buf[:], false)
	var id int64
	for _, ch := range buf[len("goroutine "):n] {
		if ch < '0' || ch > '9' {
			break
		}
		id = id*10 + int64(ch-'0')
	}
	return id
}

func newObsCtx(t obsTrigger, disp *atomic.Int64) *obsCtx {
	c := &obsCtx{trig: t, done: make(chan struct{}), dispNow: disp, wake: make(chan struct{}, 1), quit: make(chan struct{})}
	if t.At == "pre" {
		c.finish(context.Canceled)
	}
	if t.Mode == "async" {
		c.helper.Add(1)
		go func() {
			defer c.helper.Done()
			select {
			case <-c.wake:
				c.finish(context.Canceled)
			case <-c.quit:
			}
		}()
	}
	if t.BackstopMS > 0 {
		d := time.Duration(t.BackstopMS) * time.Millisecond
		e := context.Canceled
		if t.Deadline {
			c.deadline = time.Now().Add(d)
			e = context.DeadlineExceeded
		}
		c.timer = time.AfterFunc(d, func() { c.finish(e) })
	}
	return c
}

// release ends the helper goroutine and the timer (after the call under test has returned or was given up).
func (c *obsCtx) release() {
	if c.timer != nil {
		c.timer.Stop()
	}
	close(c.quit)
	c.helper.Wait()
}

func (c *obsCtx) finish(e error) {
	c.mu.Lock()
	if c.err == nil {
		c.err = e
		c.atDone = c.counts
		c.dispDone.Store(c.dispNow.Load())
		c.doneAt.Store(obsNow())
		close(c.done)
	}
	c.mu.Unlock()
}

func (c *obsCtx) curErr() error {
	c.mu.Lock()
	defer c.mu.Unlock()
	return c.err
}

// observe counts one call of method m and says whether it is the triggering one.
func (c *obsCtx) observe(m int) (hit bool, caller bool) {
	g := goid()
	c.mu.Lock()
	defer c.mu.Unlock()
	c.counts[m]++
	c.counts[mAny]++
	caller = g == c.callerG
	if len(c.log) < 10 {
		who := "other goroutine"
		if caller {
			who = "calling goroutine"
		}
		state := "not done"
		if c.err != nil {
			state = "done"
		}
		c.log = append(c.log, fmt.Sprintf("%s#%d (%s, %s)", obsMethodNames[m], c.counts[m], who, state))
	}
	if c.fired {
		return false, caller
	}
	t := c.trig
	if (t.At == obsMethodNames[m] && c.counts[m] == t.N) || (t.At == "any" && c.counts[mAny] == t.N) {
		c.fired = true
		return true, caller
	}
	return false, caller
}

func (c *obsCtx) stall(caller bool) {
	if c.trig.StallUS <= 0 {
		return
	}
	d := time.Duration(c.trig.StallUS) * time.Microsecond
	t0 := time.Now()
	time.Sleep(d)
	if caller {
		c.stallNS.Add(int64(time.Since(t0)))
	}
}

// react performs the trigger around the computation of a method's answer.
func obsReact[T any](c *obsCtx, m int, answer func() T) T {
	hit, caller := c.observe(m)
	if !hit {
		return answer()
	}
	switch c.trig.Mode {
	case "before":
		c.finish(context.Canceled)
		c.stall(caller)
		return answer()
	case "after":
		a := answer()
		c.finish(context.Canceled)
		c.stall(caller)
		return a
	default: // async
		a := answer()
		select {
		case c.wake <- struct{}{}:
		default:
		}
		c.stall(caller)
		return a
	}
}

func (c *obsCtx) Done() <-chan struct{} {
	return obsReact(c, mDone, func() <-chan struct{} { return c.done })
}

func (c *obsCtx) Err() error { return obsReact(c, mErr, c.curErr) }

type obsDeadline struct {
	t  time.Time
	ok bool
}

func (c *obsCtx) Deadline() (time.Time, bool) {
	d := obsReact(c, mDeadline, func() obsDeadline { return obsDeadline{c.deadline, !c.deadline.IsZero()} })
	return d.t, d.ok
}

func (c *obsCtx) Value(key interface{}) interface{} {
	return obsReact(c, mValue, func() interface{} { return nil })
}

// ---- one run ----

type obsRun struct {
	returned   bool
	err        error
	ctxErr     error // the context's error when the call returned (nil: not done)
	doneBefore bool  // the context was done when the call returned
	fired      bool
	latency    time.Duration // done -> return, stalls of the calling goroutine subtracted
	dispatched int64
	dispDone   int64 // dispatched when the context became done
	atDone     [nObsMethods]int
	log        string
	hang       bool
	hangDisp   int64 // instructions dispatched between the context's end and the moment the harness gave up
	leaked     int
	lockStuck  bool
	globals    map[string]string
}

func obsCompile(p obsProgram) (*tengo.Compiled, error) {
	s := tengo.NewScript([]byte(p.Src))
	for k, v := range p.Vars {
		if err := s.Add(k, v); err != nil {
			return nil, err
		}
	}
	return s.Compile()
}

func obsRunOnce(c *tengo.Compiled, t obsTrigger) obsRun {
	var o obsRun
	runtime.Gosched()
	baseline := runtime.NumGoroutine()
	var dispatched atomic.Int64
	ctx := newObsCtx(t, &dispatched)
	var vm atomic.Pointer[tengo.VM]
	probeFired := false
	tengo.VerifProbe = func(v *tengo.VM, fn *tengo.CompiledFunction, ip, sp, bp, fi int, allocs int64) {
		n := dispatched.Add(1) - 1
		if n == 0 {
			vm.Store(v)
		}
		if t.At == "probe" && !probeFired && n == int64(t.N) {
			probeFired = true
			if t.Mode == "async" {
				select {
				case ctx.wake <- struct{}{}:
				default:
				}
			} else {
				ctx.finish(context.Canceled)
			}
			ctx.stall(false)
		}
	}
	runStartFired := false
	tengo.VerifRunStart = func(v *tengo.VM) {
		vm.Store(v)
		if t.At == "runstart" && !runStartFired {
			runStartFired = true
			if t.Mode == "async" {
				select {
				case ctx.wake <- struct{}{}:
				default:
				}
			} else {
				ctx.finish(context.Canceled)
			}
			ctx.stall(false)
		}
	}
	defer func() { tengo.VerifRunStart = nil }()
	done := make(chan error, 1)
	var retAt atomic.Int64
	started := time.Now()
	go func() {
		ctx.mu.Lock()
		ctx.callerG = goid()
		ctx.mu.Unlock()
		err := c.RunContext(ctx)
		retAt.Store(obsNow())
		done <- err
	}()
	tick := time.NewTicker(20 * time.Millisecond)
	defer tick.Stop()
wait:
	for {
		select {
		case o.err = <-done:
			o.returned = true
			break wait
		case <-tick.C:
			if da := ctx.doneAt.Load(); da != 0 && time.Duration(obsNow()-da) > obsHangAfter+time.Duration(ctx.stallNS.Load()) {
				o.hang = true
				break wait
			}
			if time.Since(started) > hardWatchdog {
				o.hang = true
				break wait
			}
		}
	}
	o.dispatched = dispatched.Load()
	o.dispDone = ctx.dispDone.Load()
	if o.hang {
		o.hangDisp = o.dispatched - o.dispDone
		ctx.mu.Lock()
		o.log = strings.Join(ctx.log, ", ")
		o.fired = ctx.fired
		o.ctxErr = ctx.err
		ctx.mu.Unlock()
		// give the process back: abort the stuck VM ourselves
		rescued := false
		ctx.finish(context.Canceled)
		if v := vm.Load(); v != nil {
			v.Abort()
			select {
			case <-done:
				rescued = true
			case <-time.After(5 * time.Second):
			}
		}
		ctx.release()
		if !rescued {
			tainted = true
			obsRescueFailed = true
		} else {
			tengo.VerifProbe = nil
		}
		return o
	}
	tengo.VerifProbe = nil
	ctx.release()
	ctx.mu.Lock()
	o.ctxErr = ctx.err
	o.fired = ctx.fired
	o.atDone = ctx.atDone
	if ctx.err == nil {
		o.atDone = ctx.counts
	}
	o.log = strings.Join(ctx.log, ", ")
	ctx.mu.Unlock()
	if da := ctx.doneAt.Load(); da != 0 && da <= retAt.Load() {
		o.doneBefore = true
		if d := retAt.Load() - da - ctx.stallNS.Load(); d > 0 {
			o.latency = time.Duration(d)
		}
	} else {
		o.ctxErr = nil
	}
	// goroutines back to baseline
	wait := 50 * time.Microsecond
	deadline := time.Now().Add(2 * time.Second)
	for spin := 0; ; spin++ {
		n := runtime.NumGoroutine()
		if n <= baseline {
			break
		}
		if spin < 50 {
			runtime.Gosched()
			continue
		}
		if time.Now().After(deadline) {
			o.leaked = n - baseline
			break
		}
		time.Sleep(wait)
		if wait < 20*time.Millisecond {
			wait *= 2
		}
	}
	gch := make(chan map[string]string, 1)
	go func() { gch <- snapshot(c) }()
	select {
	case o.globals = <-gch:
	case <-time.After(hardWatchdog):
		tainted = true
		o.lockStuck = true
	}
	return o
}

// ---- one case ----

func obsViolate(sig string, in obsInput, observed, expected, oracle string) {
	res.Violate(lib.Violation{Signature: sig, Stream: obsStream, Input: in, Observed: observed, Expected: expected, Oracle: oracle})
}

func errString(e error) string {
	if e == nil {
		return "nil"
	}
	return e.Error()
}

// obsCase runs one (program, trigger) case on a fresh Compiled. It returns the run (for the profile).
func obsCase(p obsProgram, ref *reference, t obsTrigger) (o obsRun) {
	if tainted {
		return
	}
	c, err := obsCompile(p)
	if err != nil {
		res.Dist("ctxobs:compile-error")
		return
	}
	in := obsInput{obsProgram: p, Context: t.describe(), Trigger: t}
	o = obsRunOnce(c, t)
	res.Count(obsStream, p.Name+"|"+t.key(), o.doneBefore || o.hang)
	res.Dist("ctxobs:at:" + t.At + "/" + t.Mode)
	if o.fired {
		res.Dist("ctxobs:trigger-fired")
	}
	if o.hang {
		// confirm on a fresh Compiled before calling it a violation
		res.Dist("ctxobs:hang-first-attempt")
		if tainted {
			obsHangs++
			obsViolate("runcontext-does-not-return-after-context-done", in,
				fmt.Sprintf("no return %v after the context became done (%v); %d instructions dispatched after that instant; observations: %s; the VM could not be stopped by the harness either", obsHangAfter, errString(o.ctxErr), o.hangDisp, o.log),
				"RunContext returns the context's error within a bounded delay", "watchdog on the calling goroutine")
			return
		}
		c2, _ := obsCompile(p)
		o2 := obsRunOnce(c2, t)
		if o2.hang && (o.hangDisp >= 100000 && o2.hangDisp >= 100000 || o.hangDisp == 0 && o2.hangDisp == 0) {
			obsHangs++
			obsViolate("runcontext-does-not-return-after-context-done", in,
				fmt.Sprintf("two attempts on fresh Compiled objects: no return %v after the context became done (%v); the VM went on to dispatch %d and %d instructions after that instant; observations the library made: %s", obsHangAfter, errString(o.ctxErr), o.hangDisp, o2.hangDisp, o.log),
				"RunContext returns the context's error within a bounded delay ("+latencyBound.String()+" here) of the context becoming done", "watchdog on the calling goroutine; dispatch counter from the probe hook")
		} else {
			res.Dist("ctxobs:hang-not-confirmed")
		}
		return
	}
	if o.lockStuck {
		obsViolate("compiled-locked-after-return", in, "GetAll after RunContext returned did not come back within "+hardWatchdog.String(),
			"the lock is released when RunContext returns", "hard watchdog")
		return
	}
	isCtxErr := o.err == context.Canceled || o.err == context.DeadlineExceeded
	res.Dist("ctxobs:ret:" + classOf(o.err))
	switch {
	case isCtxErr && !o.doneBefore:
		obsViolate("context-error-without-cancellation", in, fmt.Sprintf("%v; observations: %s", o.err, o.log), "the run's own result", "the context was not done when the call returned")
	case isCtxErr && o.err != o.ctxErr:
		obsViolate("wrong-context-error", in, fmt.Sprintf("%v; observations: %s", o.err, o.log), errString(o.ctxErr), "identity with the error the context itself reports")
	case isCtxErr:
	case p.Infinite:
		obsViolate("own-result-from-unfinished-run", in, fmt.Sprintf("returned %v for a program that cannot end; context: %v; observations: %s", errString(o.err), errString(o.ctxErr), o.log), "the context's error", "the program never finishes")
	case ref != nil && o.dispatched != ref.steps:
		obsViolate("own-result-from-unfinished-run", in, fmt.Sprintf("returned %v after %d of %d instructions; observations: %s", errString(o.err), o.dispatched, ref.steps, o.log),
			"the context's error (the run was cut short) or the result of the finished run", "dispatch count of the uncancelled reference run")
	case ref != nil && (classOf(o.err) != ref.class || (o.err != nil && o.err.Error() != ref.errText)):
		obsViolate("own-result-differs-from-reference", in, errString(o.err), ref.errText, "uncancelled reference run")
	}
	if o.doneBefore && o.latency > maxLatency {
		maxLatency = o.latency
	}
	if o.doneBefore && o.latency > latencyBound {
		slow, worst := 1, o.latency
		for a := 0; a < 4 && !tainted; a++ {
			ca, _ := obsCompile(p)
			oa := obsRunOnce(ca, t)
			if oa.hang || !oa.returned {
				break
			}
			if oa.doneBefore && oa.latency > latencyBound {
				slow++
				if oa.latency < worst {
					worst = oa.latency
				}
			}
		}
		res.Dist("ctxobs:latency-remeasured")
		if slow == 5 {
			obsViolate("cancel-latency-above-bound", in, fmt.Sprintf("fastest of 5 attempts: %v after the context became done", worst), "return within "+latencyBound.String(), "wall clock, five consecutive attempts, stalls of the calling goroutine subtracted")
		}
	}
	if o.leaked > 0 {
		obsViolate("goroutine-left-behind", in, fmt.Sprintf("%d goroutine(s) above baseline 2 s after the return", o.leaked), "NumGoroutine back to baseline", "runtime.NumGoroutine polled with backoff")
	}
	if tainted {
		return
	}
	// --- the same Compiled runs again
	switch {
	case p.RerunVar != "":
		if err := c.Set(p.RerunVar, p.RerunVal); err != nil {
			fatal(err)
		}
		o3 := runOnce(c, "never", -1)
		if !o3.returned {
			obsViolate("rerun-does-not-return", in, fmt.Sprintf("after Set(%q, %d) the run under context.Background() did not return", p.RerunVar, p.RerunVal), "ends by itself", "hard watchdog")
			return
		}
		want := lib.Canon(&tengo.Int{Value: p.RerunVal})
		if o3.err != nil || o3.globals[p.RerunOut] != want {
			obsViolate("rerun-differs-from-fresh-run", in, fmt.Sprintf("after Set(%q, %d): err=%v %s=%s", p.RerunVar, p.RerunVal, o3.err, p.RerunOut, o3.globals[p.RerunOut]),
				fmt.Sprintf("err=nil %s=%s", p.RerunOut, want), "what the script computes")
		}
	case p.Infinite:
		o3 := runOnce(c, "at", 7)
		if !o3.returned {
			obsViolate("rerun-does-not-return", in, "second run (standard context cancelled at instruction 7) on the same Compiled did not return", "context canceled", "hard watchdog")
		} else if o3.err != context.Canceled {
			obsViolate("rerun-differs-from-fresh-run", in, fmt.Sprintf("second run (cancel at 7) returned %v", o3.err), "context canceled", "re-run on the same Compiled")
		}
	case ref != nil:
		o3 := runOnce(c, "never", -1)
		if !o3.returned {
			obsViolate("rerun-does-not-return", in, "uncancelled run on the same Compiled did not return", ref.errText, "hard watchdog")
			return
		}
		g3, e3 := globalsString(o3.globals), ""
		if o3.err != nil {
			e3 = o3.err.Error()
		}
		if classOf(o3.err) != ref.class || e3 != ref.errText || g3 != ref.globals || o3.dispatched != ref.steps {
			obsViolate("rerun-differs-from-fresh-run", in,
				fmt.Sprintf("err=%q steps=%d globals=%s", e3, o3.dispatched, g3),
				fmt.Sprintf("err=%q steps=%d globals=%s", ref.errText, ref.steps, ref.globals),
				"uncancelled RunContext on a fresh Compiled of the same script")
		}
	}
	return
}

// ---- programs ----

const obsLimitLoop = "n := 0\nfor limit == 0 || n < limit { n++ }\n"
const obsLimitTail = "f := func(n) { if limit != 0 && n >= limit { return n }; return f(n + 1) }\nn := f(0)\n"

var obsPrograms = []obsProgram{
	{Name: "for-forever", Src: "for {}\n", Infinite: true},
	{Name: "limit-loop-0", Src: obsLimitLoop, Vars: map[string]int64{"limit": 0}, Infinite: true, RerunVar: "limit", RerunVal: 1000, RerunOut: "n"},
	{Name: "self-tail-recursion", Src: "f := func(n) { return f(n + 1) }\nf(0)\n", Infinite: true},
	{Name: "limit-tail-rec-0", Src: obsLimitTail, Vars: map[string]int64{"limit": 0}, Infinite: true, RerunVar: "limit", RerunVal: 700, RerunOut: "n"},
	{Name: "self-tail-recursion-stmt", Src: "f := func(n) { f(n + 1) }\nf(0)\n", Infinite: true},
	{Name: "loop-through-function", Src: "g := func(n) { return n + 1 }\nx := 0\nfor { x = g(x) }\n", Infinite: true},
	{Name: "straight", Src: "a := 1\nb := a + 2\nc := [a, b]\n"},
	{Name: "count-loop", Src: "s := 0\nfor i := 0; i < 20000; i++ { s += i }\n"},
	{Name: "limit-loop-3000", Src: obsLimitLoop, Vars: map[string]int64{"limit": 3000}},
	{Name: "tail-recursion-long", Src: "f := func(n, acc) { if n == 0 { return acc }; return f(n-1, acc+1) }\nx := f(30000, 0)\n"},
	{Name: "runtime-error", Src: "a := 1\nb := 2\nc := a + \"x\" * b\nd := 4\n"},
}

// obsReference: uncancelled run of a terminating program (twice: determinism guard).
func obsReference(p obsProgram) *reference {
	var refs [2]reference
	for i := range refs {
		c, err := obsCompile(p)
		if err != nil {
			res.Dist("ctxobs:compile-error")
			return nil
		}
		o := runOnce(c, "never", -1)
		if !o.returned || o.lockStuck {
			return nil // reported by the cancel-at-k stream's reference run for its own programs
		}
		refs[i] = reference{steps: o.dispatched, class: classOf(o.err), globals: globalsString(o.globals)}
		if o.err != nil {
			refs[i].errText = o.err.Error()
		}
	}
	if refs[0] != refs[1] || refs[0].steps == 0 {
		res.Dist("ctxobs:nondeterministic-skipped")
		return nil
	}
	return &refs[0]
}

var obsStalls = []int64{0, 2000, 15000}

// obsSweep: profile the program on this tree, then every observation (and one beyond) as an instant.
func obsSweep(p obsProgram, rng *lib.RNG, races int) {
	if tainted || obsHangs >= 2 {
		return
	}
	if os.Getenv("C07_DEBUG") != "" {
		t0, e0 := time.Now(), res.Evaluations
		defer func() {
			fmt.Fprintf(os.Stderr, "ctxobs %-28s cases=%-5d %v\n", p.Name, res.Evaluations-e0, time.Since(t0).Round(time.Millisecond))
		}()
	}
	var ref *reference
	if !p.Infinite {
		if ref = obsReference(p); ref == nil {
			return
		}
	}
	backstop := int64(0)
	if p.Infinite {
		backstop = 5
	}
	mk := func(at string, n int, mode string, stall int64) obsTrigger {
		return obsTrigger{At: at, N: n, Mode: mode, StallUS: stall, Deadline: backstop > 0 && rng.Bool(), BackstopMS: backstop}
	}
	// profile: how many observations of each kind does the library make before the context ends?
	var cmax [nObsMethods]int
	for i := 0; i < 3; i++ {
		o := obsCase(p, ref, obsTrigger{At: "none", Mode: "before", Deadline: i == 1 && backstop > 0, BackstopMS: backstop})
		for m := range cmax {
			if o.atDone[m] > cmax[m] {
				cmax[m] = o.atDone[m]
			}
		}
	}
	res.Dist(fmt.Sprintf("ctxobs:profile Done=%d Err=%d Deadline=%d Value=%d", cmax[mDone], cmax[mErr], cmax[mDeadline], cmax[mValue]))
	var ts []obsTrigger
	ts = append(ts, mk("pre", 0, "before", 0))
	for m := 0; m < nObsMethods; m++ {
		name := obsMethodNames[m]
		top := cmax[m]
		if top > 6 {
			top = 6
		}
		for n := 1; n <= top; n++ {
			modes := []string{"before", "after", "async"}
			if m == mDone || m == mDeadline || m == mValue {
				modes = []string{"before", "async"} // the answer does not depend on the state
			}
			for _, mode := range modes {
				for _, st := range obsStalls {
					t := mk(name, n, mode, st)
					ts = append(ts, t)
					if backstop > 0 { // with and without a deadline of its own
						t.Deadline = !t.Deadline
						ts = append(ts, t)
					}
				}
			}
			for i := 0; i < races; i++ {
				ts = append(ts, mk(name, n, "async", 0))
			}
		}
		ts = append(ts, mk(name, top+1, "before", 0)) // one beyond what was seen
	}
	for _, k := range []int{0, 1, 2, 9} {
		ts = append(ts, mk("probe", k, "before", 0), mk("probe", k, "async", 0))
	}
	ts = append(ts, mk("probe", 0, "before", 2000))
	// the instant no observation and no dispatch marks: the VM goroutine has been started and enters VM.Run, the loop
	// has not begun (hook VerifRunStart). Cancelled there, with the VM goroutine held long enough for the caller to see
	// Done() and call Abort on the still idle VM: an abort that is not remembered until the loop starts is lost.
	for _, st := range []int64{0, 2000, 15000} {
		ts = append(ts, mk("runstart", 0, "before", st), mk("runstart", 0, "async", st))
	}
	for _, t := range ts {
		if tainted || obsHangs >= 2 {
			return
		}
		obsCase(p, ref, t)
	}
	res.Sample(map[string]interface{}{"stream": obsStream, "program": p.Name, "cases": len(ts), "observations_before_done": fmt.Sprintf("Done=%d Err=%d Deadline=%d Value=%d", cmax[mDone], cmax[mErr], cmax[mDeadline], cmax[mValue])}, 16)
}

// ctxObservationStream is the entry point (one call in main). In replay mode it re-runs the recorded cases of
// this stream.
func ctxObservationStream(f *lib.Flags) {
	res.Rule += "; stream ctx-observation: one case = (program, instant), the instant being the n-th call the library makes of Done/Err/Deadline/Value of an own context.Context implementation (cancel before the answer, behind the answer, or from another goroutine; observer stalled 0/2/15 ms), a dispatch index reached from the probe hook, or an already done context; non-trivial when the context is done before the call returns"
	if f.Replay != "" {
		obsReplay(f.Replay)
		return
	}
	rng := lib.NewRNG(f.Seed*0x9E3779B97F4A7C15 + 0xC07)
	races := f.Scale(12, 150)
	for _, p := range obsPrograms {
		obsSweep(p, rng.Fork(), races)
	}
	n := f.Scale(6, 80)
	for i := 0; i < n && !tainted && obsHangs < 2; i++ {
		r := rng.Fork()
		g := lib.NewGen(r, genProfile(r))
		obsSweep(obsProgram{Name: fmt.Sprintf("ctxobs-gen-%d", i), Src: g.Program()}, r, races/4)
	}
	if obsHangs >= 2 {
		res.Dist("ctxobs:stopped-after-two-confirmed-hangs")
	}
}

func obsReplay(path string) {
	b, err := os.ReadFile(path)
	if err != nil {
		fatal(err)
	}
	var rp struct {
		Violations []struct {
			Stream string          `json:"stream"`
			Input  json.RawMessage `json:"input"`
		} `json:"violations"`
	}
	if err := json.Unmarshal(b, &rp); err != nil {
		return // main's replay reports unreadable files
	}
	for _, v := range rp.Violations {
		if v.Stream != obsStream {
			continue
		}
		var in obsInput
		if json.Unmarshal(v.Input, &in) != nil || in.Src == "" {
			continue
		}
		p := in.obsProgram
		for _, q := range obsPrograms { // the re-run recipe is not part of the recorded input
			if q.Src == p.Src && q.Infinite == p.Infinite {
				p.RerunVar, p.RerunVal, p.RerunOut = q.RerunVar, q.RerunVal, q.RerunOut
			}
		}
		var ref *reference
		if !p.Infinite {
			if ref = obsReference(p); ref == nil {
				continue
			}
		}
		for i := 0; i < 3 && !tainted; i++ {
			obsCase(p, ref, in.Trigger)
		}
	}
}

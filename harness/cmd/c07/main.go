// Command c07: correspondence and searchers for C07 (cancellation stops any running script promptly and
// cleanly).
//
// Stream `cancel-at-k`: through tengo.VerifProbe (called once per dispatched instruction, in the VM
// goroutine) the harness calls the context's cancel function exactly when the k-th instruction is
// dispatched — for every k in 0..steps(P)-1 for small programs, sampled k for large and infinite ones —
// plus already-cancelled contexts (cancelled and deadline-expired), cancel-after-finish, never, and a real
// short timeout for infinite programs.
//
// Observed per run: the returned error (context error vs the run's own result), the number of dispatched
// instructions, how many dispatches saw the abort flag already set, the time from cancel() to return, the
// goroutine count afterwards, and the result of a following uncancelled RunContext on the same Compiled.
//
// SEARCHER (Violate; oracle independent of the Lean model): wrong error identity; the run's own result
// returned although the run did not finish; latency above the bound on five consecutive attempts (and a
// hard watchdog: "does not return"); goroutines not back to baseline within 2 s; the following uncancelled
// run differs from a fresh run.
// CORRESPONDENCE (Disagree): the observed (return class, dispatched count, dispatches after Abort) is not
// within what the protocol model `(sched <prog> <cancel>)` allows for that k.
package main

import (
	"context"
	"encoding/json"
	"errors"
	"fmt"
	"os"
	"reflect"
	"runtime"
	"sort"
	"strconv"
	"strings"
	"sync/atomic"
	"time"
	"unsafe"

	"github.com/d5/tengo/v2"
	"verifharness/lib"
)

var (
	res      *lib.Result
	drv      *lib.Driver
	thorough bool
	tainted  bool // a call did not return: a goroutine is stuck, stop measuring

	maxLatency   time.Duration
	latencyBound = 500 * time.Millisecond
	hardWatchdog = 20 * time.Second
)

type program struct {
	Name     string `json:"name"`
	Src      string `json:"source"`
	Infinite bool   `json:"infinite,omitempty"`
}

type caseInput struct {
	Program string `json:"program"`
	Source  string `json:"source"`
	Cancel  string `json:"cancel"` // "at k" | pre | pre-deadline | post | never | timeout
}

// abortFlagAddr returns the address of v.aborting (read with an atomic load in the probe), or nil when
// the field no longer exists under that name.
func abortFlagAddr(v *tengo.VM) *int64 {
	f := reflect.ValueOf(v).Elem().FieldByName("aborting")
	if !f.IsValid() || f.Kind() != reflect.Int64 || !f.CanAddr() {
		return nil
	}
	return (*int64)(unsafe.Pointer(f.UnsafeAddr()))
}

type observation struct {
	err        error
	returned   bool
	dispatched int64
	abortSeen  int64 // dispatches that saw aborting == 1 (instructions executed after Abort)
	flagOK     bool
	latency    time.Duration // cancel() -> return (0 when cancel was not called before return)
	cancelled  bool          // cancel was called before the call returned
	leaked     int           // goroutines above baseline after 2 s
	globals    map[string]string
	lockStuck  bool // GetAll after the return did not come back
}

func classOf(err error) string {
	switch {
	case err == nil:
		return "nil"
	case errors.Is(err, context.Canceled), errors.Is(err, context.DeadlineExceeded):
		return "ctx"
	case strings.HasPrefix(err.Error(), "Runtime Error:"):
		return "err"
	default:
		return "panic"
	}
}

func snapshot(c *tengo.Compiled) map[string]string {
	g := map[string]string{}
	for _, v := range c.GetAll() {
		g[v.Name()] = lib.Canon(v.Object())
	}
	return g
}

func globalsString(g map[string]string) string {
	names := make([]string, 0, len(g))
	for n := range g {
		names = append(names, n)
	}
	sort.Strings(names)
	var sb strings.Builder
	for _, n := range names {
		sb.WriteString(n + "=" + g[n] + " ")
	}
	return sb.String()
}

// runOnce performs one RunContext with the given cancellation mode. k < 0: no cancel from the probe.
func runOnce(c *tengo.Compiled, mode string, k int64) observation {
	var o observation
	var ctx context.Context
	var cancel context.CancelFunc
	var cancelAt atomic.Int64 // unix nanos of the cancel() call
	switch mode {
	case "pre-deadline":
		ctx, cancel = context.WithDeadline(context.Background(), time.Now().Add(-time.Second))
	case "timeout":
		d := 3 * time.Millisecond
		cancelAt.Store(time.Now().Add(d).UnixNano())
		ctx, cancel = context.WithTimeout(context.Background(), d)
		o.cancelled = true
	default:
		ctx, cancel = context.WithCancel(context.Background())
	}
	defer cancel()
	if mode == "pre" {
		cancel()
	}
	if mode == "pre" || mode == "pre-deadline" {
		o.cancelled = true
		cancelAt.Store(time.Now().UnixNano())
	}
	var dispatched, abortSeen atomic.Int64
	var flag *int64
	var flagKnown bool
	fired := false
	tengo.VerifProbe = func(v *tengo.VM, fn *tengo.CompiledFunction, ip, sp, bp, fi int, allocs int64) {
		if !flagKnown {
			flag = abortFlagAddr(v)
			flagKnown = true
		}
		n := dispatched.Add(1) - 1
		if flag != nil && atomic.LoadInt64(flag) != 0 {
			abortSeen.Add(1)
		}
		if n == k && !fired {
			fired = true
			cancelAt.Store(time.Now().UnixNano())
			cancel()
		}
	}
	defer func() { tengo.VerifProbe = nil }()
	runtime.Gosched()
	baseline := runtime.NumGoroutine()
	done := make(chan error, 1)
	var retAt atomic.Int64
	go func() {
		err := c.RunContext(ctx)
		retAt.Store(time.Now().UnixNano())
		done <- err
	}()
	select {
	case o.err = <-done:
		o.returned = true
	case <-time.After(hardWatchdog):
		tainted = true
		o.dispatched = dispatched.Load()
		return o
	}
	o.dispatched = dispatched.Load()
	o.abortSeen = abortSeen.Load()
	o.flagOK = flag != nil || !flagKnown
	if ca := cancelAt.Load(); ca != 0 {
		if k >= 0 {
			o.cancelled = true
		}
		if d := retAt.Load() - ca; d > 0 {
			o.latency = time.Duration(d)
		}
	}
	// goroutines back to baseline (the helper goroutine above has finished: it sent on done)
	wait := 50 * time.Microsecond
	deadline := time.Now().Add(2 * time.Second)
	for spin := 0; ; spin++ {
		n := runtime.NumGoroutine()
		if n <= baseline {
			break
		}
		if spin < 50 {
			runtime.Gosched()
			continue
		}
		if time.Now().After(deadline) {
			o.leaked = n - baseline
			break
		}
		time.Sleep(wait)
		if wait < 20*time.Millisecond {
			wait *= 2
		}
	}
	// reading the variables takes the Compiled's lock: it must be free again
	gch := make(chan map[string]string, 1)
	go func() { gch <- snapshot(c) }()
	select {
	case o.globals = <-gch:
	case <-time.After(hardWatchdog):
		tainted = true
		o.lockStuck = true
	}
	return o
}

type reference struct {
	steps   int64
	class   string // nil | err | panic
	errText string
	globals string
}

func (r reference) progSexp(p program) string {
	if p.Infinite {
		return "inf"
	}
	cls := map[string]string{"nil": "ok", "err": "err", "panic": "panic"}[r.class]
	return lib.L("fin", strconv.FormatInt(r.steps-1, 10), cls)
}

type modelObs struct {
	ret        string
	dispatched int64
	after      int64
}

func askModel(prog, cancel string) ([]modelObs, error) {
	ans, err := drv.Ask(lib.L("sched", prog, cancel))
	if err != nil {
		return nil, err
	}
	res.ModelLines++
	if !strings.HasPrefix(ans, "ok ") {
		return nil, fmt.Errorf("model answered %q", ans)
	}
	v, err := lib.ParseSexp(strings.TrimPrefix(ans, "ok "))
	if err != nil {
		return nil, err
	}
	var out []modelObs
	items, _ := v.([]interface{})
	for _, it := range items {
		f, ok := it.([]interface{})
		if !ok || len(f) != 3 {
			return nil, fmt.Errorf("model answered %q", ans)
		}
		d, _ := strconv.ParseInt(fmt.Sprint(f[1]), 10, 64)
		a, _ := strconv.ParseInt(fmt.Sprint(f[2]), 10, 64)
		out = append(out, modelObs{fmt.Sprint(f[0]), d, a})
	}
	return out, nil
}

func violate(sig string, in caseInput, observed, expected, oracle string) {
	res.Violate(lib.Violation{Signature: sig, Stream: "cancel-at-k", Input: in, Observed: observed, Expected: expected, Oracle: oracle})
}

// checkCase runs one (program, cancellation mode) case: searcher oracles, then the model's prediction.
func checkCase(c *tengo.Compiled, p program, ref reference, mode string, k int64) {
	if tainted {
		return
	}
	cancelName := mode
	modelCancel := mode
	if mode == "at" {
		cancelName = fmt.Sprintf("at %d", k)
		modelCancel = lib.L("at", strconv.FormatInt(k, 10))
	}
	in := caseInput{Program: p.Name, Source: p.Src, Cancel: cancelName}
	kk := int64(-1)
	if mode == "at" {
		kk = k
	}
	runMode := mode
	if mode == "post" {
		runMode = "never"
	}
	o := runOnce(c, runMode, kk)
	res.Count("cancel-at-k", p.Name+"|"+cancelName, mode == "at" || mode == "pre" || mode == "pre-deadline" || mode == "timeout")
	res.Dist("mode:" + mode)
	if o.lockStuck {
		violate("compiled-locked-after-return", in, "GetAll after RunContext returned did not come back within "+hardWatchdog.String(),
			"the lock is released when RunContext returns", "hard watchdog")
		return
	}
	if !o.returned {
		violate("runcontext-does-not-return-after-cancel", in, fmt.Sprintf("no return within %v (cancel called: %v, %d instructions dispatched)", hardWatchdog, o.cancelled, o.dispatched),
			"RunContext returns within a bounded delay", "hard watchdog")
		return
	}
	cls := classOf(o.err)
	res.Dist("ret:" + cls)
	if o.cancelled {
		res.Dist(fmt.Sprintf("instructions-after-abort:%d", o.abortSeen))
		if o.latency > maxLatency {
			maxLatency = o.latency
		}
	}
	// --- error identity
	switch {
	case cls == "ctx":
		if !o.cancelled {
			violate("context-error-without-cancellation", in, fmt.Sprint(o.err), "the run's own result", "ctx was never cancelled")
		}
		want := context.Canceled
		if mode == "pre-deadline" || mode == "timeout" {
			want = context.DeadlineExceeded
		}
		if !errors.Is(o.err, want) {
			violate("wrong-context-error", in, fmt.Sprint(o.err), fmt.Sprint(want), "errors.Is against the context's own Err()")
		}
	default:
		// the run's own result: only if the run finished, and then it is the reference result
		if p.Infinite {
			violate("own-result-from-unfinished-run", in, fmt.Sprintf("returned %v for a non-terminating program", o.err), "ctx.Err()", "the program never finishes")
		} else if o.dispatched != ref.steps {
			violate("own-result-from-unfinished-run", in, fmt.Sprintf("returned %v after %d of %d instructions", o.err, o.dispatched, ref.steps),
				"ctx.Err() (the run was cut short) or the result of the finished run", "dispatch count of the uncancelled reference run")
		} else if cls != ref.class || (o.err != nil && o.err.Error() != ref.errText) {
			violate("own-result-differs-from-reference", in, fmt.Sprint(o.err), ref.errText, "uncancelled reference run")
		}
	}
	if (mode == "never" || mode == "post") && cls == "ctx" {
		violate("context-error-without-cancellation", in, fmt.Sprint(o.err), "the run's own result", "ctx was not cancelled before the return")
	}
	// --- latency (re-measured: a violation needs five consecutive slow returns)
	if o.cancelled && o.latency > latencyBound {
		slow := 1
		worst := o.latency
		for a := 0; a < 4 && !tainted; a++ {
			o2 := runOnce(c, runMode, kk)
			if !o2.returned {
				break
			}
			if o2.latency > latencyBound {
				slow++
				if o2.latency < worst {
					worst = o2.latency
				}
			}
		}
		res.Dist("latency-remeasured")
		if slow == 5 {
			violate("cancel-latency-above-bound", in, fmt.Sprintf("fastest of 5 attempts: %v", worst), "return within "+latencyBound.String()+" of cancel()", "wall clock, five consecutive attempts")
		}
	}
	// --- goroutines
	if o.leaked > 0 {
		violate("goroutine-left-behind", in, fmt.Sprintf("%d goroutine(s) above baseline 2 s after the return", o.leaked), "NumGoroutine back to baseline", "runtime.NumGoroutine polled with backoff")
	}
	// --- model correspondence
	if drv != nil && o.flagOK {
		pred, err := askModel(ref.progSexp(p), modelCancel)
		if mode == "pre-deadline" || mode == "timeout" {
			if mode == "pre-deadline" {
				pred, err = askModel(ref.progSexp(p), "pre")
			} else {
				pred, err = nil, nil // a real timeout is not aligned to an instruction: searcher only
			}
		}
		if err != nil {
			fatal(err)
		}
		if pred != nil {
			okRet, okDisp := false, false
			var lo, hi int64 = -1, -1
			var maxAfter int64
			for _, m := range pred {
				if m.after > maxAfter {
					maxAfter = m.after
				}
				if m.ret != cls {
					continue
				}
				okRet = true
				if lo < 0 || m.dispatched < lo {
					lo = m.dispatched
				}
				if m.dispatched > hi {
					hi = m.dispatched
				}
			}
			if p.Infinite {
				okDisp = okRet && o.dispatched >= lo
				maxAfter = 1
			} else {
				okDisp = okRet && o.dispatched >= lo && o.dispatched <= hi
			}
			if maxAfter < 1 {
				maxAfter = 1 // the bound proved for all schedules (abort_bound)
			}
			if !okRet || !okDisp || o.abortSeen > maxAfter {
				res.Disagree(lib.Disagreement{Stream: "cancel-at-k", Input: in,
					Model: fmt.Sprintf("%v (ret, dispatched, instructions after Abort) extremes; after Abort <= %d", pred, maxAfter),
					Impl:  fmt.Sprintf("ret=%s dispatched=%d after-abort=%d", cls, o.dispatched, o.abortSeen)})
			}
		}
	} else if !o.flagOK {
		res.Skipped++
	}
	// --- the same Compiled runs again, uncancelled, like a fresh run
	if tainted {
		return
	}
	if p.Infinite {
		o3 := runOnce(c, "at", 7)
		if !o3.returned {
			violate("runcontext-does-not-return-after-cancel", in, "second (cancelled at 7) run on the same Compiled did not return", "returns ctx.Err()", "hard watchdog")
		} else if classOf(o3.err) != "ctx" {
			violate("rerun-differs-from-fresh-run", in, fmt.Sprintf("second run (cancel at 7) returned %v", o3.err), "context canceled", "re-run on the same Compiled")
		}
		return
	}
	o3 := runOnce(c, "never", -1)
	if !o3.returned {
		violate("rerun-does-not-return", in, "uncancelled run after "+cancelName+" did not return", ref.errText, "hard watchdog")
		return
	}
	g3 := globalsString(o3.globals)
	e3 := ""
	if o3.err != nil {
		e3 = o3.err.Error()
	}
	if classOf(o3.err) != ref.class || e3 != ref.errText || g3 != ref.globals || o3.dispatched != ref.steps {
		violate("rerun-differs-from-fresh-run", in,
			fmt.Sprintf("err=%q steps=%d globals=%s", e3, o3.dispatched, g3),
			fmt.Sprintf("err=%q steps=%d globals=%s", ref.errText, ref.steps, ref.globals),
			"uncancelled RunContext on a fresh Compiled of the same script")
	}
	if o3.leaked > 0 {
		violate("goroutine-left-behind", in, fmt.Sprintf("%d goroutine(s) above baseline after the uncancelled re-run", o3.leaked), "NumGoroutine back to baseline", "runtime.NumGoroutine polled with backoff")
	}
}

func compile(src string) (*tengo.Compiled, error) {
	s := tengo.NewScript([]byte(src))
	return s.Compile()
}

// checkProgram: reference run on a fresh Compiled, then all cancellation cases on ONE other Compiled.
func checkProgram(p program, rng *lib.RNG, maxExhaustive int64, samples int) {
	if tainted {
		return
	}
	if os.Getenv("C07_DEBUG") != "" {
		t0 := time.Now()
		e0 := res.Evaluations
		defer func() {
			fmt.Fprintf(os.Stderr, "%-28s cases=%-5d %v\n", p.Name, res.Evaluations-e0, time.Since(t0).Round(time.Millisecond))
		}()
	}
	var ref reference
	if !p.Infinite {
		fresh, err := compile(p.Src)
		if err != nil {
			res.Dist("compile-error")
			return
		}
		o := runOnce(fresh, "never", -1)
		if o.lockStuck {
			violate("compiled-locked-after-return", caseInput{Program: p.Name, Source: p.Src, Cancel: "never"}, "GetAll after RunContext returned did not come back within "+hardWatchdog.String(),
				"the lock is released when RunContext returns", "hard watchdog")
			return
		}
		if !o.returned {
			violate("uncancelled-run-does-not-return", caseInput{Program: p.Name, Source: p.Src, Cancel: "never"}, "no return", "terminating program", "hard watchdog")
			return
		}
		// determinism guard: a second fresh run must agree (map iteration order is outside the property)
		fresh2, _ := compile(p.Src)
		o2 := runOnce(fresh2, "never", -1)
		ref = reference{steps: o.dispatched, class: classOf(o.err), globals: globalsString(o.globals)}
		if o.err != nil {
			ref.errText = o.err.Error()
		}
		e2 := ""
		if o2.err != nil {
			e2 = o2.err.Error()
		}
		if !o2.returned || o2.dispatched != ref.steps || e2 != ref.errText || globalsString(o2.globals) != ref.globals {
			res.Skipped++
			res.Dist("nondeterministic-skipped")
			return
		}
		if ref.class == "ctx" || ref.steps == 0 {
			return
		}
		res.Dist("ref:" + ref.class)
	}
	c, err := compile(p.Src)
	if err != nil {
		res.Dist("compile-error")
		return
	}
	var ks []int64
	if !p.Infinite && ref.steps <= maxExhaustive {
		for k := int64(0); k < ref.steps; k++ {
			ks = append(ks, k)
		}
		res.Dist("programs-exhaustive-k")
	} else {
		limit := ref.steps
		if p.Infinite {
			limit = 200000
		}
		seen := map[int64]bool{}
		add := func(k int64) {
			if k >= 0 && k < limit && !seen[k] {
				seen[k] = true
				ks = append(ks, k)
			}
		}
		for _, k := range []int64{0, 1, 2, 3, limit - 3, limit - 2, limit - 1} {
			add(k)
		}
		for i := 0; i < samples; i++ {
			switch rng.Intn(3) {
			case 0:
				add(int64(rng.Intn(64)))
			case 1:
				add(int64(rng.Intn(int(limit))))
			default:
				add(limit - 1 - int64(rng.Intn(64)))
			}
		}
		res.Dist("programs-sampled-k")
	}
	for _, mode := range []string{"pre", "pre-deadline", "never", "post"} {
		if p.Infinite && (mode == "never" || mode == "post") {
			continue
		}
		checkCase(c, p, ref, mode, 0)
	}
	if p.Infinite {
		checkCase(c, p, ref, "timeout", 0)
	}
	for _, k := range ks {
		checkCase(c, p, ref, "at", k)
	}
	res.Sample(map[string]interface{}{"program": p.Name, "steps": ref.steps, "ks": len(ks), "infinite": p.Infinite}, 12)
}

// ---- programs ----

var smallPrograms = []program{
	{Name: "straight", Src: "a := 1\nb := a + 2\nc := [a, b]\n"},
	{Name: "loop", Src: "s := 0\nfor i := 0; i < 6; i++ { s += i }\n"},
	{Name: "nested-loop", Src: "s := 0\nfor i := 0; i < 4; i++ { for j := 0; j < 3; j++ { s += i * j } }\n"},
	{Name: "call", Src: "f := func(a, b) { return a * b + 1 }\nx := f(2, 3)\ny := f(x, x)\n"},
	{Name: "closure", Src: "mk := func() { n := 0; return func() { n++; return n } }\nc := mk()\na := c()\nb := c()\n"},
	{Name: "tail-rec", Src: "f := func(n, acc) { if n == 0 { return acc }; return f(n-1, acc+n) }\nx := f(12, 0)\n"},
	{Name: "non-tail-rec", Src: "f := func(n) { if n == 0 { return 0 }; return 1 + f(n-1) }\nx := f(10)\n"},
	{Name: "for-in-array", Src: "s := 0\nfor i, v in [5, 6, 7, 8] { s += i * v }\n"},
	{Name: "for-in-string", Src: "n := 0\nfor c in \"hello\" { n++ }\n"},
	{Name: "builtins", Src: "a := append([1], 2, 3)\nl := len(a)\ns := string(l)\nb := bytes(s)\n"},
	{Name: "containers", Src: "m := {a: 1, b: [1, 2]}\nm.c = m.a + len(m.b)\nx := m.b[1]\nm.b[0] = 9\n"},
	{Name: "runtime-error", Src: "a := 1\nb := 2\nc := a + \"x\" * b\nd := 4\n"},
	{Name: "error-in-func", Src: "f := func(x) { return x.y.z() }\na := 1\nb := f(a)\n"},
	{Name: "div-zero-panic", Src: "a := 10\nz := 0\nb := a / z\nc := 3\n"},
	{Name: "makeslice-panic", Src: "n := -1\nb := bytes(n)\nc := 3\n"},
	{Name: "stack-overflow-err", Src: "f := func(n) { return 1 + f(n + 1) }\nx := f(0)\n"},
	{Name: "immutable", Src: "a := immutable([1, 2, 3])\nb := a[1]\nc := copy(a)\n"},
	{Name: "ternary-logic", Src: "a := 3\nb := a > 2 ? \"y\" : \"n\"\nc := a && 0 || 5\n"},
	{Name: "discard-tail", Src: "f := func(n) { if n == 0 { return 5 }; f(n-1) }\nout := f(3)\n"},
}

var largePrograms = []program{
	{Name: "for-forever", Src: "for {}\n", Infinite: true},
	{Name: "for-true-alloc", Src: "a := 0\nfor true { a = [1, 2, 3] }\n", Infinite: true},
	{Name: "self-tail-recursion", Src: "f := func(n) { return f(n + 1) }\nf(0)\n", Infinite: true},
	{Name: "self-tail-recursion-stmt", Src: "f := func(n) { f(n + 1) }\nf(0)\n", Infinite: true},
	{Name: "mutual-loop", Src: "g := func(n) { return n + 1 }\nx := 0\nfor { x = g(x) }\n", Infinite: true},
	{Name: "for-in-forever", Src: "a := [1, 2, 3]\nfor { for v in a { a[0] = v } }\n", Infinite: true},
	{Name: "count-loop", Src: "s := 0\nfor i := 0; i < 20000; i++ { s += i }\n"},
	{Name: "deep-non-tail-recursion", Src: "f := func(n) { if n == 0 { return 0 }; return 1 + f(n-1) }\nx := f(1000)\n"},
	{Name: "deep-recursion-overflow", Src: "f := func(n) { if n == 0 { return 0 }; return 1 + f(n-1) }\nx := f(1100)\n"},
	{Name: "tail-recursion-long", Src: "f := func(n, acc) { if n == 0 { return acc }; return f(n-1, acc+1) }\nx := f(30000, 0)\n"},
	{Name: "for-in-large-array", Src: "a := range(0, 20000)\ns := 0\nfor v in a { s += v }\n"},
	{Name: "for-in-large-array-index", Src: "a := range(0, 5000)\nb := []\nfor i, v in a { b = append(b, v + i) }\nn := len(b)\n"},
}

// slowNativeCall: the context is cancelled while the VM goroutine sits in a host function that takes
// 150 ms. How long the call takes to return is outside the property's bound, but when it returns
// the VM goroutine must be finished ("no goroutine is left behind"): the host function must have
// completed, and the goroutine count must be back at once.
func slowNativeCall() {
	for _, src := range []string{"x := slow(1)\ny := 2\n", "for i := 0; i < 3; i++ { x := slow(i) }\n"} {
		var inside, done int32
		s := tengo.NewScript([]byte(src))
		_ = s.Add("slow", &tengo.UserFunction{Name: "slow", Value: func(args ...tengo.Object) (tengo.Object, error) {
			atomic.StoreInt32(&inside, 1)
			time.Sleep(150 * time.Millisecond)
			atomic.StoreInt32(&inside, 0)
			atomic.AddInt32(&done, 1)
			return tengo.UndefinedValue, nil
		}})
		c, err := s.Compile()
		if err != nil {
			fatal(err)
		}
		baseline := runtime.NumGoroutine()
		ctx, cancel := context.WithCancel(context.Background())
		go func() {
			for atomic.LoadInt32(&inside) == 0 {
				time.Sleep(time.Millisecond)
			}
			cancel()
		}()
		rerr := c.RunContext(ctx)
		stillInside := atomic.LoadInt32(&inside) == 1
		extra := runtime.NumGoroutine() - baseline
		res.Count("slow-native-call", src, true)
		in := caseInput{Program: "slow-native-call", Source: src, Cancel: "during the host call"}
		if stillInside {
			violate("goroutine-left-behind", in, fmt.Sprintf("RunContext returned (%v) while the VM goroutine was still inside the host function; %d goroutine(s) above baseline", rerr, extra),
				"RunContext returns only after the VM goroutine has finished", "flag set by the host function + runtime.NumGoroutine")
		}
		cancel()
		time.Sleep(200 * time.Millisecond) // let a leaked goroutine finish before the next scenario
	}
}

func genProfile(r *lib.RNG) lib.Profile {
	p := lib.DefaultProfile()
	p.MaxStmts = 4 + r.Intn(6)
	p.MaxDepth = 2
	p.Chaos = 10
	return p
}

func fatal(err error) {
	fmt.Fprintln(os.Stderr, "c07:", err)
	os.Exit(3)
}

func main() {
	f := lib.ParseFlags()
	res = lib.NewResult("C07", f)
	thorough = f.Thorough()
	var err error
	drv, err = lib.StartDriver(f.Driver)
	if err != nil {
		fatal(err)
	}
	defer drv.Close()
	res.DriverUsed = drv != nil
	res.Rule = "one case = (program, cancellation instant): cancel when instruction k is dispatched (every k for programs up to the exhaustive bound, sampled k for large and non-terminating programs), already-cancelled, deadline already expired, real 3 ms timeout, cancel-after-return, never; non-trivial when the context is cancelled before or during the run; distinct by (program, instant)"
	if thorough {
		latencyBound = 500 * time.Millisecond
	}
	ctxObservationStream(f) // ctxobs.go: the context becomes done at the n-th observation the library makes of it (also in replay mode)
	if f.Replay != "" {
		replay(f.Replay)
		lib.RunProbes(res, "C07", f.Known)
		res.Write(f.Out)
		return
	}
	rng := lib.NewRNG(f.Seed)
	maxEx := int64(f.Scale(300, 1500))
	samples := f.Scale(10, 60)
	for _, p := range smallPrograms {
		checkProgram(p, rng.Fork(), maxEx, samples)
	}
	for _, p := range largePrograms {
		checkProgram(p, rng.Fork(), maxEx, samples)
	}
	n := f.Scale(24, 400)
	for i := 0; i < n && !tainted; i++ {
		r := rng.Fork()
		g := lib.NewGen(r, genProfile(r))
		checkProgram(program{Name: fmt.Sprintf("gen-%d", i), Src: g.Program()}, r, maxEx, samples)
	}
	runAbortStream(f, rng.Fork()) // runabort.go: runAbort of the whole-VM model against the real VM aborted at dispatch k
	slowNativeCall()
	lib.RunProbes(res, "C07", f.Known)
	res.Extra = map[string]interface{}{"latency_bound_ms": latencyBound.Milliseconds(), "max_latency_us_observed": maxLatency.Microseconds(), "exhaustive_k_up_to": maxEx, "tainted_by_hang": tainted}
	res.Write(f.Out)
}

func replay(path string) {
	b, err := os.ReadFile(path)
	if err != nil {
		fatal(err)
	}
	srcs := replaySources(b)
	rng := lib.NewRNG(1)
	for i, s := range srcs {
		inf := false
		for _, p := range largePrograms {
			if p.Src == s && p.Infinite {
				inf = true
			}
		}
		checkProgram(program{Name: fmt.Sprintf("replay-%d", i), Src: s, Infinite: inf}, rng, 5000, 40)
		raProgram(program{Name: fmt.Sprintf("replay-%d", i), Src: s, Infinite: inf}, rng, raReplayBudgets(b, s), 5000, 40000, 40)
	}
}

// replaySources lists the distinct program sources named by a replay file (violations and broken
// correspondence entries).
func replaySources(b []byte) []string {
	var rp struct {
		Violations []struct {
			Input caseInput `json:"input"`
		} `json:"violations"`
		Obligations []struct {
			Detail string `json:"detail"`
		} `json:"theorem_or_stream"`
	}
	if err := json.Unmarshal(b, &rp); err != nil {
		fatal(err)
	}
	seen := map[string]bool{}
	var out []string
	add := func(s string) {
		if s != "" && !seen[s] {
			seen[s] = true
			out = append(out, s)
		}
	}
	for _, v := range rp.Violations {
		add(v.Input.Source)
	}
	for _, o := range rp.Obligations {
		var d struct {
			Input caseInput `json:"input"`
		}
		if json.Unmarshal([]byte(o.Detail), &d) == nil {
			add(d.Input.Source)
		}
	}
	return out
}

package main

import (
	"errors"
	"fmt"

	"github.com/d5/tengo/v2"
	"verifharness/lib"
)

func main() {
	// 1. compile sharing
	s := tengo.NewScript([]byte("m.x = 2\n"))
	_ = s.Add("m", map[string]interface{}{"x": 1})
	c1, err := s.Compile()
	fmt.Println(err)
	c2, _ := s.Compile()
	fmt.Println(c1.Run())
	fmt.Println("c2.m =", lib.Canon(c2.Get("m").Object()))
	c3, _ := s.Compile()
	fmt.Println("c3.m =", lib.Canon(c3.Get("m").Object()))
	// 2. runtime errors
	for _, src := range []string{"a := 1\nb := 1 + \"s\"\nc := 3\n", "a := [1][5]\n", "m.x = 2\n", "m := 5\n", "q = 5\n", "out := zz\n", "a := 1\nb := undefined.x.y\n", "b := \"s\" - 1", "m[\"x\"] = 1"} {
		s := tengo.NewScript([]byte(src))
		_ = s.Add("m", 5)
		c, err := s.Compile()
		if err != nil {
			fmt.Printf("%q compile: %v\n", src, err)
			continue
		}
		err = c.Run()
		fmt.Printf("%q run: %v | a=%v b=%v c=%v defA=%v\n", src, err, c.Get("a").Value(), c.Get("b").Value(), c.Get("c").Value(), c.IsDefined("a"))
		fmt.Println(c.Set("nope", 1), c.Set("nope", make(chan int)))
	}
	// 3. conversions
	for _, g := range []interface{}{int32(5), uint8(7), int8(1), uint(1), float32(1), errors.New("bo\"om"), struct{}{}, func() {}, map[string]int{}, []int{1}, []string{"a"}, nil, (error)(nil)} {
		o, err := tengo.FromInterface(g)
		if err != nil {
			fmt.Printf("%T: err %v\n", g, err)
			continue
		}
		r := tengo.ToInterface(o)
		fmt.Printf("%T: %s -> %T %v\n", g, lib.Canon(o), r, r)
	}
	var nm map[string]interface{}
	o, _ := tengo.FromInterface(nm)
	fmt.Printf("%#v\n", tengo.ToInterface(o))
	var ns []interface{}
	o, _ = tengo.FromInterface(ns)
	fmt.Printf("%#v\n", tengo.ToInterface(o))
	// immutable copy on clone
	s = tengo.NewScript([]byte("x := immutable({a: 1})\n"))
	_ = s.Add("im", &tengo.ImmutableArray{Value: []tengo.Object{&tengo.Int{Value: 1}}})
	c, _ := s.Compile()
	_ = c.Run()
	cl := c.Clone()
	fmt.Println(lib.Canon(c.Get("x").Object()), lib.Canon(cl.Get("x").Object()), lib.Canon(c.Get("im").Object()), lib.Canon(cl.Get("im").Object()))
	v, err := tengo.Eval(nil, "a + 1", map[string]interface{}{"a": 1})
	fmt.Println(v, err)
}

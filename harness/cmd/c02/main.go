// Command c02: correspondence and searchers for C02 (emitted bytecode is
// structurally sound and stack-balanced).
//
// Streams
//
//	verify   every function the real compiler emits (main, literals, closures, modules; raw and after
//	         constant de-duplication) is checked by the harness-side verifier (searcher) and by the
//	         Lean verifier proved sound in Tengo.Props.C02 (correspondence: same verdict, same heights)
//	heights  the operand-stack height the real VM shows at every dispatched instruction
//	         (sp - basePointer - NumLocals, through the probe hook) equals the static table
//	balance  a run that ends without error leaves sp == 0; no run ends in an internal fault
//	skeleton exhaustive statement skeletons (thorough; reduced in quick)
package main

import (
	"encoding/json"
	"fmt"
	"os"
	"strings"

	"github.com/d5/tengo/v2"
	"verifharness/lib"
)

type replayInput struct {
	Source string `json:"source,omitempty"`
	Fn     int    `json:"fn,omitempty"`
	Insts  string `json:"insts,omitempty"`
}

var (
	res *lib.Result
	drv *lib.Driver
)

func fatal(err error) {
	fmt.Fprintln(os.Stderr, "c02:", err)
	os.Exit(3)
}

func modules() *tengo.ModuleMap {
	mm := tengo.NewModuleMap()
	mm.AddSourceModule("m1", []byte("x := 0\nf := func(a) { for i := 0; i < a; i++ { if i == 2 { break }; x += i }; return x }\nexport {f: f, k: [1, 2, 3]}\n"))
	mm.AddSourceModule("m2", []byte("m1 := import(\"m1\")\ng := func(...a) { s := 0; for v in a { s += v }; return s && m1.f(3) }\nexport g\n"))
	mm.AddSourceModule("m3", []byte("c := 0\nfor i := 0; i < 3; i++ { c += i }\nexport c > 2 ? \"big\" : \"small\"\n"))
	return mm
}

func checkProgram(src string, nontrivial bool) {
	for _, dedup := range []bool{false, true} {
		c, err := lib.CompileSource([]byte(src), lib.CompileOpts{Modules: modules(), RemoveDups: dedup})
		if err != nil {
			if strings.HasPrefix(err.Error(), "PANIC") {
				res.Violate(lib.Violation{Signature: "compiler-panic", Stream: "verify", Input: replayInput{Source: src},
					Observed: err.Error(), Expected: "result or error", Oracle: "CompileSource"})
			}
			res.Count("verify", src, false)
			res.Dist("compile-error")
			return
		}
		fns, envs := lib.FnEnvs(c.BC)
		for i := range envs {
			// C02 states no upper bound on the operand-stack height (running out of the fixed VM stack is
			// an error through RunContext: properties C05/C06)
			envs[i].Limit = 1 << 30
		}
		tables := make([]map[int]int, len(fns))
		fnIdx := map[*tengo.CompiledFunction]int{}
		ok := true
		for i, f := range fns {
			fnIdx[f] = i
			hm, bad := lib.VerifyFunction(envs[i], f.Instructions)
			tables[i] = hm
			key := lib.Hex(f.Instructions)
			res.Count("verify", key, len(f.Instructions) > 12)
			if bad != "" {
				ok = false
				res.Violate(lib.Violation{Signature: "ill-formed-function:" + strings.Fields(bad)[0], Stream: "verify",
					Input: replayInput{Source: src, Fn: i, Insts: key}, Observed: bad,
					Expected: "jumps on instruction boundaries, operands in range, one stack height per instruction, no underflow, every path ends in RET/SUSPEND",
					Oracle:   "harness verifier (lib/verify.go)"})
			}
			if drv != nil && len(f.Instructions) < 6000 { // larger functions: harness verifier only (the model's tables are lists)
				ans, err := drv.Ask(lib.VerifyLine(envs[i], f.Instructions))
				if err != nil {
					fatal(err)
				}
				res.ModelLines++
				want := "err"
				if bad == "" {
					want = "ok " + lib.HeightsSexp(hm)
				}
				got := ans
				if strings.HasPrefix(ans, "err") {
					got = "err"
				}
				if got != want {
					res.Disagree(lib.Disagreement{Stream: "verify", Input: replayInput{Source: src, Fn: i, Insts: key}, Model: ans, Impl: want + " " + bad})
				}
			}
		}
		if !ok {
			return
		}
		// the whole-program verifier of the model: the hypothesis of Tengo.Props.C02.verified_run_safe
		big := false
		for _, f := range fns {
			if len(f.Instructions) >= 6000 {
				big = true
			}
		}
		if drv != nil && !big {
			ans, err := drv.Ask(lib.VMVerifyProgLine(c.BC, tengo.GlobalsSize))
			if err != nil {
				fatal(err)
			}
			res.ModelLines++
			res.Count("verifyprog", fmt.Sprint(dedup, src), len(fns) > 1)
			f := strings.Fields(ans)
			if len(f) != 3 || f[0] != "ok" || f[2] != "1" {
				res.Violate(lib.Violation{Signature: "ill-formed-program:" + strings.Join(f[:min(len(f), 3)], "-"), Stream: "verifyprog",
					Input: replayInput{Source: src}, Observed: clip(ans, 300),
					Expected: "ok: every referenced function verifies, capture counts are consistent, tail-call sites hold exactly callee and arguments, main never returns and suspends at height 0",
					Oracle: "Lean Tengo.Model.VM.verifyProgram on the emitted bytecode (hypothesis of the safety theorem)"})
			}
		}
		if dedup {
			continue // run only the raw variant (C12 covers behaviour after de-duplication)
		}
		// heights: real VM vs static table
		mismatch := ""
		out := lib.RunBytecode(c, lib.RunOpts{Probe: func(v *tengo.VM, fn *tengo.CompiledFunction, ip, sp, bp, fi int, a int64) {
			if mismatch != "" {
				return
			}
			i, known := fnIdx[fn]
			if !known {
				// closures are copies of a constant function: identify by instruction storage
				for j, f := range fns {
					if len(f.Instructions) > 0 && len(fn.Instructions) > 0 && &f.Instructions[0] == &fn.Instructions[0] {
						i, known = j, true
						fnIdx[fn] = j
						break
					}
				}
				if !known {
					return
				}
			}
			h := sp - bp - fns[i].NumLocals
			want, has := tables[i][ip]
			if !has || want != h {
				mismatch = fmt.Sprintf("fn %d ip %d: real height %d, static %d (known=%v)", i, ip, h, want, has)
			}
		}})
		res.Count("heights", src, nontrivial && out.Steps > 20)
		if mismatch != "" {
			res.Violate(lib.Violation{Signature: "runtime-height-differs-from-static-table", Stream: "heights", Input: replayInput{Source: src},
				Observed: mismatch, Expected: "sp - basePointer - NumLocals equals the verified height at every dispatched instruction", Oracle: "VM probe hook"})
		}
		if out.TimedOut {
			res.Dist("timeout")
			if os.Getenv("C02_DEBUG") != "" {
				fmt.Fprintln(os.Stderr, "TIMEOUT:\n"+src)
			}
			continue
		}
		if out.Err == "" && out.Panic == "" {
			res.Dist("ok-runs")
			if out.SP != 0 {
				res.Violate(lib.Violation{Signature: "stack-not-empty-after-ok-run", Stream: "balance", Input: replayInput{Source: src},
					Observed: fmt.Sprintf("sp=%d", out.SP), Expected: "sp=0", Oracle: "VM.VerifState"})
			}
		} else {
			res.Dist("failing-runs")
			txt := out.Err + out.Panic
			for _, pat := range []string{"unknown opcode", "not function:"} {
				if strings.Contains(txt, pat) {
					res.Violate(lib.Violation{Signature: "internal-fault:" + strings.ReplaceAll(pat, " ", "-"), Stream: "balance", Input: replayInput{Source: src},
						Observed: clip(txt, 200), Expected: "no internal fault of compiled code", Oracle: "error text"})
				}
			}
		}
		res.Sample(map[string]interface{}{"stream": "verify+heights", "source": src, "functions": len(fns), "steps": out.Steps}, 3)
	}
}

func clip(s string, n int) string {
	if len(s) > n {
		return s[:n] + "…"
	}
	return s
}

// ---- skeleton enumeration: all nestings of control statements up to a depth ----

var leafStmts = []string{"x += 1", "break", "continue", "return x", "return", "w = a && b || x", "w = a ? b : x"}

func skeletons(depth int, inLoop, inFunc bool, emit func(string)) {
	for _, l := range leafStmts {
		if (l == "break" || l == "continue") && !inLoop {
			continue
		}
		if strings.HasPrefix(l, "return") && !inFunc {
			continue
		}
		emit(l)
	}
	if depth == 0 {
		return
	}
	skeletons(depth-1, inLoop, inFunc, func(b string) {
		emit("if a { " + b + " }")
		emit("if a { " + b + " } else { w -= 1 }")
		emit("if a { w -= 1 } else if b { " + b + " } else { w = 0 }")
	})
	skeletons(depth-1, true, inFunc, func(b string) {
		emit("for i := 0; i < 3; i++ { " + b + " }")
		emit("for x < 5 { x++; " + b + " }")
		emit("for k, v in [1, 2] { " + b + " }")
	})
	if !inFunc {
		skeletons(depth-1, false, true, func(b string) {
			emit("f := func(p) { " + b + "; return p }; w = f(1) || x")
			emit("g := func() { y := x; h := func() { y += 1; " + b + " }; h(); return y }; w = g() || x")
		})
	}
}

// boundaryPrograms: operand-width boundaries (one-byte local / free / argument operands, two-byte
// constant / element-count operands, four-byte jump operands beyond 64 KiB).
func boundaryPrograms() []string {
	var out []string
	// k captured variables: 200 locals of an outer function and k-200 of a middle one, all read by the
	// innermost literal (so no function exceeds the local-variable limit)
	for _, k := range []int{254, 255, 256, 257} {
		var sb strings.Builder
		sb.WriteString("f := func() {\n")
		for i := 0; i < 200; i++ {
			fmt.Fprintf(&sb, "v%d := %d\n", i, i)
		}
		sb.WriteString("m := func() {\n")
		for i := 200; i < k; i++ {
			fmt.Fprintf(&sb, "v%d := %d\n", i, i)
		}
		sb.WriteString("g := func() { return ")
		for i := 0; i < k; i++ {
			if i > 0 {
				sb.WriteString(" + ")
			}
			fmt.Fprintf(&sb, "v%d", i)
		}
		sb.WriteString(" }\nreturn g()\n}\nreturn m()\n}\nout := f()\n")
		out = append(out, sb.String())
	}
	// k locals
	for _, k := range []int{255, 256, 257} {
		var sb strings.Builder
		sb.WriteString("f := func() {\n")
		for i := 0; i < k; i++ {
			fmt.Fprintf(&sb, "v%d := %d\n", i, i)
		}
		fmt.Fprintf(&sb, "return [v0, v%d]\n}\nout := f()\n", k-1)
		out = append(out, sb.String())
	}
	// k parameters / arguments
	for _, k := range []int{255, 256} {
		var ps, as []string
		for i := 0; i < k; i++ {
			ps = append(ps, fmt.Sprintf("p%d", i))
			as = append(as, "1")
		}
		out = append(out, "f := func("+strings.Join(ps, ", ")+") { return p0 + p"+fmt.Sprint(k-1)+" }\nout := f("+strings.Join(as, ", ")+")\n")
	}
	// k selectors in an assignment (one-byte operand of OpSetSel*), on a global, a local and a captured variable (O35)
	for _, k := range []int{254, 255, 256, 257} {
		out = append(out, "a := {}\nif false {\n a"+strings.Repeat("[0]", k)+" = 1\n}\n")
		out = append(out, "f := func() {\n a := {}\n if false { a"+strings.Repeat(".k", k)+" += 1 }\n}\n")
		out = append(out, "f := func() {\n a := {}\n return func() { if false { a"+strings.Repeat(".k", k)+" = 2 } }\n}\n")
	}
	// element counts around the two-byte operands of OpArray / OpMap (O35), on a path that is never taken
	for _, k := range []int{65535, 65536} {
		out = append(out, "out := 0\nif out == 1 {\n x := ["+strings.TrimSuffix(strings.Repeat("1,", k), ",")+"]\n}\nout = 5\n")
	}
	for _, k := range []int{32767, 32768} {
		var sb strings.Builder
		sb.WriteString("out := 0\nif out == 1 {\n x := {")
		for i := 0; i < k; i++ {
			if i > 0 {
				sb.WriteString(",")
			}
			fmt.Fprintf(&sb, "k%d:1", i)
		}
		sb.WriteString("}\n}\nout = 5\n")
		out = append(out, sb.String())
	}
	// functions WITHOUT a final return whose last instructions carry every small operand value (added after
	// C02-m7: "ends in a return" decided from the second-last byte, which is 21 = OpReturn for global/local #21
	// or the operator &^): selector assignment to global / local k, bare read of global / local k, every binary
	// operator as the last expression statement
	{
		var gdecl, ldecl strings.Builder
		for i := 0; i <= 40; i++ {
			fmt.Fprintf(&gdecl, "g%d := {n: %d}\n", i, i)
			fmt.Fprintf(&ldecl, " l%d := {n: %d}\n", i, i)
		}
		for k := 0; k <= 40; k++ {
			out = append(out, gdecl.String()+fmt.Sprintf("f := func(v) { g%d.n = v }\nr := f(7)\nout := g%d.n\n", k, k))
			out = append(out, gdecl.String()+fmt.Sprintf("f := func(v) { g%d.n.m = v }\nh := func() { g%d }\nr := h()\n", k, k))
			out = append(out, fmt.Sprintf("f := func(v) {\n%s l%d.n = v\n}\nr := f(7)\n", ldecl.String(), k))
			out = append(out, fmt.Sprintf("f := func(v) {\n%s l%d\n}\nr := f(7)\n", ldecl.String(), k))
		}
		for _, op := range []string{"+", "-", "*", "/", "%", "&", "|", "^", "&^", "<<", ">>", "<", ">", "<=", ">=", "==", "!="} {
			out = append(out, "f := func(a, b) { a "+op+" b }\nr := f(6, 3)\n")
		}
	}
	// jumps across the 64 KiB mark: in main and inside a function literal
	var body strings.Builder
	for i := 0; i < 11500; i++ {
		body.WriteString("x = 1\n")
	}
	out = append(out, "x := 0\nc := false\nif c {\n"+body.String()+"}\ny := 2\n")
	out = append(out, "x := 0\nf := func(c) {\nif c {\n"+body.String()+"}\nreturn 7\n}\ny := f(false)\n")
	out = append(out, "x := 0\nfor i := 0; i < 2; i++ {\nif i == 5 {\n"+body.String()+"}\n}\n")
	return out
}

// negativePrograms: statements the compiler must reject (return outside a function, break/continue outside a
// loop, tuple assignment, ':=' with a selector, export outside a module …) in every kind of enclosing block.
// Each program either fails to compile (the normal case) or compiles — then its functions must verify like any
// other: a guard that is slightly too weak shows up as ill-formed bytecode.
func negativePrograms() []string {
	stmts := []string{
		"return", "return 1", "return a", "break", "continue",
		"a = 1, 2", "a, b = 1, 2", "a, b := 1, 2", "a, b = b, a", "a = b, 1", "a += 1, 2", "c, d := 1",
		"a.x := 1", "a[0] := 1", "export 1", "export a",
		"x := x", "undefinedName = 1", "f()()", "1 = a", "a++ ++",
	}
	wrap := []func(string) string{
		func(x string) string { return x },
		func(x string) string { return "if true {\n" + x + "\n}" },
		func(x string) string { return "if false {\n} else {\n" + x + "\n}" },
		func(x string) string { return "for i := 0; i < 1; i++ {\n" + x + "\n}" },
		func(x string) string { return "for x in [1] {\n" + x + "\n}" },
		func(x string) string { return "for {\nif true {\n" + x + "\n}\nbreak\n}" },
		func(x string) string { return "f := func() {\n" + x + "\n}\nf()" },
		func(x string) string { return "f := func() {\nif true {\n" + x + "\n}\n}\nf()" },
		func(x string) string { return "for {\nf := func() {\n" + x + "\n}\nf()\nbreak\n}" },
		func(x string) string { return "f := func() {\nfor {\ng := func() {\n" + x + "\n}\ng()\nbreak\n}\n}\nf()" },
		func(x string) string { return "if true {\nif true {\n" + x + "\n}\n}" },
	}
	var out []string
	for _, st := range stmts {
		for _, w := range wrap {
			out = append(out, "a := 0\nb := 0\n"+w(st)+"\nz := a\n")
		}
	}
	return out
}

func main() {
	f := lib.ParseFlags()
	res = lib.NewResult("C02", f)
	var err error
	drv, err = lib.StartDriver(f.Driver)
	if err != nil {
		fatal(err)
	}
	defer drv.Close()
	res.DriverUsed = drv != nil
	res.Rule = "every function (main, literals, closures, module bodies; raw and de-duplicated) of generated programs, of the hand-written corpus and of the exhaustive statement skeletons; " +
		"non-trivial = function longer than 12 bytes (verify) / run of more than 20 dispatched instructions (heights); distinct by hash of the instruction bytes / source"
	if f.Replay != "" {
		replay(f.Replay)
		res.Write(f.Out)
		return
	}
	lib.RunProbes(res, "C02", f.Known)
	for _, src := range corpus {
		checkProgram(src, true)
	}
	for _, src := range boundaryPrograms() {
		res.Dist("boundary-programs")
		checkProgram(src, true)
	}
	for _, src := range negativePrograms() {
		res.Dist("negative-programs")
		checkProgram(src, false)
	}
	rng := lib.NewRNG(f.Seed)
	n := f.Scale(1200, 50000)
	for i := 0; i < n; i++ {
		r := rng.Fork()
		p := lib.DefaultProfile()
		p.Returns = 3 + r.Intn(6)
		p.MaxStmts = 8 + r.Intn(14)
		p.MaxDepth = 3 + r.Intn(2)
		g := lib.NewGen(r, p)
		src := g.Program()
		if r.Chance(1, 6) {
			src = "m := import(\"" + lib.Pick(r, []string{"m1", "m2", "m3"}) + "\")\n" + src
		}
		checkProgram(src, true)
		if i%40 == 0 {
			for k, v := range g.Feat {
				res.Distribution["feat:"+k] += v
			}
		}
	}
	cnt := 0
	skeletons(f.Scale(2, 3), false, false, func(b string) {
		cnt++
		checkProgram("a := 1; b := 0; x := 0; w := 0\n"+b+"\n", true)
	})
	res.Extra = map[string]interface{}{"skeleton_depth": f.Scale(2, 3), "skeletons": cnt}
	res.Write(f.Out)
}

func replay(path string) {
	b, err := os.ReadFile(path)
	if err != nil {
		fatal(err)
	}
	var rp struct {
		Violations []struct {
			Input replayInput `json:"input"`
		} `json:"violations"`
		Obligations []struct {
			Detail string `json:"detail"`
		} `json:"theorem_or_stream"`
	}
	if err := json.Unmarshal(b, &rp); err != nil {
		fatal(err)
	}
	for _, v := range rp.Violations {
		if v.Input.Source != "" {
			checkProgram(v.Input.Source, true)
		}
	}
	for _, o := range rp.Obligations {
		var d lib.Disagreement
		if json.Unmarshal([]byte(o.Detail), &d) == nil {
			if m, ok := d.Input.(map[string]interface{}); ok {
				if s, ok := m["source"].(string); ok && s != "" {
					checkProgram(s, true)
				}
			}
		}
	}
}

var corpus = []string{
	"a := 0\nfor a < 1 { a++; f := func() { return 1 }; a += f() }\n",
	"f := func(n) { for i := 0; i < n; i++ { g := func() { for { break }; return i }; if g() == 2 { return i } }; return -1 }\nx := f(5)\n",
	"x := 0\nfor i := 0; i < 4; i++ { if i == 1 { continue }; if i == 3 { break }; x += i && x || i }\n",
	"f := func(a, b, ...c) { return a ? b : c }\nx := f(1, 2)\ny := f(0, 1, 2, 3)\nz := f([1, 2, 3]...)\n",
	"m := import(\"m2\")\nx := m(1, 2, 3)\n",
	"m := import(\"m1\")\nx := m.f(5)\ny := m.k[1]\n",
	"f := func() { x := 1; g := func() { x += 1; h := func() { x += 2; return x }; return h() }; return g() }\ny := f()\n",
	"f := func(n, acc) { if n == 0 { return acc }; return f(n-1, acc+n) }\ny := f(100, 0)\n",
	"o := {a: {b: [1, 2, {c: 3}]}}\no.a.b[2].c += 4\no.a.b[0] = o.a.b[1] ? 7 : 8\nf := func() { p := {q: [0]}; p.q[0] = 5; return p }\nz := f()\n",
	"e := error(\"x\")\nv := immutable([1, 2])\nfor k, c in \"héy\" { e = c }\ns := [1, 2, 3][1:]\n",
	"f := func() { return; }\ng := func() { if true { return 1 } }\nx := f()\ny := g()\n",
}

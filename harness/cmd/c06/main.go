// Command c06: searchers and correspondence for C06 (configured resource limits are honoured by every
// program).
//
// Streams
//
//	budget   every program (lib.NewGen + one targeted program per allocation site of VM.run) is run unlimited
//	         with the probe (exact per-instruction allocation trace, A tracked allocations) and re-run under the
//	         budgets {0, 1, A-1, A, A+1, 2A, random, -1 (, MaxInt64, MinInt64)}.
//	         SEARCHERS: decrements <= N unless the error is ErrObjectAllocLimit; the limit error only when the
//	         budget is exhausted; never a completed run with N < A; success at N => success with identical
//	         globals at every larger and at unlimited budget.
//	         CORRESPONDENCE: outcome kind, dispatched instructions and allocations performed = Lean
//	         `runWithBudget` replaying the measured trace.
//	length   maxima {8, 16, 64, default}: targeted operations across each boundary (max-1, max, max+1), random
//	         string/bytes programs, lib.NewGen programs. SEARCHERS: no string/bytes reachable from the globals
//	         (arrays, maps and their KEYS, errors, captured variables) above the maximum; an operation whose
//	         result would not fit fails with errors.Is(ErrStringLimit/ErrBytesLimit). CORRESPONDENCE: the Lean
//	         guard functions on the same lengths (type_name and map keys made by converting a non-string index
//	         included: script boundaries and, stream guard-api, direct calls with texts of any length).
//	padding  format calls whose field padding is the last write of the call (left-justified fields, widths literal
//	         and through '*', flags '-' and '0', %x of an empty string, %.0d of 0) across each boundary, each on
//	         fresh printers, on printers whose buffers were grown by earlier legal format calls of the program,
//	         and on printers grown earlier in the process under a larger limit (formatter printers are pooled);
//	         plus random flag/width/precision/verb combinations. Same oracles as length; CORRESPONDENCE: `bufseq`.
//	wide     (wide.go) the boundary, length and padding streams with texts whose rune count is below their byte
//	         count (2-4 byte runes, unprintable runes, invalid bytes; operands, literal text of format strings,
//	         characters): every case under EVERY maximum between the rune count and the byte count of its result.
//	depth    recursion around MaxFrames (errors.Is(ErrStackOverflow) when frames run out; Lean frame machine on
//	         the measured call/return trace) and operand-stack exhaustion through RunContext (an error, never a
//	         crash, growth or hang).
package main

import (
	"context"
	"encoding/json"
	"errors"
	"fmt"
	"math"
	"os"
	"runtime"
	"sort"
	"strconv"
	"strings"
	"time"

	"github.com/d5/tengo/v2"
	"github.com/d5/tengo/v2/parser"
	"verifharness/lib"
)

type input struct {
	Kind     string `json:"kind"`
	Source   string `json:"source"`
	MaxStr   int    `json:"max_string_len,omitempty"`
	MaxBytes int    `json:"max_bytes_len,omitempty"`
	Budget   int64  `json:"budget,omitempty"`
	Note     string `json:"note,omitempty"`
}

var (
	res   *lib.Result
	drv   *lib.Driver
	flags *lib.Flags
)

func fatal(err error) {
	fmt.Fprintln(os.Stderr, "c06:", err)
	os.Exit(3)
}

func clip(s string, n int) string {
	if len(s) > n {
		return s[:n] + "…"
	}
	return s
}

func ask(line string) string {
	if drv == nil {
		return ""
	}
	ans, err := drv.Ask(line)
	if err != nil {
		fatal(err)
	}
	res.ModelLines++
	return ans
}

// ---- running ----

type vmRun struct {
	err      error
	panicv   string
	timedOut bool
	steps    int
	final    int64   // allocs field after the run
	trace    []int64 // allocs field at each dispatched instruction (when wanted)
	ops      []byte  // opcode of each dispatched instruction (when wanted)
	fis      []int   // framesIndex at each dispatched instruction (when wanted)
	maxFI    int
	globals  []tengo.Object
	names    map[string]int
}

func (r *vmRun) canon() string {
	ns := make([]string, 0, len(r.names))
	for n := range r.names {
		ns = append(ns, n)
	}
	sort.Strings(ns)
	var sb strings.Builder
	for _, n := range ns {
		if o := r.globals[r.names[n]]; o != nil {
			sb.WriteString(n + "=" + lib.Canon(o) + " ")
		}
	}
	return sb.String()
}

func (r *vmRun) failed() bool { return r.err != nil || r.panicv != "" }

func (r *vmRun) errText() string {
	if r.panicv != "" {
		return "panic: " + r.panicv
	}
	if r.err != nil {
		return r.err.Error()
	}
	return ""
}

const maxTrace = 400000

// primeLen > 0: the goroutine that runs the VM first leaves pooled formatter printers (formatter.go: ppFree,
// a sync.Pool) whose buffers have at least this capacity, as earlier format calls of the same process do.
// Buffer capacity is not observable on a correct tree; a length guard that is only applied when the buffer
// has to grow is invisible on fresh printers, and which printer a format call gets otherwise depends on the
// garbage collector (the pool is emptied by it) and on the scheduler (the pool is per P).
var primeLen int

// primer formats itself through a nested Format call, so that `depth`+1 printers are held at the same time
// and all go back to the pool with grown buffers (the first one to the P's private slot, the others to its
// shared list, where other Ps can steal them).
type primer struct {
	tengo.ObjectImpl
	depth, n int
}

func (p *primer) TypeName() string { return "primer" }
func (p *primer) String() string {
	if p.depth == 0 {
		return strings.Repeat("p", p.n)
	}
	s, _ := tengo.Format("%v", &primer{depth: p.depth - 1, n: p.n})
	return s
}

func primePool(n int) {
	s := tengo.MaxStringLen
	tengo.MaxStringLen = math.MaxInt32
	defer func() { tengo.MaxStringLen = s }()
	for i := 0; i < 2; i++ {
		_, _ = tengo.Format("%v", &primer{depth: 3, n: n})
	}
}

func runVM(c *lib.Compiled, maxAllocs int64, wantTrace, wantFrames bool, timeout time.Duration) *vmRun {
	r := &vmRun{names: map[string]int{}}
	r.globals = make([]tengo.Object, tengo.GlobalsSize)
	for _, name := range c.Symbols.Names() {
		sym, _, ok := c.Symbols.Resolve(name, false)
		if ok && sym.Scope == tengo.ScopeGlobal {
			r.names[name] = sym.Index
		}
	}
	vm := tengo.NewVM(c.BC, r.globals, maxAllocs)
	tengo.VerifProbe = func(v *tengo.VM, fn *tengo.CompiledFunction, ip, sp, bp, fi int, allocs int64) {
		if v != vm {
			return
		}
		r.steps++
		if fi > r.maxFI {
			r.maxFI = fi
		}
		if wantTrace && len(r.trace) < maxTrace {
			r.trace = append(r.trace, allocs)
			op := byte(255)
			if ip < len(fn.Instructions) {
				op = fn.Instructions[ip]
			}
			r.ops = append(r.ops, op)
		}
		if wantFrames && len(r.fis) < maxTrace {
			r.fis = append(r.fis, fi)
		}
	}
	defer func() { tengo.VerifProbe = nil }()
	done := make(chan struct{})
	go func() {
		defer close(done)
		defer func() {
			if p := recover(); p != nil {
				r.panicv = fmt.Sprint(p)
			}
		}()
		if primeLen > 0 {
			primePool(primeLen)
		}
		r.err = vm.Run()
	}()
	select {
	case <-done:
	case <-time.After(timeout):
		vm.Abort()
		<-done
		r.timedOut = true
	}
	_, _, r.final = vm.VerifState()
	return r
}

func compile(src string) (*lib.Compiled, error) {
	return lib.CompileSource([]byte(src), lib.CompileOpts{})
}

// ---- budget stream ----

func kindOf(r *vmRun) string {
	switch {
	case r.panicv != "":
		return "fail"
	case r.err == nil:
		return "ok"
	case errors.Is(r.err, tengo.ErrObjectAllocLimit):
		return "alloclimit"
	}
	return "fail"
}

var siteSeen = map[string]int{}

var siteNames = map[byte]string{parser.OpBinaryOp: "BINARYOP", parser.OpBComplement: "BCOMPLEMENT", parser.OpMinus: "MINUS", parser.OpArray: "ARR",
	parser.OpMap: "MAP", parser.OpError: "ERROR", parser.OpImmutable: "IMMUT", parser.OpSliceIndex: "SLICE", parser.OpCall: "CALL",
	parser.OpClosure: "CLOSURE", parser.OpIteratorInit: "ITER"}

func siteName(op byte) string {
	if n, ok := siteNames[op]; ok {
		return n
	}
	return fmt.Sprintf("UNEXPECTED-OPCODE-%d", op)
}

// checkBudgets runs the budget stream on one program. expectA < 0: unknown.
func checkBudgets(src, label string, expectA int, allBudgets bool, r *lib.RNG) {
	c, err := compile(src)
	if err != nil {
		res.Dist("budget:compile-error")
		return
	}
	free := runVM(c, -1, true, false, 5*time.Second)
	if free.timedOut || len(free.trace) >= maxTrace {
		res.Dist("budget:timeout-or-too-long")
		res.Skipped++
		return
	}
	again := runVM(c, -1, false, false, 5*time.Second)
	if again.canon() != free.canon() || again.errText() != free.errText() || again.steps != free.steps || again.final != free.final {
		res.Dist("budget:map-order-dependent-skipped")
		res.Skipped++
		return
	}
	in := func(n int64) input { return input{Kind: "budget", Source: src, Budget: n, Note: label} }
	if kindOf(free) == "alloclimit" {
		res.Violate(lib.Violation{Signature: "alloc-limit-error-under-unlimited-budget", Stream: "budget", Input: in(-1),
			Observed: fmt.Sprintf("budget -1: allocation-limit error after %d decrements of the counter; %s", -free.final, clip(free.errText(), 120)),
			Expected: "no allocation-limit error with a negative budget", Oracle: "errors.Is(err, ErrObjectAllocLimit)"})
		return
	}
	A := -free.final // the counter starts at maxAllocs+1 = 0
	// per-instruction decrements
	var gaps []string
	cur := 0
	bad := ""
	for j := 0; j < len(free.trace); j++ {
		next := free.final
		if j+1 < len(free.trace) {
			next = free.trace[j+1]
		}
		d := free.trace[j] - next
		if d < 0 || d > 1 {
			bad = fmt.Sprintf("instruction %d (opcode %d) changes the counter by %d", j, free.ops[j], -d)
		}
		last := j == len(free.trace)-1
		if d == 1 {
			siteSeen[siteName(free.ops[j])]++
			if last {
				bad = "the last dispatched instruction allocates"
			}
			gaps = append(gaps, lib.N(cur))
			cur = 0
		} else if !last {
			cur++
		}
	}
	if bad != "" {
		// the counter does not move the way the model says; the model-independent budget oracles below still apply
		// (at most N decrements, monotonicity), so the sweep goes on
		res.Disagree(lib.Disagreement{Stream: "budget", Input: in(-1), Model: "every instruction performs 0 or 1 tracked allocations", Impl: bad})
		allBudgets = allBudgets || A <= 64
	}
	if expectA >= 0 && int64(expectA) != A {
		res.Disagree(lib.Disagreement{Stream: "budget", Input: in(-1), Model: fmt.Sprintf("%d tracked allocations (site table)", expectA), Impl: fmt.Sprintf("%d", A)})
	}
	end := "h"
	if free.failed() {
		end = "f"
	}
	res.Count("budget", src, A >= 2 && free.steps > 10)
	res.Dist("budget:free-" + kindOf(free))
	// the whole-VM model (Tengo.Model.VM, theorems vm_*): lock step under no budget, the exact budget, one less, half
	vmBudgets := []int64{-1, A}
	if A >= 1 {
		vmBudgets = append(vmBudgets, A-1, A/2)
	}
	if err := lib.VMStream(res, drv, c, src, nil, vmBudgets, func(b int64) interface{} { return in(b) }); err != nil {
		fatal(err)
	}

	set := map[int64]bool{0: true, 1: true, A: true, A + 1: true, 2 * A: true, -1: true}
	if A >= 1 {
		set[A-1] = true
		set[A/2] = true
		set[int64(r.Intn(int(A)+1))] = true
	}
	if allBudgets {
		for n := int64(0); n <= A+2; n++ {
			set[n] = true
		}
	}
	if r.Chance(1, 16) {
		set[math.MaxInt64] = true
		set[math.MinInt64] = true
		set[-2] = true
	}
	var budgets []int64
	for n := range set {
		budgets = append(budgets, n)
	}
	// ascending, negative (unlimited) budgets last
	sort.Slice(budgets, func(i, j int) bool {
		a, b := budgets[i], budgets[j]
		if (a < 0) != (b < 0) {
			return b < 0
		}
		return a < b
	})
	okAt, okCanon := int64(-1), ""
	haveOK := false
	for _, n := range budgets {
		run := runVM(c, n, false, false, 5*time.Second)
		if run.timedOut {
			res.Dist("budget:timeout")
			continue
		}
		kind := kindOf(run)
		res.Dist("budget:run-" + kind)
		dec := uint64(n+1) - uint64(run.final) // decrements performed (wrapping int64 arithmetic)
		performed := dec
		if kind == "alloclimit" {
			performed = dec - 1
		}
		obs := fmt.Sprintf("budget %d: %s, %d decrements of the counter, %d instructions; %s", n, kind, dec, run.steps, clip(run.errText(), 120))
		switch {
		case kind != "alloclimit" && n >= 0 && dec > uint64(n):
			res.Violate(lib.Violation{Signature: "allocations-exceed-budget", Stream: "budget", Input: in(n), Observed: obs,
				Expected: "at most N tracked allocations, or the allocation-limit error", Oracle: "allocs counter before/after the run (probe accessor), errors.Is(err, ErrObjectAllocLimit)"})
		case kind == "alloclimit" && n < 0 && dec < 1<<63:
			res.Violate(lib.Violation{Signature: "alloc-limit-error-under-unlimited-budget", Stream: "budget", Input: in(n), Observed: obs,
				Expected: "no allocation-limit error with a negative budget", Oracle: "errors.Is(err, ErrObjectAllocLimit)"})
		case kind == "alloclimit" && n >= 0 && dec <= uint64(n):
			res.Violate(lib.Violation{Signature: "alloc-limit-error-within-budget", Stream: "budget", Input: in(n), Observed: obs,
				Expected: "the allocation-limit error only when allocation N+1 is attempted", Oracle: "allocs counter before/after the run"})
		case n >= 0 && n < A && kind != "alloclimit":
			res.Violate(lib.Violation{Signature: "run-completes-below-its-allocation-count", Stream: "budget", Input: in(n), Observed: obs,
				Expected: fmt.Sprintf("allocation-limit error (the unlimited run performs %d tracked allocations)", A), Oracle: "unlimited run measured through the probe"})
		}
		if haveOK && (kind != "ok" || run.canon() != okCanon) {
			res.Violate(lib.Violation{Signature: "larger-budget-changes-result", Stream: "budget", Input: in(n),
				Observed: obs + " globals " + clip(run.canon(), 300),
				Expected: fmt.Sprintf("success with the globals of budget %d: %s", okAt, clip(okCanon, 300)),
				Oracle:   "same program under two budgets"})
		}
		if !haveOK && kind == "ok" {
			haveOK, okAt, okCanon = true, n, run.canon()
		}
		if drv != nil {
			line := lib.L("budget", "("+strings.Join(gaps, " ")+")", lib.N(cur), end, lib.I(n))
			want := ask(line)
			got := fmt.Sprintf("%s %d %d", kind, run.steps, performed)
			if want != got {
				res.Disagree(lib.Disagreement{Stream: "budget", Input: in(n), Model: want, Impl: got})
			}
		}
	}
	res.Sample(map[string]interface{}{"stream": "budget", "label": label, "source": clip(src, 400), "allocations": A, "instructions": free.steps, "budgets": len(budgets)}, 3)
}

type sitePrg struct {
	label, src string
	allocs     int
	site       string // opcode that must allocate ("" = none)
}

var sitePrograms = []sitePrg{
	{"binop", "a := 1\nb := a + 2\nc := b * 3\n", 2, "BINARYOP"},
	{"strcat", "a := \"x\" + \"y\"\n", 1, "BINARYOP"},
	{"bcomplement-int", "a := 5\nb := ^a\n", 1, "BCOMPLEMENT"},
	{"minus-int", "a := 5\nb := -a\n", 1, "MINUS"},
	{"minus-float", "a := 1.5\nb := -a\n", 1, "MINUS"},
	{"array", "a := [1, 2]\nb := [a, a]\n", 2, "ARR"},
	{"map", "a := {x: 1}\nb := {y: a}\n", 2, "MAP"},
	{"error", "a := error(1)\n", 1, "ERROR"},
	{"immutable-array", "a := immutable([1])\n", 2, "IMMUT"},
	{"immutable-map", "a := immutable({x: 1})\n", 2, "IMMUT"},
	{"immutable-scalar", "a := immutable(5)\n", 0, ""},
	{"slice-array", "a := [1, 2, 3]\nb := a[1:]\n", 2, "SLICE"},
	{"slice-immutable-array", "a := immutable([1, 2, 3])\nb := a[:2]\n", 3, "SLICE"},
	{"slice-string", "a := \"hello\"\nb := a[1:3]\n", 1, "SLICE"},
	{"slice-bytes", "a := bytes(\"hello\")\nb := a[1:3]\n", 2, "SLICE"},
	{"call-builtin", "a := len(\"abc\")\nb := is_int(a)\n", 2, "CALL"},
	{"call-compiled", "f := func(x) { return x }\na := f(1)\n", 0, ""},
	{"call-varargs", "f := func(...a) { return a }\nx := f(1, 2)\n", 0, ""},
	{"closure", "f := func() { x := 1; return func() { return x } }\ng := f()\nh := f()\n", 2, "CLOSURE"},
	{"iterator-array", "s := 0\nfor v in [1, 2] { s = v }\n", 2, "ITER"},
	{"iterator-map", "s := 0\nfor k, v in {a: 1} { s = v }\n", 2, "ITER"},
	{"iterator-string", "s := 0\nfor c in \"ab\" { s = c }\n", 1, "ITER"},
	{"index-no-alloc", "a := [1, 2]\nb := a[0]\nc := {k: 1}.k\n", 2, ""},
	{"loop-mixed", "s := \"\"\nfor i := 0; i < 4; i++ { s += string(i); a := [s]; e := error(a) }\n", 5 + 4*5, ""},
	{"error-run", "a := [1, 2]\nb := -a\n", 1, ""},
}

// ---- length stream ----

type cfg struct{ maxStr, maxBytes int }

func withLimits(c cfg, f func()) {
	s, b := tengo.MaxStringLen, tengo.MaxBytesLen
	tengo.MaxStringLen, tengo.MaxBytesLen = c.maxStr, c.maxBytes
	defer func() { tengo.MaxStringLen, tengo.MaxBytesLen = s, b }()
	f()
}

type overlong struct {
	path string
	what string
	n    int
}

func walkValues(o tengo.Object, path string, seen map[tengo.Object]bool, c cfg, out *[]overlong) {
	if o == nil || len(*out) > 4 {
		return
	}
	switch v := o.(type) {
	case *tengo.String:
		if len(v.Value) > c.maxStr {
			*out = append(*out, overlong{path, "string", len(v.Value)})
		}
		return
	case *tengo.Bytes:
		if len(v.Value) > c.maxBytes {
			*out = append(*out, overlong{path, "bytes", len(v.Value)})
		}
		return
	}
	if seen[o] {
		return
	}
	seen[o] = true
	keys := func(m map[string]tengo.Object) {
		ks := make([]string, 0, len(m))
		for k := range m {
			ks = append(ks, k)
		}
		sort.Strings(ks)
		for _, k := range ks {
			if len(k) > c.maxStr {
				*out = append(*out, overlong{path + ".<key>", "map key", len(k)})
			}
			walkValues(m[k], path+"."+clip(k, 12), seen, c, out)
		}
	}
	switch v := o.(type) {
	case *tengo.Array:
		for i, x := range v.Value {
			walkValues(x, fmt.Sprintf("%s[%d]", path, i), seen, c, out)
		}
	case *tengo.ImmutableArray:
		for i, x := range v.Value {
			walkValues(x, fmt.Sprintf("%s[%d]", path, i), seen, c, out)
		}
	case *tengo.Map:
		keys(v.Value)
	case *tengo.ImmutableMap:
		keys(v.Value)
	case *tengo.Error:
		walkValues(v.Value, path+".value", seen, c, out)
	case *tengo.ObjectPtr:
		if v.Value != nil {
			walkValues(*v.Value, path+".*", seen, c, out)
		}
	case *tengo.CompiledFunction:
		for i, f := range v.Free {
			if f != nil && f.Value != nil {
				walkValues(*f.Value, fmt.Sprintf("%s.free[%d]", path, i), seen, c, out)
			}
		}
	}
}

// isLimitErr reports the identity of a compile or run error.
func isLimitErr(err error) string {
	var ce *tengo.CompilerError
	if errors.As(err, &ce) && ce.Err != nil {
		err = ce.Err
	}
	switch {
	case errors.Is(err, tengo.ErrStringLimit):
		return "stringlimit"
	case errors.Is(err, tengo.ErrBytesLimit):
		return "byteslimit"
	}
	return ""
}

// primedNote is appended to the note of every input that ran with primeLen > 0 (replay reads it back).
const primedNote = "; pooled printer buffers of capacity >= 1024 left by earlier format calls under a larger MaxStringLen"
const grownNote = "; printer buffers grown by the two earlier format calls of the program"

// strSig replaces the signature of over-long strings (the targeted padding cases name the operation).
var strSig string

type lenOutcome struct {
	compileErr error
	run        *vmRun
}

// runLen compiles and runs src under the limits and applies the reachable-values oracle.
func runLen(src string, c cfg, stream, note string) (out lenOutcome) {
	if primeLen > 0 {
		note += primedNote
	}
	withLimits(c, func() {
		cp, err := compile(src)
		if err != nil {
			out.compileErr = err
			if strings.HasPrefix(err.Error(), "PANIC") {
				res.Violate(lib.Violation{Signature: "compiler-panic-under-limits", Stream: stream, Input: input{Kind: "length", Source: src, MaxStr: c.maxStr, MaxBytes: c.maxBytes},
					Observed: clip(err.Error(), 200), Expected: "result or error", Oracle: "recover around Compile"})
			}
			return
		}
		out.run = runVM(cp, -1, false, false, 5*time.Second)
		if out.run.timedOut {
			return
		}
		var over []overlong
		seen := map[tengo.Object]bool{}
		ns := make([]string, 0, len(out.run.names))
		for n := range out.run.names {
			ns = append(ns, n)
		}
		sort.Strings(ns)
		for _, n := range ns {
			walkValues(out.run.globals[out.run.names[n]], n, seen, c, &over)
		}
		for _, ov := range over {
			sig, lim := "string-exceeds-max-string-len", c.maxStr
			if strSig != "" {
				sig = strSig
			}
			if ov.what == "bytes" {
				sig, lim = "bytes-exceed-max-bytes-len", c.maxBytes
			}
			res.Violate(lib.Violation{Signature: sig, Stream: stream, Input: input{Kind: "length", Source: src, MaxStr: c.maxStr, MaxBytes: c.maxBytes, Note: note},
				Observed: fmt.Sprintf("%s of %d bytes at %s", ov.what, ov.n, ov.path), Expected: fmt.Sprintf("at most %d bytes, or the limit error", lim),
				Oracle: "walk of every value reachable from the globals (arrays, maps and their keys, errors, captured variables)"})
		}
		// identity of limit errors recognised by their text
		if out.run.err != nil {
			t := out.run.err.Error()
			id := isLimitErr(out.run.err)
			if (strings.Contains(t, "exceeding string size limit") && id != "stringlimit") || (strings.Contains(t, "exceeding bytes size limit") && id != "byteslimit") {
				res.Violate(lib.Violation{Signature: "limit-error-identity-lost", Stream: stream, Input: input{Kind: "length", Source: src, MaxStr: c.maxStr, MaxBytes: c.maxBytes},
					Observed: clip(t, 160), Expected: "errors.Is(err, ErrStringLimit / ErrBytesLimit)", Oracle: "errors.Is"})
			}
		}
	})
	return out
}

func lit(n int) string {
	const al = "abcdefghijklmnopqrstuvwxyz0123456789"
	var sb strings.Builder
	for i := 0; i < n; i++ {
		sb.WriteByte(al[i%len(al)])
	}
	return strconv.Quote(sb.String())
}

type boundaryOp struct {
	name  string
	limit string // "str" | "bytes": which maximum the result is measured against
	// build returns the source producing x with would-be length T (ok=false: not expressible), and the model line args
	build func(T int, c cfg) (src string, guard string, ok bool)
	cfgOf func(L int) cfg
}

func same(L int) cfg      { return cfg{L, L} }
func bytesOnly(L int) cfg { return cfg{4*L + 16, L} }

func digits(n int) string { // an n-digit integer literal
	return "1" + strings.Repeat("0", n-1)
}

// arrayOfTextLen: an array literal of integers whose text ("[1, 1, 1]") is n bytes long (n >= 3)
func arrayOfTextLen(n int) string {
	if n < 3 {
		return "[]"
	}
	k, r := n/3, n%3
	el := make([]string, k)
	for i := range el {
		el[i] = "1"
	}
	el[0] = digits(1 + r)
	return "[" + strings.Join(el, ", ") + "]"
}

var boundaryOps = []boundaryOp{
	{"string+string", "str", func(T int, c cfg) (string, string, bool) {
		a := T / 2
		return "x := " + lit(a) + " + " + lit(T-a) + "\n", fmt.Sprintf("(guard stradd %d %d %d)", c.maxStr, a, T-a), true
	}, same},
	{"string+int", "str", func(T int, c cfg) (string, string, bool) {
		return "x := " + lit(T-3) + " + 123\n", fmt.Sprintf("(guard stradd %d %d 3)", c.maxStr, T-3), T >= 3
	}, same},
	{"string+undefined", "str", func(T int, c cfg) (string, string, bool) {
		return "x := " + lit(T-11) + " + undefined\n", fmt.Sprintf("(guard stradd %d %d 11)", c.maxStr, T-11), T >= 11
	}, same},
	{"string+array", "str", func(T int, c cfg) (string, string, bool) {
		return "x := " + lit(T-6) + " + [1, 2]\n", fmt.Sprintf("(guard stradd %d %d 6)", c.maxStr, T-6), T >= 6
	}, same},
	{"string+bool", "str", func(T int, c cfg) (string, string, bool) {
		return "x := " + lit(T-4) + " + true\n", fmt.Sprintf("(guard stradd %d %d 4)", c.maxStr, T-4), T >= 4
	}, same},
	{"string+=loop", "str", func(T int, c cfg) (string, string, bool) {
		return fmt.Sprintf("x := \"\"\nfor i := 0; i < %d; i++ { x += \"a\" }\n", T), fmt.Sprintf("(guard stradd %d %d 1)", c.maxStr, T-1), T >= 1
	}, same},
	{"repeat-func", "str", func(T int, c cfg) (string, string, bool) {
		return fmt.Sprintf("rep := func(s, n) { r := \"\"; for i := 0; i < n; i++ { r += s }; return r }\nx := rep(\"ab\", %d)\n", T/2), fmt.Sprintf("(guard stradd %d %d 2)", c.maxStr, T-2), T%2 == 0 && T >= 2
	}, same},
	{"string(int)", "str", func(T int, c cfg) (string, string, bool) {
		return "x := string(" + digits(T) + ")\n", fmt.Sprintf("(guard string %d %d)", c.maxStr, T), T >= 1 && T <= 18
	}, same},
	{"string(error)", "str", func(T int, c cfg) (string, string, bool) {
		return "x := string(error(" + lit(T-9) + "))\n", fmt.Sprintf("(guard string %d %d)", c.maxStr, T), T >= 9
	}, same},
	{"string(bytes)", "str", func(T int, c cfg) (string, string, bool) {
		return fmt.Sprintf("x := string(bytes(%d))\n", T), fmt.Sprintf("(guard string %d %d)", c.maxStr, T), true
	}, func(L int) cfg { return cfg{L, 4*L + 16} }},
	{"format(%s)", "str", func(T int, c cfg) (string, string, bool) {
		return "x := format(\"%s|\", " + lit(T-1) + ")\n", fmt.Sprintf("(bufseq %d (w %d) (w 1))", c.maxStr, T-1), T >= 1
	}, same},
	{"format(%s%s)", "str", func(T int, c cfg) (string, string, bool) {
		a := T / 2
		return "x := format(\"%s%s\", " + lit(a) + ", " + lit(T-a) + ")\n", fmt.Sprintf("(bufseq %d (w %d) (w %d))", c.maxStr, a, T-a), true
	}, same},
	{"format(%v)", "str", func(T int, c cfg) (string, string, bool) {
		return "x := format(\"%v\", " + lit(T-2) + ")\n", fmt.Sprintf("(bufseq %d (w %d))", c.maxStr, T), T >= 2
	}, same},
	{"format(%Nd)", "str", func(T int, c cfg) (string, string, bool) {
		return fmt.Sprintf("x := format(\"%%%dd\", 7)\n", T), fmt.Sprintf("(bufseq %d (p %d) (w 1))", c.maxStr, T-1), T >= 2
	}, same},
	{"format(%-Ns)", "str", func(T int, c cfg) (string, string, bool) {
		return fmt.Sprintf("x := format(\"%%-%ds\", \"ab\")\n", T), fmt.Sprintf("(bufseq %d (w 2) (p %d))", c.maxStr, T-2), T >= 3
	}, same},
	{"format(%x)", "str", func(T int, c cfg) (string, string, bool) {
		return "x := format(\"%x\", " + lit(T/2) + ")\n", fmt.Sprintf("(bufseq %d (x %d))", c.maxStr, T), T%2 == 0 && T >= 2
	}, same},
	{"format(%X bytes)", "str", func(T int, c cfg) (string, string, bool) {
		return fmt.Sprintf("x := format(\"%%X\", bytes(%d))\n", T/2), fmt.Sprintf("(bufseq %d (x %d))", c.maxStr, T), T%2 == 0 && T >= 2
	}, same},
	{"format(%q)", "str", func(T int, c cfg) (string, string, bool) {
		return "x := format(\"%q\", " + lit(T-2) + ")\n", fmt.Sprintf("(bufseq %d (w %d))", c.maxStr, T), T >= 2
	}, same},
	{"format(%08d…)", "str", func(T int, c cfg) (string, string, bool) {
		return fmt.Sprintf("x := format(\"%%0%dd\", -5)\n", T), fmt.Sprintf("(bufseq %d (w %d))", c.maxStr, T), T >= 3
	}, same},
	{"literal", "str", func(T int, c cfg) (string, string, bool) {
		return "x := " + lit(T) + "\n", fmt.Sprintf("(guard lit %d %d)", c.maxStr, T), true
	}, same},
	{"map-literal-key", "str", func(T int, c cfg) (string, string, bool) {
		return "x := {" + strings.Repeat("k", T) + ": 1}\n", fmt.Sprintf("(guard lit %d %d)", c.maxStr, T), T >= 1
	}, same},
	{"selector-key", "str", func(T int, c cfg) (string, string, bool) {
		return "x := {}\nx." + strings.Repeat("k", T) + " = 1\n", fmt.Sprintf("(guard lit %d %d)", c.maxStr, T), T >= 1
	}, same},
	// Map.IndexSet: the key is the text of the index; a key made by converting a non-string index is guarded
	{"map[int]=", "str", func(T int, c cfg) (string, string, bool) {
		if T < 1 || T > 18 {
			return "", "", false
		}
		return "x := {}\nx[" + digits(T) + "] = 1\n", fmt.Sprintf("(guard mapkey %d 0 %d)", c.maxStr, T), true
	}, same},
	{"map[array]=", "str", func(T int, c cfg) (string, string, bool) {
		return "x := {}\nx[" + arrayOfTextLen(T) + "] = 1\n", fmt.Sprintf("(guard mapkey %d 0 %d)", c.maxStr, T), T >= 3
	}, same},
	{"map[error]=", "str", func(T int, c cfg) (string, string, bool) {
		if T < 8 || T > 25 {
			return "", "", false
		}
		return "x := {}\nx[error(" + digits(T-7) + ")] = 1\n", fmt.Sprintf("(guard mapkey %d 0 %d)", c.maxStr, T), true
	}, same},
	{"map[bytes]=", "str", func(T int, c cfg) (string, string, bool) {
		return fmt.Sprintf("x := {}\nx[bytes(%d)] = 1\n", T), fmt.Sprintf("(guard mapkey %d 0 %d)", c.maxStr, T), T >= 1
	}, func(L int) cfg { return cfg{L, 4*L + 16} }},
	{"map[string]=", "str", func(T int, c cfg) (string, string, bool) {
		// a string index is stored as it is; one above the maximum cannot be made: the literal already fails
		g := fmt.Sprintf("(guard mapkey %d 1 %d)", c.maxStr, T)
		if T > c.maxStr {
			g = fmt.Sprintf("(guard lit %d %d)", c.maxStr, T)
		}
		return "x := {}\nx[" + lit(T) + "] = 1\n", g, T >= 1
	}, same},
	{"map[key of another map]=", "str", func(T int, c cfg) (string, string, bool) {
		// keys read back by iteration are strings: stored again as they are
		return "y := {}\ny[" + arrayOfTextLen(T) + "] = 1\nx := {}\nfor k, v in y { x[k] = v }\n", fmt.Sprintf("(guard mapkey %d 0 %d)", c.maxStr, T), T >= 3
	}, same},
	{"bytes(string)", "bytes", func(T int, c cfg) (string, string, bool) {
		return "x := bytes(" + lit(T) + ")\n", fmt.Sprintf("(guard bytes %d %d)", c.maxBytes, T), true
	}, bytesOnly},
	{"bytes(n)", "bytes", func(T int, c cfg) (string, string, bool) {
		return fmt.Sprintf("x := bytes(%d)\n", T), fmt.Sprintf("(guard bytesn %d %d)", c.maxBytes, T), true
	}, same},
	{"bytes+bytes", "bytes", func(T int, c cfg) (string, string, bool) {
		a := T / 2
		return fmt.Sprintf("x := bytes(%d) + bytes(%d)\n", a, T-a), fmt.Sprintf("(guard bytesadd %d %d %d)", c.maxBytes, a, T-a), true
	}, same},
	{"bytes+=loop", "bytes", func(T int, c cfg) (string, string, bool) {
		return fmt.Sprintf("x := bytes(0)\nfor i := 0; i < %d; i++ { x += bytes(\"a\") }\n", T), fmt.Sprintf("(guard bytesadd %d %d 1)", c.maxBytes, T-1), T >= 1
	}, same},
}

func lengthOfX(r *vmRun) int {
	i, ok := r.names["x"]
	if !ok || r.globals[i] == nil {
		return -1
	}
	switch v := r.globals[i].(type) {
	case *tengo.String:
		return len(v.Value)
	case *tengo.Bytes:
		return len(v.Value)
	case *tengo.Map:
		for k := range v.Value {
			return len(k)
		}
	}
	return -1
}

// boundaryCase runs one boundary operation with would-be length T and compares its outcome with the model.
func boundaryCase(name, limit, src, guard string, c cfg, T int) {
	in := input{Kind: "boundary", Source: src, MaxStr: c.maxStr, MaxBytes: c.maxBytes, Note: fmt.Sprintf("%s, would-be length %d", name, T)}
	o := runLen(src, c, "boundary", name)
	res.Count("boundary", fmt.Sprint(name, c.maxStr, c.maxBytes, T), true)
	lim, want := c.maxStr, "stringlimit"
	if limit == "bytes" {
		lim, want = c.maxBytes, "byteslimit"
	}
	var got string
	switch {
	case o.compileErr != nil:
		got = "err " + isLimitErr(o.compileErr)
	case o.run.timedOut:
		return
	case o.run.failed():
		got = "err " + isLimitErr(o.run.err)
	default:
		got = "ok " + lib.N(lengthOfX(o.run))
	}
	res.Dist("boundary:" + strings.Fields(got)[0])
	if T > lim && got != "err "+want && strings.HasPrefix(got, "err") {
		e := ""
		if o.compileErr != nil {
			e = o.compileErr.Error()
		} else {
			e = o.run.errText()
		}
		res.Violate(lib.Violation{Signature: "limit-failure-not-limit-error", Stream: "boundary", Input: in, Observed: clip(e, 200),
			Expected: "the operation fails with the limit error (errors.Is " + want + ")", Oracle: "errors.Is / CompilerError.Err"})
	}
	if drv != nil {
		m := ask(guard)
		if m != got {
			res.Disagree(lib.Disagreement{Stream: "boundary", Input: in, Model: m, Impl: got})
		}
	}
}

func boundaryStream() {
	for _, L := range []int{8, 16, 64} {
		for _, op := range boundaryOps {
			c := op.cfgOf(L)
			for _, T := range []int{L - 1, L, L + 1, L + 2, L + 7} {
				src, guard, ok := op.build(T, c)
				if !ok {
					continue
				}
				boundaryCase(op.name, op.limit, src, guard, c, T)
			}
		}
	}
	typeNameBoundary()
	guardAPI()
}

// typeNameBoundary: type_name returns one of a fixed set of names, so the maximum is moved across the length of
// each name (max = len-2 … len+2, and 8/16/64) instead of the length across the maximum.
func typeNameBoundary() {
	for _, t := range []struct{ expr, name string }{
		{"1", "int"}, {"{}", "map"}, {"true", "bool"}, {"'c'", "char"}, {"2.5", "float"}, {"[]", "array"}, {"bytes(0)", "bytes"},
		{"error(1)", "error"}, {"string(1)", "string"}, {"undefined", "undefined"}, {"immutable({})", "immutable-map"},
		{"immutable([])", "immutable-array"}, {"func() {}", "compiled-function"}, {"len", "builtin-function:len"},
		{"copy", "builtin-function:copy"}, {"range", "builtin-function:range"}, {"format", "builtin-function:format"},
		{"is_bool", "builtin-function:is_bool"}, {"is_bytes", "builtin-function:is_bytes"}, {"type_name", "builtin-function:type_name"},
		{"is_iterable", "builtin-function:is_iterable"}, {"is_undefined", "builtin-function:is_undefined"},
		{"is_immutable_array", "builtin-function:is_immutable_array"},
	} {
		n := len(t.name)
		src := "x := type_name(" + t.expr + ")\n"
		done := map[int]bool{}
		for _, L := range []int{n - 2, n - 1, n, n + 1, n + 2, 8, 16, 64} {
			if L < 1 || done[L] {
				continue
			}
			done[L] = true
			boundaryCase("type_name("+t.expr+")", "str", src, fmt.Sprintf("(guard typename %d %d)", L, n), same(L), n)
		}
	}
}

// textObj is a value of an embedding program: its type name and its text are the given string.
type textObj struct {
	tengo.ObjectImpl
	text string
}

func (o *textObj) TypeName() string { return o.text }
func (o *textObj) String() string   { return o.text }

// guardAPI calls the two guarded producers directly with lengths that scripts cannot reach: type_name on a value
// whose type name has any length, Map.IndexSet with a non-string index of any text length and with a string
// index above the maximum (stored as it is: the guard is for keys made by conversion). Model comparison only.
func guardAPI() {
	var typeName *tengo.BuiltinFunction
	for _, b := range tengo.GetAllBuiltinFunctions() {
		if b.Name == "type_name" {
			typeName = b
		}
	}
	show := func(n int, err error) string {
		if err != nil {
			return "err " + isLimitErr(err)
		}
		return "ok " + lib.N(n)
	}
	for _, L := range []int{8, 16, 64} {
		for _, T := range []int{0, L - 1, L, L + 1, L + 2, L + 7, 4 * L} {
			text := strings.Repeat("k", T)
			withLimits(same(L), func() {
				cmp := func(what, guard, got string) {
					res.Count("guard-api", fmt.Sprint(what, L, T), true)
					if drv == nil {
						return
					}
					if m := ask(guard); m != got {
						res.Disagree(lib.Disagreement{Stream: "guard-api", Input: input{Kind: "guard-api", Source: what, MaxStr: L, MaxBytes: L, Note: fmt.Sprintf("text of %d bytes", T)}, Model: m, Impl: got})
					}
				}
				if typeName != nil {
					v, err := typeName.Value(&textObj{text: text})
					n := -1
					if s, ok := v.(*tengo.String); ok {
						n = len(s.Value)
					}
					cmp("type_name(value whose type name has T bytes)", fmt.Sprintf("(guard typename %d %d)", L, T), show(n, err))
				}
				for _, idx := range []struct {
					what  string
					o     tengo.Object
					isStr int
				}{{"Map.IndexSet(non-string index whose text has T bytes)", &textObj{text: text}, 0}, {"Map.IndexSet(string index of T bytes)", &tengo.String{Value: text}, 1}} {
					m := &tengo.Map{Value: map[string]tengo.Object{}}
					err := m.IndexSet(idx.o, tengo.TrueValue)
					n := -1
					for k := range m.Value {
						n = len(k)
					}
					cmp(idx.what, fmt.Sprintf("(guard mapkey %d %d %d)", L, idx.isStr, T), show(n, err))
				}
			})
		}
	}
}

// genStrProg: a short random program of string/bytes producing operations with lengths near the maximum.
// It includes the two producers repaired after O12 / O13 (non-string map index, type_name).
// wide: the texts are made of 2-4 byte runes, invalid bytes and ASCII (lengths are still byte counts), and
// characters, wide literal text in format strings and %c / %U / %q of wide runes are added.
func genStrProg(r *lib.RNG, L int, wide bool) string {
	if L > 200 {
		L = 40 // default maxima: ordinary sizes
	}
	near := func() int {
		switch r.Intn(4) {
		case 0:
			return r.Intn(3)
		case 1:
			return L/2 + r.Intn(3)
		case 2:
			return L - r.Intn(3)
		}
		return r.Intn(L + 1)
	}
	var sb strings.Builder
	mk := lit
	if wide {
		mk = func(n int) string { return wlit(r, n) }
	}
	fmt.Fprintf(&sb, "s0 := %s\ns1 := %s\ns2 := \"\"\nb0 := bytes(%s)\narr := []\nm := {}\ne := undefined\n", mk(near()), mk(near()), mk(r.Intn(L/2+1)))
	sb.WriteString("rep := func(s, n) { r := \"\"; for i := 0; i < n; i++ { r += s }; return r }\n")
	sv := func() string { return "s" + lib.N(r.Intn(3)) }
	nonstr := []string{"123", "-4.5", "'c'", "true", "[1, 2]", "{a: 1}", "undefined", "b0", "error(s1)", "1234567890123", "arr", "m", "immutable([s0])"}
	vals := []string{"12345678", "1.25", "b0", "[s0, s1]", "{k: s0}", "error(s0)", "'x'", "true", "arr", "m", "-9007199254740993", "1e100", "[[s1], {q: s2}]"}
	fmts := []string{"%s", "%v", "%q", "%x", "%X", "%d", "%5d", "%-6s|", "%08.3f", "%c", "%t", "%10s", "%v%v", "%s-%s", "%5.2s", "% x", "%#x", "%T", "%e", "%08d", "%+d", "%U", "%b", "%o", "%#v", "%6.2f", "%x%x", "%d%%", "%s%%%%", "%z", "%!", "%[2]s%[1]s", "%*d", "%.3s|%c", "%-12d", "%-9s", "%-*s", "%-*v", "%-20v", "%9x", "%.0d"}
	args := []string{"s0", "s1", "s2", "b0", "12345", "-7", "3.14159", "'z'", "true", "arr", "m", "e", "[s0]", "{k: s1}"}
	// map indexes that are converted to their text (undefined is not a valid index and is left out)
	idxs := []string{"123", "-4.5", "'c'", "true", "[1, 2]", "{a: 1}", "b0", "error(s1)", "1234567890123", "arr", "m", "immutable([s0])", "[s0, s1]", "len", "e", "[[s1], {q: s2}]", "-9007199254740993"}
	typed := []string{"s0", "b0", "arr", "m", "e", "1", "2.5", "'c'", "true", "undefined", "error(s0)", "immutable(arr)", "immutable(m)", "rep", "len", "copy", "format", "type_name", "is_undefined", "is_immutable_array"}
	reps := []string{"\"a\"", "\"ab\"", "s0", "\"xyz\""}
	if wide {
		chars := []string{"'\u00e9'", "'\u20ac'", "'\U0001F600'", "char(55296)", "char(1114112)", "'\u200b'"}
		nonstr = append(nonstr, chars...)
		nonstr = append(nonstr, "['\u00e9', s1]", "{\"\u00e9\": s0}")
		vals = append(vals, chars...)
		vals = append(vals, "['\u20ac', '\u00e9']", "{\"\u4e16\": s1}", "b0 + b0")
		fmts = append(fmts, "\u00e9%s", "%5s\u20ac", "%-6v\U0001F600", "%3c", "%-4c|", "%8q", "%+q", "%#q", "%+8q", "%#U", "%#8U", "%\u00e9", "%6.2s", "\u65e5%s\u672c", "%7.3v", "%-8.2q",
			"%2s", "%-3s", "%4v", "%1s\u00e9", "\u20ac%3v", "%s%2s", "%2s%2s", "%x\u00e9", "%.1x", "%-5.1s|", "%08s", "%*c", "%-*q", "%5T\u00e9", "%\xff", "%s \u00e9 %d", "%[1]s%[1]3s")
		args = append(args, "233", "8364", "128512", "55296", "1114112", "65533", "'\u00e9'", "'\U0001F600'", "s0", "s1", "[s1, '\u20ac']")
		idxs = append(idxs, chars...)
		reps = append(reps, "\"\u00e9\"", "\"\u20aca\"", "s1", "\"\\xff\"")
	}
	n := 3 + r.Intn(8)
	if wide { // short: under a maximum inside the window of one value the statements after it are not reached
		n = 1 + r.Intn(5)
	}
	for i := 0; i < n; i++ {
		switch r.Intn(17) {
		case 14:
			if r.Chance(1, 3) {
				fmt.Fprintf(&sb, "m[%s + %d] = %s\n", digits(1+near()%18), r.Intn(9), sv()) // an integer index near the maximum
			} else {
				fmt.Fprintf(&sb, "m[%s] = %s\n", lib.Pick(r, idxs), sv())
			}
		case 15:
			fmt.Fprintf(&sb, "%s = type_name(%s)\n", sv(), lib.Pick(r, typed))
		case 16:
			if wide { // every key is kept: what the program leaves behind does not depend on the iteration order
				sb.WriteString("for k, v in m { arr = append(arr, k) }\n")
				break
			}
			fmt.Fprintf(&sb, "for k, v in m { %s = k; arr = append(arr, k) }\n", sv())
		case 0, 1:
			fmt.Fprintf(&sb, "%s = %s + %s\n", sv(), sv(), sv())
		case 2:
			fmt.Fprintf(&sb, "%s = %s + %s\n", sv(), sv(), lib.Pick(r, nonstr))
		case 3:
			fmt.Fprintf(&sb, "%s = string(%s)\n", sv(), lib.Pick(r, vals))
		case 4, 5:
			f := lib.Pick(r, fmts)
			if r.Chance(1, 3) {
				f = fmt.Sprintf("%%%dv", near()+1)
				if r.Chance(1, 2) {
					f = fmt.Sprintf("%%-%dv", near()+1)
				}
			}
			k := strings.Count(f, "%") + strings.Count(f, "*")
			as := make([]string, k)
			for j := range as {
				as[j] = lib.Pick(r, args)
			}
			fmt.Fprintf(&sb, "%s = format(%s, %s)\n", sv(), strconv.Quote(f), strings.Join(as, ", "))
		case 6:
			switch r.Intn(4) {
			case 0:
				fmt.Fprintf(&sb, "b0 = bytes(%s)\n", sv())
			case 1:
				sb.WriteString("b0 = b0 + b0\n")
			case 2:
				fmt.Fprintf(&sb, "b0 = bytes(%d)\n", near()+r.Intn(3))
			case 3:
				fmt.Fprintf(&sb, "b0 = b0 + bytes(%s)\n", sv())
			}
		case 7:
			fmt.Fprintf(&sb, "%s = %s[%d:%d]\n", sv(), sv(), r.Intn(3), r.Intn(L+2))
		case 8:
			fmt.Fprintf(&sb, "arr = append(arr, %s)\n", sv())
		case 9:
			fmt.Fprintf(&sb, "m[%s] = %s\n", sv(), sv()) // string index only
		case 10:
			fmt.Fprintf(&sb, "e = error(%s + %s)\n", sv(), sv())
		case 11:
			fmt.Fprintf(&sb, "for i := 0; i < %d; i++ { %s += %s }\n", 1+r.Intn(4), sv(), sv())
		case 12:
			fmt.Fprintf(&sb, "%s = rep(%s, %d)\n", sv(), lib.Pick(r, reps), near())
		case 13:
			fmt.Fprintf(&sb, "%s = string(b0)\nm.k%d = %s\n", sv(), r.Intn(3), sv())
		}
	}
	return sb.String()
}

func lengthStream(r *lib.RNG) {
	maxima := []int{8, 16, 64, 2147483647}
	nStr := flags.Scale(400, 12000)
	nGen := flags.Scale(120, 4000)
	for _, L := range maxima {
		for _, B := range []int{L} {
			c := cfg{L, B}
			for i := 0; i < nStr; i++ {
				rr := r.Fork()
				if rr.Chance(1, 5) {
					c.maxBytes = lib.Pick(rr, maxima)
				} else {
					c.maxBytes = L
				}
				src := genStrProg(rr, L, false)
				o := runLen(src, c, "length", "random string program")
				nt := o.run != nil && !o.run.timedOut
				res.Count("length", fmt.Sprint(L, c.maxBytes, src), nt)
				switch {
				case o.compileErr != nil:
					res.Dist("length:compile-" + isLimitErr(o.compileErr))
				case o.run.failed():
					res.Dist(fmt.Sprintf("length:max%d:run-err-%s", L, isLimitErr(o.run.err)))
				default:
					res.Dist(fmt.Sprintf("length:max%d:ok", L))
				}
				if i == 0 && L == 16 {
					res.Sample(map[string]interface{}{"stream": "length", "max_string_len": L, "source": clip(src, 500)}, 6)
				}
			}
			c = cfg{L, L}
			for i := 0; i < nGen; i++ {
				rr := r.Fork()
				p := lib.DefaultProfile()
				p.MaxStmts = 6 + rr.Intn(10)
				g := lib.NewGen(rr, p)
				src := g.Program()
				if g.Feat["type_name"] > 0 {
					res.Dist(fmt.Sprintf("length-gen:max%d:uses-type_name", L))
				}
				o := runLen(src, c, "length-gen", "lib.NewGen program")
				res.Count("length-gen", fmt.Sprint(L, src), o.run != nil && !o.run.failed())
			}
		}
	}
}

// ---- padding stream ----
//
// Padding is written into the formatter buffer by direct slice assignment (formatter.writePadding), not through
// the guarded fmtbuf.Write* methods. Whether its own guard is reached may depend on the buffer the pooled
// printer happens to carry, so every case is run on (a) fresh-or-whatever printers, (b) printers whose buffers
// were grown by earlier, legal format calls of the same program under the same limit, (c) printers grown
// under a larger limit earlier in the process (primeLen). A case is observable when the padding is the LAST
// write of the call (left-justified fields, %x of an empty string, %.0d of 0): otherwise a later guarded
// write reports the overflow anyway.

type padOp struct {
	name string
	// build: the format call whose result would be T bytes long and its sequence of buffer writes
	build func(T int) (call string, ops string, ok bool)
}

var padOps = []padOp{
	{"%-Nd", func(T int) (string, string, bool) {
		return fmt.Sprintf("format(\"%%-%dd\", 5)", T), fmt.Sprintf("(w 1) (p %d)", T-1), T >= 2
	}},
	{"%-Ns", func(T int) (string, string, bool) {
		return fmt.Sprintf("format(\"%%-%ds\", \"ab\")", T), fmt.Sprintf("(w 2) (p %d)", T-2), T >= 3
	}},
	{"%-*s", func(T int) (string, string, bool) {
		return fmt.Sprintf("format(\"%%-*s\", %d, \"ab\")", T), fmt.Sprintf("(w 2) (p %d)", T-2), T >= 3
	}},
	{"%*d negative width", func(T int) (string, string, bool) {
		return fmt.Sprintf("format(\"%%*d\", -%d, 5)", T), fmt.Sprintf("(w 1) (p %d)", T-1), T >= 2
	}},
	{"%-0Nd", func(T int) (string, string, bool) {
		return fmt.Sprintf("format(\"%%-0%dd\", -5)", T), fmt.Sprintf("(w 2) (p %d)", T-2), T >= 3
	}},
	{"%0-Nd", func(T int) (string, string, bool) {
		return fmt.Sprintf("format(\"%%0-%dd\", 42)", T), fmt.Sprintf("(w 2) (p %d)", T-2), T >= 3
	}},
	{"%Nx empty string", func(T int) (string, string, bool) {
		return fmt.Sprintf("format(\"%%%dx\", \"\")", T), fmt.Sprintf("(p %d)", T), T >= 1
	}},
	{"%0NX empty bytes", func(T int) (string, string, bool) {
		return fmt.Sprintf("format(\"%%0%dX\", bytes(0))", T), fmt.Sprintf("(p %d)", T), T >= 1
	}},
	{"%N.0d zero", func(T int) (string, string, bool) {
		return fmt.Sprintf("format(\"%%%d.0d\", 0)", T), fmt.Sprintf("(p %d)", T), T >= 1
	}},
	{"%*.*d zero", func(T int) (string, string, bool) {
		return fmt.Sprintf("format(\"%%*.*d\", %d, 0, 0)", T), fmt.Sprintf("(p %d)", T), T >= 1
	}},
	{"%-Nx string", func(T int) (string, string, bool) {
		return fmt.Sprintf("format(\"%%-%dx\", \"ab\")", T), fmt.Sprintf("(x 4) (p %d)", T-4), T >= 5
	}},
	{"%-Nv bool", func(T int) (string, string, bool) {
		return fmt.Sprintf("format(\"%%-%dv\", true)", T), fmt.Sprintf("(w 4) (p %d)", T-4), T >= 5
	}},
	{"%-Nc", func(T int) (string, string, bool) {
		return fmt.Sprintf("format(\"%%-%dc\", 122)", T), fmt.Sprintf("(w 1) (p %d)", T-1), T >= 2
	}},
	{"%-Nq", func(T int) (string, string, bool) {
		return fmt.Sprintf("format(\"%%-%dq\", \"ab\")", T), fmt.Sprintf("(w 4) (p %d)", T-4), T >= 5
	}},
	{"%-N.1f", func(T int) (string, string, bool) {
		return fmt.Sprintf("format(\"%%-%d.1f\", 2.5)", T), fmt.Sprintf("(w 3) (p %d)", T-3), T >= 4
	}},
	{"%-Nv array", func(T int) (string, string, bool) {
		return fmt.Sprintf("format(\"%%-%dv\", [1, 2])", T), fmt.Sprintf("(w 6) (p %d)", T-6), T >= 7
	}},
	{"%-NU", func(T int) (string, string, bool) {
		return fmt.Sprintf("format(\"%%-%dU\", 120)", T), fmt.Sprintf("(w 6) (p %d)", T-6), T >= 7
	}},
	{"%s%-Nd", func(T int) (string, string, bool) {
		a := T / 2
		return fmt.Sprintf("format(\"%%s%%-%dd\", %s, 5)", T-a, lit(a)), fmt.Sprintf("(w %d) (w 1) (p %d)", a, T-a-1), T-a >= 2
	}},
	{"literal then %-Ns", func(T int) (string, string, bool) {
		return fmt.Sprintf("format(\"id=%%-%ds\", \"ab\")", T-3), fmt.Sprintf("(w 3) (w 2) (p %d)", T-5), T >= 6
	}},
	// controls: the padding is followed by a guarded write
	{"%Nd (right-justified)", func(T int) (string, string, bool) {
		return fmt.Sprintf("format(\"%%%dd\", 7)", T), fmt.Sprintf("(p %d) (w 1)", T-1), T >= 2
	}},
	{"%-Nd| (text after the field)", func(T int) (string, string, bool) {
		return fmt.Sprintf("format(\"%%-%dd|\", 7)", T-1), fmt.Sprintf("(w 1) (p %d) (w 1)", T-2), T >= 3
	}},
}

// genPadProg: one to three random format calls with flags, widths (literal and '*') and precisions around L.
// wide: operands and literal text of 2-4 byte runes and invalid bytes, integer operands that are wide runes.
func genPadProg(r *lib.RNG, L int, pre string, wide bool) string {
	near := func() int {
		switch r.Intn(5) {
		case 0:
			return r.Intn(4)
		case 1:
			return L - r.Intn(3)
		case 2:
			return L + 1 + r.Intn(3)
		case 3:
			return L + 1 + r.Intn(L+8)
		}
		return r.Intn(L + 1)
	}
	var sb strings.Builder
	mk := lit
	if wide {
		mk = func(n int) string { return wlit(r, n) }
	}
	fmt.Fprintf(&sb, "s0 := %s\ns1 := \"\"\nb0 := bytes(%s)\nb1 := bytes(0)\narr := []\nm := {}\n", mk(r.Intn(L/2+1)), mk(r.Intn(L/2+1)))
	sb.WriteString(pre)
	verbs := "ddssvvqxxXXctfeUbogT"
	args := []string{"s0", "s1", "b0", "b1", "0", "5", "-7", "122", "12345", "2.5", "0.0", "'z'", "true", "arr", "m", "undefined", "[s0]", "\"ab\"", "\"\""}
	pres, posts := []string{"n=", "[", "ab", "%%"}, []string{"|", " ", "%%"}
	if wide {
		verbs = "ssssvvvqqqxXccUUdtT"
		args = append(args, "s0", "s0", "b0", "233", "8364", "128512", "55296", "1114112", "'\u00e9'", "'\U0001F600'", "\"\u00e9\u00e9\"", "\"\u20ac\"", "\"\\xff\u00e9\"", "[s0, '\u20ac']", "{\"\u00e9\": s0}", "error(s0)")
		pres = append(pres, "\u00e9", "\u20ac=", "\U0001F600", "a\u00e9", "\u65e5\u672c", "abc")
		posts = append(posts, "\u00e9", "\u20ac", "\U0001F600")
	}
	n := 1 + r.Intn(3)
	for i := 0; i < n; i++ {
		var f strings.Builder
		var as []string
		if r.Chance(1, 4) {
			f.WriteString(lib.Pick(r, pres))
		}
		k := 1
		if r.Chance(1, 5) {
			k = 2
		}
		for j := 0; j < k; j++ {
			f.WriteByte('%')
			if r.Chance(2, 3) {
				f.WriteByte('-')
			}
			for _, fl := range "0+ #" {
				if r.Chance(1, 5) {
					f.WriteRune(fl)
				}
			}
			switch r.Intn(6) {
			case 0: // no width
			case 1:
				f.WriteByte('*')
				w := near()
				if r.Chance(1, 3) {
					w = -w
				}
				as = append(as, lib.N(w))
			default:
				f.WriteString(lib.N(near()))
			}
			switch r.Intn(8) {
			case 0:
				f.WriteString(".0")
			case 1:
				f.WriteString("." + lib.N(r.Intn(4)))
			case 2:
				f.WriteString(".*")
				as = append(as, lib.N(r.Intn(3)))
			}
			f.WriteByte(verbs[r.Intn(len(verbs))])
			as = append(as, lib.Pick(r, args))
		}
		if r.Chance(1, 8) {
			f.WriteString(lib.Pick(r, posts))
		}
		call := "format(" + strconv.Quote(f.String()) + ", " + strings.Join(as, ", ") + ")"
		switch r.Intn(5) {
		case 0:
			fmt.Fprintf(&sb, "arr = append(arr, %s)\n", call)
		case 1:
			fmt.Fprintf(&sb, "m[%s] = %d\n", call, i)
		default:
			fmt.Fprintf(&sb, "v%d := %s\n", i, call)
		}
	}
	return sb.String()
}

// pregrow: legal format calls (results of exactly L bytes) after which the buffer of the printer they used
// has a capacity well above L when that printer was new (L > 8): the padding of the first call does not fit
// the 8 bytes append reserved for "5", and writePadding then allocates 2*cap+n >= L+15 bytes. A printer that
// comes from the pool keeps whatever larger capacity it has (capacities never shrink).
func pregrow(L int) string {
	return fmt.Sprintf("p0 := format(\"%%-%dd\", 5)\np1 := format(\"%%s\", %s)\n", L, lit(L))
}

// emptyPrinterPool: two collections drop everything a sync.Pool holds (primary and victim caches).
func emptyPrinterPool() {
	runtime.GC()
	runtime.GC()
}

func padStream(r *lib.RNG) {
	defer func(p int) { primeLen = p }(primeLen)
	// in-program first, each limit on an emptied pool: every printer made from there on is grown by the program
	// that makes it, so no printer whose capacity is exactly L (an "as-is" run can leave one) is handed to these
	// programs. Their inputs are self-contained scripts (at most 3 violations per signature are kept: these).
	modes := []string{"in-program", "primed", "as-is"}
	for _, mode := range modes {
		for _, L := range []int{8, 9, 16, 20, 64, 100} {
			c := same(L)
			if mode != "primed" { // "as-is": new printers first, then whatever the earlier as-is cases left
				emptyPrinterPool()
			}
			for _, op := range padOps {
				for _, T := range []int{L - 1, L, L + 1, L + 2, L + 7, 2*L + 3} {
					call, ops, ok := op.build(T)
					if !ok {
						continue
					}
					src, note := "x := "+call+"\n", op.name+", would-be length "+lib.N(T)
					if mode == "as-is" {
						note += "; printers as-is"
					}
					primeLen = 0
					switch mode {
					case "in-program":
						src = pregrow(L) + src
						note += grownNote
					case "primed":
						primeLen = 1024
					}
					in := input{Kind: "length", Source: src, MaxStr: c.maxStr, MaxBytes: c.maxBytes, Note: note}
					if primeLen > 0 {
						in.Note += primedNote
					}
					strSig = "format-padding-exceeds-max-string-len"
					o := runLen(src, c, "padding", note)
					strSig = ""
					res.Count("padding", fmt.Sprint(op.name, L, T, mode), true)
					var got string
					switch {
					case o.compileErr != nil:
						got = "err " + isLimitErr(o.compileErr)
					case o.run.timedOut:
						continue
					case o.run.failed():
						got = "err " + isLimitErr(o.run.err)
					default:
						got = "ok " + lib.N(lengthOfX(o.run))
					}
					res.Dist("padding:" + mode + ":" + strings.Fields(got)[0])
					if T > L && got != "err stringlimit" && strings.HasPrefix(got, "err") {
						e := ""
						if o.compileErr != nil {
							e = o.compileErr.Error()
						} else {
							e = o.run.errText()
						}
						res.Violate(lib.Violation{Signature: "limit-failure-not-limit-error", Stream: "padding", Input: in, Observed: clip(e, 200),
							Expected: "the format call fails with the limit error (errors.Is stringlimit)", Oracle: "errors.Is"})
					}
					if drv != nil {
						m := ask(fmt.Sprintf("(bufseq %d %s)", L, ops))
						if m != got {
							res.Disagree(lib.Disagreement{Stream: "padding", Input: in, Model: m, Impl: got})
						}
					}
				}
			}
		}
	}
	// random flag/width/precision/verb combinations
	n := flags.Scale(150, 4000)
	for _, L := range []int{8, 12, 16, 33, 64} {
		c := same(L)
		for i := 0; i < n; i++ {
			rr := r.Fork()
			pre, note := "", "random padded format calls"
			primeLen = 0
			switch rr.Intn(3) {
			case 0:
				if L <= 8 { // a new printer cannot be grown above 8 bytes under this limit
					break
				}
				pre = pregrow(L)
				note += grownNote
			case 1:
				primeLen = 1024
			}
			src := genPadProg(rr, L, pre, false)
			o := runLen(src, c, "padding-gen", note)
			nt := o.run != nil && !o.run.timedOut
			res.Count("padding-gen", fmt.Sprint(L, primeLen, src), nt)
			switch {
			case o.compileErr != nil:
				res.Dist("padding-gen:compile-" + isLimitErr(o.compileErr))
			case o.run.failed():
				res.Dist("padding-gen:run-err-" + isLimitErr(o.run.err))
			default:
				res.Dist("padding-gen:ok")
			}
			if i == 0 && L == 16 {
				res.Sample(map[string]interface{}{"stream": "padding-gen", "max_string_len": L, "source": clip(src, 500)}, 8)
			}
		}
	}
}

// ---- depth stream ----

func runContext(src string, timeout time.Duration) (err error, panicv string, hung bool) {
	done := make(chan struct{})
	go func() {
		defer close(done)
		defer func() {
			if p := recover(); p != nil {
				panicv = fmt.Sprint(p)
			}
		}()
		s := tengo.NewScript([]byte(src))
		c, e := s.Compile()
		if e != nil {
			err = e
			return
		}
		ctx, cancel := context.WithTimeout(context.Background(), timeout)
		defer cancel()
		err = c.RunContext(ctx)
	}()
	select {
	case <-done:
	case <-time.After(timeout + 5*time.Second):
		hung = true
	}
	return
}

func depthStream(r *lib.RNG) {
	// frames: zero-argument recursion uses one operand-stack slot per level, so frames run out first
	shapes := []string{
		// direct self recursion, mutual recursion through two and three functions, a closure calling itself through
		// a captured variable: the frame limit applies to every call, not only to calls of the running function
		"d := %d\nf := func() { if d == 0 { return 0 }; d -= 1; return f() + 1 }\nx := f()\n",
		"d := %d\ng := undefined\nf := func() { if d == 0 { return 0 }; d -= 1; return g() + 1 }\ng = func() { if d == 0 { return 0 }; d -= 1; return f() + 1 }\nx := f()\n",
		"d := %d\ng := undefined\nh := undefined\nf := func() { if d == 0 { return 0 }; d -= 1; return g() + 1 }\ng = func() { if d == 0 { return 0 }; d -= 1; return h() + 1 }\nh = func() { if d == 0 { return 0 }; d -= 1; return f() + 1 }\nx := f()\n",
		"d := %d\nmk := func() { r := undefined; r = func() { if d == 0 { return 0 }; d -= 1; return r() + 1 }; return r }\nf := mk()\nx := f()\n",
	}
	for si, D0 := range []int{3, 500, tengo.MaxFrames - 3, tengo.MaxFrames - 2, tengo.MaxFrames - 1, tengo.MaxFrames, tengo.MaxFrames + 1, 3000, 100000,
		-(tengo.MaxFrames - 2), -(tengo.MaxFrames - 1), -tengo.MaxFrames, -3000, -(tengo.MaxFrames - 2) - 1<<20, -(tengo.MaxFrames - 1) - 1<<20, -3000 - 1<<20,
		-(tengo.MaxFrames - 3) - 2<<20, -(tengo.MaxFrames - 2) - 2<<20, -(tengo.MaxFrames - 1) - 2<<20, -3000 - 2<<20} {
		// non-negative D: shape 0; negative encodings: the other shapes at the depths around the limit
		_ = si
		shape, D := 0, D0
		if D0 < 0 {
			shape, D = 1+(-D0)>>20, (-D0)&(1<<20-1)
		}
		src := fmt.Sprintf(shapes[shape], D)
		in := input{Kind: "depth", Source: src, Note: fmt.Sprintf("%d nested non-tail calls, shape %d", D+1, shape)}
		c, err := compile(src)
		if err != nil {
			fatal(err)
		}
		run := runVM(c, -1, false, true, 20*time.Second)
		res.Count("depth", src, true)
		needs := D + 2 // main + D+1 calls
		switch {
		case run.timedOut:
			res.Violate(lib.Violation{Signature: "deep-recursion-hangs", Stream: "depth", Input: in, Observed: "no result within 20 s", Expected: "result or error", Oracle: "watchdog"})
			continue
		case needs > tengo.MaxFrames && !(run.err != nil && errors.Is(run.err, tengo.ErrStackOverflow)):
			res.Violate(lib.Violation{Signature: "deep-recursion-not-stack-overflow-error", Stream: "depth", Input: in, Observed: clip("outcome: "+run.errText(), 200),
				Expected: fmt.Sprintf("errors.Is(err, ErrStackOverflow): %d frames needed, MaxFrames = %d", needs, tengo.MaxFrames), Oracle: "errors.Is"})
		}
		if run.maxFI > tengo.MaxFrames {
			res.Violate(lib.Violation{Signature: "frames-index-above-max-frames", Stream: "depth", Input: in, Observed: fmt.Sprint("framesIndex ", run.maxFI), Expected: "at most MaxFrames", Oracle: "probe"})
		}
		if drv != nil && len(run.fis) < maxTrace {
			var tr strings.Builder
			for j := 0; j+1 < len(run.fis); j++ {
				switch run.fis[j+1] - run.fis[j] {
				case 1:
					tr.WriteByte('c')
				case -1:
					tr.WriteByte('r')
				default:
					tr.WriteByte('o')
				}
			}
			got := ""
			if run.err != nil && errors.Is(run.err, tengo.ErrStackOverflow) {
				tr.WriteString("ch") // the refused instruction is a call
				got = fmt.Sprintf("overflow %d %d %d", run.steps, tengo.MaxFrames, run.maxFI)
			} else if !run.failed() {
				tr.WriteString("h")
				got = fmt.Sprintf("ok %d 1 %d", run.steps, run.maxFI)
			}
			if got != "" {
				m := ask(lib.L("frames", lib.N(tengo.MaxFrames), tr.String()))
				if m != got {
					res.Disagree(lib.Disagreement{Stream: "depth", Input: in, Model: m, Impl: got})
				}
				// the frame count the program needs, from the harness's own arithmetic
				if !run.failed() && run.maxFI != needs {
					res.Disagree(lib.Disagreement{Stream: "depth", Input: in, Model: fmt.Sprint("frames needed ", needs), Impl: fmt.Sprint("framesIndex high ", run.maxFI)})
				}
				if !run.failed() != (needs <= tengo.MaxFrames) {
					res.Disagree(lib.Disagreement{Stream: "depth", Input: in, Model: fmt.Sprintf("succeeds iff %d <= MaxFrames", needs), Impl: got})
				}
			}
		}
	}
	// recursion shapes with arguments and locals (frames or operand stack may run out first): an error, never a hang
	for i := 0; i < flags.Scale(12, 200); i++ {
		rr := r.Fork()
		nargs, nloc := rr.Intn(4), rr.Intn(6)
		D := lib.Pick(rr, []int{200, 600, 1021, 1022, 1023, 1500, 5000})
		var ps, as, ls []string
		for k := 0; k < nargs; k++ {
			ps = append(ps, "p"+lib.N(k))
			as = append(as, lib.N(k))
		}
		for k := 0; k < nloc; k++ {
			ls = append(ls, fmt.Sprintf("l%d := %d", k, k))
		}
		src := fmt.Sprintf("d := %d\nf := func(%s) { %s; if d == 0 { return 0 }; d -= 1; return f(%s) + 1 }\nx := f(%s)\n",
			D, strings.Join(ps, ", "), strings.Join(append(ls, "z := 0"), "; "), strings.Join(as, ", "), strings.Join(as, ", "))
		in := input{Kind: "depth-rc", Source: src}
		err, pv, hung := runContext(src, 20*time.Second)
		res.Count("depth", src, true)
		frames := D + 2
		slots := (D + 1) * (1 + nloc + 1 + max(nargs, 0)) // callee + locals(z included) + args, rough lower bound of the stack need
		switch {
		case hung:
			res.Violate(lib.Violation{Signature: "deep-recursion-hangs", Stream: "depth", Input: in, Observed: "RunContext did not return", Expected: "result or error", Oracle: "watchdog"})
		case pv != "":
			res.Violate(lib.Violation{Signature: "deep-recursion-panic-escapes-runcontext", Stream: "depth", Input: in, Observed: clip(pv, 200), Expected: "an error value", Oracle: "recover around RunContext"})
		case err == nil && (frames > tengo.MaxFrames || slots > 2*tengo.StackSize):
			res.Violate(lib.Violation{Signature: "deep-recursion-no-error", Stream: "depth", Input: in, Observed: "run succeeded", Expected: "an error: frame or operand-stack capacity exceeded", Oracle: "harness arithmetic"})
		}
		if err != nil {
			if errors.Is(err, tengo.ErrStackOverflow) {
				res.Dist("depth:stack-overflow-error")
			} else {
				res.Dist("depth:other-error(operand stack)")
			}
		} else {
			res.Dist("depth:ok")
		}
	}
	// operand-stack exhaustion through RunContext
	var big strings.Builder
	big.WriteString("x := [")
	for i := 0; i < tengo.StackSize+500; i++ {
		if i > 0 {
			big.WriteString(", ")
		}
		big.WriteString("1")
	}
	big.WriteString("]\n")
	nest := "x := " + strings.Repeat("(1 + ", tengo.StackSize+100) + "1" + strings.Repeat(")", tengo.StackSize+100) + "\n"
	spread := fmt.Sprintf("a := []\nfor i := 0; i < %d; i++ { a = append(a, i) }\nf := func(...v) { return len(v) }\nx := f(a...)\n", tengo.StackSize+100)
	var manyArgs strings.Builder
	manyArgs.WriteString("f := func(...v) { return len(v) }\ng := func(n) { if n == 0 { return 0 }; return f(")
	for i := 0; i < 250; i++ {
		if i > 0 {
			manyArgs.WriteString(", ")
		}
		manyArgs.WriteString("n")
	}
	// the 250 arguments stay on the operand stack while the last argument recurses
	manyArgs.WriteString(", g(n - 1)) }\nx := g(40)\n")
	var manyLocals strings.Builder
	manyLocals.WriteString("g := func(n) {\n")
	for i := 0; i < 250; i++ {
		fmt.Fprintf(&manyLocals, "v%d := n\n", i)
	}
	manyLocals.WriteString("if n == 0 { return 0 }\nreturn g(n - 1) + v0\n}\nx := g(30)\n")
	for _, t := range []struct{ name, src string }{
		{"array literal beyond StackSize", big.String()},
		{"expression nested beyond StackSize", nest},
		{"spread call beyond StackSize", spread},
		{"250 arguments in a recursion", manyArgs.String()},
		{"250 locals in a recursion", manyLocals.String()},
	} {
		in := input{Kind: "stack-rc", Source: clip(t.src, 300), Note: t.name}
		err, pv, hung := runContext(t.src, 20*time.Second)
		res.Count("stack", t.name, true)
		switch {
		case hung:
			res.Violate(lib.Violation{Signature: "stack-exhaustion-hangs", Stream: "stack", Input: in, Observed: "RunContext did not return", Expected: "an error", Oracle: "watchdog"})
		case pv != "":
			res.Violate(lib.Violation{Signature: "stack-exhaustion-panic-escapes-runcontext", Stream: "stack", Input: in, Observed: clip(pv, 200), Expected: "an error value", Oracle: "recover around RunContext"})
		case err == nil:
			res.Violate(lib.Violation{Signature: "stack-exhaustion-no-error", Stream: "stack", Input: in, Observed: "run succeeded", Expected: "an error: more than StackSize operands are needed", Oracle: "harness arithmetic"})
		default:
			res.Dist("stack:error")
		}
	}
}

// ---- findings of this property (known/C06.json): regression probes ----
//
// O12 and O13 were repaired in /repo (bbeef2d, 66fdc32): their status is "fixed", so a probe that fails again
// is reported as a violation. A probe only goes to KnownHits while its entry has status "known".

type finding struct {
	id, sig, what string
	c             cfg
	src, global   string
}

var findings = []finding{
	{"O12", "map-key-from-non-string-index-exceeds-string-limit", "a non-string map index is converted with ToString and stored as key; iteration must not yield a key above the maximum (repaired by bbeef2d)",
		cfg{10, 10}, "m := {}\nm[[1, 2, 3, 4, 5, 6, 7]] = 1\nk := \"\"\nfor kk, v in m { k = kk }\n", "k"},
	{"O12", "map-key-from-non-string-index-exceeds-string-limit", "a non-string map index is converted with ToString and stored as key; no key above the maximum (repaired by bbeef2d)",
		cfg{8, 8}, "m := {}\nm[123456789] = 1\n", "m"},
	{"O13", "type_name-exceeds-string-limit", "type_name must not return a type name above the maximum (repaired by 66fdc32)",
		cfg{8, 8}, "t := type_name(len)\n", "t"},
}

func knownSet() map[string]bool {
	known := map[string]bool{}
	paths := []string{flags.Known}
	if root := os.Getenv("VERIF_ROOT"); root != "" {
		paths = append(paths, root+"/known/C06.json")
	}
	for _, p := range paths {
		for _, k := range lib.LoadKnown(p) {
			if k.Property == "C06" && k.Status == "known" {
				known[k.ID] = true
			}
		}
	}
	return known
}

func findingProbes() {
	known := knownSet()
	for _, f := range findings {
		fails, obs := false, ""
		withLimits(f.c, func() {
			cp, err := compile(f.src)
			if err != nil {
				return
			}
			run := runVM(cp, -1, false, false, 5*time.Second)
			var over []overlong
			for _, i := range run.names {
				walkValues(run.globals[i], f.global, map[tengo.Object]bool{}, f.c, &over)
			}
			if len(over) > 0 {
				fails, obs = true, fmt.Sprintf("%s of %d bytes with MaxStringLen = %d", over[0].what, over[0].n, f.c.maxStr)
			}
		})
		res.Count("finding-probe", f.id, true)
		if !fails {
			continue
		}
		if known[f.id] {
			res.KnownHits = append(res.KnownHits, f.id)
			continue
		}
		res.Violate(lib.Violation{Signature: f.sig, Stream: "finding-probe", Input: input{Kind: "length", Source: f.src, MaxStr: f.c.maxStr, MaxBytes: f.c.maxBytes},
			Observed: obs, Expected: "at most MaxStringLen bytes, or the limit error", Oracle: f.what})
	}
}

// ---- main ----

func replay(path string) {
	b, err := os.ReadFile(path)
	if err != nil {
		fatal(err)
	}
	var rp struct {
		Violations []struct {
			Input input `json:"input"`
		} `json:"violations"`
		Obligations [][]string `json:"broken_obligations"`
	}
	if err := json.Unmarshal(b, &rp); err != nil {
		fatal(err)
	}
	var ins []input
	for _, v := range rp.Violations {
		ins = append(ins, v.Input)
	}
	for _, o := range rp.Obligations {
		if len(o) == 3 {
			var d struct {
				Input input `json:"input"`
			}
			if json.Unmarshal([]byte(o[2]), &d) == nil && d.Input.Source != "" {
				ins = append(ins, d.Input)
			}
		}
	}
	r := lib.NewRNG(flags.Seed)
	for _, in := range ins {
		switch in.Kind {
		case "budget":
			checkBudgets(in.Source, "replay", -1, true, r)
		case "guard-api":
			guardAPI()
		case "length", "boundary":
			// the printer-pool state the input ran with (inputs without a note: primed, which a correct tree cannot observe)
			primeLen = 1024
			if strings.Contains(in.Note, grownNote) || strings.Contains(in.Note, "as-is") {
				primeLen = 0
				emptyPrinterPool()
			}
			runLen(in.Source, cfg{in.MaxStr, in.MaxBytes}, "replay", strings.Replace(in.Note, primedNote, "", 1))
			primeLen = 0
		default:
			// depth / stack inputs are fixed programs: re-run the whole stream
			depthStream(r)
			return
		}
	}
}

func main() {
	flags = lib.ParseFlags()
	res = lib.NewResult("C06", flags)
	var err error
	drv, err = lib.StartDriver(flags.Driver)
	if err != nil {
		fatal(err)
	}
	defer drv.Close()
	res.DriverUsed = drv != nil
	res.Rule = "budget: one program = one unlimited probed run + one run per budget; non-trivial = at least 2 tracked allocations and more than 10 dispatched instructions, distinct by source. " +
		"length: one program under one (MaxStringLen, MaxBytesLen) pair; non-trivial = it compiled and ran to an outcome, distinct by (maxima, source). boundary/padding/depth/stack: every listed case (padding: per limit, operation, would-be length and printer-pool state); padding-gen as length. wide: one listed operation under one maximum (every maximum from the rune count - 1 to the byte count + 1 of its result); length-wide/padding-wide as length, maxima taken from the values the program leaves behind under maxima of 1 MiB"
	if flags.Replay != "" {
		replay(flags.Replay)
		res.Write(flags.Out)
		return
	}
	lib.RunProbes(res, "C06", flags.Known)
	findingProbes()
	rng := lib.NewRNG(flags.Seed)

	for _, sp := range sitePrograms {
		before := 0
		if sp.site != "" {
			before = siteSeen[sp.site]
		}
		checkBudgets(sp.src, "site:"+sp.label, sp.allocs, true, rng.Fork())
		if sp.site != "" && siteSeen[sp.site] == before {
			res.Disagree(lib.Disagreement{Stream: "budget", Input: input{Kind: "budget", Source: sp.src, Note: sp.label}, Model: sp.site + " performs a tracked allocation", Impl: "no decrement observed at that opcode"})
		}
	}
	n := flags.Scale(700, 30000)
	for i := 0; i < n; i++ {
		r := rng.Fork()
		p := lib.DefaultProfile()
		p.MaxStmts = 6 + r.Intn(14)
		p.MaxDepth = 2 + r.Intn(3)
		g := lib.NewGen(r, p)
		checkBudgets(g.Program(), "gen", -1, false, r)
	}
	for k, v := range siteSeen {
		res.Distribution["alloc-site:"+k] += v
	}
	// boundary and length streams: every run starts with pre-grown pooled printer buffers (see primeLen), so
	// that what they find does not depend on what earlier streams and the garbage collector left in the pool
	primeLen = 1024
	boundaryStream()
	lengthStream(rng.Fork())
	primeLen = 0
	depthStream(rng.Fork())
	// last: its random numbers come from a generator of their own, the streams above keep their inputs
	padStream(lib.NewRNG(flags.Seed ^ 0x70616464))
	wideStream(lib.NewRNG(flags.Seed ^ 0x77696465))
	res.Write(flags.Out)
}

// Stream wide (+ length-wide, padding-wide): the length streams with texts whose rune count and byte count differ.
//
// Every maximum of the language is a BYTE count. The formatter measures fields in runes (width, precision), the
// quoting verbs expand invalid bytes and unprintable runes, `string(char)` makes 1-4 bytes of one character: a
// guard that compares a rune count (or the number of characters, fields, elements) with the maximum is invisible
// with ASCII operands and shows exactly when the maximum lies between the rune count and the byte count of the
// result. So every case is first run under maxima of 1 MiB (the reference: B bytes, R runes) and then under
// EVERY maximum from R-1 (or from the length the result would have with every operand counted in runes, when
// that is smaller) to B+1. Oracles as in the length stream (walk of the reachable values; a refused operation
// fails with the limit error); the reference gives two more comparisons (the operation succeeds with the same
// value exactly when operands and result fit), reported as disagreements, and the Lean guards are asked with
// byte counts.
package main

import (
	"fmt"
	"sort"
	"strconv"
	"strings"
	"time"
	"unicode/utf8"

	"github.com/d5/tengo/v2"
	"verifharness/lib"
)

func q(s string) string { return strconv.Quote(s) }
func rc(s string) int   { return utf8.RuneCountInString(s) }

// wideTexts: 2-, 3- and 4-byte runes, unprintable runes, invalid UTF-8 (a stray byte counts as one rune), mixed
// with ASCII; one ASCII control.
var wideTexts = []string{
	"\u00e9\u00e9\u00e9\u00e9",                   // éééé: 4 runes, 8 bytes
	"\u20ac\u20ac\u20ac",                         // €€€: 3 / 9
	"\U0001F600\U0001F600",                       // two 4-byte runes: 2 / 8
	"a\u00e9\u20ac\U0001F600z",                   // mixed with ASCII: 5 / 11
	"\u65e5\u672c\u8a9e\u30c6\u30ad\u30b9\u30c8", // seven 3-byte runes: 7 / 21
	strings.Repeat("\u00e9", 12),                 // 12 / 24
	"\xff\xfe",                                   // invalid bytes: 2 / 2, quoted 8 bytes
	"\u00e9\x80\u00e9",                           // stray continuation byte
	"\xed\xa0\x80",                               // an encoded surrogate: three invalid bytes
	"\xe2\x82\u00e9",                             // truncated 3-byte sequence, then a rune
	"\u200b\u0085",                               // unprintable runes: quoted as \u200b\u0085
	"\U0010ffff\u20ac",                           // largest rune (unprintable) and a 3-byte rune
	"e\u0301",                                    // combining mark
	"\u00e9\"\\",                                 // characters the quoting verbs escape
	"abcd",                                       // control
}

// wide runes for %c / %U / %q of an integer, string(char), string + char: valid 2-4 byte runes, the
// replacement character, a surrogate, the largest rune and one above it (all three print as U+FFFD)
var wideRunes = []int{233, 8364, 128512, 65533, 55296, 1114111, 1114112}

func runeText(r int) string {
	if r < 0 || r > utf8.MaxRune {
		return "\ufffd"
	}
	return string(rune(r))
}

type wideCase struct {
	name  string
	src   string // defines the global x (a string, a bytes value, or a map with one key)
	limit string // "str" | "bytes": the maximum the result is measured against (the other one is large)
	need  int    // every operand and intermediate value of the program fits under a maximum >= need (-1: not known)
	lo    int    // length of the result with every operand counted in runes, when below its rune count (0: none)
	guard string // model question; $L = the maximum, $B = byte length of the reference result ("" = none)
}

// fmtB builds one format call together with its sequence of buffer writes (byte counts).
type fmtB struct {
	f     strings.Builder
	args  []string
	need  int
	lo    int
	ops   []string
	model bool
}

func newFmt() *fmtB { return &fmtB{model: true} }

// lit: literal text of the format string (no '%').
func (b *fmtB) lit(s string) *fmtB {
	if s == "" {
		return b
	}
	b.f.WriteString(s)
	b.ops = append(b.ops, fmt.Sprintf("(w %d)", len(s)))
	b.lo += rc(s)
	return b
}

// field: a directive that prints `text` through formatter.padString / pad under width wid (0: none).
func (b *fmtB) field(spec string, args []string, argLen int, text string, wid int, minus bool) *fmtB {
	b.f.WriteString(spec)
	b.args = append(b.args, args...)
	b.need = max(b.need, argLen)
	w := fmt.Sprintf("(w %d)", len(text))
	if wid > 0 {
		p := fmt.Sprintf("(p %d)", wid-rc(text))
		if minus {
			b.ops = append(b.ops, w, p)
		} else {
			b.ops = append(b.ops, p, w)
		}
	} else {
		b.ops = append(b.ops, w)
	}
	b.lo += max(wid, rc(text))
	return b
}

// hex: %x of a string (flags: "", " ", "#") under width wid; n = bytes encoded.
func (b *fmtB) hex(spec, arg string, argLen, n, nRunes int, flag string, wid int, minus bool) *fmtB {
	b.f.WriteString(spec)
	b.args = append(b.args, arg)
	b.need = max(b.need, argLen)
	width := func(n int) int {
		switch {
		case n == 0:
			return 0
		case flag == " ":
			return 3*n - 1
		case flag == "#":
			return 2*n + 2
		}
		return 2 * n
	}
	x, p := fmt.Sprintf("(x %d)", width(n)), fmt.Sprintf("(p %d)", wid-width(n))
	if minus {
		b.ops = append(b.ops, x, p)
	} else {
		b.ops = append(b.ops, p, x)
	}
	b.lo += max(wid, width(nRunes))
	return b
}

// raw: a directive whose writes are not modelled here (reference comparison only).
func (b *fmtB) raw(spec string, argLen int, args ...string) *fmtB {
	b.f.WriteString(spec)
	b.args = append(b.args, args...)
	b.need = max(b.need, argLen)
	b.model = false
	return b
}

func (b *fmtB) build(name string) wideCase {
	fs := b.f.String()
	src := "x := format(" + q(fs)
	if len(b.args) > 0 {
		src += ", " + strings.Join(b.args, ", ")
	}
	src += ")\n"
	wc := wideCase{name: name, src: src, limit: "str", need: max(b.need, len(fs))}
	if b.model {
		wc.guard = "(bufseq $L " + strings.Join(b.ops, " ") + ")"
		wc.lo = b.lo
	}
	return wc
}

// truncRunes: formatter.truncateString (a stray byte counts as one character).
func truncRunes(s string, k int) string {
	for i := range s {
		k--
		if k < 0 {
			return s[:i]
		}
	}
	return s
}

// head: the beginning of an operand expression, for case names.
func head(e string) string {
	if i := strings.IndexAny(e, "(\"[{'"); i >= 0 {
		return e[:i+1]
	}
	return e
}

func dedupe(xs []int) []int {
	seen := map[int]bool{}
	var out []int
	for _, x := range xs {
		if x >= 0 && !seen[x] {
			seen[x] = true
			out = append(out, x)
		}
	}
	return out
}

func wideCases() []wideCase {
	var cs []wideCase
	add := func(c wideCase) { cs = append(cs, c) }
	spec := func(flags string, wid int, tail string) string {
		s := "%" + flags
		if wid > 0 {
			s += lib.N(wid)
		}
		return s + tail
	}
	type wf struct {
		w  int
		fl string
	}
	// widths x flags: every width right-justified, some left-justified, one zero-padded
	fields := func(all, some []int, zero int) []wf {
		var out []wf
		for _, w := range dedupe(all) {
			out = append(out, wf{w, ""})
		}
		for _, w := range dedupe(some) {
			if w > 0 {
				out = append(out, wf{w, "-"})
			}
		}
		if zero > 0 {
			out = append(out, wf{zero, "0"})
		}
		return out
	}
	for _, t := range wideTexts {
		n, b := rc(t), len(t)
		qt := strconv.Quote(t)
		heavy := b-n > 10 // long windows: the padded %s fields, concatenation and bytes only
		// --- padded text fields: %s %v %q of a string, %s of bytes, behind ASCII and wide literal text
		for _, pre := range []string{"", "abc", "€", "日本é"} {
			fs := fields([]int{0, 1, 2, n - 1, n, n + 1, n + 3, b, b + 2}, []int{2, n + 1, n + 3}, n+3)
			if pre == "日本é" || heavy && pre != "abc" {
				fs = fields([]int{2, n + 3}, []int{2, n + 3}, 0)
			}
			for _, f := range fs {
				add(newFmt().lit(pre).field(spec(f.fl, f.w, "s"), []string{q(t)}, b, t, f.w, f.fl == "-").build(spec(f.fl, f.w, "s") + " after " + q(pre)))
			}
		}
		if !heavy {
			for _, f := range fields([]int{0, 2, n + 1, n + 3}, []int{2, n + 3}, n+4) {
				wq := f.w
				if wq > 0 {
					wq += rc(qt) - n // the same slack around the quoted text
				}
				minus := f.fl == "-"
				add(newFmt().lit("abc").field(spec(f.fl, wq, "v"), []string{q(t)}, b, qt, wq, minus).build(spec(f.fl, wq, "v") + " of a string after \"abc\""))
				add(newFmt().lit("ab").field(spec(f.fl, f.w, "s"), []string{"bytes(" + q(t) + ")"}, b, t, f.w, minus).build(spec(f.fl, f.w, "s") + " of bytes after \"ab\""))
				if f.w == 2 {
					continue
				}
				add(newFmt().field(spec(f.fl, wq, "q"), []string{q(t)}, b, qt, wq, minus).lit("|").build(spec(f.fl, wq, "q") + " then text"))
				qa := strconv.QuoteToASCII(t)
				wa := f.w
				if wa > 0 {
					wa += 2
				}
				add(newFmt().lit("é").field(spec(f.fl+"+", wa, "q"), []string{q(t)}, b, qa, wa, minus).build(spec(f.fl+"+", wa, "q") + " after \"é\""))
				bq := qt
				if strconv.CanBackquote(t) {
					bq = "`" + t + "`"
				}
				add(newFmt().lit("ab").field(spec(f.fl+"#", wa, "q"), []string{q(t)}, b, bq, wa, minus).build(spec(f.fl+"#", wa, "q") + " after \"ab\""))
			}
			// width through '*', negative, reordered
			for _, w := range dedupe([]int{2, n + 2}) {
				add(newFmt().lit("ab").field("%*s", []string{lib.N(w), q(t)}, b, t, w, false).build("%*s width " + lib.N(w)))
				add(newFmt().lit("é").field("%*s", []string{lib.N(-w), q(t)}, b, t, w, true).build("%*s width -" + lib.N(w)))
				add(newFmt().lit("é").field("%-*v", []string{lib.N(w + 2), q(t)}, b, qt, w+2, true).build("%-*v width " + lib.N(w+2)))
				add(newFmt().field("%[2]*[1]s", []string{q(t), lib.N(w)}, b, t, w, false).lit("€").build("%[2]*[1]s width " + lib.N(w)))
			}
			// precision (counted in characters) with and without width
			for _, k := range dedupe([]int{0, 1, n - 1, n + 2}) {
				tt := truncRunes(t, k)
				for _, f := range []wf{{0, ""}, {n + 2, ""}, {k + 2, "-"}} {
					minus := f.fl == "-"
					add(newFmt().lit("ab").field(spec(f.fl, f.w, "."+lib.N(k)+"s"), []string{q(t)}, b, tt, f.w, minus).build(spec(f.fl, f.w, "."+lib.N(k)+"s") + " after \"ab\""))
					if k == 0 {
						continue
					}
					add(newFmt().field(spec(f.fl, f.w, "."+lib.N(k)+"q"), []string{q(t)}, b, strconv.Quote(tt), f.w, minus).lit("é").build(spec(f.fl, f.w, "."+lib.N(k)+"q") + " then \"é\""))
					if f.w != 0 {
						add(newFmt().lit("€").field(spec(f.fl, f.w, "."+lib.N(k)+"s"), []string{"bytes(" + q(t) + ")"}, b, tt, f.w, minus).build(spec(f.fl, f.w, "."+lib.N(k)+"s") + " of bytes after \"€\""))
					}
				}
				add(newFmt().lit("é").field("%.*s", []string{lib.N(k), q(t)}, b, tt, 0, false).build("%.*s precision " + lib.N(k)))
			}
			// two fields
			add(newFmt().field(spec("", n+1, "s"), []string{q(t)}, b, t, n+1, false).field(spec("-", n+2, "s"), []string{q(t)}, b, t, n+2, true).build("two padded fields"))
			add(newFmt().field("%s", []string{q(t)}, b, t, 0, false).lit("|").field("%s", []string{q(t)}, b, t, 0, false).build("%s|%s"))
			add(newFmt().field(spec("", n+1, "s"), []string{q(t)}, b, t, n+1, false).field("%v", []string{q(t)}, b, qt, 0, false).build("padded %s then %v"))
			// hexadecimal text of the bytes
			for _, fl := range []string{"", " ", "#"} {
				for _, f := range []wf{{0, ""}, {2*n + 1, ""}, {2*b + 3, ""}, {3*b + 3, "-"}} {
					if fl != "" && f.w == 2*n+1 {
						continue
					}
					add(newFmt().lit("é").hex(spec(f.fl+fl, f.w, "x"), q(t), b, b, n, fl, f.w, f.fl == "-").build(spec(f.fl+fl, f.w, "x") + " after \"é\""))
				}
				add(newFmt().hex(spec(fl, 0, ".2X"), "bytes("+q(t)+")", b, min(2, b), min(2, b), fl, 0, false).lit("€").build(spec(fl, 0, ".2X") + " of bytes then \"€\""))
			}
			// values whose text contains the string
			for _, e := range []string{"[" + q(t) + "]", "{k: " + q(t) + "}", "error(" + q(t) + ")", "bytes(" + q(t) + ")"} {
				for _, sp := range []string{"%v", spec("-", n+8, "v"), spec("", n+6, "s"), "%q", spec("", n+4, ".3v")} {
					add(newFmt().lit("é").raw(sp, b, e).build(sp + " of " + head(e) + "…"))
				}
			}
			add(newFmt().raw(spec("", 2*n+9, "v"), b, "[["+q(t)+"], "+q(t)+"]").lit("€").build("padded %v of a nested array"))
			add(newFmt().raw("%x", b, "immutable(["+q(t)+"])").build("%x of an immutable array"))
			// bad verbs, wide verbs, missing and extra operands, bad width / precision / index
			for _, f := range []struct {
				f    string
				args []string
			}{
				{"%z", []string{q(t)}}, {"%é", []string{q(t)}}, {"%" + lib.N(n+3) + "€", []string{q(t)}}, {"%-" + lib.N(n+3) + "😀|", []string{q(t)}}, {"%\xff", []string{q(t)}},
				{"%d", []string{q(t)}}, {"%" + lib.N(n+4) + ".2d", []string{q(t)}}, {"%c", []string{q(t)}},
				{"é", []string{q(t)}}, {"€%s", []string{q(t), q(t)}}, {"%s", []string{q(t), "'é'", "[" + q(t) + "]"}},
				{"%" + lib.N(n+1) + "s%" + lib.N(n+1) + "s€", []string{q(t)}}, {"%s%é", []string{q(t)}},
				{"%*s", []string{q(t), q(t)}}, {"%.*s", []string{q(t), q(t)}}, {"€%[3]s", []string{q(t)}}, {"%[1]s%[1]" + lib.N(n+1) + "s", []string{q(t)}}, {"%s€%", []string{q(t)}},
				{"%" + lib.N(n+2) + "T€", []string{q(t)}}, {"%-" + lib.N(n+2) + "Té", []string{"[" + q(t) + "]"}},
			} {
				add(newFmt().raw(f.f, b, f.args...).build("format " + q(f.f) + " with " + lib.N(len(f.args)) + " operands"))
			}
		}
		// --- string concatenation and repetition
		for _, pre := range []string{"abc", "é€"} {
			add(wideCase{name: "string + string", src: "x := " + q(pre) + " + " + q(t) + "\n", limit: "str", need: max(len(pre), b),
				guard: fmt.Sprintf("(guard stradd $L %d %d)", len(pre), b), lo: rc(pre) + n})
		}
		add(wideCase{name: "string + itself", src: "s := " + q(t) + "\nx := s + s\n", limit: "str", need: b, guard: fmt.Sprintf("(guard stradd $L %d %d)", b, b), lo: 2 * n})
		for _, r := range wideRunes {
			if heavy && r != 8364 {
				continue
			}
			ch := "char(" + lib.N(r) + ")"
			add(wideCase{name: "string + char", src: "x := " + q(t) + " + " + ch + "\n", limit: "str", need: b,
				guard: fmt.Sprintf("(guard stradd $L %d %d)", b, len(runeText(r))), lo: n + 1})
		}
		if !heavy {
			for _, e := range []string{"[" + q(t) + "]", "error(" + q(t) + ")", "bytes(" + q(t) + ")", "{k: " + q(t) + "}", "233", "'€'", "['é', '😀']", "undefined"} {
				add(wideCase{name: "string + " + head(e) + "…", src: "x := " + q(t) + " + " + e + "\n", limit: "str", need: b})
			}
			for _, k := range []int{2, 3} {
				add(wideCase{name: "string += in a loop", src: fmt.Sprintf("x := \"\"\nfor i := 0; i < %d; i++ { x += %s }\n", k, q(t)), limit: "str", need: b,
					guard: fmt.Sprintf("(guard stradd $L %d %d)", (k-1)*b, b), lo: k * n})
			}
			add(wideCase{name: "repetition function", src: fmt.Sprintf("rep := func(s, n) { r := \"\"; for i := 0; i < n; i++ { r += s }; return r }\nx := rep(%s, 3)\n", q(t)), limit: "str", need: b,
				guard: fmt.Sprintf("(guard stradd $L %d %d)", 2*b, b), lo: 3 * n})
			// --- conversions
			add(wideCase{name: "string(bytes)", src: "x := string(bytes(" + q(t) + ") + bytes(" + q(t) + "))\n", limit: "str", need: b, guard: fmt.Sprintf("(guard string $L %d)", 2*b), lo: 2 * n})
			for _, e := range []string{"error(" + q(t) + ")", "[" + q(t) + "]", "{k: " + q(t) + "}", "[" + q(t) + ", " + q(t) + "]", "immutable({k: [" + q(t) + "]})"} {
				add(wideCase{name: "string(" + head(e) + "…)", src: "x := string(" + e + ")\n", limit: "str", need: b, guard: "(guard string $L $B)"})
			}
		}
		// bytes values: measured against MaxBytesLen (MaxStringLen large)
		add(wideCase{name: "bytes(string)", src: "x := bytes(" + q(t) + ")\n", limit: "bytes", need: 0, guard: fmt.Sprintf("(guard bytes $L %d)", b), lo: n})
		add(wideCase{name: "bytes(string + string)", src: "x := bytes(" + q(t) + " + " + q(t) + ")\n", limit: "bytes", need: 0, guard: fmt.Sprintf("(guard bytes $L %d)", 2*b), lo: 2 * n})
		add(wideCase{name: "bytes + bytes", src: "b := bytes(" + q(t) + ")\nx := b + b\n", limit: "bytes", need: b, guard: fmt.Sprintf("(guard bytesadd $L %d %d)", b, b), lo: 2 * n})
		// --- map keys
		add(wideCase{name: "map literal key", src: "x := {" + q(t) + ": 1}\n", limit: "str", need: b, guard: fmt.Sprintf("(guard lit $L %d)", b), lo: n})
		add(wideCase{name: "map[string]=", src: "x := {}\nx[" + q(t) + "] = 1\n", limit: "str", need: b, guard: fmt.Sprintf("(guard mapkey $L 1 %d)", b), lo: n})
		for _, e := range []string{"[" + q(t) + "]", "bytes(" + q(t) + ")", "error(" + q(t) + ")"} {
			add(wideCase{name: "map[" + head(e) + "…]=", src: "x := {}\nx[" + e + "] = 1\n", limit: "str", need: b, guard: "(guard mapkey $L 0 $B)"})
		}
	}
	// a wide verb with an integer operand
	for _, v := range []string{"%é", "%5€", "%-5😀|", "%\xff", "é%日"} {
		add(newFmt().raw(v, 0, "5").build("format " + q(v) + " of an integer"))
	}
	// --- operands that are characters and integers
	for _, r := range wideRunes {
		rt := runeText(r)
		ch := "char(" + lib.N(r) + ")"
		for _, pre := range []string{"", "ab", "é€"} {
			for _, w := range []int{0, 1, 2, 5} {
				for _, fl := range []string{"", "-", "0"} {
					if w == 0 && fl != "" || fl == "0" && w != 5 {
						continue
					}
					add(newFmt().lit(pre).field(spec(fl, w, "c"), []string{lib.N(r)}, 0, rt, w, fl == "-").build(spec(fl, w, "c") + " of an integer after " + q(pre)))
					if r <= utf8.MaxRune {
						add(newFmt().lit(pre).field(spec(fl, w, "U"), []string{lib.N(r)}, 0, fmt.Sprintf("%U", rune(r)), w, fl == "-").build(spec(fl, w, "U") + " after " + q(pre)))
						add(newFmt().lit(pre).field(spec(fl+"#", w+6, "U"), []string{lib.N(r)}, 0, fmt.Sprintf("%#U", rune(r)), w+6, fl == "-").build(spec(fl+"#", w+6, "U") + " after " + q(pre)))
						add(newFmt().lit(pre).field(spec(fl, w, "q"), []string{lib.N(r)}, 0, strconv.QuoteRune(rune(r)), w, fl == "-").build(spec(fl, w, "q") + " of an integer after " + q(pre)))
					} else {
						add(newFmt().lit(pre).raw(spec(fl, w, "q"), 0, lib.N(r)).build(spec(fl, w, "q") + " of an integer above the largest rune"))
					}
					// a char operand prints as its character under %v and %s
					add(newFmt().lit(pre).field(spec(fl, w, "v"), []string{ch}, 0, rt, w, fl == "-").build(spec(fl, w, "v") + " of a char after " + q(pre)))
					add(newFmt().lit(pre).field(spec(fl, w, "s"), []string{ch}, 0, rt, w, fl == "-").lit("世").build(spec(fl, w, "s") + " of a char between " + q(pre) + " and \"世\""))
					add(newFmt().lit(pre).raw(spec(fl, w, "c"), 0, ch).build(spec(fl, w, "c") + " of a char after " + q(pre)))
				}
			}
		}
		add(wideCase{name: "string(char)", src: "x := string(" + ch + ")\n", limit: "str", need: 0, guard: fmt.Sprintf("(guard string $L %d)", len(rt)), lo: 1})
		add(wideCase{name: "string(char) + string(char)", src: "c := " + ch + "\nx := string(c) + string(c) + string(c)\n", limit: "str", need: 0, guard: fmt.Sprintf("(guard stradd $L %d %d)", 2*len(rt), len(rt)), lo: 3})
		add(wideCase{name: "string([char, char])", src: "x := string([" + ch + ", " + ch + "])\n", limit: "str", need: 0, guard: "(guard string $L $B)"})
		add(wideCase{name: "map[char]=", src: "x := {}\nx[" + ch + "] = 1\n", limit: "str", need: 0, guard: fmt.Sprintf("(guard mapkey $L 0 %d)", len(rt)), lo: 1})
		add(wideCase{name: "bytes(string(char) + …)", src: "c := string(" + ch + ")\nx := bytes(c + c + c)\n", limit: "bytes", need: 0, guard: fmt.Sprintf("(guard bytes $L %d)", 3*len(rt)), lo: 3})
	}
	// --- ASCII operands inside wide literal text
	for _, lt := range []struct{ pre, post string }{{"é", "€"}, {"日本", "語"}, {"😀", ""}, {"", " é"}, {"á", "|"}} {
		for _, w := range []int{0, 1, 4, 7} {
			for _, fl := range []string{"", "-", "0"} {
				if w == 0 && fl != "" {
					continue
				}
				num := "5"
				if fl == "0" && w > 1 {
					num = strings.Repeat("0", w-1) + "5" // zero padding of numbers is written as digits
				}
				if fl == "0" {
					add(newFmt().lit(lt.pre).field(spec(fl, w, "d"), []string{"5"}, 0, num, 0, false).lit(lt.post).build(spec(fl, w, "d") + " between " + q(lt.pre) + " and " + q(lt.post)))
				} else {
					add(newFmt().lit(lt.pre).field(spec(fl, w, "d"), []string{"5"}, 0, num, w, fl == "-").lit(lt.post).build(spec(fl, w, "d") + " between " + q(lt.pre) + " and " + q(lt.post)))
				}
				add(newFmt().lit(lt.pre).field(spec(fl, w, "t"), []string{"true"}, 0, "true", w, fl == "-").lit(lt.post).build(spec(fl, w, "t") + " between " + q(lt.pre) + " and " + q(lt.post)))
				add(newFmt().lit(lt.pre).field(spec(fl, w, "T"), []string{"2.5"}, 0, "float", w, fl == "-").lit(lt.post).build(spec(fl, w, "T") + " between " + q(lt.pre) + " and " + q(lt.post)))
				add(newFmt().lit(lt.pre).raw(spec(fl, w, ".1f"), 0, "2.5").lit(lt.post).build(spec(fl, w, ".1f") + " between " + q(lt.pre) + " and " + q(lt.post)))
			}
		}
		add(newFmt().lit(lt.pre).lit(lt.post).build("literal text only: " + q(lt.pre+lt.post)))
		add(newFmt().lit(lt.pre).raw("%%", 0).lit(lt.post).build("text, %%, text"))
	}
	return cs
}

// xValue: the text of the global x (string, bytes, or the single key of a map).
func xValue(r *vmRun) (string, bool) {
	i, ok := r.names["x"]
	if !ok || r.globals[i] == nil {
		return "", false
	}
	switch v := r.globals[i].(type) {
	case *tengo.String:
		return v.Value, true
	case *tengo.Bytes:
		return string(v.Value), true
	case *tengo.Map:
		if len(v.Value) == 1 {
			for k := range v.Value {
				return k, true
			}
		}
	}
	return "", false
}

const refMax = 1 << 20

// reference runs src under maxima of 1 MiB without any oracle.
func reference(src string) (cp *lib.Compiled, run *vmRun, err error) {
	withLimits(cfg{refMax, refMax}, func() {
		cp, err = compile(src)
		if err != nil {
			return
		}
		run = runVM(cp, -1, false, false, 5*time.Second)
	})
	return
}

func wideSweep(wc wideCase) {
	_, ref, err := reference(wc.src)
	refText, ok := "", false
	if err == nil && !ref.timedOut && !ref.failed() {
		refText, ok = xValue(ref)
	}
	if !ok {
		e := "no value"
		if err != nil {
			e = err.Error()
		} else if ref.failed() {
			e = ref.errText()
		}
		res.Disagree(lib.Disagreement{Stream: "wide", Input: input{Kind: "boundary", Source: wc.src, MaxStr: refMax, MaxBytes: refMax, Note: wc.name},
			Model: "the operation succeeds under maxima of 1 MiB", Impl: clip(e, 200)})
		return
	}
	B, R := len(refText), rc(refText)
	lo := R
	if wc.lo > 0 && wc.lo < lo {
		lo = wc.lo
	}
	lo = max(lo-1, 1)
	want, other := "stringlimit", 4*B+64
	for L := lo; L <= B+1; L++ {
		c := cfg{L, other}
		if wc.limit == "bytes" {
			c, want = cfg{other, L}, "byteslimit"
		}
		note := fmt.Sprintf("%s: the result has %d bytes, %d runes", wc.name, B, R)
		in := input{Kind: "boundary", Source: wc.src, MaxStr: c.maxStr, MaxBytes: c.maxBytes, Note: note}
		o := runLen(wc.src, c, "wide", note)
		res.Count("wide", fmt.Sprint(wc.limit, L, "|", wc.src), true)
		got, val, e := "", "", ""
		switch {
		case o.compileErr != nil:
			got, e = "err "+isLimitErr(o.compileErr), o.compileErr.Error()
		case o.run.timedOut:
			continue
		case o.run.failed():
			got, e = "err "+isLimitErr(o.run.err), o.run.errText()
		default:
			v, ok := xValue(o.run)
			if !ok {
				got = "ok -1"
			} else {
				got, val = "ok "+lib.N(len(v)), v
			}
		}
		res.Dist("wide:" + strings.Fields(got)[0])
		if B > L && strings.HasPrefix(got, "err") && got != "err "+want {
			res.Violate(lib.Violation{Signature: "limit-failure-not-limit-error", Stream: "wide", Input: in, Observed: clip(e, 200),
				Expected: "the operation fails with the limit error (errors.Is " + want + ")", Oracle: "errors.Is / CompilerError.Err"})
		}
		// the reference: same value when operands and result fit, the limit error otherwise
		if wc.need >= 0 {
			exp := "ok " + lib.N(B)
			if L < wc.need || B > L {
				exp = "err " + want
			}
			if got != exp {
				res.Disagree(lib.Disagreement{Stream: "wide", Input: in, Model: exp + fmt.Sprintf(" (the same program under maxima of 1 MiB yields %d bytes; operands fit from %d)", B, wc.need), Impl: got + " " + clip(e, 120)})
			}
		}
		if strings.HasPrefix(got, "ok") && val != refText {
			res.Disagree(lib.Disagreement{Stream: "wide", Input: in, Model: "value under maxima of 1 MiB: " + clip(q(refText), 120), Impl: clip(q(val), 120)})
		}
		// the Lean guard on the same byte counts: at the boundary and at the low end of the window (a question costs
		// more than a run)
		if drv != nil && wc.guard != "" && wc.need >= 0 && L >= wc.need && (L == B-1 || L == B || L == max(R, wc.need)) {
			g := strings.ReplaceAll(strings.ReplaceAll(wc.guard, "$L", lib.N(L)), "$B", lib.N(B))
			if m := ask(g); m != got {
				res.Disagree(lib.Disagreement{Stream: "wide", Input: in, Model: m + " " + g, Impl: got})
			}
		}
	}
}

// ---- random programs with wide texts ----

var (
	wideAtoms = [][]string{
		{"\u00e9", "\u00df", "\u044f", "\u0085", "\u0301", "\u00a0"},
		{"\u20ac", "\u4e16", "\u30c6", "\u200b", "\ufffd", "\u2028"},
		{"\U0001F600", "\U0001D11E", "\U0010ffff"},
		{"\xff", "\xc3", "\x80", "\xed\xa0\x80", "\xf4\x90\x80\x80", "\xc0\xaf", "\xe2\x82", "\xf0\x9f\x98"},
		{"\"", "\\", "\n", "%", "`", "\x00"},
	}
)

// wtext: a text of exactly n bytes of ASCII letters, 2-4 byte runes and invalid bytes.
func wtext(r *lib.RNG, n int) string {
	var sb strings.Builder
	for sb.Len() < n {
		a := string(rune('a' + r.Intn(26)))
		if !r.Chance(2, 5) {
			a = lib.Pick(r, wideAtoms[r.Weighted([]int{4, 4, 3, 3, 1})])
		}
		if sb.Len()+len(a) > n {
			a = "z"
		}
		sb.WriteString(a)
	}
	return sb.String()
}

// wlit: a string literal of n bytes; no '%' so that it can be part of a format string.
func wlit(r *lib.RNG, n int) string {
	return q(strings.ReplaceAll(wtext(r, n), "%", "_"))
}

func collectTexts(o tengo.Object, seen map[tengo.Object]bool, out *[]string) {
	if o == nil || len(*out) > 64 {
		return
	}
	switch v := o.(type) {
	case *tengo.String:
		*out = append(*out, v.Value)
		return
	case *tengo.Bytes:
		*out = append(*out, string(v.Value))
		return
	}
	if seen[o] {
		return
	}
	seen[o] = true
	keys := func(m map[string]tengo.Object) {
		for k, x := range m {
			*out = append(*out, k)
			collectTexts(x, seen, out)
		}
	}
	switch v := o.(type) {
	case *tengo.Array:
		for _, x := range v.Value {
			collectTexts(x, seen, out)
		}
	case *tengo.ImmutableArray:
		for _, x := range v.Value {
			collectTexts(x, seen, out)
		}
	case *tengo.Map:
		keys(v.Value)
	case *tengo.ImmutableMap:
		keys(v.Value)
	case *tengo.Error:
		collectTexts(v.Value, seen, out)
	case *tengo.ObjectPtr:
		if v.Value != nil {
			collectTexts(*v.Value, seen, out)
		}
	case *tengo.CompiledFunction:
		for _, f := range v.Free {
			if f != nil && f.Value != nil {
				collectTexts(*f.Value, seen, out)
			}
		}
	}
}

// sweepProgram runs a random program under maxima of 1 MiB, takes every value it leaves behind whose rune
// count is below its byte count, and re-runs the program under (at most 12 of) the maxima in those windows
// and under L0. Maxima below the longest string constant of the program (it does not compile under those)
// are only used when there are no others.
func sweepProgram(src string, L0 int, stream, note string, r *lib.RNG) {
	set, low := map[int]bool{}, map[int]bool{}
	if cp, ref, err := reference(src); err == nil && !ref.timedOut {
		longest := 0
		for _, k := range cp.BC.Constants {
			if s, ok := k.(*tengo.String); ok {
				longest = max(longest, len(s.Value))
			}
		}
		var texts []string
		seen := map[tengo.Object]bool{}
		for _, i := range ref.names {
			collectTexts(ref.globals[i], seen, &texts)
		}
		for _, t := range texts {
			for L := max(rc(t), 4); L < len(t) && L < rc(t)+40; L++ {
				if L >= longest {
					set[L] = true
				} else {
					low[L] = true
				}
			}
		}
		if L0 >= longest {
			set[L0] = true
		}
	}
	if len(set) == 0 {
		set = low
		set[L0] = true
	}
	var limits []int
	for L := range set {
		limits = append(limits, L)
	}
	sort.Ints(limits)
	for len(limits) > 12 {
		i := r.Intn(len(limits))
		limits = append(limits[:i], limits[i+1:]...)
	}
	for _, L := range limits {
		c := cfg{L, L}
		if r.Chance(1, 4) {
			c.maxBytes = 4*L + 64
		}
		o := runLen(src, c, stream, note)
		nt := o.run != nil && !o.run.timedOut
		res.Count(stream, fmt.Sprint(L, c.maxBytes, src), nt)
		switch {
		case o.compileErr != nil:
			res.Dist(stream + ":compile-" + isLimitErr(o.compileErr))
		case o.run.failed():
			res.Dist(stream + ":run-err-" + isLimitErr(o.run.err))
		default:
			res.Dist(stream + ":ok")
		}
	}
	res.Dist(fmt.Sprintf("%s:maxima-per-program:%d", stream, len(limits)))
}

func wideStream(r *lib.RNG) {
	defer func(p int) { primeLen = p }(primeLen)
	primeLen = 1024 // as the boundary stream: what is found does not depend on the printers earlier cases left
	for _, wc := range wideCases() {
		wideSweep(wc)
	}
	for i, n := 0, flags.Scale(300, 8000); i < n; i++ {
		rr := r.Fork()
		L0 := lib.Pick(rr, []int{8, 12, 16, 24, 40})
		src := genStrProg(rr, L0, true)
		sweepProgram(src, L0, "length-wide", "random string program with wide texts", rr)
		if i == 0 {
			res.Sample(map[string]interface{}{"stream": "length-wide", "source": clip(src, 600)}, 10)
		}
	}
	for i, n := 0, flags.Scale(300, 8000); i < n; i++ {
		rr := r.Fork()
		L0 := lib.Pick(rr, []int{8, 12, 16, 24, 40})
		pre, note := "", "random padded format calls with wide texts"
		primeLen = 1024
		if L0 > 8 && rr.Chance(1, 3) {
			primeLen = 0
			pre, note = pregrow(L0), note+grownNote
		}
		src := genPadProg(rr, L0, pre, true)
		sweepProgram(src, L0, "padding-wide", note, rr)
		if i == 0 {
			res.Sample(map[string]interface{}{"stream": "padding-wide", "source": clip(src, 600)}, 12)
		}
	}
}

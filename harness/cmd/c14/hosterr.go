package main

// Host-provided code that fails with the HOST'S OWN error chain (round 10, seed C14-m13).
//
// The property's last clause: "errors returned by host-provided functions ... remain recognisable through error
// unwrapping". Until this round the host side knew three errors (a plain sentinel, a pointer struct, one
// fmt.Errorf("%w") around the plain sentinel) returned by one UserFunction of the builtin module. The population
// here is the family "what a host-provided function can return":
//
//	who fails     a UserFunction, a BuiltinFunction, a callable host object, a function held in a host map / array,
//	              a copy of it; the BinaryOp / IndexGet / IndexSet methods of a host object (through OpIndex, the
//	              three selector assignments, compound assignment); reached as an attribute of a builtin module (main
//	              and source modules) or as a script variable (Script.Add / pre-defined global)
//	chain shape   bare value; the host's pointer struct / value struct with Unwrap; fmt.Errorf("%w"); fmt.Errorf with
//	              two %w; errors.Join; a type with Unwrap() []error; a type matched through its Is method; a wrapper
//	              WITHOUT Unwrap (message only); 1..3 of them nested
//	cause (leaf)  the host's own values, EVERY exported error value of the engine (the two argument errors, the
//	              operator / index errors the VM re-words, and the limit sentinels), common library errors
//
// Oracle (states the property; knows nothing about the VM): let h be the value the host function returned and e the
// error of the run. Every way of recognising something in h must work on e:
//
//	errors.Is(h, n)  =>  errors.Is(e, n)          for every node n reachable from h through Unwrap
//	errors.As(h, *T) finds v  =>  errors.As(e, *T) finds the same v     for the concrete type T of every node
//	(and for a fresh target accepted by a node's Is method)
//
// plus the location oracle of every other case (first `at` inside the failing statement, one entry per frame).
// The one exemption: h ITSELF (no wrapper) is one of the engine's seven "convention" values (ErrWrongNumArguments,
// ErrInvalidArgumentType{}, ErrInvalidOperator, ErrNotIndexable, ErrInvalidIndexType, ErrNotIndexAssignable,
// ErrInvalidIndexValueType): the VM re-words those (callee / operand type names) without %w — observation 4 of
// notes/C14.md; such a value carries nothing of the host. Counted (`host-bare-convention-error`), locations judged.

import (
	"context"
	"errors"
	"fmt"
	"io"
	"io/fs"
	"reflect"
	"sort"
	"strconv"
	"strings"
	"time"

	"github.com/d5/tengo/v2"
	"github.com/d5/tengo/v2/token"
	"verifharness/lib"
)

type hostPlan struct {
	Op    string   `json:"op"`             // which host-provided function raises: call | binop | index-get | index-set
	Chain []string `json:"chain"`          // wrappers, outermost first; the last element names the leaf
	Vars  bool     `json:"vars,omitempty"` // the host objects are script variables h_uf, h_bf, h_obj, h_tbl, h_box (main only)
}

// ---------------------------------------------------------------------------
// the host's error types

type hostPtrErr struct {
	Op  string
	Err error
}

func (e *hostPtrErr) Error() string { return e.Op + ": " + e.Err.Error() }
func (e *hostPtrErr) Unwrap() error { return e.Err }

type hostValErr struct {
	Code int
	Err  error
}

func (e hostValErr) Error() string { return "host code " + strconv.Itoa(e.Code) + ": " + e.Err.Error() }
func (e hostValErr) Unwrap() error { return e.Err }

// hostIsErr is recognised by kind through its Is method (any *hostIsErr target of the same kind), as net / os errors are.
type hostIsErr struct {
	Kind string
	Err  error
}

func (e *hostIsErr) Error() string {
	if e.Err == nil {
		return "host kind " + e.Kind
	}
	return "host kind " + e.Kind + ": " + e.Err.Error()
}
func (e *hostIsErr) Unwrap() error { return e.Err }
func (e *hostIsErr) Is(t error) bool {
	o, ok := t.(*hostIsErr)
	return ok && o.Kind == e.Kind
}

type hostMultiErr struct{ Errs []error }

func (e *hostMultiErr) Error() string {
	var p []string
	for _, x := range e.Errs {
		p = append(p, x.Error())
	}
	return "host multi [" + strings.Join(p, "; ") + "]"
}
func (e *hostMultiErr) Unwrap() []error { return e.Errs }

var (
	errHostLeaf = errors.New("quota exceeded")
	errHostAux  = errors.New("retry budget spent")
)

type hostLeafT struct {
	name string
	mk   func() error
}

func fixed(e error) func() error { return func() error { return e } }

var hostLeaves = []hostLeafT{
	{"own", fixed(errHostLeaf)},
	{"own-struct", func() error { return &hostErrT{Code: 42} }},
	{"ErrWrongNumArguments", fixed(tengo.ErrWrongNumArguments)},
	{"ErrInvalidArgumentType", func() error {
		return tengo.ErrInvalidArgumentType{Name: "sql", Expected: "string", Found: "int"}
	}},
	{"ErrInvalidOperator", fixed(tengo.ErrInvalidOperator)},
	{"ErrNotIndexable", fixed(tengo.ErrNotIndexable)},
	{"ErrInvalidIndexType", fixed(tengo.ErrInvalidIndexType)},
	{"ErrNotIndexAssignable", fixed(tengo.ErrNotIndexAssignable)},
	{"ErrInvalidIndexValueType", fixed(tengo.ErrInvalidIndexValueType)},
	{"ErrIndexOutOfBounds", fixed(tengo.ErrIndexOutOfBounds)},
	{"ErrObjectAllocLimit", fixed(tengo.ErrObjectAllocLimit)},
	{"ErrStackOverflow", fixed(tengo.ErrStackOverflow)},
	{"ErrStringLimit", fixed(tengo.ErrStringLimit)},
	{"ErrBytesLimit", fixed(tengo.ErrBytesLimit)},
	{"ErrInvalidIndexOnError", fixed(tengo.ErrInvalidIndexOnError)},
	{"ErrNotImplemented", fixed(tengo.ErrNotImplemented)},
	{"ErrInvalidRangeStep", fixed(tengo.ErrInvalidRangeStep)},
	{"io.EOF", fixed(io.EOF)},
	{"context.Canceled", fixed(context.Canceled)},
	{"context.DeadlineExceeded", fixed(context.DeadlineExceeded)},
	{"fs.ErrNotExist", func() error { return &fs.PathError{Op: "open", Path: "/data/t.db", Err: fs.ErrNotExist} }},
	{"strconv.NumError", func() error { return &strconv.NumError{Func: "Atoi", Num: "x1", Err: strconv.ErrSyntax} }},
}

// the leaves the VM has a re-wording for (the region of the seed and of its siblings) and three controls
var hostCriticalLeaves = []string{"ErrWrongNumArguments", "ErrInvalidArgumentType", "ErrInvalidOperator", "ErrNotIndexable", "ErrInvalidIndexType",
	"ErrNotIndexAssignable", "ErrInvalidIndexValueType", "ErrIndexOutOfBounds", "ErrObjectAllocLimit", "own"}

var hostWrappers = []string{"ptr", "val", "fmtw", "fmtw2", "join", "multi", "isser", "opaque"}

// the engine's convention values: returned BARE they are re-worded by the VM (see the head of this file)
func isConvention(e error) bool {
	switch e {
	case tengo.ErrWrongNumArguments, tengo.ErrInvalidOperator, tengo.ErrNotIndexable, tengo.ErrInvalidIndexType,
		tengo.ErrNotIndexAssignable, tengo.ErrInvalidIndexValueType:
		return true
	}
	_, ok := e.(tengo.ErrInvalidArgumentType)
	return ok
}

func leafByName(n string) (hostLeafT, bool) {
	for _, l := range hostLeaves {
		if l.name == n {
			return l, true
		}
	}
	return hostLeafT{}, false
}

// buildHostErr makes the error value of a plan (fresh objects every time, deterministic texts).
func buildHostErr(chain []string) (error, bool) {
	if len(chain) == 0 {
		return nil, false
	}
	l, ok := leafByName(chain[len(chain)-1])
	if !ok {
		return nil, false
	}
	e := l.mk()
	for i := len(chain) - 2; i >= 0; i-- {
		switch chain[i] {
		case "ptr":
			e = &hostPtrErr{Op: "db.query", Err: e}
		case "val":
			e = hostValErr{Code: 7 + i, Err: e}
		case "fmtw":
			e = fmt.Errorf("tenant %d: %w", 7+i, e)
		case "fmtw2":
			e = fmt.Errorf("%w (after: %w)", e, errHostAux)
		case "join":
			e = errors.Join(errHostAux, e)
		case "multi":
			e = &hostMultiErr{Errs: []error{errHostAux, e}}
		case "isser":
			e = &hostIsErr{Kind: "timeout", Err: e}
		case "opaque":
			e = fmt.Errorf("host note: %v", e)
		default:
			return nil, false
		}
	}
	return e, true
}

// ---------------------------------------------------------------------------
// ways of recognising something in an error (Go's errors package only)

type recog struct {
	desc string
	test func(e error) (found bool, val interface{})
}

// reach lists every node reachable from e through Unwrap() error / Unwrap() []error (pre-order, as errors.Is walks).
func reach(e error) []error {
	var out []error
	var walk func(error)
	walk = func(x error) {
		if x == nil || len(out) > 64 {
			return
		}
		out = append(out, x)
		switch u := x.(type) {
		case interface{ Unwrap() error }:
			walk(u.Unwrap())
		case interface{ Unwrap() []error }:
			for _, y := range u.Unwrap() {
				walk(y)
			}
		}
	}
	walk(e)
	return out
}

func recognisers(h error) []recog {
	var out []recog
	seenT := map[reflect.Type]bool{}
	for i, n := range reach(h) {
		n := n
		t := reflect.TypeOf(n)
		what := fmt.Sprintf("node %d (%s %q)", i, t, clip(n.Error(), 60))
		if t.Comparable() {
			out = append(out, recog{"errors.Is(err, " + what + ")", func(e error) (bool, interface{}) { return errors.Is(e, n), nil }})
		}
		if !seenT[t] && hostCanName(t) {
			seenT[t] = true
			out = append(out, recog{"errors.As(err, *" + t.String() + ")", func(e error) (bool, interface{}) {
				target := reflect.New(t)
				if !errors.As(e, target.Interface()) {
					return false, nil
				}
				return true, target.Elem().Interface()
			}})
		}
		if k, ok := n.(*hostIsErr); ok {
			kind := k.Kind
			out = append(out, recog{"errors.Is(err, &hostIsErr{Kind: " + kind + "}) (fresh target, Is method)", func(e error) (bool, interface{}) {
				return errors.Is(e, &hostIsErr{Kind: kind}), nil
			}})
		}
	}
	return out
}

// hostCanName: errors.As needs a target of the type, so only types a host program can write down count (its own
// types and exported library types; not fmt's and errors' private wrappers, which the VM's own decoration uses too).
func hostCanName(t reflect.Type) bool {
	if t.Kind() == reflect.Ptr {
		t = t.Elem()
	}
	if t.Name() == "" {
		return false
	}
	return t.PkgPath() == "main" || (t.Name()[0] >= 'A' && t.Name()[0] <= 'Z')
}

func sameVal(a, b interface{}) (eq bool) {
	defer func() {
		if recover() != nil {
			eq = false
		}
	}()
	return a == b
}

// ---------------------------------------------------------------------------
// the host objects

type hostState struct {
	err      error
	recs     []recog
	raised   int
	ops      []string
	bare     bool
	reported map[string]bool
}

var hostCur *hostState

var hostClosedReported = map[string]bool{}

func hostRaise(op string) error {
	if hostCur == nil {
		return errHost
	}
	hostCur.raised++
	hostCur.ops = append(hostCur.ops, op)
	return hostCur.err
}

// hostObj is a host-provided object type: callable, with operators and selectors, all implemented by the host.
type hostObj struct {
	tengo.ObjectImpl
	name  string
	inner *hostObj
}

func (o *hostObj) TypeName() string           { return "host-object:" + o.name }
func (o *hostObj) String() string             { return "<host-object " + o.name + ">" }
func (o *hostObj) Copy() tengo.Object         { return o }
func (o *hostObj) IsFalsy() bool              { return false }
func (o *hostObj) Equals(x tengo.Object) bool { return x == tengo.Object(o) }
func (o *hostObj) CanCall() bool              { return true }
func (o *hostObj) Call(args ...tengo.Object) (tengo.Object, error) {
	return nil, hostRaise("call")
}
func (o *hostObj) BinaryOp(op token.Token, rhs tengo.Object) (tengo.Object, error) {
	return nil, hostRaise("binop")
}
func (o *hostObj) IndexGet(index tengo.Object) (tengo.Object, error) {
	if s, ok := index.(*tengo.String); ok && s.Value == "inner" && o.inner != nil {
		return o.inner, nil
	}
	return nil, hostRaise("index-get")
}
func (o *hostObj) IndexSet(index, value tengo.Object) error {
	return hostRaise("index-set")
}

// hostCallables are the attributes added to the builtin module `host` (and, with Vars, the script variables h_<name>).
func hostCallables() map[string]tengo.Object {
	fn := func(args ...tengo.Object) (tengo.Object, error) { return nil, hostRaise("call") }
	obj := &hostObj{name: "obj"}
	return map[string]tengo.Object{
		"uf":  &tengo.UserFunction{Name: "uf", Value: fn},
		"bf":  &tengo.BuiltinFunction{Name: "bf", Value: fn},
		"obj": obj,
		"box": &hostObj{name: "box", inner: &hostObj{name: "inner"}},
		"tbl": &tengo.Map{Value: map[string]tengo.Object{
			"fn":   &tengo.UserFunction{Name: "tbl.fn", Value: fn},
			"list": &tengo.Array{Value: []tengo.Object{&tengo.Int{Value: 0}, &tengo.BuiltinFunction{Name: "listed", Value: fn}, obj}},
		}},
	}
}

var hostVarList = []string{"h_bf", "h_box", "h_obj", "h_tbl", "h_uf"}

func hostVarNames(c *caseT) []string {
	if c.Host == nil || !c.Host.Vars {
		return nil
	}
	return hostVarList
}

func hostVarObjects(c *caseT) map[string]tengo.Object {
	if c.Host == nil || !c.Host.Vars {
		return nil
	}
	out := map[string]tengo.Object{}
	for k, v := range hostCallables() {
		out["h_"+k] = v
	}
	return out
}

// curCase is the case being checked (runDirect / runScript read the host variables from it).
var curCase *caseT

func setHostGlobals(cp *lib.Compiled, globals []tengo.Object) {
	if curCase == nil {
		return
	}
	for name, o := range hostVarObjects(curCase) {
		if sym, _, ok := cp.Symbols.Resolve(name, false); ok && sym.Scope == tengo.ScopeGlobal {
			globals[sym.Index] = o
		}
	}
}

func addHostVars(s *tengo.Script) {
	if curCase == nil {
		return
	}
	vars := hostVarObjects(curCase)
	names := make([]string, 0, len(vars))
	for n := range vars {
		names = append(names, n)
	}
	sort.Strings(names)
	for _, n := range names {
		_ = s.Add(n, vars[n])
	}
}

func armHost(c *caseT) bool {
	e, ok := buildHostErr(c.Host.Chain)
	if !ok {
		return false
	}
	st := &hostState{err: e, bare: isConvention(e), reported: map[string]bool{}}
	st.recs = recognisers(e)
	// by construction every recogniser accepts the host's own value
	for _, r := range st.recs {
		if f, _ := r.test(e); !f {
			return false
		}
	}
	hostCur = st
	return true
}

func disarmHost() { hostCur = nil }

// hostOracle: everything recognisable in the value the host returned is recognisable in the error of the run.
func hostOracle(c *caseT, err error, path string) bool {
	st := hostCur
	if st == nil {
		return true
	}
	key := strings.Join(c.Host.Chain, ">")
	res.Count("unwrap", "host|"+c.Host.Op+"|"+key+"|"+path+"|"+c.Shape, true)
	res.Dist("host-op:" + c.Host.Op)
	res.Dist("host-leaf:" + c.Host.Chain[len(c.Host.Chain)-1])
	for _, w := range c.Host.Chain[:len(c.Host.Chain)-1] {
		res.Dist("host-wrapper:" + w)
	}
	if len(c.Host.Chain) == 1 {
		res.Dist("host-wrapper:none")
	}
	if st.bare {
		res.Dist("host-bare-convention-error")
		return true
	}
	ok := true
	for i, r := range st.recs {
		_, want := r.test(st.err)
		found, got := r.test(err)
		sig := ""
		switch {
		case !found && i == 0:
			sig = "host-error-not-recognisable-through-unwrap"
		case !found && strings.HasPrefix(r.desc, "errors.As"):
			sig = "host-error-type-not-recoverable-with-errors-as"
		case !found:
			sig = "host-error-cause-not-recognisable-through-unwrap"
		case want != nil && !sameVal(want, got):
			sig = "host-error-errors-as-yields-another-value"
		}
		if sig != "" {
			pop := "generated"
			if strings.HasPrefix(c.Shape, "closed") {
				pop = "closed-form"
			}
			res.Dist("host-violation:" + sig + ":" + pop + ":" + c.Host.Op)
			if st.reported[sig] { // one entry per case and signature (three API paths see the same value)
				return false
			}
			st.reported[sig] = true
			if pop == "closed-form" { // one closed form per signature in the report, the other entries show generated programs
				if hostClosedReported[sig] {
					return false
				}
				hostClosedReported[sig] = true
			}
			res.Violate(lib.Violation{Signature: sig, Stream: "unwrap", Input: c, Observed: clip(err.Error(), 300),
				Expected: r.desc + " holds for the error of the run as it does for the value the host function returned (" + clip(st.err.Error(), 120) + ")",
				Oracle:   path + ": errors returned by host-provided functions remain recognisable through error unwrapping"})
			ok = false
			break
		}
	}
	return ok
}

// hostRunContext judges the third public path (Compiled.RunContext: the error crosses a goroutine and a channel).
func hostRunContext(c *caseT) {
	s := tengo.NewScript([]byte(c.Main))
	s.SetImports(moduleMap(c))
	addHostVars(s)
	cp, e := s.Compile()
	if e != nil {
		return
	}
	ctx, cancel := context.WithTimeout(context.Background(), 20*time.Second)
	defer cancel()
	before := hostCur.raised
	err := cp.RunContext(ctx)
	if err == nil || hostCur.raised != before+1 {
		genBug(c, fmt.Sprintf("RunContext: err=%v raised=%d", err, hostCur.raised-before))
		return
	}
	oracle(c, err, "Script.Compile+Compiled.RunContext")
	// a clone runs on copies of the globals
	cl := cp.Clone()
	before = hostCur.raised
	err = cl.Run()
	if err == nil || hostCur.raised != before+1 {
		genBug(c, fmt.Sprintf("Clone.Run: err=%v raised=%d", err, hostCur.raised-before))
		return
	}
	oracle(c, err, "Script.Compile+Compiled.Clone+Run")
}

// ---------------------------------------------------------------------------
// populations

type hostKindT struct {
	op    string
	expr  string // @ = "host." or "h_"
	stmt  string
	setup []string
}

var hostKinds = []hostKindT{
	{op: "call", expr: `@uf(vI)`},
	{op: "call", expr: `@uf()`},
	{op: "call", expr: `@uf(vA...)`},
	{op: "call", expr: `@uf(vS, [vI, 2], {k: vF})`},
	{op: "call", expr: `@bf(vS, vI)`},
	{op: "call", expr: `@obj(vI)`},
	{op: "call", expr: `@tbl.fn(vI)`},
	{op: "call", expr: `@tbl.list[1](vI)`},
	{op: "call", expr: `@tbl.list[2]()`},
	{op: "call", expr: `copy(@uf)(1)`},
	{op: "binop", expr: `@obj + vI`},
	{op: "binop", expr: `@obj * 2`},
	{op: "binop", expr: `@obj > vS`},
	{op: "binop", expr: `@obj - @obj`},
	{op: "index-get", expr: `@obj.name`},
	{op: "index-get", expr: `@obj["k"]`},
	{op: "index-get", expr: `@obj[vI]`},
	{op: "index-get", expr: `@box.inner.zz`},
	{op: "index-set", stmt: `@obj.x = 1`},
	{op: "index-set", stmt: `@box.inner.y = vI`},
	{op: "index-get", stmt: `@box.q.z = 1`},
	{op: "index-set", stmt: `@obj[0] = vS`},
	{op: "index-get", stmt: `@obj.n += 1`},
	{op: "index-set", stmt: `vH.x = 1`, setup: []string{`vH := @obj`}},
	{op: "index-set", stmt: "vH[vI] =\n%J[1]", setup: []string{`vH := @obj`}},
	{op: "index-get", stmt: `vHB.q.z = 1`, setup: []string{`vHB := @box`}},
	{op: "index-set", stmt: `vHB.inner.w = 2`, setup: []string{`vHB := @box`}},
	{op: "binop", stmt: `vH += 1`, setup: []string{`vH := @obj`}},
	{op: "binop", stmt: `vH--`, setup: []string{`vH := @obj`}},
}

func hostCase(r *lib.RNG, hk hostKindT, chain []string, vars bool, place int) *caseT {
	g := newGen(r)
	pre := "host."
	if vars {
		pre = "h_"
		g.forceMod = "none"
	}
	sub := func(s string) string { return strings.ReplaceAll(s, "@", pre) }
	g.kind = kindT{name: "host-" + hk.op, expr: sub(hk.expr), stmt: sub(hk.stmt)}
	for _, s := range hk.setup {
		g.extraSetup = append(g.extraSetup, sub(s))
	}
	g.forcePlace = place
	c := g.build()
	c.Host = &hostPlan{Op: hk.op, Chain: chain, Vars: vars}
	c.Shape += " host-chain:" + strings.Join(chain, ">")
	if vars {
		c.Shape += " host-vars"
	}
	return c
}

func hostSystematic(r *lib.RNG) {
	n := 0
	// every chain shape of length <= 1 x every leaf
	for _, w := range append([]string{""}, hostWrappers...) {
		for _, l := range hostLeaves {
			chain := []string{l.name}
			if w != "" {
				chain = []string{w, l.name}
			}
			n++
			checkCase(hostCase(r.Fork(), hostKinds[n%len(hostKinds)], chain, n%5 == 0, -1))
		}
	}
	// every host-provided function x every leaf the VM has a re-wording for, under a rotating wrapper
	for i, hk := range hostKinds {
		for j, l := range hostCriticalLeaves {
			n++
			w := hostWrappers[(i+j)%(len(hostWrappers)-1)] // (not `opaque`: the leaf would be out of reach)
			checkCase(hostCase(r.Fork(), hk, []string{w, l}, n%4 == 0, -1))
		}
	}
	// every placement of a failing expression once
	for p := 0; p < len(placeTemplates); p++ {
		n++
		hk := hostKinds[n%18] // the expression kinds
		checkCase(hostCase(r.Fork(), hk, []string{hostWrappers[p%3], hostCriticalLeaves[p%2]}, false, p))
	}
}

func hostRandom(r *lib.RNG, n int) {
	for i := 0; i < n; i++ {
		rr := r.Fork()
		var chain []string
		for k := rr.Weighted([]int{10, 45, 30, 15}); k > 0; k-- {
			chain = append(chain, lib.Pick(rr, hostWrappers))
		}
		if rr.Chance(1, 2) {
			chain = append(chain, lib.Pick(rr, hostCriticalLeaves))
		} else {
			chain = append(chain, lib.Pick(rr, hostLeaves).name)
		}
		checkCase(hostCase(rr.Fork(), lib.Pick(rr, hostKinds), chain, rr.Chance(1, 4), -1))
	}
}

// closed forms: the shapes of the seed's description (a UserFunction given as a script variable, called two frames
// deep) and the selector assignments through a local and through a captured variable, which the generator's
// variables (file level or innermost body) do not produce.
func hostClosedForms() []caseT {
	var out []caseT
	add := func(c caseT, op string, vars bool, chain ...string) {
		c.Host = &hostPlan{Op: op, Chain: chain, Vars: vars}
		c.Shape += " host-chain:" + strings.Join(chain, ">")
		out = append(out, c)
	}
	query := "rows := 0\nrun := func(q) {\n\tn := 1\n\tr := h_uf(q, n)\n\treturn r\n}\nrows = run(42) + 1\n"
	for _, w := range []string{"ptr", "fmtw", "val"} {
		for _, l := range []string{"own", "ErrWrongNumArguments", "ErrInvalidArgumentType", "ErrIndexOutOfBounds"} {
			add(closedCase("host-call", "closed host-variable", "", "", query, nil, mainName, "r := h_uf(q, n)", "h_uf(",
				[][3]string{{mainName, "rows = run(42) + 1", "run(42)"}}), "call", true, w, l)
		}
	}
	add(closedCase("host-call", "closed host-variable", "", "", query, nil, mainName, "r := h_uf(q, n)", "h_uf(",
		[][3]string{{mainName, "rows = run(42) + 1", "run(42)"}}), "call", true, "ptr", "fmtw", "own")
	free := "mk := func() {\n\to := h_obj\n\treturn func(v) {\n\t\to.field = v\n\t}\n}\nset := mk()\nset(5)\n"
	for _, l := range []string{"ErrNotIndexAssignable", "ErrInvalidIndexValueType", "own-struct"} {
		add(closedCase("host-index-set", "closed host-setsel-free", "", "", free, nil, mainName, "o.field = v", "o.field",
			[][3]string{{mainName, "set(5)", "set("}}), "index-set", true, "ptr", l)
	}
	local := "f := func() {\n\to := h_box\n\to.q.z = 1\n\treturn 0\n}\nf()\n"
	for _, l := range []string{"ErrNotIndexable", "ErrInvalidIndexType", "own"} {
		add(closedCase("host-index-get", "closed host-setsel-local", "", "", local, nil, mainName, "o.q.z = 1", "o.q",
			[][3]string{{mainName, "f()", "f("}}), "index-get", true, "val", l)
	}
	mod := "host := import(\"host\")\nexport func(x) {\n  y := host.obj + x\n  return y\n}\n"
	for _, l := range []string{"ErrInvalidOperator", "ErrStackOverflow"} {
		add(closedCase("host-binop", "closed host-in-module", "", "", "f := import(\"hm\")\nout := f(1)\n", map[string]string{"hm": mod}, "hm",
			"y := host.obj + x", "host.obj +", [][3]string{{mainName, "out := f(1)", "f(1)"}}), "binop", false, "join", l)
	}
	return out
}

func init() {
	corpus = append(corpus, hostClosedForms()...)
}

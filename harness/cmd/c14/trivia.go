package main

import (
	"fmt"
	"os"
	"sort"
	"strings"

	"verifharness/lib"
)

// Trivia: text the scanner skips — block comments (with and without newlines, with CR, with `*` and `/` inside,
// very long), line comments, blank lines, \r\n line ends, tabs, multi-byte characters, a byte order mark — and
// tokens that span lines (raw strings). None of it changes what a program does; all of it moves the bytes of the
// statements, and the newlines in it move the LINES. A reported `file:line:col` is mapped back onto the source
// text by counting '\n' bytes (offsetOf: independent of the scanner's line table), so a location computed with a
// line table that missed a newline (seeded change C14-m11: `/* … */` skipped with one bytes.Index jump) lands in
// another statement, in the comment, or outside the text.
//
// A trivia case is an ordinary case (generator / boundary / closed form) after pure INSERTIONS into its files;
// the recorded statement spans and operation offsets are shifted by the same insertions (and cross-checked
// against the real parser as always, which also rejects an insertion that changed the statement structure).
//
// Second oracle (stream `trivia`, a correspondence): the locations reported for the program with trivia are the
// SAME source bytes as the locations reported without it (offset of the i-th `at`, mapped through the insertions).

type edit struct {
	off  int
	text string
}

func cloneCase(c *caseT) *caseT {
	d := *c
	if c.Modules != nil {
		d.Modules = map[string]string{}
		for k, v := range c.Modules {
			d.Modules[k] = v
		}
	}
	d.Calls = append([]span(nil), c.Calls...)
	d.CallOffs = append([]int(nil), c.CallOffs...)
	d.track = append([]span(nil), c.track...)
	return &d
}

// applyEdits returns a copy of c with the texts inserted into one file (an insertion at offset p goes BEFORE
// byte p) and every span / offset of that file shifted.
func applyEdits(c *caseT, file string, eds []edit) *caseT {
	d := cloneCase(c)
	if len(eds) == 0 {
		return d
	}
	sort.SliceStable(eds, func(i, j int) bool { return eds[i].off < eds[j].off })
	src := c.src(file)
	var b strings.Builder
	prev := 0
	for _, e := range eds {
		b.WriteString(src[prev:e.off])
		b.WriteString(e.text)
		prev = e.off
	}
	b.WriteString(src[prev:])
	if file == mainName {
		d.Main = b.String()
	} else {
		d.Modules[file] = b.String()
	}
	newOff := func(p int) int {
		n := p
		for _, e := range eds {
			if e.off <= p {
				n += len(e.text)
			}
		}
		return n
	}
	mapSpan := func(s span) span {
		if s.File != file || s.Hi <= s.Lo {
			return s
		}
		return span{s.File, newOff(s.Lo), newOff(s.Hi-1) + 1}
	}
	d.Fail = mapSpan(d.Fail)
	if d.Fail.File == file {
		d.FailOff = newOff(d.FailOff)
	}
	for i := range d.Calls {
		if d.Calls[i].File == file {
			d.CallOffs[i] = newOff(d.CallOffs[i])
		}
		d.Calls[i] = mapSpan(d.Calls[i])
	}
	for i := range d.track {
		d.track[i] = mapSpan(d.track[i])
	}
	return d
}

// ---------------------------------------------------------------------------
// where trivia may go: found by a scan of the bytes (no use of the repository's scanner)

type cand struct {
	off  int
	line bool // start of a line (before the indentation); else: right after a token that cannot end a statement
}

func isIdentByte(b byte) bool {
	return b == '_' || (b >= '0' && b <= '9') || (b >= 'a' && b <= 'z') || (b >= 'A' && b <= 'Z') || b >= 0x80
}

var safeOps = []string{":=", "=", "==", "!=", "+", "-", "*", "/", "%", "&", "|", "^", "&^", "<<", ">>", "<", "<=", ">", ">=", "&&", "||", "?", ":",
	"+=", "-=", "*=", "/="}
var safeKeywords = []string{"if", "for", "in", "else"}

// triviaCands lists the insertion points of src: line starts outside strings and comments, and the offsets
// right after `(` `[` `,` `{`, after a binary / assignment operator written with blanks around it, after `k: `
// and after the keywords if / for / in / else. After all of these the scanner's pending-semicolon flag is off,
// so even a newline changes nothing.
func triviaCands(src string) []cand {
	out := []cand{{0, true}}
	n := len(src)
	i := 0
	for i < n {
		ch := src[i]
		switch {
		case ch == '"' || ch == '\'':
			j := i + 1
			for j < n && src[j] != ch && src[j] != '\n' {
				if src[j] == '\\' {
					j++
				}
				j++
			}
			i = j + 1
		case ch == '`':
			j := strings.IndexByte(src[i+1:], '`')
			if j < 0 {
				return out
			}
			i = i + 1 + j + 1
		case ch == '/' && i+1 < n && src[i+1] == '/':
			j := strings.IndexByte(src[i:], '\n')
			if j < 0 {
				return out
			}
			i += j
		case ch == '/' && i+1 < n && src[i+1] == '*':
			j := strings.Index(src[i+2:], "*/")
			if j < 0 {
				return out
			}
			i = i + 2 + j + 2
		case ch == '\n':
			i++
			out = append(out, cand{i, true})
		case ch == '(' || ch == '[' || ch == ',' || ch == '{':
			i++
			out = append(out, cand{i, false})
		case ch == ':' && i+1 < n && src[i+1] == ' ':
			i += 2
			out = append(out, cand{i, false})
		case ch == ' ':
			matched := false
			for _, op := range safeOps {
				if strings.HasPrefix(src[i+1:], op+" ") {
					i += len(op) + 2
					out = append(out, cand{i, false})
					matched = true
					break
				}
			}
			if !matched {
				i++
			}
		case isIdentByte(ch) && (i == 0 || !isIdentByte(src[i-1])):
			j := i
			for j < n && isIdentByte(src[j]) {
				j++
			}
			word := src[i:j]
			i = j
			for _, kw := range safeKeywords {
				if word == kw && j < n && src[j] == ' ' {
					i = j + 1
					out = append(out, cand{i, false})
				}
			}
		default:
			i++
		}
	}
	return out
}

// ---------------------------------------------------------------------------
// the trivia texts

type triviaT struct {
	name string
	text string
	stmt bool // a whole statement (needs a line where a statement starts)
	allc bool // … that allocates when it runs (kept out of allocation-limit cases: it would be the statement that fails)
}

func os_debug() bool { return os.Getenv("C14_DEBUG") != "" }

var bomText = "\xEF\xBB\xBF"

// at a line start; the code of the line follows the text
var lineTrivia = []triviaT{
	{"block3", "/*\n * lookup table used below\n */\n", false, false},
	{"block2-same-line", "/* first line\n   second line */ ", false, false},
	{"line-comment", "// note: nothing to see\n", false, false},
	{"blank-lines", "\n\n\n", false, false},
	{"block1", "/* one line */ ", false, false},
	{"block-crlf", "/*\r\n * crlf inside\r\n */\r\n", false, false},
	{"tab", "\t", false, false},
	{"multibyte-comment", "/* héllo → ≠ 世界 */ ", false, false},
	{"block40", "/*" + strings.Repeat("\n", 40) + "*/\n", false, false},
	{"block-odd-ends", "/**/\n/***/\n/*/ */\n/* * / \n ** /\n**/\n", false, false},
	{"comments-in-a-row", "/* a\n*/ /* b\n*/ // c\n", false, false},
	{"block-cr-only", "/* a\rb\r*/ ", false, false},
	{"line-comment-crlf", "// dos\r\n\r\n", false, false},
	{"blank-tabs", " \t\n\t \n", false, false},
	{"raw-string-stmt", "tv%d := `raw\nstring\n\nlines`\n", true, false},
	{"raw-string-crlf-stmt", "tv%d := `a\r\nb`\r\n", true, false},
	{"multibyte-string-stmt", "tv%d := \"é→世\" + 'ß'; ", true, true},
	{"multi-line-map-stmt", "tv%d := {\n\n\tk: /* v\n */ 1\n\n}\n", true, true},
}

// after a token that cannot end a statement, in the middle of a line
var tokTrivia = []triviaT{
	{"block2", " /* a\n b */ ", false, false},
	{"block1", " /* x */ ", false, false},
	{"line-comment", " // c\n", false, false},
	{"newlines", "\n\n", false, false},
	{"crlf-tab", "\r\n\t", false, false},
	{"multibyte-comment", " /* é→世 */ ", false, false},
	{"tabs", "\t\t", false, false},
	{"block4", "/*\n\n\n*/", false, false},
	{"block-crlf", "/*\r\n*/", false, false},
}

func triviaByName(list []triviaT, name string) triviaT {
	for _, t := range list {
		if t.name == name {
			return t
		}
	}
	panic("no trivia " + name)
}

var triviaUniq = 0

func (t triviaT) render() string {
	if t.stmt {
		triviaUniq++
		return fmt.Sprintf(t.text, triviaUniq)
	}
	return t.text
}

// stmtLineStarts: the line starts of src where a statement begins (real parser spans, offsets only).
func stmtLineStarts(name, src string) map[int]bool {
	out := map[int]bool{}
	sp, err := stmtSpans(name, src)
	if err != nil {
		return out
	}
	for _, s := range sp {
		j := s.Lo
		for j > 0 && (src[j-1] == ' ' || src[j-1] == '\t') {
			j--
		}
		if j == 0 || src[j-1] == '\n' {
			out[j] = true
		}
	}
	return out
}

// crlfEdits turns every line end of the file into \r\n (inside comments and raw strings too).
func crlfEdits(src string) []edit {
	var eds []edit
	for i := 0; i < len(src); i++ {
		if src[i] == '\n' && (i == 0 || src[i-1] != '\r') {
			eds = append(eds, edit{i, "\r"})
		}
	}
	return eds
}

// tabEdits puts a tab in front of every indented line.
func tabEdits(src string) []edit {
	var eds []edit
	for _, c := range triviaCands(src) {
		if c.line && c.off < len(src) && src[c.off] == ' ' {
			eds = append(eds, edit{c.off, "\t"})
		}
	}
	return eds
}

// ---------------------------------------------------------------------------
// position classes (relative to what the case records)

func lineStartBefore(cs []cand, off int) (int, bool) {
	best, ok := 0, false
	for _, c := range cs {
		if c.line && c.off <= off {
			best, ok = c.off, true
		}
	}
	return best, ok
}

var triviaClasses = []string{"top-of-failing-file", "top-of-main", "line-before-failing-stmt", "inside-failing-stmt-before-op", "inside-failing-stmt-after-op",
	"line-inside-failing-stmt", "line-before-call-stmt", "inside-call-stmt-before-call", "line-between", "top-of-other-file", "after-everything"}

// classCands returns (file, candidate offsets, line class?) of one position class; empty when the case has none.
func classCands(c *caseT, class string, r *lib.RNG) (file string, offs []int, line bool) {
	files := append([]string{mainName}, sortedKeys(c.Modules)...)
	pickCall := func() (int, bool) {
		if len(c.Calls) == 0 {
			return 0, false
		}
		return r.Intn(len(c.Calls)), true
	}
	firstRelevant := func(f string) int { // smallest recorded offset of file f (len if none)
		m := len(c.src(f))
		if c.Fail.File == f && c.Fail.Lo < m {
			m = c.Fail.Lo
		}
		for _, s := range c.Calls {
			if s.File == f && s.Lo < m {
				m = s.Lo
			}
		}
		return m
	}
	lastRelevant := func(f string) int {
		m := -1
		if c.Fail.File == f {
			m = c.Fail.Hi
		}
		for _, s := range c.Calls {
			if s.File == f && s.Hi > m {
				m = s.Hi
			}
		}
		return m
	}
	switch class {
	case "top-of-failing-file":
		return c.Fail.File, []int{0}, true
	case "top-of-main":
		if c.Fail.File == mainName {
			return "", nil, true
		}
		return mainName, []int{0}, true
	case "line-before-failing-stmt":
		cs := triviaCands(c.src(c.Fail.File))
		if p, ok := lineStartBefore(cs, c.Fail.Lo); ok {
			return c.Fail.File, []int{p}, true
		}
	case "inside-failing-stmt-before-op", "inside-failing-stmt-after-op", "line-inside-failing-stmt":
		for _, cd := range triviaCands(c.src(c.Fail.File)) {
			switch {
			case class == "inside-failing-stmt-before-op" && !cd.line && cd.off > c.Fail.Lo && cd.off <= c.FailOff,
				class == "inside-failing-stmt-after-op" && !cd.line && cd.off > c.FailOff && cd.off < c.Fail.Hi,
				class == "line-inside-failing-stmt" && cd.line && cd.off > c.Fail.Lo && cd.off < c.Fail.Hi:
				offs = append(offs, cd.off)
			}
		}
		return c.Fail.File, offs, class == "line-inside-failing-stmt"
	case "line-before-call-stmt":
		if i, ok := pickCall(); ok {
			cs := triviaCands(c.src(c.Calls[i].File))
			if p, ok := lineStartBefore(cs, c.Calls[i].Lo); ok {
				return c.Calls[i].File, []int{p}, true
			}
		}
	case "inside-call-stmt-before-call":
		if i, ok := pickCall(); ok {
			s := c.Calls[i]
			for _, cd := range triviaCands(c.src(s.File)) {
				if !cd.line && cd.off > s.Lo && cd.off <= c.CallOffs[i] {
					offs = append(offs, cd.off)
				}
			}
			return s.File, offs, false
		}
	case "line-between":
		// a line start after the first and before the last recorded statement of a file (between callee and call site)
		f := lib.Pick(r, files)
		lo, hi := firstRelevant(f), lastRelevant(f)
		for _, cd := range triviaCands(c.src(f)) {
			if cd.line && cd.off > lo && cd.off < hi {
				offs = append(offs, cd.off)
			}
		}
		return f, offs, true
	case "top-of-other-file":
		for _, f := range files {
			if f != c.Fail.File {
				return f, []int{0}, true
			}
		}
	case "after-everything":
		f := lib.Pick(r, files)
		hi := lastRelevant(f)
		for _, cd := range triviaCands(c.src(f)) {
			if cd.line && cd.off >= hi && hi >= 0 {
				offs = append(offs, cd.off)
			}
		}
		return f, offs, true
	}
	return "", nil, true
}

// inject applies one trivia text at one candidate of the class; nil when the class / trivia does not apply.
func inject(c *caseT, class string, t triviaT, line bool, r *lib.RNG) *caseT {
	file, offs, isLine := classCands(c, class, r)
	if len(offs) == 0 || isLine != line {
		return nil
	}
	if t.stmt {
		if c.Overflow || (t.allc && c.Sentinel == "alloc") {
			return nil // one stack slot per frame is part of that construction: no extra variables
		}
		starts := stmtLineStarts(file, c.src(file))
		var keep []int
		for _, o := range offs {
			if starts[o] {
				keep = append(keep, o)
			}
		}
		offs = keep
		if len(offs) == 0 {
			return nil
		}
	}
	off := lib.Pick(r, offs)
	d := applyEdits(c, file, []edit{{off, t.render()}})
	d.Shape = c.Shape + " trivia:" + class + " trivia-text:" + t.name
	return d
}

// ---------------------------------------------------------------------------
// checking a trivia case: the ordinary oracle + same-bytes-as-without-trivia

var lastErrText string // error text of the Script path of the last checked case ("" if none)

func atOffsets(c *caseT, text string) ([]span, bool) {
	_, ats, ok := parseErrText(text)
	if !ok {
		return nil, false
	}
	var out []span
	for _, a := range ats {
		if a.Line == 0 {
			return nil, false
		}
		src := c.src(a.File)
		off := offsetOf(src, a.Line, a.Col)
		if off < 0 || off >= len(src) {
			return nil, false
		}
		out = append(out, span{a.File, off, off + 1})
	}
	return out, true
}

// checkTrivia checks d = transform(base). transform must only use applyEdits (so that tracked offsets follow).
func checkTrivia(base *caseT, transform func(*caseT) *caseT) bool {
	b := cloneCase(base)
	b.track = nil
	tracked := false
	if base.Sentinel != "alloc" && !base.Overflow {
		// where the program WITHOUT the trivia reports its locations (Script path only; no judgement here: the base
		// population is judged by the ordinary streams)
		withLimits(b, func() {
			err, panicV, cerr := runScript(b, -1)
			if cerr == nil && panicV == "" && err != nil {
				if sp, ok := atOffsets(b, err.Error()); ok {
					b.track, tracked = sp, true
				}
			}
		})
	}
	d := transform(b)
	if d == nil {
		return false
	}
	lastErrText = ""
	checkCase(d)
	res.Dist("trivia-cases")
	if lastErrText == "" {
		res.Dist("trivia-case-not-run")
		if os_debug() {
			fmt.Printf("TRIVIA-NOT-RUN kind=%s shape=%s\n", d.Kind, d.Shape)
		}
		return true
	}
	if tracked {
		res.Count("trivia", d.Shape+"|"+d.Main, true)
		got, ok := atOffsets(d, lastErrText)
		same := ok && len(got) == len(d.track)
		for i := 0; same && i < len(got); i++ {
			same = got[i].File == d.track[i].File && got[i].Lo == d.track[i].Lo
		}
		if !same {
			res.Disagree(lib.Disagreement{Stream: "trivia", Input: d,
				Model: fmt.Sprintf("the locations of the program without the inserted text, moved with the insertions: %v", d.track),
				Impl:  fmt.Sprintf("%v | %s", got, clip(lastErrText, 300))})
		}
	}
	return true
}

// ---------------------------------------------------------------------------
// populations

func triviaBase(r *lib.RNG, mod string, overflow bool) *caseT {
	for {
		g := newGen(r.Fork())
		g.forceMod = mod
		if overflow {
			g.forceKind = "stackoverflow"
		}
		if c := g.build(); c.Kind != "go-panic" { // (a Go panic reports no location)
			return c
		}
	}
}

// triviaSystematic: every position class x every trivia text, on main-only programs, on programs whose inner
// frames live in a source module and on programs failing at a module's top level.
func triviaSystematic(r *lib.RNG) {
	mods := []string{"none", "funcs", "top"}
	tokClass := map[string]bool{"inside-failing-stmt-before-op": true, "inside-failing-stmt-after-op": true, "inside-call-stmt-before-call": true}
	n := 0
	for _, class := range triviaClasses {
		line := !tokClass[class]
		list := tokTrivia
		if line {
			list = lineTrivia
		}
		for _, t := range list {
			reps := 1
			if thorough {
				reps = 6
			}
			for rep := 0; rep < reps; rep++ {
				n++
				done := false
				for try := 0; try < 12 && !done; try++ { // a base that has the class (depth > 0, a multi-line statement, …)
					rr := r.Fork()
					base := triviaBase(rr, mods[(n+try)%3], false)
					class, t := class, t
					done = checkTrivia(base, func(b *caseT) *caseT { return inject(b, class, t, line, rr) })
				}
				if !done {
					res.Dist("trivia-systematic-no-base:" + class + "/" + t.name)
				}
			}
		}
	}
}

// randomTransform: 1..4 insertions anywhere (weighted towards the text BEFORE the recorded statements), then
// sometimes \r\n line ends / tabs in a whole file, sometimes a byte order mark.
func randomTransform(b *caseT, r *lib.RNG) *caseT {
	d := b
	var tags []string
	k := 1 + r.Intn(4)
	for i := 0; i < k; i++ {
		var nd *caseT
		for try := 0; try < 6 && nd == nil; try++ {
			class := lib.Pick(r, triviaClasses)
			line := r.Chance(3, 5)
			var t triviaT
			if line {
				t = lib.Pick(r, lineTrivia)
			} else {
				t = lib.Pick(r, tokTrivia)
			}
			nd = inject(d, class, t, line, r)
			if nd != nil {
				tags = append(tags, class+"/"+t.name)
			}
		}
		if nd != nil {
			nd.Shape = b.Shape
			d = nd
		}
	}
	files := append([]string{mainName}, sortedKeys(d.Modules)...)
	for _, f := range files {
		switch r.Intn(8) {
		case 0:
			d = applyEdits(d, f, crlfEdits(d.src(f)))
			tags = append(tags, "crlf-file")
		case 1:
			d = applyEdits(d, f, tabEdits(d.src(f)))
			tags = append(tags, "tabs-file")
		case 2:
			d = applyEdits(d, f, []edit{{0, bomText}})
			tags = append(tags, "bom")
		}
	}
	if len(tags) == 0 {
		return nil
	}
	if d == b {
		d = cloneCase(b)
	}
	d.Shape = b.Shape + " trivia:random"
	for _, t := range tags {
		for _, p := range strings.Split(t, "/") {
			res.Dist("trivia-random:" + p)
		}
	}
	return d
}

func triviaRandom(r *lib.RNG, n int, boundary []*caseT) {
	for i := 0; i < n; i++ {
		rr := r.Fork()
		var base *caseT
		switch {
		case i%40 == 39:
			base = triviaBase(rr, "", true)
		case i%8 == 7 && len(boundary) > 0:
			base = lib.Pick(rr, boundary)
		default:
			base = triviaBase(rr, "", false)
		}
		checkTrivia(base, func(b *caseT) *caseT { return randomTransform(b, rr) })
	}
}

// whole-file forms on their own (every line end \r\n, tabs, byte order mark), in every file of the case
func triviaWholeFile(r *lib.RNG, n int) {
	forms := []string{"crlf-file", "tabs-file", "bom", "crlf+bom"}
	for i := 0; i < n; i++ {
		rr := r.Fork()
		form := forms[i%len(forms)]
		base := triviaBase(rr, []string{"none", "funcs", "top"}[(i/len(forms))%3], false)
		checkTrivia(base, func(b *caseT) *caseT {
			d := b
			for _, f := range append([]string{mainName}, sortedKeys(b.Modules)...) {
				if strings.Contains(form, "crlf") {
					d = applyEdits(d, f, crlfEdits(d.src(f)))
				}
				if form == "tabs-file" {
					d = applyEdits(d, f, tabEdits(d.src(f)))
				}
				if strings.Contains(form, "bom") {
					d = applyEdits(d, f, []edit{{0, bomText}})
				}
			}
			d.Shape = b.Shape + " trivia:whole-file trivia-text:" + form
			return d
		})
	}
}

// ---------------------------------------------------------------------------
// closed forms (run first, with the corpus)

// closedCase builds a case from texts: the failing statement / operation and the call statements / calls are
// located by their (unique) texts.
func closedCase(kind, shape, expect, sentinel, main string, modules map[string]string, failFile, failStmt, failOp string, calls [][3]string) caseT {
	c := caseT{Main: main, Modules: modules, Kind: kind, Shape: shape, Expect: expect, Sentinel: sentinel}
	find := func(file, stmt, op string) (span, int) {
		src := c.src(file)
		lo := strings.Index(src, stmt)
		if lo < 0 || strings.Count(src, stmt) != 1 {
			panic("closedCase: statement text not unique: " + stmt)
		}
		o := strings.Index(stmt, op)
		if o < 0 {
			panic("closedCase: operation text not in statement: " + op)
		}
		return span{file, lo, lo + len(stmt)}, lo + o
	}
	c.Fail, c.FailOff = find(failFile, failStmt, failOp)
	for _, cl := range calls {
		s, o := find(cl[0], cl[1], cl[2])
		c.Calls = append(c.Calls, s)
		c.CallOffs = append(c.CallOffs, o)
	}
	return c
}

func triviaClosedForms() []caseT {
	var out []caseT
	headers := []struct{ name, text string }{
		{"block3", "/*\n * lookup table used below\n */\n"},
		{"block-crlf", "/*\r\n * lookup table used below\r\n */\r\n"},
		{"line-comments", "// lookup table\n// used below\n\n"},
		{"raw-string", "doc := `lookup table\nused below\n`\n"},
		{"blank", "\n\n\n"},
		{"bom-block", bomText + "/* a\n b */ "},
		{"none", ""},
	}
	for _, h := range headers {
		// comment before everything: failing operation in a function, call site in main
		main := h.text + "table := [1, 2, 3]\nput := func(i) {\n\ttable[i] = i\n}\nx := put(5)\n"
		out = append(out, closedCase("closed-idx-assign-oob", "closed header:"+h.name, "index out of bounds", "indexoob", main, nil,
			mainName, "table[i] = i", "table[i]", [][3]string{{mainName, "x := put(5)", "put(5)"}}))
		// the same text inside the function body, between two statements
		body := strings.ReplaceAll(strings.TrimPrefix(h.text, bomText), "doc :=", "doc2 :=")
		main = "div := func(a, b) {\n\tr := a\n\t" + body + "\treturn r % b\n}\ny := div(7, \"2\")\n"
		out = append(out, closedCase("closed-binop", "closed in-function:"+h.name, "invalid operation: int % string", "", main, nil,
			mainName, "return r % b", "r % b", [][3]string{{mainName, "y := div(7, \"2\")", "div(7"}}))
		// between the callee and the call site (only the call site is after the text)
		main = "neg := func(v) {\n\treturn -v\n}\n" + strings.TrimPrefix(h.text, bomText) + "z := [0,\n\tneg(\"s\")]\n"
		out = append(out, closedCase("closed-unary", "closed between-callee-and-call:"+h.name, "invalid operation: -string", "", main, nil,
			mainName, "return -v", "-v", [][3]string{{mainName, "z := [0,\n\tneg(\"s\")]", "neg("}}))
		// in a source module (function called from main) and in main before the import
		mod := h.text + "f := func(m) {\n  return m.a.b.c\n}\nexport {f: f}\n"
		main = strings.TrimPrefix(h.text, bomText) + "mod := import(\"cm\")\nw := mod.f(\n  {a: 1})\n"
		out = append(out, closedCase("closed-index", "closed module:"+h.name, "not indexable", "", main, map[string]string{"cm": mod},
			"cm", "return m.a.b.c", "m.a.b", [][3]string{{mainName, "w := mod.f(\n  {a: 1})", "mod.f("}}))
		// module top level fails; the import sits after the text in main
		mod = "k := 1\n" + strings.TrimPrefix(h.text, bomText) + "k += \"s\"\nexport k\n"
		main = "a := 0\n" + strings.TrimPrefix(h.text, bomText) + "if a == 0 {\n  a = import(\"ct\")\n}\n"
		out = append(out, closedCase("closed-compound", "closed module-top:"+h.name, "invalid operation: int + string", "", main, map[string]string{"ct": mod},
			"ct", "k += \"s\"", "k +=", [][3]string{{mainName, "a = import(\"ct\")", "import("}}))
	}
	// trivia INSIDE the failing statement and inside the call statement, three frames
	main := "h := func(x) {\n\treturn [ /* first\n\telement */ 1, // then\n\t\tx(), `raw\n` ]\n}\ng := func(x) {\n\treturn h( /*\n*/ x)\n}\nr := g(\n\n\t/* not\n\tcallable */ 5)\n"
	out = append(out, closedCase("closed-call-noncallable", "closed inside-statements", "not callable: int", "", main, nil,
		mainName, "return [ /* first\n\telement */ 1, // then\n\t\tx(), `raw\n` ]", "x()",
		[][3]string{{mainName, "return h( /*\n*/ x)", "h("}, {mainName, "r := g(\n\n\t/* not\n\tcallable */ 5)", "g("}}))
	return out
}

func init() {
	corpus = append(corpus, triviaClosedForms()...)
}

package main

import (
	"fmt"
	"strings"

	"verifharness/lib"
)

// Boundary cases of the file set: several source modules (so that the file of a position is found by the
// binary search over file bases, not by the last-file cache), the failing operation — or the call of an
// enclosing frame — at FILE OFFSET 0 (position == file base), at the LAST byte of a file, or in between,
// in main and in every module, with the modules imported in every rotation.

type bKind struct {
	name   string
	first  string // statement whose reported position is its first byte (no variables needed)
	expect string
}

var bKinds = []bKind{
	{"binop", `1 + "a"`, "invalid operation: int + string"},
	{"call-noncallable", `5()`, "not callable: int"},
	{"call-noncallable", `undefined()`, "not callable: undefined"},
	{"argc-builtin", `len()`, "wrong number of arguments in call to"},
	{"binop", `[1] - 2`, "invalid operation: array - int"},
	{"binop", "1 +\n  \"a\"", "invalid operation: int + string"},
}

// statement at the end of a file whose reported position is the file's LAST byte: the zero-advance NEG reports
// the entry of its predecessor, the one-byte identifier `s`
const lastByteSetup = "s := \"q\"\n"
const lastByteStmt = "t := -s" // (a bare `-s` statement has the parser span of `s` only: UnaryExpr.Pos is the operand's)

func benign(i int, r *lib.RNG) string {
	switch r.Intn(3) {
	case 0:
		return fmt.Sprintf("export %d\n", i)
	case 1:
		return fmt.Sprintf("x := %d\nexport x\n", i)
	default:
		return fmt.Sprintf("export {v: %d}", i) // no trailing newline
	}
}

// boundaryCases builds the systematic boundary programs.
func boundaryCases(r *lib.RNG) []*caseT {
	var out []*caseT
	names := []string{"mA", "mB", "mC", "mD"}
	for _, n := range []int{3, 4} {
		for rot := 0; rot < n; rot++ { // import order = rotation of the module list
			order := append(append([]string{}, names[rot:n]...), names[:rot]...)
			for failAt := -1; failAt < n; failAt++ { // -1: main fails
				for _, where := range []string{"first", "last", "middle"} {
					for _, style := range []string{"assign", "expr"} {
						k := lib.Pick(r, bKinds)
						c := buildBoundary(r, names[:n], order, failAt, where, style, k)
						if c != nil {
							out = append(out, c)
						}
					}
				}
			}
		}
	}
	out = append(out, twinFunctionCases()...)
	// nested imports: main -> m0 -> m1 -> … , every import the first token of its file, the innermost fails at offset 0
	for depth := 1; depth <= 3; depth++ {
		for _, k := range bKinds {
			out = append(out, buildChain(r, depth, k))
		}
	}
	return out
}

func buildBoundary(r *lib.RNG, mods, order []string, failAt int, where, style string, k bKind) *caseT {
	c := &caseT{Modules: map[string]string{}, Kind: "boundary-" + k.name, Expect: k.expect}
	failing := func(name string) (src string, sp span, off int) {
		switch where {
		case "first":
			src = k.first + "\nexport 1\n"
			return src, span{name, 0, len(k.first)}, 0
		case "last":
			src = lastByteSetup + lastByteStmt // no trailing newline: `s` is the last byte of the file
			c.Expect = "invalid operation: -string"
			return src, span{name, len(lastByteSetup), len(src)}, len(lastByteSetup)
		default:
			pre := "y := 2\n"
			src = pre + k.first + "\nexport y\n"
			return src, span{name, len(pre), len(pre) + len(k.first)}, len(pre)
		}
	}
	for i, m := range mods {
		if i != failAt {
			c.Modules[m] = benign(i, r)
		}
	}
	var main strings.Builder
	if failAt < 0 {
		// main fails; the imports (before or after the failing statement) are compiled and registered all the same
		var src string
		var sp span
		var off int
		imports := ""
		for i, m := range order {
			imports += fmt.Sprintf("i%d := import(\"%s\")\n", i, m)
		}
		src, sp, off = failing(mainName)
		src = strings.Replace(strings.Replace(src, "\nexport 1\n", "\n", 1), "export y\n", "", 1)
		switch where {
		case "first":
			c.Main = src + imports
		case "last":
			c.Main = imports + src
			sp.Lo, sp.Hi, off = sp.Lo+len(imports), sp.Hi+len(imports), off+len(imports)
		default:
			half := ""
			for i, m := range order[:len(order)/2] {
				half += fmt.Sprintf("h%d := import(\"%s\")\n", i, m)
			}
			rest := ""
			for i, m := range order[len(order)/2:] {
				rest += fmt.Sprintf("r%d := import(\"%s\")\n", i, m)
			}
			c.Main = half + src + rest
			sp.Lo, sp.Hi, off = sp.Lo+len(half), sp.Hi+len(half), off+len(half)
		}
		c.Fail, c.FailOff = sp, off
		c.Shape = fmt.Sprintf("boundary mods%d main-fails at-%s order:%s", len(mods), where, strings.Join(order, ""))
		return c
	}
	fm := mods[failAt]
	src, sp, off := failing(fm)
	c.Modules[fm] = src
	c.Fail, c.FailOff = sp, off
	for i, m := range order {
		lo := main.Len()
		var text string
		callOff := 0
		if style == "expr" {
			text = fmt.Sprintf("import(\"%s\")", m) // the import itself is the first token of its statement (offset 0 for i == 0)
		} else {
			text = fmt.Sprintf("i%d := import(\"%s\")", i, m)
			callOff = strings.Index(text, "import(")
		}
		main.WriteString(text)
		if m == fm {
			c.Calls = []span{{mainName, lo, lo + len(text)}}
			c.CallOffs = []int{lo + callOff}
		}
		if i < len(order)-1 || r.Bool() {
			main.WriteString("\n")
		}
	}
	c.Main = main.String()
	c.Shape = fmt.Sprintf("boundary mods%d fail:%s at-%s import-%s order:%s", len(mods), fm, where, style, strings.Join(order, ""))
	return c
}

func buildChain(r *lib.RNG, depth int, k bKind) *caseT {
	c := &caseT{Modules: map[string]string{}, Kind: "boundary-" + k.name, Expect: k.expect}
	// a benign module registered last keeps the failing files out of the last-file cache
	name := func(i int) string { return fmt.Sprintf("n%d", i) }
	for i := 0; i < depth; i++ {
		text := fmt.Sprintf("import(\"%s\")", name(i+1))
		c.Modules[name(i)] = text + "\nexport 1\n"
	}
	c.Modules[name(depth)] = k.first + "\nexport 1\n"
	c.Modules["zlast"] = "export 0\n"
	c.Fail, c.FailOff = span{name(depth), 0, len(k.first)}, 0
	for i := depth - 1; i >= 0; i-- {
		c.Calls = append(c.Calls, span{name(i), 0, len(fmt.Sprintf("import(\"%s\")", name(i+1)))})
		c.CallOffs = append(c.CallOffs, 0)
	}
	mainText := "import(\"n0\")"
	c.Main = mainText + "\nz := import(\"zlast\")\n"
	c.Calls = append(c.Calls, span{mainName, 0, len(mainText)})
	c.CallOffs = append(c.CallOffs, 0)
	c.Shape = fmt.Sprintf("boundary chain%d all-at-offset0", depth)
	return c
}

// twinFunctionCases: two (or three) function literals with byte-identical code — no constants in the body, so the
// bytes do not depend on constant indexes — in one file or in main and a module; the failure happens in a LATER
// copy. Each copy has its own source positions: the Script path de-duplicates constants after compiling, and
// merging functions by their code (seeded change C14-m7) reports the failure at the first copy.
func twinFunctionCases() []*caseT {
	var out []*caseT
	bodies := []struct{ body, failing, expect, okArgs, badArgs string }{
		{"return a + b", "return a + b", "invalid operation: int + string", "1, 2", "1, \"s\""},
		{"return a - b", "return a - b", "invalid operation: string - int", "3, 2", "\"s\", 1"},
		{"c := a\n  return b(c)", "return b(c)", "not callable: int", "1, string", "1, 2"},
		{"if a { return b[a] }\n  return a", "return b[a]", "invalid index type", "false, 2", "true, [1]"},
	}
	for _, b := range bodies {
		for _, copies := range []int{2, 3} {
			for _, inModule := range []bool{false, true} {
				c := &caseT{Modules: map[string]string{}, Kind: "twin-functions", Expect: b.expect}
				var main strings.Builder
				lit := "func(a, b) {\n  " + b.body + "\n}"
				// the earlier copies live in main and are called with harmless arguments
				for i := 0; i < copies-1; i++ {
					fmt.Fprintf(&main, "f%d := %s\nr%d := f%d(%s)\n", i, lit, i, i, b.okArgs)
				}
				callee := fmt.Sprintf("f%d", copies-1)
				if inModule {
					modSrc := "f := " + lit + "\nexport f\n"
					c.Modules["tw"] = modSrc
					lo := strings.Index(modSrc, b.failing)
					c.Fail, c.FailOff = span{"tw", lo, lo + len(b.failing)}, lo
					main.WriteString("tw := import(\"tw\")\n")
					callee = "tw"
				} else {
					lo0 := main.Len()
					def := fmt.Sprintf("%s := %s\n", callee, lit)
					main.WriteString(def)
					lo := lo0 + strings.Index(def, b.failing)
					c.Fail, c.FailOff = span{mainName, lo, lo + len(b.failing)}, lo
				}
				lo := main.Len()
				call := fmt.Sprintf("z := %s(%s)", callee, b.badArgs)
				main.WriteString(call + "\n")
				c.Calls = []span{{mainName, lo, lo + len(call)}}
				c.CallOffs = []int{lo + len("z := ")}
				c.Main = main.String()
				c.Shape = fmt.Sprintf("twin-functions copies%d module=%v", copies, inModule)
				out = append(out, c)
			}
		}
	}
	return out
}

// Command c14: searchers and correspondence for C14 (run-time errors point at
// the statement that failed).
//
// Streams
//
//	fail     (searcher) FAILING programs built from statement strings whose byte spans the generator
//	         records: the first reported position lies in the failing statement, the trace has one
//	         entry per active call (innermost first, each inside the statement holding that call, in
//	         the right file), sentinels / host errors survive errors.Is / errors.As
//	unwrap   (searcher) part of `fail`: errors.Is/As through the decoration
//	report   (correspondence) last dispatched (function, ip) per frame from the probe hook -> the
//	         model's `report` on the real source map == the reported positions
//	srcpos   (correspondence) model `sourcePos` == CompiledFunction.SourcePos on real and sparse maps
//	static   (correspondence) the compiler facts the Lean theorems assume (StmtAttribution, OnlyStarts)
//	         on every function of every program
package main

import (
	"encoding/json"
	"errors"
	"fmt"
	"os"
	"reflect"
	"sort"
	"strconv"
	"strings"
	"time"

	"github.com/d5/tengo/v2"
	"github.com/d5/tengo/v2/parser"
	"github.com/d5/tengo/v2/token"
	"verifharness/lib"
)

var (
	res      *lib.Result
	drv      *lib.Driver
	thorough bool
)

const mainName = "(main)"

// ---------------------------------------------------------------------------
// case description (also the replay format)

type span struct {
	File string `json:"file"`
	Lo   int    `json:"lo"`
	Hi   int    `json:"hi"`
}

func (s span) has(file string, off int) bool { return s.File == file && s.Lo <= off && off < s.Hi }

type caseT struct {
	Main       string            `json:"main"`
	Modules    map[string]string `json:"modules,omitempty"`
	Kind       string            `json:"kind"`
	Expect     string            `json:"expect"`             // substring of the run-time error message
	Sentinel   string            `json:"sentinel,omitempty"` // alloc|stackoverflow|indexoob|stringlimit|byteslimit|host-is|host-as|host-wrapped
	AllocPick  string            `json:"alloc_pick,omitempty"`
	StrLimit   int               `json:"str_limit,omitempty"`
	BytesLimit int               `json:"bytes_limit,omitempty"`
	Fail       span              `json:"fail"`     // innermost statement containing the failing operation
	FailOff    int               `json:"fail_off"` // byte offset of the failing operation in Fail.File
	Overflow   bool              `json:"overflow,omitempty"`
	Calls      []span            `json:"calls"`     // statement containing the call of each active frame, innermost first
	CallOffs   []int             `json:"call_offs"` // offset of that call inside its file
	Shape      string            `json:"shape"`
	Host       *hostPlan         `json:"host,omitempty"` // hosterr.go: the error chain a host-provided function returns

	track []span // trivia.go: offsets to move along with the insertions (not part of the replay format)
}

func (c *caseT) src(file string) string {
	if file == mainName {
		return c.Main
	}
	return c.Modules[file]
}

// ---------------------------------------------------------------------------
// host side

var errHost = errors.New("host failure H1")

type hostErrT struct{ Code int }

func (e *hostErrT) Error() string { return "host failure struct " + strconv.Itoa(e.Code) }

type markState struct {
	pending int // mark id seen by the host function, consumed by the next probe dispatch
	a1, a2  int64
	have1   bool
	have2   bool
	last    int64 // allocs at the last dispatch
}

var marks markState

func hostObjects() map[string]tengo.Object {
	m := map[string]tengo.Object{
		"fail": &tengo.UserFunction{Name: "fail", Value: func(args ...tengo.Object) (tengo.Object, error) {
			n := 1
			if len(args) > 0 {
				if i, ok := args[0].(*tengo.Int); ok {
					n = int(i.Value)
				}
			}
			switch n {
			case 2:
				return nil, &hostErrT{Code: 42}
			case 3:
				return nil, fmt.Errorf("host context: %w", errHost)
			}
			return nil, errHost
		}},
		// (hosterr.go adds uf, bf, obj, box, tbl)
		"mark": &tengo.UserFunction{Name: "mark", Value: func(args ...tengo.Object) (tengo.Object, error) {
			n := 0
			if len(args) > 0 {
				if i, ok := args[0].(*tengo.Int); ok {
					n = int(i.Value)
				}
			}
			if n == 2 && marks.have1 && !marks.have2 {
				marks.a2, marks.have2 = marks.last, true
			}
			if n == 1 && !marks.have1 {
				marks.pending = 1
			}
			return tengo.UndefinedValue, nil
		}},
	}
	for k, v := range hostCallables() {
		m[k] = v
	}
	return m
}

// ---------------------------------------------------------------------------
// running

type frameRec struct {
	fn *tengo.CompiledFunction
	ip int
}

type runOut struct {
	err    error
	panicV string
	frames []frameRec // last dispatched instruction per frame, outermost first, at the end of the run
}

func moduleMap(c *caseT) *tengo.ModuleMap {
	mm := tengo.NewModuleMap()
	names := make([]string, 0, len(c.Modules))
	for n := range c.Modules {
		names = append(names, n)
	}
	sort.Strings(names)
	for _, n := range names {
		mm.AddSourceModule(n, []byte(c.Modules[n]))
	}
	// host-provided callables reach main and module files alike through a builtin module
	mm.AddBuiltinModule("host", hostObjects())
	return mm
}

func withLimits(c *caseT, f func()) {
	ss, sb := tengo.MaxStringLen, tengo.MaxBytesLen
	if c.StrLimit > 0 {
		tengo.MaxStringLen = c.StrLimit
	}
	if c.BytesLimit > 0 {
		tengo.MaxBytesLen = c.BytesLimit
	}
	defer func() { tengo.MaxStringLen, tengo.MaxBytesLen = ss, sb }()
	f()
}

// runDirect runs compiled code on a fresh VM with the probe hook on.
func runDirect(cp *lib.Compiled, maxAllocs int64) (out runOut) {
	globals := make([]tengo.Object, tengo.GlobalsSize)
	setHostGlobals(cp, globals)
	vm := tengo.NewVM(cp.BC, globals, maxAllocs)
	marks = markState{}
	var stack []frameRec
	tengo.VerifProbe = func(v *tengo.VM, fn *tengo.CompiledFunction, ip, sp, bp, fi int, allocs int64) {
		if v != vm {
			return
		}
		if fi <= len(stack) {
			stack = stack[:fi]
			stack[fi-1] = frameRec{fn, ip}
		} else {
			for len(stack) < fi-1 {
				stack = append(stack, frameRec{})
			}
			stack = append(stack, frameRec{fn, ip})
		}
		marks.last = allocs
		if marks.pending == 1 {
			marks.a1, marks.have1, marks.pending = allocs, true, 0
		}
	}
	defer func() { tengo.VerifProbe = nil }()
	func() {
		defer func() {
			if p := recover(); p != nil {
				out.panicV = fmt.Sprint(p)
			}
		}()
		out.err = vm.Run()
	}()
	out.frames = stack
	return out
}

// runScript runs the case through the public Script API.
func runScript(c *caseT, maxAllocs int64) (err error, panicV string, compileErr error) {
	s := tengo.NewScript([]byte(c.Main))
	s.SetImports(moduleMap(c))
	s.SetMaxAllocs(maxAllocs)
	addHostVars(s)
	cp, e := s.Compile()
	if e != nil {
		return nil, "", e
	}
	func() {
		defer func() {
			if p := recover(); p != nil {
				panicV = fmt.Sprint(p)
			}
		}()
		err = cp.Run()
	}()
	return err, panicV, nil
}

// ---------------------------------------------------------------------------
// error text

type atPos struct {
	File string
	Line int
	Col  int
	Raw  string
}

// parseErrText splits "Runtime Error: msg\n\tat f:l:c\n\tat …".
func parseErrText(s string) (msg string, ats []atPos, ok bool) {
	parts := strings.Split(s, "\n\tat ")
	if !strings.HasPrefix(parts[0], "Runtime Error: ") {
		return "", nil, false
	}
	msg = strings.TrimPrefix(parts[0], "Runtime Error: ")
	for _, p := range parts[1:] {
		a := atPos{Raw: p}
		i := strings.LastIndex(p, ":")
		if i > 0 {
			j := strings.LastIndex(p[:i], ":")
			if j > 0 {
				l, e1 := strconv.Atoi(p[j+1 : i])
				cc, e2 := strconv.Atoi(p[i+1:])
				if e1 == nil && e2 == nil {
					a.File, a.Line, a.Col = p[:j], l, cc
				}
			}
		}
		ats = append(ats, a)
	}
	return msg, ats, true
}

// offsetOf converts line:col (1-based, bytes) to a byte offset of src; -1 if outside.
func offsetOf(src string, line, col int) int {
	if line < 1 || col < 1 {
		return -1
	}
	off := 0
	for l := 1; l < line; l++ {
		i := strings.IndexByte(src[off:], '\n')
		if i < 0 {
			return -1
		}
		off += i + 1
	}
	off += col - 1
	if off > len(src) {
		return -1
	}
	return off
}

// ---------------------------------------------------------------------------
// real parser: statement spans

func stmtSpans(name, src string) ([]span, error) {
	f, fs, err := lib.ParseSource(name, []byte(src))
	if err != nil {
		return nil, err
	}
	base := fs.Files[0].Base
	var out []span
	stmtT := reflect.TypeOf((*parser.Stmt)(nil)).Elem()
	seen := map[uintptr]bool{}
	var walk func(v reflect.Value)
	walk = func(v reflect.Value) {
		switch v.Kind() {
		case reflect.Interface:
			if !v.IsNil() {
				walk(v.Elem())
			}
		case reflect.Ptr:
			if v.IsNil() || seen[v.Pointer()] {
				return
			}
			seen[v.Pointer()] = true
			if v.Type().Implements(stmtT) {
				s := v.Interface().(parser.Stmt)
				if _, empty := s.(*parser.EmptyStmt); !empty {
					out = append(out, span{name, int(s.Pos()) - base, int(s.End()) - base})
				}
			}
			walk(v.Elem())
		case reflect.Struct:
			for i := 0; i < v.NumField(); i++ {
				if v.Type().Field(i).PkgPath == "" {
					walk(v.Field(i))
				}
			}
		case reflect.Slice:
			for i := 0; i < v.Len(); i++ {
				walk(v.Index(i))
			}
		}
	}
	for _, s := range f.Stmts {
		walk(reflect.ValueOf(s))
	}
	return out, nil
}

// innermost returns the smallest statement span containing off (ok=false if none).
func innermost(spans []span, off int) (best span, ok bool) {
	for _, s := range spans {
		if s.Lo <= off && off < s.Hi && (!ok || s.Hi-s.Lo < best.Hi-best.Lo) {
			best, ok = s, true
		}
	}
	return
}

// ---------------------------------------------------------------------------
// checking one case

func clip(s string, n int) string {
	if len(s) > n {
		return s[:n] + "…"
	}
	return s
}

func violate(sig string, c *caseT, obs, exp, oracle string) {
	res.Violate(lib.Violation{Signature: sig, Stream: "fail", Input: c, Observed: clip(obs, 700), Expected: exp, Oracle: oracle})
}

func sentinelOK(c *caseT, err error) (bool, string) {
	switch c.Sentinel {
	case "alloc":
		return errors.Is(err, tengo.ErrObjectAllocLimit), "errors.Is(err, tengo.ErrObjectAllocLimit)"
	case "stackoverflow":
		return errors.Is(err, tengo.ErrStackOverflow), "errors.Is(err, tengo.ErrStackOverflow)"
	case "indexoob":
		return errors.Is(err, tengo.ErrIndexOutOfBounds), "errors.Is(err, tengo.ErrIndexOutOfBounds)"
	case "stringlimit":
		return errors.Is(err, tengo.ErrStringLimit), "errors.Is(err, tengo.ErrStringLimit)"
	case "byteslimit":
		return errors.Is(err, tengo.ErrBytesLimit), "errors.Is(err, tengo.ErrBytesLimit)"
	case "host-is", "host-wrapped":
		return errors.Is(err, errHost), "errors.Is(err, hostError)"
	case "host-as":
		var he *hostErrT
		return errors.As(err, &he) && he != nil && he.Code == 42, "errors.As(err, *hostErrT)"
	}
	return true, ""
}

// oracle applies the property's checks to one error. path names the API used.
func oracle(c *caseT, err error, path string) (okAll bool) {
	okAll = true
	text := err.Error()
	msg, ats, ok := parseErrText(text)
	if !ok {
		violate("runtime-error-text-unparsable", c, text, "Runtime Error: <msg>\\n\\tat file:line:col…", path)
		return false
	}
	if !strings.Contains(msg, c.Expect) {
		// not the failure the generator planned: outside what it knows by construction
		res.Skipped++
		res.Dist("unexpected-error:" + c.Kind)
		if os.Getenv("C14_DEBUG") != "" {
			fmt.Fprintf(os.Stderr, "UNEXPECTED kind=%s want=%q got=%q\n%s\n", c.Kind, c.Expect, msg, c.Main)
		}
		return false
	}
	want := 1 + len(c.Calls)
	if c.Overflow {
		want = tengo.MaxFrames
	}
	if len(ats) != want {
		violate("trace-length-differs-from-active-frames", c, fmt.Sprintf("%d entries: %s", len(ats), text), fmt.Sprintf("%d entries", want),
			path+": one `at` per active call")
		okAll = false
	}
	inSpan := func(a atPos, s span) (bool, string) {
		if a.Line == 0 {
			return false, "no line:col (" + a.Raw + ")"
		}
		if a.File != s.File {
			return false, "file " + a.File + " != " + s.File
		}
		off := offsetOf(c.src(s.File), a.Line, a.Col)
		if !s.has(s.File, off) {
			return false, fmt.Sprintf("%s = offset %d outside [%d,%d)", a.Raw, off, s.Lo, s.Hi)
		}
		return true, ""
	}
	if len(ats) > 0 {
		if in, why := inSpan(ats[0], c.Fail); !in {
			sig := "error-position-outside-failing-statement"
			if ats[0].Line == 0 {
				sig = "reported-position-without-file-or-line"
			} else if ats[0].File != c.Fail.File {
				sig = "error-position-in-wrong-file"
			}
			violate(sig, c, why+" | "+text, fmt.Sprintf("inside %q", c.src(c.Fail.File)[c.Fail.Lo:c.Fail.Hi]), path+": first position within the failing statement")
			okAll = false
		}
	}
	// outer entries
	rep := 0
	if c.Overflow {
		rep = tengo.MaxFrames - 1 - len(c.Calls)
	}
	for i := 1; i < len(ats) && i < want; i++ {
		var s span
		if i <= rep {
			s = c.Fail // recursive frames are suspended in the failing statement itself
		} else if i-rep-1 < len(c.Calls) {
			s = c.Calls[i-rep-1]
		} else {
			break
		}
		if in, why := inSpan(ats[i], s); !in {
			sig := "trace-entry-outside-call-statement"
			if ats[i].Line == 0 {
				sig = "reported-position-without-file-or-line"
			} else if ats[i].File != s.File {
				sig = "trace-entry-in-wrong-file"
			}
			violate(sig, c, fmt.Sprintf("entry %d: %s | %s", i, why, clip(text, 400)), fmt.Sprintf("inside %q", c.src(s.File)[s.Lo:s.Hi]),
				path+": trace entry i lies within the statement containing the i-th enclosing call, innermost first")
			okAll = false
			break
		}
	}
	if c.Sentinel != "" {
		res.Count("unwrap", c.Sentinel+"|"+c.Shape, true)
		if ok, what := sentinelOK(c, err); !ok {
			res.Violate(lib.Violation{Signature: "sentinel-not-recognisable-through-unwrap", Stream: "unwrap", Input: c, Observed: clip(text, 300),
				Expected: what + " == true", Oracle: path})
			okAll = false
		}
	}
	if c.Host != nil {
		okAll = hostOracle(c, err, path) && okAll
	}
	return okAll
}

func spanCheck(c *caseT) bool {
	files := map[string][]span{}
	for _, name := range append([]string{mainName}, sortedKeys(c.Modules)...) {
		sp, err := stmtSpans(name, c.src(name))
		if err != nil {
			genBug(c, "parse error in "+name+": "+err.Error())
			return false
		}
		files[name] = sp
	}
	chk := func(s span, off int, what string) bool {
		in, ok := innermost(files[s.File], off)
		// ErrorExpr.End / ImmutableExpr.End of the real parser stop before the closing parenthesis: a statement
		// ending in `error(x)` / `immutable(x)` is one byte shorter there. The generator's span keeps the `)`.
		short := ok && in.File == s.File && in.Lo == s.Lo && in.Hi == s.Hi-1 && strings.HasSuffix(safeSlice(c.src(s.File), s.Lo, s.Hi), ")")
		if !ok || (in != s && !short) {
			genBug(c, fmt.Sprintf("%s: generator span [%d,%d) %q, parser innermost %v ok=%v (off %d)", what, s.Lo, s.Hi, safeSlice(c.src(s.File), s.Lo, s.Hi), in, ok, off))
			return false
		}
		return true
	}
	if !chk(c.Fail, c.FailOff, "fail") {
		return false
	}
	for i, s := range c.Calls {
		if !chk(s, c.CallOffs[i], fmt.Sprintf("call %d", i)) {
			return false
		}
	}
	return true
}

func safeSlice(s string, lo, hi int) string {
	if lo < 0 || hi > len(s) || lo > hi {
		return "<bad span>"
	}
	return s[lo:hi]
}

func sortedKeys(m map[string]string) []string {
	ks := make([]string, 0, len(m))
	for k := range m {
		ks = append(ks, k)
	}
	sort.Strings(ks)
	return ks
}

func genBug(c *caseT, why string) {
	res.Skipped++
	res.Dist("generator-mismatch")
	if c.Host != nil {
		res.Dist("generator-mismatch:host")
	}
	if os.Getenv("C14_DEBUG") != "" {
		fmt.Fprintf(os.Stderr, "GENBUG kind=%s shape=%s: %s\n--- main\n%s\n", c.Kind, c.Shape, why, c.Main)
		for n, s := range c.Modules {
			fmt.Fprintf(os.Stderr, "--- %s\n%s\n", n, s)
		}
	}
}

func checkCase(c *caseT) {
	if !spanCheck(c) {
		return
	}
	withLimits(c, func() { checkCaseL(c) })
}

func checkCaseL(c *caseT) {
	mm := moduleMap(c)
	curCase = c
	defer func() { curCase = nil }()
	if c.Host != nil {
		if !armHost(c) {
			genBug(c, "host plan cannot be built: "+strings.Join(c.Host.Chain, ">"))
			return
		}
		defer disarmHost()
	}
	cp, cerr := lib.CompileSource([]byte(c.Main), lib.CompileOpts{Modules: mm, Inputs: hostVarNames(c)})
	if cerr != nil {
		genBug(c, "compile error: "+cerr.Error())
		return
	}
	staticCheck(c, cp)
	maxAllocs := int64(-1)
	if c.Sentinel == "alloc" {
		// calibration: which allocation ordinals belong to the marked statement (allocs counter only)
		cal := runDirect(cp, -1)
		if cal.panicV != "" || !marks.have1 || !marks.have2 { // an error after mark(2) does not matter
			genBug(c, fmt.Sprintf("alloc calibration failed: err=%v panic=%s marks=%v/%v", cal.err, cal.panicV, marks.have1, marks.have2))
			return
		}
		// unlimited run starts at allocs = 0 and counts down: consumed = -allocs
		a1, a2 := -marks.a1, -marks.a2
		if a2 <= a1 {
			genBug(c, "marked statement does not allocate")
			return
		}
		switch c.AllocPick {
		case "first":
			maxAllocs = a1
		case "last":
			maxAllocs = a2 - 1
		default:
			maxAllocs = a1 + (a2-1-a1)/2
		}
		res.Dist(fmt.Sprintf("alloc-sites-in-target:%d", a2-a1))
	}
	d := runDirect(cp, maxAllocs)
	serr, spanic, scomp := runScript(c, maxAllocs)
	if scomp != nil {
		genBug(c, "script compile error: "+scomp.Error())
		return
	}
	if d.panicV != "" || spanic != "" {
		// Go panic (division by zero …): no error value is reported; class of its own (O19, C05)
		res.Count("fail", c.Kind+"|"+c.Shape, false)
		res.Dist("go-panic:" + c.Kind)
		return
	}
	if d.err == nil || serr == nil {
		genBug(c, fmt.Sprintf("program did not fail (direct=%v script=%v)", d.err, serr))
		return
	}
	if c.Host != nil && (hostCur.raised != 2 || hostCur.ops[0] != c.Host.Op || hostCur.ops[1] != c.Host.Op) {
		// the planned failure is the only one: the host function ran once per run, as the planned operation
		genBug(c, fmt.Sprintf("host function raised %d times (%v), planned once per run as %s", hostCur.raised, hostCur.ops, c.Host.Op))
		return
	}
	lastErrText = serr.Error()
	res.Count("fail", c.Kind+"|"+c.Shape+"|"+c.Main, true)
	res.Dist("kind:" + c.Kind)
	for _, p := range strings.Split(c.Shape, " ") {
		if p != "" {
			res.Dist("shape:" + p)
		}
	}
	res.Dist(fmt.Sprintf("frames:%d", func() int {
		if c.Overflow {
			return tengo.MaxFrames
		}
		return 1 + len(c.Calls)
	}()))
	ok := oracle(c, serr, "Script.Compile+Compiled.Run")
	if d.err.Error() != serr.Error() {
		// both are public paths (Compiler+VM vs Script); judge the second one on its own
		res.Dist("direct-text-differs-from-script")
		ok = oracle(c, d.err, "Compiler+VM.Run") && ok
	} else if c.Host != nil {
		ok = hostOracle(c, d.err, "Compiler+VM.Run") && ok // same text, yet another error value
	}
	if c.Host != nil {
		hostRunContext(c)
	}
	res.Sample(map[string]interface{}{"stream": "fail", "kind": c.Kind, "shape": c.Shape, "main": c.Main, "modules": c.Modules, "error": clip(serr.Error(), 300)}, 4)
	if strings.Contains(d.err.Error(), c.Expect) {
		correspond(c, cp, d)
	}
	_ = ok
}

// ---------------------------------------------------------------------------
// correspondence with the Lean model

func ask(line string) string {
	ans, err := drv.Ask(line)
	if err != nil {
		fatal(err)
	}
	res.ModelLines++
	return ans
}

func posString(cp *lib.Compiled, p int) string {
	return cp.FileSet.Position(parser.Pos(p)).String()
}

func correspond(c *caseT, cp *lib.Compiled, d runOut) {
	if drv == nil {
		return
	}
	_, ats, ok := parseErrText(d.err.Error())
	if !ok || len(d.frames) == 0 {
		return
	}
	n := len(d.frames)
	var model []string
	for i := n - 1; i >= 0; i-- {
		fr := d.frames[i]
		if fr.fn == nil || fr.ip >= len(fr.fn.Instructions) {
			return
		}
		op := int(fr.fn.Instructions[fr.ip])
		ans := ask(lib.L("report", lib.N(op), lib.N(fr.ip), lib.SrcMapSexp(fr.fn.SourceMap)))
		if !strings.HasPrefix(ans, "ok ") {
			model = append(model, ans)
			continue
		}
		p, _ := strconv.Atoi(strings.TrimPrefix(ans, "ok "))
		model = append(model, posString(cp, p))
	}
	var impl []string
	for _, a := range ats {
		impl = append(impl, a.Raw)
	}
	res.Count("report", d.err.Error(), true)
	if strings.Join(model, " | ") != strings.Join(impl, " | ") {
		res.Disagree(lib.Disagreement{Stream: "report", Input: c, Model: clip(strings.Join(model, " | "), 600), Impl: clip(strings.Join(impl, " | "), 600)})
	}
	// whole-trace form: saved ips (CALL start + 2) and v.ip at the error (start + advance via `report`)
	if n <= 8 {
		var fs []string
		for i := 0; i < n; i++ {
			fr := d.frames[i]
			sm := lib.SrcMapSexp(fr.fn.SourceMap)
			fs = append(fs, strings.TrimSpace("("+lib.N(fr.ip+2)+" "+sm[1:len(sm)-1])+")")
		}
		last := d.frames[n-1]
		adv := map[byte]int{parser.OpBinaryOp: 1, parser.OpCall: 2, parser.OpArray: 2, parser.OpMap: 2, parser.OpSetSelGlobal: 3,
			parser.OpSetSelLocal: 2, parser.OpSetSelFree: 2, parser.OpClosure: 3}[last.fn.Instructions[last.ip]]
		ans := ask(lib.L("frametrace", "("+strings.Join(fs, " ")+")", lib.N(last.ip+adv)))
		var want []string
		if strings.HasPrefix(ans, "ok (") {
			for _, t := range strings.Fields(strings.Trim(strings.TrimPrefix(ans, "ok "), "()")) {
				p, _ := strconv.Atoi(t)
				want = append(want, posString(cp, p))
			}
		}
		res.Count("report", "trace:"+d.err.Error(), true)
		if strings.Join(want, " | ") != strings.Join(impl, " | ") {
			res.Disagree(lib.Disagreement{Stream: "frametrace", Input: c, Model: clip(ans+" = "+strings.Join(want, " | "), 600), Impl: clip(strings.Join(impl, " | "), 600)})
		}
	}
}

// zero-advance opcodes whose errors are reported through the predecessor, and the other opcodes with
// error sites (harness-side list, compared with the model through the `report` stream)
var zeroAdv = map[byte]bool{parser.OpBComplement: true, parser.OpMinus: true, parser.OpError: true, parser.OpImmutable: true,
	parser.OpIndex: true, parser.OpSliceIndex: true, parser.OpIteratorInit: true}
var ownAdv = map[byte]bool{parser.OpBinaryOp: true, parser.OpCall: true, parser.OpArray: true, parser.OpMap: true,
	parser.OpSetSelGlobal: true, parser.OpSetSelLocal: true, parser.OpSetSelFree: true, parser.OpClosure: true}

var srcposAsked = 0

// staticCheck: the compiler facts assumed by Tengo.Props.C14 (OnlyStarts, StmtAttribution) on every
// function, with the real parser's statement spans; and the srcpos correspondence.
func staticCheck(c *caseT, cp *lib.Compiled) {
	type fileInfo struct {
		base, size int
		spans      []span
	}
	var files []fileInfo
	for _, f := range cp.FileSet.Files {
		sp, err := stmtSpans(f.Name, c.src(f.Name))
		if err != nil {
			return
		}
		files = append(files, fileInfo{f.Base, f.Size, sp})
	}
	stmtOf := func(pos int) (span, int, bool) { // innermost statement containing file-set position pos
		for _, f := range files {
			if pos >= f.base && pos <= f.base+f.size {
				s, ok := innermost(f.spans, pos-f.base)
				return s, f.base, ok
			}
		}
		return span{}, 0, false
	}
	for fi, fn := range lib.Functions(cp.BC) {
		ins, err := lib.Decode(fn.Instructions)
		if err != nil {
			continue
		}
		key := lib.Hex(fn.Instructions) + lib.SrcMapSexp(fn.SourceMap)
		res.Count("static", key, true)
		starts := map[int]bool{}
		index := map[int]int{}
		for i, in := range ins {
			starts[in.Pos] = true
			index[in.Pos] = i
		}
		// control-flow reachability from the entry (dead-code removal keeps unreachable tails behind jump targets
		// whose jumps were removed; such instructions never execute and never fail)
		live := make([]bool, len(ins))
		work := []int{0}
		for len(work) > 0 {
			i := work[len(work)-1]
			work = work[:len(work)-1]
			if i < 0 || i >= len(ins) || live[i] {
				continue
			}
			live[i] = true
			switch ins[i].Op {
			case parser.OpReturn, parser.OpSuspend:
			case parser.OpJump:
				if j, ok := index[ins[i].Args[0]]; ok {
					work = append(work, j)
				}
			case parser.OpJumpFalsy, parser.OpAndJump, parser.OpOrJump:
				if j, ok := index[ins[i].Args[0]]; ok {
					work = append(work, j)
				}
				work = append(work, i+1)
			default:
				work = append(work, i+1)
			}
		}
		bad := func(why string) {
			res.Disagree(lib.Disagreement{Stream: "static", Input: map[string]interface{}{"main": c.Main, "modules": c.Modules, "function": fi, "insts": lib.Hex(fn.Instructions),
				"srcmap": lib.SrcMapSexp(fn.SourceMap)}, Model: "compiler fact assumed by Tengo.Props.C14", Impl: why})
		}
		for k := range fn.SourceMap {
			if !starts[k] {
				bad(fmt.Sprintf("OnlyStarts: source-map key %d is no instruction start", k))
				break
			}
		}
		for i, in := range ins {
			if !live[i] {
				res.Dist("static:unreachable-instruction-skipped")
				continue
			}
			e, has := fn.SourceMap[in.Pos]
			if !has && (ownAdv[in.Op] || zeroAdv[in.Op] || (i+1 < len(ins) && zeroAdv[ins[i+1].Op])) {
				// (the SUSPEND that Bytecode() appends to main has no entry; it cannot fail)
				bad(fmt.Sprintf("%s at %d (or its successor) has error sites but no source-map entry", parser.OpcodeNames[in.Op], in.Pos))
				break
			}
			if ownAdv[in.Op] {
				if _, _, ok := stmtOf(int(e)); !ok {
					bad(fmt.Sprintf("entry_in_stmt: entry %d of %s at %d lies in no statement", e, parser.OpcodeNames[in.Op], in.Pos))
					break
				}
			}
			if zeroAdv[in.Op] {
				if i == 0 {
					bad(fmt.Sprintf("first_instr_safe: %s is the first instruction", parser.OpcodeNames[in.Op]))
					break
				}
				st, base, ok := stmtOf(int(e))
				pe := int(fn.SourceMap[ins[i-1].Pos])
				if !ok || !(st.Lo <= pe-base && pe-base < st.Hi) {
					bad(fmt.Sprintf("first_instr_safe: %s at %d (entry %d, statement %v): predecessor %s entry %d outside", parser.OpcodeNames[in.Op], in.Pos, e, st,
						parser.OpcodeNames[ins[i-1].Op], pe))
					break
				}
			}
		}
		if drv != nil && (srcposAsked < 1500 || (thorough && srcposAsked < 40000)) {
			sm := lib.SrcMapSexp(fn.SourceMap)
			for ip := 0; ip < len(fn.Instructions) && ip < 40; ip++ {
				srcposAsked++
				ans := ask(lib.L("srcpos", sm, lib.N(ip)))
				res.Count("srcpos", sm+lib.N(ip), true)
				if want := "ok " + lib.N(int(fn.SourcePos(ip))); ans != want {
					res.Disagree(lib.Disagreement{Stream: "srcpos", Input: map[string]interface{}{"srcmap": sm, "ip": ip}, Model: ans, Impl: want})
				}
			}
		}
	}
}

// sparseSrcpos compares the walk on random sparse maps (entries missing, as a hand-built function may have).
func sparseSrcpos(r *lib.RNG, n int) {
	if drv == nil {
		return
	}
	for i := 0; i < n; i++ {
		m := map[int]parser.Pos{}
		size := 1 + r.Intn(30)
		for k := 0; k < size; k++ {
			if r.Chance(1, 3) {
				m[k] = parser.Pos(r.Intn(50)) // includes NoPos entries
			}
		}
		fn := &tengo.CompiledFunction{SourceMap: m}
		sm := lib.SrcMapSexp(m)
		ip := r.Intn(size + 3)
		ans := ask(lib.L("srcpos", sm, lib.N(ip)))
		res.Count("srcpos", sm+lib.N(ip), len(m) > 0)
		if want := "ok " + lib.N(int(fn.SourcePos(ip))); ans != want {
			res.Disagree(lib.Disagreement{Stream: "srcpos", Input: map[string]interface{}{"srcmap": sm, "ip": ip}, Model: ans, Impl: want})
		}
	}
}

func fatal(err error) {
	fmt.Fprintln(os.Stderr, "c14:", err)
	os.Exit(3)
}

func main() {
	f := lib.ParseFlags()
	res = lib.NewResult("C14", f)
	thorough = f.Thorough()
	var err error
	drv, err = lib.StartDriver(f.Driver)
	if err != nil {
		fatal(err)
	}
	defer drv.Close()
	res.DriverUsed = drv != nil
	res.Rule = "failing programs assembled from statement strings (every failing operation kind x placement in the statement x statement context x call depth 0..6 x " +
		"dead code next to it x main/module file); a case is non-trivial when the program really fails with the planned error class and the generator's statement spans " +
		"equal the real parser's; distinct by kind, shape and source"
	if f.Replay != "" {
		replay(f.Replay)
		res.Write(f.Out)
		return
	}
	lib.RunProbes(res, "C14", f.Known)
	calibrate()
	for i := range corpus {
		c := corpus[i]
		checkCase(&c)
	}
	rng := lib.NewRNG(f.Seed)
	systematic(rng.Fork())
	boundary := boundaryCases(rng.Fork())
	for _, c := range boundary {
		checkCase(c)
	}
	n := f.Scale(2000, 80000)
	for i := 0; i < n; i++ {
		g := newGen(rng.Fork())
		checkCase(g.build())
	}
	for i := 0; i < f.Scale(3, 40); i++ {
		g := newGen(rng.Fork())
		g.forceKind = "stackoverflow"
		checkCase(g.build())
	}
	progenStatic(rng.Fork(), f.Scale(300, 6000))
	sparseSrcpos(rng.Fork(), f.Scale(400, 20000))
	// text the scanner skips, inserted into programs of every population above (trivia.go); forked last so that the
	// cases of the streams above are the same as before
	trng := rng.Fork()
	triviaSystematic(trng.Fork())
	triviaWholeFile(trng.Fork(), f.Scale(24, 600))
	triviaRandom(trng.Fork(), f.Scale(240, 12000), boundary)
	// host-provided functions failing with the host's own error chains (hosterr.go); forked after everything else
	hrng := rng.Fork()
	hostStart := time.Now()
	hostSystematic(hrng.Fork())
	hostRandom(hrng.Fork(), f.Scale(300, 12000))
	if os.Getenv("C14_DEBUG") != "" {
		fmt.Fprintf(os.Stderr, "host streams: %.1fs\n", time.Since(hostStart).Seconds())
	}
	res.Extra = map[string]interface{}{"binop_kinds": len(binopKinds), "expr_kinds": len(exprKinds()), "stmt_kinds": len(stmtKinds())}
	res.Write(f.Out)
}

// progenStatic runs the static stream over the shared program generator's output (heavy on returns / dead code).
func progenStatic(r *lib.RNG, n int) {
	for i := 0; i < n; i++ {
		rr := r.Fork()
		p := lib.DefaultProfile()
		p.Returns = 6
		p.DeadCode = true
		p.MaxStmts = 10 + rr.Intn(10)
		p.Chaos = 25
		src := lib.NewGen(rr, p).Program()
		cp, err := lib.CompileSource([]byte(src), lib.CompileOpts{})
		if err != nil {
			continue
		}
		staticCheck(&caseT{Main: src}, cp)
	}
}

func replay(path string) {
	b, err := os.ReadFile(path)
	if err != nil {
		fatal(err)
	}
	var rp struct {
		Violations []struct {
			Input json.RawMessage `json:"input"`
		} `json:"violations"`
		Obligations []struct {
			Detail string `json:"detail"`
		} `json:"theorem_or_stream"`
	}
	if err := json.Unmarshal(b, &rp); err != nil {
		fatal(err)
	}
	run := func(raw []byte) {
		var c caseT
		if json.Unmarshal(raw, &c) == nil && c.Main != "" && c.Fail.File != "" {
			checkCase(&c)
		}
	}
	for _, v := range rp.Violations {
		run(v.Input)
	}
	for _, o := range rp.Obligations {
		var d struct {
			Input json.RawMessage `json:"input"`
		}
		if json.Unmarshal([]byte(o.Detail), &d) == nil {
			run(d.Input)
		}
	}
}

var _ = token.Add

package main

import (
	"fmt"
	"strings"

	"github.com/d5/tengo/v2"
	"github.com/d5/tengo/v2/token"
	"verifharness/lib"
)

// kindT is one failing operation kind.
type kindT struct {
	name     string
	expr     string // failing expression; "" for statement kinds
	stmt     string // failing statement (use %I for the current indentation, %J for one level deeper)
	expect   string
	sentinel string
	strLimit int
	bytLimit int
	alloc    bool
	funcOnly bool
}

const (
	str30 = "012345678901234567890123456789"
)

var setupLines = []string{
	`vI := 5`, `vF := 1.5`, `vS := "str"`, `vC := 'c'`, `vB := true`, `vA := [1, 2, 3]`, `vM := {k: 1}`,
	`vIA := immutable([1, 2])`, `vBy := bytes("ab")`, `vU := undefined`, `vE := error("e")`,
	`vL := "` + str30 + `"`, `vLB := bytes(vL)`, `g2 := func(x, y) { return x }`, `gv := func(x, ...y) { return x }`,
}

var binopKinds []kindT

// calibrate finds the (left type, operator, right type) triples that the real objects reject.
func calibrate() {
	type val struct {
		name string
		o    tengo.Object
	}
	vals := []val{
		{"vI", &tengo.Int{Value: 5}}, {"vF", &tengo.Float{Value: 1.5}}, {"vS", &tengo.String{Value: "str"}}, {"vC", &tengo.Char{Value: 'c'}},
		{"vB", tengo.TrueValue}, {"vA", &tengo.Array{Value: []tengo.Object{&tengo.Int{Value: 1}}}}, {"vM", &tengo.Map{Value: map[string]tengo.Object{}}},
		{"vIA", &tengo.ImmutableArray{Value: []tengo.Object{&tengo.Int{Value: 1}}}}, {"vBy", &tengo.Bytes{Value: []byte("ab")}},
		{"vU", tengo.UndefinedValue}, {"vE", &tengo.Error{Value: &tengo.String{Value: "e"}}}, {"g2", &tengo.CompiledFunction{}},
	}
	ops := []struct {
		s string
		t token.Token
	}{{"+", token.Add}, {"-", token.Sub}, {"*", token.Mul}, {"/", token.Quo}, {"%", token.Rem}, {"&", token.And}, {"|", token.Or}, {"^", token.Xor},
		{"&^", token.AndNot}, {"<<", token.Shl}, {">>", token.Shr}, {"<", token.Less}, {"<=", token.LessEq}, {">", token.Greater}, {">=", token.GreaterEq}}
	for _, l := range vals {
		for _, op := range ops {
			for _, r := range vals {
				bad := false
				func() {
					defer func() { _ = recover() }()
					_, err := l.o.BinaryOp(op.t, r.o)
					bad = err == tengo.ErrInvalidOperator
				}()
				if bad {
					binopKinds = append(binopKinds, kindT{name: "binop", expr: l.name + " " + op.s + " " + r.name,
						expect: fmt.Sprintf("invalid operation: %s %s %s", l.o.TypeName(), op.s, r.o.TypeName())})
				}
			}
		}
	}
}

func exprKinds() []kindT {
	return []kindT{
		{name: "unary", expr: `-vS`, expect: "invalid operation: -string"},
		{name: "unary", expr: `^vF`, expect: "invalid operation: ^float"},
		{name: "unary", expr: `-vA`, expect: "invalid operation: -array"},
		{name: "unary", expr: `^vS`, expect: "invalid operation: ^string"},
		{name: "unary", expr: `-vB`, expect: "invalid operation: -bool"},
		{name: "index-nonindexable", expr: `vI[0]`, expect: "not indexable"},
		{name: "index-nonindexable", expr: `vB.x`, expect: "not indexable"},
		{name: "index-nonindexable", expr: `vF["k"]`, expect: "not indexable"},
		{name: "index-nonindexable", expr: `vA[0].x.y`, expect: "not indexable"},
		{name: "index-type", expr: `vA["k"]`, expect: "invalid index type: string"},
		{name: "index-type", expr: `vS[1.5]`, expect: "invalid index type: float"},
		{name: "index-type", expr: `vIA[true]`, expect: "invalid index type: bool"},
		{name: "index-type", expr: `vBy["x"]`, expect: "invalid index type: string"},
		{name: "slice", expr: `vA[2:1]`, expect: "invalid slice index: 2 > 1"},
		{name: "slice", expr: `vS["a":]`, expect: "invalid slice index type: string"},
		{name: "slice", expr: `vA[:1.5]`, expect: "invalid slice index type: float"},
		{name: "slice", expr: `vI[1:2]`, expect: "not indexable: int"},
		{name: "slice", expr: `vM[0:1]`, expect: "not indexable: map"},
		{name: "slice", expr: `vBy[3:2]`, expect: "invalid slice index: 3 > 2"},
		{name: "slice", expr: `vIA[2:0]`, expect: "invalid slice index: 2 > 0"},
		{name: "call-noncallable", expr: `vI()`, expect: "not callable: int"},
		{name: "call-noncallable", expr: `vS(1, 2)`, expect: "not callable: string"},
		{name: "call-noncallable", expr: `vU(vI)`, expect: "not callable: undefined"},
		{name: "call-noncallable", expr: `vM.k(1)`, expect: "not callable: int"},
		{name: "argc", expr: `g2(1)`, expect: "wrong number of arguments: want=2, got=1"},
		{name: "argc", expr: `g2(1, 2, 3)`, expect: "wrong number of arguments: want=2, got=3"},
		{name: "argc", expr: `gv()`, expect: "wrong number of arguments: want>=1, got=0"},
		{name: "argc", expr: `g2(vA...)`, expect: "wrong number of arguments: want=2, got=3"},
		{name: "argc-builtin", expr: `len()`, expect: "wrong number of arguments in call to"},
		{name: "argc-builtin", expr: `len(1, 2)`, expect: "wrong number of arguments in call to"},
		{name: "spread-nonarray", expr: `g2(vI...)`, expect: "not an array: int"},
		{name: "builtin-argtype", expr: `len(vI)`, expect: "invalid type for argument"},
		{name: "builtin-argtype", expr: `append(vI, 1)`, expect: "invalid type for argument"},
		{name: "builtin-argtype", expr: `delete(vA, "k")`, expect: "invalid type for argument"},
		{name: "builtin-argtype", expr: `splice(vI)`, expect: "invalid type for argument"},
		{name: "builtin-argtype", expr: `format(vI)`, expect: "invalid type for argument"},
		{name: "builtin-argtype", expr: `range(vS, 1)`, expect: "invalid type for argument"},
		{name: "host-error", expr: `host.fail(1)`, expect: "host failure H1", sentinel: "host-is"},
		{name: "host-error", expr: `host.fail(2)`, expect: "host failure struct 42", sentinel: "host-as"},
		{name: "host-error", expr: `host.fail(3)`, expect: "host context: host failure H1", sentinel: "host-wrapped"},
		{name: "string-limit", expr: `vL + vL + vL`, expect: "exceeding string size limit", sentinel: "stringlimit", strLimit: 64},
		{name: "string-limit", expr: `format("%s%s%s", vL, vL, vL)`, expect: "exceeding string size limit", sentinel: "stringlimit", strLimit: 64},
		{name: "string-limit", expr: `vL + 1234567890123 + 1234567890123 + 1234567890123`, expect: "exceeding string size limit", sentinel: "stringlimit", strLimit: 64},
		{name: "bytes-limit", expr: `vLB + vLB + vLB`, expect: "exceeding bytes size limit", sentinel: "byteslimit", bytLimit: 64},
		// the operand is a function literal WITHOUT a trailing return (the optimizer appends the implicit return at
		// the literal's own position): the failing instruction directly follows the one that materialises the
		// function (C14-m8: no source-map entry when the same AST node emits twice in a row, across the scope switch)
		{name: "unary-on-funclit", expr: `-func() { a = 1 }`, expect: "invalid operation: -compiled-function"},
		{name: "unary-on-funclit", expr: `^func(p) { a = p }`, expect: "invalid operation: ^compiled-function"},
		{name: "unary-on-funclit", expr: "-func() {\n%Ja = vI\n%I}", expect: "invalid operation: -compiled-function"},
		{name: "binop-on-funclit", expr: `func() { a = vI } + 1`, expect: "invalid operation: compiled-function + int"},
		{name: "index-on-funclit", expr: `func() { a = vI }.k`, expect: "not indexable"},
		{name: "go-panic", expr: `vI / 0`, expect: "\x00never"},
		{name: "go-panic", expr: `vI % 0`, expect: "\x00never"},
	}
}

func stmtKinds() []kindT {
	return []kindT{
		{name: "idx-assign-oob", stmt: `vA[10] = 1`, expect: "index out of bounds", sentinel: "indexoob"},
		{name: "idx-assign-oob", stmt: `vA[-1] = len("ab")`, expect: "index out of bounds", sentinel: "indexoob"},
		{name: "idx-assign-oob", stmt: "vA[\n%J10] = 1", expect: "index out of bounds", sentinel: "indexoob"},
		{name: "sel-assign", stmt: `vM.x.y = 1`, expect: "not index-assignable: undefined"},
		{name: "sel-assign", stmt: `vI.x = 1`, expect: "not index-assignable: int"},
		{name: "sel-assign", stmt: `vIA[0] = 1`, expect: "not index-assignable: immutable-array"},
		{name: "sel-assign", stmt: `vA["k"] = 1`, expect: "invalid index type"},
		{name: "sel-assign", stmt: `vS[0] = 'c'`, expect: "not index-assignable: string"},
		{name: "sel-assign", stmt: `vI.x.y = 1`, expect: "not indexable: int"},
		{name: "sel-assign", stmt: "vM.x.y =\n%Jlen(\"ab\")", expect: "not index-assignable: undefined"},
		{name: "sel-assign", stmt: `vA[0].z = 1`, expect: "not index-assignable: int"},
		{name: "compound-assign", stmt: `vM += 1`, expect: "invalid operation: map + int"},
		{name: "compound-assign", stmt: `vM++`, expect: "invalid operation: map + int"},
		{name: "compound-assign", stmt: `vU--`, expect: "invalid operation: undefined - int"},
		{name: "compound-assign", stmt: `vA[0] -= "s"`, expect: "invalid operation: int - string"},
		{name: "compound-assign", stmt: `vM.k *= vA`, expect: "invalid operation: int * array"},
		{name: "not-iterable", stmt: "for x in vI {\n%Ja = 0\n%I}", expect: "not iterable: int"},
		{name: "not-iterable", stmt: "for k, v in vB {\n%Ja = 0\n%I}", expect: "not iterable: bool"},
		{name: "not-iterable", stmt: "for x in\n%JvF {\n%Ja = 0\n%I}", expect: "not iterable: float"},
		{name: "not-iterable", stmt: "for x in g2 {\n%I}", expect: "not iterable: compiled-function"},
		{name: "not-iterable-funclit", stmt: "for x in func() { a = vI } {\n%Ja = 0\n%I}", expect: "not iterable: compiled-function"},
		{name: "not-iterable-funclit", stmt: "for k, v in func(p) {\n%Ja = p\n%I} {\n%I}", expect: "not iterable: compiled-function"},
	}
}

func allocKinds() []kindT {
	mk := func(s string) kindT {
		return kindT{name: "alloc-limit", stmt: s, expect: "object allocation limit exceeded", sentinel: "alloc", alloc: true}
	}
	return []kindT{
		mk(`t := [1, 2]`), mk(`t := {k: 1}`), mk(`t := vI + 1`), mk(`t := vS + "x"`), mk(`t := -vI`), mk(`t := ^vI`), mk(`t := -vF`),
		mk(`t := error(1)`), mk(`t := immutable(vA)`), mk(`t := immutable(vM)`), mk(`t := vA[0:1]`), mk(`t := vS[0:1]`), mk(`t := vIA[0:1]`), mk(`t := vBy[0:1]`),
		mk(`t := len(vA)`), mk(`t := func() { return vI }`), mk(`t := func() { a = vI }`), mk("t := func(p) {\n%Ja = vI + p\n%I}"), mk(`vM.f = func() { vM.n = vI }`), mk("for x in vA {\n%Ja = x\n%I}"), mk(`t := g2(vI + 1, vI + 2)`),
		mk(`vM.n = vI * 2`), mk(`a = [vI + 1][0]`),
		mk("t := [\n%J[1, 2],\n%J{k: [3]},\n%JvI + 2,\n%JvS + \"b\",\n%J-vI,\n%Jerror(1),\n%Jimmutable([1]),\n%JvA[0:1],\n%Jlen(\"a\")\n%I]"),
		mk("t := {\n%Jk1: vI + 1,\n%Jk2: [vI - 1, -vF],\n%Jk3: string(vI)\n%I}"),
	}
}

// ---------------------------------------------------------------------------

type emitter struct {
	name string
	b    strings.Builder
}

func (e *emitter) w(s string) { e.b.WriteString(s) }
func (e *emitter) at() int    { return e.b.Len() }

type level struct {
	kind   string // main | func | modbody
	file   string
	nested bool
	iife   bool // the function is a literal called where it is written: func(a) {…}(a)  (added after C14-m6)
	noArg  bool // … without parameter: func() {…}()  (the body reads the enclosing a)
	noRet  bool // the body has no trailing return
}

type gen struct {
	r         *lib.RNG
	c         *caseT
	lv        []level
	em        map[string]*emitter
	kind      kindT
	forceKind string
	// forced choices of the systematic pass (-1 = random)
	forcePlace int
	forceWrap  int
	uniq       int
	setupNear  bool
	modMode    string // none | funcs | top
	modFrom    int
	shape      []string
	callSpan   []span // by level k: the statement in level k that calls level k+1
	callOff    []int
	overflow   bool
	modViaMap  bool
	recCall    span
	recCallOff int
	forcePick  string
	forceMod   string   // "" = random (trivia.go)
	extraSetup []string // more variable definitions written after setupLines (hosterr.go)
}

func newGen(r *lib.RNG) *gen {
	return &gen{r: r, c: &caseT{}, em: map[string]*emitter{}, forcePlace: -1, forceWrap: -1}
}

func (g *gen) pickKind() {
	if g.kind.name != "" {
		return
	}
	if g.forceKind == "stackoverflow" {
		g.kind = kindT{name: "stack-overflow", expect: "stack overflow", sentinel: "stackoverflow"}
		g.overflow = true
		return
	}
	switch g.r.Weighted([]int{30, 38, 17, 15}) {
	case 0:
		g.kind = lib.Pick(g.r, binopKinds)
	case 1:
		g.kind = lib.Pick(g.r, exprKinds())
	case 2:
		g.kind = lib.Pick(g.r, stmtKinds())
	default:
		g.kind = lib.Pick(g.r, allocKinds())
	}
}

func (g *gen) build() *caseT {
	g.pickKind()
	c := g.c
	c.Kind, c.Expect, c.Sentinel, c.StrLimit, c.BytesLimit = g.kind.name, g.kind.expect, g.kind.sentinel, g.kind.strLimit, g.kind.bytLimit
	c.Overflow = g.overflow
	d := g.r.Weighted([]int{18, 18, 16, 14, 12, 11, 11}) // 0..6
	g.modMode = []string{"none", "funcs", "top"}[g.r.Weighted([]int{55, 28, 17})]
	if g.forceMod != "" {
		g.modMode = g.forceMod
	}
	if g.modMode == "funcs" && d == 0 {
		d = 1 + g.r.Intn(3)
	}
	g.lv = []level{{kind: "main", file: mainName}}
	g.modFrom = 0
	if g.modMode == "funcs" {
		g.modFrom = 1 + g.r.Intn(d)
	}
	for k := 1; k <= d; k++ {
		l := level{kind: "func", file: mainName}
		if g.modFrom > 0 && k >= g.modFrom {
			l.file = "m1"
		}
		prev := g.lv[k-1]
		if prev.kind == "func" && prev.file == l.file && g.r.Chance(2, 5) {
			l.nested = true
		}
		if (l.nested || (prev.kind == "main" && prev.file == l.file)) && g.r.Chance(1, 3) {
			l.nested, l.iife = true, true
			l.noArg = g.r.Bool()
		}
		l.noRet = g.r.Chance(1, 3)
		g.lv = append(g.lv, l)
	}
	if g.modMode == "top" {
		g.lv = append(g.lv, level{kind: "modbody", file: "m1"})
	}
	last := len(g.lv) - 1
	g.setupNear = g.r.Bool()
	g.modViaMap = g.r.Bool()
	g.callSpan = make([]span, len(g.lv))
	g.callOff = make([]int, len(g.lv))
	g.em[mainName] = &emitter{name: mainName}
	if g.modMode != "none" {
		g.em["m1"] = &emitter{name: "m1"}
	}
	g.shape = append(g.shape, fmt.Sprintf("depth%d", d), "mod-"+g.modMode)
	if g.setupNear {
		g.shape = append(g.shape, "vars-near")
	} else {
		g.shape = append(g.shape, "vars-top:"+g.lv[last].file)
	}
	g.writeFile(mainName)
	if g.modMode != "none" {
		g.writeFile("m1")
	}
	c.Main = g.em[mainName].b.String()
	if g.modMode != "none" {
		c.Modules = map[string]string{"m1": g.em["m1"].b.String()}
	}
	for k := last - 1; k >= 0; k-- { // innermost first
		c.Calls = append(c.Calls, g.callSpan[k])
		c.CallOffs = append(c.CallOffs, g.callOff[k])
	}
	if g.overflow {
		// the frame that calls `rec` is the last level itself: its call statement was recorded in recCall
		c.Calls = append([]span{g.recCall}, c.Calls...)
		c.CallOffs = append([]int{g.recCallOff}, c.CallOffs...)
	}
	c.Shape = strings.Join(g.shape, " ")
	return c
}

func (g *gen) writeFile(file string) {
	e := g.em[file]
	last := len(g.lv) - 1
	e.w("a := 1\nhost := import(\"host\")\n")
	if file == mainName && g.modMode == "funcs" {
		e.w("mod := import(\"m1\")\n")
	}
	if !g.setupNear && g.lv[last].file == file {
		g.writeSetup(e, "")
	}
	for k := last; k >= 1; k-- {
		if g.lv[k].kind == "func" && g.lv[k].file == file && !g.lv[k].nested {
			g.writeFunc(e, k, "")
		}
	}
	switch {
	case file == mainName:
		g.writeBody(e, 0, "")
	case g.modMode == "top":
		g.writeBody(e, last, "")
	default:
		if !g.modViaMap {
			e.w(fmt.Sprintf("export f%d\n", g.modFrom))
		} else {
			e.w(fmt.Sprintf("export {f: f%d}\n", g.modFrom))
		}
	}
}

func (g *gen) writeSetup(e *emitter, ind string) {
	for _, l := range setupLines {
		e.w(ind + l + "\n")
	}
	for _, l := range g.extraSetup {
		e.w(ind + l + "\n")
	}
}

func (g *gen) writeFunc(e *emitter, k int, ind string) {
	e.w(fmt.Sprintf("%sf%d := func(a) {\n", ind, k))
	g.writeBody(e, k, ind+"  ")
	e.w(ind + "}\n")
}

func (g *gen) fillers(e *emitter, ind string) {
	n := g.r.Intn(3)
	for i := 0; i < n; i++ {
		g.uniq++
		q := fmt.Sprintf("q%d", g.uniq)
		switch g.r.Intn(6) {
		case 0:
			e.w(ind + "a = a + 0\n")
		case 1:
			e.w(ind + q + " := a * 2\n")
		case 2:
			e.w(ind + "if a > 100 {\n" + ind + "  a = 100\n" + ind + "}\n")
		case 3:
			e.w(ind + "for " + q + " := 0; " + q + " < 2; " + q + "++ {\n" + ind + "  a = a + 0\n" + ind + "}\n")
		case 4:
			e.w(ind + q + " := [\n" + ind + "  1,\n" + ind + "  2\n" + ind + "]\n")
		default:
			e.w(ind + q + " := \"s\" + \"t\"\n")
		}
	}
}

func (g *gen) deadCode(e *emitter, k int, ind string) {
	if g.lv[k].kind != "func" || !g.r.Chance(1, 2) {
		return
	}
	g.shape = append(g.shape, "dead-code-before")
	switch g.r.Intn(3) {
	case 0:
		e.w(ind + "if a == -7 {\n" + ind + "  return 0\n" + ind + "  a = 5\n" + ind + "  a = a + 1\n" + ind + "}\n")
	case 1:
		e.w(ind + "for a == -7 {\n" + ind + "  return [a,\n" + ind + "    a]\n" + ind + "  a = [1, 2, 3][0]\n" + ind + "}\n")
	default:
		e.w(ind + "if a == -7 {\n" + ind + "  return 0\n" + ind + "  a = 5\n" + ind + "} else if a == -8 {\n" + ind + "  return 1\n" + ind + "  for {\n" + ind + "    a = 2\n" + ind + "  }\n" + ind + "}\n")
	}
}

func (g *gen) writeBody(e *emitter, k int, ind string) {
	last := len(g.lv) - 1
	g.fillers(e, ind)
	if k == last {
		if g.setupNear {
			g.writeSetup(e, ind)
		}
		g.deadCode(e, k, ind)
		g.writeTarget(e, k, ind)
	} else {
		if g.lv[k+1].nested && !g.lv[k+1].iife {
			g.writeFunc(e, k+1, ind)
		}
		g.deadCode(e, k, ind)
		g.writeCall(e, k, ind)
	}
	g.fillers(e, ind)
	if g.lv[k].kind == "func" && !g.lv[k].noRet {
		e.w(ind + "return a\n")
		if g.r.Chance(1, 3) {
			e.w(ind + "a = 2\n" + ind + "return a\n")
		}
	}
}

// wrapped writes a statement inside a randomly chosen context; inner writes the statement itself.
func (g *gen) wrapped(e *emitter, ind string, inner func(ind string)) {
	w := g.forceWrap
	if w < 0 {
		w = g.r.Weighted([]int{40, 10, 10, 10, 10, 10, 10})
	}
	switch w {
	case 1:
		g.shape = append(g.shape, "in-if")
		e.w(ind + "if a != -1 {\n")
		inner(ind + "  ")
		e.w(ind + "}\n")
	case 2:
		g.shape = append(g.shape, "in-else")
		e.w(ind + "if a == -1 {\n" + ind + "  a = 0\n" + ind + "} else {\n")
		inner(ind + "  ")
		e.w(ind + "}\n")
	case 3:
		g.shape = append(g.shape, "in-for")
		e.w(ind + "for i := 0; i < 2; i++ {\n")
		inner(ind + "  ")
		e.w(ind + "}\n")
	case 4:
		g.shape = append(g.shape, "in-for-if")
		e.w(ind + "for i := 0; i < 3; i++ {\n" + ind + "  if i == 1 {\n")
		inner(ind + "    ")
		e.w(ind + "  }\n" + ind + "}\n")
	case 5:
		g.shape = append(g.shape, "in-forin")
		e.w(ind + "for v in [1, 2] {\n")
		inner(ind + "  ")
		e.w(ind + "}\n")
	case 6:
		g.shape = append(g.shape, "in-elseif")
		e.w(ind + "if a == -1 {\n" + ind + "  a = 0\n" + ind + "} else if a != -2 {\n")
		inner(ind + "  ")
		e.w(ind + "}\n")
	default:
		inner(ind)
	}
}

const numWraps = 7

// stmtAt writes `text` (a whole statement) at the current indentation and returns its span.
func stmtAt(e *emitter, ind, text string) span {
	e.w(ind)
	lo := e.at()
	e.w(text)
	hi := e.at()
	e.w("\n")
	return span{e.name, lo, hi}
}

func expand(t, ind string) string {
	return strings.ReplaceAll(strings.ReplaceAll(t, "%J", ind+"  "), "%I", ind)
}

func (g *gen) writeCall(e *emitter, k int, ind string) {
	child := g.lv[k+1]
	isFunc := g.lv[k].kind == "func"
	saveWrap := g.forceWrap
	g.forceWrap = -1 // forced wrappers apply to the target only
	defer func() { g.forceWrap = saveWrap }()
	g.wrapped(e, ind, func(ind string) {
		var text string
		var off int
		if child.iife {
			// the callee is written where it is called; the call statement spans the whole literal
			param, arg := "a", "a"
			if child.noArg {
				param, arg = "", ""
			}
			heads := []string{"", "r := ", "a = ", "r := 1 + "}
			if isFunc {
				heads = append(heads, "return ")
			}
			head := lib.Pick(g.r, heads)
			e.w(ind)
			lo := e.at()
			e.w(head)
			off := e.at()
			e.w("func(" + param + ") {\n")
			g.writeBody(e, k+1, ind+"  ")
			e.w(ind + "}(" + arg + ")")
			hi := e.at()
			e.w("\n")
			g.shape = append(g.shape, "call:iife", fmt.Sprintf("iife-noarg=%v-noret=%v", child.noArg, child.noRet))
			g.callSpan[k] = span{e.name, lo, hi}
			g.callOff[k] = off
			return
		}
		if child.kind == "modbody" {
			forms := []string{"mod := import(\"m1\")", "mod := [import(\"m1\")]", "if import(\"m1\") == 5 {\n%Ja = 0\n%I}", "mod := [\n%J1,\n%Jimport(\"m1\")\n%I]"}
			text = expand(lib.Pick(g.r, forms), ind)
			off = strings.Index(text, "import(")
			g.shape = append(g.shape, "call:import")
		} else {
			callee := fmt.Sprintf("f%d", k+1)
			if child.file != g.lv[k].file {
				callee = "mod"
				if g.modViaMap {
					callee = "mod.f"
				}
			}
			forms := []string{"r := \x00(a)", "r := \x00(\n%Ja\n%I)", "r := 1 + \x00(a)", "if \x00(a) == -99 {\n%Ja = 0\n%I}", "\x00(a)",
				"r := [0,\n%J\x00(a),\n%J2]", "r := {k: \x00(a)}", "a = \x00(a) + 0", "r := [\x00(a)][0]",
				// the callee is a COPY of the function object (O33: the copy had no source map)
				"r := copy(\x00)(a)", "r := copy([\x00])[0](a)"}
			if isFunc {
				forms = append(forms, "return \x00(a) + 0", "return \x00(a)", "return [a,\n%J\x00(a)]")
			}
			i := g.r.Intn(len(forms))
			text = expand(forms[i], ind)
			off = strings.Index(text, "\x00")
			text = strings.Replace(text, "\x00", callee, 1)
			g.shape = append(g.shape, fmt.Sprintf("call:%d", i))
		}
		s := stmtAt(e, ind, text)
		g.callSpan[k] = s
		g.callOff[k] = s.Lo + off
	})
}

var placeTemplates = []string{
	"t := \x00",
	"t := [\x00, len(\"ab\"), 2]",
	"t := [len(\"ab\"), \x00, len(\"cd\")]",
	"t := [1, len(\"ab\"), \x00]",
	"t := [\n%Jlen(\"ab\"),\n%J\x00,\n%Jlen(\"cd\")\n%I]",
	"t := {k1: len(\"ab\"), k2: \x00}",
	"t := {\n%Jk1: \x00,\n%Jk2: 2\n%I}",
	"if \x00 {\n%Ja = 0\n%I}",
	"if (\x00) == 0 {\n%Ja = 0\n%I} else {\n%Ja = 1\n%I}",
	"for \x00 {\n%Jbreak\n%I}",
	"a = \x00",
	"t := true && (\x00)",
	"t := false || (\x00)",
	"t := a != -1 ? \x00 : 0",
	"t := a == -1 ? 0 : (\x00)",
	"t := (\x00)",
	"t := len([\x00])",
	"vM.k = \x00",
	"vA[0] = \x00",
	"t := string(\n%J\x00\n%I)",
	"t := 1 +\n%Jlen(\"ab\") +\n%Jlen([\x00])",
	"len(\x00)",
	"t := [len(\"ab\"), len(\"cd\")][\x00]",
	"for x in [\x00] {\n%Ja = x\n%I}",
	"t := func(p) { return p }(\x00)",
	// \x01…\x02 delimit the innermost statement when it is a part of the text (init / post statements)
	"if \x01t := \x00\x02; t {\n%Ja = 0\n%I}",
	"for \x01j := \x00\x02; j < 2; j++ {\n%Ja = 0\n%I}",
	"for j := 0; j < 2; \x01j += \x00\x02 {\n%Ja = 0\n%I}",
	"if t := 1; t == -5 {\n%Ja = 0\n%I} else if \x01u := [\n%J\x00]\x02; u {\n%Ja = 1\n%I}",
	// function levels only (see numPlaceAll)
	"return \x00",
	"return [a,\n%J\x00]",
}

const numPlaceAll = 29 // templates usable at every level

func (g *gen) writeTarget(e *emitter, k int, ind string) {
	isFunc := g.lv[k].kind == "func"
	if g.overflow {
		g.writeOverflow(e, k, ind)
		return
	}
	g.wrapped(e, ind, func(ind string) {
		var text string
		off := 0
		subLo, subHi := -1, -1
		if g.kind.expr != "" {
			n := numPlaceAll
			if isFunc {
				n = len(placeTemplates)
			}
			i := g.forcePlace
			if i < 0 || i >= n {
				i = g.r.Intn(n)
			}
			text = expand(placeTemplates[i], ind)
			ex := expand(g.kind.expr, ind) // (multi-line function literals as operands: %I / %J of the expression itself)
			if j := strings.Index(text, "\x01"); j >= 0 {
				text = strings.Replace(text, "\x01", "", 1)
				subLo = j
				subHi = strings.Index(text, "\x02") - 1 + len(ex) // \x00 still inside
				text = strings.Replace(text, "\x02", "", 1)
			}
			off = strings.Index(text, "\x00")
			text = strings.Replace(text, "\x00", ex, 1)
			g.shape = append(g.shape, fmt.Sprintf("place:%d", i))
		} else {
			text = expand(g.kind.stmt, ind)
			if strings.Contains(text, "\n") {
				g.shape = append(g.shape, "multi-line-stmt")
			}
		}
		if g.kind.alloc {
			e.w(ind + "host.mark(1)\n")
			g.c.AllocPick = []string{"first", "middle", "last"}[g.r.Intn(3)]
			if g.forcePick != "" {
				g.c.AllocPick = g.forcePick
			}
			g.shape = append(g.shape, "alloc-"+g.c.AllocPick)
		}
		s := stmtAt(e, ind, text)
		if g.kind.alloc {
			e.w(ind + "host.mark(2)\n")
		}
		g.c.Fail = s
		if subLo >= 0 {
			g.c.Fail = span{s.File, s.Lo + subLo, s.Lo + subHi}
		}
		g.c.FailOff = s.Lo + off
	})
}

func (g *gen) writeOverflow(e *emitter, k int, ind string) {
	// one stack slot per frame (no parameters, no locals, the call evaluated first): MaxFrames is reached
	// before the value stack (StackSize) is exhausted — the latter is a Go panic, not an error value
	forms := []string{"return \x00 + 1", "return [\x00,\n%J1]", "a = \x00", "if \x00 {\n%Ja = 0\n%I}", "return \x00 ?\n%J1 : 2"}
	e.w(ind + "rec := func() {\n")
	in2 := ind + "  "
	if g.r.Bool() {
		e.w(in2 + "a = a + 0\n")
	}
	i := g.r.Intn(len(forms))
	text := expand(forms[i], in2)
	off := strings.Index(text, "\x00")
	text = strings.Replace(text, "\x00", "rec()", 1)
	s := stmtAt(e, in2, text)
	g.c.Fail, g.c.FailOff = s, s.Lo+off
	e.w(in2 + "return 0\n" + ind + "}\n")
	g.shape = append(g.shape, fmt.Sprintf("overflow:%d", i))
	saveWrap := g.forceWrap
	g.wrapped(e, ind, func(ind string) {
		cs := stmtAt(e, ind, "r := rec()")
		g.recCall, g.recCallOff = cs, cs.Lo+5
	})
	g.forceWrap = saveWrap
}

// systematic covers every kind x placement and every statement kind x context once per run.
func systematic(r *lib.RNG) {
	for _, kd := range exprKinds() {
		for p := 0; p < len(placeTemplates); p++ {
			g := newGen(r.Fork())
			g.kind, g.forcePlace = kd, p
			checkCase(g.build())
		}
	}
	for _, kd := range stmtKinds() {
		for w := 0; w < numWraps; w++ {
			g := newGen(r.Fork())
			g.kind, g.forceWrap = kd, w
			checkCase(g.build())
		}
	}
	for _, kd := range allocKinds() {
		for _, pick := range []string{"first", "middle", "last"} {
			g := newGen(r.Fork())
			g.kind, g.forcePick = kd, pick
			checkCase(g.build())
		}
	}
	nb := 400
	if thorough {
		nb = len(binopKinds)
	}
	for i := 0; i < nb && i < len(binopKinds); i++ {
		g := newGen(r.Fork())
		if thorough {
			g.kind = binopKinds[i]
		} else {
			g.kind = lib.Pick(r, binopKinds)
		}
		checkCase(g.build())
	}
}

// minimised past cases (run first)
var corpus []caseT

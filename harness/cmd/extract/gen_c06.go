package main

import (
	"fmt"
	"go/ast"
	"go/token"
	"sort"
	"strings"
)

// AllocSites (C06): the inventory of resource-limit checks.
//
//   - allocSites: for every `case parser.OpX` of VM.run the `allocs--` decrements it contains, each with the
//     enclosing sub-case path, whether the very next statement is the `allocs == 0` test that sets
//     ErrObjectAllocLimit and returns, whether a store into the operand stack follows the test in the same block,
//     and whether a store into the operand stack precedes the decrement in the same block
//   - allocsOtherWrites: every other write of the `allocs` field in package tengo (function, shape)
//   - frameChecks: comparisons against MaxFrames in VM.run (opcode, shape, error, returns, precedes framesIndex++)
//   - vmArrays: VM fields that are fixed-size arrays (field, length constant)
//   - lenChecks: every comparison against MaxStringLen / MaxBytesLen in objects.go, builtins.go, formatter.go,
//     compiler.go, tengo.go and stdlib/*.go (file, function, limit, operator, shape of the measured quantity,
//     error, delivery)
//   - bufStores: functions of formatter.go that store through a pointer to the output buffer, and whether they
//     contain a MaxStringLen comparison
//
// Only shapes are read: receivers and local variable names do not matter.
func init() { register("AllocSites", genAllocSites) }

func c06Bool(b bool) string {
	if b {
		return "true"
	}
	return "false"
}

// c06Shape renders an expression without receiver names: selectors keep only the selected field.
func c06Shape(e ast.Expr) string {
	switch x := e.(type) {
	case *ast.Ident:
		return x.Name
	case *ast.SelectorExpr:
		return x.Sel.Name
	case *ast.BasicLit:
		return x.Value
	case *ast.ParenExpr:
		return c06Shape(x.X)
	case *ast.StarExpr:
		return "*" + c06Shape(x.X)
	case *ast.UnaryExpr:
		return x.Op.String() + c06Shape(x.X)
	case *ast.BinaryExpr:
		return c06Shape(x.X) + x.Op.String() + c06Shape(x.Y)
	case *ast.IndexExpr:
		return c06Shape(x.X) + "[]"
	case *ast.CallExpr:
		as := make([]string, len(x.Args))
		for i, a := range x.Args {
			as[i] = c06Shape(a)
		}
		return c06Shape(x.Fun) + "(" + strings.Join(as, ",") + ")"
	}
	return "?"
}

func c06IsField(e ast.Expr, field string) bool {
	s, ok := e.(*ast.SelectorExpr)
	return ok && s.Sel.Name == field
}

// c06IsAllocTest: `if <x>.allocs == 0 { <x>.err = ErrObjectAllocLimit; return }`
func c06IsAllocTest(st ast.Stmt) bool {
	is, ok := st.(*ast.IfStmt)
	if !ok || is.Init != nil || is.Else != nil {
		return false
	}
	be, ok := is.Cond.(*ast.BinaryExpr)
	if !ok || be.Op != token.EQL || !c06IsField(be.X, "allocs") {
		return false
	}
	if bl, ok := be.Y.(*ast.BasicLit); !ok || bl.Value != "0" {
		return false
	}
	if len(is.Body.List) != 2 {
		return false
	}
	as, ok := is.Body.List[0].(*ast.AssignStmt)
	if !ok || len(as.Lhs) != 1 || len(as.Rhs) != 1 || as.Tok != token.ASSIGN || !c06IsField(as.Lhs[0], "err") {
		return false
	}
	if id, ok := as.Rhs[0].(*ast.Ident); !ok || id.Name != "ErrObjectAllocLimit" {
		return false
	}
	rs, ok := is.Body.List[1].(*ast.ReturnStmt)
	return ok && len(rs.Results) == 0
}

func c06IsStackStore(st ast.Stmt) bool {
	as, ok := st.(*ast.AssignStmt)
	if !ok {
		return false
	}
	for _, l := range as.Lhs {
		if ix, ok := l.(*ast.IndexExpr); ok && c06IsField(ix.X, "stack") {
			return true
		}
	}
	return false
}

func c06IsAllocsDec(st ast.Stmt) bool {
	id, ok := st.(*ast.IncDecStmt)
	return ok && id.Tok == token.DEC && c06IsField(id.X, "allocs")
}

type c06Site struct {
	path                            []string
	tested, storeAfter, storeBefore bool
}

func c06CaseLabel(p *Pkg, cc *ast.CaseClause) string {
	if cc.List == nil {
		return "default"
	}
	ls := make([]string, len(cc.List))
	for i, e := range cc.List {
		ls[i] = c06Shape(e)
	}
	return "case " + strings.Join(ls, ",")
}

func c06WalkBlock(p *Pkg, stmts []ast.Stmt, path []string, out *[]c06Site) {
	for i, st := range stmts {
		if c06IsAllocsDec(st) {
			s := c06Site{path: append([]string{}, path...)}
			s.tested = i+1 < len(stmts) && c06IsAllocTest(stmts[i+1])
			for j := i + 1; j < len(stmts); j++ {
				if s.tested && j > i+1 && c06IsStackStore(stmts[j]) {
					s.storeAfter = true
				}
			}
			for j := 0; j < i; j++ {
				if c06IsStackStore(stmts[j]) {
					s.storeBefore = true
				}
			}
			*out = append(*out, s)
			continue
		}
		c06WalkStmt(p, st, path, out)
	}
}

func c06WalkStmt(p *Pkg, st ast.Stmt, path []string, out *[]c06Site) {
	switch x := st.(type) {
	case *ast.BlockStmt:
		c06WalkBlock(p, x.List, path, out)
	case *ast.IfStmt:
		if c06IsAllocTest(x) {
			return
		}
		c06WalkBlock(p, x.Body.List, append(append([]string{}, path...), "if"), out)
		if x.Else != nil {
			c06WalkStmt(p, x.Else, append(append([]string{}, path...), "else"), out)
		}
	case *ast.ForStmt:
		c06WalkBlock(p, x.Body.List, append(append([]string{}, path...), "loop"), out)
	case *ast.RangeStmt:
		c06WalkBlock(p, x.Body.List, append(append([]string{}, path...), "loop"), out)
	case *ast.SwitchStmt:
		for _, c := range x.Body.List {
			cc := c.(*ast.CaseClause)
			c06WalkBlock(p, cc.Body, append(append([]string{}, path...), c06CaseLabel(p, cc)), out)
		}
	case *ast.TypeSwitchStmt:
		for _, c := range x.Body.List {
			cc := c.(*ast.CaseClause)
			c06WalkBlock(p, cc.Body, append(append([]string{}, path...), c06CaseLabel(p, cc)), out)
		}
	case *ast.LabeledStmt:
		c06WalkStmt(p, x.Stmt, path, out)
	}
}

func c06FuncName(fd *ast.FuncDecl) string {
	if fd.Recv != nil && len(fd.Recv.List) == 1 {
		return recvName(fd.Recv.List[0].Type) + "." + fd.Name.Name
	}
	return fd.Name.Name
}

// c06LimitName: MaxStringLen / MaxBytesLen behind parentheses, conversions and a package qualifier.
func c06LimitName(e ast.Expr) string {
	switch x := e.(type) {
	case *ast.Ident:
		if x.Name == "MaxStringLen" || x.Name == "MaxBytesLen" {
			return x.Name
		}
	case *ast.SelectorExpr:
		if x.Sel.Name == "MaxStringLen" || x.Sel.Name == "MaxBytesLen" {
			return x.Sel.Name
		}
	case *ast.ParenExpr:
		return c06LimitName(x.X)
	case *ast.CallExpr: // conversion int64(MaxBytesLen)
		if len(x.Args) == 1 {
			return c06LimitName(x.Args[0])
		}
	}
	return ""
}

// c06Measure abstracts the measured quantity: len(..) -> "len", other calls -> "call", names -> "n".
func c06Measure(e ast.Expr) string {
	switch x := e.(type) {
	case *ast.ParenExpr:
		return "(" + c06Measure(x.X) + ")"
	case *ast.BinaryExpr:
		return c06Measure(x.X) + x.Op.String() + c06Measure(x.Y)
	case *ast.CallExpr:
		if id, ok := x.Fun.(*ast.Ident); ok && id.Name == "len" {
			return "len"
		}
		return "call"
	case *ast.BasicLit:
		return x.Value
	}
	return "n"
}

func c06Flip(op token.Token) string {
	switch op {
	case token.LSS:
		return ">"
	case token.GTR:
		return "<"
	case token.LEQ:
		return ">="
	case token.GEQ:
		return "<="
	}
	return op.String()
}

func c06Contains(root, n ast.Node) bool {
	found := false
	ast.Inspect(root, func(m ast.Node) bool {
		if m == n {
			found = true
		}
		return !found
	})
	return found
}

// c06ErrOf: which limit error the body of the guarding `if` yields and how.
func c06ErrOf(body *ast.BlockStmt) (string, string) {
	name, how := "none", "none"
	var visit func(n ast.Node, ctx string)
	visit = func(n ast.Node, ctx string) {
		ast.Inspect(n, func(m ast.Node) bool {
			switch x := m.(type) {
			case *ast.ReturnStmt:
				if ctx == "" {
					for _, r := range x.Results {
						visit(r, "return")
					}
					return false
				}
			case *ast.CallExpr:
				if id, ok := x.Fun.(*ast.Ident); ok && id.Name == "panic" && ctx == "" {
					for _, a := range x.Args {
						visit(a, "panic")
					}
					return false
				}
			case *ast.Ident:
				if (x.Name == "ErrStringLimit" || x.Name == "ErrBytesLimit") && name == "none" {
					name = x.Name
					how = ctx
					if how == "" {
						how = "other"
					}
				}
			}
			return true
		})
	}
	visit(body, "")
	return name, how
}

func genAllocSites(c *Ctx) (string, error) {
	p := c.Pkg(".")
	run := p.FindFunc("VM", "run")
	if run == nil {
		return "", fmt.Errorf("func (VM) run not found")
	}
	// the dispatch switch: first switch statement whose clauses mention parser.OpX
	var sw *ast.SwitchStmt
	ast.Inspect(run.Body, func(n ast.Node) bool {
		if sw != nil {
			return false
		}
		if s, ok := n.(*ast.SwitchStmt); ok {
			for _, c := range s.Body.List {
				for _, e := range c.(*ast.CaseClause).List {
					if se, ok := e.(*ast.SelectorExpr); ok && strings.HasPrefix(se.Sel.Name, "Op") {
						sw = s
						return false
					}
				}
			}
		}
		return true
	})
	if sw == nil {
		return "", fmt.Errorf("VM.run: dispatch switch not found")
	}
	var b strings.Builder
	b.WriteString("namespace Tengo.Gen.AllocSites\n")
	b.WriteString("/-- (opcode case, [(sub-case path, `== 0` test follows immediately, stack store after the test, stack store before the decrement)]) -/\n")
	var rows, frameRows []string
	inCase := map[ast.Stmt]bool{}
	for _, cl := range sw.Body.List {
		cc := cl.(*ast.CaseClause)
		label := "default"
		if cc.List != nil {
			ls := make([]string, len(cc.List))
			for i, e := range cc.List {
				ls[i] = c06Shape(e)
			}
			label = strings.Join(ls, ",")
		}
		var sites []c06Site
		c06WalkBlock(p, cc.Body, nil, &sites)
		items := make([]string, len(sites))
		for i, s := range sites {
			ps := make([]string, len(s.path))
			for k, q := range s.path {
				ps[k] = leanStr(q)
			}
			items[i] = fmt.Sprintf("(%s, %s, %s, %s)", leanList(ps), c06Bool(s.tested), c06Bool(s.storeAfter), c06Bool(s.storeBefore))
		}
		rows = append(rows, fmt.Sprintf("(%s, %s)", leanStr(label), leanList(items)))
		for _, st := range cc.Body {
			ast.Inspect(st, func(n ast.Node) bool {
				if s, ok := n.(ast.Stmt); ok && c06IsAllocsDec(s) {
					inCase[s] = true
				}
				return true
			})
		}
		// frame checks: `if <cmp with MaxFrames> { err = E; return }` and whether framesIndex++ follows in the same block
		ast.Inspect(&ast.BlockStmt{List: cc.Body}, func(n ast.Node) bool {
			blk, ok := n.(*ast.BlockStmt)
			if !ok {
				return true
			}
			for i, st := range blk.List {
				is, ok := st.(*ast.IfStmt)
				if !ok {
					continue
				}
				be, ok := is.Cond.(*ast.BinaryExpr)
				if !ok || !(c06Shape(be.X) == "MaxFrames" || c06Shape(be.Y) == "MaxFrames") {
					continue
				}
				errName, ret := "none", false
				for _, s := range is.Body.List {
					if as, ok := s.(*ast.AssignStmt); ok && len(as.Lhs) == 1 && c06IsField(as.Lhs[0], "err") && len(as.Rhs) == 1 {
						errName = c06Shape(as.Rhs[0])
					}
					if _, ok := s.(*ast.ReturnStmt); ok {
						ret = true
					}
				}
				incAfter := false
				for j := i + 1; j < len(blk.List); j++ {
					if id, ok := blk.List[j].(*ast.IncDecStmt); ok && id.Tok == token.INC && c06IsField(id.X, "framesIndex") {
						incAfter = true
					}
				}
				incBefore := false
				for j := 0; j < i; j++ {
					if id, ok := blk.List[j].(*ast.IncDecStmt); ok && id.Tok == token.INC && c06IsField(id.X, "framesIndex") {
						incBefore = true
					}
				}
				frameRows = append(frameRows, fmt.Sprintf("(%s, %s, %s, %s, %s)", leanStr(label), leanStr(c06Shape(be)), leanStr(errName),
					c06Bool(ret), c06Bool(incAfter && !incBefore)))
			}
			return true
		})
	}
	b.WriteString("def allocSites : List (String × List (List String × Bool × Bool × Bool)) := " + leanListLines(rows) + "\n")

	// every other write of the allocs field in package tengo
	var others []string
	for _, f := range p.sortedFiles() {
		for _, d := range f.Decls {
			fd, ok := d.(*ast.FuncDecl)
			if !ok || fd.Body == nil {
				continue
			}
			ast.Inspect(fd.Body, func(n ast.Node) bool {
				switch x := n.(type) {
				case *ast.IncDecStmt:
					if c06IsField(x.X, "allocs") && !inCase[x] {
						others = append(others, fmt.Sprintf("(%s, %s)", leanStr(c06FuncName(fd)), leanStr(c06Shape(x.X)+x.Tok.String())))
					}
				case *ast.AssignStmt:
					for i, l := range x.Lhs {
						if c06IsField(l, "allocs") {
							rhs := "?"
							if i < len(x.Rhs) {
								rhs = c06Shape(x.Rhs[i])
							}
							others = append(others, fmt.Sprintf("(%s, %s)", leanStr(c06FuncName(fd)), leanStr("allocs"+x.Tok.String()+rhs)))
						}
					}
				case *ast.UnaryExpr: // &v.allocs would allow writes elsewhere
					if x.Op == token.AND && c06IsField(x.X, "allocs") {
						others = append(others, fmt.Sprintf("(%s, %s)", leanStr(c06FuncName(fd)), leanStr("&allocs")))
					}
				}
				return true
			})
		}
	}
	b.WriteString("/-- writes of the `allocs` field other than the decrements counted above: (function, shape) -/\n")
	b.WriteString("def allocsOtherWrites : List (String × String) := " + leanList(others) + "\n")
	b.WriteString("/-- (opcode case, comparison, error stored, returns, precedes the only framesIndex++ of the block) -/\n")
	b.WriteString("def frameChecks : List (String × String × String × Bool × Bool) := " + leanList(frameRows) + "\n")

	// fixed-size arrays of the VM
	var arrays []string
	for _, f := range p.sortedFiles() {
		for _, d := range f.Decls {
			gd, ok := d.(*ast.GenDecl)
			if !ok || gd.Tok != token.TYPE {
				continue
			}
			for _, s := range gd.Specs {
				ts := s.(*ast.TypeSpec)
				st, ok := ts.Type.(*ast.StructType)
				if !ok || ts.Name.Name != "VM" {
					continue
				}
				for _, fl := range st.Fields.List {
					at, ok := fl.Type.(*ast.ArrayType)
					if !ok || at.Len == nil {
						continue
					}
					for _, n := range fl.Names {
						arrays = append(arrays, fmt.Sprintf("(%s, %s)", leanStr(n.Name), leanStr(c06Shape(at.Len))))
					}
				}
			}
		}
	}
	b.WriteString("def vmArrays : List (String × String) := " + leanList(arrays) + "\n")

	// length checks
	type lc struct{ file, fn, limit, op, measure, err, how string }
	var lcs []lc
	scan := func(pk *Pkg, dir string, names []string) {
		for _, name := range names {
			f := pk.Files[name]
			if f == nil {
				continue
			}
			for _, d := range f.Decls {
				fd, ok := d.(*ast.FuncDecl)
				if !ok || fd.Body == nil {
					continue
				}
				var ifs []*ast.IfStmt
				ast.Inspect(fd.Body, func(n ast.Node) bool {
					if is, ok := n.(*ast.IfStmt); ok {
						ifs = append(ifs, is)
					}
					return true
				})
				ast.Inspect(fd.Body, func(n ast.Node) bool {
					be, ok := n.(*ast.BinaryExpr)
					if !ok {
						return true
					}
					switch be.Op {
					case token.LSS, token.GTR, token.LEQ, token.GEQ, token.EQL, token.NEQ:
					default:
						return true
					}
					lim, other, op := c06LimitName(be.Y), be.X, be.Op.String()
					if lim == "" {
						lim, other, op = c06LimitName(be.X), be.Y, c06Flip(be.Op)
					}
					if lim == "" {
						return true
					}
					e, how := "none", "none"
					// innermost `if` whose condition contains the comparison
					var best *ast.IfStmt
					for _, is := range ifs {
						if c06Contains(is.Cond, be) && (best == nil || c06Contains(best, is)) {
							best = is
						}
					}
					if best != nil {
						e, how = c06ErrOf(best.Body)
					}
					file := name
					if dir != "." {
						file = dir + "/" + name
					}
					lcs = append(lcs, lc{file, c06FuncName(fd), lim, op, c06Measure(other), e, how})
					return true
				})
			}
		}
	}
	scan(p, ".", []string{"builtins.go", "compiler.go", "formatter.go", "objects.go", "tengo.go"})
	sp := c.Pkg("stdlib")
	var sn []string
	for n := range sp.Files {
		sn = append(sn, n)
	}
	sort.Strings(sn)
	scan(sp, "stdlib", sn)
	lrows := make([]string, len(lcs))
	for i, l := range lcs {
		lrows[i] = fmt.Sprintf("(%s, %s, %s, %s, %s, %s, %s)", leanStr(l.file), leanStr(l.fn), leanStr(l.limit), leanStr(l.op), leanStr(l.measure), leanStr(l.err), leanStr(l.how))
	}
	b.WriteString("/-- (file, function, limit, operator, measured quantity, error, delivery) in source order -/\n")
	b.WriteString("def lenChecks : List (String × String × String × String × String × String × String) := " + leanListLines(lrows) + "\n")

	// formatter.go: stores through a pointer to the output buffer
	var stores []string
	if f := p.Files["formatter.go"]; f != nil {
		for _, d := range f.Decls {
			fd, ok := d.(*ast.FuncDecl)
			if !ok || fd.Body == nil {
				continue
			}
			store, guard := false, false
			ast.Inspect(fd.Body, func(n ast.Node) bool {
				switch x := n.(type) {
				case *ast.AssignStmt:
					for _, l := range x.Lhs {
						if _, ok := l.(*ast.StarExpr); ok {
							store = true
						}
					}
				case *ast.BinaryExpr:
					if c06LimitName(x.X) == "MaxStringLen" || c06LimitName(x.Y) == "MaxStringLen" {
						guard = true
					}
				}
				return true
			})
			if store {
				stores = append(stores, fmt.Sprintf("(%s, %s)", leanStr(c06FuncName(fd)), c06Bool(guard)))
			}
		}
	}
	b.WriteString("/-- functions of formatter.go that store through a pointer (the output buffer), and whether they compare with MaxStringLen -/\n")
	b.WriteString("def bufStores : List (String × Bool) := " + leanList(stores) + "\n")
	b.WriteString("end Tengo.Gen.AllocSites\n")
	return b.String(), nil
}

package main

import (
	"fmt"
	"go/ast"
	"go/types"
	"strings"
)

// GobFields (C12): what gob can see of the bytecode. Facts, all read from source:
//   registered     types passed to gob.Register in init() of bytecode.go
//   structs        for Bytecode, parser.SourceFileSet, parser.SourceFile and every registered struct:
//                  fields with kind exported | unexported | func | embedded
//   customGob      types with their own GobEncode+GobDecode pair
//   dedupArms      arms of the first type switch of RemoveDuplicates; updateArms the arms of the switch in
//                  its update loop; dedupUpdates the number of updateConstIndexes calls
//   fixArms        arms of the type switch of fixDecodedObject
//   updateOps      the `case parser.OpX` labels of updateConstIndexes
//   boolGob        shape of Bool.GobEncode/GobDecode: byte written for true, byte tested on decode
func init() { register("GobFields", genGobFields) }

func typeSwitchArms(p *Pkg, fd *ast.FuncDecl) [][]string {
	var out [][]string
	ast.Inspect(fd.Body, func(n ast.Node) bool {
		ts, ok := n.(*ast.TypeSwitchStmt)
		if !ok {
			return true
		}
		var arms []string
		for _, s := range ts.Body.List {
			cc := s.(*ast.CaseClause)
			if cc.List == nil {
				arms = append(arms, "default")
				continue
			}
			for _, e := range cc.List {
				arms = append(arms, strings.TrimPrefix(p.Src(e), "*"))
			}
		}
		out = append(out, arms)
		return true
	})
	return out
}

func structFields(pk *Pkg, name string) ([]string, error) {
	if pk.Types == nil {
		return nil, fmt.Errorf("package of %s did not type-check", name)
	}
	o := pk.Types.Scope().Lookup(name)
	if o == nil {
		return nil, fmt.Errorf("type %s not found", name)
	}
	st, ok := o.Type().Underlying().(*types.Struct)
	if !ok {
		return nil, fmt.Errorf("%s is not a struct", name)
	}
	var items []string
	for i := 0; i < st.NumFields(); i++ {
		f := st.Field(i)
		kind := "exported"
		_, isFunc := f.Type().Underlying().(*types.Signature)
		switch {
		case f.Embedded():
			kind = "embedded"
		case !f.Exported():
			kind = "unexported"
		case isFunc:
			kind = "func"
		}
		items = append(items, fmt.Sprintf("(%s, %s)", leanStr(f.Name()), leanStr(kind)))
	}
	return items, nil
}

func genGobFields(c *Ctx) (string, error) {
	p := c.Pkg(".")
	pp := c.Pkg("parser")
	var initFn *ast.FuncDecl
	if f, ok := p.Files["bytecode.go"]; ok {
		for _, d := range f.Decls {
			if fd, ok := d.(*ast.FuncDecl); ok && fd.Name.Name == "init" && fd.Recv == nil {
				initFn = fd
			}
		}
	}
	if initFn == nil {
		return "", fmt.Errorf("init() of bytecode.go not found")
	}
	var registered []string
	ast.Inspect(initFn.Body, func(n ast.Node) bool {
		call, ok := n.(*ast.CallExpr)
		if !ok || p.Src(call.Fun) != "gob.Register" || len(call.Args) != 1 {
			return true
		}
		s := p.Src(call.Args[0])
		s = strings.TrimSuffix(strings.TrimPrefix(s, "&"), "{}")
		registered = append(registered, s)
		return true
	})
	if len(registered) == 0 {
		return "", fmt.Errorf("no gob.Register calls found")
	}
	var structs []string
	seen := map[string]bool{}
	add := func(qual string) error {
		if seen[qual] {
			return nil
		}
		seen[qual] = true
		pk, name := p, qual
		if strings.HasPrefix(qual, "parser.") {
			pk, name = pp, strings.TrimPrefix(qual, "parser.")
		}
		fs, err := structFields(pk, name)
		if err != nil {
			return err
		}
		structs = append(structs, fmt.Sprintf("(%s, %s)", leanStr(name), leanList(fs)))
		return nil
	}
	for _, q := range append([]string{"Bytecode"}, registered...) {
		if err := add(q); err != nil {
			return "", err
		}
	}
	// custom gob encoders
	var custom []string
	for _, q := range registered {
		if strings.Contains(q, ".") {
			continue
		}
		if p.FindFunc(q, "GobEncode") != nil && p.FindFunc(q, "GobDecode") != nil {
			custom = append(custom, leanStr(q))
		}
	}
	rd := p.FindFunc("Bytecode", "RemoveDuplicates")
	fx := p.FindFunc("", "fixDecodedObject")
	up := p.FindFunc("", "updateConstIndexes")
	if rd == nil || fx == nil || up == nil {
		return "", fmt.Errorf("RemoveDuplicates / fixDecodedObject / updateConstIndexes not found")
	}
	rdArms := typeSwitchArms(p, rd)
	fxArms := typeSwitchArms(p, fx)
	if len(rdArms) != 2 || len(fxArms) != 1 {
		return "", fmt.Errorf("unexpected number of type switches: RemoveDuplicates %d, fixDecodedObject %d", len(rdArms), len(fxArms))
	}
	nUpd := 0
	ast.Inspect(rd.Body, func(n ast.Node) bool {
		if call, ok := n.(*ast.CallExpr); ok && p.Src(call.Fun) == "updateConstIndexes" {
			nUpd++
		}
		return true
	})
	var updOps []string
	ast.Inspect(up.Body, func(n ast.Node) bool {
		sw, ok := n.(*ast.SwitchStmt)
		if !ok {
			return true
		}
		for _, s := range sw.Body.List {
			for _, e := range s.(*ast.CaseClause).List {
				updOps = append(updOps, leanStr(strings.TrimPrefix(p.Src(e), "parser.")))
			}
		}
		return true
	})
	// Bool gob pair: `if o.value { b = []byte{T} } else { b = []byte{F} }` and `o.value = b[0] == D`
	boolEnc, boolDec := p.FindFunc("Bool", "GobEncode"), p.FindFunc("Bool", "GobDecode")
	if boolEnc == nil || boolDec == nil {
		return "", fmt.Errorf("Bool.GobEncode/GobDecode not found")
	}
	var encT, encF, decD int64 = -1, -1, -1
	ast.Inspect(boolEnc.Body, func(n ast.Node) bool {
		is, ok := n.(*ast.IfStmt)
		if !ok || p.Src(is.Cond) != "o.value" {
			return true
		}
		lit := func(b *ast.BlockStmt) int64 {
			v := int64(-1)
			ast.Inspect(b, func(m ast.Node) bool {
				if cl, ok := m.(*ast.CompositeLit); ok && len(cl.Elts) == 1 {
					if x, ok := p.ExprConstInt(cl.Elts[0]); ok {
						v = x
					}
				}
				return true
			})
			return v
		}
		encT = lit(is.Body)
		if eb, ok := is.Else.(*ast.BlockStmt); ok {
			encF = lit(eb)
		}
		return false
	})
	ast.Inspect(boolDec.Body, func(n ast.Node) bool {
		as, ok := n.(*ast.AssignStmt)
		if !ok || len(as.Lhs) != 1 || p.Src(as.Lhs[0]) != "o.value" {
			return true
		}
		if be, ok := as.Rhs[0].(*ast.BinaryExpr); ok && be.Op.String() == "==" && p.Src(be.X) == "b[0]" {
			if x, ok := p.ExprConstInt(be.Y); ok {
				decD = x
			}
		}
		return true
	})
	if encT < 0 || encF < 0 || decD < 0 {
		return "", fmt.Errorf("Bool gob pair has an unexpected shape")
	}
	strs := func(xs []string) []string {
		out := make([]string, len(xs))
		for i, x := range xs {
			out[i] = leanStr(x)
		}
		return out
	}
	var sb strings.Builder
	sb.WriteString("namespace Tengo.Gen.GobFields\n")
	sb.WriteString("/-- bytecode.go init(): types registered with gob, in order -/\n")
	sb.WriteString("def registered : List String := " + leanList(strs(registered)) + "\n\n")
	sb.WriteString("/-- (struct, [(field, exported | unexported | func | embedded)]) for Bytecode and every registered type -/\n")
	sb.WriteString("def structs : List (String × List (String × String)) := " + leanListLines(structs) + "\n\n")
	sb.WriteString("/-- registered types with their own GobEncode/GobDecode pair -/\n")
	sb.WriteString("def customGob : List String := " + leanList(custom) + "\n\n")
	sb.WriteString("/-- Bool gob pair: byte encoded for true, for false, byte that decodes to true -/\n")
	sb.WriteString(fmt.Sprintf("def boolGob : Nat × Nat × Nat := (%d, %d, %d)\n\n", encT, encF, decD))
	sb.WriteString("/-- RemoveDuplicates: arms of the constant type switch; arms of the switch in the update loop; number of updateConstIndexes calls -/\n")
	sb.WriteString("def dedupArms : List String := " + leanList(strs(rdArms[0])) + "\n")
	sb.WriteString("def updateArms : List String := " + leanList(strs(rdArms[1])) + "\n")
	sb.WriteString(fmt.Sprintf("def dedupUpdates : Nat := %d\n\n", nUpd))
	sb.WriteString("/-- updateConstIndexes: opcodes whose operand is rewritten -/\n")
	sb.WriteString("def updateOps : List String := " + leanList(updOps) + "\n\n")
	sb.WriteString("/-- fixDecodedObject: arms of the type switch -/\n")
	sb.WriteString("def fixArms : List String := " + leanList(strs(fxArms[0])) + "\n\n")
	sb.WriteString("/-- (struct, field) pairs gob transmits: exported, not func-typed, not embedded -/\n")
	sb.WriteString("def gobVisible : List (String × String) :=\n  structs.flatMap (fun s => (s.2.filter (fun f => f.2 == \"exported\")).map (fun f => (s.1, f.1)))\n")
	sb.WriteString("end Tengo.Gen.GobFields\n")
	return sb.String(), nil
}

package main

import (
	"fmt"
	"go/ast"
	"go/token"
	"sort"
	"strings"
)

func init() {
	register("Opcodes", genOpcodes)
	register("Tokens", genTokens)
	register("Limits", genLimits)
	register("Builtins", genBuiltins)
}

// constBlockNames lists, in order, the names declared in the const block that
// declares `first`.
func constBlockNames(p *Pkg, first string) []string {
	for _, f := range p.sortedFiles() {
		for _, d := range f.Decls {
			gd, ok := d.(*ast.GenDecl)
			if !ok || gd.Tok != token.CONST {
				continue
			}
			var names []string
			found := false
			for _, s := range gd.Specs {
				for _, n := range s.(*ast.ValueSpec).Names {
					names = append(names, n.Name)
					if n.Name == first {
						found = true
					}
				}
			}
			if found {
				return names
			}
		}
	}
	return nil
}

// keyedLit reads a composite literal with `Key: value` elements.
func keyedLit(e ast.Expr) (keys []ast.Expr, vals []ast.Expr, ok bool) {
	cl, isCl := e.(*ast.CompositeLit)
	if !isCl {
		return nil, nil, false
	}
	for _, el := range cl.Elts {
		kv, isKv := el.(*ast.KeyValueExpr)
		if !isKv {
			return nil, nil, false
		}
		keys = append(keys, kv.Key)
		vals = append(vals, kv.Value)
	}
	return keys, vals, true
}

func genOpcodes(c *Ctx) (string, error) {
	p := c.Pkg("parser")
	names := constBlockNames(p, "OpConstant")
	if names == nil {
		return "", fmt.Errorf("opcode const block not found")
	}
	code := map[string]int64{}
	for _, n := range names {
		v, ok := p.ConstInt(n)
		if !ok {
			return "", fmt.Errorf("opcode %s has no constant value", n)
		}
		code[n] = v
	}
	mn := map[string]string{}
	ks, vs, ok := keyedLit(p.FindVar("OpcodeNames"))
	if !ok {
		return "", fmt.Errorf("OpcodeNames is not a keyed literal")
	}
	for i := range ks {
		s, ok := p.ExprConstString(vs[i])
		if !ok {
			return "", fmt.Errorf("OpcodeNames value not constant")
		}
		mn[p.Src(ks[i])] = s
	}
	wd := map[string][]int{}
	ks, vs, ok = keyedLit(p.FindVar("OpcodeOperands"))
	if !ok {
		return "", fmt.Errorf("OpcodeOperands is not a keyed literal")
	}
	for i := range ks {
		cl, ok := vs[i].(*ast.CompositeLit)
		if !ok {
			return "", fmt.Errorf("OpcodeOperands value not a literal")
		}
		w := []int{}
		for _, e := range cl.Elts {
			v, ok := p.ExprConstInt(e)
			if !ok {
				return "", fmt.Errorf("operand width not constant")
			}
			w = append(w, int(v))
		}
		wd[p.Src(ks[i])] = w
	}
	var rows []string
	for _, n := range names {
		w, has := wd[n]
		if !has {
			return "", fmt.Errorf("no operand widths for %s", n)
		}
		rows = append(rows, fmt.Sprintf("(%s, %d, %s, %s)", leanStr(n), code[n], leanStr(mn[n]), leanNats(w)))
	}
	var b strings.Builder
	b.WriteString("namespace Tengo.Gen.Opcodes\n")
	b.WriteString("/-- (Go constant, opcode byte, mnemonic, operand widths) in declaration order: parser/opcodes.go -/\n")
	b.WriteString("def table : List (String × Nat × String × List Nat) := " + leanListLines(rows) + "\n")
	b.WriteString("end Tengo.Gen.Opcodes\n")
	return b.String(), nil
}

func genTokens(c *Ctx) (string, error) {
	p := c.Pkg("token")
	names := constBlockNames(p, "Illegal")
	if names == nil {
		return "", fmt.Errorf("token const block not found")
	}
	strs := map[string]string{}
	ks, vs, ok := keyedLit(p.FindVar("tokens"))
	if !ok {
		return "", fmt.Errorf("tokens is not a keyed literal")
	}
	for i := range ks {
		s, ok := p.ExprConstString(vs[i])
		if !ok {
			return "", fmt.Errorf("tokens value not constant")
		}
		strs[p.Src(ks[i])] = s
	}
	var rows []string
	val := map[string]int64{}
	for _, n := range names {
		v, ok := p.ConstInt(n)
		if !ok {
			return "", fmt.Errorf("token %s has no constant value", n)
		}
		val[n] = v
		rows = append(rows, fmt.Sprintf("(%s, %d, %s)", leanStr(n), v, leanStr(strs[n])))
	}
	// Precedence: a switch whose cases return integer literals.
	fd := p.FindFunc("Token", "Precedence")
	if fd == nil {
		return "", fmt.Errorf("Token.Precedence not found")
	}
	prec := map[string]int64{}
	var dflt int64 = -1
	for _, st := range fd.Body.List {
		switch s := st.(type) {
		case *ast.SwitchStmt:
			for _, cc := range s.Body.List {
				cl := cc.(*ast.CaseClause)
				if len(cl.Body) != 1 {
					return "", fmt.Errorf("Precedence case body shape")
				}
				rs, ok := cl.Body[0].(*ast.ReturnStmt)
				if !ok || len(rs.Results) != 1 {
					return "", fmt.Errorf("Precedence case body shape")
				}
				v, ok := p.ExprConstInt(rs.Results[0])
				if !ok {
					return "", fmt.Errorf("Precedence result not constant")
				}
				for _, e := range cl.List {
					prec[p.Src(e)] = v
				}
			}
		case *ast.ReturnStmt:
			v, ok := p.ExprConstInt(s.Results[0])
			if !ok {
				return "", fmt.Errorf("Precedence default not constant")
			}
			dflt = v
		default:
			return "", fmt.Errorf("Precedence has an unexpected statement")
		}
	}
	var prow []string
	for _, n := range names {
		if v, ok := prec[n]; ok {
			prow = append(prow, fmt.Sprintf("(%s, %d)", leanStr(n), v))
		}
	}
	var b strings.Builder
	b.WriteString("namespace Tengo.Gen.Tokens\n")
	b.WriteString("/-- (Go constant, value, spelling) in declaration order: token/token.go -/\n")
	b.WriteString("def table : List (String × Nat × String) := " + leanListLines(rows) + "\n")
	b.WriteString("/-- Token.Precedence: tokens with a non-default precedence -/\n")
	b.WriteString("def precedence : List (String × Nat) := " + leanListLines(prow) + "\n")
	b.WriteString(fmt.Sprintf("def precedenceDefault : Nat := %d\n", dflt))
	for _, m := range []string{"_literalBeg", "_literalEnd", "_operatorBeg", "_operatorEnd", "_keywordBeg", "_keywordEnd"} {
		b.WriteString(fmt.Sprintf("def %s : Nat := %d\n", strings.TrimPrefix(m, "_"), val[m]))
	}
	b.WriteString("end Tengo.Gen.Tokens\n")
	return b.String(), nil
}

func genLimits(c *Ctx) (string, error) {
	p := c.Pkg(".")
	var b strings.Builder
	b.WriteString("namespace Tengo.Gen.Limits\n")
	for _, n := range []string{"GlobalsSize", "StackSize", "MaxFrames"} {
		v, ok := p.ConstInt(n)
		if !ok {
			return "", fmt.Errorf("constant %s not found", n)
		}
		b.WriteString(fmt.Sprintf("def %s : Nat := %d\n", lowerFirst(n), v))
	}
	for _, n := range []string{"MaxStringLen", "MaxBytesLen"} {
		e := p.FindVar(n)
		if e == nil {
			return "", fmt.Errorf("var %s not found", n)
		}
		v, ok := p.ExprConstInt(e)
		if !ok {
			return "", fmt.Errorf("var %s initialiser not constant", n)
		}
		b.WriteString(fmt.Sprintf("def %s : Nat := %d\n", lowerFirst(n), v))
	}
	b.WriteString("end Tengo.Gen.Limits\n")
	return b.String(), nil
}

func lowerFirst(s string) string { return strings.ToLower(s[:1]) + s[1:] }

func genBuiltins(c *Ctx) (string, error) {
	p := c.Pkg(".")
	e := p.FindVar("builtinFuncs")
	cl, ok := e.(*ast.CompositeLit)
	if !ok {
		return "", fmt.Errorf("builtinFuncs literal not found")
	}
	var rows []string
	for _, el := range cl.Elts {
		in, ok := el.(*ast.CompositeLit)
		if !ok {
			return "", fmt.Errorf("builtinFuncs element shape")
		}
		name, val := "", ""
		for _, f := range in.Elts {
			kv, ok := f.(*ast.KeyValueExpr)
			if !ok {
				return "", fmt.Errorf("builtinFuncs field shape")
			}
			switch p.Src(kv.Key) {
			case "Name":
				name, _ = p.ExprConstString(kv.Value)
			case "Value":
				val = p.Src(kv.Value)
			}
		}
		rows = append(rows, fmt.Sprintf("(%s, %s)", leanStr(name), leanStr(val)))
	}
	var b strings.Builder
	b.WriteString("namespace Tengo.Gen.Builtins\n")
	b.WriteString("/-- (script name, Go function) in index order: builtins.go builtinFuncs -/\n")
	b.WriteString("def table : List (String × String) := " + leanListLines(rows) + "\n")
	b.WriteString("end Tengo.Gen.Builtins\n")
	_ = sort.Strings
	return b.String(), nil
}

package main

import (
	"fmt"
	"go/ast"
	"sort"
	"strings"
)

// C13: inventory of the file-system related call sites of compiler.go, script.go and modules.go, the
// order of the steps of compileModule, the order of the alternatives of the ImportExpr case and the
// parent delegation of the cycle check / module cache.

func init() { register("ImportSites", genImportSites) }

var c13Files = []string{"compiler.go", "modules.go", "script.go"}

// packages whose calls are inventoried (import path -> short name printed)
var c13Pkgs = map[string]string{"os": "os", "io/ioutil": "ioutil", "path/filepath": "filepath", "io/fs": "fs"}

func funcName(fd *ast.FuncDecl) string {
	if fd.Recv != nil && len(fd.Recv.List) == 1 {
		return recvName(fd.Recv.List[0].Type) + "." + fd.Name.Name
	}
	return fd.Name.Name
}

// mentions reports whether the source text of n mentions ident (as a selector or identifier name).
func mentions(n ast.Node, name string) bool {
	found := false
	ast.Inspect(n, func(x ast.Node) bool {
		if id, ok := x.(*ast.Ident); ok && id.Name == name {
			found = true
		}
		return !found
	})
	return found
}

// guardedRanges returns the bodies of `if`/`else if` branches whose condition mentions allowFileImport
// (the branch taken when the condition holds).
func guardedRanges(body ast.Node) []ast.Node {
	var out []ast.Node
	ast.Inspect(body, func(x ast.Node) bool {
		if is, ok := x.(*ast.IfStmt); ok && mentions(is.Cond, "allowFileImport") {
			if u, isNot := is.Cond.(*ast.UnaryExpr); !(isNot && u.Op.String() == "!") {
				out = append(out, is.Body)
			}
		}
		return true
	})
	return out
}

func within(n ast.Node, ranges []ast.Node) bool {
	for _, r := range ranges {
		if n.Pos() >= r.Pos() && n.End() <= r.End() {
			return true
		}
	}
	return false
}

func genImportSites(c *Ctx) (string, error) {
	p := c.Pkg(".")
	type site struct{ file, fn, callee, guard string }
	var sites []site
	type fnInfo struct {
		file string
		decl *ast.FuncDecl
	}
	var fns []fnInfo
	for _, fname := range c13Files {
		f, ok := p.Files[fname]
		if !ok {
			return "", fmt.Errorf("%s not found", fname)
		}
		for _, d := range f.Decls {
			if fd, ok := d.(*ast.FuncDecl); ok && fd.Body != nil {
				fns = append(fns, fnInfo{fname, fd})
			}
		}
	}
	// which local import name denotes which package, per file
	pkgOf := map[string]map[string]string{}
	for _, fname := range c13Files {
		m := map[string]string{}
		for _, im := range p.Files[fname].Imports {
			path := strings.Trim(im.Path.Value, "\"")
			short, ok := c13Pkgs[path]
			if !ok {
				continue
			}
			local := path[strings.LastIndex(path, "/")+1:]
			if im.Name != nil {
				local = im.Name.Name
			}
			m[local] = short
		}
		pkgOf[fname] = m
	}
	// method/function name -> are ALL its call sites (in the three files) lexically guarded?
	callersGuarded := map[string]bool{}
	called := map[string]bool{}
	for _, fi := range fns {
		gr := guardedRanges(fi.decl.Body)
		ast.Inspect(fi.decl.Body, func(x ast.Node) bool {
			ce, ok := x.(*ast.CallExpr)
			if !ok {
				return true
			}
			name := ""
			switch f := ce.Fun.(type) {
			case *ast.SelectorExpr:
				name = f.Sel.Name
			case *ast.Ident:
				name = f.Name
			}
			if name == "" {
				return true
			}
			g := within(ce, gr)
			if !called[name] {
				called[name] = true
				callersGuarded[name] = g
			} else if !g {
				callersGuarded[name] = false
			}
			return true
		})
	}
	for _, fi := range fns {
		gr := guardedRanges(fi.decl.Body)
		ast.Inspect(fi.decl.Body, func(x ast.Node) bool {
			ce, ok := x.(*ast.CallExpr)
			if !ok {
				return true
			}
			se, ok := ce.Fun.(*ast.SelectorExpr)
			if !ok {
				return true
			}
			id, ok := se.X.(*ast.Ident)
			if !ok {
				return true
			}
			short, ok := pkgOf[fi.file][id.Name]
			if !ok || id.Obj != nil { // a local variable shadowing the package name
				return true
			}
			guard := "none"
			switch {
			case within(ce, gr):
				guard = "allowFileImport"
			case called[fi.decl.Name.Name] && callersGuarded[fi.decl.Name.Name]:
				guard = "callers:allowFileImport"
			}
			sites = append(sites, site{fi.file, funcName(fi.decl), short + "." + se.Sel.Name, guard})
			return true
		})
	}
	sort.Slice(sites, func(i, j int) bool {
		a, b := sites[i], sites[j]
		if a.file != b.file {
			return a.file < b.file
		}
		if a.fn != b.fn {
			return a.fn < b.fn
		}
		if a.callee != b.callee {
			return a.callee < b.callee
		}
		return a.guard < b.guard
	})
	var items []string
	for _, s := range sites {
		items = append(items, fmt.Sprintf("(%s, %s, %s, %s)", leanStr(s.file), leanStr(s.fn), leanStr(s.callee), leanStr(s.guard)))
	}

	// steps of compileModule in source order
	cm := p.FindFunc("Compiler", "compileModule")
	if cm == nil {
		return "", fmt.Errorf("compileModule not found")
	}
	interest := map[string]bool{"checkCyclicImports": true, "loadCompiledModule": true, "ParseFile": true, "NewSymbolTable": true,
		"BuiltinSymbols": true, "Fork": true, "fork": true, "Compile": true, "storeCompiledModule": true}
	var steps []string
	type pc struct {
		pos  int
		name string
	}
	var pcs []pc
	ast.Inspect(cm.Body, func(x ast.Node) bool {
		ce, ok := x.(*ast.CallExpr)
		if !ok {
			return true
		}
		name := ""
		switch f := ce.Fun.(type) {
		case *ast.SelectorExpr:
			name = f.Sel.Name
		case *ast.Ident:
			name = f.Name
		}
		if interest[name] {
			pcs = append(pcs, pc{int(ce.Pos()), name})
		}
		return true
	})
	sort.Slice(pcs, func(i, j int) bool { return pcs[i].pos < pcs[j].pos })
	for _, x := range pcs {
		steps = append(steps, leanStr(x.name))
	}
	// the table the module's symbols are forked from: receiver text of the `.Fork(` call and its argument
	forkOf := ""
	ast.Inspect(cm.Body, func(x ast.Node) bool {
		if ce, ok := x.(*ast.CallExpr); ok {
			if se, ok := ce.Fun.(*ast.SelectorExpr); ok && se.Sel.Name == "Fork" {
				forkOf = p.Src(ce)
			}
		}
		return true
	})
	// what `symbolTable` is initialised with in compileModule
	symInit := ""
	ast.Inspect(cm.Body, func(x ast.Node) bool {
		if as, ok := x.(*ast.AssignStmt); ok && len(as.Lhs) == 1 && len(as.Rhs) == 1 && as.Tok.String() == ":=" {
			if id, ok := as.Lhs[0].(*ast.Ident); ok && id.Name == "symbolTable" && symInit == "" {
				symInit = p.Src(as.Rhs[0])
			}
		}
		return true
	})

	// the alternatives of the ImportExpr case: conditions of the if / else-if chain, in order
	comp := p.FindFunc("Compiler", "Compile")
	if comp == nil {
		return "", fmt.Errorf("Compiler.Compile not found")
	}
	var chain []string
	ast.Inspect(comp.Body, func(x ast.Node) bool {
		cc, ok := x.(*ast.CaseClause)
		if !ok || len(cc.List) != 1 || !strings.HasSuffix(p.Src(cc.List[0]), "ImportExpr") {
			return true
		}
		for _, st := range cc.Body {
			is, ok := st.(*ast.IfStmt)
			if !ok || !mentions(is, "modules") {
				continue
			}
			for cur := is; cur != nil; {
				cond := p.Src(cur.Cond)
				if cur.Init != nil {
					cond = p.Src(cur.Init) + "; " + cond
				}
				chain = append(chain, leanStr(cond))
				switch e := cur.Else.(type) {
				case *ast.IfStmt:
					cur = e
				case *ast.BlockStmt:
					last := "else"
					if len(e.List) == 1 {
						last = "else " + p.Src(e.List[0])
					}
					chain = append(chain, leanStr(last))
					cur = nil
				default:
					cur = nil
				}
			}
		}
		return false
	})
	if len(chain) == 0 {
		return "", fmt.Errorf("ImportExpr case: if-chain over c.modules not found")
	}
	// what an import of a source module / an export statement emits: the opcodes of the c.emit calls
	emits := func(body []ast.Stmt) []string {
		var out []string
		for _, st := range body {
			ast.Inspect(st, func(x ast.Node) bool {
				if ce, ok := x.(*ast.CallExpr); ok {
					if se, ok := ce.Fun.(*ast.SelectorExpr); ok && se.Sel.Name == "emit" && len(ce.Args) >= 2 {
						var ops []string
						for _, a := range ce.Args[1:] {
							s := p.Src(a)
							if strings.HasPrefix(s, "c.addConstant(") {
								s = "k"
							}
							ops = append(ops, strings.TrimPrefix(s, "parser."))
						}
						out = append(out, leanStr(strings.Join(ops, " ")))
					}
				}
				return true
			})
		}
		return out
	}
	var exportEmits []string
	ast.Inspect(comp.Body, func(x ast.Node) bool {
		if cc, ok := x.(*ast.CaseClause); ok && len(cc.List) == 1 && strings.HasSuffix(p.Src(cc.List[0]), "ExportStmt") {
			exportEmits = emits(cc.Body)
			return false
		}
		return true
	})
	var importSrcEmits []string
	ast.Inspect(comp.Body, func(x ast.Node) bool {
		if cc, ok := x.(*ast.CaseClause); ok && len(cc.List) == 1 && p.Src(cc.List[0]) == "[]byte" && len(importSrcEmits) == 0 {
			importSrcEmits = emits(cc.Body)
			return false
		}
		return true
	})

	// parent delegation: does the body call c.parent.<same name>(…) ?
	var deleg []string
	for _, name := range []string{"checkCyclicImports", "loadCompiledModule", "storeCompiledModule"} {
		fd := p.FindFunc("Compiler", name)
		if fd == nil {
			return "", fmt.Errorf("%s not found", name)
		}
		d := false
		ast.Inspect(fd.Body, func(x ast.Node) bool {
			if ce, ok := x.(*ast.CallExpr); ok {
				if se, ok := ce.Fun.(*ast.SelectorExpr); ok && se.Sel.Name == name {
					if in, ok := se.X.(*ast.SelectorExpr); ok && in.Sel.Name == "parent" {
						d = true
					}
				}
			}
			return true
		})
		deleg = append(deleg, fmt.Sprintf("(%s, %v)", leanStr(name), d))
	}

	var b strings.Builder
	b.WriteString("namespace Tengo.Gen.ImportSites\n")
	b.WriteString("/-- (file, enclosing function, callee, guard) of every call into os, io/ioutil, path/filepath. guard:\n`allowFileImport` = lexically inside a branch whose condition is/mentions c.allowFileImport;\n`callers:allowFileImport` = every call site of the enclosing function is; `none` otherwise. -/\n")
	b.WriteString("def fsCallSites : List (String × String × String × String) := " + leanListLines(items) + "\n")
	b.WriteString("/-- selected calls of compileModule in source order -/\n")
	b.WriteString("def compileModuleSteps : List String := " + leanList(steps) + "\n")
	b.WriteString("def moduleSymbolTableInit : String := " + leanStr(symInit) + "\n")
	b.WriteString("def moduleSymbolTableFork : String := " + leanStr(forkOf) + "\n")
	b.WriteString("/-- conditions of the if / else-if chain of the ImportExpr case, in order -/\n")
	b.WriteString("def importAlternatives : List String := " + leanListLines(chain) + "\n")
	b.WriteString("/-- operands of the c.emit calls of the `[]byte` (source module) arm of ImportExpr and of ExportStmt -/\n")
	b.WriteString("def importSourceEmits : List String := " + leanList(importSrcEmits) + "\n")
	b.WriteString("def exportEmits : List String := " + leanList(exportEmits) + "\n")
	b.WriteString("/-- does the method delegate to c.parent.<itself>? -/\n")
	b.WriteString("def delegatesToParent : List (String × Bool) := " + leanList(deleg) + "\n")
	b.WriteString("end Tengo.Gen.ImportSites\n")
	return b.String(), nil
}

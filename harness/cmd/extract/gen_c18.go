package main

import (
	"fmt"
	"go/ast"
	"go/token"
	"strings"
)

// JsonScanner: the tables of stdlib/json the C18 model relies on — scan opcodes and parse-state
// constants (scanner.go), the safeSet table and the escape switch of encodeStringSlowPath
// (encode.go), the bytes that make scanWhile report isFloat, the escapes the scanner accepts and
// what unquoteBytes writes for them (decode.go).
func init() { register("JsonScanner", genJSONScanner) }

func c18ConstTable(p *Pkg, first string) ([]string, error) {
	names := constBlockNames(p, first)
	if names == nil {
		return nil, fmt.Errorf("const block of %s not found", first)
	}
	var rows []string
	for _, n := range names {
		v, ok := p.ConstInt(n)
		if !ok {
			return nil, fmt.Errorf("%s has no constant value", n)
		}
		rows = append(rows, fmt.Sprintf("(%s, %d)", leanStr(n), v))
	}
	return rows, nil
}

// c18Calls returns the single argument of every `recv.method(arg)` call statement in stmts.
func c18WriteByteArg(stmts []ast.Stmt) (ast.Expr, bool) {
	if len(stmts) != 1 {
		return nil, false
	}
	es, ok := stmts[0].(*ast.ExprStmt)
	if !ok {
		return nil, false
	}
	call, ok := es.X.(*ast.CallExpr)
	if !ok || len(call.Args) != 1 {
		return nil, false
	}
	sel, ok := call.Fun.(*ast.SelectorExpr)
	if !ok || sel.Sel.Name != "WriteByte" {
		return nil, false
	}
	return call.Args[0], true
}

func genJSONScanner(c *Ctx) (string, error) {
	p := c.Pkg("stdlib/json")
	scan, err := c18ConstTable(p, "scanContinue")
	if err != nil {
		return "", err
	}
	ps, err := c18ConstTable(p, "parseObjectKey")
	if err != nil {
		return "", err
	}

	// safeSet: keyed array literal, index -> bool
	ks, vs, ok := keyedLit(p.FindVar("safeSet"))
	if !ok {
		return "", fmt.Errorf("safeSet is not a keyed literal")
	}
	safe := make([]string, 128)
	for i := range safe {
		safe[i] = "false"
	}
	for i := range ks {
		k, ok := p.ExprConstInt(ks[i])
		if !ok || k < 0 || k > 127 {
			return "", fmt.Errorf("safeSet key not a constant below 128")
		}
		id, ok := vs[i].(*ast.Ident)
		if !ok || (id.Name != "true" && id.Name != "false") {
			return "", fmt.Errorf("safeSet value not a boolean literal")
		}
		safe[k] = id.Name
	}
	hexs, ok := p.ExprConstString(p.FindVar("hex"))
	if !ok {
		return "", fmt.Errorf("hex is not a constant string")
	}

	// encodeStringSlowPath: switch b { case …: buf.WriteByte(x) … }
	fd := p.FindFunc("", "encodeStringSlowPath")
	if fd == nil {
		return "", fmt.Errorf("encodeStringSlowPath not found")
	}
	var encEsc []string
	var found bool
	ast.Inspect(fd.Body, func(n ast.Node) bool {
		sw, ok := n.(*ast.SwitchStmt)
		if !ok || found {
			return true
		}
		tag, ok := sw.Tag.(*ast.Ident)
		if !ok {
			return true
		}
		found = true
		for _, cc := range sw.Body.List {
			cl := cc.(*ast.CaseClause)
			if cl.List == nil {
				continue // default: \u00XX
			}
			arg, ok := c18WriteByteArg(cl.Body)
			if !ok {
				encEsc = append(encEsc, "(999, 999)")
				continue
			}
			for _, e := range cl.List {
				k, ok1 := p.ExprConstInt(e)
				var w int64
				ok2 := false
				if id, isID := arg.(*ast.Ident); isID && id.Name == tag.Name {
					w, ok2 = k, true
				} else {
					w, ok2 = p.ExprConstInt(arg)
				}
				if !ok1 || !ok2 {
					encEsc = append(encEsc, "(999, 999)")
					continue
				}
				encEsc = append(encEsc, fmt.Sprintf("(%d, %d)", k, w))
			}
		}
		return true
	})
	if !found {
		return "", fmt.Errorf("escape switch of encodeStringSlowPath not found")
	}

	// scanWhile: data[i] == 'x' comparisons
	fd = p.FindFunc("decodeState", "scanWhile")
	if fd == nil {
		return "", fmt.Errorf("scanWhile not found")
	}
	var markers []int
	ast.Inspect(fd.Body, func(n ast.Node) bool {
		be, ok := n.(*ast.BinaryExpr)
		if !ok || be.Op != token.EQL {
			return true
		}
		if _, isIdx := be.X.(*ast.IndexExpr); !isIdx {
			return true
		}
		if v, ok := p.ExprConstInt(be.Y); ok {
			markers = append(markers, int(v))
		}
		return true
	})

	// stateInStringEsc: the first case list
	fd = p.FindFunc("", "stateInStringEsc")
	if fd == nil {
		return "", fmt.Errorf("stateInStringEsc not found")
	}
	var scanEsc []int
	ast.Inspect(fd.Body, func(n ast.Node) bool {
		sw, ok := n.(*ast.SwitchStmt)
		if !ok || len(sw.Body.List) == 0 || scanEsc != nil {
			return true
		}
		for _, e := range sw.Body.List[0].(*ast.CaseClause).List {
			if v, ok := p.ExprConstInt(e); ok {
				scanEsc = append(scanEsc, int(v))
			}
		}
		return true
	})

	// unquoteBytes: switch s[r] { case …: b[w] = x }
	fd = p.FindFunc("", "unquoteBytes")
	if fd == nil {
		return "", fmt.Errorf("unquoteBytes not found")
	}
	var unq []string
	ast.Inspect(fd.Body, func(n ast.Node) bool {
		sw, ok := n.(*ast.SwitchStmt)
		if !ok || sw.Tag == nil {
			return true
		}
		if _, isIdx := sw.Tag.(*ast.IndexExpr); !isIdx {
			return true
		}
		for _, cc := range sw.Body.List {
			cl := cc.(*ast.CaseClause)
			if cl.List == nil || len(cl.Body) == 0 {
				continue
			}
			as, ok := cl.Body[0].(*ast.AssignStmt)
			if !ok || len(as.Rhs) != 1 {
				continue // the 'u' arm
			}
			if _, isIdx := as.Lhs[0].(*ast.IndexExpr); !isIdx {
				continue
			}
			for _, e := range cl.List {
				k, ok1 := p.ExprConstInt(e)
				w, ok2 := p.ExprConstInt(as.Rhs[0])
				if !ok2 {
					if _, same := as.Rhs[0].(*ast.IndexExpr); same { // b[w] = s[r]
						w, ok2 = k, true
					}
				}
				if ok1 && ok2 {
					unq = append(unq, fmt.Sprintf("(%d, %d)", k, w))
				}
			}
		}
		return true
	})

	var b strings.Builder
	b.WriteString("namespace Tengo.Gen.JsonScanner\n")
	b.WriteString("/-- scan opcodes of stdlib/json/scanner.go in declaration order -/\n")
	b.WriteString("def scanCodes : List (String × Nat) := " + leanListLines(scan) + "\n")
	b.WriteString("/-- parseState constants -/\n")
	b.WriteString("def parseStates : List (String × Nat) := " + leanList(ps) + "\n")
	b.WriteString("/-- encode.go safeSet, indexes 0..127 -/\n")
	b.WriteString("def safeSet : List Bool := " + leanList(safe) + "\n")
	b.WriteString("def hexDigits : String := " + leanStr(hexs) + "\n")
	b.WriteString("/-- encodeStringSlowPath: (byte, byte written after the backslash); the default arm writes u00XX -/\n")
	b.WriteString("def encEscapes : List (Nat × Nat) := " + leanList(encEsc) + "\n")
	b.WriteString("/-- scanWhile: bytes that set isFloat -/\n")
	b.WriteString("def floatMarkers : List Nat := " + leanNats(markers) + "\n")
	b.WriteString("/-- stateInStringEsc: single-character escapes the scanner accepts -/\n")
	b.WriteString("def scanEscapes : List Nat := " + leanNats(scanEsc) + "\n")
	b.WriteString("/-- unquoteBytes: (escape character, byte written) -/\n")
	b.WriteString("def unquoteEscapes : List (Nat × Nat) := " + leanList(unq) + "\n")
	b.WriteString("end Tengo.Gen.JsonScanner\n")
	return b.String(), nil
}

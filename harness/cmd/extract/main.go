// Command extract reads /repo's Go source (go/ast + go/types, never executing
// tengo) and regenerates lean/Tengo/Gen/*.lean: the tables and inventories the
// Lean theorems are stated over. Files are rewritten only when their content
// changes so an unchanged tree costs no Lean rebuild.
package main

import (
	"bytes"
	"fmt"
	"go/ast"
	"go/build/constraint"
	"go/constant"
	"go/importer"
	"go/parser"
	"go/printer"
	"go/token"
	"go/types"
	"os"
	"path/filepath"
	"sort"
	"strings"
)

// Pkg is one parsed and type-checked package of the repository.
type Pkg struct {
	Dir   string
	Fset  *token.FileSet
	Files map[string]*ast.File // base name -> file
	Info  *types.Info
	Types *types.Package
}

// Ctx gives generators access to the repository source.
type Ctx struct {
	Repo string
	pkgs map[string]*Pkg
}

// Generator produces one Gen file: name without extension, Lean source body.
type Generator struct {
	Name string
	Run  func(c *Ctx) (string, error)
}

var generators []Generator

func register(name string, run func(c *Ctx) (string, error)) {
	generators = append(generators, Generator{name, run})
}

func buildTagOK(f *ast.File) bool {
	for _, cg := range f.Comments {
		if cg.Pos() > f.Package {
			break
		}
		for _, c := range cg.List {
			if constraint.IsGoBuild(c.Text) {
				e, err := constraint.Parse(c.Text)
				if err != nil {
					return true
				}
				return e.Eval(func(tag string) bool {
					return tag == "verif" || tag == "linux" || tag == "amd64" || strings.HasPrefix(tag, "go1.")
				})
			}
		}
	}
	return true
}

// Pkg loads (once) the package in repo-relative directory dir.
func (c *Ctx) Pkg(dir string) *Pkg {
	if p, ok := c.pkgs[dir]; ok {
		return p
	}
	fset := token.NewFileSet()
	full := filepath.Join(c.Repo, dir)
	ents, err := os.ReadDir(full)
	if err != nil {
		fatal("read dir %s: %v", full, err)
	}
	p := &Pkg{Dir: dir, Fset: fset, Files: map[string]*ast.File{}}
	var files []*ast.File
	for _, e := range ents {
		n := e.Name()
		if e.IsDir() || !strings.HasSuffix(n, ".go") || strings.HasSuffix(n, "_test.go") {
			continue
		}
		f, err := parser.ParseFile(fset, filepath.Join(full, n), nil, parser.ParseComments)
		if err != nil {
			fatal("parse %s: %v", n, err)
		}
		if !buildTagOK(f) || f.Name.Name == "main" && dir != "cmd/tengo" {
			continue
		}
		p.Files[n] = f
		files = append(files, f)
	}
	p.Info = &types.Info{
		Types: map[ast.Expr]types.TypeAndValue{},
		Defs:  map[*ast.Ident]types.Object{},
		Uses:  map[*ast.Ident]types.Object{},
	}
	conf := types.Config{
		Importer: &repoImporter{c: c, std: importer.ForCompiler(fset, "source", nil)},
		Error:    func(err error) {}, // tolerate; generators fail on what they need
	}
	p.Types, _ = conf.Check("github.com/d5/tengo/v2/"+dir, fset, files, p.Info)
	c.pkgs[dir] = p
	return p
}

type repoImporter struct {
	c   *Ctx
	std types.Importer
}

func (r *repoImporter) Import(path string) (*types.Package, error) {
	const pre = "github.com/d5/tengo/v2"
	if path == pre {
		return r.c.Pkg(".").Types, nil
	}
	if strings.HasPrefix(path, pre+"/") {
		return r.c.Pkg(strings.TrimPrefix(path, pre+"/")).Types, nil
	}
	return r.std.Import(path)
}

// ---- helpers for generators ----

// ConstInt returns the integer value of a package-level constant.
func (p *Pkg) ConstInt(name string) (int64, bool) {
	if p.Types == nil {
		return 0, false
	}
	o := p.Types.Scope().Lookup(name)
	c, ok := o.(*types.Const)
	if !ok {
		return 0, false
	}
	v, exact := constant.Int64Val(constant.ToInt(c.Val()))
	return v, exact
}

// ExprConstInt evaluates a constant expression through the type checker.
func (p *Pkg) ExprConstInt(e ast.Expr) (int64, bool) {
	tv, ok := p.Info.Types[e]
	if !ok || tv.Value == nil {
		return 0, false
	}
	v, exact := constant.Int64Val(constant.ToInt(tv.Value))
	return v, exact
}

// ExprConstString evaluates a constant string expression.
func (p *Pkg) ExprConstString(e ast.Expr) (string, bool) {
	tv, ok := p.Info.Types[e]
	if !ok || tv.Value == nil || tv.Value.Kind() != constant.String {
		return "", false
	}
	return constant.StringVal(tv.Value), true
}

// FindVar returns the value expression of a package-level `var name = …`.
func (p *Pkg) FindVar(name string) ast.Expr {
	for _, f := range p.sortedFiles() {
		for _, d := range f.Decls {
			gd, ok := d.(*ast.GenDecl)
			if !ok || gd.Tok != token.VAR {
				continue
			}
			for _, s := range gd.Specs {
				vs := s.(*ast.ValueSpec)
				for i, n := range vs.Names {
					if n.Name == name && i < len(vs.Values) {
						return vs.Values[i]
					}
				}
			}
		}
	}
	return nil
}

// FindFunc returns the declaration of function (or method recv.name).
func (p *Pkg) FindFunc(recv, name string) *ast.FuncDecl {
	for _, f := range p.sortedFiles() {
		for _, d := range f.Decls {
			fd, ok := d.(*ast.FuncDecl)
			if !ok || fd.Name.Name != name {
				continue
			}
			if recv == "" && fd.Recv == nil {
				return fd
			}
			if recv != "" && fd.Recv != nil && len(fd.Recv.List) == 1 && recvName(fd.Recv.List[0].Type) == recv {
				return fd
			}
		}
	}
	return nil
}

func recvName(e ast.Expr) string {
	switch t := e.(type) {
	case *ast.StarExpr:
		return recvName(t.X)
	case *ast.Ident:
		return t.Name
	}
	return ""
}

func (p *Pkg) sortedFiles() []*ast.File {
	names := make([]string, 0, len(p.Files))
	for n := range p.Files {
		names = append(names, n)
	}
	sort.Strings(names)
	out := make([]*ast.File, 0, len(names))
	for _, n := range names {
		out = append(out, p.Files[n])
	}
	return out
}

// Src renders a node back to Go source on one line (canonical spacing).
func (p *Pkg) Src(n ast.Node) string {
	var b bytes.Buffer
	_ = printer.Fprint(&b, p.Fset, n)
	return strings.Join(strings.Fields(b.String()), " ")
}

// Lean rendering helpers.

func leanStr(s string) string {
	var b strings.Builder
	b.WriteByte('"')
	for _, r := range s {
		switch {
		case r == '"':
			b.WriteString("\\\"")
		case r == '\\':
			b.WriteString("\\\\")
		case r == '\n':
			b.WriteString("\\n")
		case r == '\t':
			b.WriteString("\\t")
		case r < 0x20 || r == 0x7f:
			fmt.Fprintf(&b, "\\x%02x", r)
		default:
			b.WriteRune(r)
		}
	}
	b.WriteByte('"')
	return b.String()
}

func leanList(items []string) string {
	if len(items) == 0 {
		return "[]"
	}
	return "[" + strings.Join(items, ", ") + "]"
}

// leanListLines renders one item per line (readable diffs of big tables).
func leanListLines(items []string) string {
	if len(items) == 0 {
		return "[]"
	}
	return "[\n  " + strings.Join(items, ",\n  ") + "\n]"
}

func leanNats(xs []int) string {
	s := make([]string, len(xs))
	for i, x := range xs {
		s[i] = fmt.Sprint(x)
	}
	return leanList(s)
}

func fatal(format string, a ...interface{}) {
	fmt.Fprintf(os.Stderr, "extract: "+format+"\n", a...)
	os.Exit(2)
}

func main() {
	if len(os.Args) < 3 {
		fatal("usage: extract <repo> <lean/Tengo/Gen dir> [name…]")
	}
	ctx := &Ctx{Repo: os.Args[1], pkgs: map[string]*Pkg{}}
	out := os.Args[2]
	only := map[string]bool{}
	for _, n := range os.Args[3:] {
		only[n] = true
	}
	_ = os.MkdirAll(out, 0o755)
	sort.Slice(generators, func(i, j int) bool { return generators[i].Name < generators[j].Name })
	failed := 0
	for _, g := range generators {
		if len(only) > 0 && !only[g.Name] {
			continue
		}
		body, err := g.Run(ctx)
		if err != nil {
			// The source no longer has the shape the generator reads. Emit a
			// file that records this so that dependent theorems fail to check.
			fmt.Fprintf(os.Stderr, "extract: %s: %v\n", g.Name, err)
			body = fmt.Sprintf("namespace Tengo.Gen.%s\n/-- extraction failed: the source no longer has the shape the extractor reads -/\ndef extractionError : String := %s\nend Tengo.Gen.%s\n", g.Name, leanStr(err.Error()), g.Name)
			failed++
		}
		content := "-- GENERATED by harness/cmd/extract from /repo on every run. Do not edit.\n" + body
		path := filepath.Join(out, g.Name+".lean")
		old, _ := os.ReadFile(path)
		if string(old) != content {
			if err := os.WriteFile(path, []byte(content), 0o644); err != nil {
				fatal("write %s: %v", path, err)
			}
			fmt.Printf("extract: wrote %s\n", path)
		}
	}
	if failed > 0 {
		fmt.Printf("extract: %d generator(s) could not read the source\n", failed)
	}
}

package main

// Generator for property C11: which opcode the compiler emits for a symbol of each scope.
//
// Read from compiler.go:
//   - the `*parser.Ident` case of (*Compiler).Compile:      switch symbol.Scope → load opcode
//   - (*Compiler).compileAssign:                            switch symbol.Scope → store opcodes
//     (with the `if` conditions that choose between selector / define / plain stores)
//   - the `*parser.FuncLit` case of (*Compiler).Compile:    switch s.Scope over the captured originals
//     → pointer-load opcode pushed before CLOSURE
//
// Each switch is rendered as  scope ↦ [(guard, opcode, operands)]  in source order; the guard is the
// conjunction of the enclosing `if` conditions inside the case clause (negated for else branches).

import (
	"fmt"
	"go/ast"
	"strings"
)

func init() { register("ScopeOpcodes", genScopeOpcodes) }

type scopeEmit struct {
	guard string
	op    string
	args  []string
}

// collectEmits walks the statements of one case clause.
func collectEmits(p *Pkg, stmts []ast.Stmt, guard []string, out *[]scopeEmit, other *[]string) {
	for _, s := range stmts {
		switch st := s.(type) {
		case *ast.ExprStmt:
			if call, ok := st.X.(*ast.CallExpr); ok {
				if sel, ok := call.Fun.(*ast.SelectorExpr); ok && sel.Sel.Name == "emit" && len(call.Args) >= 2 {
					e := scopeEmit{guard: strings.Join(guard, " && "), op: strings.TrimPrefix(p.Src(call.Args[1]), "parser.")}
					for _, a := range call.Args[2:] {
						e.args = append(e.args, p.Src(a))
					}
					*out = append(*out, e)
					continue
				}
			}
			*other = append(*other, p.Src(st))
		case *ast.IfStmt:
			cond := p.Src(st.Cond)
			collectEmits(p, st.Body.List, append(append([]string{}, guard...), cond), out, other)
			if st.Else != nil {
				neg := append(append([]string{}, guard...), "!("+cond+")")
				switch el := st.Else.(type) {
				case *ast.BlockStmt:
					collectEmits(p, el.List, neg, out, other)
				case *ast.IfStmt:
					collectEmits(p, []ast.Stmt{el}, neg, out, other)
				}
			}
		case *ast.BlockStmt:
			collectEmits(p, st.List, guard, out, other)
		case *ast.ReturnStmt:
			g := strings.Join(guard, " && ")
			if len(st.Results) == 1 {
				if call, ok := st.Results[0].(*ast.CallExpr); ok {
					if sel, ok := call.Fun.(*ast.SelectorExpr); ok && sel.Sel.Name == "errorf" {
						*out = append(*out, scopeEmit{guard: g, op: "error"})
						continue
					}
				}
			}
			*other = append(*other, "return")
		case *ast.AssignStmt:
			// e.g. `symbol.LocalAssigned = true`: recorded as a pseudo emission so that dropping the
			// mark changes the table
			*out = append(*out, scopeEmit{guard: strings.Join(guard, " && "), op: "assign", args: []string{p.Src(st)}})
		default:
			*other = append(*other, p.Src(st))
		}
	}
}

// scopeSwitches finds every `switch <x>.Scope {…}` below n (not descending into nested function literals).
func scopeSwitches(n ast.Node) []*ast.SwitchStmt {
	var out []*ast.SwitchStmt
	ast.Inspect(n, func(x ast.Node) bool {
		if sw, ok := x.(*ast.SwitchStmt); ok {
			if sel, ok := sw.Tag.(*ast.SelectorExpr); ok && sel.Sel.Name == "Scope" {
				out = append(out, sw)
			}
		}
		return true
	})
	return out
}

func renderScopeSwitch(p *Pkg, sw *ast.SwitchStmt) (string, error) {
	var rows []string
	for _, cs := range sw.Body.List {
		cc := cs.(*ast.CaseClause)
		label := "default"
		if len(cc.List) > 0 {
			var ls []string
			for _, l := range cc.List {
				ls = append(ls, p.Src(l))
			}
			label = strings.Join(ls, "|")
		}
		var ems []scopeEmit
		var other []string
		collectEmits(p, cc.Body, nil, &ems, &other)
		if len(other) > 0 {
			return "", fmt.Errorf("case %s of switch %s has statements the extractor does not understand: %v", label, p.Src(sw.Tag), other)
		}
		var items []string
		for _, e := range ems {
			as := make([]string, len(e.args))
			for i, a := range e.args {
				as[i] = leanStr(a)
			}
			items = append(items, fmt.Sprintf("(%s, %s, %s)", leanStr(e.guard), leanStr(e.op), leanList(as)))
		}
		rows = append(rows, fmt.Sprintf("(%s, %s)", leanStr(label), leanList(items)))
	}
	return leanListLines(rows), nil
}

// compileCase returns the clause `case *parser.<typ>:` of the type switch in (*Compiler).Compile.
func compileCase(p *Pkg, typ string) *ast.CaseClause {
	fd := p.FindFunc("Compiler", "Compile")
	if fd == nil {
		return nil
	}
	var found *ast.CaseClause
	ast.Inspect(fd.Body, func(x ast.Node) bool {
		ts, ok := x.(*ast.TypeSwitchStmt)
		if !ok || found != nil {
			return found == nil
		}
		for _, cs := range ts.Body.List {
			cc := cs.(*ast.CaseClause)
			for _, l := range cc.List {
				if p.Src(l) == "*parser."+typ {
					found = cc
				}
			}
		}
		return false
	})
	return found
}

func genScopeOpcodes(c *Ctx) (string, error) {
	p := c.Pkg(".")
	type part struct {
		name, doc string
		node      ast.Node
	}
	var parts []part
	if cc := compileCase(p, "Ident"); cc != nil {
		parts = append(parts, part{"identLoad", "`case *parser.Ident` of Compile: scope ↦ load", cc})
	} else {
		return "", fmt.Errorf("Ident case of Compile not found")
	}
	if fd := p.FindFunc("Compiler", "compileAssign"); fd != nil {
		parts = append(parts, part{"assignStore", "compileAssign: scope ↦ store (guards: selector / define / plain)", fd.Body})
	} else {
		return "", fmt.Errorf("compileAssign not found")
	}
	if cc := compileCase(p, "FuncLit"); cc != nil {
		parts = append(parts, part{"captureLoad", "`case *parser.FuncLit` of Compile, loop over FreeSymbols(): scope of the original ↦ pointer load pushed before CLOSURE", cc})
	} else {
		return "", fmt.Errorf("FuncLit case of Compile not found")
	}
	var b strings.Builder
	b.WriteString("namespace Tengo.Gen.ScopeOpcodes\n")
	for _, pt := range parts {
		sws := scopeSwitches(pt.node)
		if len(sws) != 1 {
			return "", fmt.Errorf("%s: expected exactly one switch over a symbol's Scope, found %d", pt.name, len(sws))
		}
		body, err := renderScopeSwitch(p, sws[0])
		if err != nil {
			return "", err
		}
		fmt.Fprintf(&b, "/-- %s. Rows: (case label, [(guard, opcode | \"error\" | \"assign\", operands)]) -/\n", pt.doc)
		fmt.Fprintf(&b, "def %s : List (String × List (String × String × List String)) := %s\n", pt.name, body)
		fmt.Fprintf(&b, "def %sTag : String := %s\n", pt.name, leanStr(p.Src(sws[0].Tag)))
	}
	// which table the scopes are resolved in and with which recur flag
	var resolves []string
	for _, pt := range parts[:2] {
		ast.Inspect(pt.node, func(x ast.Node) bool {
			if call, ok := x.(*ast.CallExpr); ok {
				if sel, ok := call.Fun.(*ast.SelectorExpr); ok && sel.Sel.Name == "Resolve" {
					resolves = append(resolves, leanStr(pt.name+": "+p.Src(call)))
				}
			}
			return true
		})
	}
	b.WriteString("/-- the Resolve calls feeding the two switches (receiver, name, recur flag) -/\n")
	b.WriteString("def resolveCalls : List String := " + leanList(resolves) + "\n")
	b.WriteString("end Tengo.Gen.ScopeOpcodes\n")
	return b.String(), nil
}

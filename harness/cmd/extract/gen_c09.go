package main

import (
	"fmt"
	"go/ast"
	"go/types"
	"sort"
	"strings"
)

// Immut (C09): who can write the storage of arrays and maps, and who builds a new wrapper over
// existing storage. Semantic facts read from the root package (never hashes or positions):
//
//   indexSetTypes   receiver types that define IndexSet themselves
//   storageWrites   (function, container type, how) for every element assignment `x.Value[i] = …`,
//                   field assignment `x.Value = …`, `delete(x.Value, …)` and `append(x.Value, …)`
//                   where x is an Array / ImmutableArray / Map / ImmutableMap
//   storageAliases  (function, new wrapper type, source type) for every composite literal of one of
//                   the four types whose Value is (a slice of) another container's Value
//   exportEmits     opcodes emitted by the compiler for an export statement, in order
//   builtinModuleImmutable  BuiltinModule.Import returns AsImmutableMap(…) and that builds an ImmutableMap

func init() { register("Immut", genImmut) }

var containerTypes = map[string]bool{"Array": true, "ImmutableArray": true, "Map": true, "ImmutableMap": true}

func namedOf(t types.Type) string {
	for {
		switch x := t.(type) {
		case *types.Pointer:
			t = x.Elem()
			continue
		case *types.Named:
			return x.Obj().Name()
		}
		return ""
	}
}

func genImmut(c *Ctx) (string, error) {
	p := c.Pkg(".")
	typeOf := func(e ast.Expr) string {
		if tv, ok := p.Info.Types[e]; ok && tv.Type != nil {
			return namedOf(tv.Type)
		}
		return ""
	}
	// valueBase: e is `x.Value` with x one of the container types → type name
	valueBase := func(e ast.Expr) string {
		for {
			if pe, ok := e.(*ast.ParenExpr); ok {
				e = pe.X
				continue
			}
			break
		}
		sel, ok := e.(*ast.SelectorExpr)
		if !ok || sel.Sel.Name != "Value" {
			return ""
		}
		if t := typeOf(sel.X); containerTypes[t] {
			return t
		}
		return ""
	}
	var idxSet []string
	writes := map[string]bool{}
	aliases := map[string]bool{}
	for _, f := range p.sortedFiles() {
		for _, d := range f.Decls {
			fd, ok := d.(*ast.FuncDecl)
			if !ok || fd.Body == nil {
				continue
			}
			name := fd.Name.Name
			if fd.Recv != nil && len(fd.Recv.List) == 1 {
				r := recvName(fd.Recv.List[0].Type)
				name = r + "." + name
				if fd.Name.Name == "IndexSet" && r != "ObjectImpl" {
					idxSet = append(idxSet, r)
				}
			}
			ast.Inspect(fd.Body, func(n ast.Node) bool {
				switch s := n.(type) {
				case *ast.AssignStmt:
					for _, l := range s.Lhs {
						if ix, ok := l.(*ast.IndexExpr); ok {
							if t := valueBase(ix.X); t != "" {
								writes[name+"\x00"+t+"\x00elem"] = true
							}
						}
						if t := valueBase(l); t != "" {
							writes[name+"\x00"+t+"\x00field"] = true
						}
					}
				case *ast.CallExpr:
					if id, ok := s.Fun.(*ast.Ident); ok && len(s.Args) > 0 && (id.Name == "delete" || id.Name == "append" || id.Name == "copy" || id.Name == "clear") {
						if t := valueBase(s.Args[0]); t != "" {
							writes[name+"\x00"+t+"\x00"+id.Name] = true
						}
					}
				case *ast.CompositeLit:
					lt := typeOf(s)
					if !containerTypes[lt] {
						return true
					}
					for _, el := range s.Elts {
						kv, ok := el.(*ast.KeyValueExpr)
						if !ok {
							continue
						}
						if k, ok := kv.Key.(*ast.Ident); !ok || k.Name != "Value" {
							continue
						}
						v := kv.Value
						for {
							if se, ok := v.(*ast.SliceExpr); ok {
								v = se.X
								continue
							}
							break
						}
						if t := valueBase(v); t != "" {
							aliases[name+"\x00"+lt+"\x00"+t] = true
						}
					}
				}
				return true
			})
		}
	}
	sort.Strings(idxSet)
	triples := func(m map[string]bool) []string {
		var ks []string
		for k := range m {
			ks = append(ks, k)
		}
		sort.Strings(ks)
		out := make([]string, len(ks))
		for i, k := range ks {
			q := strings.Split(k, "\x00")
			out[i] = fmt.Sprintf("(%s, %s, %s)", leanStr(q[0]), leanStr(q[1]), leanStr(q[2]))
		}
		return out
	}
	// export statement
	var emits []string
	if fd := p.FindFunc("Compiler", "Compile"); fd != nil {
		ast.Inspect(fd.Body, func(n ast.Node) bool {
			cc, ok := n.(*ast.CaseClause)
			if !ok || len(cc.List) != 1 || !strings.HasSuffix(p.Src(cc.List[0]), "ExportStmt") {
				return true
			}
			for _, st := range cc.Body {
				ast.Inspect(st, func(m ast.Node) bool {
					call, ok := m.(*ast.CallExpr)
					if !ok {
						return true
					}
					if sel, ok := call.Fun.(*ast.SelectorExpr); ok && sel.Sel.Name == "emit" && len(call.Args) >= 2 {
						emits = append(emits, strings.TrimPrefix(p.Src(call.Args[1]), "parser."))
					}
					return true
				})
			}
			return false
		})
	}
	if len(emits) == 0 {
		return "", fmt.Errorf("export statement case of Compiler.Compile not found")
	}
	// builtin modules
	bm := false
	if imp, asm := p.FindFunc("BuiltinModule", "Import"), p.FindFunc("BuiltinModule", "AsImmutableMap"); imp != nil && asm != nil {
		a, b := false, false
		ast.Inspect(imp.Body, func(n ast.Node) bool {
			if r, ok := n.(*ast.ReturnStmt); ok && len(r.Results) > 0 && strings.Contains(p.Src(r.Results[0]), ".AsImmutableMap(") {
				a = true
			}
			return true
		})
		ast.Inspect(asm.Body, func(n ast.Node) bool {
			if r, ok := n.(*ast.ReturnStmt); ok && len(r.Results) == 1 && strings.HasPrefix(p.Src(r.Results[0]), "&ImmutableMap{") {
				b = true
			}
			return true
		})
		bm = a && b
	}
	strs := func(xs []string) string {
		out := make([]string, len(xs))
		for i, x := range xs {
			out[i] = leanStr(x)
		}
		return leanList(out)
	}
	var sb strings.Builder
	sb.WriteString("namespace Tengo.Gen.Immut\n")
	sb.WriteString("/-- receiver types of the root package that define `IndexSet` themselves -/\n")
	sb.WriteString("def indexSetTypes : List String := " + strs(idxSet) + "\n")
	sb.WriteString("/-- (function, container type, how): every write to the storage of an array/map wrapper -/\n")
	sb.WriteString("def storageWrites : List (String × String × String) := " + leanListLines(triples(writes)) + "\n")
	sb.WriteString("/-- (function, new wrapper type, source type): wrappers built over existing storage -/\n")
	sb.WriteString("def storageAliases : List (String × String × String) := " + leanListLines(triples(aliases)) + "\n")
	sb.WriteString("/-- opcodes the compiler emits for an export statement -/\n")
	sb.WriteString("def exportEmits : List String := " + strs(emits) + "\n")
	sb.WriteString(fmt.Sprintf("def builtinModuleImmutable : Bool := %v\n", bm))
	sb.WriteString("end Tengo.Gen.Immut\n")
	return sb.String(), nil
}

package main

// Shape of the tail-call test and of the frame push/pop in VM.run (vm.go) for C16, read syntactically:
// callee identity test, the peek at the next opcode(s) in disjunctive normal form, the statements of the
// tail branch, the MaxFrames comparison, the frame push, the OpReturn case, and which cases of the
// dispatch switch write the frame registers. No positions, no comments.

import (
	"fmt"
	"go/ast"
	"go/token"
	"sort"
	"strings"
)

func init() {
	register("TailCallShape", genTailCallShape)
}

func c16Strs(xs []string) string {
	out := make([]string, len(xs))
	for i, x := range xs {
		out[i] = leanStr(x)
	}
	return leanList(out)
}

func c16StrLines(xs []string) string {
	out := make([]string, len(xs))
	for i, x := range xs {
		out[i] = leanStr(x)
	}
	return leanListLines(out)
}

func c16Unparen(e ast.Expr) ast.Expr {
	for {
		p, ok := e.(*ast.ParenExpr)
		if !ok {
			return e
		}
		e = p.X
	}
}

// c16Subst renders e with identifiers replaced by the source of their local definition.
func c16Subst(p *Pkg, e ast.Expr, defs map[string]string) string {
	s := p.Src(e)
	if id, ok := c16Unparen(e).(*ast.Ident); ok {
		if d, has := defs[id.Name]; has {
			return d
		}
	}
	return s
}

// c16Eq renders `a == b` with sorted operands (after substitution of local definitions).
func c16Eq(p *Pkg, e ast.Expr, defs map[string]string) (string, bool) {
	b, ok := c16Unparen(e).(*ast.BinaryExpr)
	if !ok || b.Op != token.EQL {
		return "", false
	}
	x, y := c16Subst(p, b.X, defs), c16Subst(p, b.Y, defs)
	if y < x {
		x, y = y, x
	}
	return x + " == " + y, true
}

// c16DNF turns a condition built from ||, && and == into a list of conjunctions.
func c16DNF(p *Pkg, e ast.Expr, defs map[string]string) ([][]string, error) {
	e = c16Unparen(e)
	if b, ok := e.(*ast.BinaryExpr); ok {
		switch b.Op {
		case token.LOR:
			l, err := c16DNF(p, b.X, defs)
			if err != nil {
				return nil, err
			}
			r, err := c16DNF(p, b.Y, defs)
			if err != nil {
				return nil, err
			}
			return append(l, r...), nil
		case token.LAND:
			l, err := c16DNF(p, b.X, defs)
			if err != nil {
				return nil, err
			}
			r, err := c16DNF(p, b.Y, defs)
			if err != nil {
				return nil, err
			}
			var out [][]string
			for _, a := range l {
				for _, c := range r {
					out = append(out, append(append([]string{}, a...), c...))
				}
			}
			return out, nil
		case token.EQL:
			s, _ := c16Eq(p, e, defs)
			return [][]string{{s}}, nil
		}
	}
	return nil, fmt.Errorf("tail-call layout test is not built from ||, && and ==: %s", p.Src(e))
}

func c16StmtStrs(p *Pkg, list []ast.Stmt) []string {
	out := make([]string, 0, len(list))
	for _, s := range list {
		out = append(out, p.Src(s))
	}
	return out
}

func genTailCallShape(c *Ctx) (string, error) {
	p := c.Pkg(".")
	vr := p.FindFunc("VM", "run")
	if vr == nil || vr.Body == nil {
		return "", fmt.Errorf("VM.run not found")
	}
	var sw *ast.SwitchStmt
	ast.Inspect(vr.Body, func(n ast.Node) bool {
		if t, ok := n.(*ast.SwitchStmt); ok && sw == nil && strings.HasPrefix(p.Src(t.Tag), "v.curInsts[") {
			sw = t
			return false
		}
		return true
	})
	if sw == nil {
		return "", fmt.Errorf("VM.run: dispatch switch not found")
	}
	var callCase, retCase *ast.CaseClause
	var writers []string
	for _, cc := range sw.Body.List {
		cl := cc.(*ast.CaseClause)
		name := "default"
		if cl.List != nil {
			ns := make([]string, len(cl.List))
			for i, e := range cl.List {
				ns[i] = p.Src(e)
			}
			name = strings.Join(ns, ",")
		}
		switch name {
		case "parser.OpCall":
			callCase = cl
		case "parser.OpReturn":
			retCase = cl
		}
		writes := false
		isFrameReg := func(e ast.Expr) bool {
			s := p.Src(e)
			return s == "v.framesIndex" || s == "v.curFrame" || strings.HasPrefix(s, "v.frames[") || strings.HasPrefix(s, "v.curFrame.") || s == "v.curInsts"
		}
		ast.Inspect(&ast.BlockStmt{List: cl.Body}, func(n ast.Node) bool {
			switch t := n.(type) {
			case *ast.AssignStmt:
				for _, l := range t.Lhs {
					if isFrameReg(l) {
						writes = true
					}
				}
			case *ast.IncDecStmt:
				if isFrameReg(t.X) {
					writes = true
				}
			}
			return true
		})
		if writes {
			writers = append(writers, name)
		}
	}
	if callCase == nil || retCase == nil {
		return "", fmt.Errorf("VM.run: OpCall or OpReturn case not found")
	}
	sort.Strings(writers)

	// the block for compiled callees: `if callee, ok := value.(*CompiledFunction); ok { … }`
	var compiled *ast.IfStmt
	var ipAdvance []string
	for _, s := range callCase.Body {
		switch t := s.(type) {
		case *ast.IfStmt:
			if t.Init != nil && strings.Contains(p.Src(t.Init), "(*CompiledFunction)") {
				compiled = t
			}
		case *ast.AssignStmt:
			if len(t.Lhs) == 1 && p.Src(t.Lhs[0]) == "v.ip" {
				ipAdvance = append(ipAdvance, p.Src(t))
			}
		case *ast.IncDecStmt:
			if p.Src(t.X) == "v.ip" {
				ipAdvance = append(ipAdvance, p.Src(t))
			}
		}
	}
	if compiled == nil {
		return "", fmt.Errorf("OpCall: compiled-callee block not found")
	}
	calleeVar := "callee"
	if as, ok := compiled.Init.(*ast.AssignStmt); ok && len(as.Lhs) >= 1 {
		calleeVar = p.Src(as.Lhs[0])
	}
	// inside: the identity test, the MaxFrames test, then the push
	var identIf, maxIf *ast.IfStmt
	var push []string
	for _, s := range compiled.Body.List {
		if t, ok := s.(*ast.IfStmt); ok && t.Init == nil {
			if b, ok := c16Unparen(t.Cond).(*ast.BinaryExpr); ok {
				if identIf == nil && maxIf == nil && b.Op == token.EQL && (p.Src(b.X) == calleeVar || p.Src(b.Y) == calleeVar) {
					identIf = t
					continue
				}
				if maxIf == nil && (strings.Contains(p.Src(b), "MaxFrames")) {
					maxIf = t
					continue
				}
			}
		}
		if maxIf != nil {
			push = append(push, p.Src(s))
		}
	}
	if identIf == nil || maxIf == nil {
		return "", fmt.Errorf("OpCall: callee identity test or MaxFrames test not found")
	}
	if identIf.Else != nil || maxIf.Else != nil {
		return "", fmt.Errorf("OpCall: unexpected else branch")
	}
	calleeTest, _ := c16Eq(p, identIf.Cond, nil)
	// body of the identity test: local definitions, then one `if <layout>` holding the tail branch
	defs := map[string]string{}
	var layoutIf *ast.IfStmt
	var extra []string
	for _, s := range identIf.Body.List {
		if as, ok := s.(*ast.AssignStmt); ok && as.Tok == token.DEFINE && len(as.Lhs) == 1 && len(as.Rhs) == 1 {
			defs[p.Src(as.Lhs[0])] = p.Src(as.Rhs[0])
			continue
		}
		if t, ok := s.(*ast.IfStmt); ok && layoutIf == nil && t.Init == nil && t.Else == nil {
			layoutIf = t
			continue
		}
		extra = append(extra, p.Src(s))
	}
	if layoutIf == nil {
		return "", fmt.Errorf("OpCall: layout test not found")
	}
	dnf, err := c16DNF(p, layoutIf.Cond, defs)
	if err != nil {
		return "", err
	}
	for _, d := range dnf {
		sort.Strings(d)
	}
	// tail branch statements; a nested `if <eq> { x = y }` is rendered with the substituted condition
	var tail []string
	for _, s := range layoutIf.Body.List {
		if t, ok := s.(*ast.IfStmt); ok && t.Init == nil && t.Else == nil {
			if cond, ok := c16Eq(p, t.Cond, defs); ok {
				tail = append(tail, "if "+cond+" { "+strings.Join(c16StmtStrs(p, t.Body.List), "; ")+" }")
				continue
			}
		}
		tail = append(tail, p.Src(s))
	}
	mb := c16Unparen(maxIf.Cond).(*ast.BinaryExpr)

	var b strings.Builder
	b.WriteString("namespace Tengo.Gen.TailCallShape\n")
	fmt.Fprintf(&b, "/-- `v.ip` updates of the OpCall case before the callee is looked at -/\ndef ipAdvance : List String := %s\n", c16Strs(ipAdvance))
	fmt.Fprintf(&b, "/-- the test that guards the tail-call branch (operands of == sorted) -/\ndef calleeTest : String := %s\n", leanStr(calleeTest))
	fmt.Fprintf(&b, "/-- statements between the identity test and the layout test that are not local definitions -/\ndef beforeLayout : List String := %s\n", c16Strs(extra))
	ds := make([]string, len(dnf))
	for i, d := range dnf {
		ds[i] = c16Strs(d)
	}
	fmt.Fprintf(&b, "/-- the layout test in disjunctive normal form; locals replaced by their definitions, operands of == sorted -/\ndef layoutTest : List (List String) := %s\n", leanList(ds))
	fmt.Fprintf(&b, "/-- the tail branch, statement by statement -/\ndef tailBranch : List String := %s\n", c16StrLines(tail))
	fmt.Fprintf(&b, "def maxFramesTest : String × String × String := (%s, %s, %s)\n", leanStr(p.Src(mb.X)), leanStr(mb.Op.String()), leanStr(p.Src(mb.Y)))
	fmt.Fprintf(&b, "def maxFramesBody : List String := %s\n", c16Strs(c16StmtStrs(p, maxIf.Body.List)))
	fmt.Fprintf(&b, "/-- the frame push that follows the MaxFrames test -/\ndef framePush : List String := %s\n", c16StrLines(push))
	fmt.Fprintf(&b, "/-- the OpReturn case -/\ndef returnCase : List String := %s\n", c16StrLines(c16StmtStrs(p, retCase.Body)))
	fmt.Fprintf(&b, "/-- cases of the dispatch switch that assign v.framesIndex, v.curFrame(.x), v.frames[..] or v.curInsts -/\ndef frameWriters : List String := %s\n", c16Strs(writers))
	b.WriteString("end Tengo.Gen.TailCallShape\n")
	return b.String(), nil
}

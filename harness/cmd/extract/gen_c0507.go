package main

// Syntactic skeleton of Compiled.RunContext / Compiled.Run (script.go) and of the dispatch loop,
// Abort and Run of the VM (vm.go) for C05/C07. Semantic shape only: no positions, no comments.

import (
	"fmt"
	"go/ast"
	"go/token"
	"strings"
)

func init() {
	register("RunContextShape", genRunContextShape)
}

func c0507Bool(b bool) string {
	if b {
		return "true"
	}
	return "false"
}

func c0507Strs(xs []string) string {
	out := make([]string, len(xs))
	for i, x := range xs {
		out[i] = leanStr(x)
	}
	return leanList(out)
}

func c0507Pairs(xs [][2]string) string {
	out := make([]string, len(xs))
	for i, x := range xs {
		out[i] = "(" + leanStr(x[0]) + ", " + leanStr(x[1]) + ")"
	}
	return leanList(out)
}

// c0507IsCall reports whether e is a call whose function renders as name.
func c0507IsCall(p *Pkg, e ast.Expr, name string) (*ast.CallExpr, bool) {
	c, ok := e.(*ast.CallExpr)
	if !ok {
		return nil, false
	}
	return c, p.Src(c.Fun) == name
}

// c0507SendsOn reports whether one of the statements is `ch <- …`.
func c0507SendsOn(p *Pkg, body []ast.Stmt, ch string) bool {
	for _, s := range body {
		if ss, ok := s.(*ast.SendStmt); ok && p.Src(ss.Chan) == ch {
			return true
		}
	}
	return false
}

// classify renders a statement of the protocol skeleton in a position-free way.
func c0507Classify(p *Pkg, s ast.Stmt) string {
	switch t := s.(type) {
	case *ast.ExprStmt:
		if u, ok := t.X.(*ast.UnaryExpr); ok && u.Op == token.ARROW {
			return "recv " + p.Src(u.X)
		}
		if c, ok := t.X.(*ast.CallExpr); ok {
			return "call " + p.Src(c.Fun)
		}
		return "expr " + p.Src(t.X)
	case *ast.AssignStmt:
		if len(t.Lhs) == 1 && len(t.Rhs) == 1 {
			if u, ok := t.Rhs[0].(*ast.UnaryExpr); ok && u.Op == token.ARROW {
				return "recv-into " + p.Src(t.Lhs[0]) + " " + p.Src(u.X)
			}
			if c, ok := t.Rhs[0].(*ast.CallExpr); ok {
				return "assign " + p.Src(t.Lhs[0]) + " " + p.Src(c.Fun) + "()"
			}
		}
		return "assign " + p.Src(s)
	case *ast.DeferStmt:
		return "defer " + p.Src(t.Call.Fun)
	case *ast.SendStmt:
		return "send " + p.Src(t.Chan) + " " + p.Src(t.Value)
	case *ast.ReturnStmt:
		if len(t.Results) == 0 {
			return "return"
		}
		rs := make([]string, len(t.Results))
		for i, r := range t.Results {
			rs[i] = p.Src(r)
		}
		return "return " + strings.Join(rs, ", ")
	case *ast.GoStmt:
		return "go"
	case *ast.SelectStmt:
		return "select"
	}
	return fmt.Sprintf("%T", s)
}

func genRunContextShape(c *Ctx) (string, error) {
	p := c.Pkg(".")
	var b strings.Builder
	b.WriteString("namespace Tengo.Gen.RunContextShape\n")

	// ---- Compiled.RunContext ----
	rc := p.FindFunc("Compiled", "RunContext")
	if rc == nil || rc.Body == nil {
		return "", fmt.Errorf("Compiled.RunContext not found")
	}
	recv := "c"
	if len(rc.Recv.List[0].Names) == 1 {
		recv = rc.Recv.List[0].Names[0].Name
	}
	stmts := rc.Body.List
	lockFirst := len(stmts) > 0 && c0507Classify(p, stmts[0]) == "call "+recv+".lock.Lock"
	deferUnlock := len(stmts) > 1 && c0507Classify(p, stmts[1]) == "defer "+recv+".lock.Unlock"
	newVM := false
	vmVar := ""
	chanCap := "none"
	chVar := ""
	var goStmt *ast.GoStmt
	goCount := 0
	var sel *ast.SelectStmt
	var tail []string
	for _, s := range stmts {
		if sel != nil {
			tail = append(tail, c0507Classify(p, s))
			continue
		}
		switch t := s.(type) {
		case *ast.AssignStmt:
			if t.Tok == token.DEFINE && len(t.Lhs) == 1 && len(t.Rhs) == 1 {
				if _, ok := c0507IsCall(p, t.Rhs[0], "NewVM"); ok {
					newVM = true
					vmVar = p.Src(t.Lhs[0])
				}
				if mk, ok := c0507IsCall(p, t.Rhs[0], "make"); ok && len(mk.Args) >= 1 {
					if ct, isCh := mk.Args[0].(*ast.ChanType); isCh && p.Src(ct.Value) == "error" {
						chVar = p.Src(t.Lhs[0])
						if len(mk.Args) == 2 {
							if n, ok := p.ExprConstInt(mk.Args[1]); ok {
								chanCap = fmt.Sprintf("some %d", n)
							}
						} else {
							chanCap = "some 0"
						}
					}
				}
			}
		case *ast.GoStmt:
			goCount++
			goStmt = t
		case *ast.SelectStmt:
			sel = t
		}
	}
	if goStmt == nil || sel == nil || chVar == "" {
		return "", fmt.Errorf("RunContext: goroutine, select or result channel not found")
	}
	fl, ok := goStmt.Call.Fun.(*ast.FuncLit)
	if !ok {
		return "", fmt.Errorf("RunContext: go statement does not start a function literal")
	}
	var goBody []string
	recoverGuard := false
	var recCases [][2]string
	for _, s := range fl.Body.List {
		if d, ok := s.(*ast.DeferStmt); ok {
			if dl, ok := d.Call.Fun.(*ast.FuncLit); ok {
				goBody = append(goBody, "defer-func")
				// expected: if r := recover(); r != nil { switch … := r.(type) { … } }
				if len(dl.Body.List) == 1 {
					if ifs, ok := dl.Body.List[0].(*ast.IfStmt); ok && ifs.Init != nil && ifs.Else == nil {
						if as, ok := ifs.Init.(*ast.AssignStmt); ok && len(as.Rhs) == 1 {
							if _, isRec := c0507IsCall(p, as.Rhs[0], "recover"); isRec &&
								p.Src(ifs.Cond) == p.Src(as.Lhs[0])+" != nil" {
								recoverGuard = true
							}
						}
						if len(ifs.Body.List) == 1 {
							if ts, ok := ifs.Body.List[0].(*ast.TypeSwitchStmt); ok {
								for _, cc := range ts.Body.List {
									cl := cc.(*ast.CaseClause)
									name := "default"
									if cl.List != nil {
										ns := make([]string, len(cl.List))
										for i, e := range cl.List {
											ns[i] = p.Src(e)
										}
										name = strings.Join(ns, ",")
									}
									recCases = append(recCases, [2]string{name, c0507Bool(c0507SendsOn(p, cl.Body, chVar))})
								}
							}
						}
					}
				}
				continue
			}
		}
		goBody = append(goBody, c0507Classify(p, s))
	}
	var selCases []string
	var ctxBranch, chBranch []string
	for _, cc := range sel.Body.List {
		cl := cc.(*ast.CommClause)
		if cl.Comm == nil {
			selCases = append(selCases, "default")
			continue
		}
		k := c0507Classify(p, cl.Comm)
		selCases = append(selCases, k)
		var body []string
		for _, s := range cl.Body {
			body = append(body, c0507Classify(p, s))
		}
		if strings.HasSuffix(k, ".Done()") {
			ctxBranch = body
		} else {
			chBranch = body
		}
	}
	namedErr := rc.Type.Results != nil && len(rc.Type.Results.List) == 1 && len(rc.Type.Results.List[0].Names) == 1
	fmt.Fprintf(&b, "def rcLockFirst : Bool := %s\n", c0507Bool(lockFirst))
	fmt.Fprintf(&b, "def rcDeferUnlock : Bool := %s\n", c0507Bool(deferUnlock))
	fmt.Fprintf(&b, "def rcNewVMPerCall : Bool := %s\n", c0507Bool(newVM))
	fmt.Fprintf(&b, "def rcChanCap : Option Nat := %s\n", chanCap)
	fmt.Fprintf(&b, "def rcGoStatements : Nat := %d\n", goCount)
	fmt.Fprintf(&b, "def rcGoBody : List String := %s\n", c0507Strs(goBody))
	fmt.Fprintf(&b, "def rcRecoverGuard : Bool := %s\n", c0507Bool(recoverGuard))
	fmt.Fprintf(&b, "/-- (type-switch clause, the clause sends on the result channel) -/\n")
	b.WriteString("def rcRecoverCases : List (String × Bool) := " + func() string {
		out := make([]string, len(recCases))
		for i, x := range recCases {
			out[i] = "(" + leanStr(x[0]) + ", " + x[1] + ")"
		}
		return leanList(out)
	}() + "\n")
	fmt.Fprintf(&b, "def rcSelectCases : List String := %s\n", c0507Strs(selCases))
	fmt.Fprintf(&b, "def rcCtxBranch : List String := %s\n", c0507Strs(ctxBranch))
	fmt.Fprintf(&b, "def rcChBranch : List String := %s\n", c0507Strs(chBranch))
	fmt.Fprintf(&b, "def rcAfterSelect : List String := %s\n", c0507Strs(tail))
	fmt.Fprintf(&b, "def rcNamedResult : Bool := %s\n", c0507Bool(namedErr))
	_ = vmVar

	// ---- Compiled.Run ----
	cr := p.FindFunc("Compiled", "Run")
	if cr == nil || cr.Body == nil {
		return "", fmt.Errorf("Compiled.Run not found")
	}
	var runShape []string
	for _, s := range cr.Body.List {
		if as, ok := s.(*ast.AssignStmt); ok && len(as.Rhs) == 1 {
			if _, isNew := c0507IsCall(p, as.Rhs[0], "NewVM"); isNew {
				runShape = append(runShape, "new-vm")
				continue
			}
		}
		runShape = append(runShape, c0507Classify(p, s))
	}
	fmt.Fprintf(&b, "def compiledRun : List String := %s\n", c0507Strs(runShape))

	// ---- VM.run: the dispatch loop ----
	vr := p.FindFunc("VM", "run")
	if vr == nil || vr.Body == nil {
		return "", fmt.Errorf("VM.run not found")
	}
	var loop *ast.ForStmt
	if len(vr.Body.List) == 1 {
		loop, _ = vr.Body.List[0].(*ast.ForStmt)
	}
	if loop == nil {
		return "", fmt.Errorf("VM.run is not a single for loop")
	}
	head := ""
	if loop.Cond != nil {
		head = p.Src(loop.Cond)
	}
	fmt.Fprintf(&b, "def loopHead : String := %s\n", leanStr(head))
	fmt.Fprintf(&b, "def loopHasInitOrPost : Bool := %s\n", c0507Bool(loop.Init != nil || loop.Post != nil))
	var sw *ast.SwitchStmt
	for _, s := range loop.Body.List {
		if t, ok := s.(*ast.SwitchStmt); ok {
			sw = t
		}
	}
	if sw == nil {
		return "", fmt.Errorf("VM.run: dispatch switch not found")
	}
	var continues, breaksOut, returnCases []string
	var nested [][2]string
	labels := 0
	for _, cc := range sw.Body.List {
		cl := cc.(*ast.CaseClause)
		name := "default"
		if cl.List != nil {
			ns := make([]string, len(cl.List))
			for i, e := range cl.List {
				ns[i] = p.Src(e)
			}
			name = strings.Join(ns, ",")
		}
		hasReturn := false
		// walk the clause; depth = number of enclosing nested loops
		var walk func(n ast.Node, depth int)
		walk = func(n ast.Node, depth int) {
			ast.Inspect(n, func(m ast.Node) bool {
				switch t := m.(type) {
				case *ast.FuncLit:
					return false
				case *ast.LabeledStmt:
					labels++
				case *ast.ForStmt:
					kind := "cond"
					switch {
					case t.Init != nil && t.Cond != nil && t.Post != nil:
						kind = "counted"
					case t.Cond == nil:
						kind = "forever"
					}
					nested = append(nested, [2]string{name, kind})
					walk(t.Body, depth+1)
					return false
				case *ast.RangeStmt:
					nested = append(nested, [2]string{name, "range"})
					walk(t.Body, depth+1)
					return false
				case *ast.ReturnStmt:
					hasReturn = true
				case *ast.BranchStmt:
					switch t.Tok {
					case token.CONTINUE:
						if depth == 0 && t.Label == nil {
							continues = append(continues, name)
						}
						if t.Label != nil {
							labels++
						}
					case token.BREAK:
						if t.Label != nil {
							labels++
							breaksOut = append(breaksOut, name)
						}
					case token.GOTO:
						labels++
					}
				}
				return true
			})
		}
		walk(&ast.BlockStmt{List: cl.Body}, 0)
		if hasReturn {
			returnCases = append(returnCases, name)
		}
	}
	fmt.Fprintf(&b, "/-- case of every `continue` that targets the dispatch loop (re-evaluates the loop head) -/\n")
	fmt.Fprintf(&b, "def loopContinues : List String := %s\n", c0507Strs(continues))
	fmt.Fprintf(&b, "def loopLabelledBreaks : List String := %s\n", c0507Strs(breaksOut))
	fmt.Fprintf(&b, "def loopLabelsAndGotos : Nat := %d\n", labels)
	fmt.Fprintf(&b, "/-- loops nested in a case of the dispatch switch: (case, counted | range | cond | forever) -/\n")
	fmt.Fprintf(&b, "def nestedLoops : List (String × String) := %s\n", c0507Pairs(nested))
	fmt.Fprintf(&b, "def returnCases : List String := %s\n", leanListLines(func() []string {
		out := make([]string, len(returnCases))
		for i, x := range returnCases {
			out[i] = leanStr(x)
		}
		return out
	}()))

	// ---- every write to the abort flag in the package ----
	var writes [][2]string
	for _, f := range p.sortedFiles() {
		for _, d := range f.Decls {
			fd, ok := d.(*ast.FuncDecl)
			if !ok || fd.Body == nil {
				continue
			}
			fname := fd.Name.Name
			if fd.Recv != nil && len(fd.Recv.List) == 1 {
				fname = recvName(fd.Recv.List[0].Type) + "." + fname
			}
			ast.Inspect(fd.Body, func(n ast.Node) bool {
				switch t := n.(type) {
				case *ast.CallExpr:
					fn := p.Src(t.Fun)
					if strings.HasPrefix(fn, "atomic.") && !strings.HasPrefix(fn, "atomic.Load") && len(t.Args) > 0 &&
						strings.HasSuffix(p.Src(t.Args[0]), ".aborting") {
						writes = append(writes, [2]string{fname, p.Src(t)})
					}
				case *ast.AssignStmt:
					for _, l := range t.Lhs {
						if strings.HasSuffix(p.Src(l), ".aborting") {
							writes = append(writes, [2]string{fname, p.Src(t)})
						}
					}
				case *ast.IncDecStmt:
					if strings.HasSuffix(p.Src(t.X), ".aborting") {
						writes = append(writes, [2]string{fname, p.Src(t)})
					}
				}
				return true
			})
		}
	}
	fmt.Fprintf(&b, "/-- every write to the abort flag in the package: (function, statement) -/\n")
	fmt.Fprintf(&b, "def abortingWrites : List (String × String) := %s\n", c0507Pairs(writes))

	// ---- VM.Run: the flag is cleared right after run() ----
	vR := p.FindFunc("VM", "Run")
	if vR == nil || vR.Body == nil {
		return "", fmt.Errorf("VM.Run not found")
	}
	resetAfter := false
	runCalls := 0
	for i, s := range vR.Body.List {
		if c0507Classify(p, s) == "call v.run" {
			runCalls++
			if i+1 < len(vR.Body.List) && p.Src(vR.Body.List[i+1]) == "atomic.StoreInt64(&v.aborting, 0)" {
				resetAfter = true
			}
		}
	}
	fmt.Fprintf(&b, "def vmRunCallsRunOnce : Bool := %s\n", c0507Bool(runCalls == 1))
	fmt.Fprintf(&b, "def vmRunClearsFlagAfterRun : Bool := %s\n", c0507Bool(resetAfter))
	b.WriteString("end Tengo.Gen.RunContextShape\n")
	return b.String(), nil
}

package main

import (
	"fmt"
	"go/ast"
	"os"
	"path/filepath"
	"strings"
)

// C15: the type switches of FromInterface / ToInterface (tengo.go), the methods of Variable
// (variable.go) and the two documentation tables the property names.
func init() { register("InteropCases", genInteropCases) }

func typeSwitchOf(fd *ast.FuncDecl) *ast.TypeSwitchStmt {
	var ts *ast.TypeSwitchStmt
	ast.Inspect(fd.Body, func(n ast.Node) bool {
		if t, ok := n.(*ast.TypeSwitchStmt); ok && ts == nil {
			ts = t
			return false
		}
		return true
	})
	return ts
}

func genInteropCases(c *Ctx) (string, error) {
	p := c.Pkg(".")
	var b strings.Builder
	b.WriteString("namespace Tengo.Gen.InteropCases\n")

	// FromInterface
	fd := p.FindFunc("", "FromInterface")
	if fd == nil {
		return "", fmt.Errorf("FromInterface not found")
	}
	ts := typeSwitchOf(fd)
	if ts == nil {
		return "", fmt.Errorf("FromInterface: no type switch")
	}
	var rows []string
	for _, st := range ts.Body.List {
		cc := st.(*ast.CaseClause)
		var heads []string
		guard := ""
		for _, s := range cc.Body {
			ast.Inspect(s, func(n ast.Node) bool {
				switch x := n.(type) {
				case *ast.FuncLit:
					return false
				case *ast.Ident:
					if x.Name == "MaxStringLen" || x.Name == "MaxBytesLen" {
						guard = x.Name
					}
				case *ast.ReturnStmt:
					if len(x.Results) == 0 {
						return true
					}
					h := ""
					switch r := x.Results[0].(type) {
					case *ast.UnaryExpr:
						if cl, ok := r.X.(*ast.CompositeLit); ok {
							h = p.Src(cl.Type)
						}
					case *ast.Ident:
						if r.Name != "nil" {
							h = r.Name
						}
					default:
						h = p.Src(r)
					}
					if h != "" {
						dup := false
						for _, o := range heads {
							dup = dup || o == h
						}
						if !dup {
							heads = append(heads, h)
						}
					}
				}
				return true
			})
		}
		if cc.List == nil {
			rows = append(rows, fmt.Sprintf("(%s, %s, %s)", leanStr("default"), leanStr(strings.Join(heads, "|")), leanStr(guard)))
		}
		for _, t := range cc.List {
			rows = append(rows, fmt.Sprintf("(%s, %s, %s)", leanStr(p.Src(t)), leanStr(strings.Join(heads, "|")), leanStr(guard)))
		}
	}
	b.WriteString("/-- tengo.go FromInterface: (case type, constructor of the returned object, limit variable tested) in source order -/\n")
	b.WriteString("def fromCases : List (String × String × String) := " + leanListLines(rows) + "\n")

	// ToInterface
	fd = p.FindFunc("", "ToInterface")
	if fd == nil {
		return "", fmt.Errorf("ToInterface not found")
	}
	ts = typeSwitchOf(fd)
	if ts == nil {
		return "", fmt.Errorf("ToInterface: no type switch")
	}
	rows = nil
	for _, st := range ts.Body.List {
		cc := st.(*ast.CaseClause)
		if cc.List == nil {
			rows = append(rows, leanStr("default"))
		}
		for _, t := range cc.List {
			rows = append(rows, leanStr(p.Src(t)))
		}
	}
	b.WriteString("/-- tengo.go ToInterface: case types in source order -/\n")
	b.WriteString("def toCases : List String := " + leanList(rows) + "\n")

	// Variable methods
	f := p.Files["variable.go"]
	if f == nil {
		return "", fmt.Errorf("variable.go not found")
	}
	rows = nil
	for _, d := range f.Decls {
		m, ok := d.(*ast.FuncDecl)
		if !ok || m.Recv == nil || len(m.Recv.List) != 1 || recvName(m.Recv.List[0].Type) != "Variable" || !m.Name.IsExported() {
			continue
		}
		conv := ""
		ast.Inspect(m.Body, func(n ast.Node) bool {
			if call, ok := n.(*ast.CallExpr); ok && conv == "" {
				if id, ok := call.Fun.(*ast.Ident); ok && strings.HasPrefix(id.Name, "To") {
					conv = id.Name
				}
			}
			return true
		})
		rows = append(rows, fmt.Sprintf("(%s, %s)", leanStr(m.Name.Name), leanStr(conv)))
	}
	b.WriteString("/-- variable.go: exported methods of *Variable with the To… conversion each one calls -/\n")
	b.WriteString("def variableMethods : List (String × String) := " + leanListLines(rows) + "\n")

	// docs/runtime-types.md coercion table
	doc, err := os.ReadFile(filepath.Join(c.Repo, "docs", "runtime-types.md"))
	if err != nil {
		return "", err
	}
	rows = nil
	for _, ln := range strings.Split(string(doc), "\n") {
		cells := mdCells(ln)
		if len(cells) != 12 || strings.HasPrefix(cells[0], ":") {
			continue
		}
		var cs []string
		for _, x := range cells[1:] {
			cs = append(cs, leanStr(x))
		}
		rows = append(rows, fmt.Sprintf("(%s, %s)", leanStr(cells[0]), leanList(cs)))
	}
	if len(rows) != 12 {
		return "", fmt.Errorf("runtime-types.md: coercion table has %d rows of 12 cells", len(rows))
	}
	b.WriteString("/-- docs/runtime-types.md Type Conversion/Coercion Table: header row, then one row per source type -/\n")
	b.WriteString("def coercionDoc : List (String × List String) := " + leanListLines(rows) + "\n")

	// docs/interoperability.md conversion table
	doc, err = os.ReadFile(filepath.Join(c.Repo, "docs", "interoperability.md"))
	if err != nil {
		return "", err
	}
	rows = nil
	in := false
	for _, ln := range strings.Split(string(doc), "\n") {
		cells := mdCells(ln)
		if len(cells) == 3 && cells[0] == "Go Type" {
			in = true
			continue
		}
		if in && len(cells) == 3 && !strings.HasPrefix(cells[0], ":") {
			rows = append(rows, fmt.Sprintf("(%s, %s)", leanStr(cells[0]), leanStr(cells[1])))
		} else if in && len(cells) == 0 {
			break
		}
	}
	if len(rows) == 0 {
		return "", fmt.Errorf("interoperability.md: conversion table not found")
	}
	b.WriteString("/-- docs/interoperability.md Type Conversion Table: (Go type, Tengo type) -/\n")
	b.WriteString("def interopDoc : List (String × String) := " + leanListLines(rows) + "\n")
	b.WriteString("end Tengo.Gen.InteropCases\n")
	return b.String(), nil
}

// mdCells splits a markdown table row and strips emphasis / code marks.
func mdCells(ln string) []string {
	ln = strings.TrimSpace(ln)
	if !strings.HasPrefix(ln, "|") {
		return nil
	}
	ln = strings.TrimSuffix(strings.TrimPrefix(ln, "|"), "|")
	var out []string
	for _, c := range strings.Split(ln, "|") {
		c = strings.TrimSpace(c)
		c = strings.ReplaceAll(c, "**", "")
		c = strings.ReplaceAll(c, "`", "")
		c = strings.Trim(c, "_")
		out = append(out, strings.TrimSpace(c))
	}
	return out
}

package main

// Generator for property C05 (no script takes the host down through RunContext): the inventory of RUN-TIME
// FAULT SITES, i.e. every place of the files the VM executes where Go can panic by itself or is told to, plus
// every call that closes a cycle of native (Go-stack) recursion.
//
// The partial operations are collected by the SAME code as the compile-time inventory of C04 (c04Collect in
// gen_c04.go: kinds panic / assert / index / slice / div, same rules for what is not partial: map indexing,
// constant in-range array index, bare x[:], non-zero constant divisor, comma-ok assertions). In addition:
//
//	make     `make(T, n…)` of a slice or channel type with a size argument that is neither a constant nor exactly
//	         `len(x)` / `cap(x)`: a negative (or huge) size is the run-time panic "makeslice: len out of range"
//	         (maps are not listed: a negative map size hint is not a panic)
//	recurse  a call inside declaration F whose callee can reach F again in the static call graph of the
//	         inventoried files. Calls through an interface method (Object.Equals, Object.String, Object.Copy,
//	         fmt.Stringer-like dispatch on tengo.Object …) are resolved to EVERY method of that name declared
//	         in the inventoried files (over-approximation of dynamic dispatch); calls of function VALUES
//	         (CallableFunc fields, closures) are not edges. These are the sites at which the Go stack, not the
//	         VM's frame array, grows with the shape of a script value: the class of known finding O9.
//
// Every row is (file, enclosing top-level function or method, kind, text, occurrences), sorted; function
// literals are attributed to the declaration that contains them.

import (
	"fmt"
	"go/ast"
	"go/token"
	"go/types"
	"sort"
	"strings"
)

func init() { register("FaultSites", genFaultSites) }

var faultFiles = []string{"vm.go", "objects.go", "builtins.go", "iterator.go", "formatter.go", "tengo.go", "script.go"}

type faultDecl struct {
	file string
	fd   *ast.FuncDecl
	obj  types.Object
}

// faultCallee resolves the function object a call expression statically names (nil for function values,
// conversions, builtins) and whether it is an interface method.
func faultCallee(p *Pkg, call *ast.CallExpr) (obj *types.Func, viaIface bool) {
	var id *ast.Ident
	switch f := c04Unparen(call.Fun).(type) {
	case *ast.Ident:
		id = f
	case *ast.SelectorExpr:
		id = f.Sel
	default:
		return nil, false
	}
	fn, ok := p.Info.Uses[id].(*types.Func)
	if !ok {
		return nil, false
	}
	if sig, ok := fn.Type().(*types.Signature); ok && sig.Recv() != nil {
		if _, isIface := sig.Recv().Type().Underlying().(*types.Interface); isIface {
			return fn, true
		}
	}
	return fn, false
}

// faultMakes adds the `make` sites of one declaration.
func faultMakes(p *Pkg, file string, fd *ast.FuncDecl, out *[]c04Site) {
	fn := c04FuncName(fd)
	ast.Inspect(fd, func(n ast.Node) bool {
		call, ok := n.(*ast.CallExpr)
		if !ok || len(call.Args) < 2 {
			return true
		}
		id, ok := call.Fun.(*ast.Ident)
		if !ok || id.Name != "make" {
			return true
		}
		if _, isBuiltin := p.Info.Uses[id].(*types.Builtin); !isBuiltin && p.Info.Uses[id] != nil {
			return true
		}
		if tv, ok := p.Info.Types[call.Args[0]]; ok && tv.Type != nil {
			switch tv.Type.Underlying().(type) {
			case *types.Slice, *types.Chan:
			default:
				return true
			}
		}
		sized := false
		for _, a := range call.Args[1:] {
			a = c04Unparen(a)
			if tv, ok := p.Info.Types[a]; ok && tv.Value != nil {
				continue
			}
			if c, ok := a.(*ast.CallExpr); ok && len(c.Args) == 1 {
				if f, ok := c.Fun.(*ast.Ident); ok && (f.Name == "len" || f.Name == "cap") {
					continue
				}
			}
			sized = true
		}
		if sized {
			*out = append(*out, c04Site{file, fn, "make", c04Clip(p.Src(call), 70)})
		}
		return true
	})
}

func genFaultSites(c *Ctx) (string, error) {
	p := c.Pkg(".")
	var sites []c04Site
	var decls []faultDecl
	byObj := map[types.Object]int{}
	byMethodName := map[string][]int{}
	for _, name := range faultFiles {
		f := p.Files[name]
		if f == nil {
			return "", fmt.Errorf("%s not found", name)
		}
		for _, d := range f.Decls {
			switch t := d.(type) {
			case *ast.FuncDecl:
				if t.Body == nil {
					continue
				}
				c04Collect(p, name, t, &sites)
				faultMakes(p, name, t, &sites)
				i := len(decls)
				decls = append(decls, faultDecl{name, t, p.Info.Defs[t.Name]})
				if o := p.Info.Defs[t.Name]; o != nil {
					byObj[o] = i
				}
				if t.Recv != nil {
					byMethodName[t.Name.Name] = append(byMethodName[t.Name.Name], i)
				}
			case *ast.GenDecl:
				if t.Tok == token.VAR {
					fake := &ast.FuncDecl{Name: ast.NewIdent("<package var>"), Type: &ast.FuncType{}, Body: &ast.BlockStmt{List: []ast.Stmt{&ast.DeclStmt{Decl: t}}}}
					c04Collect(p, name, fake, &sites)
				}
			}
		}
	}

	// static call graph over the inventoried declarations
	type edge struct {
		call *ast.CallExpr
		to   []int
	}
	calls := make([][]edge, len(decls))
	succ := make([]map[int]bool, len(decls))
	for i, d := range decls {
		succ[i] = map[int]bool{}
		ast.Inspect(d.fd, func(n ast.Node) bool {
			call, ok := n.(*ast.CallExpr)
			if !ok {
				return true
			}
			fn, viaIface := faultCallee(p, call)
			if fn == nil {
				return true
			}
			var to []int
			if viaIface {
				to = byMethodName[fn.Name()]
			} else if j, ok := byObj[fn]; ok {
				to = []int{j}
			}
			if len(to) > 0 {
				calls[i] = append(calls[i], edge{call, to})
				for _, j := range to {
					succ[i][j] = true
				}
			}
			return true
		})
	}
	// reach[i] = set of declarations reachable from i by one or more edges
	reach := make([]map[int]bool, len(decls))
	for i := range decls {
		seen := map[int]bool{}
		var stack []int
		for j := range succ[i] {
			stack = append(stack, j)
		}
		for len(stack) > 0 {
			j := stack[len(stack)-1]
			stack = stack[:len(stack)-1]
			if seen[j] {
				continue
			}
			seen[j] = true
			for k := range succ[j] {
				if !seen[k] {
					stack = append(stack, k)
				}
			}
		}
		reach[i] = seen
	}
	recursive := map[string]bool{}
	for i, d := range decls {
		for _, e := range calls[i] {
			back := false
			for _, j := range e.to {
				if j == i || reach[j][i] {
					back = true
				}
			}
			if back {
				sites = append(sites, c04Site{d.file, c04FuncName(d.fd), "recurse", c04Clip(p.Src(e.call), 70)})
				recursive[d.file+": "+c04FuncName(d.fd)] = true
			}
		}
	}

	sort.Slice(sites, func(i, j int) bool {
		a, b := sites[i], sites[j]
		if a.file != b.file {
			return a.file < b.file
		}
		if a.fn != b.fn {
			return a.fn < b.fn
		}
		if a.kind != b.kind {
			return a.kind < b.kind
		}
		return a.text < b.text
	})
	var rows []string
	kinds := map[string]int{}
	for i := 0; i < len(sites); {
		j := i
		for j < len(sites) && sites[j] == sites[i] {
			j++
		}
		s := sites[i]
		rows = append(rows, fmt.Sprintf("(%s, %s, %s, %s, %d)", leanStr(s.file), leanStr(s.fn), leanStr(s.kind), leanStr(s.text), j-i))
		kinds[s.kind] += j - i
		i = j
	}
	var recFns []string
	for k := range recursive {
		recFns = append(recFns, k)
	}
	sort.Strings(recFns)

	// every recover() of the inventoried files
	var recovers []string
	for _, d := range decls {
		ast.Inspect(d.fd, func(n ast.Node) bool {
			if call, ok := n.(*ast.CallExpr); ok {
				if id, ok := call.Fun.(*ast.Ident); ok && id.Name == "recover" && len(call.Args) == 0 {
					recovers = append(recovers, d.file+": "+c04FuncName(d.fd))
				}
			}
			return true
		})
	}
	sort.Strings(recovers)

	var b strings.Builder
	b.WriteString("namespace Tengo.Gen.FaultSites\n")
	b.WriteString("/-- files inventoried (the files the VM executes at run time) -/\n")
	fmt.Fprintf(&b, "def files : List String := %s\n", leanList(mapStr(faultFiles, leanStr)))
	b.WriteString("/-- fault sites: (file, enclosing function, kind, text, occurrences); kinds: panic assert index slice div make recurse; sorted -/\n")
	fmt.Fprintf(&b, "def sites : List (String × String × String × String × Nat) := %s\n", leanListLines(rows))
	var ks []string
	for _, k := range []string{"panic", "assert", "index", "slice", "div", "make", "recurse"} {
		ks = append(ks, fmt.Sprintf("(%s, %d)", leanStr(k), kinds[k]))
	}
	fmt.Fprintf(&b, "/-- occurrences per kind -/\ndef kindCounts : List (String × Nat) := %s\n", leanList(ks))
	fmt.Fprintf(&b, "/-- declarations that lie on a cycle of the static call graph (interface calls resolved to every method of that name) -/\ndef recursiveFunctions : List String := %s\n", leanListLines(mapStr(recFns, leanStr)))
	fmt.Fprintf(&b, "/-- functions that call recover() -/\ndef recoverCalls : List String := %s\n", leanList(mapStr(recovers, leanStr)))
	b.WriteString("end Tengo.Gen.FaultSites\n")
	return b.String(), nil
}

package main

import (
	"fmt"
	"go/ast"
	"go/token"
	"sort"
	"strings"
)

// LockDiscipline (C08): how the methods of *Compiled synchronise, what Clone shares, and which
// methods of value types / the file set write through their receiver. Semantic facts only.
//
//   compiledMethods   (method, first lock call, deferred unlock, receiver fields read, receiver
//                     fields written, calls that are handed receiver fields or go through one)
//   replaceCopiesFirst  in ReplaceBuiltinModule the guarded block `if !c.fullClone { … }` assigns a
//                     fresh c.globalIndexes and c.bytecode = c.bytecode.Clone() and sets fullClone,
//                     and that block precedes c.bytecode.ReplaceBuiltinModule(…)
//   cloneFields       how Compiled.Clone initialises each field of the new object
//   cloneCopiesGlobals  the loop stores g.Copy() (not g) into clone.globals
//   bytecodeCloneFields how Bytecode.Clone initialises each field
//   copyShape         per value type what Copy() returns
//   mutators          (Type.method, field, how) for objects.go, iterator.go, bytecode.go
//   fileSetWriters    (Type.method, field, how) for parser/source_file.go

func init() { register("LockDiscipline", genLockDiscipline) }

// selOnRecv: e is `recv.F` → F
func selOnRecv(e ast.Expr, recv string) string {
	for {
		if pe, ok := e.(*ast.ParenExpr); ok {
			e = pe.X
			continue
		}
		break
	}
	sel, ok := e.(*ast.SelectorExpr)
	if !ok {
		return ""
	}
	if id, ok := sel.X.(*ast.Ident); ok && id.Name == recv {
		return sel.Sel.Name
	}
	return ""
}

// lhsWrite classifies an assignment target relative to the receiver:
// recv.F → (F,"field"); recv.F[i] → (F,"elem"); recv.F.G → (F,"sub"); *recv → ("*","deref").
func lhsWrite(e ast.Expr, recv string) (string, string) {
	if f := selOnRecv(e, recv); f != "" {
		return f, "field"
	}
	switch x := e.(type) {
	case *ast.IndexExpr:
		if f := selOnRecv(x.X, recv); f != "" {
			return f, "elem"
		}
	case *ast.SelectorExpr:
		if f := selOnRecv(x.X, recv); f != "" {
			return f, "sub"
		}
	case *ast.StarExpr:
		if id, ok := x.X.(*ast.Ident); ok && id.Name == recv {
			return "*", "deref"
		}
	}
	return "", ""
}

func recvVar(fd *ast.FuncDecl) string {
	if fd.Recv == nil || len(fd.Recv.List) != 1 || len(fd.Recv.List[0].Names) != 1 {
		return ""
	}
	return fd.Recv.List[0].Names[0].Name
}

// receiverWrites lists (field, how) written through the receiver in fd.
func receiverWrites(fd *ast.FuncDecl) [][2]string {
	rv := recvVar(fd)
	if rv == "" || rv == "_" || fd.Body == nil {
		return nil
	}
	seen := map[[2]string]bool{}
	add := func(f, how string) {
		if f != "" {
			seen[[2]string{f, how}] = true
		}
	}
	ast.Inspect(fd.Body, func(n ast.Node) bool {
		switch s := n.(type) {
		case *ast.AssignStmt:
			for _, l := range s.Lhs {
				add(lhsWrite(l, rv))
			}
		case *ast.IncDecStmt:
			add(lhsWrite(s.X, rv))
		case *ast.CallExpr:
			if id, ok := s.Fun.(*ast.Ident); ok && len(s.Args) > 0 && (id.Name == "delete" || id.Name == "copy" || id.Name == "clear") {
				if f := selOnRecv(s.Args[0], rv); f != "" {
					add(f, id.Name)
				}
			}
		case *ast.UnaryExpr:
			if s.Op == token.AND { // &recv.F handed out
				if f := selOnRecv(s.X, rv); f != "" {
					add(f, "addr")
				}
			}
		}
		return true
	})
	var out [][2]string
	for k := range seen {
		out = append(out, k)
	}
	sort.Slice(out, func(i, j int) bool { return out[i][0]+"\x00"+out[i][1] < out[j][0]+"\x00"+out[j][1] })
	return out
}

func mutatorsOfFile(p *Pkg, file string) ([]string, error) {
	f := p.Files[file]
	if f == nil {
		return nil, fmt.Errorf("%s not found", file)
	}
	var out []string
	for _, d := range f.Decls {
		fd, ok := d.(*ast.FuncDecl)
		if !ok || fd.Recv == nil {
			continue
		}
		r := recvName(fd.Recv.List[0].Type)
		for _, w := range receiverWrites(fd) {
			out = append(out, fmt.Sprintf("(%s, %s, %s)", leanStr(r+"."+fd.Name.Name), leanStr(w[0]), leanStr(w[1])))
		}
	}
	sort.Strings(out)
	return out, nil
}

// lockCall: stmt is `c.lock.M()` (or deferred) → M
func lockCall(e ast.Expr, rv string) string {
	call, ok := e.(*ast.CallExpr)
	if !ok || len(call.Args) != 0 {
		return ""
	}
	sel, ok := call.Fun.(*ast.SelectorExpr)
	if !ok {
		return ""
	}
	if selOnRecv(sel.X, rv) == "lock" {
		return sel.Sel.Name
	}
	return ""
}

// litFieldShape classifies the initialiser of a field in `&T{F: init}` relative to receiver rv.
func litFieldShape(p *Pkg, e ast.Expr, rv string) string {
	if f := selOnRecv(e, rv); f != "" {
		return "shared:" + f
	}
	if call, ok := e.(*ast.CallExpr); ok {
		if id, ok := call.Fun.(*ast.Ident); ok {
			switch id.Name {
			case "make":
				return "fresh"
			case "append":
				// append([]T{}, recv.F...) is a fresh slice with the same elements
				if len(call.Args) == 2 && call.Ellipsis.IsValid() {
					if cl, ok := call.Args[0].(*ast.CompositeLit); ok && len(cl.Elts) == 0 {
						if f := selOnRecv(call.Args[1], rv); f != "" {
							return "fresh-slice-same-elems:" + f
						}
					}
				}
			}
		}
		if sel, ok := call.Fun.(*ast.SelectorExpr); ok && sel.Sel.Name == "Copy" {
			if f := selOnRecv(sel.X, rv); f != "" {
				return "deep:" + f
			}
		}
	}
	if tv, ok := p.Info.Types[e]; ok && tv.Value != nil {
		return "const:" + tv.Value.ExactString()
	}
	if id, ok := e.(*ast.Ident); ok && (id.Name == "true" || id.Name == "false" || id.Name == "nil") {
		return "const:" + id.Name
	}
	return "other:" + p.Src(e)
}

func litFields(p *Pkg, cl *ast.CompositeLit, rv string) []string {
	var out []string
	for _, el := range cl.Elts {
		kv, ok := el.(*ast.KeyValueExpr)
		if !ok {
			out = append(out, fmt.Sprintf("(%s, %s)", leanStr("?"), leanStr("positional")))
			continue
		}
		out = append(out, fmt.Sprintf("(%s, %s)", leanStr(p.Src(kv.Key)), leanStr(litFieldShape(p, kv.Value, rv))))
	}
	sort.Strings(out)
	return out
}

// firstCompositeLit finds the first &T{…}/T{…} of type name tname in fd.
func firstCompositeLit(p *Pkg, fd *ast.FuncDecl, tname string) *ast.CompositeLit {
	var res *ast.CompositeLit
	ast.Inspect(fd.Body, func(n ast.Node) bool {
		if res != nil {
			return false
		}
		if cl, ok := n.(*ast.CompositeLit); ok {
			if id, ok := cl.Type.(*ast.Ident); ok && id.Name == tname {
				res = cl
				return false
			}
		}
		return true
	})
	return res
}

// copyShapeOf classifies what T.Copy() returns.
func copyShapeOf(p *Pkg, fd *ast.FuncDecl) string {
	rv := recvVar(fd)
	r := recvName(fd.Recv.List[0].Type)
	var ret ast.Expr
	nret := 0
	ast.Inspect(fd.Body, func(n ast.Node) bool {
		if rs, ok := n.(*ast.ReturnStmt); ok && len(rs.Results) == 1 {
			ret = rs.Results[0]
			nret++
		}
		return true
	})
	if nret != 1 {
		return fmt.Sprintf("returns:%d", nret)
	}
	if id, ok := ret.(*ast.Ident); ok {
		if id.Name == rv {
			return "self"
		}
		if id.Name == "nil" {
			return "nil"
		}
	}
	// does the body call x.Copy() on elements (deep)?
	deep := false
	ast.Inspect(fd.Body, func(n ast.Node) bool {
		if call, ok := n.(*ast.CallExpr); ok {
			if sel, ok := call.Fun.(*ast.SelectorExpr); ok && sel.Sel.Name == "Copy" && len(call.Args) == 0 {
				deep = true
			}
		}
		return true
	})
	ue, ok := ret.(*ast.UnaryExpr)
	if !ok || ue.Op != token.AND {
		return "other:" + p.Src(ret)
	}
	cl, ok := ue.X.(*ast.CompositeLit)
	if !ok {
		return "other:" + p.Src(ret)
	}
	tn := p.Src(cl.Type)
	var parts []string
	for _, el := range cl.Elts {
		kv, ok := el.(*ast.KeyValueExpr)
		if !ok {
			parts = append(parts, "?")
			continue
		}
		sh := litFieldShape(p, kv.Value, rv)
		if _, ok := kv.Value.(*ast.Ident); ok && strings.HasPrefix(sh, "other:") {
			sh = "local" // a local built in the body ("+deep" says whether elements were copied)
		}
		parts = append(parts, p.Src(kv.Key)+"="+sh)
	}
	kind := "fresh"
	if tn != r {
		kind = "fresh-as:" + tn
	}
	if deep {
		kind += "+deep"
	}
	return kind + "{" + strings.Join(parts, ",") + "}"
}

func genLockDiscipline(c *Ctx) (string, error) {
	p := c.Pkg(".")
	script := p.Files["script.go"]
	if script == nil {
		return "", fmt.Errorf("script.go not found")
	}
	var methods []string
	var names []string
	rows := map[string]string{}
	for _, d := range script.Decls {
		fd, ok := d.(*ast.FuncDecl)
		if !ok || fd.Recv == nil || fd.Body == nil || recvName(fd.Recv.List[0].Type) != "Compiled" {
			continue
		}
		rv := recvVar(fd)
		first, deferred := "none", "none"
		if len(fd.Body.List) > 0 {
			if es, ok := fd.Body.List[0].(*ast.ExprStmt); ok {
				if m := lockCall(es.X, rv); m != "" {
					first = m
				}
			}
		}
		if len(fd.Body.List) > 1 {
			if ds, ok := fd.Body.List[1].(*ast.DeferStmt); ok {
				if m := lockCall(ds.Call, rv); m != "" {
					deferred = m
				}
			}
		}
		// any other lock-method call later in the body (unexpected)?
		extra := 0
		ast.Inspect(fd.Body, func(n ast.Node) bool {
			if call, ok := n.(*ast.CallExpr); ok && lockCall(call, rv) != "" {
				extra++
			}
			return true
		})
		if first != "none" {
			extra--
		}
		if deferred != "none" {
			extra--
		}
		if extra != 0 {
			first += fmt.Sprintf("+%d-more-lock-calls", extra)
		}
		writes := map[string]bool{}
		for _, w := range receiverWrites(fd) {
			writes[w[0]+":"+w[1]] = true
		}
		written := map[ast.Expr]bool{}
		ast.Inspect(fd.Body, func(n ast.Node) bool {
			if as, ok := n.(*ast.AssignStmt); ok {
				for _, l := range as.Lhs {
					if selOnRecv(l, rv) != "" {
						written[l] = true
					}
				}
			}
			return true
		})
		reads := map[string]bool{}
		calls := map[string]bool{}
		ast.Inspect(fd.Body, func(n ast.Node) bool {
			switch x := n.(type) {
			case *ast.SelectorExpr:
				if f := selOnRecv(x, rv); f != "" && f != "lock" && !written[x] {
					reads[f] = true
				}
			case *ast.CallExpr:
				// method reached through a receiver field: c.bytecode.M(…)
				if sel, ok := x.Fun.(*ast.SelectorExpr); ok {
					if f := selOnRecv(sel.X, rv); f != "" && f != "lock" {
						calls[f+"."+sel.Sel.Name] = true
					}
				}
				// function handed receiver fields: NewVM(c.bytecode, c.globals, …)
				var handed []string
				for _, a := range x.Args {
					if f := selOnRecv(a, rv); f != "" {
						handed = append(handed, f)
					}
				}
				if len(handed) > 0 {
					fn := p.Src(x.Fun)
					if fn != "len" && fn != "int64" {
						calls[fn+"("+strings.Join(handed, ",")+")"] = true
					}
				}
			}
			return true
		})
		set := func(m map[string]bool) string {
			var ks []string
			for k := range m {
				ks = append(ks, leanStr(k))
			}
			sort.Strings(ks)
			return leanList(ks)
		}
		names = append(names, fd.Name.Name)
		rows[fd.Name.Name] = fmt.Sprintf("(%s, %s, %s, %s, %s, %s)", leanStr(fd.Name.Name), leanStr(first), leanStr(deferred), set(reads), set(writes), set(calls))
	}
	if len(names) == 0 {
		return "", fmt.Errorf("no methods of *Compiled found")
	}
	sort.Strings(names)
	for _, n := range names {
		methods = append(methods, rows[n])
	}

	// ReplaceBuiltinModule: copy precedes the write
	copiesFirst := false
	if fd := p.FindFunc("Compiled", "ReplaceBuiltinModule"); fd != nil {
		rv := recvVar(fd)
		guardAt, writeAt := -1, -1
		for i, st := range fd.Body.List {
			if is, ok := st.(*ast.IfStmt); ok && is.Init == nil && is.Else == nil {
				ue, ok := is.Cond.(*ast.UnaryExpr)
				if !ok || ue.Op != token.NOT || selOnRecv(ue.X, rv) != "fullClone" {
					continue
				}
				gi, bc, fc := false, false, false
				for _, b := range is.Body.List {
					as, ok := b.(*ast.AssignStmt)
					if !ok || len(as.Lhs) != 1 || len(as.Rhs) != 1 {
						continue
					}
					switch selOnRecv(as.Lhs[0], rv) {
					case "globalIndexes":
						// must be a local built by make(...) in this block, not an alias of the old map
						if id, ok := as.Rhs[0].(*ast.Ident); ok {
							for _, b2 := range is.Body.List {
								if a2, ok := b2.(*ast.AssignStmt); ok && a2.Tok == token.DEFINE && len(a2.Lhs) == 1 && len(a2.Rhs) == 1 {
									if l, ok := a2.Lhs[0].(*ast.Ident); ok && l.Name == id.Name {
										if call, ok := a2.Rhs[0].(*ast.CallExpr); ok && p.Src(call.Fun) == "make" {
											gi = true
										}
									}
								}
							}
						}
					case "bytecode":
						if call, ok := as.Rhs[0].(*ast.CallExpr); ok {
							if sel, ok := call.Fun.(*ast.SelectorExpr); ok && sel.Sel.Name == "Clone" && selOnRecv(sel.X, rv) == "bytecode" {
								bc = true
							}
						}
					case "fullClone":
						if p.Src(as.Rhs[0]) == "true" {
							fc = true
						}
					}
				}
				if gi && bc && fc {
					guardAt = i
				}
			}
			if es, ok := st.(*ast.ExprStmt); ok {
				if call, ok := es.X.(*ast.CallExpr); ok {
					if sel, ok := call.Fun.(*ast.SelectorExpr); ok && sel.Sel.Name == "ReplaceBuiltinModule" && selOnRecv(sel.X, rv) == "bytecode" {
						if writeAt < 0 {
							writeAt = i
						}
					}
				}
			}
		}
		copiesFirst = guardAt >= 0 && writeAt > guardAt
	}

	// Compiled.Clone
	var cloneFields []string
	copiesGlobals := false
	scriptCompileFull := "missing"
	if fd := p.FindFunc("Compiled", "Clone"); fd != nil {
		rv := recvVar(fd)
		if cl := firstCompositeLit(p, fd, "Compiled"); cl != nil {
			cloneFields = litFields(p, cl, rv)
		}
		// for idx, g := range c.globals { … clone.globals[idx] = g.Copy() }
		ast.Inspect(fd.Body, func(n ast.Node) bool {
			rs, ok := n.(*ast.RangeStmt)
			if !ok || selOnRecv(rs.X, rv) != "globals" {
				return true
			}
			val, _ := rs.Value.(*ast.Ident)
			if val == nil {
				return true
			}
			stores, good := 0, 0
			ast.Inspect(rs.Body, func(m ast.Node) bool {
				as, ok := m.(*ast.AssignStmt)
				if !ok || len(as.Lhs) != 1 || len(as.Rhs) != 1 {
					return true
				}
				if ix, ok := as.Lhs[0].(*ast.IndexExpr); ok {
					if sel, ok := ix.X.(*ast.SelectorExpr); ok && sel.Sel.Name == "globals" {
						stores++
						if call, ok := as.Rhs[0].(*ast.CallExpr); ok && len(call.Args) == 0 {
							if s2, ok := call.Fun.(*ast.SelectorExpr); ok && s2.Sel.Name == "Copy" {
								if id, ok := s2.X.(*ast.Ident); ok && id.Name == val.Name {
									good++
								}
							}
						}
					}
				}
				return true
			})
			copiesGlobals = stores == 1 && good == 1
			return false
		})
	}
	if fd := p.FindFunc("Script", "Compile"); fd != nil {
		if cl := firstCompositeLit(p, fd, "Compiled"); cl != nil {
			for _, el := range cl.Elts {
				if kv, ok := el.(*ast.KeyValueExpr); ok && p.Src(kv.Key) == "fullClone" {
					scriptCompileFull = p.Src(kv.Value)
				}
			}
		}
	}
	var bcFields []string
	if fd := p.FindFunc("Bytecode", "Clone"); fd != nil {
		if cl := firstCompositeLit(p, fd, "Bytecode"); cl != nil {
			bcFields = litFields(p, cl, recvVar(fd))
		}
	}
	if len(cloneFields) == 0 || len(bcFields) == 0 {
		return "", fmt.Errorf("Compiled.Clone / Bytecode.Clone composite literal not found")
	}

	// Copy() shapes of the value types
	var shapes []string
	for _, file := range []string{"objects.go", "iterator.go"} {
		f := p.Files[file]
		if f == nil {
			return "", fmt.Errorf("%s not found", file)
		}
		for _, d := range f.Decls {
			fd, ok := d.(*ast.FuncDecl)
			if !ok || fd.Recv == nil || fd.Name.Name != "Copy" || fd.Body == nil {
				continue
			}
			shapes = append(shapes, fmt.Sprintf("(%s, %s)", leanStr(recvName(fd.Recv.List[0].Type)), leanStr(copyShapeOf(p, fd))))
		}
	}
	sort.Strings(shapes)

	var muts []string
	for _, file := range []string{"objects.go", "iterator.go", "bytecode.go"} {
		m, err := mutatorsOfFile(p, file)
		if err != nil {
			return "", err
		}
		muts = append(muts, m...)
	}
	sort.Strings(muts)
	pp := c.Pkg("parser")
	fsw, err := mutatorsOfFile(pp, "source_file.go")
	if err != nil {
		return "", err
	}

	var sb strings.Builder
	sb.WriteString("namespace Tengo.Gen.LockDiscipline\n")
	sb.WriteString("/-- (method of *Compiled, first statement's lock call, deferred unlock in the second statement,\n    receiver fields read, receiver fields written `field:how`, calls through / handed receiver fields) -/\n")
	sb.WriteString("def compiledMethods : List (String × String × String × List String × List String × List String) := " + leanListLines(methods) + "\n")
	sb.WriteString("/-- ReplaceBuiltinModule: `if !c.fullClone { fresh globalIndexes; bytecode = bytecode.Clone(); fullClone = true }` precedes the write -/\n")
	sb.WriteString(fmt.Sprintf("def replaceCopiesFirst : Bool := %v\n", copiesFirst))
	sb.WriteString("/-- fields of the object Compiled.Clone builds -/\n")
	sb.WriteString("def cloneFields : List (String × String) := " + leanListLines(cloneFields) + "\n")
	sb.WriteString(fmt.Sprintf("def cloneCopiesGlobals : Bool := %v\n", copiesGlobals))
	sb.WriteString("/-- value of fullClone in the object Script.Compile builds -/\n")
	sb.WriteString("def compileFullClone : String := " + leanStr(scriptCompileFull) + "\n")
	sb.WriteString("/-- fields of the object Bytecode.Clone builds -/\n")
	sb.WriteString("def bytecodeCloneFields : List (String × String) := " + leanListLines(bcFields) + "\n")
	sb.WriteString("/-- what Copy() of each value type returns -/\n")
	sb.WriteString("def copyShape : List (String × String) := " + leanListLines(shapes) + "\n")
	sb.WriteString("/-- (Type.method, receiver field, how) for every write through the receiver in objects.go, iterator.go, bytecode.go -/\n")
	sb.WriteString("def mutators : List (String × String × String) := " + leanListLines(muts) + "\n")
	sb.WriteString("/-- the same for parser/source_file.go -/\n")
	sb.WriteString("def fileSetWriters : List (String × String × String) := " + leanListLines(fsw) + "\n")
	sb.WriteString("end Tengo.Gen.LockDiscipline\n")
	return sb.String(), nil
}

package main

import (
	"fmt"
	"go/ast"
	"go/token"
	"strconv"
	"strings"
)

// FormatVerbs: the verb dispatch tables of formatter.go (which verb characters each `switch verb`
// of the typed formatters accepts), the flag characters of doFormat's flag loop, the tooLarge bound
// and the functions that guard MaxStringLen. Read syntactically; compared with the model's tables by
// `Tengo.Props.C17.verbs_match`.
func init() { register("FormatVerbs", genFormatVerbs) }

// switchChars returns the character literals of the case clauses of the first `switch <tag>` in fn.
func switchChars(fn *ast.FuncDecl, tag string) ([]int, bool) {
	var out []int
	found := false
	ast.Inspect(fn.Body, func(n ast.Node) bool {
		if found {
			return false
		}
		sw, ok := n.(*ast.SwitchStmt)
		if !ok {
			return true
		}
		id, ok := sw.Tag.(*ast.Ident)
		if !ok || id.Name != tag {
			return true
		}
		found = true
		for _, st := range sw.Body.List {
			cc := st.(*ast.CaseClause)
			for _, e := range cc.List {
				bl, ok := e.(*ast.BasicLit)
				if !ok || bl.Kind != token.CHAR {
					continue
				}
				s, err := strconv.Unquote(bl.Value)
				if err != nil || len(s) == 0 {
					continue
				}
				out = append(out, int([]rune(s)[0]))
			}
		}
		return false
	})
	return out, found
}

func genFormatVerbs(c *Ctx) (string, error) {
	p := c.Pkg(".")
	var b strings.Builder
	b.WriteString("namespace Tengo.Gen.FormatVerbs\n")
	for _, t := range []struct{ lean, recv, fn, tag string }{
		{"flagChars", "pp", "doFormat", "c"},
		{"boolVerbs", "pp", "fmtBool", "verb"},
		{"intVerbs", "pp", "fmtInteger", "verb"},
		{"floatVerbs", "pp", "fmtFloat", "verb"},
		{"stringVerbs", "pp", "fmtString", "verb"},
		{"bytesVerbs", "pp", "fmtBytes", "verb"},
		{"printArgVerbs", "pp", "printArg", "verb"},
	} {
		fn := p.FindFunc(t.recv, t.fn)
		if fn == nil {
			return "", fmt.Errorf("func (%s) %s not found", t.recv, t.fn)
		}
		cs, ok := switchChars(fn, t.tag)
		if !ok {
			return "", fmt.Errorf("func (%s) %s: no `switch %s`", t.recv, t.fn, t.tag)
		}
		b.WriteString(fmt.Sprintf("def %s : List Nat := %s\n", t.lean, leanNats(cs)))
	}
	// tooLarge: const max int = 1e6
	tl := p.FindFunc("", "tooLarge")
	if tl == nil {
		return "", fmt.Errorf("func tooLarge not found")
	}
	bound := int64(-1)
	ast.Inspect(tl.Body, func(n ast.Node) bool {
		vs, ok := n.(*ast.ValueSpec)
		if ok && len(vs.Names) == 1 && vs.Names[0].Name == "max" && len(vs.Values) == 1 {
			if v, ok := p.ExprConstInt(vs.Values[0]); ok {
				bound = v
			}
		}
		return true
	})
	if bound < 0 {
		return "", fmt.Errorf("tooLarge: constant max not found")
	}
	b.WriteString(fmt.Sprintf("def tooLargeBound : Nat := %d\n", bound))
	// functions of formatter.go that contain `panic(ErrStringLimit)`
	var guards []string
	for name, f := range p.Files {
		if name != "formatter.go" {
			continue
		}
		for _, d := range f.Decls {
			fd, ok := d.(*ast.FuncDecl)
			if !ok || fd.Body == nil {
				continue
			}
			has := false
			ast.Inspect(fd.Body, func(n ast.Node) bool {
				ce, ok := n.(*ast.CallExpr)
				if !ok {
					return true
				}
				if id, ok := ce.Fun.(*ast.Ident); ok && id.Name == "panic" && len(ce.Args) == 1 {
					if a, ok := ce.Args[0].(*ast.Ident); ok && a.Name == "ErrStringLimit" {
						has = true
					}
				}
				return true
			})
			if has {
				guards = append(guards, leanStr(fd.Name.Name))
			}
		}
	}
	b.WriteString(fmt.Sprintf("def limitGuards : List String := %s\n", leanList(guards)))
	b.WriteString("end Tengo.Gen.FormatVerbs\n")
	return b.String(), nil
}

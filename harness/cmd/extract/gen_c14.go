package main

import (
	"fmt"
	"go/ast"
	"go/token"
	"strings"
)

// C14: how far v.ip has moved past the opcode byte when VM.run sets v.err (per case of the dispatch
// switch), the ip that CALL saves into the caller's frame, and the shape of VM.Run's error decoration
// (fmt.Errorf formats, SourcePos arguments, frame walk) and of CompiledFunction.SourcePos.

func init() { register("ErrIpAdvance", genErrIpAdvance) }

const c14Unknown = 999 // v.ip was assigned (not incremented) on the path: no static advance

func c14IsSel(e ast.Expr, path ...string) bool {
	for i := len(path) - 1; i > 0; i-- {
		s, ok := e.(*ast.SelectorExpr)
		if !ok || s.Sel.Name != path[i] {
			return false
		}
		e = s.X
	}
	id, ok := e.(*ast.Ident)
	return ok && id.Name == path[0]
}

type c14Walker struct {
	p     *Pkg
	errs  []int
	saves []int
}

func c14Terminal(list []ast.Stmt) bool {
	if len(list) == 0 {
		return false
	}
	switch t := list[len(list)-1].(type) {
	case *ast.ReturnStmt:
		return true
	case *ast.BranchStmt:
		return t.Tok == token.CONTINUE || t.Tok == token.BREAK || t.Tok == token.GOTO
	}
	return false
}

// walk processes a statement list with the advance accumulated so far and returns the advance after it.
func (w *c14Walker) walk(list []ast.Stmt, acc int) int {
	for _, s := range list {
		acc = w.stmt(s, acc)
	}
	return acc
}

func (w *c14Walker) nested(list []ast.Stmt, acc int) int {
	r := w.walk(list, acc)
	if c14Terminal(list) {
		return acc // no path falls out of the block
	}
	return r
}

func (w *c14Walker) stmt(s ast.Stmt, acc int) int {
	switch t := s.(type) {
	case *ast.IncDecStmt:
		if c14IsSel(t.X, "v", "ip") {
			if acc != c14Unknown {
				if t.Tok == token.INC {
					acc++
				} else {
					acc = c14Unknown
				}
			}
		}
	case *ast.AssignStmt:
		if len(t.Lhs) == 1 && c14IsSel(t.Lhs[0], "v", "ip") {
			n, ok := w.p.ExprConstInt(t.Rhs[0])
			if t.Tok == token.ADD_ASSIGN && ok && acc != c14Unknown {
				acc += int(n)
			} else {
				acc = c14Unknown
			}
		} else if len(t.Lhs) == 1 && c14IsSel(t.Lhs[0], "v", "err") {
			w.errs = append(w.errs, acc)
		} else if len(t.Lhs) == 1 && c14IsSel(t.Lhs[0], "v", "curFrame", "ip") {
			if len(t.Rhs) == 1 && c14IsSel(t.Rhs[0], "v", "ip") {
				w.saves = append(w.saves, acc)
			} else {
				w.saves = append(w.saves, c14Unknown)
			}
		}
	case *ast.BlockStmt:
		acc = w.walk(t.List, acc)
	case *ast.IfStmt:
		if t.Init != nil {
			acc = w.stmt(t.Init, acc)
		}
		a := w.nested(t.Body.List, acc)
		b := acc
		if t.Else != nil {
			switch e := t.Else.(type) {
			case *ast.BlockStmt:
				b = w.nested(e.List, acc)
			default:
				b = w.nested([]ast.Stmt{e}, acc)
			}
		}
		if a != acc || b != acc {
			acc = c14Unknown // the branches leave v.ip at different places
		}
	case *ast.SwitchStmt:
		if t.Init != nil {
			acc = w.stmt(t.Init, acc)
		}
		acc = w.clauses(t.Body, acc)
	case *ast.TypeSwitchStmt:
		if t.Init != nil {
			acc = w.stmt(t.Init, acc)
		}
		acc = w.clauses(t.Body, acc)
	case *ast.ForStmt:
		if w.nested(t.Body.List, acc) != acc {
			acc = c14Unknown
		}
	case *ast.RangeStmt:
		if w.nested(t.Body.List, acc) != acc {
			acc = c14Unknown
		}
	case *ast.LabeledStmt:
		acc = w.stmt(t.Stmt, acc)
	}
	return acc
}

func (w *c14Walker) clauses(b *ast.BlockStmt, acc int) int {
	out := acc
	for _, c := range b.List {
		if cc, ok := c.(*ast.CaseClause); ok {
			if w.nested(cc.Body, acc) != acc {
				out = c14Unknown
			}
		}
	}
	return out
}

func c14Distinct(xs []int) []int {
	var out []int
	for _, x := range xs {
		dup := false
		for _, y := range out {
			dup = dup || x == y
		}
		if !dup {
			out = append(out, x)
		}
	}
	return out
}

func genErrIpAdvance(c *Ctx) (string, error) {
	p := c.Pkg(".")
	vr := p.FindFunc("VM", "run")
	if vr == nil || vr.Body == nil {
		return "", fmt.Errorf("VM.run not found")
	}
	var sw *ast.SwitchStmt
	ast.Inspect(vr.Body, func(n ast.Node) bool {
		if t, ok := n.(*ast.SwitchStmt); ok && sw == nil && t.Tag != nil && strings.Contains(p.Src(t.Tag), "curInsts") {
			sw = t
		}
		return sw == nil
	})
	if sw == nil {
		return "", fmt.Errorf("VM.run: dispatch switch not found")
	}
	// v.ip++ before the switch is the step onto the opcode byte itself: advance 0 at the switch head
	var rows, saves []string
	for _, cc := range sw.Body.List {
		cl := cc.(*ast.CaseClause)
		name := "default"
		if cl.List != nil {
			ns := make([]string, len(cl.List))
			for i, e := range cl.List {
				ns[i] = strings.TrimPrefix(p.Src(e), "parser.")
			}
			name = strings.Join(ns, ",")
		}
		w := &c14Walker{p: p}
		w.walk(cl.Body, 0)
		if len(w.errs) > 0 {
			rows = append(rows, fmt.Sprintf("(%s, %s)", leanStr(name), leanNats(c14Distinct(w.errs))))
		}
		for _, s := range c14Distinct(w.saves) {
			if name != "OpCall" {
				return "", fmt.Errorf("frame ip saved outside case OpCall: %s", name)
			}
			saves = append(saves, fmt.Sprint(s))
		}
	}
	// VM.Run decoration
	run := p.FindFunc("VM", "Run")
	if run == nil || run.Body == nil {
		return "", fmt.Errorf("VM.Run not found")
	}
	var formats, spArgs, walkShape []string
	ast.Inspect(run.Body, func(n ast.Node) bool {
		switch t := n.(type) {
		case *ast.CallExpr:
			if c14IsSel(t.Fun, "fmt", "Errorf") && len(t.Args) > 0 {
				if s, ok := p.ExprConstString(t.Args[0]); ok {
					formats = append(formats, leanStr(s))
				} else {
					formats = append(formats, leanStr("<non-constant>"))
				}
			}
			if s, ok := t.Fun.(*ast.SelectorExpr); ok && s.Sel.Name == "SourcePos" && len(t.Args) == 1 {
				base, k := p.Src(t.Args[0]), int64(0)
				if be, ok := t.Args[0].(*ast.BinaryExpr); ok {
					if n, ok := p.ExprConstInt(be.Y); ok && (be.Op == token.SUB || be.Op == token.ADD) {
						base, k = p.Src(be.X), n
						if be.Op == token.SUB {
							k = -n
						}
					}
				}
				spArgs = append(spArgs, fmt.Sprintf("(%s, %d)", leanStr(base), k))
			}
		case *ast.ForStmt:
			if walkShape == nil && t.Cond != nil {
				walkShape = append(walkShape, leanStr(p.Src(t.Cond)))
				for i := 0; i < 2 && i < len(t.Body.List); i++ {
					walkShape = append(walkShape, leanStr(p.Src(t.Body.List[i])))
				}
			}
		}
		return true
	})
	// CompiledFunction.SourcePos
	sp := p.FindFunc("CompiledFunction", "SourcePos")
	if sp == nil || sp.Body == nil {
		return "", fmt.Errorf("CompiledFunction.SourcePos not found")
	}
	var shape []string
	for _, s := range sp.Body.List {
		switch t := s.(type) {
		case *ast.ForStmt:
			if t.Init != nil || t.Post != nil || t.Cond == nil {
				return "", fmt.Errorf("SourcePos: loop is not a plain condition loop")
			}
			shape = append(shape, leanStr(p.Src(t.Cond)))
			for _, b := range t.Body.List {
				if is, ok := b.(*ast.IfStmt); ok && is.Else == nil {
					h := p.Src(is.Cond)
					if is.Init != nil {
						h = p.Src(is.Init) + "; " + h
					}
					shape = append(shape, leanStr(h))
					for _, x := range is.Body.List {
						shape = append(shape, leanStr(p.Src(x)))
					}
				} else {
					shape = append(shape, leanStr(p.Src(b)))
				}
			}
		default:
			shape = append(shape, leanStr(p.Src(s)))
		}
	}
	var b strings.Builder
	b.WriteString("namespace Tengo.Gen.ErrIpAdvance\n")
	b.WriteString("/-- (case of VM.run's dispatch switch, distinct sums of the `v.ip++` / `v.ip += n` statements that precede a\n`v.err = …` assignment on the same path); 999 = v.ip was assigned on the path. Cases without `v.err =` are absent. -/\n")
	fmt.Fprintf(&b, "def table : List (String × List Nat) := %s\n", leanListLines(rows))
	b.WriteString("/-- advance of v.ip at `v.curFrame.ip = v.ip` (case OpCall) -/\n")
	fmt.Fprintf(&b, "def callSavedIp : List Nat := %s\n", leanList(saves))
	b.WriteString("/-- constant formats of the fmt.Errorf calls of VM.Run, in source order -/\n")
	fmt.Fprintf(&b, "def runFormats : List String := %s\n", leanList(formats))
	b.WriteString("/-- arguments of the SourcePos calls of VM.Run: (base expression, added constant) -/\n")
	fmt.Fprintf(&b, "def runSourcePosArgs : List (String × Int) := %s\n", leanList(spArgs))
	b.WriteString("/-- frame walk of VM.Run: loop condition, first two statements of the body -/\n")
	fmt.Fprintf(&b, "def runFrameWalk : List String := %s\n", leanList(walkShape))
	b.WriteString("/-- statements of CompiledFunction.SourcePos: loop condition, lookup, hit, step, miss -/\n")
	fmt.Fprintf(&b, "def sourcePosShape : List String := %s\n", leanList(shape))
	b.WriteString("end Tengo.Gen.ErrIpAdvance\n")
	return b.String(), nil
}

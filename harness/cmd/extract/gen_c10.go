package main

import (
	"fmt"
	"go/ast"
	"sort"
	"strings"
)

// BinaryOpArms (C10): for every Object type of objects.go the (rhs type, token) arms of its
// BinaryOp method that return something other than ErrInvalidOperator, and which of
// BinaryOp/Copy/Equals/IsFalsy each type implements itself. Semantic facts only: the arms are
// found by walking the type switches on the right operand and the switches on the token, in
// whatever order they nest.

func init() { register("BinaryOpArms", genBinaryOpArms) }

type armCtx struct{ rhs, tok string }

func genBinaryOpArms(c *Ctx) (string, error) {
	p := c.Pkg(".")
	f := p.Files["objects.go"]
	if f == nil {
		return "", fmt.Errorf("objects.go not found")
	}
	arms := map[string]bool{}
	over := map[string]map[string]bool{}
	for _, d := range f.Decls {
		fd, ok := d.(*ast.FuncDecl)
		if !ok || fd.Recv == nil || len(fd.Recv.List) != 1 || fd.Body == nil {
			continue
		}
		recv := recvName(fd.Recv.List[0].Type)
		if recv == "ObjectImpl" {
			continue
		}
		switch fd.Name.Name {
		case "BinaryOp", "Copy", "Equals", "IsFalsy":
			if over[recv] == nil {
				over[recv] = map[string]bool{}
			}
			over[recv][fd.Name.Name] = true
		}
		if fd.Name.Name != "BinaryOp" {
			continue
		}
		params := fd.Type.Params.List
		if len(params) != 2 || len(params[0].Names) != 1 || len(params[1].Names) != 1 {
			return "", fmt.Errorf("%s.BinaryOp: parameter shape", recv)
		}
		opName, rhsName := params[0].Names[0].Name, params[1].Names[0].Name
		var walk func(n ast.Stmt, cx armCtx) error
		walkList := func(l []ast.Stmt, cx armCtx) error {
			for _, s := range l {
				if err := walk(s, cx); err != nil {
					return err
				}
			}
			return nil
		}
		isRhsAssert := func(e ast.Expr) (string, bool) { // rhs.(*T) or rhs.(type)
			ta, ok := e.(*ast.TypeAssertExpr)
			if !ok {
				return "", false
			}
			id, ok := ta.X.(*ast.Ident)
			if !ok || id.Name != rhsName {
				return "", false
			}
			if ta.Type == nil {
				return "", true
			}
			return recvName(ta.Type), true
		}
		walk = func(n ast.Stmt, cx armCtx) error {
			switch s := n.(type) {
			case *ast.BlockStmt:
				return walkList(s.List, cx)
			case *ast.TypeSwitchStmt:
				var x ast.Expr
				switch a := s.Assign.(type) {
				case *ast.AssignStmt:
					x = a.Rhs[0]
				case *ast.ExprStmt:
					x = a.X
				}
				if _, ok := isRhsAssert(x); !ok {
					return fmt.Errorf("%s.BinaryOp: type switch on something else than the right operand", recv)
				}
				for _, cl := range s.Body.List {
					cc := cl.(*ast.CaseClause)
					if cc.List == nil {
						if err := walkList(cc.Body, armCtx{"*", cx.tok}); err != nil {
							return err
						}
					}
					for _, t := range cc.List {
						if err := walkList(cc.Body, armCtx{recvName(t), cx.tok}); err != nil {
							return err
						}
					}
				}
			case *ast.SwitchStmt:
				id, ok := s.Tag.(*ast.Ident)
				if !ok || id.Name != opName {
					return walkList(s.Body.List, cx) // other switches: keep walking their bodies
				}
				for _, cl := range s.Body.List {
					cc := cl.(*ast.CaseClause)
					if cc.List == nil {
						if err := walkList(cc.Body, armCtx{cx.rhs, "*"}); err != nil {
							return err
						}
					}
					for _, t := range cc.List {
						sel, ok := t.(*ast.SelectorExpr)
						if !ok {
							return fmt.Errorf("%s.BinaryOp: token case shape", recv)
						}
						if err := walkList(cc.Body, armCtx{cx.rhs, sel.Sel.Name}); err != nil {
							return err
						}
					}
				}
			case *ast.CaseClause:
				return walkList(s.Body, cx)
			case *ast.IfStmt:
				inner := cx
				if a, ok := s.Init.(*ast.AssignStmt); ok && len(a.Rhs) == 1 {
					if t, ok := isRhsAssert(a.Rhs[0]); ok && t != "" {
						inner.rhs = t
					}
				}
				if err := walk(s.Body, inner); err != nil {
					return err
				}
				if s.Else != nil {
					return walk(s.Else, cx)
				}
			case *ast.ReturnStmt:
				if len(s.Results) == 2 {
					if id, ok := s.Results[1].(*ast.Ident); ok && id.Name == "ErrInvalidOperator" {
						return nil
					}
					if id, ok := s.Results[1].(*ast.Ident); ok && id.Name != "nil" {
						return nil // another error (limits): not an arm of its own
					}
				}
				if cx.tok == "" {
					return fmt.Errorf("%s.BinaryOp: value returned outside a token case", recv)
				}
				r := cx.rhs
				if r == "" {
					r = "*"
				}
				arms[recv+"\x00"+r+"\x00"+cx.tok] = true
			case *ast.ForStmt:
				return walk(s.Body, cx)
			case *ast.RangeStmt:
				return walk(s.Body, cx)
			}
			return nil
		}
		if err := walk(fd.Body, armCtx{}); err != nil {
			return "", err
		}
	}
	if len(arms) == 0 {
		return "", fmt.Errorf("no BinaryOp arms found")
	}
	// stable order: receiver, then first appearance is not semantic — sort by receiver, rhs rank, token rank
	tokRank := map[string]int{}
	for i, t := range []string{"Add", "Sub", "Mul", "Quo", "Rem", "And", "Or", "Xor", "AndNot", "Shl", "Shr", "Less", "Greater", "LessEq", "GreaterEq"} {
		tokRank[t] = i + 1
	}
	var keys []string
	for k := range arms {
		keys = append(keys, k)
	}
	rhsRank := func(recv, r string) int {
		switch {
		case r == recv:
			return 0
		case r == "*":
			return 9
		case r == "Float":
			return 1
		case r == "Int":
			return 2
		case r == "Char":
			return 3
		}
		return 5
	}
	sort.Slice(keys, func(i, j int) bool {
		a, b := strings.Split(keys[i], "\x00"), strings.Split(keys[j], "\x00")
		if a[0] != b[0] {
			return a[0] < b[0]
		}
		if ra, rb := rhsRank(a[0], a[1]), rhsRank(b[0], b[1]); ra != rb {
			return ra < rb
		}
		if a[1] != b[1] {
			return a[1] < b[1]
		}
		if tokRank[a[2]] != tokRank[b[2]] {
			return tokRank[a[2]] < tokRank[b[2]]
		}
		return a[2] < b[2]
	})
	var rows []string
	for _, k := range keys {
		a := strings.Split(k, "\x00")
		rows = append(rows, fmt.Sprintf("(%s, %s, %s)", leanStr(a[0]), leanStr(a[1]), leanStr(a[2])))
	}
	var types []string
	for t := range over {
		types = append(types, t)
	}
	sort.Strings(types)
	var orows []string
	for _, t := range types {
		var ms []string
		for m := range over[t] {
			ms = append(ms, leanStr(m))
		}
		sort.Strings(ms)
		orows = append(orows, fmt.Sprintf("(%s, %s)", leanStr(t), leanList(ms)))
	}
	var b strings.Builder
	b.WriteString("namespace Tengo.Gen.BinaryOpArms\n")
	b.WriteString("/-- (receiver type, right operand type or \"*\" for a default arm, token) of every BinaryOp arm of\nobjects.go that yields a value -/\n")
	b.WriteString("def arms : List (String × String × String) := " + leanListLines(rows) + "\n")
	b.WriteString("/-- which of BinaryOp/Copy/Equals/IsFalsy each Object type of objects.go implements itself -/\n")
	b.WriteString("def overrides : List (String × List String) := " + leanListLines(orows) + "\n")
	b.WriteString("end Tengo.Gen.BinaryOpArms\n")
	return b.String(), nil
}

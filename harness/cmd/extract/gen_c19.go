package main

// C19: stdlib module tables, adapter signatures (func_typedefs.go), embedded enum source.

import (
	"fmt"
	"go/ast"
	"go/token"
	"os"
	"path/filepath"
	"regexp"
	"sort"
	"strconv"
	"strings"
)

func init() { register("StdlibTables", genStdlibTables) }

func isTengoSel(e ast.Expr, name string) bool {
	s, ok := e.(*ast.SelectorExpr)
	if !ok {
		return false
	}
	x, ok := s.X.(*ast.Ident)
	return ok && x.Name == "tengo" && (name == "" || s.Sel.Name == name)
}

// argsIndex recognises `args[K]`.
func argsIndex(p *Pkg, e ast.Expr) (int, bool) {
	ix, ok := e.(*ast.IndexExpr)
	if !ok {
		return 0, false
	}
	if id, ok := ix.X.(*ast.Ident); !ok || id.Name != "args" {
		return 0, false
	}
	v, ok := p.ExprConstInt(ix.Index)
	return int(v), ok
}

// rootIdent follows selectors / calls / parens / indexes down to the leftmost identifier.
func rootIdent(e ast.Expr) string {
	for {
		switch t := e.(type) {
		case *ast.Ident:
			return t.Name
		case *ast.SelectorExpr:
			e = t.X
		case *ast.CallExpr:
			e = t.Fun
		case *ast.ParenExpr:
			e = t.X
		case *ast.IndexExpr:
			e = t.X
		default:
			return ""
		}
	}
}

// coreCalls lists, in source order and without duplicates, the outermost calls of a hand-written
// wrapper that reach outside tengo: package functions (strings., strconv., regexp., time., …),
// methods on local values (t1.AddDate, re.Split, …) and stdlib-local helpers. Local variables bound
// to `tengo.ToX(args[K])` / `args[K].(*T)` are rewritten to `$K+1` so the argument order is visible
// and a renaming is harmless.
func coreCalls(p *Pkg, body *ast.BlockStmt, helpers map[string]bool) []string {
	bind := map[string]string{}
	ast.Inspect(body, func(n ast.Node) bool {
		switch s := n.(type) {
		case *ast.AssignStmt:
			if len(s.Rhs) != 1 || len(s.Lhs) < 1 {
				return true
			}
			lhs, ok := s.Lhs[0].(*ast.Ident)
			if !ok {
				return true
			}
			switch r := s.Rhs[0].(type) {
			case *ast.CallExpr:
				if isTengoSel(r.Fun, "") && len(r.Args) == 1 {
					if k, ok := argsIndex(p, r.Args[0]); ok {
						bind[lhs.Name] = fmt.Sprintf("$%d", k+1)
					}
				}
			case *ast.TypeAssertExpr:
				if k, ok := argsIndex(p, r.X); ok {
					bind[lhs.Name] = fmt.Sprintf("$%d", k+1)
				}
			}
		}
		return true
	})
	skipRoot := map[string]bool{"tengo": true, "fmt": true, "args": true, "arr": true, "subMatch": true, "": true}
	var out []string
	seen := map[string]bool{}
	ast.Inspect(body, func(n ast.Node) bool {
		c, ok := n.(*ast.CallExpr)
		if !ok {
			return true
		}
		take := false
		switch f := c.Fun.(type) {
		case *ast.SelectorExpr:
			take = !skipRoot[rootIdent(f)] && f.Sel.Name != "TypeName"
		case *ast.Ident:
			take = helpers[f.Name]
		}
		if !take {
			return true
		}
		s := p.Src(c)
		for name, rep := range bind {
			re := regexp.MustCompile(`\b` + regexp.QuoteMeta(name) + `\b`)
			s = re.ReplaceAllLiteralString(s, rep)
		}
		if !seen[s] {
			seen[s] = true
			out = append(out, s)
		}
		return false
	})
	return out
}

func userFuncValue(e ast.Expr) (ast.Expr, string, bool) {
	u, ok := e.(*ast.UnaryExpr)
	if !ok || u.Op != token.AND {
		return nil, "", false
	}
	cl, ok := u.X.(*ast.CompositeLit)
	if !ok || !isTengoSel(cl.Type, "") {
		return nil, "", false
	}
	tn := cl.Type.(*ast.SelectorExpr).Sel.Name
	for _, el := range cl.Elts {
		if kv, ok := el.(*ast.KeyValueExpr); ok {
			if id, ok := kv.Key.(*ast.Ident); ok && id.Name == "Value" {
				return kv.Value, tn, true
			}
		}
	}
	return nil, tn, false
}

var adapterUses = map[string]bool{}

func moduleRows(p *Pkg, lit ast.Expr, helpers map[string]bool) ([]string, error) {
	ks, vs, ok := keyedLit(lit)
	if !ok {
		return nil, fmt.Errorf("module map is not a keyed literal")
	}
	type row struct{ name, kind, wrapped string }
	var rows []row
	for i := range ks {
		name, ok := p.ExprConstString(ks[i])
		if !ok {
			return nil, fmt.Errorf("module key not a constant string")
		}
		val, tn, ok := userFuncValue(vs[i])
		if !ok {
			return nil, fmt.Errorf("entry %s: unrecognised value shape", name)
		}
		r := row{name: name}
		if tn != "UserFunction" {
			r.kind, r.wrapped = "const:"+tn, p.Src(val)
		} else {
			switch v := val.(type) {
			case *ast.CallExpr:
				id, ok := v.Fun.(*ast.Ident)
				if !ok || len(v.Args) != 1 {
					return nil, fmt.Errorf("entry %s: unrecognised adapter call", name)
				}
				r.kind, r.wrapped = id.Name, p.Src(v.Args[0])
				adapterUses[id.Name] = true
			case *ast.Ident:
				fd := p.FindFunc("", v.Name)
				if fd == nil {
					return nil, fmt.Errorf("entry %s: function %s not found", name, v.Name)
				}
				r.kind, r.wrapped = "handwritten:"+v.Name, strings.Join(coreCalls(p, fd.Body, helpers), "; ")
			case *ast.FuncLit:
				r.kind, r.wrapped = "closure", strings.Join(coreCalls(p, v.Body, helpers), "; ")
			default:
				return nil, fmt.Errorf("entry %s: unrecognised function value", name)
			}
		}
		rows = append(rows, r)
	}
	sort.Slice(rows, func(i, j int) bool { return rows[i].name < rows[j].name })
	out := make([]string, len(rows))
	for i, r := range rows {
		out[i] = fmt.Sprintf("(%s, %s, %s)", leanStr(r.name), leanStr(r.kind), leanStr(r.wrapped))
	}
	return out, nil
}

func goTypeKinds(p *Pkg, fl *ast.FieldList) []string {
	var out []string
	if fl == nil {
		return out
	}
	for _, f := range fl.List {
		n := len(f.Names)
		if n == 0 {
			n = 1
		}
		for i := 0; i < n; i++ {
			out = append(out, p.Src(f.Type))
		}
	}
	return out
}

func leanStrs(xs []string) string {
	q := make([]string, len(xs))
	for i, x := range xs {
		q[i] = leanStr(x)
	}
	return leanList(q)
}

func adapterRow(p *Pkg, fd *ast.FuncDecl) ([4]string, error) {
	if fd.Type.Params == nil || len(fd.Type.Params.List) != 1 {
		return [4]string{}, fmt.Errorf("%s: expected one parameter", fd.Name.Name)
	}
	ft, ok := fd.Type.Params.List[0].Type.(*ast.FuncType)
	if !ok {
		return [4]string{}, fmt.Errorf("%s: parameter is not a function", fd.Name.Name)
	}
	arity := -1
	var convs, errs []string
	flags := map[string]bool{}
	ast.Inspect(fd.Body, func(n ast.Node) bool {
		switch t := n.(type) {
		case *ast.BinaryExpr:
			if t.Op == token.NEQ {
				if c, ok := t.X.(*ast.CallExpr); ok && p.Src(c) == "len(args)" {
					if v, ok := p.ExprConstInt(t.Y); ok {
						arity = int(v)
					}
				}
			}
		case *ast.CallExpr:
			if isTengoSel(t.Fun, "") && len(t.Args) == 1 {
				convs = append(convs, fmt.Sprintf("(%s, %s)", leanStr(t.Fun.(*ast.SelectorExpr).Sel.Name), leanStr(p.Src(t.Args[0]))))
			}
			if id, ok := t.Fun.(*ast.Ident); ok && id.Name == "wrapError" {
				flags["wrapError"] = true
			}
		case *ast.CompositeLit:
			if isTengoSel(t.Type, "ErrInvalidArgumentType") {
				f := map[string]string{}
				for _, el := range t.Elts {
					if kv, ok := el.(*ast.KeyValueExpr); ok {
						v := p.Src(kv.Value)
						if s, ok := p.ExprConstString(kv.Value); ok {
							v = s
						}
						f[p.Src(kv.Key)] = v
					}
				}
				errs = append(errs, fmt.Sprintf("(%s, %s, %s)", leanStr(f["Name"]), leanStr(f["Expected"]), leanStr(f["Found"])))
			}
		case *ast.SelectorExpr:
			if isTengoSel(t, "") {
				switch t.Sel.Name {
				case "MaxStringLen", "MaxBytesLen", "ErrStringLimit", "ErrBytesLimit":
					flags[t.Sel.Name] = true
				}
			}
		}
		return true
	})
	if arity < 0 {
		return [4]string{}, fmt.Errorf("%s: no arity check found", fd.Name.Name)
	}
	var fl []string
	for k := range flags {
		fl = append(fl, k)
	}
	sort.Strings(fl)
	n := leanStr(fd.Name.Name)
	return [4]string{
		fmt.Sprintf("(%s, %s, %s, %d)", n, leanStrs(goTypeKinds(p, ft.Params)), leanStrs(goTypeKinds(p, ft.Results)), arity),
		fmt.Sprintf("(%s, %s)", n, leanList(convs)),
		fmt.Sprintf("(%s, %s)", n, leanList(errs)),
		fmt.Sprintf("(%s, %s)", n, leanStrs(fl))}, nil
}

// enumCode strips comments, blank lines and indentation (layout and comments are not facts).
func enumCode(src string) []string {
	var out []string
	for _, l := range strings.Split(src, "\n") {
		l = strings.TrimSpace(l)
		if l == "" || strings.HasPrefix(l, "//") {
			continue
		}
		out = append(out, l)
	}
	return out
}

func genStdlibTables(c *Ctx) (string, error) {
	p := c.Pkg("stdlib")
	adapterUses = map[string]bool{}
	helpers := map[string]bool{}
	for _, f := range p.sortedFiles() {
		for _, d := range f.Decls {
			if fd, ok := d.(*ast.FuncDecl); ok && fd.Recv == nil && fd.Name.Name != "wrapError" {
				helpers[fd.Name.Name] = true
			}
		}
	}
	var b strings.Builder
	b.WriteString("namespace Tengo.Gen.StdlibTables\n")
	// module name -> variable, from BuiltinModules
	ks, vs, ok := keyedLit(p.FindVar("BuiltinModules"))
	if !ok {
		return "", fmt.Errorf("BuiltinModules is not a keyed literal")
	}
	modVar := map[string]string{}
	for i := range ks {
		n, ok := p.ExprConstString(ks[i])
		if !ok {
			return "", fmt.Errorf("BuiltinModules key not constant")
		}
		modVar[n] = p.Src(vs[i])
	}
	b.WriteString("/-- (script name, adapter kind | const:<type> | handwritten:<func>, wrapped Go expression as written; for hand-written\n    wrappers the outward calls with `$N` = N-th script argument), sorted by script name -/\n")
	for _, m := range []string{"text", "math", "base64", "hex", "times"} {
		v, ok := modVar[m]
		if !ok {
			return "", fmt.Errorf("module %s not registered in BuiltinModules", m)
		}
		lit := p.FindVar(v)
		if lit == nil {
			return "", fmt.Errorf("module variable %s not found", v)
		}
		rows, err := moduleRows(p, lit, helpers)
		if err != nil {
			return "", fmt.Errorf("%s: %v", m, err)
		}
		fmt.Fprintf(&b, "def %sTable : List (String × String × String) := %s\n", m, leanListLines(rows))
	}
	// methods of the compiled-regexp object
	if fd := p.FindFunc("", "makeTextRegexp"); fd != nil {
		var lit ast.Expr
		ast.Inspect(fd.Body, func(n ast.Node) bool {
			if cl, ok := n.(*ast.CompositeLit); ok && lit == nil {
				if _, isMap := cl.Type.(*ast.MapType); isMap {
					lit = cl
					return false
				}
			}
			return true
		})
		if lit == nil {
			return "", fmt.Errorf("makeTextRegexp: map literal not found")
		}
		rows, err := moduleRows(p, lit, helpers)
		if err != nil {
			return "", fmt.Errorf("regexp object: %v", err)
		}
		fmt.Fprintf(&b, "def regexpTable : List (String × String × String) := %s\n", leanListLines(rows))
	} else {
		return "", fmt.Errorf("makeTextRegexp not found")
	}
	var uses []string
	for n := range adapterUses {
		uses = append(uses, n)
	}
	sort.Strings(uses)
	b.WriteString("/-- adapters the six tables above use -/\n")
	b.WriteString("def adapterUses : List String := " + leanStrs(uses) + "\n")
	// adapters
	tf := p.Files["func_typedefs.go"]
	if tf == nil {
		return "", fmt.Errorf("func_typedefs.go not found")
	}
	var rows [4][]string
	for _, d := range tf.Decls {
		fd, ok := d.(*ast.FuncDecl)
		if !ok || fd.Recv != nil || !strings.HasPrefix(fd.Name.Name, "Func") || !fd.Name.IsExported() {
			continue
		}
		r, err := adapterRow(p, fd)
		if err != nil {
			return "", err
		}
		for i := range rows {
			rows[i] = append(rows[i], r[i])
		}
	}
	for i := range rows {
		sort.Strings(rows[i])
	}
	b.WriteString("/-- (adapter, Go parameter types of fn, Go result types of fn, arity tested), by name -/\n")
	b.WriteString("def adapterTypes : List (String × List String × List String × Nat) := " + leanListLines(rows[0]) + "\n")
	b.WriteString("/-- (adapter, conversions (tengo.ToX, operand) in source order) -/\n")
	b.WriteString("def adapterConvs : List (String × List (String × String)) := " + leanListLines(rows[1]) + "\n")
	b.WriteString("/-- (adapter, ErrInvalidArgumentType literals (Name, Expected, Found) in source order) -/\n")
	b.WriteString("def adapterErrs : List (String × List (String × String × String)) := " + leanListLines(rows[2]) + "\n")
	b.WriteString("/-- (adapter, limit / error idioms present in the body) -/\n")
	b.WriteString("def adapterIdioms : List (String × List String) := " + leanListLines(rows[3]) + "\n")
	// enum source module
	ks, vs, ok = keyedLit(p.FindVar("SourceModules"))
	if !ok {
		return "", fmt.Errorf("SourceModules is not a keyed literal")
	}
	enum, found := "", false
	for i := range ks {
		if n, _ := p.ExprConstString(ks[i]); n == "enum" {
			enum, found = p.ExprConstString(vs[i])
		}
	}
	if !found {
		return "", fmt.Errorf("enum source module not found")
	}
	file, err := os.ReadFile(filepath.Join(c.Repo, "stdlib", "srcmod_enum.tengo"))
	if err != nil {
		return "", err
	}
	b.WriteString("/-- the string embedded in stdlib/source_modules.go -/\n")
	b.WriteString("def enumSource : String := " + leanStr(enum) + "\n")
	b.WriteString("/-- stdlib/srcmod_enum.tengo as checked in -/\n")
	b.WriteString("def enumFile : String := " + leanStr(string(file)) + "\n")
	b.WriteString("def enumEmbeddedEqualsFile : Bool := " + strconv.FormatBool(enum == string(file)) + "\n")
	b.WriteString("/-- code lines of the embedded source (comments, blank lines, indentation dropped) -/\n")
	b.WriteString("def enumCode : List String := " + leanListLines(func() []string {
		ls := enumCode(enum)
		for i := range ls {
			ls[i] = leanStr(ls[i])
		}
		return ls
	}()) + "\n")
	b.WriteString("end Tengo.Gen.StdlibTables\n")
	return b.String(), nil
}

package main

// Generator for property C04 (scanner, parser and compiler are total): the inventory of PARTIAL
// OPERATIONS of the front end and the compiler, i.e. every place where Go can panic by itself or is told to:
//
//	panic   explicit `panic(arg)`                              text = leading text of arg
//	assert  type assertion without the comma-ok form            text = the expression
//	index   x[i] on a slice / string / array / pointer-to-array whose index is not a constant that the type
//	        checker knows to be in range (map indexing and generic instantiation are not partial)
//	slice   x[lo:hi(:max)] on the same types (a bare x[:] is total)
//	div     integer `/`, `%`, `/=`, `%=` whose divisor is not a non-zero constant
//
// Every site is (file, enclosing top-level function or method, kind, text, occurrences); function literals are
// attributed to the declaration that contains them. The list is sorted, so the order of statements inside a
// function does not matter, but a site that is new, or moved to another function, or duplicated changes it.
// In addition: the skeleton of the function deferred by (*Parser).ParseFile (which recovered values it
// swallows) and every `recover()` call of the inventoried files.

import (
	"fmt"
	"go/ast"
	"go/constant"
	"go/token"
	"go/types"
	"sort"
	"strings"
)

func init() { register("PanicSites", genPanicSites) }

var c04Files = []struct{ dir, file string }{
	{"parser", "scanner.go"}, {"parser", "parser.go"}, {"parser", "source_file.go"},
	{".", "compiler.go"}, {".", "symbol_table.go"}, {".", "script.go"}, {".", "bytecode.go"}, {".", "instructions.go"},
}

type c04Site struct{ file, fn, kind, text string }

func c04Clip(s string, n int) string {
	if len(s) > n {
		return s[:n] + "…"
	}
	return s
}

func c04FuncName(fd *ast.FuncDecl) string {
	if fd.Recv != nil && len(fd.Recv.List) == 1 {
		return recvName(fd.Recv.List[0].Type) + "." + fd.Name.Name
	}
	return fd.Name.Name
}

// c04Partial reports whether indexing/slicing a value of type t can panic ("" = it cannot or is not an
// indexing of a sequence), and the array length when t is an array (-1 otherwise).
func c04SeqType(t types.Type) (seq bool, arrayLen int64) {
	if t == nil {
		return true, -1 // unknown type: keep the site (conservative)
	}
	switch u := t.Underlying().(type) {
	case *types.Map:
		return false, -1
	case *types.Slice:
		return true, -1
	case *types.Basic:
		return u.Info()&types.IsString != 0, -1
	case *types.Array:
		return true, u.Len()
	case *types.Pointer:
		if a, ok := u.Elem().Underlying().(*types.Array); ok {
			return true, a.Len()
		}
	case *types.Signature:
		return false, -1 // generic instantiation
	}
	return false, -1
}

func c04Unparen(e ast.Expr) ast.Expr {
	for {
		p, ok := e.(*ast.ParenExpr)
		if !ok {
			return e
		}
		e = p.X
	}
}

func c04IsInt(p *Pkg, e ast.Expr) bool {
	tv, ok := p.Info.Types[e]
	if !ok || tv.Type == nil {
		return true // unknown: keep
	}
	b, ok := tv.Type.Underlying().(*types.Basic)
	return ok && b.Info()&types.IsInteger != 0
}

func c04NonZeroConst(p *Pkg, e ast.Expr) bool {
	tv, ok := p.Info.Types[e]
	if !ok || tv.Value == nil {
		return false
	}
	return constant.Sign(constant.ToInt(tv.Value)) != 0
}

func c04Collect(p *Pkg, file string, fd *ast.FuncDecl, out *[]c04Site) {
	fn := c04FuncName(fd)
	add := func(kind, text string) { *out = append(*out, c04Site{file, fn, kind, c04Clip(text, 70)}) }
	commaOK := map[ast.Expr]bool{}
	ast.Inspect(fd, func(n ast.Node) bool {
		switch t := n.(type) {
		case *ast.AssignStmt:
			if len(t.Lhs) == 2 && len(t.Rhs) == 1 {
				commaOK[c04Unparen(t.Rhs[0])] = true
			}
			if t.Tok == token.QUO_ASSIGN || t.Tok == token.REM_ASSIGN {
				if c04IsInt(p, t.Lhs[0]) && !c04NonZeroConst(p, t.Rhs[0]) {
					add("div", p.Src(t))
				}
			}
		case *ast.ValueSpec:
			if len(t.Names) == 2 && len(t.Values) == 1 {
				commaOK[c04Unparen(t.Values[0])] = true
			}
		case *ast.CallExpr:
			if id, ok := t.Fun.(*ast.Ident); ok && id.Name == "panic" && len(t.Args) == 1 {
				if _, isBuiltin := p.Info.Uses[id].(*types.Builtin); isBuiltin || p.Info.Uses[id] == nil {
					add("panic", c04Clip(p.Src(t.Args[0]), 48))
				}
			}
		case *ast.TypeAssertExpr:
			if t.Type != nil && !commaOK[t] {
				add("assert", p.Src(t))
			}
		case *ast.IndexExpr:
			tv := p.Info.Types[t.X]
			seq, alen := c04SeqType(tv.Type)
			if !seq {
				return true
			}
			if alen >= 0 {
				if v, ok := p.ExprConstInt(t.Index); ok && v >= 0 && v < alen {
					return true // constant index inside a fixed-size array
				}
			}
			add("index", p.Src(t))
		case *ast.SliceExpr:
			if t.Low == nil && t.High == nil && t.Max == nil {
				return true
			}
			tv := p.Info.Types[t.X]
			if seq, _ := c04SeqType(tv.Type); seq {
				add("slice", p.Src(t))
			}
		case *ast.BinaryExpr:
			if (t.Op == token.QUO || t.Op == token.REM) && c04IsInt(p, t) && !c04NonZeroConst(p, t.Y) {
				add("div", p.Src(t))
			}
		}
		return true
	})
}

// c04Skeleton renders a statement list as one line per simple statement and per `if` header.
func c04Skeleton(p *Pkg, list []ast.Stmt, depth int, out *[]string) {
	ind := strings.Repeat("  ", depth)
	for _, s := range list {
		switch t := s.(type) {
		case *ast.IfStmt:
			h := "if "
			if t.Init != nil {
				h += p.Src(t.Init) + "; "
			}
			*out = append(*out, ind+h+p.Src(t.Cond))
			c04Skeleton(p, t.Body.List, depth+1, out)
			if t.Else != nil {
				*out = append(*out, ind+"else")
				if b, ok := t.Else.(*ast.BlockStmt); ok {
					c04Skeleton(p, b.List, depth+1, out)
				} else {
					c04Skeleton(p, []ast.Stmt{t.Else}, depth+1, out)
				}
			}
		case *ast.BlockStmt:
			c04Skeleton(p, t.List, depth, out)
		case *ast.ForStmt:
			h := "for "
			if t.Init != nil {
				h += p.Src(t.Init)
			}
			h += "; "
			if t.Cond != nil {
				h += p.Src(t.Cond)
			}
			h += "; "
			if t.Post != nil {
				h += p.Src(t.Post)
			}
			*out = append(*out, ind+h)
			c04Skeleton(p, t.Body.List, depth+1, out)
		default:
			*out = append(*out, ind+p.Src(s))
		}
	}
}

func genPanicSites(c *Ctx) (string, error) {
	var sites []c04Site
	var recovers []string
	var files []string
	for _, ff := range c04Files {
		p := c.Pkg(ff.dir)
		f := p.Files[ff.file]
		name := ff.file
		if ff.dir != "." {
			name = ff.dir + "/" + ff.file
		}
		if f == nil {
			return "", fmt.Errorf("%s not found", name)
		}
		files = append(files, name)
		for _, d := range f.Decls {
			fd, ok := d.(*ast.FuncDecl)
			if !ok || fd.Body == nil {
				continue
			}
			c04Collect(p, name, fd, &sites)
			ast.Inspect(fd, func(n ast.Node) bool {
				if call, ok := n.(*ast.CallExpr); ok {
					if id, ok := call.Fun.(*ast.Ident); ok && id.Name == "recover" && len(call.Args) == 0 {
						recovers = append(recovers, name+": "+c04FuncName(fd))
					}
				}
				return true
			})
		}
		// package-level initialisers can also hold partial operations
		for _, d := range f.Decls {
			if gd, ok := d.(*ast.GenDecl); ok && gd.Tok == token.VAR {
				fake := &ast.FuncDecl{Name: ast.NewIdent("<package var>"), Type: &ast.FuncType{}, Body: &ast.BlockStmt{List: []ast.Stmt{&ast.DeclStmt{Decl: gd}}}}
				c04Collect(p, name, fake, &sites)
			}
		}
	}
	sort.Slice(sites, func(i, j int) bool {
		a, b := sites[i], sites[j]
		if a.file != b.file {
			return a.file < b.file
		}
		if a.fn != b.fn {
			return a.fn < b.fn
		}
		if a.kind != b.kind {
			return a.kind < b.kind
		}
		return a.text < b.text
	})
	var rows []string
	kinds := map[string]int{}
	for i := 0; i < len(sites); {
		j := i
		for j < len(sites) && sites[j] == sites[i] {
			j++
		}
		s := sites[i]
		rows = append(rows, fmt.Sprintf("(%s, %s, %s, %s, %d)", leanStr(s.file), leanStr(s.fn), leanStr(s.kind), leanStr(s.text), j-i))
		kinds[s.kind] += j - i
		i = j
	}

	// the function deferred by ParseFile
	pp := c.Pkg("parser")
	pf := pp.FindFunc("Parser", "ParseFile")
	if pf == nil {
		return "", fmt.Errorf("(*Parser).ParseFile not found")
	}
	var deferred []string
	nDefer := 0
	for _, s := range pf.Body.List {
		ds, ok := s.(*ast.DeferStmt)
		if !ok {
			continue
		}
		fl, ok := ds.Call.Fun.(*ast.FuncLit)
		if !ok {
			continue
		}
		nDefer++
		c04Skeleton(pp, fl.Body.List, 0, &deferred)
	}
	if nDefer != 1 {
		return "", fmt.Errorf("ParseFile: expected exactly one top-level deferred function literal, found %d", nDefer)
	}
	// where bailout is raised
	var bail []string
	for _, s := range sites {
		if strings.HasPrefix(s.text, "bailout{") && s.kind == "panic" {
			bail = append(bail, s.file+": "+s.fn)
		}
	}
	sort.Strings(recovers)

	// the progress guard of advance() and the error cap of error()
	var advBody, errBody, expBody, semiBody []string
	if fd := pp.FindFunc("Parser", "expect"); fd != nil {
		c04Skeleton(pp, fd.Body.List, 0, &expBody)
	} else {
		return "", fmt.Errorf("(*Parser).expect not found")
	}
	if fd := pp.FindFunc("Parser", "expectSemi"); fd != nil {
		semiBody = append(semiBody, pp.Src(fd.Body))
	} else {
		return "", fmt.Errorf("(*Parser).expectSemi not found")
	}
	if fd := pp.FindFunc("Parser", "advance"); fd != nil {
		c04Skeleton(pp, fd.Body.List, 0, &advBody)
	} else {
		return "", fmt.Errorf("(*Parser).advance not found")
	}
	if fd := pp.FindFunc("Parser", "error"); fd != nil {
		c04Skeleton(pp, fd.Body.List, 0, &errBody)
	} else {
		return "", fmt.Errorf("(*Parser).error not found")
	}

	// the synchronisation set of advance()
	var stmtStart []string
	lit := pp.FindVar("stmtStart")
	keys, vals, ok := keyedLit(lit)
	if lit == nil || !ok {
		return "", fmt.Errorf("parser.stmtStart is not a keyed literal")
	}
	for i, k := range keys {
		sel, ok := k.(*ast.SelectorExpr)
		if !ok || pp.Src(vals[i]) != "true" {
			return "", fmt.Errorf("parser.stmtStart: unexpected entry %s", pp.Src(k))
		}
		stmtStart = append(stmtStart, sel.Sel.Name)
	}
	// the advance() call sites: which set each of them synchronises on
	var advSets, advArgs []string
	for _, d := range pp.Files["parser.go"].Decls {
		fd, ok := d.(*ast.FuncDecl)
		if !ok || fd.Body == nil {
			continue
		}
		ast.Inspect(fd, func(n ast.Node) bool {
			if call, ok := n.(*ast.CallExpr); ok {
				if sel, ok := call.Fun.(*ast.SelectorExpr); ok && sel.Sel.Name == "advance" && len(call.Args) == 1 {
					advSets = append(advSets, c04FuncName(fd)+": "+pp.Src(call.Args[0]))
					if a := pp.Src(call.Args[0]); len(advArgs) == 0 || advArgs[len(advArgs)-1] != a {
						advArgs = append(advArgs, a)
					}
				}
			}
			return true
		})
	}
	sort.Strings(advSets)
	sort.Strings(advArgs)
	for i := 1; i < len(advArgs); {
		if advArgs[i] == advArgs[i-1] {
			advArgs = append(advArgs[:i], advArgs[i+1:]...)
		} else {
			i++
		}
	}

	var b strings.Builder
	b.WriteString("namespace Tengo.Gen.PanicSites\n")
	b.WriteString("/-- files inventoried -/\n")
	fmt.Fprintf(&b, "def files : List String := %s\n", leanList(mapStr(files, leanStr)))
	b.WriteString("/-- partial operations: (file, enclosing function, kind, text, occurrences); kinds: panic assert index slice div; sorted -/\n")
	fmt.Fprintf(&b, "def sites : List (String × String × String × String × Nat) := %s\n", leanListLines(rows))
	var ks []string
	for _, k := range []string{"panic", "assert", "index", "slice", "div"} {
		ks = append(ks, fmt.Sprintf("(%s, %d)", leanStr(k), kinds[k]))
	}
	fmt.Fprintf(&b, "/-- occurrences per kind -/\ndef kindCounts : List (String × Nat) := %s\n", leanList(ks))
	fmt.Fprintf(&b, "/-- skeleton of the function literal deferred by (*Parser).ParseFile -/\ndef parseFileDeferred : List String := %s\n", leanListLines(mapStr(deferred, leanStr)))
	fmt.Fprintf(&b, "/-- functions that call recover() -/\ndef recoverCalls : List String := %s\n", leanList(mapStr(recovers, leanStr)))
	fmt.Fprintf(&b, "/-- functions that raise `panic(bailout{})` -/\ndef bailoutRaised : List String := %s\n", leanList(mapStr(bail, leanStr)))
	fmt.Fprintf(&b, "/-- keys of the `stmtStart` map (token constant names, source order) -/\ndef stmtStart : List String := %s\n", leanList(mapStr(stmtStart, leanStr)))
	fmt.Fprintf(&b, "/-- call sites of `p.advance(set)` -/\ndef advanceCalls : List String := %s\n", leanList(mapStr(advSets, leanStr)))
	fmt.Fprintf(&b, "/-- skeleton of (*Parser).advance: the syncPos/syncCount progress guard -/\ndef advanceBody : List String := %s\n", leanListLines(mapStr(advBody, leanStr)))
	fmt.Fprintf(&b, "/-- skeleton of (*Parser).error: same-line suppression and the more-than-10 bailout -/\ndef errorBody : List String := %s\n", leanListLines(mapStr(errBody, leanStr)))
	fmt.Fprintf(&b, "/-- skeleton of (*Parser).expect: consumes a token whether or not it matches -/\ndef expectBody : List String := %s\n", leanListLines(mapStr(expBody, leanStr)))
	fmt.Fprintf(&b, "/-- body of (*Parser).expectSemi on one line -/\ndef expectSemiBody : List String := %s\n", leanListLines(mapStr(semiBody, leanStr)))
	fmt.Fprintf(&b, "/-- distinct arguments of the `p.advance(…)` calls -/\ndef advanceSets : List String := %s\n", leanList(mapStr(advArgs, leanStr)))
	b.WriteString("end Tengo.Gen.PanicSites\n")
	return b.String(), nil
}

func mapStr(xs []string, f func(string) string) []string {
	out := make([]string, len(xs))
	for i, x := range xs {
		out[i] = f(x)
	}
	return out
}

// Command c01: correspondence and searcher for C01 (compile-and-run agrees
// with the language's reference semantics).
//
// Streams
//
//	spec   real Script.Compile + RunContext + GetAll versus the Lean reference interpreter
//	       (Tengo.Model.Spec) on the same program (AST dumped from the real parser): outcome class,
//	       error message, every global value. The reference interpreter is the property's oracle:
//	       a difference on a program inside the modelled language is a violation of C01.
//	comp   the real compiler versus the Lean model of the whole compiler (Tengo.Model.Compiler) on every
//	       generated program and corpus entry: main function bytes, every constant (function constants with
//	       bytes, NumLocals, NumParameters, VarArgs), MaxSymbols of the root table, compile error text.
package main

import (
	"context"
	"encoding/json"
	"fmt"
	"os"
	"sort"
	"strings"
	"time"

	"github.com/d5/tengo/v2"
	"github.com/d5/tengo/v2/parser"
	"verifharness/lib"
)

type replayInput struct {
	Source string `json:"source"`
	// stream `rerun` only: names of the host inputs and, per run, the index of each input's value in inputPool
	Names  []string `json:"input_names,omitempty"`
	First  []int    `json:"first_run_pool_index,omitempty"`
	Second []int    `json:"second_run_pool_index,omitempty"`
}

var (
	res *lib.Result
	drv *lib.Driver
)

func fatal(err error) {
	fmt.Fprintln(os.Stderr, "c01:", err)
	os.Exit(3)
}

// realOutcome runs src through the public API and renders the outcome in the
// driver's answer format.
func realOutcome(src string, inputs []inputVar) (string, bool) {
	var out string
	g := lib.Guard(10*time.Second, func() {
		s := tengo.NewScript([]byte(src))
		for _, in := range inputs {
			if err := s.Add(in.Name, in.mk()); err != nil {
				out = "add-error " + err.Error()
				return
			}
		}
		c, err := s.Compile()
		if err != nil {
			msg := err.Error()
			if strings.HasPrefix(msg, "Parse Error") {
				out = "perr"
				return
			}
			msg = strings.TrimPrefix(msg, "Compile Error: ")
			if i := strings.Index(msg, "\n"); i >= 0 {
				msg = msg[:i]
			}
			out = "cerr " + lib.HexS(msg)
			return
		}
		out = runOutcome(c)
	})
	if g.Panicked {
		return "escaped-panic " + lib.HexS(g.PanicVal), true
	}
	if g.TimedOut {
		return "hang", true
	}
	return out, true
}

// runOutcome runs a compiled program once and renders its outcome (error class + first line, or every global).
func runOutcome(c *tengo.Compiled) string {
	ctx, cancel := context.WithTimeout(context.Background(), 5*time.Second)
	defer cancel()
	if err := c.RunContext(ctx); err != nil {
		msg := err.Error()
		if err == context.DeadlineExceeded {
			return "timeout"
		}
		if strings.HasPrefix(msg, "Runtime Error: ") {
			msg = strings.TrimPrefix(msg, "Runtime Error: ")
			if i := strings.Index(msg, "\n"); i >= 0 {
				msg = msg[:i]
			}
			return "rerr " + lib.HexS(msg)
		}
		return "panic " + lib.HexS(msg)
	}
	vars := c.GetAll()
	parts := make([]string, 0, len(vars))
	for _, v := range vars {
		parts = append(parts, "("+lib.HexS(v.Name())+" "+lib.Canon(v.Object())+")")
	}
	sort.Strings(parts)
	out := "ok"
	if len(parts) > 0 {
		out += " " + strings.Join(parts, " ")
	}
	return out
}

// rerunOutcome: ONE Compiled, run with the inputs `first` (whatever happens), then Set the inputs `second` and
// run again; the outcome of the second run. The property speaks about compiling and running a program with given
// inputs: what an earlier run of the same compiled object did (a run-time error, values left in globals, state kept
// in a VM) must not show, because the program assigns every variable before it reads it.
func rerunOutcome(src string, first, second []inputVar) (string, string) {
	var out, firstOut string
	g := lib.Guard(20*time.Second, func() {
		s := tengo.NewScript([]byte(src))
		for _, in := range first {
			if err := s.Add(in.Name, in.mk()); err != nil {
				out = "add-error " + err.Error()
				return
			}
		}
		c, err := s.Compile()
		if err != nil {
			out = "cerr"
			return
		}
		firstOut = runOutcome(c)
		for _, in := range second {
			if err := c.Set(in.Name, in.mk()); err != nil {
				out = "set-error " + err.Error()
				return
			}
		}
		out = runOutcome(c)
	})
	if g.Panicked {
		return "escaped-panic " + lib.HexS(g.PanicVal), firstOut
	}
	if g.TimedOut {
		return "hang", firstOut
	}
	return out, firstOut
}

// checkRerun (stream `rerun`): the second run of one Compiled with the inputs of the fresh run must give the fresh
// run's outcome `real`, whatever inputs the first run had (often ill-typed for the program: a failing first run).
func checkRerun(r *lib.RNG, src string, inputs []inputVar, real string) {
	if len(inputs) == 0 || strings.HasPrefix(real, "cerr") || real == "perr" || real == "timeout" || strings.HasPrefix(real, "add-error") {
		return
	}
	ri := replayInput{Source: src}
	first := make([]inputVar, len(inputs))
	for i, in := range inputs {
		pi := r.Intn(len(inputPool))
		first[i] = inputVar{Name: in.Name, Ty: inputPool[pi].ty, mk: inputPool[pi].mk, Pool: pi}
		ri.Names = append(ri.Names, in.Name)
		ri.First = append(ri.First, pi)
		ri.Second = append(ri.Second, in.Pool)
	}
	rerunCompare(ri, first, inputs, real)
}

func rerunCompare(ri replayInput, first, second []inputVar, real string) {
	var desc []string
	for _, in := range first {
		desc = append(desc, "("+lib.HexS(in.Name)+" "+lib.Canon(in.mk())+")")
	}
	got, firstOut := rerunOutcome(ri.Source, first, second)
	if firstOut == "timeout" || got == "timeout" {
		return
	}
	res.Count("rerun", ri.Source+strings.Join(desc, " "), true)
	res.Dist("rerun:first-run-" + strings.Fields(firstOut + " ?")[0])
	if normalize(got) != normalize(real) {
		res.Violate(lib.Violation{Signature: "second-run-differs-from-fresh-run:" + strings.Fields(real)[0] + "/" + strings.Fields(got + " ?")[0], Stream: "rerun",
			Input: ri, Observed: clip(got, 1500) + "   [first run, inputs " + strings.Join(desc, " ") + ": " + clip(firstOut, 200) + "]", Expected: clip(real, 1500),
			Oracle: "a fresh Script with the same inputs (the program assigns every variable before reading it, so an earlier run of the same Compiled cannot matter)"})
	}
}

// replayRerun re-runs a recorded `rerun` case.
func replayRerun(ri replayInput) {
	var first, second []inputVar
	for i, n := range ri.Names {
		if i >= len(ri.First) || i >= len(ri.Second) || ri.First[i] >= len(inputPool) || ri.Second[i] >= len(inputPool) {
			return
		}
		first = append(first, inputVar{Name: n, Ty: inputPool[ri.First[i]].ty, mk: inputPool[ri.First[i]].mk, Pool: ri.First[i]})
		second = append(second, inputVar{Name: n, Ty: inputPool[ri.Second[i]].ty, mk: inputPool[ri.Second[i]].mk, Pool: ri.Second[i]})
	}
	real, _ := realOutcome(ri.Source, second)
	rerunCompare(ri, first, second, real)
}

// rerunCorpus: closed forms of the `rerun` stream (pool indexes: 9 = [1,2,3], 16 = [[1,2],{x:1.5},"s"], 0 = 42, 5 = "host héllo").
var rerunCorpus = []replayInput{
	{Source: "total := 0\nfor x in items { total += x }\n", Names: []string{"items"}, First: []int{16}, Second: []int{9}},
	{Source: "f := func(a) { return a * 2 }\nout := f(n)\n", Names: []string{"n"}, First: []int{5}, Second: []int{0}},
	{Source: "out := 10 / d\nlast := out + 1\n", Names: []string{"d"}, First: []int{5}, Second: []int{0}},
	{Source: "m := {a: 1}\nm.b = v[0]\nout := m.b\n", Names: []string{"v"}, First: []int{0}, Second: []int{9}},
}

// inputVar is a host-provided variable: mk builds a FRESH tengo object each time (runs mutate them).
type inputVar struct {
	Name string
	Ty   lib.Ty
	mk   func() tengo.Object
	Pool int // index in inputPool
}

func ints(vs ...int64) []tengo.Object {
	out := make([]tengo.Object, len(vs))
	for i, v := range vs {
		out[i] = &tengo.Int{Value: v}
	}
	return out
}

// inputPool: host values of every runtime type the reference interpreter models.
var inputPool = []struct {
	ty lib.Ty
	mk func() tengo.Object
}{
	{lib.TInt, func() tengo.Object { return &tengo.Int{Value: 42} }},
	{lib.TInt, func() tengo.Object { return &tengo.Int{Value: -9223372036854775808} }},
	{lib.TFloat, func() tengo.Object { return &tengo.Float{Value: 2.5} }},
	{lib.TFloat, func() tengo.Object { return &tengo.Float{Value: -0.0} }},
	{lib.TBool, func() tengo.Object { return tengo.TrueValue }},
	{lib.TString, func() tengo.Object { return &tengo.String{Value: "host héllo"} }},
	{lib.TString, func() tengo.Object { return &tengo.String{Value: ""} }},
	{lib.TChar, func() tengo.Object { return &tengo.Char{Value: 'ß'} }},
	{lib.TBytes, func() tengo.Object { return &tengo.Bytes{Value: []byte{0, 1, 254, 255}} }},
	{lib.TArr, func() tengo.Object { return &tengo.Array{Value: ints(1, 2, 3)} }},
	{lib.TArr, func() tengo.Object { return &tengo.ImmutableArray{Value: ints(7, 8)} }},
	{lib.TArr, func() tengo.Object { return &tengo.Array{} }},
	{lib.TMap, func() tengo.Object {
		return &tengo.Map{Value: map[string]tengo.Object{"a": &tengo.Int{Value: 1}, "k": &tengo.Int{Value: 5}}}
	}},
	{lib.TMap, func() tengo.Object {
		return &tengo.ImmutableMap{Value: map[string]tengo.Object{"n": &tengo.Int{Value: 9}}}
	}},
	{lib.TAny, func() tengo.Object { return tengo.UndefinedValue }},
	{lib.TAny, func() tengo.Object { return &tengo.Error{Value: &tengo.String{Value: "boom"}} }},
	{lib.TAny, func() tengo.Object {
		return &tengo.Array{Value: []tengo.Object{&tengo.Array{Value: ints(1, 2)}, &tengo.Map{Value: map[string]tengo.Object{"x": &tengo.Float{Value: 1.5}}}, &tengo.String{Value: "s"}}}
	}},
}

var rerunRNG = lib.NewRNG(20240923)

func checkProgram(src string, feats map[string]int, inputs ...inputVar) {
	src0 := src
	f, _, err := lib.ParseSource("(main)", []byte(src))
	if err != nil {
		res.Count("spec", src, false)
		res.Dist("parse-error")
		return
	}
	checkComp(src, inputs)
	real, _ := realOutcome(src, inputs)
	if feats["forin-map"] > 0 || strings.Contains(src, " in ") {
		// Go map iteration order is random: a program whose outcome depends on it is outside the property
		for k := 0; k < 3; k++ {
			if again, _ := realOutcome(src, inputs); again != real {
				res.Skipped++
				res.Dist("skip:map-order-dependent")
				return
			}
		}
	}
	if drv == nil {
		res.Count("spec", src, false)
		return
	}
	ast := lib.ASTDumper{}.File(f)
	ins := make([]string, len(inputs))
	for i, in := range inputs {
		ins[i] = "(" + lib.HexS(in.Name) + " " + lib.Canon(in.mk()) + ")"
	}
	if len(inputs) > 0 {
		res.Dist("programs-with-host-inputs")
		src = "// inputs: " + strings.Join(ins, " ") + "\n" + src
	}
	ans, err := drv.Ask(lib.L("spec", "200000", "("+strings.Join(ins, " ")+")", ast))
	if err != nil {
		fatal(err)
	}
	res.ModelLines++
	cls := strings.Fields(ans)[0]
	res.Dist("model:" + cls)
	switch cls {
	case "unsupported", "excluded", "fuel", "model-timeout":
		if cls == "model-timeout" && os.Getenv("C01_DEBUG") != "" {
			fmt.Fprintln(os.Stderr, "MODEL TIMEOUT on:\n"+src)
		}
		res.Skipped++
		res.Dist("skip:" + clip(ans, 60))
		return
	case "bad-op":
		res.Disagree(lib.Disagreement{Stream: "spec", Input: replayInput{Source: src}, Model: ans, Impl: real})
		return
	}
	if real == "timeout" {
		res.Skipped++
		return
	}
	checkVM(src, inputs)
	nontrivial := len(feats) >= 5
	res.Count("spec", src, nontrivial)
	res.Sample(map[string]interface{}{"source": src, "outcome": clip(real, 160)}, 3)
	checkRerun(rerunRNG, src0, inputs, real)
	if normalize(ans) != normalize(real) {
		// the reference semantics is the oracle of C01
		res.Violate(lib.Violation{Signature: "differs-from-reference-semantics:" + strings.Fields(real)[0] + "/" + cls, Stream: "spec",
			Input: replayInput{Source: src}, Observed: clip(real, 1500), Expected: clip(ans, 1500),
			Oracle: "Lean reference interpreter Tengo.Model.Spec (docs/tutorial.md, operators.md, runtime-types.md, builtins.md)"})
	}
}

// checkComp: the real compiler against the Lean model of the whole compiler on src (stream `comp`).
func checkComp(src string, inputs []inputVar) {
	names := make([]string, len(inputs))
	for i, in := range inputs {
		names[i] = in.Name
	}
	shown := src
	if len(names) > 0 {
		shown = compInputsPrefix + strings.Join(names, ",") + "\n" + src
	}
	if err := lib.CompStream(res, drv, src, names, replayInput{Source: shown}); err != nil {
		fatal(err)
	}
}

const compInputsPrefix = "// comp-inputs: "

// checkVM: the real VM against the Lean VM model (Tengo.Model.VM) on the code the real compiler emits for
// src: every dispatched instruction (function, ip, sp, bp, frame index, allocation counter), the outcome,
// the error text and every global slot; a second run under a small allocation budget.
func checkVM(src string, inputs []inputVar) {
	names := make([]string, len(inputs))
	for i, in := range inputs {
		names[i] = in.Name
	}
	c, err := lib.CompileSource([]byte(src), lib.CompileOpts{Inputs: names})
	if err != nil || c.BC == nil {
		res.Dist("vm:compile-error")
		return
	}
	mk := func() map[string]tengo.Object {
		m := map[string]tengo.Object{}
		for _, in := range inputs {
			m[in.Name] = in.mk()
		}
		return m
	}
	budgets := []int64{-1}
	h := 0
	for _, ch := range src {
		h = h*31 + int(ch)
	}
	if h < 0 {
		h = -h
	}
	if h%3 == 0 {
		budgets = append(budgets, int64(1+h%40))
	}
	if err := lib.VMStream(res, drv, c, src, mk, budgets, func(int64) interface{} { return replayInput{Source: src} }); err != nil {
		fatal(err)
	}
}

// firstDiff shows a around the first token where a and b differ.
func firstDiff(a, b string) string {
	af, bf := strings.Fields(a), strings.Fields(b)
	i := 0
	for i < len(af) && i < len(bf) && af[i] == bf[i] {
		i++
	}
	lo := i - 6
	if lo < 0 {
		lo = 0
	}
	hi := i + 12
	if hi > len(af) {
		hi = len(af)
	}
	head := ""
	if len(af) > 0 {
		head = af[0]
	}
	return fmt.Sprintf("%s … [token %d] %s", head, i, strings.Join(af[lo:hi], " "))
}

// normalize makes array and immutable-array of function values etc. comparable.
func normalize(s string) string { return s }

func clip(s string, n int) string {
	if len(s) > n {
		return s[:n] + "…"
	}
	return s
}

func profile(r *lib.RNG) lib.Profile {
	p := lib.DefaultProfile()
	p.MaxStmts = 8 + r.Intn(14)
	p.MaxDepth = 3 + r.Intn(2)
	p.Chaos = 20
	p.FormatPure = true // format() is decided by the formatter model of C17 inside the reference interpreter
	return p
}

// ---- fragment F0: the compiler model proved correct in Tengo.Props.C01 ----

func f0Expr(r *lib.RNG, vars []string, d int) string {
	if d <= 0 || r.Chance(1, 4) {
		if len(vars) > 0 && r.Chance(2, 3) {
			return lib.Pick(r, vars)
		}
		return lib.Pick(r, []string{"0", "1", "2", "7", "-3", "true", "false", "undefined", "1.5", "'a'", "9223372036854775807"})
	}
	switch r.Intn(9) {
	case 0, 1, 2:
		op := lib.Pick(r, []string{"+", "-", "*", "/", "%", "&", "|", "^", "&^", "<<", ">>", "<", "<=", ">", ">=", "==", "!="})
		return "(" + f0Expr(r, vars, d-1) + " " + op + " " + f0Expr(r, vars, d-1) + ")"
	case 3:
		return "(" + lib.Pick(r, []string{"-", "!", "^", "+"}) + "(" + f0Expr(r, vars, d-1) + "))"
	case 4, 5:
		return "(" + f0Expr(r, vars, d-1) + lib.Pick(r, []string{" && ", " || "}) + f0Expr(r, vars, d-1) + ")"
	case 6, 7:
		return "(" + f0Expr(r, vars, d-1) + " ? " + f0Expr(r, vars, d-1) + " : " + f0Expr(r, vars, d-1) + ")"
	}
	return f0Expr(r, vars, d-1)
}

func f0Stmts(r *lib.RNG, vars *[]string, n, depth int, ind string, sb *strings.Builder, next *int) {
	for i := 0; i < n; i++ {
		switch k := r.Intn(8); {
		case k == 7 && depth > 0:
			// loops without break/continue (fragment F1): bounded by a fresh counter
			saved := len(*vars)
			*next++
			cnt := fmt.Sprintf("g%d", *next)
			bound := lib.Pick(r, []string{"0", "1", "2", "3"})
			switch r.Intn(3) {
			case 0:
				fmt.Fprintf(sb, "%sfor %s := 0; %s < %s; %s++ {\n", ind, cnt, cnt, bound, cnt)
				f0Stmts(r, vars, r.Intn(3), depth-1, ind+"\t", sb, next)
			case 1:
				// the counter is not handed to the body: the loop is bounded by construction
				fmt.Fprintf(sb, "%s%s := %s\n%sfor %s > 0 {\n%s\t%s--\n", ind, cnt, bound, ind, cnt, ind, cnt)
				f0Stmts(r, vars, r.Intn(3), depth-1, ind+"\t", sb, next)
			default:
				fmt.Fprintf(sb, "%sfor %s := %s; %s; %s -= 1 {\n", ind, cnt, bound, cnt, cnt)
				f0Stmts(r, vars, r.Intn(2), depth-1, ind+"\t", sb, next)
			}
			fmt.Fprintf(sb, "%s}\n", ind)
			*vars = (*vars)[:saved]
		case k <= 1 || len(*vars) == 0:
			*next++
			name := fmt.Sprintf("g%d", *next)
			fmt.Fprintf(sb, "%s%s := %s\n", ind, name, f0Expr(r, *vars, 3))
			*vars = append(*vars, name)
		case k == 2:
			fmt.Fprintf(sb, "%s%s = %s\n", ind, lib.Pick(r, *vars), f0Expr(r, *vars, 3))
		case k == 3:
			if r.Bool() {
				fmt.Fprintf(sb, "%s%s %s %s\n", ind, lib.Pick(r, *vars), lib.Pick(r, []string{"+=", "-=", "*=", "|=", "<<="}), f0Expr(r, *vars, 2))
			} else {
				fmt.Fprintf(sb, "%s%s%s\n", ind, lib.Pick(r, *vars), lib.Pick(r, []string{"++", "--"}))
			}
		case k == 4:
			fmt.Fprintf(sb, "%s%s\n", ind, f0Expr(r, *vars, 3))
		default:
			if depth <= 0 {
				continue
			}
			saved := len(*vars)
			hdr := "if "
			if r.Chance(1, 5) {
				*next++
				name := fmt.Sprintf("g%d", *next)
				hdr += name + " := " + f0Expr(r, *vars, 2) + "; "
				*vars = append(*vars, name)
			}
			fmt.Fprintf(sb, "%s%s%s {\n", ind, hdr, f0Expr(r, *vars, 2))
			inner := len(*vars)
			f0Stmts(r, vars, r.Intn(3), depth-1, ind+"\t", sb, next)
			*vars = (*vars)[:inner]
			for r.Chance(1, 4) {
				fmt.Fprintf(sb, "%s} else if %s {\n", ind, f0Expr(r, *vars, 2))
				f0Stmts(r, vars, r.Intn(3), depth-1, ind+"\t", sb, next)
				*vars = (*vars)[:inner]
			}
			if r.Bool() {
				fmt.Fprintf(sb, "%s} else {\n", ind)
				f0Stmts(r, vars, r.Intn(3), depth-1, ind+"\t", sb, next)
			}
			fmt.Fprintf(sb, "%s}\n", ind)
			*vars = (*vars)[:saved]
		}
	}
}

// checkF0 compares the compiler model of fragment F0 with the real compiler (byte for byte), and the
// F0 machine with the real VM (dispatch count, final globals by index).
func checkF0(src string) {
	if drv == nil {
		return
	}
	if _, _, perr := lib.ParseSource("(main)", []byte(src)); perr != nil {
		res.Dist("f0-parse-error")
		return
	}
	c, err := lib.CompileSource([]byte(src), lib.CompileOpts{})
	ast := lib.ASTDumper{}.File(c2file(src))
	ans, aerr := drv.Ask(lib.L("f0", ast))
	if aerr != nil {
		fatal(aerr)
	}
	res.ModelLines++
	if err != nil {
		// a compile error (e.g. redeclaration) is outside the fragment: the model must say so
		res.Count("f0", src, false)
		if ans != "unsupported" {
			res.Disagree(lib.Disagreement{Stream: "f0", Input: replayInput{Source: src}, Model: clip(ans, 300), Impl: "compile error: " + err.Error()})
		}
		return
	}
	if ans == "unsupported" {
		res.Skipped++
		res.Dist("f0-unsupported")
		return
	}
	steps := 0
	out := lib.RunBytecode(c, lib.RunOpts{Probe: func(v *tengo.VM, fn *tengo.CompiledFunction, ip, sp, bp, fi int, a int64) { steps++ }})
	impl := "ok " + lib.Hex(c.BC.MainFunction.Instructions) + " " + lib.N(len(c.BC.Constants)) + " " + lib.N(steps)
	if out.Err != "" || out.Panic != "" {
		impl += " err"
	} else {
		impl += " done"
		for _, v := range out.Slots {
			if v == "nil" {
				v = "u" // a slot of a branch not taken: the model's globals start as undefined
			}
			impl += " " + v
		}
	}
	// the model prints every global index it allocated; trailing never-written slots read `u`
	got := strings.TrimRight(strings.TrimSuffix(ans, " "), " ")
	for strings.HasSuffix(got, " u") && len(got) > len(impl) {
		got = strings.TrimSuffix(got, " u")
	}
	res.Count("f0", src, len(c.BC.MainFunction.Instructions) > 20)
	if got != impl {
		res.Disagree(lib.Disagreement{Stream: "f0", Input: replayInput{Source: src}, Model: clip(ans, 600), Impl: clip(impl, 600)})
	}
}

func c2file(src string) *parser.File {
	f, _, err := lib.ParseSource("(main)", []byte(src))
	if err != nil {
		return &parser.File{}
	}
	return f
}

func main() {
	f := lib.ParseFlags()
	res = lib.NewResult("C01", f)
	var err error
	drv, err = lib.StartDriver(f.Driver)
	if err != nil {
		fatal(err)
	}
	if drv != nil {
		drv.Timeout = 5 * time.Second
	}
	defer drv.Close()
	res.DriverUsed = drv != nil
	res.Rule = "programs from the type-directed generator over the statement/expression grammar (closures × loops × selectors × coercions × builtins, ill-typed operands with small probability); compared: outcome class, error message, every global; " +
		"programs outside the modelled language or inside the property's exclusions (map order, hidden append capacity) are skipped and counted; non-trivial = at least 5 distinct generator features; distinct by source hash"
	if f.Replay != "" {
		replay(f.Replay)
		res.Write(f.Out)
		return
	}
	lib.RunProbes(res, "C01", f.Known)
	for _, src := range corpus {
		checkProgram(src, map[string]int{"a": 1, "b": 1, "c": 1, "d": 1, "e": 1})
	}
	compCases := lib.CompBoundaryPrograms()
	if f.Thorough() {
		compCases = append(compCases, lib.CompLargePrograms()...)
	}
	for _, bc := range compCases {
		ins := make([]inputVar, len(bc.Inputs))
		for i, n := range bc.Inputs {
			ins[i] = inputVar{Name: n}
		}
		checkComp(bc.Src, ins)
	}
	rerunRNG = lib.NewRNG(f.Seed + 7777)
	for _, ri := range rerunCorpus {
		replayRerun(ri)
	}
	rng := lib.NewRNG(f.Seed)
	n := f.Scale(1500, 60000)
	for i := 0; i < n; i++ {
		r := rng.Fork()
		g := lib.NewGen(r, profile(r))
		var inputs []inputVar
		if r.Chance(1, 3) {
			for k := 1 + r.Intn(3); k > 0; k-- {
				pi := r.Intn(len(inputPool))
				c := inputPool[pi]
				in := inputVar{Name: fmt.Sprintf("in%d", k), Ty: c.ty, mk: c.mk, Pool: pi}
				inputs = append(inputs, in)
				g.DeclareInput(in.Name, in.Ty)
			}
		}
		src := g.Program()
		checkProgram(src, g.Feat, inputs...)
		// `comp` only: a textual mutant of the program (compile error paths, other scoping situations)
		if m := lib.CompMutate(r, src); m != src && (!f.Thorough() || i%2 == 0) {
			res.Dist("comp-mutants")
			checkComp(m, inputs)
		}
		if i%40 == 0 {
			for k, v := range g.Feat {
				res.Distribution["feat:"+k] += v
			}
		}
	}
	// fragment F0: byte-identical compile + lock-step run against the proved model
	nf := f.Scale(1500, 40000)
	for i := 0; i < nf; i++ {
		r := rng.Fork()
		var sb strings.Builder
		var vars []string
		next := 0
		f0Stmts(r, &vars, 2+r.Intn(8), 3, "", &sb, &next)
		checkF0(sb.String())
	}
	res.Write(f.Out)
}

func replay(path string) {
	b, err := os.ReadFile(path)
	if err != nil {
		fatal(err)
	}
	var rp struct {
		Violations []struct {
			Input replayInput `json:"input"`
		} `json:"violations"`
		Obligations []struct {
			Detail string `json:"detail"`
		} `json:"theorem_or_stream"`
	}
	if err := json.Unmarshal(b, &rp); err != nil {
		fatal(err)
	}
	// a broken-correspondence replay carries its inputs inside the recorded disagreements
	for _, o := range rp.Obligations {
		var d struct {
			Input replayInput `json:"input"`
		}
		if json.Unmarshal([]byte(o.Detail), &d) == nil && d.Input.Source != "" {
			rp.Violations = append(rp.Violations, struct {
				Input replayInput `json:"input"`
			}{d.Input})
		}
	}
	for _, v := range rp.Violations {
		if strings.HasPrefix(v.Input.Source, compInputsPrefix) {
			// a recorded `comp` case with host inputs: only the names matter to the compiler
			if i := strings.Index(v.Input.Source, "\n"); i >= 0 {
				names := strings.Split(strings.TrimPrefix(v.Input.Source[:i], compInputsPrefix), ",")
				if err := lib.CompStream(res, drv, v.Input.Source[i+1:], names, replayInput{Source: v.Input.Source}); err != nil {
					fatal(err)
				}
			}
			continue
		}
		if len(v.Input.Names) > 0 {
			replayRerun(v.Input)
			continue
		}
		if v.Input.Source != "" {
			checkProgram(v.Input.Source, map[string]int{"a": 1, "b": 1, "c": 1, "d": 1, "e": 1})
		}
	}
}

var corpus = []string{
	"a := [1, 2, 3]\nb := a + [4]\nc := a + [5]\n",
	"f := func(n) { if n == 0 { return 5 }; f(n-1) }\nout := f(3)\n",
	"x := 0\nfor i := 0; i < 3; i++ { x += i }\n",
}

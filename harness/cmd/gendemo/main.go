package main

import (
	"context"
	"fmt"
	"os"
	"strconv"
	"time"

	"github.com/d5/tengo/v2"
	"verifharness/lib"
)

func main() {
	if len(os.Args) > 1 && os.Args[1] == "probes" {
		runProbes()
		return
	}
	seed, _ := strconv.Atoi(os.Args[1])
	n, _ := strconv.Atoi(os.Args[2])
	r := lib.NewRNG(uint64(seed))
	okc, cerr, rerr := 0, 0, 0
	kinds := map[string]int{}
	for i := 0; i < n; i++ {
		g := lib.NewGen(r.Fork(), lib.DefaultProfile())
		src := g.Program()
		if n == 1 {
			fmt.Println(src)
		}
		s := tengo.NewScript([]byte(src))
		c, err := s.Compile()
		if err != nil {
			cerr++
			if cerr < 4 {
				fmt.Println("COMPILE ERR", err, "\n", src)
			}
			continue
		}
		ctx, cancel := context.WithTimeout(context.Background(), 2*time.Second)
		err = c.RunContext(ctx)
		cancel()
		if err != nil {
			rerr++
			m := err.Error()
			if len(m) > 60 {
				m = m[:60]
			}
			kinds[m]++
			continue
		}
		okc++
	}
	fmt.Println("ok", okc, "compile-err", cerr, "run-err", rerr)
	for k, v := range kinds {
		fmt.Println(v, k)
	}
}

package main

import (
	"fmt"

	"verifharness/lib"
)

func runProbes() {
	for _, p := range lib.Probes {
		f, o := p.Run()
		fmt.Printf("%-4s fails=%v %s\n", p.ID, f, o)
	}
}

package main

import (
	"fmt"

	"github.com/d5/tengo/v2"
)

func main() {
	src := "rec := func(n) {\n  return 1 + rec(n + 1)\n}\nr := rec(0)\n"
	s := tengo.NewScript([]byte(src))
	cp, err := s.Compile()
	if err != nil {
		panic(err)
	}
	defer func() {
		if p := recover(); p != nil {
			fmt.Println("PANIC:", p)
		}
	}()
	err = cp.Run()
	fmt.Println(len(err.Error()), err.Error()[:200])
}

// Command c20: correspondence and searchers for C20 (parsing reflects the documented grammar and its
// own printed form).
//
// Correspondence streams (model vs real code, `Disagree`)
//
//	scan     token kind, literal, offset and scanner errors of parser.Scanner vs Model.Scanner
//	parse    AST S-expression (no positions) of parser.ParseFile vs Model.Parser, `error` alike
//	print    File.String() vs Model.Printer
//	litmodel strconv.ParseInt/ParseFloat(acceptance)/UnquoteChar/Unquote vs Model.Literal
//
// Searchers (real code vs an oracle that does not involve the model, `Violate`)
//
//	grouping (i)   reference precedence-climbing printer/parser written from docs/tutorial.md decides the
//	               grouping of minimally parenthesised sources
//	literal  (ii)  accept/reject vs go/scanner, values vs go/constant and strconv
//	reprint  (iii) File.String() re-parses; both compile to identical instructions and constants
//	semiset  (iv)  insert-semicolon set measured on the real scanner vs the documented set; layouts:
//	               a separator between two tokens changes the token stream only by the documented ";"
package main

import (
	"encoding/json"
	"fmt"
	"os"
	"sort"
	"strings"

	"verifharness/lib"
)

type replayInput struct {
	Stream string `json:"stream"`
	Source string `json:"source"` // source text; hex when not valid UTF-8 (prefix "hex:")
}

var (
	res      *lib.Result
	drv      *lib.Driver
	thorough bool
	flags    *lib.Flags
)

func fatal(err error) {
	fmt.Fprintln(os.Stderr, "c20:", err)
	os.Exit(3)
}

func inp(stream, src string) replayInput {
	return replayInput{Stream: stream, Source: encSrc(src)}
}

func main() {
	flags = lib.ParseFlags()
	res = lib.NewResult("C20", flags)
	thorough = flags.Thorough()
	var err error
	drv, err = lib.StartDriver(flags.Driver)
	if err != nil {
		fatal(err)
	}
	defer drv.Close()
	res.DriverUsed = drv != nil
	res.Rule = "valid sources: all expression trees with up to 3 operator nodes over the 19 binary, 4 unary and the ternary operator printed with minimal parentheses, random deeper trees, statement templates with every separator in every gap, literal spellings from a grammar of Go literals plus near-misses, generated programs; " +
		"non-trivial: grouping = at least two operators; layout = separator contains a newline or comment; literal = any; reprint/parse = program parses. distinct by source text"

	if flags.Replay != "" {
		replay(flags.Replay)
		flush()
		res.Write(flags.Out)
		return
	}
	rng := lib.NewRNG(flags.Seed)

	semiSetMeasured()
	groupingExhaustive(rng.Fork())
	groupingRandom(rng.Fork(), flags.Scale(15000, 500000))
	layouts(rng.Fork())
	literals(rng.Fork(), flags.Scale(20000, 400000))
	programs(rng.Fork(), flags.Scale(3000, 40000))
	rawBytes(rng.Fork(), flags.Scale(6000, 200000))
	for _, c := range corpus {
		checkSource("corpus", c, true)
	}
	runFindingProbes()
	lib.RunProbes(res, "C20", flags.Known)
	flush()
	res.ModelLines = 0
	if drv != nil {
		res.ModelLines = drv.N
	}
	res.Write(flags.Out)
}

// minimised past cases and boundary programs
var corpus = []string{
	"a := 1 + 2*3; f(x...)\n",
	"for i := 0; i < 3; i++ { a[i] = -b.c ? 1 : [2] }\n",
	"if a := 1; a { b } else if c { d } else { e }\n",
	"for k, v in m { break }\nfor v in m { continue }\nfor { }\nfor a { }\nfor ; ; { }\n",
	"f := func(a, ...b) { return a }\nexport {a: 1, \"b\": [1, 2,\n]}\n",
	"x := a ? b : c ? d : e\ny := (a ? b : c) ? d : e\n",
	"x := `raw\r\nstring`; y := '\\u00e9'; z := \"\\x41\\101\\n\"\n",
	"a = b /* c */ + // d\n c\n",
	"x := import(\"m\"); e := error(1); i := immutable([1])\n",
	"a.b.c[1][2:3](4)(5...)\n",
	"x := 0x1F + 0b1_0 + 0o17 + 017 + 1_000 + 0x1p-2 + .5 + 5. + 1e3\n",
	"\xef\xbb\xbfa := 1\n",
	"a++\nb--\nc += 1; d &^= 2; e <<= 3\n",
	"return\n",
	"é := 1; x := é + 1\n",
}

func replay(path string) {
	b, err := os.ReadFile(path)
	if err != nil {
		fatal(err)
	}
	var rp struct {
		Violations []struct {
			Input replayInput `json:"input"`
		} `json:"violations"`
		Obligations []struct {
			Detail string `json:"detail"`
		} `json:"theorem_or_stream"`
	}
	if err := json.Unmarshal(b, &rp); err != nil {
		fatal(err)
	}
	var ins []replayInput
	for _, v := range rp.Violations {
		ins = append(ins, v.Input)
	}
	for _, o := range rp.Obligations {
		var d lib.Disagreement
		if json.Unmarshal([]byte(o.Detail), &d) == nil {
			if m, ok := d.Input.(map[string]interface{}); ok {
				s, _ := m["source"].(string)
				st, _ := m["stream"].(string)
				ins = append(ins, replayInput{Stream: st, Source: s})
			}
		}
	}
	for _, in := range ins {
		src := decSrc(in.Source)
		switch in.Stream {
		case "grouping":
			checkGroupingSource(src)
		case "literal":
			checkLiteral(strings.TrimPrefix(src, "x := "))
		case "semiset":
			semiSetMeasured()
		case "layout":
			// the variant alone: scan/parse correspondence; the oracle needs the base, re-run all templates
			layouts(lib.NewRNG(flags.Seed))
		default:
			checkSource(in.Stream, src, true)
		}
	}
}

func keys(m map[string]bool) []string {
	var out []string
	for k := range m {
		out = append(out, k)
	}
	sort.Strings(out)
	return out
}

package main

import (
	"fmt"
	"strings"

	"github.com/d5/tengo/v2/token"
	"verifharness/lib"
)

// The documented insert-semicolon set (Go's rule with Tengo's keywords): a line end after one of these
// tokens ends the statement.
var docSemi = map[token.Token]bool{
	token.Ident: true, token.Int: true, token.Float: true, token.Char: true, token.String: true,
	token.Break: true, token.Continue: true, token.Return: true, token.Export: true,
	token.True: true, token.False: true, token.Undefined: true,
	token.Inc: true, token.Dec: true, token.RParen: true, token.RBrack: true, token.RBrace: true,
}

func spelling(t token.Token) []string {
	switch t {
	case token.Ident:
		return []string{"a", "_x1", "é"}
	case token.Int:
		return []string{"1", "0x1F", "0b1_0"}
	case token.Float:
		return []string{"1.5", ".5", "1e3", "0x1p-2"}
	case token.Char:
		return []string{"'a'", "'\\n'"}
	case token.String:
		return []string{"\"s\"", "`r`", "\"\""}
	}
	return []string{t.String()}
}

type kl struct {
	Tok token.Token
	Lit string
}

func kinds(ts []tokRec) []kl {
	out := make([]kl, len(ts))
	for i, t := range ts {
		out[i] = kl{t.Tok, t.Lit}
	}
	return out
}

func klString(ks []kl) string {
	var sb strings.Builder
	for _, k := range ks {
		fmt.Fprintf(&sb, "%s%q ", lib.TokName[k.Tok], k.Lit)
	}
	return sb.String()
}

// (iv) the set measured on the real scanner, for every token kind and every way a line can end.
func semiSetMeasured() {
	ends := []struct {
		name, tail string
		breaks     bool
	}{
		{"newline", "\nx", true},
		{"eof", "", true},
		{"blank-eof", "  ", true},
		{"crlf", "\r\nx", true},
		{"line-comment", " // c\nx", true},
		{"line-comment-eof", " // c", true},
		{"general-comment-then-newline", " /* c */\nx", true},
		{"general-comment-multi-line", " /* c\n */ x", true},
		{"general-comment-eof", " /* c */", true},
		{"two-comments", " /* c */ /* d */ // e\nx", true},
		{"general-comment-same-line", " /* c */ x", false},
		// comment texts that look like comment delimiters (the line-end look-ahead must find the real terminator)
		{"general-comment-slash-after-open-multi-line", " /*/ c\n*/ x", true},
		{"general-comment-slash-after-open-newline-first", " /*/\n*/ x", true},
		{"general-comment-slash-after-open-same-line", " /*/ c */ x", false},
		{"general-comment-stars-multi-line", " /***\n***/ x", true},
		{"general-comment-empty-same-line", " /**/ x", false},
		{"general-comment-star-space-slash-multi-line", " /* a * / b\n*/ x", true},
		{"general-comment-holding-line-comment-same-line", " /* // c */ x", false},
		{"general-comment-holding-line-comment-multi-line", " /* // c\n*/ x", true},
		{"general-comment-holding-open-multi-line", " /* /* c\n*/ x", true},
		{"line-comment-holding-general-comment", " // /* c */ d\nx", true},
		{"line-comment-holding-open", " // /* c\nx", true},
		{"general-comment-crlf", " /* c\r\n*/ x", true},
		{"two-general-comments-second-multi-line", " /* c */ /*/ d\n*/ x", true},
		{"two-general-comments-same-line", " /*/*/ /* d */ x", false},
		{"general-comment-then-line-comment-holding-open", " /* c */ // /* d\nx", true},
		{"space", " x", false},
	}
	var all []token.Token
	for t := range lib.TokName {
		if t != token.Illegal && t != token.EOF && t != token.Comment {
			all = append(all, t)
		}
	}
	measured := map[string]bool{}
	for _, t := range all {
		for _, sp := range spelling(t) {
			for _, e := range ends {
				src := sp + e.tail
				toks, errs, pn := realScan([]byte(src))
				res.Count("semiset", src, true)
				want := e.breaks && docSemi[t]
				got := len(toks) >= 2 && toks[0].Tok == t && toks[1].Tok == token.Semicolon && toks[1].Lit == "\n"
				if pn != "" || len(errs) > 0 || len(toks) == 0 || toks[0].Tok != t {
					res.Violate(lib.Violation{Signature: "token-spelling-not-scanned-as-itself", Stream: "semiset", Input: inp("semiset", src),
						Observed: klString(kinds(toks)) + pn, Expected: lib.TokName[t], Oracle: "token table spelling"})
					continue
				}
				if got {
					measured[lib.TokName[t]] = true
				}
				if got != want {
					res.Violate(lib.Violation{Signature: "insert-semicolon-set-differs", Stream: "semiset", Input: inp("semiset", src),
						Observed: fmt.Sprintf("automatic semicolon after %s at %s: %v", lib.TokName[t], e.name, got),
						Expected: fmt.Sprintf("%v (documented set: identifier, literals, break continue return export true false undefined, ++ -- ) ] })", want),
						Oracle: "documented semicolon rule"})
				}
				checkSource("semiset", src, false)
			}
		}
	}
	if res.Extra == nil {
		res.Extra = map[string]interface{}{}
	}
	res.Extra["measured_insert_semicolon_set"] = keys(measured)
}

var templates = [][]string{
	{"a", ":=", "1"},
	{"a", "=", "b", "+", "c", "*", "2"},
	{"if", "a", "{", "b", "}", "else", "{", "c", "}"},
	{"if", "a", ":=", "1", ";", "a", "<", "2", "{", "b", "}", "else", "if", "c", "{", "d", "}"},
	{"for", "i", ":=", "0", ";", "i", "<", "n", ";", "i", "++", "{", "x", "}"},
	{"for", "k", ",", "v", "in", "m", "{", "x", "}"},
	{"for", "{", "break", "}"},
	{"for", "x", "{", "continue", "}"},
	{"f", "(", "a", ",", "b", ")"},
	{"f", "(", "a", "...", ")"},
	{"x", "=", "[", "1", ",", "2", "]"},
	{"x", "=", "{", "k", ":", "v", ",", "l", ":", "2", "}"},
	{"g", ":=", "func", "(", "a", ",", "...", "b", ")", "{", "return", "a", "}"},
	{"g", ":=", "func", "(", ")", "{", "return", "}"},
	{"a", ".", "b", "[", "c", "]", "(", "d", ")"},
	{"x", "=", "a", "?", "b", ":", "c"},
	{"a", "++"},
	{"a", "+=", "1"},
	{"x", "=", "import", "(", "\"m\"", ")"},
	{"x", "=", "error", "(", "1", ")"},
	{"x", "=", "immutable", "(", "[", "]", ")"},
	{"export", "x"},
	{"x", "=", "a", "[", "1", ":", "2", "]"},
	{"x", "=", "-", "a", "+", "!", "b"},
	{"x", "=", "'c'", "+", "\"s\"", "+", "`r`", "+", "1.5", "+", "true", "+", "undefined"},
	{"a", ";", "b"},
}

var separators = []struct {
	s      string
	breaks bool
}{
	{"\n", true}, {"\t", false}, {"/*c*/", false}, {" /* c */ ", false}, {" //c\n", true}, {"/*\n*/", true},
	{" \r\n ", true}, {" /*c*/ // d\n", true}, {"\n\n", true}, {" /* a */ /* b\n */ ", true},
	{"/*/ c\n*/", true}, {" /*/\n*/ ", true}, {"/*/ c */", false}, {"/**/", false}, {"/***\n**/", true}, {" /* a * / b\n*/ ", true},
	{" /* // c */ ", false}, {" /* // c\n*/ ", true}, {" // /* c */\n", true}, {" /* c */ /*/ d\n*/ ", true}, {" /*/*/ ", false},
}

// layouts: every separator in every gap of every template. Oracle: the token stream equals the one of
// the space-separated spelling, except for one automatic ";" after a token of the documented set when
// the separator ends the line.
func layouts(r *lib.RNG) {
	for _, tpl := range templates {
		base := strings.Join(tpl, " ")
		bt, errs, pn := realScan([]byte(base))
		if pn != "" || len(errs) > 0 {
			panic("harness bug: template does not scan: " + base)
		}
		// strip the end: [; "\n"] EOF
		bk := kinds(bt)
		bk = bk[:len(bk)-1]
		if n := len(bk); n > 0 && bk[n-1].Tok == token.Semicolon && bk[n-1].Lit == "\n" {
			bk = bk[:n-1]
		}
		if len(bk) != len(tpl) {
			panic("harness bug: template token count: " + base)
		}
		checkSource("layout", base+"\n", true)
		for gap := 0; gap < len(tpl); gap++ { // gap == len(tpl)-1: after the last token
			for _, sep := range separators {
				var sb strings.Builder
				for i, t := range tpl {
					sb.WriteString(t)
					if i == gap {
						sb.WriteString(sep.s)
					} else if i < len(tpl)-1 {
						sb.WriteString(" ")
					}
				}
				src := sb.String()
				var want []kl
				for i, k := range bk {
					want = append(want, k)
					if i == gap && sep.breaks && docSemi[k.Tok] && i < len(bk)-1 {
						want = append(want, kl{token.Semicolon, "\n"})
					}
				}
				if docSemi[bk[len(bk)-1].Tok] {
					want = append(want, kl{token.Semicolon, "\n"})
				}
				want = append(want, kl{token.EOF, ""})
				toks, errs2, pn2 := realScan([]byte(src))
				res.Count("layout", src, true)
				got := kinds(toks)
				if pn2 != "" || len(errs2) > 0 || klString(got) != klString(want) {
					res.Violate(lib.Violation{Signature: "layout-changes-token-stream", Stream: "layout", Input: inp("layout", src),
						Observed: clip(klString(got)+pn2+fmt.Sprint(errs2), 500), Expected: clip(klString(want), 500),
						Oracle: "white space and comments separate tokens; a line end inserts ';' only after the documented token set"})
				}
				checkSource("layout", src, r.Intn(6) == 0)
			}
		}
	}
}

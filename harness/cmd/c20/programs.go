package main

import (
	"strings"

	"verifharness/lib"
)

// programs: sources of the shared type-directed generator plus a syntax-directed generator that
// reaches every statement and expression form of the grammar (ill-typed, never run).
func programs(r *lib.RNG, n int) {
	for i := 0; i < n; i++ {
		rr := r.Fork()
		if i%2 == 0 {
			p := lib.DefaultProfile()
			p.MaxStmts = 4 + rr.Intn(10)
			g := lib.NewGen(rr, p)
			checkSource("program", g.Program(), true)
		} else {
			checkSource("syntax", synProgram(rr), true)
		}
	}
}

type syn struct {
	r     *lib.RNG
	depth int
}

func synProgram(r *lib.RNG) string {
	s := &syn{r: r}
	var sb strings.Builder
	for i, n := 0, 1+r.Intn(6); i < n; i++ {
		sb.WriteString(s.stmt(2))
		sb.WriteString(lib.Pick(r, []string{"\n", "\n", "; ", " // c\n", " /* c */\n", "\n\n"}))
	}
	return sb.String()
}

var synIdents = []string{"a", "b", "c", "x", "y", "foo", "_", "x1"}

func (s *syn) ident() string { return lib.Pick(s.r, synIdents) }

func (s *syn) operand(d int) string {
	r := s.r
	if d <= 0 {
		return lib.Pick(r, []string{"a", "b", "1", "2.5", "\"s\"", "'c'", "true", "false", "undefined", "x"})
	}
	switch r.Intn(14) {
	case 0:
		return "(" + s.expr(d-1) + ")"
	case 1:
		n := r.Intn(4)
		var es []string
		for i := 0; i < n; i++ {
			es = append(es, s.expr(d-1))
		}
		return "[" + strings.Join(es, ", ") + lib.Pick(r, []string{"", "", "\n"}) + "]"
	case 2:
		n := r.Intn(3)
		var es []string
		for i := 0; i < n; i++ {
			es = append(es, s.ident()+": "+s.expr(d-1))
		}
		return "{" + strings.Join(es, ", ") + "}"
	case 3:
		var ps []string
		for i, n := 0, r.Intn(3); i < n; i++ {
			ps = append(ps, s.ident())
		}
		if len(ps) > 0 && r.Intn(3) == 0 {
			ps[len(ps)-1] = "..." + ps[len(ps)-1]
		}
		return "func(" + strings.Join(ps, ", ") + ") " + s.block(d-1)
	case 4:
		return "error(" + s.expr(d-1) + ")"
	case 5:
		return "immutable(" + s.expr(d-1) + ")"
	case 6:
		return "import(\"" + lib.Pick(r, []string{"math", "m", "text"}) + "\")"
	}
	return lib.Pick(r, []string{"a", "b", "1", "0x1F", "2.5", "1e3", "\"s\\n\"", "`r`", "'c'", "true", "undefined", "x", "y"})
}

func (s *syn) primary(d int) string {
	r := s.r
	x := s.operand(d)
	for i, n := 0, r.Intn(3); i < n && d > 0; i++ {
		switch r.Intn(5) {
		case 0:
			if x[len(x)-1] >= '0' && x[len(x)-1] <= '9' || x[len(x)-1] == '.' {
				// `1.a` reads as a float prefix: a selector on a number needs a space before the period.
				// (`1 .a` was printer finding C20-1, repaired by b2c2f52: it prints as `(1).a` now.)
				x += " ." + s.ident()
				continue
			}
			x += "." + s.ident()
		case 1:
			x += "[" + s.expr(d-1) + "]"
		case 2:
			x += "[" + lib.Pick(r, []string{"", s.expr(d - 1)}) + ":" + lib.Pick(r, []string{"", s.expr(d - 1)}) + "]"
		case 3:
			var as []string
			for j, m := 0, r.Intn(3); j < m; j++ {
				as = append(as, s.expr(d-1))
			}
			ell := ""
			if len(as) > 0 && r.Intn(4) == 0 {
				ell = "..."
			}
			x += "(" + strings.Join(as, ", ") + ell + ")"
		}
	}
	return x
}

func (s *syn) expr(d int) string {
	r := s.r
	if d <= 0 {
		return s.primary(0)
	}
	switch r.Intn(8) {
	case 0:
		op := lib.Pick(r, unOps)
		in := s.expr(d - 1)
		if in[0] == op[0] {
			return op + " " + in
		}
		return op + in
	case 1, 2, 3:
		return s.expr(d-1) + " " + lib.Pick(r, binOps) + " " + s.expr(d-1)
	case 4:
		return s.expr(d-1) + " ? " + s.expr(d-1) + " : " + s.expr(d-1)
	}
	return s.primary(d)
}

func (s *syn) block(d int) string {
	var sb strings.Builder
	sb.WriteString("{")
	n := s.r.Intn(3)
	for i := 0; i < n; i++ {
		sb.WriteString(lib.Pick(s.r, []string{" ", "\n"}))
		sb.WriteString(s.stmt(d))
		sb.WriteString(lib.Pick(s.r, []string{";", "\n", "\n"}))
	}
	sb.WriteString(lib.Pick(s.r, []string{" ", ""}) + "}")
	return sb.String()
}

func (s *syn) simple(d int) string {
	r := s.r
	switch r.Intn(8) {
	case 0:
		return s.ident() + " := " + s.expr(d)
	case 1:
		return s.primary(1) + " = " + s.expr(d)
	case 2:
		return s.ident() + " " + lib.Pick(r, []string{"+=", "-=", "*=", "/=", "%=", "&=", "|=", "^=", "<<=", ">>=", "&^="}) + " " + s.expr(d)
	case 3:
		return s.ident() + lib.Pick(r, []string{"++", "--"})
	case 4:
		return s.ident() + ", " + s.ident() + " = " + s.expr(d) + ", " + s.expr(d)
	}
	return s.expr(d)
}

func (s *syn) stmt(d int) string {
	r := s.r
	if d <= 0 {
		return s.simple(1)
	}
	switch r.Intn(14) {
	case 0:
		return "if " + s.expr(1) + " " + s.block(d-1)
	case 1:
		return "if " + s.simple(1) + "; " + s.expr(1) + " " + s.block(d-1) + " else " + s.block(d-1)
	case 2:
		return "if " + s.expr(1) + " " + s.block(d-1) + " else if " + s.expr(1) + " " + s.block(d-1)
	case 3:
		return "for " + s.block(d-1)
	case 4:
		return "for " + s.expr(1) + " " + s.block(d-1)
	case 5:
		init, cond, post := lib.Pick(r, []string{"", s.simple(1)}), lib.Pick(r, []string{"", s.expr(1)}), lib.Pick(r, []string{"", s.simple(1) + " "})
		if init == "" && post == "" && strings.HasPrefix(cond, "{") {
			cond = "(" + cond + ")" // `for ; {…}; {}` prints as `for {…} {}`: known printer finding C20-3, avoided
		}
		return "for " + init + "; " + cond + "; " + post + s.block(d-1)
	case 6:
		return "for " + lib.Pick(r, []string{s.ident(), s.ident() + ", " + s.ident()}) + " in " + s.expr(1) + " " + s.block(d-1)
	case 7:
		return lib.Pick(r, []string{"break", "continue", "break lbl"})
	case 8:
		return "return" + lib.Pick(r, []string{"", " " + s.expr(d-1)})
	case 9:
		return "export " + s.expr(d-1)
	case 10:
		return ";"
	}
	return s.simple(d)
}

// rawBytes: arbitrary and damaged input for the scan / parse correspondence (every outcome, including
// every scanner error class and position, must agree; C04 reuses these streams).
func rawBytes(r *lib.RNG, n int) {
	pieces := []string{"a", "b1", " ", "\n", "\t", "\r", "1", "0x", "1.5e", "'", "\"", "`", "\\", "\\x", "\\u12", "\\777", "/", "//", "/*", "*/", "+", "++", "-", "--",
		"&^", "=", ":=", "...", ".", "(", ")", "[", "]", "{", "}", ",", ";", "?", ":", "\x00", "\xff", "\xc3", "\xc3\xa9", "\xef\xbb\xbf", "\xe2\x82", "\xed\xa0\x80",
		"\xf4\x90\x80\x80", "é", "世", "٣", "if", "for", "func", "return", "in", "@", "#", "$", "~", "<<=", ">>", "!", "!=", "|", "||", "%", "^", "0b1", "0o7", "_", "1_", "e+"}
	for i := 0; i < n; i++ {
		rr := r.Fork()
		var sb strings.Builder
		switch rr.Intn(3) {
		case 0:
			for j, m := 0, 1+rr.Intn(12); j < m; j++ {
				sb.WriteString(lib.Pick(rr, pieces))
			}
		case 1:
			for j, m := 0, 1+rr.Intn(16); j < m; j++ {
				sb.WriteByte(byte(rr.Intn(256)))
			}
		default:
			src := synProgram(rr)
			b := []byte(src)
			for j, m := 0, 1+rr.Intn(3); j < m && len(b) > 0; j++ {
				k := rr.Intn(len(b))
				switch rr.Intn(3) {
				case 0:
					b = append(b[:k], b[k+1:]...)
				case 1:
					b[k] = byte(rr.Intn(256))
				default:
					p := lib.Pick(rr, pieces)
					b = append(b[:k], append([]byte(p), b[k:]...)...)
				}
			}
			sb.Write(b)
		}
		checkSource("raw", sb.String(), false)
	}
}

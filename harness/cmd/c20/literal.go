package main

import (
	"fmt"
	"go/constant"
	goscanner "go/scanner"
	gotoken "go/token"
	"math"
	"strconv"
	"strings"

	"github.com/d5/tengo/v2/parser"
	"verifharness/lib"
)

// ---- a grammar of Go literals ----

func digitsOf(r *lib.RNG, set string, n int, underscores bool) string {
	var sb strings.Builder
	for i := 0; i < n; i++ {
		if i > 0 && underscores && r.Intn(4) == 0 {
			sb.WriteByte('_')
		}
		sb.WriteByte(set[r.Intn(len(set))])
	}
	return sb.String()
}

func genInt(r *lib.RNG) string {
	us := r.Intn(3) == 0
	switch r.Intn(8) {
	case 0:
		return "0"
	case 1:
		return lib.Pick(r, []string{"0b", "0B"}) + optUnderscore(r, us) + digitsOf(r, "01", 1+r.Intn(20), us)
	case 2:
		return lib.Pick(r, []string{"0o", "0O"}) + optUnderscore(r, us) + digitsOf(r, "01234567", 1+r.Intn(12), us)
	case 3:
		return "0" + optUnderscore(r, us) + digitsOf(r, "01234567", 1+r.Intn(12), us)
	case 4:
		return lib.Pick(r, []string{"0x", "0X"}) + optUnderscore(r, us) + digitsOf(r, "0123456789abcdefABCDEF", 1+r.Intn(17), us)
	case 5: // around the int64 boundary
		return lib.Pick(r, []string{"9223372036854775807", "9223372036854775808", "0x7fffffffffffffff", "0x8000000000000000",
			"0777777777777777777777", "01000000000000000000000", "0b" + strings.Repeat("1", 63), "0b" + strings.Repeat("1", 64),
			"18446744073709551615", "18446744073709551616", "0xffffffffffffffffff", "99999999999999999999999999"})
	}
	return string("123456789"[r.Intn(9)]) + func() string {
		n := r.Intn(19)
		if n == 0 {
			return ""
		}
		return optUnderscore(r, us) + digitsOf(r, "0123456789", n, us)
	}()
}

func optUnderscore(r *lib.RNG, us bool) string {
	if us && r.Intn(3) == 0 {
		return "_"
	}
	return ""
}

func genExp(r *lib.RNG, ch string) string {
	us := r.Intn(5) == 0
	return lib.Pick(r, strings.Split(ch, "")) + lib.Pick(r, []string{"", "+", "-"}) + digitsOf(r, "0123456789", 1+r.Intn(3), us)
}

func genFloat(r *lib.RNG) string {
	us := r.Intn(4) == 0
	d := func(max int) string { return digitsOf(r, "0123456789", 1+r.Intn(max), us) }
	h := func(max int) string { return digitsOf(r, "0123456789abcdefABCDEF", 1+r.Intn(max), us) }
	switch r.Intn(9) {
	case 0:
		return d(8) + "." + d(8)
	case 1:
		return d(8) + "."
	case 2:
		return "." + d(8)
	case 3:
		return d(6) + genExp(r, "eE")
	case 4:
		return d(6) + "." + d(6) + genExp(r, "eE")
	case 5:
		return "." + d(6) + genExp(r, "eE")
	case 6:
		return lib.Pick(r, []string{"0x", "0X"}) + optUnderscore(r, us) + h(8) + genExp(r, "pP")
	case 7:
		return lib.Pick(r, []string{"0x", "0X"}) + optUnderscore(r, us) + h(6) + "." + h(6) + genExp(r, "pP")
	}
	return lib.Pick(r, []string{"1e308", "1e309", "1.7976931348623157e308", "1.7976931348623159e308", "4.9e-324", "2e-324", "1e-400",
		"0x1p1023", "0x1p1024", "0x.8p1", "0x1.p0", "0x.p1", "1e", "1e+", "0x1p", "0x1.8", "1p3", "0b1e3", "0o7.5", "07.5", "08.5", "09", "08",
		"1_.5", "1._5", "1.5_", "1e_5", "1e5_", "0x_1p0", "0x1_p0", "00.5", "0_9.5"})
}

var escapes = []string{`\a`, `\b`, `\f`, `\n`, `\r`, `\t`, `\v`, `\\`, `\101`, `\000`, `\377`, `\400`, `\x41`, `\xff`, `\x4`, `é`, `\u12`,
	`\ud800`, `\udfff`, ``, `\U0001F600`, `\U00110000`, `\U0010FFFF`, `\q`, `\8`, `\`, `\xZZ`, `\u{41}`}

func genChar(r *lib.RNG) string {
	switch r.Intn(6) {
	case 0:
		return "'" + lib.Pick(r, escapes) + "'"
	case 1:
		return "'" + lib.Pick(r, []string{`\'`, `\"`, `"`, `''`, ``, `ab`, "é", "世", "\U0001F600", "\n", "\t", " "}) + "'"
	case 2:
		return "'" + string(rune(32+r.Intn(95))) + "'"
	case 3:
		return "'" + string(rune(0x80+r.Intn(0x3000))) + "'"
	case 4:
		return "'" + lib.Pick(r, escapes) + lib.Pick(r, escapes) + "'"
	}
	return "'" + lib.Pick(r, []string{"a", "\\x41", "\\n"}) // not terminated
}

func genString(r *lib.RNG) string {
	if r.Intn(4) == 0 { // raw
		var sb strings.Builder
		sb.WriteByte('`')
		for i, n := 0, r.Intn(10); i < n; i++ {
			sb.WriteString(lib.Pick(r, []string{"a", "\\n", "\n", "\r", "\r\n", "\"", "'", "é", " ", "\\", "/*", "//"}))
		}
		if r.Intn(12) != 0 {
			sb.WriteByte('`')
		}
		return sb.String()
	}
	var sb strings.Builder
	sb.WriteByte('"')
	for i, n := 0, r.Intn(8); i < n; i++ {
		if r.Intn(2) == 0 {
			sb.WriteString(lib.Pick(r, escapes))
		} else {
			sb.WriteString(lib.Pick(r, []string{"a", "Z", " ", "é", "世", `\"`, `\'`, "'", "`", "\t", "//", "/*", "0"}))
		}
	}
	if r.Intn(12) != 0 {
		sb.WriteByte('"')
	}
	return sb.String()
}

const mutAlphabet = "_xXbBoOeEpP.+-0189afAF'\"\\` \n"

func mutate(r *lib.RNG, s string) string {
	if len(s) == 0 {
		return s
	}
	i := r.Intn(len(s))
	switch r.Intn(4) {
	case 0:
		return s[:i] + s[i+1:]
	case 1:
		return s[:i] + string(mutAlphabet[r.Intn(len(mutAlphabet))]) + s[i:]
	case 2:
		return s[:i] + s[i:i+1] + s[i:]
	}
	return s[:i] + string(mutAlphabet[r.Intn(len(mutAlphabet))]) + s[i+1:]
}

func literals(r *lib.RNG, n int) {
	for _, l := range []string{"0", "00", "0_0", "0b0", "1_000", "1__0", "_1", "1_", "0x", "0b", "0o", "0_x1", "0x_", "0b_1", "0b1_", "0b12", "0o18",
		"0128", "017", "0o17", "0O17", "0x1F", "0X1f", "'a'", "''", "'\\''", "\"\"", "``", "`\r`", "1.", ".1", "1.e1", "1.5e+3_0"} {
		checkLiteral(l)
	}
	for i := 0; i < n; i++ {
		rr := r.Fork()
		var l string
		switch rr.Intn(4) {
		case 0:
			l = genInt(rr)
		case 1:
			l = genFloat(rr)
		case 2:
			l = genChar(rr)
		default:
			l = genString(rr)
		}
		if rr.Intn(3) == 0 {
			l = mutate(rr, l)
		}
		if l == "" || strings.TrimSpace(l) != l {
			continue
		}
		checkLiteral(l)
	}
}

// goLiteral: does Go's scanner read lit as exactly one literal token?
func goLiteral(lit string) (kind gotoken.Token, ok bool) {
	var s goscanner.Scanner
	fset := gotoken.NewFileSet()
	file := fset.AddFile("", fset.Base(), len(lit))
	nerr := 0
	s.Init(file, []byte(lit), func(gotoken.Position, string) { nerr++ }, 0)
	_, t1, l1 := s.Scan()
	_, t2, l2 := s.Scan()
	_, t3, _ := s.Scan()
	if nerr > 0 || s.ErrorCount > 0 {
		return t1, false
	}
	switch t1 {
	case gotoken.INT, gotoken.FLOAT, gotoken.CHAR, gotoken.STRING:
	default:
		return t1, false
	}
	if l1 != lit && l1 != strings.ReplaceAll(lit, "\r", "") {
		return gotoken.COMMENT, false // a literal followed by a comment: not a literal spelling
	}
	if !(t2 == gotoken.SEMICOLON && l2 == "\n" && t3 == gotoken.EOF) {
		return t1, false
	}
	return t1, true
}

func checkLiteral(lit string) {
	src := "x := " + lit
	res.Count("literal", lit, true)
	// the real parser
	f, _, err := lib.ParseSource("t", []byte(src))
	var node parser.Expr
	if err == nil && f != nil && len(f.Stmts) == 1 {
		if as, ok := f.Stmts[0].(*parser.AssignStmt); ok && len(as.RHS) == 1 && len(as.LHS) == 1 {
			switch as.RHS[0].(type) {
			case *parser.IntLit, *parser.FloatLit, *parser.CharLit, *parser.StringLit:
				node = as.RHS[0]
			}
		}
	}
	kind, goOK := goLiteral(lit)
	if kind == gotoken.COMMENT || (node != nil && nodeLit(node) != lit && nodeLit(node) != strings.ReplaceAll(lit, "\r", "")) {
		res.Dist("literal:not-a-single-token-skipped")
		checkSource("literal", src+"\n", false)
		return
	}
	viol := func(sig, obs, exp, oracle string) {
		res.Violate(lib.Violation{Signature: sig, Stream: "literal", Input: inp("literal", src), Observed: obs, Expected: exp, Oracle: oracle})
	}
	// expected value by Go's rules
	expectAccept := goOK
	var wantDesc string
	var same func(parser.Expr) bool
	if goOK {
		cv := constant.MakeFromLiteral(lit, kind, 0)
		switch kind {
		case gotoken.INT:
			v, exact := constant.Int64Val(cv)
			pv, perr := strconv.ParseInt(lit, 0, 64)
			if !exact {
				expectAccept = false // does not fit int64: Tengo must reject
				res.Dist("literal:int-out-of-range")
			} else if perr != nil || pv != v {
				res.Dist("literal:go-references-disagree")
				return
			}
			wantDesc = fmt.Sprintf("int %d", v)
			same = func(e parser.Expr) bool { x, ok := e.(*parser.IntLit); return ok && x.Value == v }
		case gotoken.FLOAT:
			pv, perr := strconv.ParseFloat(lit, 64)
			if perr != nil {
				expectAccept = false // overflows float64
				res.Dist("literal:float-out-of-range")
			} else if cf, _ := constant.Float64Val(cv); math.Float64bits(cf) != math.Float64bits(pv) && !(cf == 0 && pv == 0) {
				res.Dist("literal:go-references-disagree")
				return
			}
			wantDesc = fmt.Sprintf("float bits %#x", math.Float64bits(pv))
			same = func(e parser.Expr) bool {
				x, ok := e.(*parser.FloatLit)
				return ok && math.Float64bits(x.Value) == math.Float64bits(pv)
			}
		case gotoken.CHAR:
			v, _ := constant.Int64Val(cv)
			wantDesc = fmt.Sprintf("char %d", v)
			same = func(e parser.Expr) bool { x, ok := e.(*parser.CharLit); return ok && int64(x.Value) == v }
		case gotoken.STRING:
			v := constant.StringVal(cv)
			if u, uerr := strconv.Unquote(lit); uerr != nil || u != v {
				res.Dist("literal:go-references-disagree")
				return
			}
			wantDesc = fmt.Sprintf("string %q", v)
			same = func(e parser.Expr) bool { x, ok := e.(*parser.StringLit); return ok && x.Value == v }
		}
	}
	switch {
	case expectAccept && node == nil:
		viol("valid-go-literal-rejected", clip(fmt.Sprint(err), 200), wantDesc, "go/scanner accepts the spelling as one literal; go/constant gives its value")
		res.Dist("literal:accepted-by-go")
	case expectAccept && !same(node):
		viol("literal-value-differs-from-go", lib.ASTDumper{}.Expr(node), wantDesc, "go/constant + strconv value of the literal")
	case !expectAccept && node != nil && !goOK:
		viol("invalid-go-literal-accepted", lib.ASTDumper{}.Expr(node), "rejected (go/scanner reports an error or more than one token)", "go/scanner")
	case !expectAccept && node != nil:
		viol("out-of-range-literal-accepted", lib.ASTDumper{}.Expr(node), "rejected: the value does not fit", "go/constant exactness")
	}
	if expectAccept {
		res.Dist("literal:valid-" + kind.String())
	} else {
		res.Dist("literal:invalid")
	}
	// correspondence of the model
	checkSource("literal", src+"\n", false)
	litModel(lit)
}

func numberAlphabet(s string) bool {
	for i := 0; i < len(s); i++ {
		if !strings.ContainsRune("0123456789abcdefABCDEFxXoOpP_.+-", rune(s[i])) {
			return false
		}
	}
	return len(s) > 0 && s[0] != '+' && s[0] != '-'
}

// litModel compares Model.Literal with the strconv functions the parser calls.
func litModel(lit string) {
	if drv == nil {
		return
	}
	hx := lib.HexS(lit)
	dis := func(stream, model, impl string) {
		res.Disagree(lib.Disagreement{Stream: "litmodel", Input: inp(stream, lit), Model: model, Impl: impl})
	}
	if numberAlphabet(lit) {
		v, err := strconv.ParseInt(lit, 0, 64)
		want := "ok " + lib.I(v)
		if err != nil {
			want = "syntax"
			if ne, ok := err.(*strconv.NumError); ok && ne.Err == strconv.ErrRange {
				want = "range"
			}
		}
		ask("(intlit "+hx+")", func(ans string) {
			res.Count("litmodel", "i"+lit, true)
			if ans != want {
				dis("intlit", ans, want)
			}
		})
		_, ferr := strconv.ParseFloat(lit, 64)
		wf := "1"
		if ne, ok := ferr.(*strconv.NumError); ok && ne.Err == strconv.ErrSyntax {
			wf = "0"
		}
		ask("(floatok "+hx+")", func(ans string) {
			res.Count("litmodel", "f"+lit, true)
			if ans != wf {
				dis("floatok", ans, wf)
			}
		})
	}
	if strings.HasPrefix(lit, "'") {
		want := "bad"
		if n := len(lit); n >= 3 {
			if code, _, _, err := strconv.UnquoteChar(lit[1:n-1], '\''); err == nil {
				want = "ok " + lib.I(int64(code))
			}
		}
		ask("(charlit "+hx+")", func(ans string) {
			res.Count("litmodel", "c"+lit, true)
			if ans != want {
				dis("charlit", ans, want)
			}
		})
	}
	if strings.HasPrefix(lit, "\"") || strings.HasPrefix(lit, "`") {
		want := "bad"
		if v, err := strconv.Unquote(lit); err == nil {
			want = "ok " + lib.HexS(v)
		}
		ask("(strlit "+hx+")", func(ans string) {
			res.Count("litmodel", "s"+lit, true)
			if ans != want {
				dis("strlit", ans, want)
			}
		})
	}
}

func nodeLit(e parser.Expr) string {
	switch x := e.(type) {
	case *parser.IntLit:
		return x.Literal
	case *parser.FloatLit:
		return x.Literal
	case *parser.CharLit:
		return x.Literal
	case *parser.StringLit:
		return x.Literal
	}
	return ""
}

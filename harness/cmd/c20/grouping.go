package main

import (
	"fmt"
	"strings"

	"github.com/d5/tengo/v2/parser"
	"verifharness/lib"
)

// Reference grammar, written from docs/tutorial.md "Operator Precedences": unary operators bind
// strongest, then five binary levels (5: * / % << >> & &^, 4: + - | ^, 3: == != < <= > >=, 2: &&,
// 1: ||), all binary operators group left to right, the ternary operator binds weakest (its branches
// are full expressions, so it nests to the right without parentheses).

var binLevels = map[string]int{
	"*": 5, "/": 5, "%": 5, "<<": 5, ">>": 5, "&": 5, "&^": 5,
	"+": 4, "-": 4, "|": 4, "^": 4,
	"==": 3, "!=": 3, "<": 3, "<=": 3, ">": 3, ">=": 3,
	"&&": 2,
	"||": 1,
}

var binOps = []string{"*", "/", "%", "<<", ">>", "&", "&^", "+", "-", "|", "^", "==", "!=", "<", "<=", ">", ">=", "&&", "||"}
var unOps = []string{"+", "-", "!", "^"}

const (
	kAtom = iota
	kBin
	kUn
	kCond
)

type refE struct {
	k       int
	op      string
	a, b, c *refE
	atom    string
}

func (e *refE) level() int {
	switch e.k {
	case kBin:
		return binLevels[e.op]
	case kUn:
		return 6
	case kCond:
		return 0
	}
	return 7
}

// canon: fully parenthesised form, the identity of a grouping.
func (e *refE) canon() string {
	switch e.k {
	case kBin:
		return "(" + e.a.canon() + " " + e.op + " " + e.b.canon() + ")"
	case kUn:
		return "(" + e.op + e.a.canon() + ")"
	case kCond:
		return "(" + e.a.canon() + " ? " + e.b.canon() + " : " + e.c.canon() + ")"
	}
	return e.atom
}

func (e *refE) ops() int {
	switch e.k {
	case kBin:
		return 1 + e.a.ops() + e.b.ops()
	case kUn:
		return 1 + e.a.ops()
	case kCond:
		return 1 + e.a.ops() + e.b.ops() + e.c.ops()
	}
	return 0
}

// printMin prints with the fewest parentheses the reference grammar needs: an operand is wrapped only
// when its level is below what its position requires.
func printMin(e *refE, ctx int) string {
	s := ""
	switch e.k {
	case kAtom:
		s = e.atom
	case kBin:
		l := binLevels[e.op]
		s = printMin(e.a, l) + " " + e.op + " " + printMin(e.b, l+1)
	case kUn:
		in := printMin(e.a, 6)
		if in[0] == e.op[0] { // "- -a", "+ +a": keep the tokens apart
			s = e.op + " " + in
		} else {
			s = e.op + in
		}
	case kCond:
		s = printMin(e.a, 1) + " ? " + printMin(e.b, 0) + " : " + printMin(e.c, 0)
	}
	if e.level() < ctx {
		return "(" + s + ")"
	}
	return s
}

// ---- reference parser over a token list (atoms are opaque) ----

type refTok struct {
	s    string
	atom bool
}

type refParser struct {
	ts  []refTok
	pos int
}

func (p *refParser) peek() string {
	if p.pos < len(p.ts) && !p.ts[p.pos].atom {
		return p.ts[p.pos].s
	}
	return ""
}

func (p *refParser) expr() *refE {
	c := p.binary(1)
	if p.peek() == "?" {
		p.pos++
		t := p.expr()
		if p.peek() != ":" {
			panic("reference parser: expected ':'")
		}
		p.pos++
		f := p.expr()
		return &refE{k: kCond, a: c, b: t, c: f}
	}
	return c
}

func (p *refParser) binary(min int) *refE {
	x := p.unary()
	for {
		op := p.peek()
		l, ok := binLevels[op]
		if !ok || l < min {
			return x
		}
		p.pos++
		y := p.binary(l + 1)
		x = &refE{k: kBin, op: op, a: x, b: y}
	}
}

func (p *refParser) unary() *refE {
	op := p.peek()
	if op == "+" || op == "-" || op == "!" || op == "^" {
		p.pos++
		return &refE{k: kUn, op: op, a: p.unary()}
	}
	if op == "(" {
		p.pos++
		e := p.expr()
		if p.peek() != ")" {
			panic("reference parser: expected ')'")
		}
		p.pos++
		return e
	}
	if p.pos < len(p.ts) && p.ts[p.pos].atom {
		a := p.ts[p.pos].s
		p.pos++
		return &refE{k: kAtom, atom: a}
	}
	panic("reference parser: expected operand at " + fmt.Sprint(p.pos))
}

// refParse parses a token list of the expression sub-language (atoms, operators, parentheses).
func refParse(ts []refTok) (e *refE, err error) {
	defer func() {
		if r := recover(); r != nil {
			err = fmt.Errorf("%v", r)
		}
	}()
	p := &refParser{ts: ts}
	e = p.expr()
	if p.pos != len(ts) {
		return nil, fmt.Errorf("reference parser: trailing tokens at %d", p.pos)
	}
	return e, nil
}

// refTokens is the tokenizer of the reference pair: atoms (identifier / literal followed by any number
// of attached selector, index and call suffixes), operators, parentheses.
func refTokens(src string) []refTok {
	var out []refTok
	i := 0
	word := func(c byte) bool {
		return c == '_' || c == '.' || ('a' <= c && c <= 'z') || ('A' <= c && c <= 'Z') || ('0' <= c && c <= '9')
	}
	for i < len(src) {
		c := src[i]
		switch {
		case c == ' ' || c == '\n' || c == '\t':
			i++
		case c == '(' || c == ')':
			out = append(out, refTok{s: string(c)})
			i++
		case c == '"' || c == '\'' || c == '`' || word(c) && c != '.':
			j := i
			if c == '"' || c == '\'' || c == '`' {
				j++
				for j < len(src) && src[j] != c {
					j++
				}
				j++
			}
			for j < len(src) {
				if word(src[j]) {
					j++
					continue
				}
				if src[j] == '(' || src[j] == '[' {
					depth := 0
					for j < len(src) {
						if src[j] == '(' || src[j] == '[' {
							depth++
						}
						if src[j] == ')' || src[j] == ']' {
							depth--
						}
						j++
						if depth == 0 {
							break
						}
					}
					continue
				}
				break
			}
			out = append(out, refTok{s: src[i:j], atom: true})
			i = j
		default:
			n := opPrefix(src[i:])
			out = append(out, refTok{s: src[i : i+n]})
			i += n
		}
	}
	return out
}

func opPrefix(f string) int {
	if len(f) >= 2 {
		if _, ok := binLevels[f[:2]]; ok {
			return 2
		}
	}
	return 1
}

// fromReal converts the real AST to the reference tree: ParenExpr is grouping only; anything that is
// not an operator node is an opaque atom spelled as the node prints itself.
func fromReal(e parser.Expr) *refE {
	switch e := e.(type) {
	case *parser.ParenExpr:
		return fromReal(e.Expr)
	case *parser.BinaryExpr:
		return &refE{k: kBin, op: e.Token.String(), a: fromReal(e.LHS), b: fromReal(e.RHS)}
	case *parser.UnaryExpr:
		return &refE{k: kUn, op: e.Token.String(), a: fromReal(e.Expr)}
	case *parser.CondExpr:
		return &refE{k: kCond, a: fromReal(e.Cond), b: fromReal(e.True), c: fromReal(e.False)}
	}
	return &refE{k: kAtom, atom: e.String()}
}

// checkGroupingSource: the real parser must group `src` (an expression of the sub-language) the way
// the reference parser does.
func checkGroupingSource(src string) {
	want, err := refParse(refTokens(src))
	if err != nil {
		panic("harness bug: reference parser rejects its own source " + src + ": " + err.Error())
	}
	checkGrouping(src, want)
}

func checkGrouping(src string, want *refE) {
	full := "x := " + src
	f, _, err := lib.ParseSource("t", []byte(full))
	res.Count("grouping", src, want.ops() >= 2)
	if err != nil || f == nil {
		res.Violate(lib.Violation{Signature: "valid-expression-rejected", Stream: "grouping", Input: inp("grouping", src),
			Observed: clip(fmt.Sprint(err), 300), Expected: want.canon(), Oracle: "reference precedence-climbing parser (docs/tutorial.md precedence table)"})
		return
	}
	got := "?"
	if len(f.Stmts) == 1 {
		if as, ok := f.Stmts[0].(*parser.AssignStmt); ok && len(as.RHS) == 1 {
			got = fromReal(as.RHS[0]).canon()
		}
	}
	if got != want.canon() {
		res.Violate(lib.Violation{Signature: "grouping-differs-from-documented-precedence", Stream: "grouping", Input: inp("grouping", src),
			Observed: got, Expected: want.canon(), Oracle: "reference precedence-climbing parser (docs/tutorial.md precedence table)"})
	}
}

// ---- enumeration: all trees with up to maxOps operator nodes over all operators ----

type atomSupply struct{ n int }

var atomNames = []string{"a", "b", "c", "d", "e", "f", "g", "h", "i"}

func enumTrees(n int) []func(*atomSupply) *refE {
	// builders so that atoms are numbered left to right in each finished tree
	if n == 0 {
		return []func(*atomSupply) *refE{func(s *atomSupply) *refE {
			a := atomNames[s.n%len(atomNames)]
			s.n++
			return &refE{k: kAtom, atom: a}
		}}
	}
	var out []func(*atomSupply) *refE
	// unary root
	for _, op := range unOps {
		op := op
		for _, sub := range enumTrees(n - 1) {
			sub := sub
			out = append(out, func(s *atomSupply) *refE { return &refE{k: kUn, op: op, a: sub(s)} })
		}
	}
	// binary root
	for i := 0; i <= n-1; i++ {
		ls, rs := enumTrees(i), enumTrees(n-1-i)
		for _, op := range binOps {
			op := op
			for _, l := range ls {
				l := l
				for _, r := range rs {
					r := r
					out = append(out, func(s *atomSupply) *refE {
						a := l(s)
						b := r(s)
						return &refE{k: kBin, op: op, a: a, b: b}
					})
				}
			}
		}
	}
	// ternary root
	for i := 0; i <= n-1; i++ {
		for j := 0; i+j <= n-1; j++ {
			as, bs, cs := enumTrees(i), enumTrees(j), enumTrees(n-1-i-j)
			for _, a := range as {
				a := a
				for _, b := range bs {
					b := b
					for _, c := range cs {
						c := c
						out = append(out, func(s *atomSupply) *refE {
							x := a(s)
							y := b(s)
							z := c(s)
							return &refE{k: kCond, a: x, b: y, c: z}
						})
					}
				}
			}
		}
	}
	return out
}

func groupingExhaustive(r *lib.RNG) {
	total := 0
	for n := 1; n <= 3; n++ {
		for _, mk := range enumTrees(n) {
			e := mk(&atomSupply{})
			src := printMin(e, 0)
			total++
			// self-check of the reference pair: it must read back its own minimal form
			back, err := refParse(refTokens(src))
			if err != nil || back.canon() != e.canon() {
				panic("harness bug: reference printer/parser disagree on " + src)
			}
			checkGrouping(src, e)
			// the model sees every 1- and 2-operator tree and a sample of the 3-operator ones
			if n <= 2 || thorough || r.Intn(12) == 0 {
				checkSource("grouping", "x := "+src+"\n", n <= 2 && r.Intn(8) == 0)
			}
		}
	}
	res.Exhaustive = true
	if res.Extra == nil {
		res.Extra = map[string]interface{}{}
	}
	res.Extra["exhaustive_trees_up_to_3_operators"] = total
}

var richAtoms = []string{"a", "b", "c", "x.y", "f(1)", "a[0]", "1", "2.5", "\"s\"", "'c'", "true", "undefined", "m.k[2]", "g(a, b)", "0x1F", "`r`"}

func randomTree(r *lib.RNG, depth int) *refE {
	if depth <= 0 || r.Intn(5) == 0 {
		return &refE{k: kAtom, atom: lib.Pick(r, richAtoms)}
	}
	switch r.Intn(10) {
	case 0, 1:
		return &refE{k: kUn, op: lib.Pick(r, unOps), a: randomTree(r, depth-1)}
	case 2:
		return &refE{k: kCond, a: randomTree(r, depth-1), b: randomTree(r, depth-1), c: randomTree(r, depth-1)}
	}
	return &refE{k: kBin, op: lib.Pick(r, binOps), a: randomTree(r, depth-1), b: randomTree(r, depth-1)}
}

// randomTokens: a flat random operator/operand sequence with random (redundant) parentheses; the
// reference parser decides the grouping.
func randomTokens(r *lib.RNG, n int) string {
	var sb strings.Builder
	open := 0
	for i := 0; i < n; i++ {
		for r.Intn(6) == 0 {
			sb.WriteString(lib.Pick(r, unOps) + " ")
		}
		if r.Intn(5) == 0 {
			sb.WriteString("(")
			open++
		}
		for r.Intn(8) == 0 {
			sb.WriteString(lib.Pick(r, unOps) + " ")
		}
		sb.WriteString(lib.Pick(r, richAtoms))
		if open > 0 && r.Intn(3) == 0 {
			sb.WriteString(")")
			open--
		}
		if i < n-1 {
			sb.WriteString(" " + lib.Pick(r, binOps) + " ")
		}
	}
	for ; open > 0; open-- {
		sb.WriteString(")")
	}
	return sb.String()
}

func groupingRandom(r *lib.RNG, n int) {
	for i := 0; i < n; i++ {
		rr := r.Fork()
		if i%3 == 2 {
			src := randomTokens(rr, 2+rr.Intn(7))
			checkGroupingSource(src)
			if i%6 == 2 {
				checkSource("grouping", "x := "+src+"\n", false)
			}
			continue
		}
		e := randomTree(rr, 2+rr.Intn(5))
		src := printMin(e, 0)
		checkGrouping(src, e)
		if i%4 == 0 || thorough {
			checkSource("grouping", "y := "+src+"\n", i%16 == 0)
		}
	}
}

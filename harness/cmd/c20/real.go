package main

import (
	"encoding/hex"
	"fmt"
	"math"
	"strconv"
	"strings"
	"unicode"
	"unicode/utf8"

	"github.com/d5/tengo/v2"
	"github.com/d5/tengo/v2/parser"
	"github.com/d5/tengo/v2/token"
	"verifharness/lib"
)

func encSrc(s string) string {
	if utf8.ValidString(s) && !strings.HasPrefix(s, "hex:") {
		return s
	}
	return "hex:" + hex.EncodeToString([]byte(s))
}

func decSrc(s string) string {
	if strings.HasPrefix(s, "hex:") {
		b, err := hex.DecodeString(s[4:])
		if err == nil {
			return string(b)
		}
	}
	return s
}

// ---- model queries, pipelined ----

type pending struct {
	line string
	cb   func(string)
}

var queue []pending

func ask(line string, cb func(string)) {
	if drv == nil {
		return
	}
	queue = append(queue, pending{line, cb})
	if len(queue) >= 256 {
		flush()
	}
}

func flush() {
	if drv == nil || len(queue) == 0 {
		return
	}
	lines := make([]string, len(queue))
	for i, p := range queue {
		lines[i] = p.line
	}
	q := queue
	queue = nil
	ans, err := drv.Batch(lines)
	if err != nil {
		fatal(fmt.Errorf("driver: %v (after %d answers; next line %.200s)", err, len(ans), lines[len(ans)]))
	}
	for i, p := range q {
		p.cb(ans[i])
	}
}

// ---- the real scanner ----

type tokRec struct {
	Tok token.Token
	Lit string
	Off int
}

type errRec struct {
	Off int
	Msg string
}

func realScan(src []byte) (toks []tokRec, errs []errRec, panicked string) {
	g := lib.Guard(5e9, func() {
		fs := parser.NewFileSet()
		sf := fs.AddFile("t", -1, len(src))
		s := parser.NewScanner(sf, src, func(pos parser.SourceFilePos, msg string) {
			errs = append(errs, errRec{pos.Offset, msg})
		}, 0)
		for {
			t, lit, pos := s.Scan()
			toks = append(toks, tokRec{t, lit, int(pos) - sf.Base})
			if t == token.EOF || len(toks) > len(src)+3 {
				break
			}
		}
	})
	if g.Panicked {
		panicked = g.PanicVal
	}
	if g.TimedOut {
		panicked = "timeout"
	}
	return
}

func hexU(msg string) string {
	i := strings.Index(msg, "U+")
	if i < 0 {
		return "?"
	}
	j := i + 2
	for j < len(msg) && strings.ContainsRune("0123456789ABCDEFabcdef", rune(msg[j])) {
		j++
	}
	v, err := strconv.ParseUint(msg[i+2:j], 16, 32)
	if err != nil {
		return "?"
	}
	return strconv.FormatUint(v, 10)
}

func msgClass(msg string) string {
	switch {
	case msg == "illegal character NUL":
		return "nul"
	case msg == "illegal UTF-8 encoding":
		return "utf8"
	case msg == "illegal byte order mark":
		return "bom"
	case strings.HasSuffix(msg, "in escape sequence"):
		return "escIllegalChar:" + hexU(msg)
	case strings.HasPrefix(msg, "illegal character "):
		return "illegalChar:" + hexU(msg)
	case msg == "comment not terminated":
		return "commentNotTerminated"
	case msg == "exponent has no digits":
		return "exponentNoDigits"
	case msg == "unknown escape sequence":
		return "escUnknown"
	case msg == "escape sequence not terminated":
		return "escNotTerminated"
	case msg == "escape sequence is invalid Unicode code point":
		return "escInvalidCodePoint"
	case msg == "rune literal not terminated":
		return "runeNotTerminated"
	case msg == "illegal rune literal":
		return "illegalRune"
	case msg == "string literal not terminated":
		return "stringNotTerminated"
	case msg == "raw string literal not terminated":
		return "rawStringNotTerminated"
	}
	return "other:" + strings.ReplaceAll(msg, " ", "_")
}

func scanString(toks []tokRec, errs []errRec) string {
	var sb strings.Builder
	sb.WriteString("ok (")
	for i, t := range toks {
		if i > 0 {
			sb.WriteByte(' ')
		}
		sb.WriteString("(" + lib.TokName[t.Tok] + " " + lib.HexS(t.Lit) + " " + lib.N(t.Off) + ")")
	}
	sb.WriteString(") (")
	for i, e := range errs {
		if i > 0 {
			sb.WriteByte(' ')
		}
		sb.WriteString("(" + lib.N(e.Off) + " " + msgClass(e.Msg) + ")")
	}
	sb.WriteString(")")
	return sb.String()
}

// oracle builds the table of external functions for one source: ParseFloat results for the Float tokens
// and unicode classes of the non-ASCII runes.
func oracle(src []byte, toks []tokRec) string {
	var items []string
	seen := map[string]bool{}
	for _, t := range toks {
		if t.Tok == token.Float && !seen[t.Lit] {
			seen[t.Lit] = true
			if v, err := strconv.ParseFloat(t.Lit, 64); err == nil {
				items = append(items, "(f "+lib.HexS(t.Lit)+" "+lib.U(math.Float64bits(v))+")")
			}
		}
	}
	seenR := map[rune]bool{}
	for i := 0; i < len(src); {
		r, w := utf8.DecodeRune(src[i:])
		i += w
		if r >= utf8.RuneSelf && !seenR[r] {
			seenR[r] = true
			c := 0
			if unicode.IsLetter(r) {
				c = 1
			} else if unicode.IsDigit(r) {
				c = 2
			}
			if c != 0 {
				items = append(items, "(u "+lib.N(int(r))+" "+lib.N(c)+")")
			}
		}
	}
	return "(" + strings.Join(items, " ") + ")"
}

// realParse returns the position-free dump or "error".
func realParse(src []byte) (dump string, f *parser.File, panicked string) {
	dump = "error"
	g := lib.Guard(5e9, func() {
		ff, _, err := lib.ParseSource("t", src)
		if err == nil && ff != nil {
			f = ff
			dump = "ok " + lib.ASTDumper{}.File(ff)
		}
	})
	if g.Panicked {
		panicked = g.PanicVal
	}
	if g.TimedOut {
		panicked = "timeout"
	}
	return
}

// checkSource runs the scan / parse / print correspondence on src and, when it parses, the reprint
// searcher.
func checkSource(stream, src string, reprintToo bool) {
	b := []byte(src)
	toks, errs, pn := realScan(b)
	if pn != "" {
		res.Dist("real-scan-panic")
		return
	}
	or := oracle(b, toks)
	want := scanString(toks, errs)
	hx := lib.Hex(b)
	ask("(scan "+hx+" "+or+")", func(ans string) {
		res.Count("scan", src, len(toks) > 2)
		if ans != want {
			res.Disagree(lib.Disagreement{Stream: "scan", Input: inp(stream, src), Model: clip(ans, 1500), Impl: clip(want, 1500)})
		}
	})
	dump, f, pn2 := realParse(b)
	if pn2 != "" {
		res.Dist("real-parse-panic")
		return
	}
	ask("(parse "+hx+" "+or+")", func(ans string) {
		res.Count("parse", src, f != nil)
		if ans != dump {
			res.Disagree(lib.Disagreement{Stream: "parse", Input: inp(stream, src), Model: clip(ans, 1500), Impl: clip(dump, 1500)})
		}
	})
	if f == nil {
		res.Dist(stream + ":parse-error")
		return
	}
	res.Dist(stream + ":parsed")
	printed := f.String()
	ask("(print "+hx+" "+or+")", func(ans string) {
		res.Count("print", src, true)
		w := "ok " + lib.HexS(printed)
		if ans != w {
			res.Disagree(lib.Disagreement{Stream: "print", Input: inp(stream, src), Model: clip(ans, 1500), Impl: clip(w, 1500)})
		}
	})
	if reprintToo {
		reprint(stream, src, f)
	}
}

func clip(s string, n int) string {
	if len(s) > n {
		return s[:n] + "…"
	}
	return s
}

// ---- searcher (iii): File.String() re-parses and compiles alike ----

var identRe = func(s string) bool {
	if s == "" || token.Lookup(s) != token.Ident {
		return false
	}
	for i, c := range s {
		if !(c == '_' || 'a' <= c && c <= 'z' || 'A' <= c && c <= 'Z' || (i > 0 && '0' <= c && c <= '9')) {
			return false
		}
	}
	return true
}

// printable reports whether every map key and module name is a plain identifier (all the printer can
// quote) and collects shapes that are known findings.
type shape struct {
	printable    bool
	intSelector  bool // selector applied directly to an int literal: printed as a float prefix before b2c2f52 (C20-1, repaired); kept to name a regression
	forInNilKeys bool // for-in with three or more names: nil key/value
}

func inspect(stmts []parser.Stmt) shape {
	sh := shape{printable: true}
	var ex func(e parser.Expr)
	var st func(s parser.Stmt)
	exs := func(es []parser.Expr) {
		for _, e := range es {
			ex(e)
		}
	}
	blk := func(b *parser.BlockStmt) {
		if b != nil {
			for _, s := range b.Stmts {
				st(s)
			}
		}
	}
	ex = func(e parser.Expr) {
		switch e := e.(type) {
		case nil:
		case *parser.BinaryExpr:
			ex(e.LHS)
			ex(e.RHS)
		case *parser.UnaryExpr:
			ex(e.Expr)
		case *parser.CondExpr:
			ex(e.Cond)
			ex(e.True)
			ex(e.False)
		case *parser.ParenExpr:
			ex(e.Expr)
		case *parser.ArrayLit:
			exs(e.Elements)
		case *parser.MapLit:
			for _, m := range e.Elements {
				if !identRe(m.Key) {
					sh.printable = false
				}
				ex(m.Value)
			}
		case *parser.SelectorExpr:
			if _, ok := e.Expr.(*parser.IntLit); ok {
				sh.intSelector = true
			}
			ex(e.Expr)
		case *parser.IndexExpr:
			ex(e.Expr)
			ex(e.Index)
		case *parser.SliceExpr:
			ex(e.Expr)
			ex(e.Low)
			ex(e.High)
		case *parser.CallExpr:
			ex(e.Func)
			exs(e.Args)
		case *parser.FuncLit:
			blk(e.Body)
		case *parser.ImportExpr:
			if !identRe(e.ModuleName) {
				sh.printable = false
			}
		case *parser.ErrorExpr:
			ex(e.Expr)
		case *parser.ImmutableExpr:
			ex(e.Expr)
		}
	}
	st = func(s parser.Stmt) {
		switch s := s.(type) {
		case nil:
		case *parser.ExprStmt:
			ex(s.Expr)
		case *parser.AssignStmt:
			exs(s.LHS)
			exs(s.RHS)
		case *parser.IncDecStmt:
			ex(s.Expr)
		case *parser.IfStmt:
			st(s.Init)
			ex(s.Cond)
			blk(s.Body)
			st(s.Else)
		case *parser.ForStmt:
			st(s.Init)
			ex(s.Cond)
			st(s.Post)
			blk(s.Body)
		case *parser.ForInStmt:
			if s.Key == nil || s.Value == nil {
				sh.forInNilKeys = true
			}
			ex(s.Iterable)
			blk(s.Body)
		case *parser.BlockStmt:
			blk(s)
		case *parser.ReturnStmt:
			ex(s.Result)
		case *parser.ExportStmt:
			ex(s.Result)
		}
	}
	for _, s := range stmts {
		st(s)
	}
	return sh
}

// listing is the canonical text of instructions and constants (no addresses, no source map).
func listing(bc *tengo.Bytecode) string {
	var sb strings.Builder
	sb.WriteString(strings.Join(tengo.FormatInstructions(bc.MainFunction.Instructions, 0), "\n"))
	for i, c := range bc.Constants {
		switch c := c.(type) {
		case *tengo.CompiledFunction:
			fmt.Fprintf(&sb, "\n[%d] fn locals=%d params=%d varargs=%v\n  %s", i, c.NumLocals, c.NumParameters, c.VarArgs,
				strings.Join(tengo.FormatInstructions(c.Instructions, 0), "\n  "))
		default:
			fmt.Fprintf(&sb, "\n[%d] %s %s", i, c.TypeName(), c.String())
		}
	}
	return sb.String()
}

const (
	sigIntSel   = "print-int-literal-selector-reparses-as-float"
	sigForInNil = "forin-three-names-accepted-printed-as-null"
	sigForBrace = "print-for-condition-starting-with-brace"
)

func reprint(stream, src string, f *parser.File) {
	sh := inspect(f.Stmts)
	if !sh.printable {
		res.Dist("reprint:unprintable-keys-skipped")
		return
	}
	printed := f.String()
	res.Count("reprint", src, true)
	f2, _, err := lib.ParseSource("t", []byte(printed))
	if err != nil || f2 == nil {
		sig := "printed-form-does-not-reparse"
		if m := smallestUnparsable(f); m != nil {
			printed = m.String()
			fs, isFor := m.(*parser.ForStmt)
			fi, isForIn := m.(*parser.ForInStmt)
			switch {
			case isForIn && (fi.Key == nil || fi.Value == nil):
				sig = sigForInNil
			case isFor && fs.Init == nil && fs.Post == nil && fs.Cond != nil && strings.HasPrefix(fs.Cond.String(), "{"):
				sig = sigForBrace
			case inspect([]parser.Stmt{m}).intSelector:
				sig = sigIntSel
			}
		}
		res.Violate(lib.Violation{Signature: sig, Stream: "reprint", Input: inp(stream, src),
			Observed: "printed form " + strconv.Quote(clip(printed, 300)) + " does not parse: " + clip(fmt.Sprint(err), 200),
			Expected: "File.String() of a parsed program parses again", Oracle: "real parser on File.String() of the real AST"})
		return
	}
	c1, e1 := lib.CompileSource([]byte(src), lib.CompileOpts{})
	c2, e2 := lib.CompileSource([]byte(printed), lib.CompileOpts{})
	if e1 != nil || e2 != nil {
		if (e1 == nil) != (e2 == nil) {
			if e1 != nil && strings.HasPrefix(e1.Error(), "PANIC") {
				res.Dist("reprint:original-compile-panics")
				return
			}
			res.Violate(lib.Violation{Signature: "printed-form-compile-outcome-differs", Stream: "reprint", Input: inp(stream, src),
				Observed: "printed: " + clip(fmt.Sprint(e2), 200), Expected: "original: " + clip(fmt.Sprint(e1), 200),
				Oracle: "original and printed form compile alike"})
		} else {
			res.Dist("reprint:both-fail-to-compile")
		}
		return
	}
	res.Dist("reprint:compiled")
	l1, l2 := listing(c1.BC), listing(c2.BC)
	if l1 != l2 {
		res.Violate(lib.Violation{Signature: "printed-form-compiles-differently", Stream: "reprint", Input: inp(stream, src),
			Observed: clip(l2, 600), Expected: clip(l1, 600), Oracle: "instructions and constants of original and printed form are identical"})
	}
}

// ---- findings of the unchanged tree (probes): C20-1 and C20-2 are repaired in /repo (regression probes: firing is a
// violation), C20-3 is still known ----

func runFindingProbes() {
	known := map[string]bool{}
	for _, k := range lib.LoadKnown(flags.Known) {
		if k.Property == "C20" && k.Status == "known" {
			known[k.ID] = true
		}
	}
	probe := func(id, sig, src string) {
		f, _, err := lib.ParseSource("t", []byte(src))
		res.Count("finding-probe", id, true)
		if err != nil || f == nil {
			return // the source is rejected now: nothing to print
		}
		if _, _, err2 := lib.ParseSource("t", []byte(f.String())); err2 == nil {
			return
		}
		if known[id] {
			res.KnownHits = append(res.KnownHits, id)
			return
		}
		res.Violate(lib.Violation{Signature: sig, Stream: "reprint", Input: inp("probe", src),
			Observed: "printed form " + strconv.Quote(f.String()) + " does not parse", Expected: "File.String() parses again",
			Oracle: "real parser on File.String()"})
	}
	probe("C20-1", sigIntSel, "x := 1 .a")
	probe("C20-2", sigForInNil, "x := [1]; for a, b, c in x {}")
	probe("C20-3", sigForBrace, "for ; {a: 1}.b; {}")
}

// smallestUnparsable finds the shortest statement of f (at any depth) whose own printed form does not
// parse: the place where printing loses information.
func smallestUnparsable(f *parser.File) parser.Stmt {
	var best parser.Stmt
	bestLen := 0
	var st func(s parser.Stmt)
	blk := func(b *parser.BlockStmt) {
		if b != nil {
			for _, s := range b.Stmts {
				st(s)
			}
		}
	}
	var ex func(e parser.Expr)
	ex = func(e parser.Expr) {
		switch e := e.(type) {
		case *parser.FuncLit:
			blk(e.Body)
		case *parser.BinaryExpr:
			ex(e.LHS)
			ex(e.RHS)
		case *parser.UnaryExpr:
			ex(e.Expr)
		case *parser.CondExpr:
			ex(e.Cond)
			ex(e.True)
			ex(e.False)
		case *parser.ParenExpr:
			ex(e.Expr)
		case *parser.CallExpr:
			ex(e.Func)
			for _, a := range e.Args {
				ex(a)
			}
		case *parser.ArrayLit:
			for _, a := range e.Elements {
				ex(a)
			}
		case *parser.MapLit:
			for _, a := range e.Elements {
				ex(a.Value)
			}
		case *parser.SelectorExpr:
			ex(e.Expr)
		case *parser.IndexExpr:
			ex(e.Expr)
			ex(e.Index)
		case *parser.SliceExpr:
			ex(e.Expr)
			ex(e.Low)
			ex(e.High)
		case *parser.ErrorExpr:
			ex(e.Expr)
		case *parser.ImmutableExpr:
			ex(e.Expr)
		}
	}
	st = func(s parser.Stmt) {
		if s == nil {
			return
		}
		if _, isBlock := s.(*parser.BlockStmt); !isBlock {
			p := s.String()
			if _, _, err := lib.ParseSource("t", []byte(p)); err != nil {
				if best == nil || len(p) < bestLen {
					best, bestLen = s, len(p)
				}
			}
		}
		switch s := s.(type) {
		case *parser.ExprStmt:
			ex(s.Expr)
		case *parser.AssignStmt:
			for _, e := range s.RHS {
				ex(e)
			}
			for _, e := range s.LHS {
				ex(e)
			}
		case *parser.IfStmt:
			st(s.Init)
			ex(s.Cond)
			blk(s.Body)
			st(s.Else)
		case *parser.ForStmt:
			st(s.Init)
			ex(s.Cond)
			st(s.Post)
			blk(s.Body)
		case *parser.ForInStmt:
			ex(s.Iterable)
			blk(s.Body)
		case *parser.BlockStmt:
			for _, x := range s.Stmts {
				st(x)
			}
		case *parser.ReturnStmt:
			ex(s.Result)
		case *parser.ExportStmt:
			ex(s.Result)
		}
	}
	for _, s := range f.Stmts {
		st(s)
	}
	return best
}

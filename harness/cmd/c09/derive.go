package main

import (
	"fmt"
	"os"
	"strings"

	"github.com/d5/tengo/v2"
	"verifharness/lib"
)

// Systematic searcher "derive through a call, then write" (round 8; reported under the stream immprog with
// its own signature `immutable-changed-through-call`).
//
// A call is one more way of deriving a value from an immutable one: `f(x...)` unrolls the elements of an
// immutable array and rolls them up again into the variadic parameter of the callee, a builtin gets them
// as its argument slice, a plain argument hands the immutable value itself to the callee. Whatever the
// callee then does to what it received (element writes, append, splice, slicing / + / copy followed by
// writes, returning it and writing later, capturing it in a closure, spreading it again) must not change
// the immutable value.
//
//	sources    immutable(...) of a literal, freeze(...) of flat and nested literals (the spread operand
//	           is the root or a frozen sub-value: x.list, x[0]), shallow-immutable arrays of mutable and of
//	           immutable children, values exported by source modules, a frozen builtin-module table, a
//	           host-provided ImmutableArray, an immutable array made inside a function
//	arities    callee func(p1..pn, ...a) with n = 0..2 called with k = 0..3 explicit arguments before the
//	           spread operand: k == n (the operand IS the variadic part), k < n (it straddles the fixed
//	           parameters), k > n (explicit arguments spill into the variadic part)
//	writes     what the callee does with `a` (and what the caller does with the result)
//	call forms plain, function literal called in place, function stored in a map / an array, closure with a
//	           free variable, spread of a local inside a function, self call in tail position and not (the spread operand is the immutable array in both calls), forwarding through a
//	           second variadic function, builtins (append / splice / copy / delete / format / len), a host
//	           function that overwrites the argument slice it is given
//	arguments  the immutable value passed whole (fixed parameter, element of the variadic parameter) and
//	           attacked inside the callee by every attack of shapes.go
//
// Oracle (model independent, per instruction of the main function and after the run, also when the run
// ended with an error): the identity snapshot of the immutable storage reachable from `x` (scalars by
// value, mutable containers by identity) and, when everything reachable is immutable, the full canonical
// form of `x`, are what they were when `x` was first seen.

const sigThroughCall = "immutable-changed-through-call"

type dsource struct {
	name   string
	setup  string // statements that define x (nothing else refers to the literal: no mutable alias)
	spread string // the immutable array handed to the call
	module string // source of module "m", if the setup imports it
	whole  bool   // x itself is also passed whole in the argument family
}

var deriveSources = []dsource{
	{"immutable-flat", "x := immutable([1, 2, 3])", "x", "", true},
	{"freeze-flat", "x := freeze([1, 2, 3])", "x", "", true},
	{"freeze-map-list", "x := freeze({list: [[1], [2], [3]]})", "x.list", "", true},
	{"freeze-nested-first", "x := freeze([[1, 2, 3], [4]])", "x[0]", "", true},
	{"freeze-nested-root", "x := freeze([[1, 2], [3], {k: [4]}])", "x", "", false},
	{"immutable-of-mutable", "x := immutable([[1], [2]])", "x", "", true},
	{"immutable-of-immutable", "x := immutable({list: immutable([\"a\", \"b\"])})", "x.list", "", true},
	{"immutable-single", "x := immutable([7])", "x", "", false},
	{"export-array", "x := import(\"m\")", "x", "export [1, 2, 3]", true},
	{"export-frozen-map", "x := import(\"m\")", "x.list", "export freeze({list: [[1], [2], [3]], n: 0})", true},
	{"export-immutable-field", "x := import(\"m\")", "x.list", "y := immutable([1, 2, 3])\nexport {list: y}", false},
	{"builtin-module-frozen", "x := freeze(import(\"bm\"))", "x.list", "", true},
	{"host-immutable", "x := h", "x", "", true},
	{"made-in-function", "x := func() { return immutable([1, 2, 3]) }()", "x", "", false},
	{"splice-args", "x := freeze([[1, 2, 3], 0, 1])", "x", "", false},
}

// long arrays (a size threshold in the call path): a reduced set of arities, writes and call forms
var deriveLongSources = []dsource{
	{"immutable-long", "x := immutable(" + intList(40) + ")", "x", "", false},
	{"freeze-long", "x := freeze({n: 130, list: " + intList(130) + "})", "x.list", "", false},
}

func intList(n int) string {
	parts := make([]string, n)
	for i := range parts {
		parts[i] = fmt.Sprint(i)
	}
	return "[" + strings.Join(parts, ", ") + "]"
}

type dwrite struct {
	name string
	pre  string // definitions the body needs (before the callee is defined)
	body string // callee body; `a` is the variadic parameter
	post string // what the caller does with the result r
}

var deriveWrites = []dwrite{
	{"first", "", "if len(a) > 0 { a[0] = 99 }", ""},
	{"last", "", "if len(a) > 0 { a[len(a)-1] = 99 }", ""},
	{"all", "", "for i := 0; i < len(a); i++ { a[i] = undefined }", ""},
	{"swap", "", "if len(a) > 1 { t := a[0]; a[0] = a[1]; a[1] = t }", ""},
	{"append-self", "", "a = append(a, 4); a[0] = 98", ""},
	{"append-other", "", "b := append(a, 4); if len(b) > 1 { b[1] = 98 }; if len(a) > 0 { a[0] = 97 }", ""},
	{"slice", "", "b := a[:]; if len(b) > 0 { b[0] = 96 }; if len(a) > 1 { c := a[1:]; c[0] = 95 }", ""},
	{"splice", "", "splice(a, 0, 1, 94)", ""},
	{"add", "", "b := a + [5]; b[0] = 93; c := [5] + a; if len(c) > 1 { c[1] = 92 }", ""},
	{"copy", "", "b := copy(a); if len(b) > 0 { b[0] = 91 }", ""},
	{"iterate", "", "for i, e in a { a[i] = [e] }", ""},
	{"deep", "", "if len(a) > 0 && is_array(a[0]) && len(a[0]) > 0 { a[0][0] = 90 }; for e in a { if is_map(e) { e.k = 89 } }", ""},
	{"return", "", "return a", "if is_array(r) && len(r) > 0 { r[0] = 88 }"},
	{"closure", "", "return func(v) { if len(a) > 0 { a[0] = v } }", "r(87)"},
	{"nested-spread", "g := func(...b) { if len(b) > 0 { b[0] = 86 }; return b }", "return g(a...)", "if is_array(r) && len(r) > 0 { r[len(r)-1] = 85 }"},
	{"store", "keep := {}", "keep.v = a", "if len(keep.v) > 0 { keep.v[0] = 84 }"},
}

func params(fixed int) (decl string, names []string) {
	for i := 1; i <= fixed; i++ {
		names = append(names, fmt.Sprintf("p%d", i))
	}
	return strings.Join(append(append([]string{}, names...), "...a"), ", "), names
}

func explicitArgs(k int, tail string) string {
	var parts []string
	for i := 0; i < k; i++ {
		parts = append(parts, fmt.Sprintf("%d", 10*(i+1)))
	}
	return strings.Join(append(parts, tail), ", ")
}

// guardFixed: a fixed parameter that received a container is attacked too (only mutable containers are
// written: an immutable one ends the run, which the plain forms already do).
func guardFixed(names []string) string {
	var sb strings.Builder
	for _, n := range names {
		sb.WriteString(fmt.Sprintf("if is_array(%s) && len(%s) > 0 { %s[0] = 83 }; ", n, n, n))
	}
	return sb.String()
}

const (
	cfPlain = iota
	cfLiteral
	cfMethod
	cfArrayElem
	cfClosure
	cfLocal
	cfTail
	cfRecurse
	cfForward
	nCallForms
)

var callFormNames = []string{"plain", "literal", "method", "array-element", "closure", "local", "tail-call", "recursive", "forward"}

// deriveProgram: source, callee func(p1..p<fixed>, ...a) { w.body }, call with k explicit arguments and the
// spread operand, in the given call form.
func deriveProgram(s dsource, w dwrite, fixed, k, form int) string {
	decl, names := params(fixed)
	body := w.body
	if w.name == "deep" {
		body = guardFixed(names) + body
	}
	fn := "func(" + decl + ") { " + body + " }"
	args := explicitArgs(k, s.spread+"...")
	var sb strings.Builder
	line := func(t string) {
		if t != "" {
			sb.WriteString(t + "\n")
		}
	}
	line(s.setup)
	line(w.pre)
	switch form {
	case cfPlain:
		line("f := " + fn)
		line("r := f(" + args + ")")
	case cfLiteral:
		line("r := " + fn + "(" + args + ")")
	case cfMethod:
		line("o := {f: " + fn + "}")
		line("r := o.f(" + args + ")")
	case cfArrayElem:
		line("fs := [0, " + fn + "]")
		line("r := fs[1](" + args + ")")
	case cfClosure:
		line("mk := func() { n := 0; return func(" + decl + ") { n += 1; " + body + " } }")
		line("f := mk()")
		line("r := f(" + args + ")")
	case cfLocal:
		line("f := " + fn)
		line("outer := func(y) { z := y; return f(" + explicitArgs(k, "z...") + ") }")
		line("r := outer(" + s.spread + ")")
	case cfTail:
		// the self call in tail position re-uses the frame: its arguments are moved, not pushed
		line("f := func(" + strings.Join([]string{"n", decl}, ", ") + ") { if n > 0 { return f(n - 1, " + args + ") }; " + body + " }")
		line("r := f(1, " + args + ")")
	case cfRecurse:
		line("f := func(" + strings.Join([]string{"n", decl}, ", ") + ") { if n > 0 { t := f(n - 1, " + args + "); return t }; " + body + " }")
		line("r := f(1, " + args + ")")
	case cfForward:
		line("f := " + fn)
		line("fw := func(...y) { return f(y...) }")
		line("r := fw(" + args + ")")
	}
	line(w.post)
	line("done := true")
	return sb.String()
}

// builtinCalls: the spread operand handed to builtins and to a host function.
func builtinCalls(s dsource) []string {
	E := s.spread
	calls := []string{
		"r := append([], " + E + "...)\nif len(r) > 0 { r[0] = 99 }",
		"r := append([0], " + E + "...)\nif len(r) > 1 { r[1] = 98 }\nr2 := append(r[:1], 5)",
		"r := append(" + E + ", " + E + "...)\nr[0] = 97\nr[len(r)-1] = 96",
		"r := append(" + E + "...)\nif is_array(r) && len(r) > 0 { r[0] = 95 }",
		"r := poke(" + E + "...)",
		"r := poke(0, " + E + "...)",
		"r := format(\"%v %v %v\", " + E + "...)",
		"r := len(" + E + "...)",
		"r := copy(" + E + "...)\nif is_array(r) && len(r) > 0 { r[0] = 94 }",
		"r := splice(" + E + "...)",
		"r := delete(" + E + "...)",
		"f := func(...a) { a[0][0] = 93 }\nr := f(" + E + ")", // no spread: the immutable value is a[0]
	}
	out := make([]string, len(calls))
	for i, c := range calls {
		out[i] = s.setup + "\n" + c + "\ndone := true\n"
	}
	return out
}

// wholeArgPrograms: x passed whole; the callee attacks its parameter with the attacks of shapes.go.
func wholeArgPrograms(s dsource, kind byte) []string {
	cont, finals := attackLines("p", []cpath{{"", kind}})
	body := strings.Join(cont, "\n")
	var out []string
	callee := []struct{ decl, bind, args string }{
		{"p", "", "x"},
		{"...a", "p := a[0]\n", "x"},
		{"q, ...a", "p := a[len(a)-1]\n", "0, 1, x"},
		{"p, ...a", "", "x, x"},
	}
	for i, c := range callee {
		final := finals[i%len(finals)]
		out = append(out, s.setup+"\nf := func("+c.decl+") {\n"+c.bind+body+"\nreturn p\n}\nr := f("+c.args+")\ndone := true\n")
		out = append(out, s.setup+"\nf := func("+c.decl+") {\n"+c.bind+final+"\n}\nr := f("+c.args+")\ndone := true\n")
	}
	return out
}

func deriveInputs() (map[string]tengo.Object, func(modsrc string) *tengo.ModuleMap) {
	mkInts := func(n ...int64) []tengo.Object {
		el := make([]tengo.Object, len(n), len(n)+3) // spare capacity: an in-place append would be visible to a later one
		for i, v := range n {
			el[i] = intObj(v)
		}
		return el
	}
	inputs := map[string]tengo.Object{
		"h": &tengo.ImmutableArray{Value: mkInts(1, 2, 3)},
		"poke": &tengo.UserFunction{Name: "poke", Value: func(args ...tengo.Object) (tengo.Object, error) {
			for i := range args { // a host function owns the slice it is given: overwriting it must not reach any script value
				args[i] = intObj(99)
			}
			return tengo.UndefinedValue, nil
		}},
	}
	mods := func(modsrc string) *tengo.ModuleMap {
		mm := tengo.NewModuleMap()
		mm.AddBuiltinModule("bm", map[string]tengo.Object{
			"list": &tengo.ImmutableArray{Value: mkInts(1, 2, 3)},
			"n":    intObj(5),
		})
		if modsrc != "" {
			mm.AddSourceModule("m", []byte(modsrc))
		}
		return mm
	}
	return inputs, mods
}

// runDeriveProgram runs one program of the family under the per-instruction probe.
func runDeriveProgram(src, modsrc, tag string) {
	const stream = "immprog"
	inputs, mods := deriveInputs()
	in := map[string]interface{}{"kind": "derive-call", "source": src, "global": "x"}
	if modsrc != "" {
		in["modules"] = map[string]string{"m": modsrc}
	}
	pm := newMachine(stream)
	seen, reported := false, false
	ident, deep := "", ""
	var snaps int
	p, err := execProgram(src, mods(modsrc), inputs, func(p *progOut) {
		x := p.get("x")
		if x == nil {
			return
		}
		if !seen {
			seen = true
			for o := range immutablesOf(x) {
				pm.clean[o] = true
			}
			ident = pm.identSnap(x, 0)
			if allImmutable(x) {
				deep = lib.Canon(x)
			}
			return
		}
		snaps++
		now := pm.identSnap(x, 0)
		obs, exp, bad := now, ident, now != ident
		if !bad && deep != "" {
			if d := lib.Canon(x); d != deep {
				obs, exp, bad = d, deep, true
			}
		}
		if bad && !reported {
			reported = true
			res.Dist("violation:" + stream + ":" + sigThroughCall)
			res.Violate(lib.Violation{Signature: sigThroughCall, Stream: stream, Input: in, Observed: obs, Expected: exp,
				Oracle: "an immutable value (made from a literal / frozen / exported / host-built: no mutable alias of its storage) keeps its contents when it, or its elements by a spread call, are handed to a function, whatever the callee and the caller do with what they received"})
		}
	})
	if err != nil {
		res.Count(stream, src, false)
		res.Dist("derive:compile-error")
		if os.Getenv("C09_DEBUG") != "" {
			fmt.Fprintln(os.Stderr, "COMPILE derive", err, "\n"+src)
		}
		if tag != "" {
			res.Dist("derive:compile-error:" + tag)
		}
		return
	}
	res.Count(stream, src, seen && snaps > 0)
	res.Dist("derive:programs")
	if !seen {
		res.Dist("derive:x-never-set")
	}
	if os.Getenv("C09_DEBUG") == "2" && p.runErr != nil {
		fmt.Fprintln(os.Stderr, "RUNERR derive", tag, strings.SplitN(p.runErr.Error(), "\n", 2)[0])
	}
	if d := p.get("done"); d != nil {
		res.Dist("derive:ran-to-end")
	} else {
		outcomeDist("derive", p)
	}
}

// randomDerive: a random member of the family (random array contents and length, several writes in one
// callee, random arity and call form).
func randomDerive(r *lib.RNG) (src, modsrc string) {
	n := 1 + r.Intn(5)
	if r.Chance(1, 8) {
		n = lib.Pick(r, []int{8, 9, 16, 17, 33, 65, 130})
	}
	el := make([]string, n)
	for i := range el {
		switch r.Intn(6) {
		case 0:
			el[i] = fmt.Sprintf("[%d]", r.Intn(9))
		case 1:
			el[i] = fmt.Sprintf("{k: %d}", r.Intn(9))
		case 2:
			el[i] = "\"s\""
		default:
			el[i] = fmt.Sprint(r.Intn(9))
		}
	}
	lit := "[" + strings.Join(el, ", ") + "]"
	var s dsource
	switch r.Intn(8) {
	case 0:
		s = dsource{setup: "x := immutable(" + lit + ")", spread: "x"}
	case 1:
		s = dsource{setup: "x := freeze(" + lit + ")", spread: "x"}
	case 2:
		s = dsource{setup: "x := freeze({a: 1, list: " + lit + "})", spread: "x.list"}
	case 3:
		s = dsource{setup: "x := freeze([0, " + lit + "])", spread: "x[1]"}
	case 4:
		s = dsource{setup: "x := import(\"m\")", spread: "x", module: "export " + lit}
	case 5:
		s = dsource{setup: "x := import(\"m\")", spread: "x.list", module: "export freeze({list: " + lit + "})"}
	case 6:
		s = dsource{setup: "x := immutable([immutable(" + lit + "), 0])", spread: "x[0]"}
	default:
		s = dsource{setup: "t := {v: 0}\nt.v = freeze(" + lit + ")\nx := t.v", spread: "t.v"}
	}
	// several non-returning writes, then possibly a returning one
	var plain, ret []dwrite
	for _, w := range deriveWrites {
		if strings.HasPrefix(w.body, "return") {
			ret = append(ret, w)
		} else {
			plain = append(plain, w)
		}
	}
	w := dwrite{name: "mix"}
	var bodies, pres []string
	for i, k := 0, r.Intn(3); i <= k; i++ {
		c := lib.Pick(r, plain)
		bodies = append(bodies, "if true { "+c.body+" }") // own block: the writes declare the same temporaries
		if c.pre != "" && !strings.Contains(strings.Join(pres, "\n"), c.pre) {
			pres = append(pres, c.pre)
		}
		if c.post != "" && !strings.Contains(w.post, c.post) {
			w.post += c.post + "\n"
		}
	}
	if r.Chance(1, 3) {
		c := lib.Pick(r, ret)
		bodies = append(bodies, c.body)
		if c.pre != "" {
			pres = append(pres, c.pre)
		}
		w.post += c.post
	}
	w.body, w.pre = strings.Join(bodies, "; "), strings.Join(pres, "\n")
	fixed := r.Intn(3)
	k := fixed
	if r.Chance(1, 3) {
		k = r.Intn(4)
	}
	return deriveProgram(s, w, fixed, k, r.Intn(nCallForms)), s.module
}

func runDerive(r *lib.RNG, nRandom int, full bool) {
	n := 0
	run := func(src, modsrc, tag string) {
		n++
		runDeriveProgram(src, modsrc, tag)
	}
	// arities x writes x sources, plain call; the simplest member first (k == n == 0, first write, first source)
	arities := [][2]int{{0, 0}, {1, 1}, {2, 2}, {1, 0}, {2, 0}, {2, 1}, {0, 1}, {0, 2}, {0, 3}, {1, 2}, {1, 3}, {2, 3}}
	for _, ar := range arities {
		for _, w := range deriveWrites {
			for _, s := range deriveSources {
				run(deriveProgram(s, w, ar[0], ar[1], cfPlain), s.module, "arity")
			}
		}
	}
	// the other call forms, spread operand == variadic part (n = 0 and n = 1) and one straddling arity
	// (quick: every write and source for n = k = 0, the writes through an element / append / the returned array / a
	// second spread for the other two arities)
	for form := cfLiteral; form < nCallForms; form++ {
		for ai, ar := range [][2]int{{0, 0}, {1, 1}, {1, 0}} {
			for _, w := range deriveWrites {
				if ai > 0 && !full && w.name != "first" && w.name != "append-self" && w.name != "return" && w.name != "nested-spread" {
					continue
				}
				for _, s := range deriveSources {
					run(deriveProgram(s, w, ar[0], ar[1], form), s.module, callFormNames[form])
				}
			}
		}
	}
	for _, s := range deriveLongSources {
		for _, ar := range [][2]int{{0, 0}, {1, 1}, {1, 0}, {0, 1}} {
			for _, w := range deriveWrites {
				if w.name == "first" || w.name == "last" || w.name == "append-self" || w.name == "return" {
					for _, form := range []int{cfPlain, cfClosure, cfTail} {
						run(deriveProgram(s, w, ar[0], ar[1], form), s.module, "long")
					}
				}
			}
		}
		run(builtinCalls(s)[4], s.module, "long")
	}
	for _, s := range deriveSources {
		for _, src := range builtinCalls(s) {
			run(src, s.module, "builtin")
		}
		if s.whole {
			kind := byte('a')
			if strings.Contains(s.spread, ".") || s.name == "builtin-module-frozen" {
				kind = 'm'
			}
			for _, src := range wholeArgPrograms(s, kind) {
				run(src, s.module, "whole")
			}
		}
	}
	for i := 0; i < nRandom; i++ {
		src, modsrc := randomDerive(r.Fork())
		run(src, modsrc, "random")
	}
	res.Dist(fmt.Sprintf("derive:configurations=%d", n))
}
